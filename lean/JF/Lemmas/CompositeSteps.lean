import JF.Lemmas.CompositeEvents
/-!
Helper lemmas for C12, part 4: every event kind of `JF.Composite.step` preserves the invariant `AllGood`
(exact reading, threshold test replaced by `= 0`).  Admissibility hypotheses are the `assert`s of the code evaluated
after time-slicing plus, where marked *(one chain)*, the C07 fact that only one chain moves.
-/
namespace JF.Composite
open JF JF.Kin

/-! ### helpers for the per-event theorems -/

/-- conditions on one update relative to the leaf `l` it replaces (see `UpdsOK`) -/
def UOK (d : Nat) (t : Time ℚ) (l : PUnit ℚ) (u : Upd ℚ) : Prop :=
  (∀ v, u.vel = some v → v.length = d ∧ u.ts = some t) ∧
  (∀ dv, u.dv = some dv → dv.length = d) ∧
  (∀ k, dvAt u k = velOpt u.vel k - velAt l k) ∧
  (u.dv = none → ∀ k, velOpt u.vel k = velAt l k)

theorem updsOK_of {d : Nat} {t : Time ℚ} {ls : List (PUnit ℚ)} {ups : List (Upd ℚ)} (hnd : (ups.map (·.leaf)).Nodup)
    (h : ∀ u ∈ ups, ∃ l, ls[u.leaf]? = some l ∧ UOK d t l u) : UpdsOK d t ls ups := ⟨hnd, h⟩

theorem uok_stop {d : Nat} {t : Time ℚ} {l : PUnit ℚ} {v : List ℚ} (j : Nat) (hl : l.vel = some v) (hv : v.length = d) :
    UOK d t l ⟨j, none, none, some (vneg v)⟩ := by
  refine ⟨by simp, ?_, ?_, by simp⟩
  · intro dv h; simp only [Option.some.injEq] at h; subst h; simpa using hv
  · intro k; simp only [dvAt, velOpt, velAt, hl, getD_vneg]; ring

theorem uok_go {d : Nat} {t : Time ℚ} {l : PUnit ℚ} {v : List ℚ} (j : Nat) (hl : l.vel = none) (hv : v.length = d) :
    UOK d t l ⟨j, some v, some t, some v⟩ := by
  refine ⟨?_, ?_, ?_, by simp⟩
  · intro v' h; simp only [Option.some.injEq] at h; subst h; exact ⟨hv, rfl⟩
  · intro dv h; simp only [Option.some.injEq] at h; subst h; exact hv
  · intro k; simp only [dvAt, velOpt, velAt, hl]; ring

theorem uok_change {d : Nat} {t : Time ℚ} {l : PUnit ℚ} {old vn : List ℚ} (j : Nat) (hl : l.vel = some old)
    (ho : old.length = d) (hv : vn.length = d) : UOK d t l ⟨j, some vn, some t, some (vadd (vneg old) vn)⟩ := by
  have hlen : (vneg old).length = vn.length := by simp [ho, hv]
  refine ⟨?_, ?_, ?_, by simp⟩
  · intro v' h; simp only [Option.some.injEq] at h; subst h; exact ⟨hv, rfl⟩
  · intro dv h; simp only [Option.some.injEq] at h; subst h; rw [length_vadd _ _ hlen]; simpa using ho
  · intro k; simp only [dvAt, velOpt, velAt, hl, getD_vadd _ _ hlen, getD_vneg]; ring

theorem uok_same {d : Nat} {t : Time ℚ} {l : PUnit ℚ} {v : List ℚ} (j : Nat) (hl : l.vel = some v) (hv : v.length = d) :
    UOK d t l ⟨j, some v, some t, none⟩ := by
  refine ⟨?_, by simp, ?_, ?_⟩
  · intro v' h; simp only [Option.some.injEq] at h; subst h; exact ⟨hv, rfl⟩
  · intro k; simp only [dvAt, velOpt, velAt, hl]; ring
  · intro _ k; simp only [velOpt, velAt, hl]

theorem finalize_NZ {v : List ℚ} (h : NZ v) (j : Nat) (ts : Option (Time ℚ)) (dv : List ℚ) :
    finalize isZ j v ts dv = ⟨j, some v, ts, some dv⟩ := by
  have : v.all isZ = false := NZ_not_all_zero v h
  simp [finalize, this]

theorem finalize_zeros (old : List ℚ) (j : Nat) (ts : Option (Time ℚ)) (dv : List ℚ) :
    finalize isZ j (zeros Ops.rat old) ts dv = ⟨j, none, none, some dv⟩ := by
  have : (zeros Ops.rat old).all isZ = true := zeros_all old
  simp [finalize, this]

theorem applyUpds_of_good {d : Nat} {L : List ℚ} (hL : BoxOK d L) (t : Time ℚ) {c : CObj ℚ} {ups : List (Upd ℚ)}
    (hg : Good d L c) (hsl : LS t c) (hups : UpdsOK d t c.leaves ups) (hsh' : Sh (setLeaves c.leaves ups))
    (hmove : c.root.vel = none → (∃ u ∈ ups, u.dv ≠ none) → ∃ l ∈ setLeaves c.leaves ups, l.vel ≠ none) :
    Good d L (applyUpds Ops.rat isZ L t ups c) :=
  applyUpds_good hL t hg.wf hg.vel hg.rnz (hg.pos _) hsl hups hsh' hmove

/-- a moving member makes the root move -/
theorem root_moving {d : Nat} {L : List ℚ} {c : CObj ℚ} (hg : Good d L c) {l : PUnit ℚ} (hl : l ∈ c.leaves) (hm : l.vel ≠ none) :
    c.root.vel ≠ none := fun h => hm ((absent_iff hg.wf.2.2 hg.vel hg.sh hg.rnz).mp h l hl)

/-- the shared velocity of an object with a moving member `a` is `a`'s -/
theorem shared_of_moving {d : Nat} {L : List ℚ} {c : CObj ℚ} (hg : Good d L c) {a : PUnit ℚ} {v : List ℚ} (ha : a ∈ c.leaves)
    (hav : a.vel = some v) : NZ v ∧ ∀ l ∈ c.leaves, l.vel = none ∨ l.vel = some v := by
  obtain ⟨w, hw, hsh⟩ := hg.sh
  rcases hsh a ha with h | h
  · rw [hav] at h; exact absurd h (by simp)
  · rw [hav] at h; simp only [Option.some.injEq] at h; subst h; exact ⟨hw, hsh⟩

theorem at_rest_LS (t : Time ℚ) {c : CObj ℚ} (h : ∀ l ∈ c.leaves, l.vel = none) : LS t c :=
  fun l hl hne => absurd (h l hl) hne

/-! ### the events -/

theorem keep_good {d : Nat} {L : List ℚ} (hL : BoxOK d L) {cs : List (CObj ℚ)} (h : AllGood d L cs) (t : Time ℚ) (S : List Nat) :
    AllGood d L (step Ops.rat isZ L cs (.keep t S)) := (sliceAt_spec hL t S h).1

/-- cell-boundary event; hypothesis: the boundary `x` is the coordinate the unit has reached at the event time (exact
arithmetic: the event time was computed as the time at which the unit reaches that boundary) -/
theorem snap_good {d : Nat} {L : List ℚ} (hL : BoxOK d L) {cs : List (CObj ℚ)} (h : AllGood d L cs) (t : Time ℚ) (S : List Nat)
    (i : Nat) (j : Option Nat) (dd : Nat) (x : ℚ)
    (hx : ∀ c, (sliceAt Ops.rat L t S cs)[i]? = some c →
      match j with
      | none => x = c.root.pos.getD dd 0
      | some j => ∀ l, c.leaves[j]? = some l → x = l.pos.getD dd 0) :
    AllGood d L (step Ops.rat isZ L cs (.snap t S i j dd x)) := by
  have hG := (sliceAt_spec hL t S h).1
  show AllGood d L (snap Ops.rat L t S i j dd x cs)
  unfold snap
  apply allGood_modify hG
  intro c hc
  have hxc := hx c hc
  cases j with
  | none =>
    simp only at hxc ⊢
    rw [hxc, setCoord_getD]
    exact hG.get hc
  | some j =>
    simp only at hxc ⊢
    rw [modify_eq_self _ c.leaves j (fun l hl => by rw [hxc l hl, setCoord_getD])]
    exact hG.get hc

/-- `_exchange_velocity`. Hypotheses: the code's assertions (active leaf moves, target leaf at rest) and, for an exchange
between two objects, *(one chain)*: the receiving object is at rest. -/
theorem exchange_good {d : Nat} {L : List ℚ} (hL : BoxOK d L) {cs : List (CObj ℚ)} (h : AllGood d L cs) (t : Time ℚ)
    (S : List Nat) (i j i' j' : Nat) (hiS : i ∈ S) {a b : PUnit ℚ} {v : List ℚ}
    (ha : leafOf (sliceAt Ops.rat L t S cs) i j = some a) (hav : a.vel = some v)
    (hb : leafOf (sliceAt Ops.rat L t S cs) i' j' = some b) (hbv : b.vel = none)
    (hrest : i ≠ i' → ∀ c', (sliceAt Ops.rat L t S cs)[i']? = some c' → ∀ l ∈ c'.leaves, l.vel = none) :
    AllGood d L (step Ops.rat isZ L cs (.exchange t S i j i' j')) := by
  obtain ⟨hG, hS⟩ := sliceAt_spec hL t S h
  show AllGood d L (exchange Ops.rat isZ L t S i j i' j' cs)
  unfold exchange
  simp only [ha, hav]
  generalize sliceAt Ops.rat L t S cs = sl at *
  unfold leafOf at ha hb
  cases hc : sl[i]? with
  | none => simp [hc] at ha
  | some c =>
  cases hc' : sl[i']? with
  | none => simp [hc'] at hb
  | some c' =>
  simp only [hc] at ha
  simp only [hc'] at hb
  have gc := hG.get hc
  have gc' := hG.get hc'
  have ham := List.mem_of_getElem? ha
  have hbm := List.mem_of_getElem? hb
  obtain ⟨hvl, _⟩ := (gc.wf.2.1 a ham).2 v hav
  have hats : a.ts = some t := hS i hiS c hc a ham (by rw [hav]; simp)
  obtain ⟨hNZ, hshc⟩ := shared_of_moving gc ham hav
  rw [scale1_rat, hats]
  unfold apply2
  by_cases hii : i = i'
  · subst hii
    simp only [beq_self_eq_true, if_true]
    rw [hc] at hc'; simp only [Option.some.injEq] at hc'; subst hc'
    have hjj : j ≠ j' := by
      intro e; subst e
      rw [ha] at hb; simp only [Option.some.injEq] at hb; subst hb
      rw [hav] at hbv; exact absurd hbv (by simp)
    apply allGood_modify hG
    intro c0 hc0
    rw [hc] at hc0; simp only [Option.some.injEq] at hc0; subst hc0
    apply applyUpds_of_good hL t gc (hS i hiS c hc)
    · apply updsOK_of
      · simpa using hjj
      · intro u hu
        simp only [List.cons_append, List.nil_append, List.mem_cons, List.not_mem_nil, or_false] at hu
        rcases hu with rfl | rfl
        · exact ⟨a, ha, uok_stop j hav hvl⟩
        · exact ⟨b, hb, uok_go j' hbv hvl⟩
    · apply sh_setLeaves hNZ
      · intro k l hk _; exact hshc l (List.mem_of_getElem? hk)
      · intro u hu
        simp only [List.cons_append, List.nil_append, List.mem_cons, List.not_mem_nil, or_false] at hu
        rcases hu with rfl | rfl
        · exact Or.inl rfl
        · exact Or.inr rfl
    · intro hroot; exact absurd hroot (root_moving gc ham (by rw [hav]; simp))
  · have hbeq : (i == i') = false := by simpa using hii
    simp only [hbeq, Bool.false_eq_true, if_false]
    have hrest' := hrest hii c' hc'
    have hG1 : AllGood d L (sl.modify i (applyUpds Ops.rat isZ L t [⟨j, none, none, some (vneg v)⟩])) := by
      apply allGood_modify hG
      intro c0 hc0
      rw [hc] at hc0; simp only [Option.some.injEq] at hc0; subst hc0
      apply applyUpds_of_good hL t gc (hS i hiS c hc)
      · apply updsOK_of (by simp)
        intro u hu
        simp only [List.mem_cons, List.not_mem_nil, or_false] at hu
        subst hu
        exact ⟨a, ha, uok_stop j hav hvl⟩
      · apply sh_setLeaves hNZ
        · intro k l hk _; exact hshc l (List.mem_of_getElem? hk)
        · intro u hu
          simp only [List.mem_cons, List.not_mem_nil, or_false] at hu
          subst hu; exact Or.inl rfl
      · intro hroot; exact absurd hroot (root_moving gc ham (by rw [hav]; simp))
    apply allGood_modify hG1
    intro c0 hc0
    rw [getElem?_modify_ne _ _ hii, hc'] at hc0; simp only [Option.some.injEq] at hc0; subst hc0
    apply applyUpds_of_good hL t gc' (at_rest_LS t hrest')
    · apply updsOK_of (by simp)
      intro u hu
      simp only [List.mem_cons, List.not_mem_nil, or_false] at hu
      subst hu
      exact ⟨b, hb, uok_go j' hbv hvl⟩
    · apply sh_setLeaves hNZ
      · intro k l hk _; exact Or.inl (hrest' l (List.mem_of_getElem? hk))
      · intro u hu
        simp only [List.mem_cons, List.not_mem_nil, or_false] at hu
        subst hu; exact Or.inr rfl
    · intro _ _
      refine ⟨_, mem_setLeaves_last c'.leaves [] ⟨j', some v, some t, some v⟩ b hb, ?_⟩
      simp [setU]


/-! ### building blocks on one composite object -/

theorem mem_range_of_getElem? {β : Type} {ls : List β} {k : Nat} {l : β} (h : ls[k]? = some l) : k ∈ List.range ls.length := by
  rw [List.mem_range]
  by_contra hk
  rw [List.getElem?_eq_none (by omega)] at h
  exact absurd h (by simp)

theorem exists_getElem?_of_lt {β : Type} {ls : List β} {k : Nat} (h : k < ls.length) : ∃ l, ls[k]? = some l ∧ l ∈ ls :=
  ⟨ls[k], List.getElem?_eq_getElem h, List.getElem_mem h⟩

/-- one moving leaf stops -/
theorem stop_leaf_good {d : Nat} {L : List ℚ} (hL : BoxOK d L) (t : Time ℚ) {c : CObj ℚ} (gc : Good d L c) (hsl : LS t c)
    {j : Nat} {a : PUnit ℚ} {v : List ℚ} (ha : c.leaves[j]? = some a) (hav : a.vel = some v) :
    Good d L (applyUpds Ops.rat isZ L t [⟨j, none, none, some (vneg v)⟩] c) := by
  have ham := List.mem_of_getElem? ha
  obtain ⟨hvl, _⟩ := (gc.wf.2.1 a ham).2 v hav
  obtain ⟨hNZ, hshc⟩ := shared_of_moving gc ham hav
  apply applyUpds_of_good hL t gc hsl
  · apply updsOK_of (by simp)
    intro u hu
    simp only [List.mem_cons, List.not_mem_nil, or_false] at hu
    subst hu
    exact ⟨a, ha, uok_stop j hav hvl⟩
  · apply sh_setLeaves hNZ
    · intro k l hk _; exact hshc l (List.mem_of_getElem? hk)
    · intro u hu
      simp only [List.mem_cons, List.not_mem_nil, or_false] at hu
      subst hu; exact Or.inl rfl
  · intro hroot; exact absurd hroot (root_moving gc ham (by rw [hav]; simp))

/-- one leaf of an object at rest starts to move -/
theorem go_leaf_good {d : Nat} {L : List ℚ} (hL : BoxOK d L) (t : Time ℚ) {c : CObj ℚ} (gc : Good d L c)
    (hrest : ∀ l ∈ c.leaves, l.vel = none) {j : Nat} {b : PUnit ℚ} (hb : c.leaves[j]? = some b) {v : List ℚ} (hNZ : NZ v)
    (hvl : v.length = d) : Good d L (applyUpds Ops.rat isZ L t [⟨j, some v, some t, some v⟩] c) := by
  apply applyUpds_of_good hL t gc (at_rest_LS t hrest)
  · apply updsOK_of (by simp)
    intro u hu
    simp only [List.mem_cons, List.not_mem_nil, or_false] at hu
    subst hu
    exact ⟨b, hb, uok_go j (hrest b (List.mem_of_getElem? hb)) hvl⟩
  · apply sh_setLeaves hNZ
    · intro k l hk _; exact Or.inl (hrest l (List.mem_of_getElem? hk))
    · intro u hu
      simp only [List.mem_cons, List.not_mem_nil, or_false] at hu
      subst hu; exact Or.inr rfl
  · intro _ _
    refine ⟨_, mem_setLeaves_last c.leaves [] ⟨j, some v, some t, some v⟩ b hb, ?_⟩
    simp [setU]

/-- within one object: leaf `j` stops, leaf `j'` (at rest) moves on with `vn` -/
theorem move_leaf_good {d : Nat} {L : List ℚ} (hL : BoxOK d L) (t : Time ℚ) {c : CObj ℚ} (gc : Good d L c) (hsl : LS t c)
    {j j' : Nat} {a b : PUnit ℚ} {old vn : List ℚ} (ha : c.leaves[j]? = some a) (hav : a.vel = some old)
    (hb : c.leaves[j']? = some b) (hbv : b.vel = none) (hNZ : NZ vn) (hvl : vn.length = d)
    (hothers : ∀ k l, c.leaves[k]? = some l → k ≠ j → k ≠ j' → l.vel = none ∨ l.vel = some vn) :
    Good d L (applyUpds Ops.rat isZ L t [⟨j, none, none, some (vneg old)⟩, ⟨j', some vn, some t, some vn⟩] c) := by
  have ham := List.mem_of_getElem? ha
  obtain ⟨hol, _⟩ := (gc.wf.2.1 a ham).2 old hav
  have hjj : j ≠ j' := by
    intro e; subst e
    rw [ha] at hb; simp only [Option.some.injEq] at hb; subst hb
    rw [hav] at hbv; exact absurd hbv (by simp)
  apply applyUpds_of_good hL t gc hsl
  · apply updsOK_of
    · simpa using hjj
    · intro u hu
      simp only [List.mem_cons, List.not_mem_nil, or_false] at hu
      rcases hu with rfl | rfl
      · exact ⟨a, ha, uok_stop j hav hol⟩
      · exact ⟨b, hb, uok_go j' hbv hvl⟩
  · apply sh_setLeaves hNZ
    · intro k l hk hnot
      simp only [List.map_cons, List.map_nil, List.mem_cons, List.not_mem_nil, or_false, not_or] at hnot
      exact hothers k l hk hnot.1 hnot.2
    · intro u hu
      simp only [List.mem_cons, List.not_mem_nil, or_false] at hu
      rcases hu with rfl | rfl
      · exact Or.inl rfl
      · exact Or.inr rfl
  · intro hroot; exact absurd hroot (root_moving gc ham (by rw [hav]; simp))

/-- every leaf is addressed by `(List.range n).map mk` -/
theorem all_touched {P : PUnit ℚ → Prop} {ls : List (PUnit ℚ)} (mk : Nat → Upd ℚ) (hleaf : ∀ k, (mk k).leaf = k)
    (hP : ∀ k l, P (setU (mk k) l)) : ∀ l ∈ setLeaves ls ((List.range ls.length).map mk), P l := by
  apply forall_mem_setLeaves'
  · intro j l hj hnot
    exfalso; apply hnot
    rw [List.map_map]
    exact List.mem_map.mpr ⟨j, mem_range_of_getElem? hj, hleaf j⟩
  · intro u hu l
    obtain ⟨k, _, rfl⟩ := List.mem_map.mp hu
    exact hP k l

/-- all leaves of a moving object stop (`_pass_composite_object_velocity`, end of chain in root mode) -/
theorem stop_all_good {d : Nat} {L : List ℚ} (hL : BoxOK d L) (t : Time ℚ) {c : CObj ℚ} (gc : Good d L c) (hsl : LS t c)
    {v : List ℚ} (hall : ∀ l ∈ c.leaves, l.vel = some v) :
    Good d L (applyUpds Ops.rat isZ L t ((List.range c.leaves.length).map (fun k => ⟨k, none, none, some (vneg v)⟩)) c) := by
  obtain ⟨a, ham⟩ := List.exists_mem_of_ne_nil _ gc.wf.2.2
  have hav := hall a ham
  obtain ⟨hvl, _⟩ := (gc.wf.2.1 a ham).2 v hav
  obtain ⟨hNZ, _⟩ := shared_of_moving gc ham hav
  apply applyUpds_of_good hL t gc hsl
  · apply updsOK_map _ _ (fun _ => rfl) List.nodup_range
    intro k hk
    obtain ⟨l, hl, hlm⟩ := exists_getElem?_of_lt (List.mem_range.mp hk)
    exact ⟨l, hl, uok_stop k (hall l hlm) hvl⟩
  · exact ⟨v, hNZ, all_touched _ (fun _ => rfl) (fun k l => Or.inl rfl)⟩
  · intro hroot; exact absurd hroot (root_moving gc ham (by rw [hav]; simp))

/-- all leaves of an object at rest start to move with `v` -/
theorem go_all_good {d : Nat} {L : List ℚ} (hL : BoxOK d L) (t : Time ℚ) {c : CObj ℚ} (gc : Good d L c)
    (hrest : ∀ l ∈ c.leaves, l.vel = none) {v : List ℚ} (hNZ : NZ v) (hvl : v.length = d) :
    Good d L (applyUpds Ops.rat isZ L t ((List.range c.leaves.length).map (fun k => ⟨k, some v, some t, some v⟩)) c) := by
  have hall := all_touched (P := fun l => l.vel = some v) (ls := c.leaves) (fun k => ⟨k, some v, some t, some v⟩)
    (fun _ => rfl) (fun k l => rfl)
  apply applyUpds_of_good hL t gc (at_rest_LS t hrest)
  · apply updsOK_map _ _ (fun _ => rfl) List.nodup_range
    intro k hk
    obtain ⟨l, hl, hlm⟩ := exists_getElem?_of_lt (List.mem_range.mp hk)
    exact ⟨l, hl, uok_go k (hrest l hlm) hvl⟩
  · exact ⟨v, hNZ, fun l hl => Or.inr (hall l hl)⟩
  · intro _ _
    have hne : setLeaves c.leaves ((List.range c.leaves.length).map (fun k => (⟨k, some v, some t, some v⟩ : Upd ℚ))) ≠ [] := by
      intro h
      have := setLeaves_length ((List.range c.leaves.length).map (fun k => (⟨k, some v, some t, some v⟩ : Upd ℚ))) c.leaves
      rw [h] at this
      exact gc.wf.2.2 (List.length_eq_zero_iff.mp this.symm)
    obtain ⟨l, hl⟩ := List.exists_mem_of_ne_nil _ hne
    exact ⟨l, hl, by rw [hall l hl]; simp⟩

/-- all leaves of a moving object change their velocity from `old` to `vn` (end of chain in root mode, same object) -/
theorem change_all_good {d : Nat} {L : List ℚ} (hL : BoxOK d L) (t : Time ℚ) {c : CObj ℚ} (gc : Good d L c) (hsl : LS t c)
    {old vn : List ℚ} (hall : ∀ l ∈ c.leaves, l.vel = some old) (hNZ : NZ vn) (hvl : vn.length = d) :
    Good d L (applyUpds Ops.rat isZ L t
      ((List.range c.leaves.length).map (fun k => ⟨k, some vn, (c.leaves[k]?).bind (·.ts), some (vadd (vneg old) vn)⟩)) c) := by
  obtain ⟨a, ham⟩ := List.exists_mem_of_ne_nil _ gc.wf.2.2
  have hav := hall a ham
  obtain ⟨hol, _⟩ := (gc.wf.2.1 a ham).2 old hav
  apply applyUpds_of_good hL t gc hsl
  · apply updsOK_map _ _ (fun _ => rfl) List.nodup_range
    intro k hk
    obtain ⟨l, hl, hlm⟩ := exists_getElem?_of_lt (List.mem_range.mp hk)
    have hts : l.ts = some t := hsl l hlm (by rw [hall l hlm]; simp)
    refine ⟨l, hl, ?_⟩
    show UOK d t l ⟨k, some vn, (c.leaves[k]?).bind (·.ts), some (vadd (vneg old) vn)⟩
    rw [hl]
    show UOK d t l ⟨k, some vn, l.ts, some (vadd (vneg old) vn)⟩
    rw [hts]
    exact uok_change k (hall l hlm) hol hvl
  · exact ⟨vn, hNZ, all_touched _ (fun _ => rfl) (fun k l => Or.inr rfl)⟩
  · intro hroot; exact absurd hroot (root_moving gc ham (by rw [hav]; simp))

/-- the leaves time-sliced, the root not (the root copy of the second branch in an end-of-chain out-state) -/
theorem sliceLeaves_good {d : Nat} {L : List ℚ} (hL : BoxOK d L) (t : Time ℚ) {c : CObj ℚ} (h : Good d L c) :
    Good d L { sliceComp Ops.rat L t c with root := c.root } ∧ LS t { sliceComp Ops.rat L t c with root := c.root } := by
  obtain ⟨hs, hls⟩ := sliceComp_good hL t h
  refine ⟨⟨⟨h.wf.1, hs.wf.2.1, hs.wf.2.2⟩, ?_, hs.sh, h.rnz, ?_⟩, hls⟩
  · intro k
    have := hs.vel k
    simp only [sliceComp] at this ⊢
    rw [← this]; simp [velAt]
  · intro τ k hk
    have hk' : k < d := by rw [← hL.1]; exact hk
    have h1 := hs.pos τ k hk
    simp only [sliceComp] at h1 ⊢
    exact (Cong.nat_mul _ ((timeSlice_spec hL t h.wf.1).2.2 τ k hk')).symm.trans h1

/-! ### the remaining events -/

theorem sliceAt_single (L : List ℚ) (t : Time ℚ) (i : Nat) (cs : List (CObj ℚ)) :
    sliceAt Ops.rat L t [i] cs = cs.modify i (sliceComp Ops.rat L t) := rfl

theorem passLocalUpds_rat (v : List ℚ) (n : Nat) :
    passLocalUpds Ops.rat v n = (List.range n).map (fun k => (⟨k, none, none, some (vneg v)⟩ : Upd ℚ)) := by
  simp [passLocalUpds]

theorem passTargetUpds_rat (t : Time ℚ) (v : List ℚ) (n : Nat) :
    passTargetUpds Ops.rat t v n = (List.range n).map (fun k => (⟨k, some v, some t, some v⟩ : Upd ℚ)) := by
  simp [passTargetUpds]

/-- `_pass_composite_object_velocity`. Hypotheses = the two assertions of the method (all leaves of the local object share
the velocity of its first leaf, all leaves of the target object are at rest) and `iL ≠ iT`. -/
theorem pass_good {d : Nat} {L : List ℚ} (hL : BoxOK d L) {cs : List (CObj ℚ)} (h : AllGood d L cs) (t : Time ℚ)
    (S : List Nat) (iL iT : Nat) (hiS : iL ∈ S) (hne : iL ≠ iT) {cL cT : CObj ℚ} {v : List ℚ}
    (hcL : (sliceAt Ops.rat L t S cs)[iL]? = some cL) (hcT : (sliceAt Ops.rat L t S cs)[iT]? = some cT)
    (hall : ∀ l ∈ cL.leaves, l.vel = some v) (hrest : ∀ l ∈ cT.leaves, l.vel = none) :
    AllGood d L (step Ops.rat isZ L cs (.pass t S iL iT)) := by
  obtain ⟨hG, hS⟩ := sliceAt_spec hL t S h
  show AllGood d L (pass Ops.rat isZ L t S iL iT cs)
  unfold pass
  generalize sliceAt Ops.rat L t S cs = sl at *
  have gL := hG.get hcL
  have gT := hG.get hcT
  obtain ⟨a, ha, ham⟩ := exists_getElem?_of_lt (List.length_pos_iff.mpr gL.wf.2.2)
  have hav := hall a ham
  obtain ⟨hvl, _⟩ := (gL.wf.2.1 a ham).2 v hav
  obtain ⟨hNZ, _⟩ := shared_of_moving gL ham hav
  have hleaf : leafOf sl iL 0 = some a := by simp [leafOf, hcL, ha]
  have hbeq : (iL == iT) = false := by simpa using hne
  simp only [hleaf, hcL, hcT, hav, hbeq, Bool.false_eq_true, if_false, passLocalUpds_rat, passTargetUpds_rat]
  apply allGood_modify
  · apply allGood_modify hG
    intro c0 hc0
    rw [hcL] at hc0; simp only [Option.some.injEq] at hc0; subst hc0
    exact stop_all_good hL t gL (hS iL hiS _ hcL) hall
  · intro c0 hc0
    rw [getElem?_modify_ne _ _ hne, hcT] at hc0; simp only [Option.some.injEq] at hc0; subst hc0
    exact go_all_good hL t gT hrest hNZ hvl

/-- start of run. Hypotheses: the object is at rest (initial state), `P` lists distinct existing leaves, at least one; the
initial velocity is non-zero (`speed > 0` is enforced by the constructor). -/
theorem start_good {d : Nat} {L : List ℚ} (hL : BoxOK d L) {cs : List (CObj ℚ)} (h : AllGood d L cs)
    (i : Nat) (P : List Nat) (v : List ℚ) {c : CObj ℚ} (hc : cs[i]? = some c) (hrest : ∀ l ∈ c.leaves, l.vel = none)
    (hP : P.Nodup) (hPn : ∀ k ∈ P, k < c.leaves.length) (hPne : P ≠ []) (hNZ : NZ v) (hvl : v.length = d) :
    AllGood d L (step Ops.rat isZ L cs (.start i P v)) := by
  show AllGood d L (start Ops.rat isZ L i P v cs)
  unfold start
  have e : (P.zipIdx.map (fun (x : Nat × Nat) => match x with
      | (k, m) => (⟨k, some (scaleN Ops.rat m v), some ⟨Ops.rat.ofInt 0, Ops.rat.ofInt 0⟩, some (scaleN Ops.rat m v)⟩ : Upd ℚ)))
      = P.map (fun k => (⟨k, some v, some ⟨Ops.rat.ofInt 0, Ops.rat.ofInt 0⟩, some v⟩ : Upd ℚ)) := by
    rw [← zipIdx_map_fst (fun k => (⟨k, some v, some ⟨Ops.rat.ofInt 0, Ops.rat.ofInt 0⟩, some v⟩ : Upd ℚ)) P 0]
    apply List.map_congr_left
    rintro ⟨k, m⟩ _
    simp
  simp only [e]
  apply allGood_modify h
  intro c0 hc0
  rw [hc] at hc0; simp only [Option.some.injEq] at hc0; subst hc0
  have gc := h.get hc
  apply applyUpds_of_good hL _ gc (at_rest_LS _ hrest)
  · apply updsOK_map _ _ (fun _ => rfl) hP
    intro k hk
    obtain ⟨l, hl, hlm⟩ := exists_getElem?_of_lt (hPn k hk)
    exact ⟨l, hl, uok_go k (hrest l hlm) hvl⟩
  · apply sh_setLeaves hNZ
    · intro k l hk _; exact Or.inl (hrest l (List.mem_of_getElem? hk))
    · intro u hu
      obtain ⟨k, _, rfl⟩ := List.mem_map.mp hu
      exact Or.inr rfl
  · intro _ _
    obtain ⟨k0, hk0⟩ := List.exists_mem_of_ne_nil _ hPne
    -- the last entry of `P` is not overwritten
    obtain ⟨P', kl, rfl⟩ : ∃ P' kl, P = P' ++ [kl] := by
      rcases List.eq_nil_or_concat P with h0 | ⟨P', kl, h0⟩
      · exact absurd h0 hPne
      · exact ⟨P', kl, by simpa using h0⟩
    obtain ⟨l, hl, _⟩ := exists_getElem?_of_lt (hPn kl (by simp))
    rw [List.map_append, List.map_cons, List.map_nil]
    have hnot : kl ∉ (P'.map (fun k => (⟨k, some v, some ⟨Ops.rat.ofInt 0, Ops.rat.ofInt 0⟩, some v⟩ : Upd ℚ))).map (·.leaf) := by
      rw [List.map_map]
      intro hmem
      obtain ⟨k, hk, hkk⟩ := List.mem_map.mp hmem
      simp only [Function.comp] at hkk
      subst hkk
      have := List.nodup_append.mp hP
      exact this.2.2 k hk k (by simp) rfl
    refine ⟨_, mem_setLeaves_last c.leaves _ ⟨kl, some v, some ⟨Ops.rat.ofInt 0, Ops.rat.ofInt 0⟩, some v⟩ l
      (by rw [setLeaves_getElem?_of_not_mem _ _ _ hnot]; exact hl), ?_⟩
    simp [setU]

/-- switcher to leaf mode. Hypothesis = the assertion of the method: all leaves of the object share the velocity of the
first leaf. -/
theorem toLeaf_good {d : Nat} {L : List ℚ} (hL : BoxOK d L) {cs : List (CObj ℚ)} (h : AllGood d L cs) (t : Time ℚ)
    (i ch : Nat) {co : CObj ℚ} {v : List ℚ} (hco : (sliceAt Ops.rat L t [i] cs)[i]? = some co)
    (hall : ∀ l ∈ co.leaves, l.vel = some v) :
    AllGood d L (step Ops.rat isZ L cs (.toLeaf t i ch)) := by
  obtain ⟨hG, hS⟩ := sliceAt_spec hL t [i] h
  show AllGood d L (toLeaf Ops.rat isZ L t i ch cs)
  unfold toLeaf
  generalize sliceAt Ops.rat L t [i] cs = sl at *
  have gc := hG.get hco
  obtain ⟨a, ha, ham⟩ := exists_getElem?_of_lt (List.length_pos_iff.mpr gc.wf.2.2)
  have hav := hall a ham
  obtain ⟨hvl, _⟩ := (gc.wf.2.1 a ham).2 v hav
  obtain ⟨hNZ, _⟩ := shared_of_moving gc ham hav
  have hleaf : leafOf sl i 0 = some a := by simp [leafOf, hco, ha]
  simp only [hleaf, hco, hav]
  have e : ∀ ks : List Nat, (ks.zipIdx.map (fun (x : Nat × Nat) => match x with
      | (k, m) => (⟨k, none, none, some (scaleN Ops.rat m (vneg v))⟩ : Upd ℚ)))
      = ks.map (fun k => (⟨k, none, none, some (vneg v)⟩ : Upd ℚ)) := by
    intro ks
    rw [← zipIdx_map_fst (fun k => (⟨k, none, none, some (vneg v)⟩ : Upd ℚ)) ks 0]
    apply List.map_congr_left
    rintro ⟨k, m⟩ _
    simp
  simp only [e]
  apply allGood_modify hG
  intro c0 hc0
  rw [hco] at hc0; simp only [Option.some.injEq] at hc0; subst hc0
  apply applyUpds_of_good hL t gc (hS i (by simp) _ hco)
  · apply updsOK_map _ _ (fun _ => rfl) (List.Nodup.sublist List.filter_sublist List.nodup_range)
    intro k hk
    obtain ⟨l, hl, hlm⟩ := exists_getElem?_of_lt (List.mem_range.mp (List.mem_filter.mp hk).1)
    exact ⟨l, hl, uok_stop k (hall l hlm) hvl⟩
  · apply sh_setLeaves hNZ
    · intro k l hk _; exact Or.inr (hall l (List.mem_of_getElem? hk))
    · intro u hu
      obtain ⟨k, _, rfl⟩ := List.mem_map.mp hu
      exact Or.inl rfl
  · intro hroot; exact absurd hroot (root_moving gc ham (by rw [hav]; simp))

/-- switcher to root mode. Hypotheses = the assertion of the method: exactly one leaf (index `a`, the first moving one)
moves. -/
theorem toRoot_good {d : Nat} {L : List ℚ} (hL : BoxOK d L) {cs : List (CObj ℚ)} (h : AllGood d L cs) (t : Time ℚ)
    (i : Nat) {co : CObj ℚ} {a : Nat} {ua : PUnit ℚ} {v : List ℚ} (hco : (sliceAt Ops.rat L t [i] cs)[i]? = some co)
    (hact : activeLeaf co = some a) (hua : co.leaves[a]? = some ua) (hv : ua.vel = some v)
    (hothers : ∀ k l, co.leaves[k]? = some l → k ≠ a → l.vel = none) :
    AllGood d L (step Ops.rat isZ L cs (.toRoot t i)) := by
  obtain ⟨hG, hS⟩ := sliceAt_spec hL t [i] h
  show AllGood d L (toRoot Ops.rat isZ L t i cs)
  unfold toRoot
  generalize sliceAt Ops.rat L t [i] cs = sl at *
  have gc := hG.get hco
  have ham := List.mem_of_getElem? hua
  obtain ⟨hvl, _⟩ := (gc.wf.2.1 ua ham).2 v hv
  obtain ⟨hNZ, _⟩ := shared_of_moving gc ham hv
  have hts : ua.ts = some t := hS i (by simp) _ hco ua ham (by rw [hv]; simp)
  simp only [hco, hact, hua, hv, hts, scaleN_rat]
  rw [zipIdx_map_fst (fun k => (⟨k, some v, some t, some v⟩ : Upd ℚ))]
  apply allGood_modify hG
  intro c0 hc0
  rw [hco] at hc0; simp only [Option.some.injEq] at hc0; subst hc0
  have hleaves : ((List.filter (fun x => x != a) (List.range co.leaves.length)).map
      (fun k => (⟨k, some v, some t, some v⟩ : Upd ℚ)) ++ [(⟨a, some v, some t, none⟩ : Upd ℚ)]).map (fun u => u.leaf)
      = List.filter (fun x => x != a) (List.range co.leaves.length) ++ [a] := by
    rw [List.map_append, List.map_map]
    congr 1
    exact (List.map_congr_left (fun k _ => rfl)).trans (List.map_id _)
  apply applyUpds_of_good hL t gc (hS i (by simp) _ hco)
  · apply updsOK_of
    · rw [hleaves]
      apply List.nodup_append.mpr
      refine ⟨List.Nodup.sublist List.filter_sublist List.nodup_range, by simp, ?_⟩
      intro x hx y hy
      simp only [List.mem_cons, List.not_mem_nil, or_false] at hy
      subst hy
      have := (List.mem_filter.mp hx).2
      simpa using this
    · intro u hu
      rcases List.mem_append.mp hu with hu | hu
      · obtain ⟨k, hk, rfl⟩ := List.mem_map.mp hu
        obtain ⟨hk1, hk2⟩ := List.mem_filter.mp hk
        obtain ⟨l, hl, _⟩ := exists_getElem?_of_lt (List.mem_range.mp hk1)
        exact ⟨l, hl, uok_go k (hothers k l hl (by simpa using hk2)) hvl⟩
      · simp only [List.mem_cons, List.not_mem_nil, or_false] at hu
        subst hu
        exact ⟨ua, hua, uok_same a hv hvl⟩
  · apply sh_setLeaves hNZ
    · intro k l hk hnot
      exfalso; apply hnot
      rw [hleaves]
      by_cases hka : k = a
      · simp [hka]
      · apply List.mem_append_left
        exact List.mem_filter.mpr ⟨mem_range_of_getElem? hk, by simpa using hka⟩
    · intro u hu
      rcases List.mem_append.mp hu with hu | hu
      · obtain ⟨k, _, rfl⟩ := List.mem_map.mp hu
        exact Or.inr rfl
      · simp only [List.mem_cons, List.not_mem_nil, or_false] at hu
        subst hu; exact Or.inr rfl
  · intro hroot; exact absurd hroot (root_moving gc ham (by rw [hv]; simp))

/-- end of chain in root mode. Hypotheses = the assertions of `send_out_state` (all leaves of the active object share one
velocity; the leaves of a *different* new object are at rest) and a non-zero new velocity of the right length. -/
theorem eocRoot_good {d : Nat} {L : List ℚ} (hL : BoxOK d L) {cs : List (CObj ℚ)} (h : AllGood d L cs) (t : Time ℚ)
    (i i' : Nat) (vn : List ℚ) {c c' : CObj ℚ} {old : List ℚ}
    (hc : (sliceAt Ops.rat L t [i] cs)[i]? = some c) (hc' : (sliceAt Ops.rat L t [i] cs)[i']? = some c')
    (hall : ∀ l ∈ c.leaves, l.vel = some old) (hrest : i ≠ i' → ∀ l ∈ c'.leaves, l.vel = none)
    (hNZ : NZ vn) (hvl : vn.length = d) :
    AllGood d L (step Ops.rat isZ L cs (.eocRoot t i i' vn)) := by
  obtain ⟨hG, hS⟩ := sliceAt_spec hL t [i] h
  show AllGood d L (eocRoot Ops.rat isZ L t i i' vn cs)
  unfold eocRoot
  generalize sliceAt Ops.rat L t [i] cs = sl at *
  have gc := hG.get hc
  have gc' := hG.get hc'
  obtain ⟨a, ha, ham⟩ := exists_getElem?_of_lt (List.length_pos_iff.mpr gc.wf.2.2)
  have hav := hall a ham
  have hleaf : leafOf sl i 0 = some a := by simp [leafOf, hc, ha]
  simp only [hleaf, hc, hc', hav, finalize_NZ hNZ, finalize_zeros]
  by_cases hii : i = i'
  · subst hii
    simp only [beq_self_eq_true, if_true]
    apply allGood_modify hG
    intro c0 hc0
    rw [hc] at hc0; simp only [Option.some.injEq] at hc0; subst hc0
    exact change_all_good hL t gc (hS i (by simp) _ hc) hall hNZ hvl
  · have hbeq : (i == i') = false := by simpa using hii
    simp only [hbeq, Bool.false_eq_true, if_false]
    apply allGood_modify
    · apply allGood_modify hG
      intro c0 hc0
      rw [hc] at hc0; simp only [Option.some.injEq] at hc0; subst hc0
      exact stop_all_good hL t gc (hS i (by simp) _ hc) hall
    · intro c0 hc0
      rw [getElem?_modify_ne _ _ hii, hc'] at hc0; simp only [Option.some.injEq] at hc0; subst hc0
      exact go_all_good hL t gc' (hrest hii) hNZ hvl

/-- end of chain in leaf mode. Hypotheses: leaf `(i, j)` is the only moving leaf of its object (leaf mode); the new leaf
exists; if it lies in another object, that object is at rest *(one chain; the code asserts it for the new leaf)*; the new
velocity is non-zero and has the right length. -/
theorem eocLeaf_good {d : Nat} {L : List ℚ} (hL : BoxOK d L) {cs : List (CObj ℚ)} (h : AllGood d L cs) (t : Time ℚ)
    (i j i' j' : Nat) (vn : List ℚ) {c0 c' : CObj ℚ} {a b : PUnit ℚ} {old : List ℚ}
    (hc0 : cs[i]? = some c0)
    (ha : (sliceComp Ops.rat L t c0).leaves[j]? = some a) (hav : a.vel = some old)
    (hmode : ∀ k l, (sliceComp Ops.rat L t c0).leaves[k]? = some l → k ≠ j → l.vel = none)
    (hc' : (sliceAt Ops.rat L t [i] cs)[i']? = some c') (hb : c'.leaves[j']? = some b)
    (hrest : i ≠ i' → ∀ l ∈ c'.leaves, l.vel = none)
    (hNZ : NZ vn) (hvl : vn.length = d) :
    AllGood d L (step Ops.rat isZ L cs (.eocLeaf t i j i' j' vn)) := by
  obtain ⟨hG, hS⟩ := sliceAt_spec hL t [i] h
  show AllGood d L (eocLeaf Ops.rat isZ L t i j i' j' vn cs)
  unfold eocLeaf
  have hc : (sliceAt Ops.rat L t [i] cs)[i]? = some (sliceComp Ops.rat L t c0) := by
    rw [sliceAt_single, getElem?_modify_self, hc0]; rfl
  generalize sliceAt Ops.rat L t [i] cs = sl at *
  have gc := hG.get hc
  have hls := hS i (by simp) _ hc
  have ham := List.mem_of_getElem? ha
  obtain ⟨hol, _⟩ := (gc.wf.2.1 a ham).2 old hav
  have hats : a.ts = some t := hls a ham (by rw [hav]; simp)
  have hleaf : leafOf sl i j = some a := by simp [leafOf, hc, ha]
  simp only [hleaf, hc0, hav, finalize_NZ hNZ, finalize_zeros, hats]
  by_cases hii : i = i'
  · subst hii
    simp only [beq_self_eq_true, if_true]
    rw [hc] at hc'; simp only [Option.some.injEq] at hc'; subst hc'
    by_cases hjj : j = j'
    · subst hjj
      simp only [beq_self_eq_true, if_true]
      apply allGood_modify hG
      intro c1 hc1
      rw [hc] at hc1; simp only [Option.some.injEq] at hc1; subst hc1
      apply applyUpds_of_good hL t gc hls
      · apply updsOK_of (by simp)
        intro u hu
        simp only [List.mem_cons, List.not_mem_nil, or_false] at hu
        subst hu
        exact ⟨a, ha, uok_change j hav hol hvl⟩
      · apply sh_setLeaves hNZ
        · intro k l hk hnot
          simp only [List.map_cons, List.map_nil, List.mem_cons, List.not_mem_nil, or_false] at hnot
          exact Or.inl (hmode k l hk hnot)
        · intro u hu
          simp only [List.mem_cons, List.not_mem_nil, or_false] at hu
          subst hu; exact Or.inr rfl
      · intro hroot; exact absurd hroot (root_moving gc ham (by rw [hav]; simp))
    · have hbeq : (j == j') = false := by simpa using hjj
      simp only [hbeq, Bool.false_eq_true, if_false]
      apply allGood_modify hG
      intro c1 hc1
      rw [hc] at hc1; simp only [Option.some.injEq] at hc1; subst hc1
      obtain ⟨g2, l2⟩ := sliceLeaves_good hL t (h.get hc0)
      exact move_leaf_good hL t g2 l2 (j := j) (j' := j') ha hav hb (hmode j' b hb (fun e => hjj e.symm)) hNZ hvl
        (fun k l hk hkj _ => Or.inl (hmode k l hk hkj))
  · have hbeq : (i == i') = false := by simpa using hii
    simp only [hbeq, Bool.false_eq_true, if_false]
    have gc' := hG.get hc'
    apply allGood_modify
    · apply allGood_modify hG
      intro c1 hc1
      rw [hc] at hc1; simp only [Option.some.injEq] at hc1; subst hc1
      exact stop_leaf_good hL t gc hls ha hav
    · intro c1 hc1
      rw [getElem?_modify_ne _ _ hii, hc'] at hc1; simp only [Option.some.injEq] at hc1; subst hc1
      exact go_leaf_good hL t gc' (hrest hii) hb hNZ hvl

end JF.Composite
