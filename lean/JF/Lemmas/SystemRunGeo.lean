import JF.Lemmas.SystemRunKin
import JF.Props.C11
/-!
The geometry the cell-boundary handler and the occupancy share, as far as the system invariant needs it.

* `Geo env` — the interface: the time to the boundary the handler computes from position and velocity of the active unit
  (`ttb`), the velocities that occur (`velOK`), and the two facts the joint induction uses: the time is positive
  (`JF.C11.boundary_pos`, first clause) and strictly before it the time-sliced position is still in the cell of the start position
  (`JF.C11.stays_in_cell_pos`).
* `axisGeoPos` — the instance for a cuboid box with one `JF.C11.Grid` per direction (at least two cells per direction), motion along
  one axis in the POSITIVE direction (coulomb_atoms: `InitialChainStartOfRunEventHandler` / the periodic-direction end-of-chain
  handler give velocities `speed · e_d`, `speed > 0`): `ttb` is literally `JF.Occ.timeToBoundary` in the direction of motion with
  the lower edge of the upper neighbour cell, as `CellBoundaryEventHandler.send_event_time` computes it.
-/
namespace JF.Sys
open JF JF.Kin JF.C14 JF.CW JF.C11 JF.Occ

structure Geo (env : Env ℚ) where
  /-- `current_smallest_time_to_boundary` of `CellBoundaryEventHandler.send_event_time` -/
  ttb : List ℚ → List ℚ → ℚ
  /-- the velocities of active units -/
  velOK : List ℚ → Prop
  posBox : PosBox env.L
  vlen : ∀ v, velOK v → v.length = env.L.length
  pos : ∀ p v, InBox env.L p → velOK v → 0 < ttb p v
  stays : ∀ p v τ, InBox env.L p → velOK v → 0 ≤ τ → τ < ttb p v →
    env.cellOf (sliceVec Ops.rat env.L p v τ) = env.cellOf p

/-! ### one direction -/

/-- the cell index of an in-box coordinate, with the extent of that cell -/
theorem idx_spec (g : Grid) {x : ℚ} (h0 : 0 ≤ x) (h1 : x < g.L) :
    ∃ i : ℕ, i < g.n ∧ g.idx x = (i : ℤ) ∧ g.cmin i ≤ x ∧ x < g.cmin (i + 1) := by
  have hs := g.hside
  have hq0 : 0 ≤ x / g.side := div_nonneg h0 hs.le
  have hqn : x / g.side < g.n := by rw [div_lt_iff₀ hs]; exact h1
  have hk0 : 0 ≤ ⌊x / g.side⌋ := Int.floor_nonneg.mpr hq0
  have hkn : ⌊x / g.side⌋ < (g.n : ℤ) := by
    rw [Int.floor_lt]; exact_mod_cast hqn
  refine ⟨⌊x / g.side⌋.toNat, by omega, ?_, ?_, ?_⟩
  · simp only [Grid.idx, rat_toInt, trunc_nonneg hq0]
    omega
  · simp only [Grid.cmin]
    have : ((⌊x / g.side⌋.toNat : ℕ) : ℚ) = (⌊x / g.side⌋ : ℚ) := by
      have : ((⌊x / g.side⌋.toNat : ℕ) : ℤ) = ⌊x / g.side⌋ := Int.toNat_of_nonneg hk0
      exact_mod_cast this
    rw [this]
    have := Int.floor_le (x / g.side)
    rw [le_div_iff₀ hs] at this
    exact this
  · simp only [Grid.cmin]
    have : (((⌊x / g.side⌋.toNat + 1 : ℕ)) : ℚ) = (⌊x / g.side⌋ : ℚ) + 1 := by
      have : ((⌊x / g.side⌋.toNat : ℕ) : ℤ) = ⌊x / g.side⌋ := Int.toNat_of_nonneg hk0
      push_cast
      have h2 : ((⌊x / g.side⌋.toNat : ℕ) : ℚ) = (⌊x / g.side⌋ : ℚ) := by exact_mod_cast this
      rw [h2]
    rw [this]
    have := Int.lt_floor_add_one (x / g.side)
    rw [div_lt_iff₀ hs] at this
    exact this

/-- `send_event_time` in the direction of motion, positive velocity component: cell of the coordinate, lower edge of the upper
neighbour, `JF.Occ.timeToBoundary` -/
def ttb1 (g : Grid) (x v : ℚ) : ℚ :=
  (timeToBoundary Ops.rat g.L x v (g.cmin (((g.idx x).toNat + 1) % g.n)) 0).1

theorem ttb1_pos (g : Grid) (hn2 : 2 ≤ g.n) {x v : ℚ} (h0 : 0 ≤ x) (h1 : x < g.L) (hv : 0 < v) : 0 < ttb1 g x v := by
  obtain ⟨i, hi, hidx, hx0, hx1⟩ := idx_spec g h0 h1
  have hpos : i + 1 = g.n → 0 < x := by
    intro hin
    have : 0 < g.cmin i := by
      simp only [Grid.cmin]
      have : (0 : ℚ) < i := by exact_mod_cast (show 0 < i by omega)
      exact mul_pos this g.hside
    linarith
  have := (boundary_pos g i hi x v 0 hx0 hx1 hv hpos).1
  unfold ttb1; rw [hidx]; simpa using this

theorem ttb1_stays (g : Grid) (hn2 : 2 ≤ g.n) {x v τ : ℚ} (h0 : 0 ≤ x) (h1 : x < g.L) (hv : 0 < v) (hτ0 : 0 ≤ τ)
    (hτ : τ < ttb1 g x v) : g.idx (sliceCoord Ops.rat g.L x v τ) = g.idx x := by
  obtain ⟨i, hi, hidx, hx0, hx1⟩ := idx_spec g h0 h1
  have hpos : i + 1 = g.n → 0 < x := by
    intro hin
    have : 0 < g.cmin i := by
      simp only [Grid.cmin]
      have : (0 : ℚ) < i := by exact_mod_cast (show 0 < i by omega)
      exact mul_pos this g.hside
    linarith
  unfold ttb1 at hτ; rw [hidx] at hτ
  simp only [Int.toNat_natCast] at hτ
  rw [hidx]
  exact stays_in_cell_pos g i hi x v 0 hx0 hx1 hv hpos τ hτ0 hτ

/-- a resting coordinate is not moved by the time slice -/
theorem sliceCoord_rest (L p τ : ℚ) (hL : 0 < L) (h0 : 0 ≤ p) (h1 : p < L) : sliceCoord Ops.rat L p 0 τ = p := by
  have := sliceCoord_zero L p 0 hL h0 h1
  unfold sliceCoord at this ⊢
  simpa using this

/-! ### all directions -/

theorem sliceVec_getElem : ∀ (L P V : List ℚ) (dt : ℚ) (d : Nat) (hL : d < L.length) (hP : d < P.length) (hV : d < V.length)
    (h : d < (sliceVec Ops.rat L P V dt).length), (sliceVec Ops.rat L P V dt)[d] = sliceCoord Ops.rat L[d] P[d] V[d] dt
  | [], _, _, _, _, hL, _, _, _ => by simp at hL
  | _ :: _, [], _, _, _, _, hP, _, _ => by simp at hP
  | _ :: _, _ :: _, [], _, _, _, _, hV, _ => by simp at hV
  | l :: L, p :: P, v :: V, dt, 0, _, _, _, _ => by simp [sliceVec]
  | l :: L, p :: P, v :: V, dt, d + 1, hL, hP, hV, h => by
      simp only [sliceVec, List.getElem_cons_succ]
      exact sliceVec_getElem L P V dt d (by simpa using hL) (by simpa using hP) (by simpa using hV) _

/-- a cuboid box with one grid per direction; `position_to_cell` depends on a position only through its cell index in every
direction -/
structure AxisBox (env : Env ℚ) where
  grids : List Grid
  hn2 : ∀ g ∈ grids, 2 ≤ g.n
  hL : env.L = grids.map (·.L)
  hcell : ∀ p q, InBox env.L p → InBox env.L q →
    (∀ d (hg : d < grids.length) (hp : d < p.length) (hq : d < q.length), grids[d].idx p[d] = grids[d].idx q[d]) →
    env.cellOf p = env.cellOf q

/-- motion along one axis in the positive direction -/
def AxisVelPos (D : Nat) (v : List ℚ) : Prop :=
  v.length = D ∧ ∃ d, ∃ hd : d < v.length, 0 < v[d] ∧ ∀ d' (hd' : d' < v.length), d' ≠ d → v[d'] = 0

/-- the direction of motion: the first non-zero velocity component -/
def dirOf (v : List ℚ) : Nat := v.findIdx (fun x => decide (x ≠ 0))

theorem dirOf_eq {D : Nat} {v : List ℚ} {d : Nat} (hd : d < v.length) (hpos : 0 < v[d])
    (hz : ∀ d' (hd' : d' < v.length), d' ≠ d → v[d'] = 0) (_ : v.length = D) : dirOf v = d := by
  unfold dirOf
  rw [List.findIdx_eq hd]
  refine ⟨by simpa using ne_of_gt hpos, ?_⟩
  intro j hj
  have := hz j (by omega) (by omega)
  simp [this]

/-- `send_event_time` for motion along one axis -/
def axisTtb (grids : List Grid) (p v : List ℚ) : ℚ :=
  match grids[dirOf v]?, p[dirOf v]?, v[dirOf v]? with
  | some g, some x, some w => ttb1 g x w
  | _, _, _ => 0

/-- **the geometry of an axis-aligned box, positive direction of motion** -/
def axisGeoPos {env : Env ℚ} (B : AxisBox env) : Geo env where
  ttb := axisTtb B.grids
  velOK := AxisVelPos env.L.length
  posBox := by
    intro l hl
    rw [B.hL] at hl
    obtain ⟨g, _, rfl⟩ := List.mem_map.mp hl
    have : (0 : ℚ) < g.n := by exact_mod_cast g.hn
    simp only [Grid.L]; exact mul_pos this g.hside
  vlen := fun v h => h.1
  pos := by
    intro p v hp hv
    obtain ⟨hvl, d, hd, hpos, hz⟩ := hv
    have hdir := dirOf_eq hd hpos hz hvl
    have hLl : env.L.length = B.grids.length := by rw [B.hL]; simp
    obtain ⟨hpl, hpb⟩ := (inBox_iff _ _).mp hp
    have hdg : d < B.grids.length := by omega
    have hdp : d < p.length := by omega
    have hdL : d < env.L.length := by omega
    unfold axisTtb
    rw [hdir, List.getElem?_eq_getElem hdg, List.getElem?_eq_getElem hdp, List.getElem?_eq_getElem hd]
    simp only
    have hLd : env.L[d] = (B.grids[d]).L := by simp [B.hL]
    obtain ⟨b0, b1⟩ := hpb d hdL hdp
    exact ttb1_pos _ (B.hn2 _ (List.getElem_mem hdg)) b0 (hLd ▸ b1) hpos
  stays := by
    intro p v τ hp hv hτ0 hτ
    have hpB : PosBox env.L := by
      intro l hl
      rw [B.hL] at hl
      obtain ⟨g, _, rfl⟩ := List.mem_map.mp hl
      have : (0 : ℚ) < g.n := by exact_mod_cast g.hn
      simp only [Grid.L]; exact mul_pos this g.hside
    obtain ⟨hvl, d, hd, hpos, hz⟩ := hv
    have hdir := dirOf_eq hd hpos hz hvl
    have hLl : env.L.length = B.grids.length := by rw [B.hL]; simp
    obtain ⟨hpl, hpb⟩ := (inBox_iff _ _).mp hp
    have hsb := sliceVec_inBox env.L p v τ hpB hpl hvl
    refine B.hcell _ _ hsb hp ?_
    intro j hjg hjs hjp
    have hjL : j < env.L.length := by omega
    have hjv : j < v.length := by omega
    rw [sliceVec_getElem env.L p v τ j hjL hjp hjv hjs]
    have hLj : env.L[j] = (B.grids[j]).L := by simp [B.hL]
    obtain ⟨b0, b1⟩ := hpb j hjL hjp
    by_cases hjd : j = d
    · subst hjd
      unfold axisTtb at hτ
      rw [hdir, List.getElem?_eq_getElem hjg, List.getElem?_eq_getElem hjp, List.getElem?_eq_getElem hjv] at hτ
      simp only at hτ
      rw [hLj]
      exact ttb1_stays _ (B.hn2 _ (List.getElem_mem hjg)) b0 (hLj ▸ b1) hpos hτ0 hτ
    · rw [hz j hjv hjd, sliceCoord_rest _ _ _ (hpB _ (List.getElem_mem hjL)) b0 b1]

end JF.Sys
