import JF.Num.Rounded
import Mathlib.Data.Int.Log
import Mathlib.Tactic.Positivity
import Mathlib.Tactic.FieldSimp
import Mathlib.Algebra.Order.Field.Power
/-!
# IEEE-754 binary64 round-to-nearest-even IS a `FloatModel`

The hypotheses of `JF/Num/Rounded.lean` are not only satisfiable (see `RoundedInstances.lean`), they hold for
the floating-point format the code base runs on.  Construction, each step proved (nothing assumed):

1. `IntRound`            : a rounding `ℚ → ℤ` (monotone, identity on integers, odd, error ≤ δ);
                           `rne` = round to nearest, ties to even (δ = 1/2).
2. `FloatModel.binary`   : numbers `m · 2^e` with `|m| < 2^p`, `e ≥ emin` (gradual underflow, no largest exponent);
                           `brnd x = ir.r (x / 2^ex) · 2^ex` with `ex = max (⌊log2 |x|⌋ - (p-1)) emin`, the exponent
                           of the last place of the binade of `x`.  Proved: idempotent, monotone (also ACROSS
                           binades), odd, relative error `δ · 2^(1-p)` from `tiny = 2^(emin+p-1)` upwards, sums
                           below `tiny` exact, integers up to `2^p`, `floor` and fractional part representable.
3. `FloatModel.clamp`    : saturation at a largest representable number `B` (keeps all fields; nothing in the
                           rounding-abstract theorems ever rounds above `huge ≤ B`).
4. `FloatModel.binary64` : `p = 53`, `emin = -1074`, `B = (2^53 - 1)·2^971`, `rne`:  `eps = 2^-53`, `tiny = 2^-1022`,
                           `huge = 2^1023`; `F` is exactly the set of finite doubles (signed zeros identified).

What this is and is not: `brnd rne 53 (-1074)` is the MATHEMATICAL definition of IEEE-754 `roundTiesToEven` for
binary64 (significand scaled to an integer in `[2^52, 2^53)`, or to a multiple of `2^-1074`, then rounded to the
nearest integer, ties to even), written in Lean over `ℚ`.  It differs from the standard only above `maxDouble`
(saturation instead of overflow to `±∞`).  That the HARDWARE / CPython implement this function is not a
theorem of Lean (Lean's `Float` is opaque to the kernel); that link is the bit-exact differential test run by
`./check C14`.
-/
namespace JF

/-- binary logarithm of the magnitude, rounded down -/
def lg (x : ℚ) : ℤ := Int.log 2 |x|

theorem lg_neg (x : ℚ) : lg (-x) = lg x := by simp [lg]

theorem abs_lt_lg (x : ℚ) : |x| < (2:ℚ) ^ (lg x + 1) := by
  have := Int.lt_zpow_succ_log_self (b := 2) (by norm_num) |x|
  simpa [lg] using this

theorem lg_le_abs {x : ℚ} (hx : x ≠ 0) : (2:ℚ) ^ lg x ≤ |x| := by
  have := Int.zpow_log_le_self (b := 2) (r := |x|) (by norm_num) (abs_pos.mpr hx)
  simpa [lg] using this

theorem lg_lt_of_abs_lt {x : ℚ} (hx : x ≠ 0) {k : ℤ} (h : |x| < (2:ℚ) ^ k) : lg x < k := by
  have := (Int.lt_zpow_iff_log_lt (b := 2) (by norm_num) (x := k) (r := |x|) (abs_pos.mpr hx)).mp
    (by simpa using h)
  simpa [lg] using this

theorem le_lg_of_le_abs {x : ℚ} (hx : x ≠ 0) {k : ℤ} (h : (2:ℚ) ^ k ≤ |x|) : k ≤ lg x := by
  have := (Int.zpow_le_iff_le_log (b := 2) (by norm_num) (x := k) (r := |x|) (abs_pos.mpr hx)).mp
    (by simpa using h)
  simpa [lg] using this

theorem lg_mono {x y : ℚ} (hx : x ≠ 0) (h : |x| ≤ |y|) : lg x ≤ lg y :=
  Int.log_mono_right (abs_pos.mpr hx) h

/-- a rounding of rationals to integers (round to nearest even, toward zero, …) -/
structure IntRound where
  r : ℚ → ℤ
  /-- maximal absolute error: 1/2 for roundings to nearest, 1 for directed ones -/
  δ : ℚ
  mono : ∀ {a b : ℚ}, a ≤ b → r a ≤ r b
  id_int : ∀ n : ℤ, r n = n
  neg : ∀ y, r (-y) = -r y
  err : ∀ y, |(r y : ℚ) - y| ≤ δ
  δ_le : δ ≤ 1

namespace IntRound
variable (ir : IntRound)
theorem δ_nonneg : 0 ≤ ir.δ := le_trans (abs_nonneg _) (ir.err 0)
theorem r_zero : ir.r 0 = 0 := by have := ir.id_int 0; simpa using this
end IntRound

/-! ### binary floating point with `p` significant bits and smallest exponent `emin`
(numbers `m · 2^e`, `|m| < 2^p`, `e ≥ emin`; gradual underflow; no largest exponent) -/
section binary
variable (ir : IntRound) (p : ℕ) (emin : ℤ)

/-- exponent of the unit in the last place of the binade of `x` -/
def ex (x : ℚ) : ℤ := max (lg x - ((p:ℤ) - 1)) emin

/-- round `x` to `p` significant bits (or to a multiple of `2^emin`) -/
def brnd (x : ℚ) : ℚ := (ir.r (x / 2 ^ ex p emin x) : ℚ) * 2 ^ ex p emin x

/-- the representable numbers -/
def BF : Set ℚ := {x | ∃ m e : ℤ, emin ≤ e ∧ |m| < 2 ^ p ∧ x = (m:ℚ) * 2 ^ e}

variable {p emin}

theorem emin_le_ex (x : ℚ) : emin ≤ ex p emin x := le_max_right _ _
theorem lg_le_ex (x : ℚ) : lg x - ((p:ℤ) - 1) ≤ ex p emin x := le_max_left _ _
theorem ex_neg (x : ℚ) : ex p emin (-x) = ex p emin x := by simp [ex, lg_neg]

theorem two_zpow_pos (e : ℤ) : (0:ℚ) < 2 ^ e := zpow_pos (by norm_num) e

/-- `|m| ≤ 2^p` is enough: `±2^p · 2^e = ±2^(p-1) · 2^(e+1)` -/
theorem BF_of_le (hp : 1 ≤ p) {m e : ℤ} (he : emin ≤ e) (hm : |m| ≤ 2 ^ p) : (m:ℚ) * 2 ^ e ∈ BF p emin := by
  rcases lt_or_eq_of_le hm with h | h
  · exact ⟨m, e, he, h, rfl⟩
  · obtain ⟨k, rfl⟩ : ∃ k, p = k + 1 := ⟨p - 1, by omega⟩
    have h2 : (2:ℚ) ^ (e + 1) = 2 ^ e * 2 := by rw [zpow_add₀ (by norm_num)]; simp
    have hk : |(2:ℤ) ^ k| < 2 ^ (k + 1) := by
      rw [abs_of_pos (by positivity), pow_succ]; have : (0:ℤ) < 2 ^ k := by positivity
      linarith
    rcases abs_eq (by positivity : (0:ℤ) ≤ 2 ^ (k + 1)) |>.mp h with h' | h'
    · refine ⟨2 ^ k, e + 1, by omega, hk, ?_⟩
      rw [h', h2]; push_cast; ring
    · refine ⟨-2 ^ k, e + 1, by omega, by rwa [abs_neg], ?_⟩
      rw [h', h2]; push_cast; ring

theorem abs_scaled_lt (x : ℚ) : |x / 2 ^ ex p emin x| < 2 ^ p := by
  have h1 := abs_lt_lg x
  have h2 : lg x + 1 ≤ ex p emin x + p := by have := lg_le_ex (p := p) (emin := emin) x; omega
  have h3 : (2:ℚ) ^ (lg x + 1) ≤ 2 ^ (ex p emin x + p) := zpow_le_zpow_right₀ (by norm_num) h2
  rw [abs_div, abs_of_pos (two_zpow_pos _), div_lt_iff₀ (two_zpow_pos _)]
  calc |x| < 2 ^ (lg x + 1) := h1
    _ ≤ 2 ^ (ex p emin x + p) := h3
    _ = 2 ^ p * 2 ^ ex p emin x := by rw [zpow_add₀ (by norm_num), zpow_natCast]; ring

theorem brnd_mem (hp : 1 ≤ p) (x : ℚ) : brnd ir p emin x ∈ BF p emin := by
  apply BF_of_le hp (emin_le_ex x)
  have h := abs_scaled_lt (p := p) (emin := emin) x
  rw [abs_lt] at h
  rw [abs_le]
  constructor
  · have := ir.mono (a := ((-(2 ^ p : ℤ) : ℤ) : ℚ)) (b := x / 2 ^ ex p emin x) (by push_cast; linarith [h.1])
    rwa [ir.id_int] at this
  · have := ir.mono (a := x / 2 ^ ex p emin x) (b := (((2 ^ p : ℤ) : ℤ) : ℚ)) (by push_cast; linarith [h.2])
    rwa [ir.id_int] at this

/-- a representable number is an integer multiple of the ulp of its own binade -/
theorem scaled_int {x : ℚ} (hx : x ∈ BF p emin) : ∃ k : ℤ, x / 2 ^ ex p emin x = k := by
  obtain ⟨m, e, he, hm, rfl⟩ := hx
  by_cases h0 : (m:ℚ) * 2 ^ e = 0
  · exact ⟨0, by rw [h0]; simp⟩
  · set x := (m:ℚ) * 2 ^ e with hx
    have hlt : |x| < (2:ℚ) ^ ((p:ℤ) + e) := by
      rw [hx, abs_mul, abs_of_pos (two_zpow_pos e), zpow_add₀ (by norm_num), zpow_natCast]
      apply mul_lt_mul_of_pos_right _ (two_zpow_pos e)
      have : ((|m| : ℤ) : ℚ) < ((2 ^ p : ℤ) : ℚ) := by exact_mod_cast hm
      simpa using this
    have hl := lg_lt_of_abs_lt h0 hlt
    have hex : ex p emin x ≤ e := max_le (by omega) he
    obtain ⟨n, hn⟩ : ∃ n : ℕ, e = ex p emin x + n := ⟨(e - ex p emin x).toNat, by omega⟩
    refine ⟨m * 2 ^ n, ?_⟩
    rw [div_eq_iff (two_zpow_pos _).ne']
    conv_lhs => rw [hx, hn]
    rw [zpow_add₀ (by norm_num), zpow_natCast]; push_cast; ring

theorem brnd_id {x : ℚ} (hx : x ∈ BF p emin) : brnd ir p emin x = x := by
  obtain ⟨k, hk⟩ := scaled_int hx
  unfold brnd
  rw [hk, ir.id_int, ← hk, div_mul_cancel₀ _ (two_zpow_pos _).ne']

theorem brnd_neg (x : ℚ) : brnd ir p emin (-x) = -brnd ir p emin x := by
  unfold brnd
  rw [ex_neg, neg_div, ir.neg]; push_cast; ring

theorem brnd_nonneg {x : ℚ} (h : 0 ≤ x) : 0 ≤ brnd ir p emin x := by
  unfold brnd
  apply mul_nonneg _ (two_zpow_pos _).le
  have := ir.mono (a := 0) (b := x / 2 ^ ex p emin x) (div_nonneg h (two_zpow_pos _).le)
  rw [ir.r_zero] at this
  exact_mod_cast this


theorem r_le_int {y : ℚ} {n : ℤ} (h : y ≤ n) : ir.r y ≤ n := by
  have := ir.mono h; rwa [ir.id_int] at this
theorem int_le_r {y : ℚ} {n : ℤ} (h : (n:ℚ) ≤ y) : n ≤ ir.r y := by
  have := ir.mono h; rwa [ir.id_int] at this

/-- rounding never crosses a power of two that is on the grid of `x` -/
theorem brnd_le_zpow {x : ℚ} {k : ℤ} (hk : ex p emin x ≤ k) (h : x ≤ 2 ^ k) : brnd ir p emin x ≤ 2 ^ k := by
  obtain ⟨n, hn⟩ : ∃ n : ℕ, k = ex p emin x + n := ⟨(k - ex p emin x).toNat, by omega⟩
  have e : (2:ℚ) ^ k = ((2 ^ n : ℤ) : ℚ) * 2 ^ ex p emin x := by
    rw [hn, zpow_add₀ (by norm_num), zpow_natCast]; push_cast; ring
  have h1 : x / 2 ^ ex p emin x ≤ ((2 ^ n : ℤ) : ℚ) := by
    rw [div_le_iff₀ (two_zpow_pos _), ← e]; exact h
  have h2 : ((ir.r (x / 2 ^ ex p emin x) : ℤ) : ℚ) ≤ ((2 ^ n : ℤ) : ℚ) := by exact_mod_cast r_le_int ir h1
  unfold brnd; rw [e]
  exact mul_le_mul_of_nonneg_right h2 (two_zpow_pos _).le

theorem zpow_le_brnd {x : ℚ} {k : ℤ} (hk : ex p emin x ≤ k) (h : 2 ^ k ≤ x) : 2 ^ k ≤ brnd ir p emin x := by
  obtain ⟨n, hn⟩ : ∃ n : ℕ, k = ex p emin x + n := ⟨(k - ex p emin x).toNat, by omega⟩
  have e : (2:ℚ) ^ k = ((2 ^ n : ℤ) : ℚ) * 2 ^ ex p emin x := by
    rw [hn, zpow_add₀ (by norm_num), zpow_natCast]; push_cast; ring
  have h1 : ((2 ^ n : ℤ) : ℚ) ≤ x / 2 ^ ex p emin x := by
    rw [le_div_iff₀ (two_zpow_pos _), ← e]; exact h
  have h2 : ((2 ^ n : ℤ) : ℚ) ≤ ((ir.r (x / 2 ^ ex p emin x) : ℤ) : ℚ) := by exact_mod_cast int_le_r ir h1
  unfold brnd; rw [e]
  exact mul_le_mul_of_nonneg_right h2 (two_zpow_pos _).le

theorem brnd_mono_pos (hp : 1 ≤ p) {x y : ℚ} (hx : 0 < x) (hxy : x ≤ y) :
    brnd ir p emin x ≤ brnd ir p emin y := by
  have hy : 0 < y := lt_of_lt_of_le hx hxy
  have hl : lg x ≤ lg y := lg_mono hx.ne' (by rwa [abs_of_pos hx, abs_of_pos hy])
  have he : ex p emin x ≤ ex p emin y := max_le_max (by omega) (le_refl _)
  rcases lt_or_eq_of_le he with h | h
  · -- different binades: the power of two between them separates the results
    have h2 : ex p emin y = lg y - ((p:ℤ) - 1) := by
      rcases max_choice (lg y - ((p:ℤ) - 1)) emin with h' | h'
      · exact h'
      · exfalso; have := emin_le_ex (p := p) (emin := emin) x
        have : ex p emin y = emin := h'
        omega
    have h1 := lg_le_ex (p := p) (emin := emin) x
    have hlt : lg x + 1 ≤ lg y := by omega
    have hB : x ≤ (2:ℚ) ^ lg y := by
      have := abs_lt_lg x
      rw [abs_of_pos hx] at this
      exact le_trans this.le (zpow_le_zpow_right₀ (by norm_num) hlt)
    have hB' : (2:ℚ) ^ lg y ≤ y := by have := lg_le_abs hy.ne'; rwa [abs_of_pos hy] at this
    exact le_trans (brnd_le_zpow ir (by omega) hB) (zpow_le_brnd ir (by omega) hB')
  · unfold brnd
    rw [h]
    apply mul_le_mul_of_nonneg_right _ (two_zpow_pos _).le
    have : x / 2 ^ ex p emin y ≤ y / 2 ^ ex p emin y := div_le_div_of_nonneg_right hxy (two_zpow_pos _).le
    exact_mod_cast ir.mono this

theorem brnd_mono (hp : 1 ≤ p) : Monotone (brnd ir p emin) := by
  intro a b hab
  rcases lt_or_ge 0 a with ha | ha
  · exact brnd_mono_pos ir hp ha hab
  · have h1 : brnd ir p emin a ≤ 0 := by
      have := brnd_nonneg ir (p := p) (emin := emin) (x := -a) (by linarith)
      rw [brnd_neg] at this; linarith
    rcases le_or_gt 0 b with hb | hb
    · exact le_trans h1 (brnd_nonneg ir hb)
    · have := brnd_mono_pos ir (emin := emin) hp (x := -b) (y := -a) (by linarith) (by linarith)
      rw [brnd_neg, brnd_neg] at this; linarith

/-- relative error in the normal range -/
theorem brnd_rel_err (hp : 1 ≤ p) {x : ℚ} (h : (2:ℚ) ^ (emin + p - 1) ≤ |x|) :
    |brnd ir p emin x - x| ≤ ir.δ / 2 ^ (p - 1) * |x| := by
  have hx : x ≠ 0 := by
    intro h0; rw [h0, abs_zero] at h; exact absurd (two_zpow_pos _) (not_lt.mpr h)
  have hl := le_lg_of_le_abs hx h
  have he : ex p emin x = lg x - ((p:ℤ) - 1) := max_eq_left (by omega)
  obtain ⟨k, rfl⟩ : ∃ k, p = k + 1 := ⟨p - 1, by omega⟩
  simp only [Nat.add_sub_cancel]
  have hE : (2:ℚ) ^ ex (k + 1) emin x * 2 ^ k = 2 ^ lg x := by
    rw [he, ← zpow_natCast, ← zpow_add₀ (by norm_num)]; congr 1; push_cast; ring
  have hpos := two_zpow_pos (ex (k + 1) emin x)
  have hk : (0:ℚ) < 2 ^ k := by positivity
  have h1 : |brnd ir (k + 1) emin x - x| ≤ ir.δ * 2 ^ ex (k + 1) emin x := by
    have e : brnd ir (k + 1) emin x - x
        = ((ir.r (x / 2 ^ ex (k + 1) emin x) : ℚ) - x / 2 ^ ex (k + 1) emin x) * 2 ^ ex (k + 1) emin x := by
      unfold brnd; rw [sub_mul, div_mul_cancel₀ _ hpos.ne']
    rw [e, abs_mul, abs_of_pos hpos]
    exact mul_le_mul_of_nonneg_right (ir.err _) hpos.le
  have h2 : (2:ℚ) ^ ex (k + 1) emin x ≤ |x| / 2 ^ k := by
    rw [le_div_iff₀ hk, hE]; exact lg_le_abs hx
  calc |brnd ir (k + 1) emin x - x| ≤ ir.δ * 2 ^ ex (k + 1) emin x := h1
    _ ≤ ir.δ * (|x| / 2 ^ k) := mul_le_mul_of_nonneg_left h2 ir.δ_nonneg
    _ = ir.δ / 2 ^ k * |x| := by ring

/-- every representable number is a multiple of the smallest subnormal `2^emin` -/
theorem BF_multiple {x : ℚ} (hx : x ∈ BF p emin) : ∃ K : ℤ, x = (K:ℚ) * 2 ^ emin := by
  obtain ⟨m, e, he, _, rfl⟩ := hx
  obtain ⟨n, hn⟩ : ∃ n : ℕ, e = emin + n := ⟨(e - emin).toNat, by omega⟩
  refine ⟨m * 2 ^ n, ?_⟩
  rw [hn, zpow_add₀ (by norm_num), zpow_natCast]; push_cast; ring

/-- a sum of representable numbers that lands in the subnormal range is representable (exact) -/
theorem BF_add_tiny {a b : ℚ} (ha : a ∈ BF p emin) (hb : b ∈ BF p emin)
    (h : |a + b| < (2:ℚ) ^ (emin + p - 1)) : a + b ∈ BF p emin := by
  obtain ⟨A, rfl⟩ := BF_multiple ha
  obtain ⟨B, rfl⟩ := BF_multiple hb
  refine ⟨A + B, emin, le_refl _, ?_, by push_cast; ring⟩
  have e : (A:ℚ) * 2 ^ emin + B * 2 ^ emin = ((A + B : ℤ) : ℚ) * 2 ^ emin := by push_cast; ring
  rw [e, abs_mul, abs_of_pos (two_zpow_pos _)] at h
  have h3 : (2:ℚ) ^ (emin + p - 1) ≤ 2 ^ p * 2 ^ emin := by
    rw [← zpow_natCast, ← zpow_add₀ (by norm_num)]
    exact zpow_le_zpow_right₀ (by norm_num) (by omega)
  have h4 : |((A + B : ℤ) : ℚ)| < 2 ^ p := by
    by_contra hc
    have := mul_le_mul_of_nonneg_right (not_lt.mp hc) (two_zpow_pos emin).le
    linarith
  have : ((|A + B| : ℤ) : ℚ) < ((2 ^ p : ℤ) : ℚ) := by push_cast at h4 ⊢; exact h4
  exact_mod_cast this

theorem BF_int (hp : 1 ≤ p) (he : emin ≤ 0) {n : ℤ} (h : |n| ≤ 2 ^ p) : (n:ℚ) ∈ BF p emin := by
  have := BF_of_le (emin := emin) hp (m := n) (e := 0) he h
  simpa using this

theorem BF_floor (hp : 1 ≤ p) (he : emin ≤ 0) {x : ℚ} (hx : x ∈ BF p emin) (h0 : 0 ≤ x) :
    ((⌊x⌋ : ℤ) : ℚ) ∈ BF p emin := by
  obtain ⟨m, e, hee, hm, hxe⟩ := id hx
  rcases le_or_gt 0 e with h | h
  · -- an integer
    obtain ⟨n, hn⟩ : ∃ n : ℕ, e = n := ⟨e.toNat, by omega⟩
    have : x = ((m * 2 ^ n : ℤ) : ℚ) := by rw [hxe, hn, zpow_natCast]; push_cast; ring
    rw [this, Int.floor_intCast, ← this]; exact hx
  · apply BF_int hp he
    have h1 : (2:ℚ) ^ e ≤ 1 := by
      have := zpow_le_zpow_right₀ (a := (2:ℚ)) (by norm_num) h.le; simpa using this
    have hmq : |(m:ℚ)| < 2 ^ p := by
      have : ((|m| : ℤ) : ℚ) < ((2 ^ p : ℤ) : ℚ) := by exact_mod_cast hm
      simpa using this
    have hx1 : x < 2 ^ p := by
      rw [hxe]
      calc (m:ℚ) * 2 ^ e ≤ |(m:ℚ)| * 2 ^ e := mul_le_mul_of_nonneg_right (le_abs_self _) (two_zpow_pos _).le
        _ ≤ |(m:ℚ)| * 1 := mul_le_mul_of_nonneg_left h1 (abs_nonneg _)
        _ < 2 ^ p := by rw [mul_one]; exact hmq
    have hf0 : 0 ≤ ⌊x⌋ := Int.floor_nonneg.mpr h0
    rw [abs_of_nonneg hf0]
    have : ((⌊x⌋ : ℤ) : ℚ) ≤ ((2 ^ p : ℤ) : ℚ) := by push_cast; linarith [Int.floor_le x]
    exact_mod_cast this

theorem BF_zero (he : emin ≤ 0) : (0:ℚ) ∈ BF p emin := ⟨0, 0, he, by positivity, by simp⟩

theorem BF_fract (he : emin ≤ 0) {x : ℚ} (hx : x ∈ BF p emin) (h0 : 0 ≤ x) :
    x - ((⌊x⌋ : ℤ) : ℚ) ∈ BF p emin := by
  obtain ⟨m, e, hee, hm, hxe⟩ := id hx
  rcases le_or_gt 0 e with h | h
  · obtain ⟨n, hn⟩ : ∃ n : ℕ, e = n := ⟨e.toNat, by omega⟩
    have : x = ((m * 2 ^ n : ℤ) : ℚ) := by rw [hxe, hn, zpow_natCast]; push_cast; ring
    rw [this, Int.floor_intCast, sub_self]; exact BF_zero he
  · obtain ⟨n, hn⟩ : ∃ n : ℕ, e = -(n:ℤ) := ⟨(-e).toNat, by omega⟩
    have hpos := two_zpow_pos e
    have e1 : (2:ℚ) ^ n * 2 ^ e = 1 := by
      rw [hn, ← zpow_natCast, ← zpow_add₀ (by norm_num)]; simp
    have hK : x - ((⌊x⌋ : ℤ) : ℚ) = ((m - ⌊x⌋ * 2 ^ n : ℤ) : ℚ) * 2 ^ e := by
      push_cast; rw [sub_mul, ← hxe, mul_assoc, e1, mul_one]
    have hf0 : 0 ≤ ⌊x⌋ := Int.floor_nonneg.mpr h0
    have hfr0 : 0 ≤ x - ((⌊x⌋ : ℤ) : ℚ) := by linarith [Int.floor_le x]
    have hK0 : 0 ≤ m - ⌊x⌋ * 2 ^ n := by
      rw [hK] at hfr0
      have := nonneg_of_mul_nonneg_left hfr0 hpos
      exact_mod_cast this
    refine ⟨m - ⌊x⌋ * 2 ^ n, e, hee, ?_, hK⟩
    rw [abs_of_nonneg hK0]
    have : 0 ≤ ⌊x⌋ * 2 ^ n := mul_nonneg hf0 (by positivity)
    have : m ≤ |m| := le_abs_self m
    omega

end binary

/-- Binary floating point, `p ≥ 53` significant bits, gradual underflow at `2^emin`, unbounded exponent range
upwards, rounding by `ir`, is a `FloatModel`. -/
def FloatModel.binary (ir : IntRound) (p : ℕ) (emin : ℤ) (hp : 53 ≤ p) (he : emin ≤ 0) : FloatModel where
  rnd := brnd ir p emin
  F := BF p emin
  eps := ir.δ / 2 ^ (p - 1)
  tiny := 2 ^ (emin + p - 1)
  huge := 2 ^ 1023
  rnd_mem := brnd_mem ir (by omega)
  rnd_id := fun _ hx => brnd_id ir hx
  rnd_mono := brnd_mono ir (by omega)
  rnd_neg := brnd_neg ir
  eps_nonneg := div_nonneg ir.δ_nonneg (by positivity)
  eps_le_half := by
    have h2 : (2:ℚ) ^ 1 ≤ 2 ^ (p - 1) := pow_le_pow_right₀ (by norm_num) (by omega)
    rw [div_le_div_iff₀ (by positivity) (by norm_num)]
    have := ir.δ_le; have := ir.δ_nonneg
    nlinarith
  huge_ge := pow_le_pow_right₀ (by norm_num) (by norm_num)
  rel_err := fun _ h _ => brnd_rel_err ir (by omega) h
  add_tiny := fun _ _ ha hb h => BF_add_tiny ha hb h
  int_mem := fun n h => by
    apply BF_int (by omega) he
    have h1 : ((|n| : ℤ) : ℚ) ≤ ((2 ^ 53 : ℤ) : ℚ) := by push_cast; exact h
    have h2 : |n| ≤ 2 ^ 53 := by exact_mod_cast h1
    exact le_trans h2 (pow_le_pow_right₀ (by norm_num) hp)
  floor_mem := fun _ hx h0 => BF_floor (by omega) he hx h0
  fract_mem := fun _ hx h0 => BF_fract he hx h0

/-! ### round to nearest, ties to even -/

/-- round a rational to the nearest integer, ties to the even one -/
def rneInt (y : ℚ) : ℤ :=
  if y - ⌊y⌋ < 1 / 2 then ⌊y⌋
  else if 1 / 2 < y - ⌊y⌋ then ⌊y⌋ + 1
  else if ⌊y⌋ % 2 = 0 then ⌊y⌋ else ⌊y⌋ + 1

theorem rneInt_ge (y : ℚ) : ⌊y⌋ ≤ rneInt y := by unfold rneInt; split_ifs <;> omega
theorem rneInt_le (y : ℚ) : rneInt y ≤ ⌊y⌋ + 1 := by unfold rneInt; split_ifs <;> omega

theorem rneInt_int (n : ℤ) : rneInt n = n := by
  unfold rneInt; simp

theorem rneInt_mono {a b : ℚ} (h : a ≤ b) : rneInt a ≤ rneInt b := by
  rcases lt_or_eq_of_le (Int.floor_le_floor h) with hf | hf
  · have := rneInt_le a; have := rneInt_ge b; omega
  · unfold rneInt
    rw [hf]
    have : a - ⌊b⌋ ≤ b - ⌊b⌋ := by linarith
    split_ifs <;> first | omega | (exfalso; linarith)

theorem rneInt_err (y : ℚ) : |(rneInt y : ℚ) - y| ≤ 1 / 2 := by
  have h1 := Int.floor_le y
  have h2 := Int.lt_floor_add_one y
  unfold rneInt
  split_ifs <;> (rw [abs_le]; push_cast; constructor <;> linarith)

theorem rneInt_neg (y : ℚ) : rneInt (-y) = -rneInt y := by
  by_cases hi : y = ⌊y⌋
  · rw [hi, ← Int.cast_neg, rneInt_int, rneInt_int]
  · have h1 : (⌊y⌋:ℚ) < y := lt_of_le_of_ne (Int.floor_le y) (Ne.symm hi)
    have h2 := Int.lt_floor_add_one y
    have hf : ⌊-y⌋ = -⌊y⌋ - 1 := by
      rw [Int.floor_eq_iff]; push_cast; constructor <;> linarith
    unfold rneInt
    rw [hf]
    push_cast
    split_ifs <;> first | omega | (exfalso; linarith)

/-- round to nearest even, as an `IntRound` with error `1/2` -/
def rne : IntRound where
  r := rneInt
  δ := 1 / 2
  mono := rneInt_mono
  id_int := rneInt_int
  neg := rneInt_neg
  err := rneInt_err
  δ_le := by norm_num

/-! ### saturation: a largest representable number -/

/-- Cut the range of a `FloatModel` at a representable bound `B ≥ huge`: numbers beyond `±B` are rounded to
`±B` (saturation).  No theorem of the rounding-abstract reading rounds a number above `huge`, so what happens
there (IEEE: overflow to `±∞`) is immaterial; saturation keeps `rnd` total, monotone and odd. -/
def FloatModel.clamp (fm : FloatModel) (B : ℚ) (hB : B ∈ fm.F) (hh : fm.huge ≤ B) (ht : fm.tiny ≤ B) :
    FloatModel :=
  have hB0 : 0 ≤ B := le_trans (le_trans (by positivity) fm.huge_ge) hh
  have hcl : ∀ y, y ∈ fm.F → max (-B) (min B y) ∈ fm.F ∧ |max (-B) (min B y)| ≤ B := by
    intro y hy
    rcases le_total y (-B) with h | h
    · have : max (-B) (min B y) = -B := by
        rw [min_eq_right (by linarith), max_eq_left h]
      rw [this, abs_neg, abs_of_nonneg hB0]; exact ⟨fm.neg_mem hB, le_refl _⟩
    · rcases le_total y B with h' | h'
      · have : max (-B) (min B y) = y := by rw [min_eq_right h', max_eq_right h]
        rw [this]; exact ⟨hy, abs_le.mpr ⟨h, h'⟩⟩
      · have : max (-B) (min B y) = B := by rw [min_eq_left h', max_eq_right (by linarith)]
        rw [this, abs_of_nonneg hB0]; exact ⟨hB, le_refl _⟩
  have hin : ∀ x, |x| ≤ B → max (-B) (min B (fm.rnd x)) = fm.rnd x := by
    intro x hx
    rw [abs_le] at hx
    have h1 := fm.rnd_le_of_le hB hx.2
    have h2 := fm.le_rnd_of_le (fm.neg_mem hB) hx.1
    rw [min_eq_right h1, max_eq_right h2]
  { rnd := fun x => max (-B) (min B (fm.rnd x))
    F := {x | x ∈ fm.F ∧ |x| ≤ B}
    eps := fm.eps
    tiny := fm.tiny
    huge := fm.huge
    rnd_mem := fun x => hcl _ (fm.rnd_mem x)
    rnd_id := fun x hx => by rw [hin x hx.2]; exact fm.rnd_id x hx.1
    rnd_mono := fun a b hab => max_le_max (le_refl _) (min_le_min (le_refl _) (fm.rnd_mono hab))
    rnd_neg := fun x => by
      rw [fm.rnd_neg]
      simp only [max_def, min_def]
      split_ifs <;> first | rfl | linarith
    eps_nonneg := fm.eps_nonneg
    eps_le_half := fm.eps_le_half
    huge_ge := fm.huge_ge
    rel_err := fun x h1 h2 => by rw [hin x (le_trans h2 hh)]; exact fm.rel_err x h1 h2
    add_tiny := fun a b ha hb h => ⟨fm.add_tiny a b ha.1 hb.1 h, le_trans h.le ht⟩
    int_mem := fun n h => ⟨fm.int_mem n h, le_trans h (le_trans (le_trans (by norm_num) fm.huge_ge) hh)⟩
    floor_mem := fun x hx h0 => ⟨fm.floor_mem x hx.1 h0, by
      have hf0 : (0:ℚ) ≤ ((⌊x⌋ : ℤ) : ℚ) := by exact_mod_cast Int.floor_nonneg.mpr h0
      rw [abs_of_nonneg hf0]
      exact le_trans (Int.floor_le x) (le_trans (le_abs_self x) hx.2)⟩
    fract_mem := fun x hx h0 => ⟨fm.fract_mem x hx.1 h0, by
      have h1 := Int.floor_le x
      have h2 := Int.lt_floor_add_one x
      rw [abs_of_nonneg (by linarith)]
      have : (1:ℚ) ≤ B := le_trans (le_trans (by norm_num) fm.huge_ge) hh
      linarith⟩ }

/-! ### IEEE-754 binary64, round to nearest even -/

/-- the largest finite double, `(2^53 - 1) · 2^971` -/
def maxDouble : ℚ := (2 ^ 53 - 1) * 2 ^ 971

theorem maxDouble_ge : (2:ℚ) ^ 1023 ≤ maxDouble := by
  have e : (2:ℚ) ^ 1023 = 2 ^ 52 * 2 ^ 971 := by rw [← pow_add]
  rw [e]; unfold maxDouble
  exact mul_le_mul_of_nonneg_right (by norm_num) (by positivity)

/-- binary64 without an upper exponent bound -/
def FloatModel.binary64u : FloatModel := FloatModel.binary rne 53 (-1074) (le_refl _) (by norm_num)

theorem maxDouble_mem : maxDouble ∈ FloatModel.binary64u.F := by
  refine ⟨2 ^ 53 - 1, 971, by norm_num, by norm_num, ?_⟩
  unfold maxDouble
  rw [show ((971 : ℤ)) = ((971 : ℕ) : ℤ) by norm_num, zpow_natCast]
  push_cast; congr 1; norm_num

/-- **IEEE-754 binary64 with round-to-nearest-even is a `FloatModel`**: `F` = the finite doubles
(`m · 2^e`, `|m| < 2^53`, `e ≥ -1074`, magnitude at most `maxDouble`), `rnd` = RNE (saturating beyond
`maxDouble`), `eps = 2^-53`, `tiny = 2^-1022`, `huge = 2^1023`. -/
def FloatModel.binary64 : FloatModel :=
  FloatModel.binary64u.clamp maxDouble maxDouble_mem maxDouble_ge (by
    show (2:ℚ) ^ ((-1074 : ℤ) + (53 : ℕ) - 1) ≤ maxDouble
    have h1 : (2:ℚ) ^ ((-1074 : ℤ) + (53 : ℕ) - 1) ≤ 2 ^ (0:ℤ) :=
      zpow_le_zpow_right₀ (by norm_num) (by norm_num)
    have h2 : (1:ℚ) ≤ 2 ^ 1023 := one_le_pow₀ (by norm_num)
    rw [zpow_zero] at h1
    exact le_trans h1 (le_trans h2 maxDouble_ge))

theorem binary64_eps : FloatModel.binary64.eps = 1 / 2 ^ 53 := by
  show (1 / 2 : ℚ) / 2 ^ (53 - 1) = 1 / 2 ^ 53; norm_num
theorem binary64_tiny : FloatModel.binary64.tiny = 2 ^ (-1022 : ℤ) := by
  show (2:ℚ) ^ ((-1074 : ℤ) + (53 : ℕ) - 1) = 2 ^ (-1022 : ℤ); norm_num

theorem lg_eq {x : ℚ} {k : ℤ} (h1 : (2:ℚ) ^ k ≤ |x|) (h2 : |x| < (2:ℚ) ^ (k + 1)) : lg x = k := by
  have hx : x ≠ 0 := by
    intro h0; rw [h0, abs_zero] at h1; exact absurd (zpow_pos (by norm_num) k) (not_lt.mpr h1)
  have := le_lg_of_le_abs hx h1
  have := lg_lt_of_abs_lt hx h2
  omega

/-- binary64 really rounds, and ties go to even: `fl(2^53 + 1) = 2^53`, `fl(2^53 + 3) = 2^53 + 4` -/
example : FloatModel.binary64u.rnd (2 ^ 53 + 1) = 2 ^ 53 ∧ FloatModel.binary64u.rnd (2 ^ 53 + 3) = 2 ^ 53 + 4 := by
  have l1 : lg (2 ^ 53 + 1) = 53 := lg_eq (by norm_num) (by norm_num)
  have l2 : lg (2 ^ 53 + 3) = 53 := lg_eq (by norm_num) (by norm_num)
  have f1 : ⌊((2:ℚ) ^ 53 + 1) / 2⌋ = 2 ^ 52 := by rw [Int.floor_eq_iff]; norm_num
  have f2 : ⌊((2:ℚ) ^ 53 + 3) / 2⌋ = 2 ^ 52 + 1 := by rw [Int.floor_eq_iff]; norm_num
  constructor
  · show brnd rne 53 (-1074) (2 ^ 53 + 1) = 2 ^ 53
    have e : ex 53 (-1074) (2 ^ 53 + 1) = 1 := by simp [ex, l1]
    simp only [brnd, e, rne, rneInt, zpow_one, f1]
    norm_num
  · show brnd rne 53 (-1074) (2 ^ 53 + 3) = 2 ^ 53 + 4
    have e : ex 53 (-1074) (2 ^ 53 + 3) = 1 := by simp [ex, l2]
    simp only [brnd, e, rne, rneInt, zpow_one, f2]
    norm_num

/-- membership test for doubles of moderate size: `x = m · 2^e` with `|m| < 2^53`, `e ≥ -1074`, `|x| ≤ 2^64` -/
theorem binary64_mem {x : ℚ} (m e : ℤ) (he : -1074 ≤ e) (hm : |m| < 2 ^ 53) (hx : x = (m:ℚ) * 2 ^ e)
    (hb : |x| ≤ 2 ^ 64) : x ∈ FloatModel.binary64.F :=
  ⟨⟨m, e, he, hm, hx⟩, le_trans hb (le_trans (pow_le_pow_right₀ (by norm_num) (by norm_num)) maxDouble_ge)⟩

end JF
