import JF.Model.Lifting
import JF.Num.Rounded
import Mathlib.Tactic.Linarith
import Mathlib.Tactic.Ring
import Mathlib.Tactic.Push
/-!
Helper lemmas for `JF/Props/C05Float.lean`: the model of the lifting schemes (`JF.Model.Lifting`) read over an
ARBITRARY scalar type (part G: no algebra at all, only the shape of the loops) and over `R fm`, the rationals whose
`+ - *` round with `fm.rnd` for an arbitrary `fm : FloatModel` (part R).

Part G (any `α`, any `Ops α`; holds in particular for `Float`, `ℚ`, `R fm`):
* `negL`, `posAcc`   : what `insert` leaves in the negative list / in `_random_position` before the active unit;
* `fill_g`           : the state after `reset` + the insertion loop, as these two folds;
* `acc`, `walkIdx_some_iff_g`, `walkIdx_none_iff_g` : the common loop stops at the first running sum that reaches
                       the position;
* `sel`, `selectIdx_eq_sel` : the index the loop + `[-1]` fall-through reads.

Part R (`α = R fm`):
* `acc_mem`, `acc_mono`   : the rounded running sums of non-negative entries are representable and non-decreasing
                            (rounding is monotone and the identity on representable numbers);
* `walkIdx_some_iff_R`, `walkIdx_none_iff_R` : the loop in terms of two comparisons;
* `sel_mono`              : the selected index is a monotone function of the position.
-/
namespace JF.Lifting
set_option linter.unusedSectionVars false

/-! ## Part G: any scalar type -/

section generic
variable {α : Type} {ι : Type} [Add α] [Sub α] [Mul α] [Neg α] [LT α] [DecidableLT α] [LE α] [DecidableLE α]
  [BEq α]

/-- the list `zip(_negative_lifting_rates, _associated_identifiers)` after the insertion loop: the entries whose
rate is not `> 0.0`, negated, in insertion order -/
def negL (o : Ops α) : List (α × ι) → List (α × ι)
  | [] => []
  | (r, i) :: t => if o.ofInt 0 < r then negL o t else (-r, i) :: negL o t

/-- `_random_position` after the entries of a list have been inserted as inactive, not-yet-recorded ones:
`self._random_position += lifting_rate` for every positive entry, left to right -/
def posAcc (o : Ops α) : List (α × ι) → α → α
  | [], p => p
  | (r, _) :: t, p => if o.ofInt 0 < r then posAcc o t (p + r) else posAcc o t p

theorem fillFrom_after_g (o : Ops α) (a : Nat) (u : α) (t : List (α × ι)) :
    ∀ (i : Nat) (s : Lifting α ι), a < i → s.recorded = true →
      ∃ s', fillFrom o a u i s t = .ok s' ∧ s'.neg = s.neg ++ negL o t ∧ s'.pos = s.pos ∧ s'.recorded = true := by
  induction t with
  | nil => intro i s _ hr; exact ⟨s, rfl, by simp [negL], rfl, hr⟩
  | cons x t ih =>
    intro i s hi hr
    obtain ⟨r, id⟩ := x
    obtain ⟨sn, sp, ss, sr⟩ := s
    simp only at hr; subst hr
    have hne : (i == a) = false := by simp; omega
    unfold fillFrom insert
    simp only [hne]
    by_cases hpos : o.ofInt 0 < r
    · simp only [hpos, if_true, Bool.false_eq_true, if_false, Bool.not_true]
      obtain ⟨s', h1, h2, h3, h4⟩ := ih (i + 1) ⟨sn, sp, ss + r, true⟩ (by omega) rfl
      exact ⟨s', h1, by simpa [negL, hpos] using h2, h3, h4⟩
    · simp only [hpos, if_false, Bool.false_eq_true]
      obtain ⟨s', h1, h2, h3, h4⟩ := ih (i + 1) ⟨sn ++ [(-r, id)], sp, ss, true⟩ (by omega) rfl
      exact ⟨s', h1, by simpa [negL, hpos] using h2, h3, h4⟩

theorem fillFrom_before_g (o : Ops α) (a : Nat) (u : α) (t : List (α × ι)) :
    ∀ (i j : Nat) (s : Lifting α ι) (hj : j < t.length), a = i + j → s.recorded = false → o.ofInt 0 < (t[j]).1 →
      ∃ s', fillFrom o a u i s t = .ok s' ∧ s'.neg = s.neg ++ negL o t ∧
        s'.pos = posAcc o (t.take j) s.pos + pyUniform (o.ofInt 0) (t[j]).1 u ∧ s'.recorded = true := by
  induction t with
  | nil => intro i j s hj; simp at hj
  | cons x t ih =>
    intro i j s hj ha hr hq
    obtain ⟨r, id⟩ := x
    obtain ⟨sn, sp, ss, sr⟩ := s
    simp only at hr; subst hr
    cases j with
    | zero =>
      have he : (i == a) = true := by simp; omega
      simp only [List.getElem_cons_zero] at hq
      unfold fillFrom insert
      simp only [he, hq, if_true]
      obtain ⟨s', h1, h2, h3, h4⟩ := fillFrom_after_g o a u t (i + 1)
        ⟨sn, sp + pyUniform (o.ofInt 0) r u, ss + r, true⟩ (by omega) rfl
      exact ⟨s', h1, by simpa [negL, hq] using h2, by simpa [posAcc] using h3, h4⟩
    | succ j =>
      have hne : (i == a) = false := by simp; omega
      have hj' : j < t.length := by simpa using hj
      simp only [List.getElem_cons_succ] at hq
      unfold fillFrom insert
      simp only [hne]
      by_cases hpos : o.ofInt 0 < r
      · simp only [hpos, if_true, Bool.false_eq_true, if_false, Bool.not_false]
        obtain ⟨s', h1, h2, h3, h4⟩ := ih (i + 1) j ⟨sn, sp + r, ss + r, false⟩ hj'
          (by omega) rfl hq
        exact ⟨s', h1, by simpa [negL, hpos] using h2, by simpa [posAcc, hpos] using h3, h4⟩
      · simp only [hpos, if_false, Bool.false_eq_true]
        obtain ⟨s', h1, h2, h3, h4⟩ := ih (i + 1) j ⟨sn ++ [(-r, id)], sp, ss, false⟩ hj' (by omega) rfl hq
        exact ⟨s', h1, by simpa [negL, hpos] using h2, by simpa [posAcc, hpos] using h3, h4⟩

/-- the state after `reset` and the insertion loop with a positive entry `a` active, for every scalar type -/
theorem fill_g (o : Ops α) (tbl : List (α × ι)) (a : Nat) (u : α) (ha : a < tbl.length)
    (hq : o.ofInt 0 < (tbl[a]).1) :
    ∃ s', fill o tbl a u = .ok s' ∧ s'.neg = negL o tbl ∧
      s'.pos = posAcc o (tbl.take a) (o.ofInt 0) + pyUniform (o.ofInt 0) (tbl[a]).1 u ∧ s'.recorded = true := by
  obtain ⟨s', h1, h2, h3, h4⟩ := fillFrom_before_g o a u tbl 0 a (empty o) ha (by omega) rfl hq
  exact ⟨s', h1, by simpa [empty] using h2, by simpa [empty] using h3, h4⟩

/-- an active entry whose rate is not `> 0.0` trips the `assert`, for every scalar type -/
theorem fillFrom_assertion_g (o : Ops α) (a : Nat) (u : α) (t : List (α × ι)) :
    ∀ (i j : Nat) (s : Lifting α ι) (hj : j < t.length), a = i + j → s.recorded = false → ¬ o.ofInt 0 < (t[j]).1 →
      fillFrom o a u i s t = .error .assertion := by
  induction t with
  | nil => intro i j s hj; simp at hj
  | cons x t ih =>
    intro i j s hj ha hr hq
    obtain ⟨r, id⟩ := x
    cases j with
    | zero =>
      have he : (i == a) = true := by simp; omega
      simp only [List.getElem_cons_zero] at hq
      unfold fillFrom insert
      simp [he, hq]
    | succ j =>
      have hne : (i == a) = false := by simp; omega
      have hj' : j < t.length := by simpa using hj
      simp only [List.getElem_cons_succ] at hq
      unfold fillFrom insert
      simp only [hne, hr]
      by_cases hpos : o.ofInt 0 < r
      · simp only [hpos, if_true, Bool.false_eq_true, if_false, Bool.not_false]
        exact ih (i + 1) j _ hj' (by omega) rfl hq
      · simp only [hpos, if_false, Bool.false_eq_true]
        exact ih (i + 1) j _ hj' (by omega) rfl hq

/-- without an active entry in range nothing is recorded -/
theorem fillFrom_unrecorded_g (o : Ops α) (a : Nat) (u : α) (t : List (α × ι)) :
    ∀ (i : Nat) (s : Lifting α ι), i + t.length ≤ a → s.recorded = false →
      ∃ s', fillFrom o a u i s t = .ok s' ∧ s'.recorded = false := by
  induction t with
  | nil => intro i s _ hr; exact ⟨s, rfl, hr⟩
  | cons x t ih =>
    intro i s hi hr
    obtain ⟨r, id⟩ := x
    simp only [List.length_cons] at hi
    have hne : (i == a) = false := by simp; omega
    unfold fillFrom insert
    simp only [hne, hr]
    by_cases hpos : o.ofInt 0 < r
    · simp only [hpos, if_true, Bool.false_eq_true, if_false, Bool.not_false]
      exact ih (i + 1) _ (by omega) rfl
    · simp only [hpos, if_false, Bool.false_eq_true]
      exact ih (i + 1) _ (by omega) rfl

/-- `_random_position` as `get_active_identifier` finds it (inside first: the position itself) -/
def posIn (o : Ops α) (tbl : List (α × ι)) (a : Nat) (u : α) : α :=
  match tbl[a]? with
  | some e => posAcc o (tbl.take a) (o.ofInt 0) + pyUniform (o.ofInt 0) e.1 u
  | none => o.ofInt 0

/-- `sum(self._negative_lifting_rates)` -/
def sumNeg (o : Ops α) (tbl : List (α × ι)) : α := pySum o ((negL o tbl).map (·.1))

/-- the position each scheme hands to the common loop, as a function of the table, the active unit and the draws -/
def posOf (o : Ops α) (sch : Scheme) (tbl : List (α × ι)) (a : Nat) (u u2 : α) : α :=
  match sch with
  | .inside => posIn o tbl a u
  | .outside => sumNeg o tbl - posIn o tbl a u
  | .ratio => pyUniform (o.ofInt 0) (sumNeg o tbl) u2

theorem chooseIdx_g (o : Ops α) (sch : Scheme) (tbl : List (α × ι)) (a : Nat) (u u2 : α) (ha : a < tbl.length)
    (hq : o.ofInt 0 < (tbl[a]).1) :
    chooseIdx o sch tbl a u u2 = selectIdx o (posOf o sch tbl a u u2) (negL o tbl) := by
  obtain ⟨s', h1, h2, h3, h4⟩ := fill_g o tbl a u ha hq
  unfold chooseIdx
  rw [h1]
  simp only [h4, Bool.not_true, Bool.false_eq_true, if_false]
  cases sch <;> simp [position, posOf, posIn, sumNeg, h2, h3, ha]

theorem choose_g (o : Ops α) (sch : Scheme) (tbl : List (α × ι)) (a : Nat) (u u2 : α) (ha : a < tbl.length)
    (hq : o.ofInt 0 < (tbl[a]).1) :
    choose o sch tbl a u u2 = select o (posOf o sch tbl a u u2) (negL o tbl) := by
  obtain ⟨s', h1, h2, h3, h4⟩ := fill_g o tbl a u ha hq
  unfold choose
  rw [h1]
  cases sch <;> simp [getInside, getOutside, getRatio, posOf, posIn, sumNeg, h2, h3, h4, ha]

/-- running sum of the loop after `k` entries, started at `c` -/
def acc : List (α × ι) → α → Nat → α
  | _, c, 0 => c
  | [], c, _ + 1 => c
  | (r, _) :: t, c, k + 1 => acc t (c + r) k

@[simp] theorem acc_zero (l : List (α × ι)) (c : α) : acc l c 0 = c := by cases l <;> rfl
@[simp] theorem acc_cons_succ (e : α × ι) (t : List (α × ι)) (c : α) (k : Nat) :
    acc (e :: t) c (k + 1) = acc t (c + e.1) k := rfl
@[simp] theorem acc_nil (c : α) (k : Nat) : acc ([] : List (α × ι)) c k = c := by cases k <;> rfl

/-- the loop returns `k` iff `k` is the first index whose running sum reaches the position -/
theorem walkIdx_some_iff_g (p : α) (l : List (α × ι)) (c : α) (k : Nat) :
    walkIdx p l c = some k ↔ k < l.length ∧ (∀ j < k, ¬ p ≤ acc l c (j + 1)) ∧ p ≤ acc l c (k + 1) := by
  induction l generalizing c k with
  | nil => simp [walkIdx]
  | cons e t ih =>
    obtain ⟨r, i⟩ := e
    unfold walkIdx
    simp only
    by_cases hp : p ≤ c + r
    · simp only [hp, if_true, Option.some.injEq]
      constructor
      · intro h; subst h; simp [hp]
      · rintro ⟨_, h2, _⟩
        cases k with
        | zero => rfl
        | succ k => exact absurd (by simpa using hp) (h2 0 (by omega))
    · simp only [hp, if_false]
      cases k with
      | zero =>
        constructor
        · intro h
          cases hw : walkIdx p t (c + r) <;> simp [hw] at h
        · rintro ⟨_, _, h3⟩; exact absurd (by simpa using h3) hp
      | succ k =>
        have := ih (c + r) k
        simp only [List.length_cons, Nat.add_lt_add_iff_right, acc_cons_succ]
        constructor
        · intro h
          cases hw : walkIdx p t (c + r) with
          | none => simp [hw] at h
          | some k' =>
            simp only [hw, Option.map_some, Option.some.injEq, Nat.add_right_cancel_iff] at h
            subst h
            obtain ⟨h1, h2, h3⟩ := this.mp hw
            refine ⟨h1, ?_, h3⟩
            intro j hj
            cases j with
            | zero => simpa using hp
            | succ j => simpa using h2 j (by omega)
        · rintro ⟨h1, h2, h3⟩
          have hw := this.mpr ⟨h1, fun j hj => by simpa using h2 (j + 1) (by omega), h3⟩
          simp [hw]

/-- the loop runs to its end iff no running sum reaches the position -/
theorem walkIdx_none_iff_g (p : α) (l : List (α × ι)) (c : α) :
    walkIdx p l c = none ↔ ∀ j < l.length, ¬ p ≤ acc l c (j + 1) := by
  induction l generalizing c with
  | nil => simp [walkIdx]
  | cons e t ih =>
    obtain ⟨r, i⟩ := e
    unfold walkIdx
    simp only
    by_cases hp : p ≤ c + r
    · simp only [hp, if_true]
      constructor
      · intro h; cases h
      · intro h; exact absurd (by simpa using hp) (h 0 (by simp))
    · simp only [hp, if_false, Option.map_eq_none_iff, ih, List.length_cons]
      constructor
      · intro h j hj
        cases j with
        | zero => simpa using hp
        | succ j => simpa using h j (by omega)
      · intro h j hj
        simpa using h (j + 1) (by omega)

theorem walkIdx_lt_g (p : α) (l : List (α × ι)) (c : α) {k : Nat} (h : walkIdx p l c = some k) : k < l.length :=
  ((walkIdx_some_iff_g p l c k).mp h).1

/-- the index that loop + fall-through read (for a non-empty list) -/
def sel (o : Ops α) (p : α) (l : List (α × ι)) : Nat :=
  match walkIdx p l (o.ofInt 0) with
  | some k => k
  | none => l.length - 1

theorem selectIdx_eq_sel (o : Ops α) (p : α) {l : List (α × ι)} (hl : l ≠ []) :
    selectIdx o p l = .ok (sel o p l) := by
  unfold selectIdx sel
  cases hw : walkIdx p l (o.ofInt 0) with
  | some k => rfl
  | none => cases l with
    | nil => exact absurd rfl hl
    | cons e t => rfl

theorem selectIdx_nil (o : Ops α) (p : α) : selectIdx o p ([] : List (α × ι)) = .error .index := by
  simp [selectIdx, walkIdx]

theorem sel_lt (o : Ops α) (p : α) {l : List (α × ι)} (hl : l ≠ []) : sel o p l < l.length := by
  unfold sel
  cases hw : walkIdx p l (o.ofInt 0) with
  | some k => exact walkIdx_lt_g p l _ hw
  | none =>
    have : 0 < l.length := List.length_pos_iff.mpr hl
    simp only; omega

theorem select_eq (o : Ops α) (p : α) {l : List (α × ι)} (hl : l ≠ []) :
    select o p l = .ok (l[sel o p l]'(sel_lt o p hl)).2 := by
  unfold select
  rw [selectIdx_eq_sel o p hl]
  simp [lookup, sel_lt o p hl]

/-- an entry of the negative list is the negation of a table entry whose rate is not `> 0` -/
theorem mem_negL (o : Ops α) {tbl : List (α × ι)} {e : α × ι} (h : e ∈ negL o tbl) :
    ∃ r, (r, e.2) ∈ tbl ∧ ¬ o.ofInt 0 < r ∧ e.1 = -r := by
  induction tbl with
  | nil => simp [negL] at h
  | cons x t ih =>
    obtain ⟨r, j⟩ := x
    unfold negL at h
    split at h
    · obtain ⟨r', h1, h2, h3⟩ := ih h
      exact ⟨r', List.mem_cons_of_mem _ h1, h2, h3⟩
    · next hr =>
      rcases List.mem_cons.mp h with rfl | h
      · exact ⟨r, by simp, hr, rfl⟩
      · obtain ⟨r', h1, h2, h3⟩ := ih h
        exact ⟨r', List.mem_cons_of_mem _ h1, h2, h3⟩

theorem negL_eq_nil_iff (o : Ops α) (tbl : List (α × ι)) : negL o tbl = [] ↔ ∀ e ∈ tbl, o.ofInt 0 < e.1 := by
  induction tbl with
  | nil => simp [negL]
  | cons x t ih =>
    obtain ⟨r, j⟩ := x
    unfold negL
    split
    · next h => simp [ih, h]
    · next h => simp [h]

theorem acc_succ (l : List (α × ι)) (c : α) {k : Nat} (hk : k < l.length) :
    acc l c (k + 1) = acc l c k + (l[k]).1 := by
  induction l generalizing c k with
  | nil => simp at hk
  | cons e t ih =>
    cases k with
    | zero => simp
    | succ k =>
      have hk' : k < t.length := by simpa using hk
      simp only [acc_cons_succ, List.getElem_cons_succ]
      exact ih _ hk'

/-- if some running sum reaches the position, the loop stops at or before it -/
theorem walkIdx_le_of_reached (p : α) (l : List (α × ι)) (c : α) {k' : Nat} (hk' : k' < l.length)
    (h : p ≤ acc l c (k' + 1)) : ∃ k, walkIdx p l c = some k ∧ k ≤ k' := by
  cases hw : walkIdx p l c with
  | none => exact absurd h ((walkIdx_none_iff_g p l c).mp hw k' hk')
  | some k =>
    refine ⟨k, rfl, ?_⟩
    by_contra hlt
    exact ((walkIdx_some_iff_g p l c k).mp hw).2.1 k' (by omega) h

theorem sel_le_pred (o : Ops α) (p : α) (l : List (α × ι)) : sel o p l ≤ l.length - 1 := by
  unfold sel
  cases hw : walkIdx p l (o.ofInt 0) with
  | some k => have := walkIdx_lt_g p l _ hw; simp only; omega
  | none => exact le_refl _

/-- condition (a) on a negative list `l` and a position `p`: `p ≤ 0` and `l` starts with a zero-rate entry -/
def condAOn (o : Ops α) (l : List (α × ι)) (p : α) : Bool :=
  decide (p ≤ o.ofInt 0) &&
    (match l with
     | e :: _ => e.1 == o.ofInt 0
     | [] => false)

/-- condition (b) on a negative list `l` and a position `p`: the loop's last running sum is below `p` and the last
entry of `l` has rate zero -/
def condBOn (o : Ops α) (l : List (α × ι)) (p : α) : Bool :=
  decide (acc l (o.ofInt 0) l.length < p) &&
    (match l.getLast? with
     | some e => e.1 == o.ofInt 0
     | none => false)

/-- condition (a), as a decidable test on the computed quantities of any scalar type: the position handed to the
loop is `≤ 0` and the negative list starts with a zero-rate entry -/
def condA (o : Ops α) (sch : Scheme) (tbl : List (α × ι)) (a : Nat) (u u2 : α) : Bool :=
  condAOn o (negL o tbl) (posOf o sch tbl a u u2)

/-- condition (b), the fall-through: the loop's last running sum is below the position and the last entry of the
negative list has rate zero -/
def condB (o : Ops α) (sch : Scheme) (tbl : List (α × ι)) (a : Nat) (u u2 : α) : Bool :=
  condBOn o (negL o tbl) (posOf o sch tbl a u u2)

end generic

/-! ## Part R: the rounding-abstract reading, `α = R fm` -/

section rounded
open R
variable {fm : FloatModel} {ι : Type}

/-- all entries non-negative -/
def NonNegR (l : List (R fm × ι)) : Prop := ∀ e ∈ l, 0 ≤ toQ e.1

theorem NonNegR.tail {e : R fm × ι} {l : List (R fm × ι)} (h : NonNegR (e :: l)) : NonNegR l :=
  fun x hx => h x (List.mem_cons_of_mem _ hx)

theorem NonNegR.head {e : R fm × ι} {l : List (R fm × ι)} (h : NonNegR (e :: l)) : 0 ≤ toQ e.1 :=
  h e List.mem_cons_self

theorem negL_nonneg (tbl : List (R fm × ι)) : NonNegR (negL (Ops.rounded fm) tbl) := by
  intro e he
  obtain ⟨r, _, h2, h3⟩ := mem_negL _ he
  have : ¬ (0 : ℚ) < toQ r := by simpa using h2
  rw [h3, toQ_neg]; linarith [not_lt.mp this]

/-- the running sums are representable -/
theorem acc_mem (l : List (R fm × ι)) (c : R fm) (hc : toQ c ∈ fm.F) (k : Nat) : toQ (acc l c k) ∈ fm.F := by
  induction l generalizing c k with
  | nil => simpa using hc
  | cons e t ih =>
    cases k with
    | zero => simpa using hc
    | succ k => exact ih _ (by rw [toQ_add]; exact fm.rnd_mem _) k

/-- adding a non-negative entry never lowers the rounded running sum -/
theorem acc_le_succ {l : List (R fm × ι)} (hl : NonNegR l) (c : R fm) (hc : toQ c ∈ fm.F) (k : Nat) :
    toQ (acc l c k) ≤ toQ (acc l c (k + 1)) := by
  induction l generalizing c k with
  | nil => simp
  | cons e t ih =>
    cases k with
    | zero =>
      simp only [acc_zero, acc_cons_succ, toQ_add]
      exact fm.le_rnd_of_le hc (by linarith [hl.head])
    | succ k => exact ih hl.tail _ (by rw [toQ_add]; exact fm.rnd_mem _) k

theorem acc_mono {l : List (R fm × ι)} (hl : NonNegR l) (c : R fm) (hc : toQ c ∈ fm.F) {j k : Nat} (h : j ≤ k) :
    toQ (acc l c j) ≤ toQ (acc l c k) := by
  induction k, h using Nat.le_induction with
  | base => exact le_refl _
  | succ k _ ih => exact le_trans ih (acc_le_succ hl c hc k)

/-- the loop returns `k` iff the rounded running sums satisfy `A_k < p ≤ A_{k+1}` (no lower condition for `k = 0`) -/
theorem walkIdx_some_iff_R (p : R fm) {l : List (R fm × ι)} (hl : NonNegR l) (c : R fm) (hc : toQ c ∈ fm.F)
    (k : Nat) :
    walkIdx p l c = some k ↔
      k < l.length ∧ (k = 0 ∨ toQ (acc l c k) < toQ p) ∧ toQ p ≤ toQ (acc l c (k + 1)) := by
  rw [walkIdx_some_iff_g]
  constructor
  · rintro ⟨h1, h2, h3⟩
    refine ⟨h1, ?_, h3⟩
    cases k with
    | zero => exact Or.inl rfl
    | succ k => exact Or.inr (not_le.mp (h2 k (by omega)))
  · rintro ⟨h1, h2, h3⟩
    refine ⟨h1, ?_, h3⟩
    intro j hj
    rcases h2 with rfl | h2
    · omega
    · have := acc_mono hl c hc (show j + 1 ≤ k by omega)
      exact not_le.mpr (lt_of_le_of_lt this h2)

/-- the loop runs to its end iff the last rounded running sum stays below the position -/
theorem walkIdx_none_iff_R (p : R fm) {l : List (R fm × ι)} (hl : NonNegR l) (c : R fm) (hc : toQ c ∈ fm.F) :
    walkIdx p l c = none ↔ l = [] ∨ toQ (acc l c l.length) < toQ p := by
  rw [walkIdx_none_iff_g]
  constructor
  · intro h
    cases l with
    | nil => exact Or.inl rfl
    | cons e t => exact Or.inr (not_le.mp (h t.length (by simp)))
  · rintro (rfl | h) j hj
    · simp at hj
    · have := acc_mono hl c hc (show j + 1 ≤ l.length by omega)
      exact not_le.mpr (lt_of_le_of_lt this h)

theorem zero_memR : toQ ((Ops.rounded fm).ofInt 0) ∈ fm.F := by simpa using fm.zero_mem

/-- **monotone selection**: the index read by loop + fall-through is a non-decreasing function of the position -/
theorem sel_mono {p p' : R fm} (h : toQ p ≤ toQ p') (l : List (R fm × ι)) :
    sel (Ops.rounded fm) p l ≤ sel (Ops.rounded fm) p' l := by
  cases hw' : walkIdx p' l ((Ops.rounded fm).ofInt 0) with
  | none =>
    have : sel (Ops.rounded fm) p' l = l.length - 1 := by simp [sel, hw']
    rw [this]; exact sel_le_pred _ p l
  | some k' =>
    obtain ⟨h1, _, h3⟩ := (walkIdx_some_iff_g p' l _ k').mp hw'
    have hreach : p ≤ acc l ((Ops.rounded fm).ofInt 0) (k' + 1) := le_trans (α := ℚ) h h3
    obtain ⟨k, hk, hle⟩ := walkIdx_le_of_reached p l ((Ops.rounded fm).ofInt 0) h1 hreach
    simp [sel, hw', hk, hle]

/-- **which zero-rate entries can be read**: the entry read by loop + fall-through has rate zero iff
(a) the position is `≤ 0` and the first entry has rate zero, or
(b) the last rounded running sum is below the position (fall-through) and the last entry has rate zero. -/
theorem sel_zero_rate_iff {l : List (R fm × ι)} (hne : l ≠ []) (hl : NonNegR l) (p : R fm) :
    toQ (l[sel (Ops.rounded fm) p l]'(sel_lt _ p hne)).1 = 0 ↔
      (toQ p ≤ 0 ∧ toQ (l[0]'(List.length_pos_iff.mpr hne)).1 = 0) ∨
      (toQ (acc l ((Ops.rounded fm).ofInt 0) l.length) < toQ p ∧
        toQ (l[l.length - 1]'(by have := List.length_pos_iff.mpr hne; omega)).1 = 0) := by
  have hlen : 0 < l.length := List.length_pos_iff.mpr hne
  cases hw : walkIdx p l ((Ops.rounded fm).ofInt 0) with
  | none =>
    have hs : sel (Ops.rounded fm) p l = l.length - 1 := by simp [sel, hw]
    have hlt : toQ (acc l ((Ops.rounded fm).ofInt 0) l.length) < toQ p := by
      rcases (walkIdx_none_iff_R p hl _ zero_memR).mp hw with h | h
      · exact absurd h hne
      · exact h
    simp only [hs]
    constructor
    · intro h; exact Or.inr ⟨hlt, h⟩
    · rintro (⟨h1, _⟩ | ⟨_, h2⟩)
      · exfalso
        have := acc_mono hl ((Ops.rounded fm).ofInt 0) zero_memR (Nat.zero_le l.length)
        simp only [acc_zero, rounded_ofInt, Int.cast_zero] at this
        linarith
      · exact h2
  | some k =>
    have hs : sel (Ops.rounded fm) p l = k := by simp [sel, hw]
    obtain ⟨hk, h2, h3⟩ := (walkIdx_some_iff_R p hl _ zero_memR k).mp hw
    simp only [hs]
    constructor
    · intro hz
      rw [acc_succ l _ hk, toQ_add, hz, add_zero, fm.rnd_id _ (acc_mem l _ zero_memR k)] at h3
      rcases h2 with rfl | h2
      · left
        simp only [acc_zero, rounded_ofInt, Int.cast_zero] at h3
        exact ⟨h3, hz⟩
      · exact absurd h3 (not_le.mpr h2)
    · rintro (⟨h1, hz⟩ | ⟨h1, _⟩)
      · have : walkIdx p l ((Ops.rounded fm).ofInt 0) = some 0 := by
          rw [walkIdx_some_iff_R p hl _ zero_memR]
          refine ⟨hlen, Or.inl rfl, ?_⟩
          have := acc_le_succ hl ((Ops.rounded fm).ofInt 0) zero_memR 0
          simp only [acc_zero, rounded_ofInt, Int.cast_zero] at this
          linarith
        rw [hw] at this
        cases this
        exact hz
      · exfalso
        have := acc_mono hl ((Ops.rounded fm).ofInt 0) zero_memR (show k + 1 ≤ l.length by omega)
        linarith

/-- `_random_position` before the active unit is representable and never below its start value -/
theorem posAcc_mem_ge (t : List (R fm × ι)) (p : R fm) (hp : toQ p ∈ fm.F) :
    toQ (posAcc (Ops.rounded fm) t p) ∈ fm.F ∧ toQ p ≤ toQ (posAcc (Ops.rounded fm) t p) := by
  induction t generalizing p with
  | nil => exact ⟨hp, le_refl _⟩
  | cons x t ih =>
    obtain ⟨r, i⟩ := x
    unfold posAcc
    split
    · next h =>
      have hr : (0 : ℚ) < toQ r := by simpa using h
      obtain ⟨h1, h2⟩ := ih (p + r) (by rw [toQ_add]; exact fm.rnd_mem _)
      refine ⟨h1, le_trans ?_ h2⟩
      rw [toQ_add]
      exact fm.le_rnd_of_le hp (by linarith)
    · exact ih p hp

theorem condAOn_iff (l : List (R fm × ι)) (p : R fm) :
    condAOn (Ops.rounded fm) l p = true ↔ toQ p ≤ 0 ∧ ∃ h : 0 < l.length, toQ (l[0]).1 = 0 := by
  unfold condAOn
  cases l with
  | nil => simp
  | cons e t => simp

theorem condBOn_iff (l : List (R fm × ι)) (p : R fm) :
    condBOn (Ops.rounded fm) l p = true ↔
      toQ (acc l ((Ops.rounded fm).ofInt 0) l.length) < toQ p ∧
        ∃ h : 0 < l.length, toQ (l[l.length - 1]).1 = 0 := by
  unfold condBOn
  rcases List.eq_nil_or_concat l with rfl | ⟨L, b, rfl⟩
  · simp
  · simp

end rounded

end JF.Lifting
