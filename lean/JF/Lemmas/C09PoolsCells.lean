import JF.Props.C10C11
/-!
E40 / C09, last clause — demand bounds of the five CELL taggers
(`activator/tagger/{cell_boundary, cell_veto, cell_bounding_potential, excluded_cells, surplus_cells}_tagger.py`,
models in `JF/Model/CellTaggers.lean`), for EVERY occupancy state given as data (`CellTaggers.Occ`), and — where a bound in terms
of the number of relevant units is wanted — under C10's `OccInv` (which `JF.C10C11.reach_occInv` derives from C11 for every
reachable occupancy).

Each in-state yielded costs one event handler of the tagger's pool (`TagActivator._get_event_handlers_to_run_update`:
`self._not_running_event_handlers[tagger].pop()`, `IndexError` -> `TagActivatorError`), so "length of the yield" = "demand".
-/
namespace JF.C09Pools
open JF JF.CellTaggers JF.C10

/-! ### list helpers -/

theorem length_flatMap_le_mul {α β : Type} (f : α → List β) (cap : Nat) :
    ∀ (l : List α), (∀ x ∈ l, (f x).length ≤ cap) → (l.flatMap f).length ≤ l.length * cap
  | [], _ => by simp
  | x :: xs, h => by
    have h1 := h x List.mem_cons_self
    have h2 := length_flatMap_le_mul f cap xs (fun y hy => h y (List.mem_cons_of_mem _ hy))
    simp only [List.flatMap_cons, List.length_append, List.length_cons, Nat.succ_mul]
    omega

theorem length_filter_nonempty_le_flatMap {α β : Type} (f : α → List β) :
    ∀ (l : List α), (l.filter fun x => !(f x).isEmpty).length ≤ (l.flatMap f).length
  | [] => by simp
  | x :: xs => by
    have ih := length_filter_nonempty_le_flatMap f xs
    rw [List.flatMap_cons, List.length_append, List.filter_cons]
    cases hx : f x with
    | nil => simp only [List.isEmpty_nil, Bool.not_true, Bool.false_eq_true, if_false, List.length_nil]; omega
    | cons y ys => simp only [List.isEmpty_cons, Bool.not_false, if_true, List.length_cons]; omega

/-! ### cell-veto / cell-boundary tagger: one in-state per active unit on the cell level (at most one) -/

/-- `CellVetoTagger` / `CellBoundaryTagger`: `for _, active_identifier in yield_active_cells(): yield (active_identifier,)` —
at most ONE in-state, whatever the state -/
theorem cellVeto_demand_le_one (s : Occ) : (cellVetoTagger s).length ≤ 1 := by
  unfold cellVetoTagger; split <;> simp

theorem cellVeto_demand_eq (s : Occ) : (cellVetoTagger s).length = if s.active.isSome then 1 else 0 := by
  unfold cellVetoTagger; split <;> simp_all

/-! ### excluded-cells tagger -/

/-- exact demand: the occupants of the nearby cells of the active cell -/
theorem excluded_demand_eq (g : Grid) (s : Occ) (ac : Cell) (a : Ident) (h : s.active = some (ac, a)) :
    (excludedCellsTagger g s).length = ((nearby g ac).flatMap s.occ).length := by
  simp only [excludedCellsTagger, h, List.length_flatMap, List.length_map]

/-- **`ExcludedCellsTagger`, every state**: at most (number of nearby cells) × (occupant limit) in-states -/
theorem excluded_demand_le_nearby_cap (g : Grid) (s : Occ) (cap : Nat) (hcap : ∀ c, (s.occ c).length ≤ cap) :
    (excludedCellsTagger g s).length ≤
      (match s.active with | none => 0 | some (ac, _) => (nearby g ac).length * cap) := by
  cases h : s.active with
  | none => simp [excludedCellsTagger, h]
  | some p =>
    obtain ⟨ac, a⟩ := p
    rw [excluded_demand_eq g s ac a h]
    exact length_flatMap_le_mul s.occ cap _ (fun c _ => hcap c)

theorem excluded_demand_eq_targets (g : Grid) (s : Occ) (ac : Cell) (a : Ident) (h : s.active = some (ac, a)) :
    (excludedCellsTagger g s).length = (targetsExcluded g s).length := by
  rw [excluded_demand_eq g s ac a h, targetsExcluded_eq g s ac a h]

/-! ### surplus tagger -/

/-- exact demand of `SurplusCellsTagger`: one in-state per surplus unit (if there is an active unit) -/
theorem surplus_demand_eq (s : Occ) (ac : Cell) (a : Ident) (h : s.active = some (ac, a)) :
    (surplusCellsTagger s).length = s.yieldSurplus.length := by
  simp [surplusCellsTagger, h]

theorem surplus_demand_eq_targets (s : Occ) (ac : Cell) (a : Ident) (h : s.active = some (ac, a)) :
    (surplusCellsTagger s).length = (targetsSurplus s).length := by
  rw [surplus_demand_eq s ac a h, targetsSurplus_eq s ac a h]

/-! ### cell-bounding-potential tagger -/

/-- exact demand: the NON-EMPTY non-nearby cells -/
theorem bounding_demand_eq (g : Grid) (s : Occ) (ac : Cell) (a : Ident) (h : s.active = some (ac, a)) :
    (cellBoundingTagger g s).length = ((nonNearby g ac).filter fun c => !(s.occ c).isEmpty).length := by
  simp only [cellBoundingTagger, h, List.length_map, nonNearby, List.filter_filter]

/-- **`CellBoundingPotentialTagger`, every state**: at most one in-state per non-nearby cell -/
theorem bounding_demand_le_nonNearby (g : Grid) (s : Occ) (ac : Cell) (a : Ident) (h : s.active = some (ac, a)) :
    (cellBoundingTagger g s).length ≤ (nonNearby g ac).length := by
  rw [bounding_demand_eq g s ac a h]; exact List.length_filter_le _ _

/-- … and at most one per unit stored in a non-nearby cell -/
theorem bounding_demand_le_targets (g : Grid) (s : Occ) (ac : Cell) (a : Ident) (h : s.active = some (ac, a)) :
    (cellBoundingTagger g s).length ≤ (targetsBounding g s).length := by
  rw [bounding_demand_eq g s ac a h, targetsBounding_eq g s ac a h]
  exact length_filter_nonempty_le_flatMap s.occ _

/-- the number of non-nearby cells does not depend on the (valid) active cell: it is the size of the cell-veto walker domain -/
theorem nonNearby_length (g : Grid) (ac : Cell) (hac : Valid g.n ac) : (nonNearby g ac).length = (vetoDomain g).length := by
  rw [← (veto_domain_translate g ac hac).length_eq, List.length_map]

theorem nearby_length (g : Grid) (ac : Cell) (hac : Valid g.n ac) :
    (nearby g ac).length = (allCells g.n).length - (vetoDomain g).length := by
  have := (cells_split g ac hac).length_eq
  rw [List.length_append, nonNearby_length g ac hac] at this
  omega

/-! ### under the occupancy invariant: the three families share the `relevant − 1` other units -/

/-- **cell-bounding variant**: (cell-bounding in-states) + (excluded in-states) + (surplus in-states) ≤ number of relevant units − 1 -/
theorem cell_demands_le_relevant_bounding (g : Grid) (s : Occ) (relevant : List Ident) (ac : Cell) (a : Ident)
    (inv : OccInv g s relevant ac a) :
    (cellBoundingTagger g s).length + (excludedCellsTagger g s).length + (surplusCellsTagger s).length ≤ relevant.length - 1 := by
  have hp := (cell_partition_bounding g s relevant ac a inv).length_eq
  rw [List.length_append, List.length_append, List.length_erase_of_mem inv.active_relevant] at hp
  have h1 := bounding_demand_le_targets g s ac a inv.active
  rw [excluded_demand_eq_targets g s ac a inv.active, surplus_demand_eq_targets s ac a inv.active]
  omega

/-- **cell-veto variant**: (excluded in-states) + (surplus in-states) + (units a cell-veto event can target) = relevant units − 1 -/
theorem cell_demands_eq_relevant_veto (g : Grid) (s : Occ) (relevant : List Ident) (ac : Cell) (a : Ident)
    (inv : OccInv g s relevant ac a) :
    (targetsVeto g s).length + (excludedCellsTagger g s).length + (surplusCellsTagger s).length = relevant.length - 1 := by
  have hp := (cell_partition_veto g s relevant ac a inv).length_eq
  rw [List.length_append, List.length_append, List.length_erase_of_mem inv.active_relevant] at hp
  rw [excluded_demand_eq_targets g s ac a inv.active, surplus_demand_eq_targets s ac a inv.active]
  exact hp

theorem excluded_demand_le_relevant (g : Grid) (s : Occ) (relevant : List Ident) (ac : Cell) (a : Ident)
    (inv : OccInv g s relevant ac a) : (excludedCellsTagger g s).length ≤ relevant.length - 1 := by
  have := cell_demands_eq_relevant_veto g s relevant ac a inv; omega

theorem surplus_demand_le_relevant (g : Grid) (s : Occ) (relevant : List Ident) (ac : Cell) (a : Ident)
    (inv : OccInv g s relevant ac a) : (surplusCellsTagger s).length ≤ relevant.length - 1 := by
  have := cell_demands_eq_relevant_veto g s relevant ac a inv; omega

theorem bounding_demand_le_relevant (g : Grid) (s : Occ) (relevant : List Ident) (ac : Cell) (a : Ident)
    (inv : OccInv g s relevant ac a) : (cellBoundingTagger g s).length ≤ relevant.length - 1 := by
  have := cell_demands_le_relevant_bounding g s relevant ac a inv; omega

/-! ### the bound functions used by the per-configuration obligations -/

/-- `_maximum_number_occupants` as a natural number: `none` = not bounded (`≤ 0` in the `.ini`) -/
def capNat (cap : Int) : Option Nat := if cap ≤ 0 then none else some cap.toNat

/-- bound on the demand of an `ExcludedCellsTagger`: min (nearby cells × occupant limit, relevant units − 1) -/
def excludedBound (g : Grid) (cap : Int) (nRel : Nat) : Nat :=
  match capNat cap with
  | none => nRel - 1
  | some k => min (((allCells g.n).length - (vetoDomain g).length) * k) (nRel - 1)

/-- bound on the demand of a `CellBoundingPotentialTagger`: min (non-nearby cells, relevant units − 1) -/
def boundingBound (g : Grid) (nRel : Nat) : Nat := min (vetoDomain g).length (nRel - 1)

/-- bound on the demand of a `SurplusCellsTagger` -/
def surplusBound (nRel : Nat) : Nat := nRel - 1

theorem excluded_demand_le_bound (g : Grid) (s : Occ) (relevant : List Ident) (ac : Cell) (a : Ident)
    (inv : OccInv g s relevant ac a) (cap : Int) (hcap : 0 < cap → ∀ c, ((s.occ c).length : Int) ≤ cap) :
    (excludedCellsTagger g s).length ≤ excludedBound g cap relevant.length := by
  have h1 := excluded_demand_le_relevant g s relevant ac a inv
  unfold excludedBound capNat
  split
  · next hc => split at hc <;> simp_all
  · next k hc =>
    split at hc
    · cases hc
    · next hpos =>
      simp only [Option.some.injEq] at hc; subst hc
      have hpos' : 0 < cap := by omega
      have h2 := excluded_demand_le_nearby_cap g s cap.toNat (fun c => by have := hcap hpos' c; omega)
      rw [inv.active] at h2
      simp only at h2
      rw [nearby_length g ac inv.cell_valid] at h2
      exact Nat.le_min.mpr ⟨h2, h1⟩

theorem bounding_demand_le_bound (g : Grid) (s : Occ) (relevant : List Ident) (ac : Cell) (a : Ident)
    (inv : OccInv g s relevant ac a) : (cellBoundingTagger g s).length ≤ boundingBound g relevant.length := by
  refine Nat.le_min.mpr ⟨?_, bounding_demand_le_relevant g s relevant ac a inv⟩
  rw [← nonNearby_length g ac inv.cell_valid]
  exact bounding_demand_le_nonNearby g s ac a inv.active

/-- no active unit recorded: no cell tagger demands anything -/
theorem no_active_no_demand (g : Grid) (s : Occ) (h : s.active = none) :
    (cellVetoTagger s).length = 0 ∧ (cellBoundingTagger g s).length = 0 ∧ (excludedCellsTagger g s).length = 0 ∧
    (surplusCellsTagger s).length = 0 := by
  simp [cellVetoTagger, cellBoundingTagger, excludedCellsTagger, surplusCellsTagger, h]

end JF.C09Pools
