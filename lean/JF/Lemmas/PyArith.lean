import JF.Model.Time
import Mathlib.Algebra.Order.Floor.Ring
import Mathlib.Data.Rat.Floor
import Mathlib.Tactic.Linarith
import Mathlib.Tactic.Ring
import Mathlib.Tactic.Push
/-!
Helper lemmas: CPython float `divmod`/`%` in the exact reading (`Ops.rat`).
-/
namespace JF
theorem trunc_nonneg {x : ℚ} (h : 0 ≤ x) : Rat.trunc x = ⌊x⌋ := by
  unfold Rat.trunc; simp [h]; rfl
theorem trunc_neg {x : ℚ} (h : x < 0) : Rat.trunc x = ⌈x⌉ := by
  unfold Rat.trunc; simp [not_le.mpr h, Int.ceil]; rfl

theorem fmod1 (x : ℚ) : Ops.rat.fmod x (Ops.rat.ofInt 1) = if 0 ≤ x then x - ⌊x⌋ else x - ⌈x⌉ := by
  simp only [Ops.rat]
  split
  · next h => simp [trunc_nonneg h]
  · next h => simp [trunc_neg (not_le.mp h)]

@[simp] theorem ratfloor_eq (y : ℚ) : y.floor = ⌊y⌋ := rfl

theorem fl_int (n : ℤ) :
    (if ((n:ℚ) != 0) = true then (if (1:ℚ) / 2 < (n:ℚ) - ((⌊(n:ℚ)⌋ : ℤ) : ℚ) then ((⌊(n:ℚ)⌋ : ℤ) : ℚ) + 1 else ((⌊(n:ℚ)⌋ : ℤ) : ℚ)) else 0) = (n:ℚ) := by
  simp only [Int.floor_intCast, sub_self]
  norm_num
  intro h; simp [h]

/-- CPython's `divmod(x, 1.0)` is `(floor x, x - floor x)` in exact arithmetic. -/
theorem pydivmod1_rat (x : ℚ) : pydivmod1 Ops.rat x = ((⌊x⌋ : ℚ), x - ⌊x⌋) := by
  simp only [pydivmod1, fmod1]
  simp only [Ops.rat, ratfloor_eq, Int.cast_one, Int.cast_zero, Int.cast_ofNat, div_one]
  rcases le_or_gt 0 x with h | h
  · have hm0 : (0:ℚ) ≤ x - ⌊x⌋ := by linarith [Int.floor_le x]
    have hnl : ¬ (x - (⌊x⌋:ℚ) < 0) := not_lt.mpr hm0
    have e1 : x - (x - (⌊x⌋:ℚ)) = ⌊x⌋ := by ring
    simp only [h, if_true, e1, hnl, decide_false, show ¬ ((1:ℚ) < 0) by norm_num, bne_self_eq_false, Bool.and_false,
      Bool.false_eq_true, if_false, fl_int]
    by_cases hz : x - (⌊x⌋:ℚ) = 0
    · simp; exact fun h => h.symm
    · simp; exact fun h => (hz h).elim
  · have hnl : ¬ (0 ≤ x) := not_le.mpr h
    simp only [hnl, if_false]
    have hc1 : x ≤ ⌈x⌉ := Int.le_ceil x
    have e1 : x - (x - (⌈x⌉:ℚ)) = ⌈x⌉ := by ring
    simp only [e1]
    by_cases hz : x - (⌈x⌉:ℚ) = 0
    · have hx : x = ⌈x⌉ := by linarith
      have hf : ((⌊x⌋:ℤ):ℚ) = ⌈x⌉ := by rw [hx]; simp
      simp only [hz, bne_self_eq_false, Bool.false_and, Bool.false_eq_true, if_false, fl_int, hf]
    · have hlt : x - (⌈x⌉:ℚ) < 0 := lt_of_le_of_ne (by linarith) hz
      have hfl : ⌊x⌋ = ⌈x⌉ - 1 := by
        rw [Int.floor_eq_iff]; constructor
        · push_cast; linarith [Int.ceil_lt_add_one x]
        · push_cast; linarith
      have e2 : ((⌈x⌉:ℚ) - 1) = ((⌈x⌉ - 1 : ℤ) : ℚ) := by push_cast; ring
      have hb : (x - (⌈x⌉:ℚ) != 0) = true := by simpa using hz
      simp only [hb, hlt, decide_true, show ¬ ((1:ℚ) < 0) by norm_num, decide_false, Bool.true_and, if_true, hfl]
      have := fl_int (⌈x⌉ - 1)
      rw [← e2] at this
      simp only [Int.cast_sub, Int.cast_one]
      refine Prod.ext ?_ ?_
      · simpa using this
      · simp; ring

@[simp] theorem rat_isInf (x : ℚ) : Ops.rat.isInf x = false := rfl
@[simp] theorem rat_ofInt (n : ℤ) : Ops.rat.ofInt n = (n : ℚ) := rfl
@[simp] theorem rat_floor (x : ℚ) : Ops.rat.floor x = (⌊x⌋ : ℚ) := rfl
@[simp] theorem rat_zeroLike (x : ℚ) : Ops.rat.zeroLike x = 0 := rfl
@[simp] theorem rat_toInt (x : ℚ) : Ops.rat.toInt x = Rat.trunc x := rfl

end JF
