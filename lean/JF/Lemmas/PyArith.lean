import JF.Model.Time
import Mathlib.Algebra.Order.Floor.Ring
import Mathlib.Data.Rat.Floor
import Mathlib.Tactic.Linarith
import Mathlib.Tactic.Ring
import Mathlib.Tactic.Push
/-!
Helper lemmas: CPython float `divmod`/`%` in the exact reading (`Ops.rat`).
-/
namespace JF
theorem trunc_nonneg {x : ℚ} (h : 0 ≤ x) : Rat.trunc x = ⌊x⌋ := by
  unfold Rat.trunc; simp [h]; rfl
theorem trunc_neg {x : ℚ} (h : x < 0) : Rat.trunc x = ⌈x⌉ := by
  unfold Rat.trunc; simp [not_le.mpr h, Int.ceil]; rfl

theorem fmod1 (x : ℚ) : Ops.rat.fmod x (Ops.rat.ofInt 1) = if 0 ≤ x then x - ⌊x⌋ else x - ⌈x⌉ := by
  simp only [Ops.rat]
  split
  · next h => simp [trunc_nonneg h]
  · next h => simp [trunc_neg (not_le.mp h)]

@[simp] theorem ratfloor_eq (y : ℚ) : y.floor = ⌊y⌋ := rfl

theorem fl_int (n : ℤ) :
    (if ((n:ℚ) != 0) = true then (if (1:ℚ) / 2 < (n:ℚ) - ((⌊(n:ℚ)⌋ : ℤ) : ℚ) then ((⌊(n:ℚ)⌋ : ℤ) : ℚ) + 1 else ((⌊(n:ℚ)⌋ : ℤ) : ℚ)) else 0) = (n:ℚ) := by
  simp only [Int.floor_intCast, sub_self]
  norm_num
  intro h; simp [h]

/-- CPython's `divmod(x, 1.0)` is `(floor x, x - floor x)` in exact arithmetic. -/
theorem pydivmod1_rat (x : ℚ) : pydivmod1 Ops.rat x = ((⌊x⌋ : ℚ), x - ⌊x⌋) := by
  simp only [pydivmod1, fmod1]
  simp only [Ops.rat, ratfloor_eq, Int.cast_one, Int.cast_zero, Int.cast_ofNat, div_one]
  rcases le_or_gt 0 x with h | h
  · have hm0 : (0:ℚ) ≤ x - ⌊x⌋ := by linarith [Int.floor_le x]
    have hnl : ¬ (x - (⌊x⌋:ℚ) < 0) := not_lt.mpr hm0
    have e1 : x - (x - (⌊x⌋:ℚ)) = ⌊x⌋ := by ring
    simp only [h, if_true, e1, hnl, decide_false, show ¬ ((1:ℚ) < 0) by norm_num, bne_self_eq_false, Bool.and_false,
      Bool.false_eq_true, if_false, fl_int]
    by_cases hz : x - (⌊x⌋:ℚ) = 0
    · simp; exact fun h => h.symm
    · simp; exact fun h => (hz h).elim
  · have hnl : ¬ (0 ≤ x) := not_le.mpr h
    simp only [hnl, if_false]
    have hc1 : x ≤ ⌈x⌉ := Int.le_ceil x
    have e1 : x - (x - (⌈x⌉:ℚ)) = ⌈x⌉ := by ring
    simp only [e1]
    by_cases hz : x - (⌈x⌉:ℚ) = 0
    · have hx : x = ⌈x⌉ := by linarith
      have hf : ((⌊x⌋:ℤ):ℚ) = ⌈x⌉ := by rw [hx]; simp
      simp only [hz, bne_self_eq_false, Bool.false_and, Bool.false_eq_true, if_false, fl_int, hf]
    · have hlt : x - (⌈x⌉:ℚ) < 0 := lt_of_le_of_ne (by linarith) hz
      have hfl : ⌊x⌋ = ⌈x⌉ - 1 := by
        rw [Int.floor_eq_iff]; constructor
        · push_cast; linarith [Int.ceil_lt_add_one x]
        · push_cast; linarith
      have e2 : ((⌈x⌉:ℚ) - 1) = ((⌈x⌉ - 1 : ℤ) : ℚ) := by push_cast; ring
      have hb : (x - (⌈x⌉:ℚ) != 0) = true := by simpa using hz
      simp only [hb, hlt, decide_true, show ¬ ((1:ℚ) < 0) by norm_num, decide_false, Bool.true_and, if_true, hfl]
      have := fl_int (⌈x⌉ - 1)
      rw [← e2] at this
      simp only [Int.cast_sub, Int.cast_one]
      refine Prod.ext ?_ ?_
      · simpa using this
      · simp; ring

@[simp] theorem rat_isInf (x : ℚ) : Ops.rat.isInf x = false := rfl
@[simp] theorem rat_ofInt (n : ℤ) : Ops.rat.ofInt n = (n : ℚ) := rfl
@[simp] theorem rat_floor (x : ℚ) : Ops.rat.floor x = (⌊x⌋ : ℚ) := rfl
@[simp] theorem rat_zeroLike (x : ℚ) : Ops.rat.zeroLike x = 0 := rfl
@[simp] theorem rat_toInt (x : ℚ) : Ops.rat.toInt x = Rat.trunc x := rfl

theorem fmod_rat (x y : ℚ) : Ops.rat.fmod x y = if 0 ≤ x / y then x - y * ⌊x / y⌋ else x - y * ⌈x / y⌉ := by
  simp only [Ops.rat]
  split
  · next h => simp [trunc_nonneg h]
  · next h => simp [trunc_neg (not_le.mp h)]

/-- Python's float `%` in the exact reading, positive modulus: `x - y * floor (x / y)` -/
theorem pymod_rat_pos (x y : ℚ) (hy : 0 < y) : pymod Ops.rat x y = x - y * ⌊x / y⌋ := by
  unfold pymod
  rw [fmod_rat]
  simp only [rat_ofInt, rat_zeroLike, Int.cast_zero]
  have hy' : ¬ (y < 0) := not_lt.mpr hy.le
  by_cases h : 0 ≤ x / y
  · simp only [h, if_true]
    have h0 : 0 ≤ x - y * ⌊x / y⌋ := by
      have := Int.floor_le (x / y)
      have : y * ⌊x / y⌋ ≤ y * (x / y) := by exact mul_le_mul_of_nonneg_left this hy.le
      rw [mul_div_cancel₀ _ hy.ne'] at this; linarith
    have hn : ¬ (x - y * ⌊x / y⌋ < 0) := not_lt.mpr h0
    by_cases hz : x - y * (⌊x / y⌋ : ℚ) = 0
    · simp [hz]
    · simp [hz, hy', hn]
  · simp only [h, if_false]
    have hc : x / y ≤ ⌈x / y⌉ := Int.le_ceil _
    have h0 : x - y * ⌈x / y⌉ ≤ 0 := by
      have : y * (x / y) ≤ y * ⌈x / y⌉ := mul_le_mul_of_nonneg_left hc hy.le
      rw [mul_div_cancel₀ _ hy.ne'] at this; linarith
    by_cases hz : x - y * (⌈x / y⌉ : ℚ) = 0
    · have hx : x / y = ⌈x / y⌉ := by
        field_simp; linarith
      have hf : (⌊x / y⌋ : ℚ) = ⌈x / y⌉ := by rw [hx]; simp
      simp [hz, hf]
    · have hlt : x - y * (⌈x / y⌉ : ℚ) < 0 := lt_of_le_of_ne h0 hz
      have hne : x / y ≠ ⌈x / y⌉ := by
        intro he; apply hz; rw [← he]; field_simp; ring
      have hfl : ⌊x / y⌋ = ⌈x / y⌉ - 1 := by
        rw [Int.floor_eq_iff]; constructor
        · push_cast; linarith [Int.ceil_lt_add_one (x / y)]
        · push_cast; have := lt_of_le_of_ne hc hne; linarith
      simp [hz, hy', hlt, hfl]; ring

theorem pymod_rat_nonneg (x y : ℚ) (hy : 0 < y) : 0 ≤ pymod Ops.rat x y := by
  rw [pymod_rat_pos x y hy]
  have := Int.floor_le (x / y)
  have : y * ⌊x / y⌋ ≤ y * (x / y) := mul_le_mul_of_nonneg_left this hy.le
  rw [mul_div_cancel₀ _ hy.ne'] at this; linarith

theorem pymod_rat_lt (x y : ℚ) (hy : 0 < y) : pymod Ops.rat x y < y := by
  rw [pymod_rat_pos x y hy]
  have := Int.lt_floor_add_one (x / y)
  have : y * (x / y) < y * (⌊x / y⌋ + 1) := mul_lt_mul_of_pos_left this hy
  rw [mul_div_cancel₀ _ hy.ne'] at this; linarith

/-! ### `pywrap`: the repaired `correct_position_entry` (`r = x % L; r if r != L else 0.0`) -/

/-- whenever the modulo is not (`==`-)equal to the modulus, `pywrap` is the plain modulo; any scalar type -/
theorem pywrap_eq_pymod_of_ne {α : Type} [Add α] [LT α] [DecidableLT α] [BEq α] (o : Ops α) (x L : α)
    (h : (pymod o x L != L) = true) : pywrap o x L = pymod o x L := by
  simp [pywrap, h]

/-- … and `0` otherwise -/
theorem pywrap_eq_zero_of_eq {α : Type} [Add α] [LT α] [DecidableLT α] [BEq α] (o : Ops α) (x L : α)
    (h : (pymod o x L != L) = false) : pywrap o x L = o.ofInt 0 := by
  simp [pywrap, h]

/-- in the exact reading the extra branch is dead (`x % L < L`): the mathematical floor-mod -/
theorem pywrap_rat_pos (x y : ℚ) (hy : 0 < y) : pywrap Ops.rat x y = x - y * ⌊x / y⌋ := by
  have hne : (pymod Ops.rat x y != y) = true := by
    simpa using (pymod_rat_lt x y hy).ne
  rw [pywrap_eq_pymod_of_ne _ _ _ hne, pymod_rat_pos x y hy]

theorem pywrap_rat_eq_pymod (x y : ℚ) (hy : 0 < y) : pywrap Ops.rat x y = pymod Ops.rat x y := by
  rw [pywrap_rat_pos x y hy, pymod_rat_pos x y hy]

theorem pywrap_rat_nonneg (x y : ℚ) (hy : 0 < y) : 0 ≤ pywrap Ops.rat x y := by
  rw [pywrap_rat_eq_pymod x y hy]; exact pymod_rat_nonneg x y hy

theorem pywrap_rat_lt (x y : ℚ) (hy : 0 < y) : pywrap Ops.rat x y < y := by
  rw [pywrap_rat_eq_pymod x y hy]; exact pymod_rat_lt x y hy

end JF
