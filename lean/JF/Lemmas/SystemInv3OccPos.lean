import JF.Lemmas.SystemRun3LoopStep
/-!
E46 / C11 for composite objects with cells — what ONE `Composite.step` does to the POSITION of every unit (root unit or point mass),
for ALL NINE event kinds (`keep snap exchange pass eocLeaf eocRoot toLeaf toRoot start`):

`step_unit`: the position of a unit after the step is the position of the unit time-sliced zero or more times at the event time
(`URel`: every event is `sliceAt` of some in-state followed by `applyUpds` on at most two composite objects, and `applyUpds` changes
velocities and time stamps of point masses, and time-slices the root unit before it changes its velocity — nothing else touches a
position; an admissible cell-boundary event writes the coordinate the unit has reached), and a unit exists after the step iff it
existed before.  Consequences:
* `composite_step_rest_fixed`: **a unit at rest before the step is not displaced** (whether or not it moves afterwards) — in
  particular a unit at rest before AND after;
* `step_unit_pres`: a property of a unit that a time slice at the event time preserves holds for a unit with the position after the step.
-/
namespace JF.Sys3Occ
open JF JF.Composite JF.C12 JF.Kin JF.Sys2

section
variable (L : List ℚ) (t : Time ℚ)

/-- `n` time slices at time `t` -/
def iter : Nat → PUnit ℚ → PUnit ℚ
  | 0, u => u
  | n + 1, u => iter n (Kin.timeSlice Ops.rat L t u)

theorem iter_iter (m : Nat) : ∀ (n : Nat) (u : PUnit ℚ), iter L t m (iter L t n u) = iter L t (n + m) u
  | 0, u => by simp [iter]
  | n + 1, u => by
    show iter L t m (iter L t n (Kin.timeSlice Ops.rat L t u)) = _
    rw [iter_iter m n, show n + 1 + m = (n + m) + 1 by omega]; rfl

theorem iter_rest : ∀ (n : Nat) {u : PUnit ℚ}, u.vel = none → iter L t n u = u
  | 0, _, _ => rfl
  | n + 1, u, h => by
    show iter L t n (Kin.timeSlice Ops.rat L t u) = u
    rw [timeSlice_of_rest L t u h]; exact iter_rest n h

theorem iter_pres {P : PUnit ℚ → Prop} (hP : ∀ x, P x → P (Kin.timeSlice Ops.rat L t x)) :
    ∀ (n : Nat) {u : PUnit ℚ}, P u → P (iter L t n u)
  | 0, _, h => h
  | n + 1, _, h => iter_pres hP n (hP _ h)

/-- the position of `u'` is the position of `u` after zero or more time slices at `t` -/
def URel (u u' : PUnit ℚ) : Prop := ∃ n, u'.pos = (iter L t n u).pos

theorem URel.refl (u : PUnit ℚ) : URel L t u u := ⟨0, rfl⟩
theorem URel.of_pos {u u' : PUnit ℚ} (h : u'.pos = u.pos) : URel L t u u' := ⟨0, h⟩
theorem URel.slice (u : PUnit ℚ) : URel L t u (Kin.timeSlice Ops.rat L t u) := ⟨1, rfl⟩
theorem URel.of_slice_pos {u u' : PUnit ℚ} (h : u'.pos = (Kin.timeSlice Ops.rat L t u).pos) : URel L t u u' := ⟨1, h⟩
theorem URel.after_iter {u u1 u2 : PUnit ℚ} {n : Nat} (h1 : u1 = iter L t n u) (h2 : URel L t u1 u2) : URel L t u u2 := by
  obtain ⟨m, hm⟩ := h2
  exact ⟨n + m, by rw [hm, h1, iter_iter]⟩

/-- both absent, or both present and related -/
def UOpt : Option (PUnit ℚ) → Option (PUnit ℚ) → Prop
  | some u, some u' => URel L t u u'
  | none, none => True
  | _, _ => False

theorem UOpt.refl (x : Option (PUnit ℚ)) : UOpt L t x x := by
  cases x with
  | none => trivial
  | some u => exact URel.refl L t u

theorem UOpt.after_iter {x : Option (PUnit ℚ)} {y z : Option (PUnit ℚ)} {n : Nat} (h1 : y = x.map (iter L t n))
    (h2 : UOpt L t y z) : UOpt L t x z := by
  subst h1
  cases x with
  | none => exact h2
  | some u =>
    cases z with
    | none => exact h2
    | some w => exact URel.after_iter L t rfl h2

/-- root related, point masses related index by index -/
def CRel (c c' : CObj ℚ) : Prop := URel L t c.root c'.root ∧ ∀ j : Nat, UOpt L t (c.leaves[j]?) (c'.leaves[j]?)

theorem commitRoot_urel (p : Option (List ℚ)) (r : PUnit ℚ) : URel L t r (commitRoot Ops.rat isZ L t p r) := by
  unfold commitRoot
  cases p with
  | none => exact URel.refl L t r
  | some ch =>
    cases hv : r.vel with
    | none => exact URel.of_pos L t rfl
    | some v =>
      simp only
      split
      · exact URel.of_slice_pos L t rfl
      · exact URel.of_slice_pos L t rfl

theorem setLeaves_pos (ups : List (Upd ℚ)) (ls : List (PUnit ℚ)) (j : Nat) :
    ((setLeaves ls ups)[j]?).map (·.pos) = (ls[j]?).map (·.pos) := by
  have := map_setLeaves_of_eq (fun u : PUnit ℚ => u.pos) (fun _ _ => rfl) ups ls
  have h2 := congrArg (fun l => l[j]?) this
  simpa [List.getElem?_map] using h2

theorem setLeaves_uopt (ups : List (Upd ℚ)) (ls : List (PUnit ℚ)) (j : Nat) : UOpt L t (ls[j]?) ((setLeaves ls ups)[j]?) := by
  have := setLeaves_pos ups ls j
  cases h1 : ls[j]? <;> cases h2 : (setLeaves ls ups)[j]? <;> rw [h1, h2] at this <;> simp at this
  · trivial
  · exact URel.of_pos L t this

theorem applyUpds_crel (ups : List (Upd ℚ)) (c : CObj ℚ) : CRel L t c (applyUpds Ops.rat isZ L t ups c) :=
  ⟨commitRoot_urel L t _ _, setLeaves_uopt L t ups c.leaves⟩

/-- the special branch of `eocLeaf` (another point mass of the same composite object): the point masses are time-sliced, the root
unit is the ORIGINAL one, then `applyUpds` -/
theorem eocSame_crel (ups : List (Upd ℚ)) (c0 : CObj ℚ) :
    CRel L t c0 (applyUpds Ops.rat isZ L t ups { sliceComp Ops.rat L t c0 with root := c0.root }) := by
  refine ⟨commitRoot_urel L t _ _, fun j => ?_⟩
  show UOpt L t (c0.leaves[j]?) ((setLeaves (c0.leaves.map (Kin.timeSlice Ops.rat L t)) ups)[j]?)
  have := setLeaves_pos ups (c0.leaves.map (Kin.timeSlice Ops.rat L t)) j
  rw [List.getElem?_map] at this
  cases h1 : c0.leaves[j]? <;> cases h2 : (setLeaves (c0.leaves.map (Kin.timeSlice Ops.rat L t)) ups)[j]? <;>
    rw [h1, h2] at this <;> simp at this
  · trivial
  · exact URel.of_slice_pos L t this

/-! ### units under `List.modify` -/

theorem unitAt_modify_ne (cs : List (CObj ℚ)) (i : Nat) (f : CObj ℚ → CObj ℚ) {id : List Nat} (h : id.head? ≠ some i) :
    unitAt (cs.modify i f) id = unitAt cs id := by
  match id with
  | [] => rfl
  | [a] =>
    have : i ≠ a := fun e => h (by rw [e]; rfl)
    simp only [unitAt]; rw [getElem?_modify_ne _ _ this]
  | [a, b] =>
    have : i ≠ a := fun e => h (by rw [e]; rfl)
    simp only [unitAt]; rw [getElem?_modify_ne _ _ this]
  | _ :: _ :: _ :: _ => rfl

theorem unitAt_modify (cs : List (CObj ℚ)) (i : Nat) (f : CObj ℚ → CObj ℚ) (hf : ∀ c, cs[i]? = some c → CRel L t c (f c))
    (id : List Nat) : UOpt L t (unitAt cs id) (unitAt (cs.modify i f) id) := by
  by_cases hh : id.head? = some i
  · match id with
    | [] => trivial
    | [a] =>
      have : a = i := by simpa using hh
      subst this
      simp only [unitAt]; rw [getElem?_modify_self]
      cases hc : cs[a]? with
      | none => trivial
      | some c => exact (hf c hc).1
    | [a, b] =>
      have : a = i := by simpa using hh
      subst this
      simp only [unitAt]; rw [getElem?_modify_self]
      cases hc : cs[a]? with
      | none => trivial
      | some c => exact (hf c hc).2 b
    | _ :: _ :: _ :: _ => trivial
  · rw [unitAt_modify_ne cs i f hh]; exact UOpt.refl L t _

theorem unitAt_modify2 (cs : List (CObj ℚ)) {i i' : Nat} (hne : i ≠ i') (f f' : CObj ℚ → CObj ℚ)
    (hf : ∀ c, CRel L t c (f c)) (hf' : ∀ c, CRel L t c (f' c)) (id : List Nat) :
    UOpt L t (unitAt cs id) (unitAt ((cs.modify i f).modify i' f') id) := by
  by_cases hh : id.head? = some i
  · have : id.head? ≠ some i' := by rw [hh]; intro e; exact hne (Option.some.inj e)
    rw [unitAt_modify_ne _ i' f' this]
    exact unitAt_modify L t cs i f (fun c _ => hf c) id
  · have := unitAt_modify L t (cs.modify i f) i' f' (fun c _ => hf' c) id
    rwa [unitAt_modify_ne cs i f hh] at this

/-- `sliceAt`: every unit is time-sliced some number of times -/
theorem unitAt_sliceAt_iter (id : List Nat) : ∀ (S : List Nat) (cs : List (CObj ℚ)),
    ∃ n, unitAt (sliceAt Ops.rat L t S cs) id = (unitAt cs id).map (iter L t n)
  | [], cs => ⟨0, by show unitAt cs id = _; cases unitAt cs id <;> rfl⟩
  | i :: S, cs => by
    rw [sliceAt_cons]
    obtain ⟨n, hn⟩ := unitAt_sliceAt_iter id S (cs.modify i (sliceComp Ops.rat L t))
    rw [unitAt_modify_slice] at hn
    by_cases hh : id.head? = some i
    · rw [if_pos hh] at hn
      refine ⟨n + 1, ?_⟩
      rw [hn]; cases unitAt cs id <;> rfl
    · rw [if_neg hh] at hn
      exact ⟨n, hn⟩

theorem uopt_sliceAt (id : List Nat) (S : List Nat) (cs : List (CObj ℚ)) :
    UOpt L t (unitAt cs id) (unitAt (sliceAt Ops.rat L t S cs) id) := by
  obtain ⟨n, hn⟩ := unitAt_sliceAt_iter L t id S cs
  exact UOpt.after_iter L t hn (UOpt.refl L t _)

/-- a state built from the time-sliced state `sl` -/
theorem uopt_via (id : List Nat) (S : List Nat) (cs X : List (CObj ℚ))
    (h : UOpt L t (unitAt (sliceAt Ops.rat L t S cs) id) (unitAt X id)) : UOpt L t (unitAt cs id) (unitAt X id) := by
  obtain ⟨n, hn⟩ := unitAt_sliceAt_iter L t id S cs
  exact UOpt.after_iter L t hn h

end

/-! ### the nine event kinds -/

section
variable (L : List ℚ)

theorem exchange_unit (t : Time ℚ) (S : List Nat) (i j i' j' : Nat) (cs : List (CObj ℚ)) (id : List Nat) :
    UOpt L t (unitAt cs id) (unitAt (exchange Ops.rat isZ L t S i j i' j' cs) id) := by
  apply uopt_via L t id S
  unfold exchange
  simp only
  split
  · exact UOpt.refl L t _
  · split
    · exact UOpt.refl L t _
    · unfold apply2
      split
      · exact unitAt_modify L t _ _ _ (fun c _ => applyUpds_crel L t _ c) id
      · next hne =>
        exact unitAt_modify2 L t _ (by simpa using hne) _ _ (applyUpds_crel L t _) (applyUpds_crel L t _) id

theorem pass_unit (t : Time ℚ) (S : List Nat) (iL iT : Nat) (cs : List (CObj ℚ)) (id : List Nat) :
    UOpt L t (unitAt cs id) (unitAt (pass Ops.rat isZ L t S iL iT cs) id) := by
  apply uopt_via L t id S
  unfold pass
  simp only
  split
  · split
    · exact UOpt.refl L t _
    · split
      · exact UOpt.refl L t _
      · next hne =>
        exact unitAt_modify2 L t _ (by simpa using hne) _ _ (applyUpds_crel L t _) (applyUpds_crel L t _) id
  · exact UOpt.refl L t _

theorem eocRoot_unit (t : Time ℚ) (i i' : Nat) (vn : List ℚ) (cs : List (CObj ℚ)) (id : List Nat) :
    UOpt L t (unitAt cs id) (unitAt (eocRoot Ops.rat isZ L t i i' vn cs) id) := by
  apply uopt_via L t id [i]
  unfold eocRoot
  simp only
  split
  · split
    · exact UOpt.refl L t _
    · split
      · exact unitAt_modify L t _ _ _ (fun c _ => applyUpds_crel L t _ c) id
      · next hne =>
        exact unitAt_modify2 L t _ (by simpa using hne) _ _ (applyUpds_crel L t _) (applyUpds_crel L t _) id
  · exact UOpt.refl L t _

theorem toLeaf_unit (t : Time ℚ) (i c : Nat) (cs : List (CObj ℚ)) (id : List Nat) :
    UOpt L t (unitAt cs id) (unitAt (toLeaf Ops.rat isZ L t i c cs) id) := by
  apply uopt_via L t id [i]
  unfold toLeaf
  simp only
  split
  · split
    · exact UOpt.refl L t _
    · exact unitAt_modify L t _ _ _ (fun c _ => applyUpds_crel L t _ c) id
  · exact UOpt.refl L t _

theorem toRoot_unit (t : Time ℚ) (i : Nat) (cs : List (CObj ℚ)) (id : List Nat) :
    UOpt L t (unitAt cs id) (unitAt (toRoot Ops.rat isZ L t i cs) id) := by
  apply uopt_via L t id [i]
  unfold toRoot
  simp only
  split
  · exact UOpt.refl L t _
  · split
    · exact UOpt.refl L t _
    · split
      · exact UOpt.refl L t _
      · split
        · exact UOpt.refl L t _
        · exact unitAt_modify L t _ _ _ (fun c _ => applyUpds_crel L t _ c) id

theorem start_unit (i : Nat) (P : List Nat) (v : List ℚ) (cs : List (CObj ℚ)) (id : List Nat) :
    UOpt L ⟨0, 0⟩ (unitAt cs id) (unitAt (start Ops.rat isZ L i P v cs) id) := by
  unfold start
  exact unitAt_modify L _ _ _ _ (fun c _ => applyUpds_crel L _ _ c) id

theorem eocLeaf_unit (t : Time ℚ) (i j i' j' : Nat) (vn : List ℚ) (cs : List (CObj ℚ)) (id : List Nat) :
    UOpt L t (unitAt cs id) (unitAt (eocLeaf Ops.rat isZ L t i j i' j' vn cs) id) := by
  unfold eocLeaf
  simp only
  split
  · next a c0 ha hc0 =>
    split
    · exact uopt_sliceAt L t id [i] cs
    · split
      · split
        · apply uopt_via L t id [i]
          exact unitAt_modify L t _ _ _ (fun c _ => applyUpds_crel L t _ c) id
        · -- another point mass of the same composite object
          rw [sliceAt_single, List.modify_modify_eq]
          refine unitAt_modify L t cs i _ (fun c hc => ?_) id
          rw [hc0] at hc
          cases hc
          exact eocSame_crel L t _ c0
      · next hne =>
        apply uopt_via L t id [i]
        exact unitAt_modify2 L t _ (by simpa using hne) _ _ (applyUpds_crel L t _) (applyUpds_crel L t _) id
  · exact uopt_sliceAt L t id [i] cs

/-- **what one `Composite.step` does to the position of every unit, all nine event kinds**: the position after the step is the
position of the unit time-sliced zero or more times at the event time; a unit exists afterwards iff it existed before -/
theorem step_unit {d : Nat} (cs : List (CObj ℚ)) (e : Composite.Ev ℚ) (ha : AdmW d L cs e) (id : List Nat) :
    UOpt L (Sys2.evTime Ops.rat e) (unitAt cs id) (unitAt (step Ops.rat isZ L cs e) id) := by
  cases e with
  | keep t S => exact uopt_sliceAt L t id S cs
  | snap t S i j dd x =>
    rw [JF.Sys3L.snap_eq_sliceAt ha]
    exact uopt_sliceAt L t id S cs
  | exchange t S i j i' j' => exact exchange_unit L t S i j i' j' cs id
  | pass t S iL iT => exact pass_unit L t S iL iT cs id
  | eocLeaf t i j i' j' vn => exact eocLeaf_unit L t i j i' j' vn cs id
  | eocRoot t i i' vn => exact eocRoot_unit L t i i' vn cs id
  | toLeaf t i c => exact toLeaf_unit L t i c cs id
  | toRoot t i => exact toRoot_unit L t i cs id
  | start i P v => exact start_unit L i P v cs id

/-- a unit exists after the step iff it existed before -/
theorem step_unit_isSome {d : Nat} (cs : List (CObj ℚ)) (e : Composite.Ev ℚ) (ha : AdmW d L cs e) (id : List Nat) :
    (unitAt (step Ops.rat isZ L cs e) id).isSome = (unitAt cs id).isSome := by
  have := step_unit L cs e ha id
  cases h1 : unitAt cs id <;> cases h2 : unitAt (step Ops.rat isZ L cs e) id <;> rw [h1, h2] at this <;>
    first | rfl | exact this.elim

/-- **(i) `composite_step_rest_fixed`: `Composite.step` does not displace a unit at rest** — every event kind, root units and point
masses: a unit that is at rest BEFORE the step has the same position after it (whether or not the step sets it in motion; in
particular if it is at rest before and after) -/
theorem composite_step_rest_fixed {d : Nat} (cs : List (CObj ℚ)) (e : Composite.Ev ℚ) (ha : AdmW d L cs e) {id : List Nat}
    {u : PUnit ℚ} (hu : unitAt cs id = some u) (hr : u.vel = none) :
    ∃ u', unitAt (step Ops.rat isZ L cs e) id = some u' ∧ u'.pos = u.pos := by
  have := step_unit L cs e ha id
  rw [hu] at this
  cases h2 : unitAt (step Ops.rat isZ L cs e) id with
  | none => rw [h2] at this; exact this.elim
  | some u' =>
    rw [h2] at this
    obtain ⟨n, hn⟩ := this
    exact ⟨u', rfl, by rw [hn, iter_rest L _ n hr]⟩

/-- a property that a time slice at the event time preserves holds for a unit with the position the unit has after the step -/
theorem step_unit_pres {d : Nat} (cs : List (CObj ℚ)) (e : Composite.Ev ℚ) (ha : AdmW d L cs e) {id : List Nat}
    {u : PUnit ℚ} (hu : unitAt cs id = some u) {P : PUnit ℚ → Prop} (hp : P u)
    (hP : ∀ x, P x → P (Kin.timeSlice Ops.rat L (Sys2.evTime Ops.rat e) x)) :
    ∃ u' w, unitAt (step Ops.rat isZ L cs e) id = some u' ∧ P w ∧ u'.pos = w.pos := by
  have := step_unit L cs e ha id
  rw [hu] at this
  cases h2 : unitAt (step Ops.rat isZ L cs e) id with
  | none => rw [h2] at this; exact this.elim
  | some u' =>
    rw [h2] at this
    obtain ⟨n, hn⟩ := this
    exact ⟨u', _, rfl, iter_pres L _ hP n hp, hn⟩

end

end JF.Sys3Occ
