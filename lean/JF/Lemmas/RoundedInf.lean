import JF.Num.Rounded
/-!
# The rounding-abstract scalar layer WITH the non-finite IEEE values

`R fm` (`JF/Num/Rounded.lean`) is the carrier of the FINITE values of a `FloatModel`.  `jellyfysh/base/time.py`
also computes with `math.inf` (`from math import inf as float_inf`, the module-level `inf = Time(float_inf, float_inf)`,
the `isinf` branches of `from_float` and `__add__`), and what it computes from `inf` can be `-inf` (`t - inf`) and
NaN (`inf - inf`, `divmod(inf, 1.0)`).  `RX fm` is the carrier that has them:

    RX fm  =  fin x (x : R fm)  |  pinf  |  ninf  |  nan

with the IEEE-754 rules for `+ - * /`, comparisons and `==` on the non-finite values (NaN is unordered and unequal to
everything including itself; `inf - inf`, `0 * inf`, `inf / inf` are NaN), and `Ops.roundedX fm : Ops (RX fm)` with the
C library rules for `floor` and `fmod` (`floor(±inf) = ±inf`, `fmod(±inf, y) = nan`, `fmod(x, ±inf) = x`), `isInf` true
exactly on `pinf`/`ninf` (`math.isinf(nan)` is `False`).

On `fin` everything is DEFINITIONALLY the finite operation (`fin a + fin b = fin (a + b)` by `rfl`, …): `fin` is a
homomorphism of scalar layers, which is what transfers the finite theorems (`pydivmod1_fin` below).

Outside the model, as in `R fm`: overflow of a finite operation to `±inf` (`FloatModel.binary64` saturates, and no theorem
rounds a number above `huge`), signed zeros, NaN payloads.  Where Python RAISES instead of returning an IEEE value
(`x / 0.0`, `x % 0.0`: `ZeroDivisionError`; `int(inf)`: `OverflowError`) the entry is a convention that no model reaches
(`time.py` divides only by the literal `1.0`, inside `divmod`): `fin a / fin 0 = fin (a / 0)` as in `R fm`,
`fmod (fin a) (fin 0) = fin (fmod a 0)` as in `R fm`, `toInt` of a non-finite value is `0`.

Proof-side file (imports Mathlib through `Rounded`; never linked into a driver).
-/
namespace JF

/-- finite representable values, `+inf`, `-inf`, NaN -/
inductive RX (fm : FloatModel) : Type
  | fin (x : R fm)
  | pinf
  | ninf
  | nan

namespace RX
variable {fm : FloatModel}
open R

/-- IEEE negation: exact sign flip -/
def neg : RX fm → RX fm
  | fin a => fin (-a)
  | pinf => ninf
  | ninf => pinf
  | nan => nan

/-- IEEE addition: `inf + (-inf)` is NaN, NaN propagates, an infinity absorbs every finite value -/
def add : RX fm → RX fm → RX fm
  | fin a, fin b => fin (a + b)
  | fin _, pinf => pinf
  | fin _, ninf => ninf
  | fin _, nan => nan
  | pinf, fin _ => pinf
  | pinf, pinf => pinf
  | pinf, ninf => nan
  | pinf, nan => nan
  | ninf, fin _ => ninf
  | ninf, pinf => nan
  | ninf, ninf => ninf
  | ninf, nan => nan
  | nan, _ => nan

/-- IEEE subtraction: `inf - inf` is NaN -/
def sub : RX fm → RX fm → RX fm
  | fin a, fin b => fin (a - b)
  | fin _, pinf => ninf
  | fin _, ninf => pinf
  | fin _, nan => nan
  | pinf, fin _ => pinf
  | pinf, pinf => nan
  | pinf, ninf => pinf
  | pinf, nan => nan
  | ninf, fin _ => ninf
  | ninf, pinf => ninf
  | ninf, ninf => nan
  | ninf, nan => nan
  | nan, _ => nan

/-- the infinity with the sign of a non-zero finite factor, NaN for a zero factor (`0 * inf`) -/
def infTimes (a : R fm) (positive : Bool) : RX fm :=
  if toQ a = 0 then nan else if (0 < toQ a) = positive then pinf else ninf

/-- IEEE multiplication -/
def mul : RX fm → RX fm → RX fm
  | fin a, fin b => fin (a * b)
  | fin a, pinf => infTimes a true
  | fin a, ninf => infTimes a false
  | fin _, nan => nan
  | pinf, fin b => infTimes b true
  | pinf, pinf => pinf
  | pinf, ninf => ninf
  | pinf, nan => nan
  | ninf, fin b => infTimes b false
  | ninf, pinf => ninf
  | ninf, ninf => pinf
  | ninf, nan => nan
  | nan, _ => nan

/-- IEEE division; `finite / ±inf = 0`, `inf / inf` is NaN; a zero divisor is a convention (see the header) -/
def div : RX fm → RX fm → RX fm
  | fin a, fin b => fin (a / b)
  | fin _, pinf => fin (ofQ 0)
  | fin _, ninf => fin (ofQ 0)
  | fin _, nan => nan
  | pinf, fin b => if 0 ≤ toQ b then pinf else ninf
  | pinf, _ => nan
  | ninf, fin b => if 0 ≤ toQ b then ninf else pinf
  | ninf, _ => nan
  | nan, _ => nan

/-- IEEE `<`: NaN is unordered -/
def ltb : RX fm → RX fm → Bool
  | fin a, fin b => decide (a < b)
  | fin _, pinf => true
  | fin _, ninf => false
  | fin _, nan => false
  | pinf, _ => false
  | ninf, fin _ => true
  | ninf, pinf => true
  | ninf, ninf => false
  | ninf, nan => false
  | nan, _ => false

/-- IEEE `<=` -/
def leb : RX fm → RX fm → Bool
  | fin a, fin b => decide (a ≤ b)
  | fin _, pinf => true
  | fin _, ninf => false
  | fin _, nan => false
  | pinf, fin _ => false
  | pinf, pinf => true
  | pinf, ninf => false
  | pinf, nan => false
  | ninf, fin _ => true
  | ninf, pinf => true
  | ninf, ninf => true
  | ninf, nan => false
  | nan, _ => false

/-- IEEE `==`: NaN is not equal to itself -/
def beq : RX fm → RX fm → Bool
  | fin a, fin b => a == b
  | fin _, _ => false
  | pinf, pinf => true
  | pinf, _ => false
  | ninf, ninf => true
  | ninf, _ => false
  | nan, _ => false

instance : Add (RX fm) := ⟨add⟩
instance : Sub (RX fm) := ⟨sub⟩
instance : Mul (RX fm) := ⟨mul⟩
instance : Div (RX fm) := ⟨div⟩
instance : Neg (RX fm) := ⟨neg⟩
instance : LT (RX fm) := ⟨fun a b => ltb a b = true⟩
instance : LE (RX fm) := ⟨fun a b => leb a b = true⟩
instance : DecidableLT (RX fm) := fun a b => inferInstanceAs (Decidable (ltb a b = true))
instance : DecidableLE (RX fm) := fun a b => inferInstanceAs (Decidable (leb a b = true))
instance : BEq (RX fm) := ⟨beq⟩

theorem lt_def (a b : RX fm) : a < b ↔ ltb a b = true := Iff.rfl
theorem le_def (a b : RX fm) : a ≤ b ↔ leb a b = true := Iff.rfl
/-- for EVERY decidability instance (simp rewrites the proposition under `decide` and leaves the instance behind) -/
@[simp] theorem decide_lt (a b : RX fm) [inst : Decidable (a < b)] : @decide (a < b) inst = ltb a b := by
  cases h : ltb a b
  · exact decide_eq_false (by rw [lt_def, h]; simp)
  · exact decide_eq_true (by rw [lt_def, h])
@[simp] theorem decide_le (a b : RX fm) [inst : Decidable (a ≤ b)] : @decide (a ≤ b) inst = leb a b := by
  cases h : leb a b
  · exact decide_eq_false (by rw [le_def, h]; simp)
  · exact decide_eq_true (by rw [le_def, h])
@[simp] theorem beq_def (a b : RX fm) : (a == b) = beq a b := rfl
@[simp] theorem bne_def (a b : RX fm) : (a != b) = !(beq a b) := rfl
theorem add_def (a b : RX fm) : a + b = add a b := rfl
theorem sub_def (a b : RX fm) : a - b = sub a b := rfl
theorem mul_def (a b : RX fm) : a * b = mul a b := rfl
theorem div_def (a b : RX fm) : a / b = div a b := rfl
theorem neg_def (a : RX fm) : -a = neg a := rfl

/-! ### `fin` is a homomorphism (all by `rfl`) -/

@[simp] theorem fin_add (a b : R fm) : (fin a + fin b : RX fm) = fin (a + b) := rfl
@[simp] theorem fin_sub (a b : R fm) : (fin a - fin b : RX fm) = fin (a - b) := rfl
@[simp] theorem fin_mul (a b : R fm) : (fin a * fin b : RX fm) = fin (a * b) := rfl
@[simp] theorem fin_div (a b : R fm) : (fin a / fin b : RX fm) = fin (a / b) := rfl
@[simp] theorem fin_neg (a : R fm) : (-(fin a) : RX fm) = fin (-a) := rfl
@[simp] theorem ltb_fin (a b : R fm) : ltb (fin a : RX fm) (fin b) = decide (a < b) := rfl
@[simp] theorem leb_fin (a b : R fm) : leb (fin a : RX fm) (fin b) = decide (a ≤ b) := rfl
@[simp] theorem beq_fin (a b : R fm) : beq (fin a : RX fm) (fin b) = (a == b) := rfl
theorem fin_lt (a b : R fm) : (fin a : RX fm) < fin b ↔ a < b := by rw [lt_def, ltb_fin, decide_eq_true_eq]
theorem fin_le (a b : R fm) : (fin a : RX fm) ≤ fin b ↔ a ≤ b := by rw [le_def, leb_fin, decide_eq_true_eq]

def isNaN : RX fm → Bool
  | nan => true
  | _ => false

end RX

open R in
/-- The scalar operations over `RX fm`: the finite ones of `Ops.rounded fm` on `fin`, the C library's values on the rest
(`floor(±inf) = ±inf`, `floor(nan) = nan`; `fmod(±inf, y) = nan`, `fmod(x, ±inf) = x` for finite `x`, NaN propagates;
`math.isinf` is true exactly on `±inf`, in particular FALSE on NaN). -/
def Ops.roundedX (fm : FloatModel) : Ops (RX fm) where
  ofInt n := .fin ((Ops.rounded fm).ofInt n)
  floor
    | .fin a => .fin ((Ops.rounded fm).floor a)
    | .pinf => .pinf
    | .ninf => .ninf
    | .nan => .nan
  fmod
    | .fin a, .fin b => .fin ((Ops.rounded fm).fmod a b)
    | .fin a, .pinf => .fin a
    | .fin a, .ninf => .fin a
    | .fin _, .nan => .nan
    | .pinf, _ => .nan
    | .ninf, _ => .nan
    | .nan, _ => .nan
  toInt
    | .fin a => (Ops.rounded fm).toInt a
    | _ => 0
  isInf
    | .pinf => true
    | .ninf => true
    | _ => false
  zeroLike
    | .fin a => .fin ((Ops.rounded fm).zeroLike a)
    | _ => .fin (ofQ 0)
  sqrt
    | .fin a => .fin ((Ops.rounded fm).sqrt a)
    | .pinf => .pinf
    | _ => .nan

namespace RX
variable {fm : FloatModel}
open R

@[simp] theorem X_ofInt (n : ℤ) : (Ops.roundedX fm).ofInt n = fin ((Ops.rounded fm).ofInt n) := rfl
@[simp] theorem X_floor_fin (a : R fm) : (Ops.roundedX fm).floor (fin a) = fin ((Ops.rounded fm).floor a) := rfl
@[simp] theorem X_floor_pinf : (Ops.roundedX fm).floor pinf = pinf := rfl
@[simp] theorem X_floor_nan : (Ops.roundedX fm).floor nan = nan := rfl
@[simp] theorem X_fmod_fin (a b : R fm) :
    (Ops.roundedX fm).fmod (fin a) (fin b) = fin ((Ops.rounded fm).fmod a b) := rfl
@[simp] theorem X_fmod_pinf (y : RX fm) : (Ops.roundedX fm).fmod pinf y = nan := rfl
@[simp] theorem X_fmod_ninf (y : RX fm) : (Ops.roundedX fm).fmod ninf y = nan := rfl
@[simp] theorem X_fmod_nan (y : RX fm) : (Ops.roundedX fm).fmod nan y = nan := rfl
@[simp] theorem X_isInf_fin (a : R fm) : (Ops.roundedX fm).isInf (fin a) = false := rfl
@[simp] theorem X_isInf_pinf : (Ops.roundedX fm).isInf (pinf : RX fm) = true := rfl
@[simp] theorem X_isInf_ninf : (Ops.roundedX fm).isInf (ninf : RX fm) = true := rfl
@[simp] theorem X_isInf_nan : (Ops.roundedX fm).isInf (nan : RX fm) = false := rfl
@[simp] theorem X_zeroLike_fin (a : R fm) :
    (Ops.roundedX fm).zeroLike (fin a) = fin ((Ops.rounded fm).zeroLike a) := rfl
@[simp] theorem X_toInt_fin (a : R fm) : (Ops.roundedX fm).toInt (fin a) = (Ops.rounded fm).toInt a := rfl

/-- `divmod(x, 1.0)` of a finite `x` is computed inside the finite values, by the finite operations: EVERY step of
`float_divmod` commutes with `fin` (no hypothesis on `x`: representable or not, of either sign). -/
theorem pydivmod1_fin (x : R fm) :
    pydivmod1 (Ops.roundedX fm) (fin x)
      = (fin (pydivmod1 (Ops.rounded fm) x).1, fin (pydivmod1 (Ops.rounded fm) x).2) := by
  have hite : ∀ (c : Prop) [Decidable c] (a b : R fm),
      (if c then (fin a : RX fm) else fin b) = fin (if c then a else b) :=
    fun c _ a b => by split_ifs <;> rfl
  simp only [pydivmod1, X_ofInt, X_fmod_fin, fin_sub, fin_div, fin_add, bne, RX.beq_def, beq_fin, fin_lt,
    hite, X_floor_fin, X_zeroLike_fin]

/-- `divmod(inf, 1.0) = (nan, nan)` (CPython: `fmod(inf, 1.0)` is NaN, `(inf - nan) / 1.0` is NaN, both are "true",
neither sign test fires, `floor(nan)` is NaN). -/
theorem pydivmod1_pinf : pydivmod1 (Ops.roundedX fm) (pinf : RX fm) = (nan, nan) := by
  simp [pydivmod1, sub_def, sub, div_def, div, add_def, add, beq]

/-- `divmod(nan, 1.0) = (nan, nan)` -/
theorem pydivmod1_nan : pydivmod1 (Ops.roundedX fm) (nan : RX fm) = (nan, nan) := by
  simp [pydivmod1, sub_def, sub, div_def, div, add_def, add, beq]

/-- `divmod(-inf, 1.0) = (nan, nan)` -/
theorem pydivmod1_ninf : pydivmod1 (Ops.roundedX fm) (ninf : RX fm) = (nan, nan) := by
  simp [pydivmod1, sub_def, sub, div_def, div, add_def, add, beq]

end RX
end JF
