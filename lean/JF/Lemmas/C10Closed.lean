import JF.Lemmas.SystemRunGeo
import JF.Lemmas.SystemRunOcc
import JF.Lemmas.C10C11
/-!
Helper definitions and lemmas for `JF/Props/C10Closed.lean` (C10 closed on the joint invariant of `JF/Props/SystemInv.lean`).

* **Geometry ⟶ `InGrid`.**  `flatIdx` is the position of a cell identifier in `yield_cells()` order (`CellTaggers.allCells`: first
  index runs fastest — `CuboidCells.position_to_cell`'s `sum(identifier[d] * cumulative_product[d])`, `JF.Walker.posIndex`);
  `allCells_getElem?_flatIdx`: the cell at that position IS the identifier.  `cellIds grids p` is the identifier
  `position_to_cell` computes direction by direction (`JF.C11.Grid.idx`); `cellIds_valid` (from `JF.Sys.idx_spec`): for a position
  in the box it is a cell of the grid.  `GridBox env` names the relation between the three geometry fields of `CW.Env`
  (`L`, `grid`, `cellOf`) that the concrete world leaves open: box lengths and cells per side come from one list of
  one-direction grids, and `cellOf` of a position in the box is the flat index of its identifier.  `GridBox.inGrid`:
  `CellOfInGrid env` — the cell number of every position in the box is below the number of cells of the grid.
* **Targets of in-states**: `targetsOf` (everything after the first identifier of every in-state of a yield).
-/
namespace JF.C10Closed
open JF JF.CellTaggers JF.CW JF.Kin JF.Sys JF.C10C11

/-! ### positions in `yield_cells()` order -/

/-- position of the cell identifier `c` in `yield_cells()` order (first index runs fastest) -/
def flatIdx : List Nat → Cell → Nat
  | n :: ns, i :: is => i + n * flatIdx ns is
  | _, _ => 0

/-- indexing into a concatenation of blocks of equal length -/
theorem getElem?_flatMap_const {α β : Type} (f : α → List β) (n : Nat) (hf : ∀ x, (f x).length = n) :
    ∀ (l : List α) (k i : Nat), i < n → (l.flatMap f)[i + n * k]? = (l[k]?).bind fun x => (f x)[i]?
  | [], k, i, _ => by simp
  | x :: l, 0, i, hi => by
      rw [List.flatMap_cons, Nat.mul_zero, Nat.add_zero, List.getElem?_append_left (by rw [hf]; exact hi)]
      rfl
  | x :: l, k + 1, i, hi => by
      have hge : (f x).length ≤ i + n * (k + 1) := by rw [hf, Nat.mul_succ]; omega
      rw [List.flatMap_cons, List.getElem?_append_right hge, hf]
      have : i + n * (k + 1) - n = i + n * k := by rw [Nat.mul_succ]; omega
      rw [this, getElem?_flatMap_const f n hf l k i hi]
      rfl

/-- **the cell at position `flatIdx ns c` of `yield_cells()` is `c`** -/
theorem allCells_getElem?_flatIdx : ∀ {ns : List Nat} {c : Cell}, Valid ns c → (allCells ns)[flatIdx ns c]? = some c
  | [], [], _ => rfl
  | [], _ :: _, h => by simp [Valid] at h
  | _ :: _, [], h => by simp [Valid] at h
  | n :: ns, i :: is, h => by
      obtain ⟨hi, hv⟩ := h
      show ((allCells ns).flatMap fun t => (List.range n).map (· :: t))[i + n * flatIdx ns is]? = _
      rw [getElem?_flatMap_const _ n (by intro t; simp) _ _ _ hi, allCells_getElem?_flatIdx hv]
      simp [hi]

theorem flatIdx_lt {ns : List Nat} {c : Cell} (h : Valid ns c) : flatIdx ns c < (allCells ns).length :=
  (List.getElem?_eq_some_iff.mp (allCells_getElem?_flatIdx h)).1

theorem cellAt_flatIdx (g : CellTaggers.Grid) {c : Cell} (h : Valid g.n c) : cellAt g (flatIdx g.n c) = c := by
  unfold cellAt; rw [allCells_getElem?_flatIdx h]; rfl

/-! ### `position_to_cell`, direction by direction -/

/-- the cell identifier of a position: `_cell_identifier` in every direction -/
def cellIds : List C11.Grid → List ℚ → Cell
  | g :: gs, x :: xs => (g.idx x).toNat :: cellIds gs xs
  | _, _ => []

/-- **a position in the box has the identifier of a cell of the grid** (from `JF.Sys.idx_spec`) -/
theorem cellIds_valid : ∀ (gs : List C11.Grid) (p : List ℚ), InBox (gs.map (·.L)) p → Valid (gs.map (·.n)) (cellIds gs p)
  | [], [], _ => trivial
  | [], _ :: _, h => by simp [InBox] at h
  | _ :: _, [], h => by simp [InBox] at h
  | g :: gs, x :: xs, h => by
      obtain ⟨⟨h0, h1⟩, hr⟩ := h
      obtain ⟨i, hi, hidx, _, _⟩ := idx_spec g h0 h1
      refine ⟨?_, cellIds_valid gs xs hr⟩
      rw [hidx]; simpa using hi

theorem cellIds_congr : ∀ (gs : List C11.Grid) (p q : List ℚ), p.length = q.length →
    (∀ d (hg : d < gs.length) (hp : d < p.length) (hq : d < q.length), gs[d].idx p[d] = gs[d].idx q[d]) →
    cellIds gs p = cellIds gs q
  | [], _, _, _, _ => by simp [cellIds]
  | _ :: _, [], [], _, _ => rfl
  | _ :: _, [], _ :: _, h, _ => by simp at h
  | _ :: _, _ :: _, [], h, _ => by simp at h
  | g :: gs, x :: xs, y :: ys, hl, h => by
      have h0 := h 0 (by simp) (by simp) (by simp)
      simp only [List.getElem_cons_zero] at h0
      simp only [cellIds, h0]
      congr 1
      refine cellIds_congr gs xs ys (by simpa using hl) ?_
      intro d hg hp hq
      have := h (d + 1) (by simpa using hg) (by simpa using hp) (by simpa using hq)
      simpa using this

/-- the cell number of every position in the box is a cell of the grid (`position_to_cell` returns a cell of the cell system) -/
def CellOfInGrid (env : Env ℚ) : Prop := ∀ p, InBox env.L p → env.cellOf p < numCells env.grid

/-- **the geometry fields of the concrete world fit together**: one list of one-direction grids gives the box lengths
(`setting.system_lengths`) and the cells per side of the cell system, and `position_to_cell` of a position in the box is the
flat index (in `yield_cells()` order) of the per-direction identifiers — `CuboidCells.position_to_cell`. -/
structure GridBox (env : Env ℚ) where
  grids : List C11.Grid
  hL : env.L = grids.map (·.L)
  hn : env.grid.n = grids.map (·.n)
  hcellOf : ∀ p, InBox env.L p → env.cellOf p = flatIdx env.grid.n (cellIds grids p)

theorem GridBox.valid {env : Env ℚ} (B : GridBox env) {p : List ℚ} (hp : InBox env.L p) :
    Valid env.grid.n (cellIds B.grids p) := by
  rw [B.hn]; exact cellIds_valid _ _ (by rw [← B.hL]; exact hp)

/-- **`InGrid` from `InBox`** -/
theorem GridBox.inGrid {env : Env ℚ} (B : GridBox env) : CellOfInGrid env := by
  intro p hp
  rw [B.hcellOf p hp]
  exact flatIdx_lt (B.valid hp)

/-- the cell the taggers see for a position in the box is the cell with the per-direction identifiers of the position -/
theorem GridBox.cellAt_cellOf {env : Env ℚ} (B : GridBox env) {p : List ℚ} (hp : InBox env.L p) :
    cellAt env.grid (env.cellOf p) = cellIds B.grids p := by
  rw [B.hcellOf p hp]; exact cellAt_flatIdx _ (B.valid hp)

/-- a `GridBox` with at least two cells per direction is an `AxisBox` of `JF/Lemmas/SystemRunGeo.lean` (so `axisGeoPos` is a
geometry of the same environment) -/
def GridBox.toAxisBox {env : Env ℚ} (B : GridBox env) (hn2 : ∀ g ∈ B.grids, 2 ≤ g.n) : AxisBox env where
  grids := B.grids
  hn2 := hn2
  hL := B.hL
  hcell := by
    intro p q hp hq h
    rw [B.hcellOf p hp, B.hcellOf q hq]
    congr 1
    refine cellIds_congr _ _ _ ?_ h
    rw [((inBox_iff _ _).mp hp).1, ((inBox_iff _ _).mp hq).1]

/-! ### the relevant units, as a list -/

/-- the point masses that pass the charge filter, each once, in order -/
def relUnits (env : Env ℚ) (n : Nat) : List Nat := (List.range n).filter env.relevant

theorem relUnits_nodup (env : Env ℚ) (n : Nat) : (relUnits env n).Nodup := List.nodup_range.filter _

theorem mem_relUnits (env : Env ℚ) (us : List (PUnit ℚ)) (u : Nat) :
    u ∈ relUnits env us.length ↔ relW env us u = true := by
  simp [relUnits, relW]

/-! ### targets of in-states -/

/-- the partner identifiers of a yield: everything after the first (= active) identifier of every in-state -/
def targetsOf (l : List Act.IdTuple) : List Ident :=
  l.flatMap fun x => match x with
    | some ids => ids.tail
    | none => []

theorem targetsOf_wrapIds (l : List (List Ident)) : targetsOf (wrapIds l) = pairTargets l := by
  simp [targetsOf, wrapIds, pairTargets, List.flatMap_map]

theorem targetsOf_perm {l l' : List Act.IdTuple} (h : l.Perm l') : (targetsOf l).Perm (targetsOf l') :=
  h.flatMap_right _

theorem targetsOf_nil : targetsOf [] = [] := rfl

end JF.C10Closed
