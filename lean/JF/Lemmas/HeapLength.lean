import JF.Lemmas.HeapPickle
import JF.Lemmas.HeapList
/-! The heap never holds more entries than pushes were made (justifies modelling the C `uint` length by `Nat`). -/
namespace JF.Sched
open JF.Heap
variable {κ : Type} {cfg : Cfg κ}

theorem deleteEvents_length (o : StrictWeak cfg) {hp : CHeap κ} (h : Nat) (hI : Inv cfg hp) :
    (deleteEvents cfg hp h).length ≤ hp.length := by
  obtain ⟨⟨hnf, hw⟩, ho⟩ := hI
  have hls : hp.length ≤ hp.mem.size := by rcases hw with h | h <;> omega
  have S := delScan_spec (cfg := cfg) h hp hp.length hp 1 (by omega) (Nat.le_refl _) hnf rfl (Nat.le_refl _) hls
    (fun h => h) rfl (fun i h1 h2 => by omega) (fun _ h => h) (fun _ h _ => h)
  unfold deleteEvents
  generalize delScan cfg h hp.length hp 1 = r at S
  have hb : r.length / 2 ≠ 0 → r.length / 2 < r.length ∧ r.length < r.mem.size := by
    intro h0
    have := S.len; have := S.sz
    rcases hw with h | h <;> omega
  obtain ⟨_, r2, _⟩ := heapify_spec o (r.length / 2) r S.nf hb (fun i h1 hL h2 => by omega)
  rw [r2]; exact S.len

/-- one `push_event` makes the heap at most one entry longer (two on the very first push: sentinel) -/
theorem push_length (o : StrictWeak cfg) {W : Nat} {s : HSched κ} {live : Live κ} (R : Rel cfg W s live)
    (t : κ) (h : Nat) : max (s.push cfg W t h).heap.length 1 ≤ max s.heap.length 1 + 1 := by
  unfold HSched.push
  by_cases hf : cfg.finite t = true
  · simp only [hf, if_true]
    by_cases hc : (mvGet s.mv h).getD 0 < W
    · simp only [hc, if_true]
      rw [(insert_spec o t h _ R.inv).2.2.1]
      split <;> omega
    · simp only [hc, if_false]
      have hd := deleteEvents_length o h R.inv
      rw [(insert_spec o t h 0 (deleteEvents_spec o h R.inv).1).2.2.1]
      split <;> omega
  · simp only [hf, Bool.false_eq_true, if_false]; omega
end JF.Sched
