import JF.Lemmas.C09PoolsCells
import JF.Model.ConcreteWorld
import JF.Model.ConcreteWorld2
/-!
E40 / C09, last clause — demand bounds of the taggers of the concrete worlds
`JF.CW` (point masses + one cell occupancy, `JF/Model/ConcreteWorld.lean`) and `JF.CW2` (composite objects, factor files,
`JF/Model/ConcreteWorld2.lean`), for EVERY state where possible; where an invariant is needed it is named
(one independent active unit: `JF.CW2.independent … .length ≤ 1`, proved for reachable states by
`JF.CW2.independent_length_chain`; the occupancy invariant `JF.C10.OccInv`, proved for reachable states by `JF.C10C11.reach_occInv`).
-/
namespace JF.C09Pools
open JF JF.Act JF.CellTaggers

/-! ## list helpers -/

theorem dedupe_length_le {α : Type} [BEq α] : ∀ (l : List α), (dedupe l).length ≤ l.length
  | [] => by simp [dedupe]
  | x :: xs => by
    have := dedupe_length_le xs
    unfold dedupe
    split <;> simp <;> omega

theorem length_filter_ne_range {n i : Nat} (hi : i < n) : ((List.range n).filter (· != i)).length = n - 1 := by
  rw [← List.Nodup.erase_eq_filter List.nodup_range, List.length_erase_of_mem (List.mem_range.mpr hi), List.length_range]

/-! ## the world of point masses (`JF.CW`) -/

section cw
variable {α : Type}

theorem mem_movers_lt {us : List (PUnit α)} {i : Nat} (h : i ∈ CW.movers us) : i < us.length :=
  List.mem_range.mp (List.mem_filter.mp h).1

/-- `NoInStateTagger`: `yield None` — exactly one in-state, every state -/
theorem cw_noInState (env : CW.Env α) (g : CW.CState α) : (CW.yieldCls env .noInState g).length = 1 := rfl

/-- `ActiveGlobalStateInStateTagger`: ONE tuple holding the identifiers of all independent active units — exactly one in-state,
every state, however many units are active (the tagger's pool is fixed to 1 by its constructor) -/
theorem cw_activeGlobalState (env : CW.Env α) (g : CW.CState α) : (CW.yieldCls env .activeGlobalState g).length = 1 := rfl

/-- `FactorTypeMapInStateTagger` over point masses (one pair-factor type): every active unit × every other unit — exact, every state -/
theorem cw_factorTypeMap (env : CW.Env α) (g : CW.CState α) :
    (CW.yieldCls env .factorTypeMap g).length = (CW.movers g.us).length * (g.us.length - 1) := by
  simp only [CW.yieldCls]
  generalize hm : CW.movers g.us = m
  have hlt : ∀ i ∈ m, i < g.us.length := fun i hi => mem_movers_lt (hm ▸ hi)
  clear hm
  induction m with
  | nil => simp
  | cons i m ih =>
    rw [List.flatMap_cons, List.length_append, ih (fun j hj => hlt j (List.mem_cons_of_mem _ hj)), List.length_map,
      length_filter_ne_range (hlt i List.mem_cons_self), List.length_cons, Nat.succ_mul]
    omega

/-- … with one active unit (C07's chain invariant): number of point masses − 1 -/
theorem cw_factorTypeMap_one_chain (env : CW.Env α) (g : CW.CState α) (h1 : (CW.movers g.us).length ≤ 1) :
    (CW.yieldCls env .factorTypeMap g).length ≤ g.us.length - 1 := by
  rw [cw_factorTypeMap]
  exact Nat.le_trans (Nat.mul_le_mul_right _ h1) (by omega)

/-- `CellVetoTagger`, `CellBoundaryTagger`: at most one in-state, every state -/
theorem cw_cellVeto (env : CW.Env α) (g : CW.CState α) : (CW.yieldCls env .cellVeto g).length ≤ 1 := by
  simp only [CW.yieldCls, CW.wrapIds, List.length_map]; exact cellVeto_demand_le_one _

theorem cw_cellBoundary (env : CW.Env α) (g : CW.CState α) : (CW.yieldCls env .cellBoundary g).length ≤ 1 := by
  simp only [CW.yieldCls, CW.wrapIds, List.length_map]; exact cellVeto_demand_le_one _

/-- **the three cell-reading taggers in the world of point masses**, at every state whose occupancy satisfies C11's invariant
(every reachable one: `JF.SystemInv.c11_occinv_closed`) with `nRel` relevant units, all in cells of the grid -/
theorem cw_cell_demands {rel : JF.Occ.UId → Bool} {cellOf : JF.Occ.UId → JF.Occ.Cell} (env : CW.Env α) (g : CW.CState α)
    (h : C11.OccInv rel cellOf g.occ) (relevant : List JF.Occ.UId) (hl : C10C11.IsRelevantList rel relevant)
    (hg : C10C11.InGrid env.grid relevant cellOf) :
    (CW.yieldCls env .excludedCells g).length ≤ excludedBound env.grid g.occ.cap relevant.length ∧
    (CW.yieldCls env .cellBounding g).length ≤ boundingBound env.grid relevant.length ∧
    (CW.yieldCls env .surplusCells g).length ≤ surplusBound relevant.length := by
  simp only [CW.yieldCls, CW.wrapIds, List.length_map, C10C11.tocc_eq]
  cases ha : g.occ.activeId with
  | none =>
    have hn : (C10C11.toTaggerOcc env.grid g.occ).active = none := by
      simp only [C10C11.toTaggerOcc, ha]; split <;> simp_all
    obtain ⟨_, h2, h3, h4⟩ := no_active_no_demand env.grid _ hn
    rw [h2, h3, h4]; exact ⟨Nat.zero_le _, Nat.zero_le _, Nat.zero_le _⟩
  | some a =>
    have inv := C10C11.occInv_of_c11 h env.grid relevant hl.nodup hl.mem hg ha
    have hlen : (C10C11.idents relevant).length = relevant.length := by simp [C10C11.idents]
    refine ⟨?_, ?_, ?_⟩
    · rw [← hlen]
      refine excluded_demand_le_bound _ _ _ _ _ inv _ (fun hpos c => ?_)
      simp only [C10C11.toTaggerOcc, List.length_map]
      exact h.wf.cap hpos _
    · rw [← hlen]; exact bounding_demand_le_bound _ _ _ _ _ inv
    · rw [← hlen]; exact surplus_demand_le_relevant _ _ _ _ _ inv

end cw

/-! ## the world of composite objects (`JF.CW2`) -/

open JF.CW2 (Branch Flags independent independentOf branches branchOf leafIds liftedLeaves)

/-- `CW2.yieldF` read off the branches of the extracted active global state (it depends on the flags only through them) -/
def yieldB (nRoots nPer : Nat) (fs : FactorMaps.Factors) (ty : String) (cls : TaggerClass) (bs : List Branch) : List IdTuple :=
  match cls with
  | .noInState => [none]
  | .activeGlobalState =>
    [some (bs.flatMap fun b => if b.children.length == nPer then [[b.root]] else b.children.map fun j => [b.root, j])]
  | .activeRootUnit => bs.map fun b => some [[b.root]]
  | .factorTypeMap =>
    match FactorMaps.taggerYield ⟨nRoots, nPer⟩ fs ty (bs.flatMap leafIds) with
    | .ok l => l.map some
    | .error _ => []
  | _ => []

theorem yieldF_eq_yieldB {α : Type} (env : CW2.Env α) (T : TaggerIdx) (cls : TaggerClass) (fl : Flags) :
    CW2.yieldF α env T cls fl = yieldB fl.length env.nPer env.fs (env.ftype T) cls (branches env.nPer fl) := by
  cases cls <;> rfl

/-- `NoInStateTagger`, `ActiveGlobalStateInStateTagger` (the variant with composite objects): exactly one in-state, every state -/
theorem cw2_noInState {α : Type} (env : CW2.Env α) (T : TaggerIdx) (fl : Flags) :
    (CW2.yieldF α env T .noInState fl).length = 1 := rfl
theorem cw2_activeGlobalState {α : Type} (env : CW2.Env α) (T : TaggerIdx) (fl : Flags) :
    (CW2.yieldF α env T .activeGlobalState fl).length = 1 := rfl

/-- `ActiveRootUnitInStateTagger`: one in-state per branch of the extracted active global state = per independent active unit —
exact, every state -/
theorem cw2_activeRootUnit {α : Type} (env : CW2.Env α) (T : TaggerIdx) (fl : Flags) :
    (CW2.yieldF α env T .activeRootUnit fl).length = (independent env.nPer fl).length := by
  simp [CW2.yieldF, branches]

/-- number of in-states one active leaf contributes (0 if its factor map raises) -/
def perLeafLen : Except String (List FactorMaps.InState) → Nat
  | .ok l => l.length
  | .error _ => 0

def perLeaf (s : FactorMaps.Setting) (fs : FactorMaps.Factors) (ty : String) (a : FactorMaps.Ident) : Nat :=
  perLeafLen (FactorMaps.yieldFactor s fs ty a)

theorem yieldAll_length (s : FactorMaps.Setting) (fs : FactorMaps.Factors) (ty : String) :
    ∀ (leaves : List FactorMaps.Ident) (l : List FactorMaps.InState), FactorMaps.yieldAll s fs ty leaves = .ok l →
      l.length = (leaves.map (perLeaf s fs ty)).sum
  | [], l, h => by simp only [FactorMaps.yieldAll] at h; cases h; rfl
  | a :: rest, l, h => by
    simp only [FactorMaps.yieldAll] at h
    cases ha : FactorMaps.yieldFactor s fs ty a with
    | error e => rw [ha] at h; cases h
    | ok la =>
      rw [ha] at h
      cases hr : FactorMaps.yieldAll s fs ty rest with
      | error e => rw [hr] at h; cases h
      | ok lr =>
        rw [hr] at h
        simp only [Except.ok.injEq] at h
        subst h
        rw [List.length_append, yieldAll_length s fs ty rest lr hr, List.map_cons, List.sum_cons]
        simp only [perLeaf, perLeafLen, ha]

/-- **`FactorTypeMapInStateTagger`, every state**: the `set(...)` of the factors of all active leaves has at most as many members
as the active leaves' factor maps yield together -/
theorem factor_demand_le_sum (s : FactorMaps.Setting) (fs : FactorMaps.Factors) (ty : String) (leaves : List FactorMaps.Ident)
    (l : List FactorMaps.InState) (h : FactorMaps.taggerYield s fs ty leaves = .ok l) :
    l.length ≤ (leaves.map (perLeaf s fs ty)).sum := by
  simp only [FactorMaps.taggerYield] at h
  split at h
  · cases h
  · rename_i la hla
    simp only [Except.ok.injEq] at h
    subst h
    rw [← yieldAll_length s fs ty leaves la hla]
    exact dedupe_length_le la

/-- **one active leaf, inter-object factor type** (C10's `factor_spec_inter`): EXACTLY (number of other composite objects) ×
(number of lines of the type containing the leaf's index, counted per occurrence) -/
theorem factor_demand_inter (s : FactorMaps.Setting) (lines : List FactorMaps.Line) (fs : FactorMaps.Factors) (ty : String)
    (r i : Nat) (h : FactorMaps.instantiate s lines [] = .ok fs) (hinter : C10.InterType s lines ty) (hn : s.nPer ≠ 1)
    (hr : r < s.nRoots) (hi : i < s.nPer) :
    perLeaf s fs ty [r, i] = (s.nRoots - 1) * (FactorMaps.entries i (FactorMaps.linesOf lines ty)).length := by
  unfold perLeaf
  rw [C10.factor_spec_inter s lines fs ty r i h hinter hn hr hi]
  simp only [perLeafLen, List.length_flatMap, List.length_map, List.map_const', List.sum_replicate]
  rw [C10.others, length_filter_ne_range hr]
  rfl

/-- **one active leaf, intra-object factor type** (C10's `factor_spec_intra`): the lines of the type containing the leaf's index -/
theorem factor_demand_intra (s : FactorMaps.Setting) (lines : List FactorMaps.Line) (fs : FactorMaps.Factors) (ty : String)
    (r i : Nat) (h : FactorMaps.instantiate s lines [] = .ok fs) (hintra : C10.IntraType s lines ty)
    (hr : r < s.nRoots) (hi : i < s.nPer) :
    perLeaf s fs ty [r, i] = (FactorMaps.entries i (FactorMaps.linesOf lines ty)).length := by
  unfold perLeaf
  rw [C10.factor_spec_intra s lines fs ty r i h hintra hr hi]
  split
  · next he => rw [he]; rfl
  · simp only [perLeafLen, List.length_map]

/-! ### one independent active unit: finitely many extracted active global states -/

/-- which extracted active global states a tagger is asked on: `0` leaf mode only (one leaf `(i, j)` active; handlers derived
from `SingleActiveLeafUnitEventHandler` / configurations without a mode switcher started on a leaf), `1` root mode only (a whole
composite object `(i,)`; `CompositeObjectsLifting` handlers), anything else: both -/
abbrev Sel := Nat

/-- the extracted active global states with at most one independent active unit, for `nRoots` composite objects of `nPer` point
masses: none; a whole composite object `(i,)` (root mode: the branch has all children); one leaf `(i, j)` -/
def oneChainBranches (sel : Sel) (nRoots nPer : Nat) : List (List Branch) :=
  [] :: (List.range nRoots).flatMap fun i =>
    (if sel == 0 then [] else [[⟨i, List.range nPer⟩]]) ++
    (if sel == 1 then [] else (List.range nPer).map fun j => [⟨i, [j]⟩])

theorem mem_oneChainBranches_root {sel : Sel} {nRoots nPer i : Nat} (hs : sel ≠ 0) (hi : i < nRoots) :
    [(⟨i, List.range nPer⟩ : Branch)] ∈ oneChainBranches sel nRoots nPer := by
  refine List.mem_cons_of_mem _ (List.mem_flatMap.mpr ⟨i, List.mem_range.mpr hi, List.mem_append_left _ ?_⟩)
  have : (sel == 0) = false := by simpa using hs
  simp [this]

theorem mem_oneChainBranches_leaf {sel : Sel} {nRoots nPer i j : Nat} (hs : sel ≠ 1) (hi : i < nRoots) (hj : j < nPer) :
    [(⟨i, [j]⟩ : Branch)] ∈ oneChainBranches sel nRoots nPer := by
  refine List.mem_cons_of_mem _ (List.mem_flatMap.mpr ⟨i, List.mem_range.mpr hi, List.mem_append_right _ ?_⟩)
  have : (sel == 1) = false := by simpa using hs
  simp only [this, Bool.false_eq_true, if_false]
  exact List.mem_map.mpr ⟨j, List.mem_range.mpr hj, rfl⟩

/-- the mode of a state, read off its independent active identifiers: compatible with selection `sel` -/
def ModeOK (sel : Sel) (nPer : Nat) (fl : Flags) : Prop :=
  ∀ x ∈ independent nPer fl, (sel = 0 → x.length = 2) ∧ (sel = 1 → x.length = 1)

/-- **every state with at most one independent active unit extracts to one of the enumerated branch lists** (flags of `nRoots`
composite objects with `nPer` leaves each) -/
theorem branches_mem_oneChain {nPer : Nat} (sel : Sel) (fl : Flags) (hu : ∀ f ∈ fl, f.2.length = nPer)
    (h1 : (independent nPer fl).length ≤ 1) (hm : ModeOK sel nPer fl) :
    branches nPer fl ∈ oneChainBranches sel fl.length nPer := by
  unfold branches
  cases hind : independent nPer fl with
  | nil => exact List.mem_cons_self
  | cons x rest =>
    have hrest : rest = [] := by
      rw [hind] at h1
      cases rest with
      | nil => rfl
      | cons _ _ => simp at h1
    subst hrest
    have hx : x ∈ independent nPer fl := by rw [hind]; exact List.mem_cons_self
    have hmx := hm x hx
    unfold independent at hx
    obtain ⟨i, hi, hxi⟩ := List.mem_flatMap.mp hx
    have hil : i < fl.length := List.mem_range.mp hi
    rw [List.getElem?_eq_getElem hil] at hxi
    simp only [independentOf] at hxi
    split at hxi
    · split at hxi
      · simp only [List.mem_singleton] at hxi
        subst hxi
        have : branchOf fl [i] = ⟨i, List.range nPer⟩ := by
          simp only [branchOf, List.getElem?_eq_getElem hil, Option.map_some, Option.getD_some,
            hu _ (List.getElem_mem hil)]
        rw [List.map_cons, List.map_nil, this]
        refine mem_oneChainBranches_root (fun h0 => ?_) hil
        have := hmx.1 h0
        simp at this
      · obtain ⟨j, hj, rfl⟩ := List.mem_map.mp hxi
        have hjl : j < nPer := List.mem_range.mp (List.mem_filter.mp hj).1
        rw [List.map_cons, List.map_nil]
        refine mem_oneChainBranches_leaf (fun h1' => ?_) hil hjl
        have := hmx.2 h1'
        simp at this
    · simp at hxi

/-- the largest demand of a tagger over the one-chain states of its mode — attained by construction (`demandMax_attained`) -/
def demandMax (sel : Sel) (nRoots nPer : Nat) (fs : FactorMaps.Factors) (ty : String) (cls : TaggerClass) : Nat :=
  ((oneChainBranches sel nRoots nPer).map fun bs => (yieldB nRoots nPer fs ty cls bs).length).foldl max 0

theorem le_foldl_max : ∀ (l : List Nat) (a x : Nat), x ∈ l ∨ x ≤ a → x ≤ l.foldl max a
  | [], a, x, h => by rcases h with h | h; · cases h
                      · exact h
  | y :: ys, a, x, h => by
    rw [List.foldl_cons]
    apply le_foldl_max ys
    rcases h with h | h
    · rcases List.mem_cons.mp h with rfl | h
      · right; exact Nat.le_max_right _ _
      · left; exact h
    · right; exact Nat.le_trans h (Nat.le_max_left _ _)

theorem foldl_max_mem : ∀ (l : List Nat) (a : Nat), l.foldl max a = a ∨ l.foldl max a ∈ l
  | [], a => Or.inl rfl
  | y :: ys, a => by
    rw [List.foldl_cons]
    rcases foldl_max_mem ys (max a y) with h | h
    · rw [h]
      rcases Nat.le_total a y with hay | hay
      · right; rw [Nat.max_eq_right hay]; exact List.mem_cons_self
      · left; exact Nat.max_eq_left hay
    · right; exact List.mem_cons_of_mem _ h

/-- **composite objects, every state with at most one independent active unit**: the demand of every tagger of the world is at
most `demandMax` -/
theorem cw2_demand_le_max {α : Type} (env : CW2.Env α) (T : TaggerIdx) (cls : TaggerClass) (sel : Sel) (fl : Flags)
    (hu : ∀ f ∈ fl, f.2.length = env.nPer) (h1 : (independent env.nPer fl).length ≤ 1) (hm : ModeOK sel env.nPer fl) :
    (CW2.yieldF α env T cls fl).length ≤ demandMax sel fl.length env.nPer env.fs (env.ftype T) cls := by
  rw [yieldF_eq_yieldB]
  refine le_foldl_max _ 0 _ (Or.inl ?_)
  exact List.mem_map.mpr ⟨_, branches_mem_oneChain sel fl hu h1 hm, rfl⟩

/-- no restriction on the mode: selection `2` -/
theorem modeOK_any (nPer : Nat) (fl : Flags) : ModeOK 2 nPer fl := fun _ _ => ⟨fun h => absurd h (by decide), fun h => absurd h (by decide)⟩

/-- the bound is tight: some one-chain extracted state demands exactly `demandMax` handlers (or `demandMax = 0`) -/
theorem demandMax_attained (sel : Sel) (nRoots nPer : Nat) (fs : FactorMaps.Factors) (ty : String) (cls : TaggerClass) :
    demandMax sel nRoots nPer fs ty cls = 0 ∨
    ∃ bs ∈ oneChainBranches sel nRoots nPer, (yieldB nRoots nPer fs ty cls bs).length = demandMax sel nRoots nPer fs ty cls := by
  rcases foldl_max_mem ((oneChainBranches sel nRoots nPer).map fun bs => (yieldB nRoots nPer fs ty cls bs).length) 0 with h | h
  · exact Or.inl h
  · obtain ⟨bs, hbs, e⟩ := List.mem_map.mp h
    exact Or.inr ⟨bs, hbs, e⟩

end JF.C09Pools
