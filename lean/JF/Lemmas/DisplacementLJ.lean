import JF.Lemmas.DisplacementHat
/-! # The Lennard-Jones potential meets the requirements of the Mexican-hat case tree (`Hat.Valid`) -/
set_option linter.unusedVariables false
namespace JF.DispR
open Set JF.Uphill

noncomputable section

/-- `LennardJonesPotential` as a `Hat`.  `_potential` is `-kσ⁶/(r²)³ + kσ¹²/(r²)⁶ = k((σ/r)¹² - (σ/r)⁶)`;
`equilibrium_separation = σ * 2 ** (1/6)`; the two inversions as in the source
(`sigma_over_r_six = (1 ± (1 + 4 U / k) ** 0.5) / 2`, `σ / sigma_over_r_six ** (1/6)`, `inf` for `U ≥ 0` outside). -/
def ljHat (k σ : ℝ) : Hat where
  U r := k * ((σ / r) ^ 12 - (σ / r) ^ 6)
  r0 := σ * (2:ℝ) ^ ((1:ℝ) / 6)
  invIn y := σ / ((1 + Real.sqrt (1 + 4 * y / k)) / 2) ^ ((1:ℝ) / 6)
  invOut y := if y ≥ 0 then none else some (σ / ((1 - Real.sqrt (1 + 4 * y / k)) / 2) ^ ((1:ℝ) / 6))

theorem sixth_pow {W : ℝ} (hW : 0 ≤ W) : (W ^ ((1:ℝ) / 6)) ^ 6 = W := by
  have := root_pow hW (p := 6) (by norm_num)
  simpa using this

/-- `φ(w) = k (w² - w)`: the Lennard-Jones energy as a function of `w = (σ/r)⁶` -/
def ljPhi (k w : ℝ) : ℝ := k * (w * w - w)

theorem ljU_eq (k σ r : ℝ) : (ljHat k σ).U r = ljPhi k ((σ / r) ^ 6) := by
  show k * ((σ / r) ^ 12 - (σ / r) ^ 6) = k * ((σ / r) ^ 6 * (σ / r) ^ 6 - (σ / r) ^ 6)
  ring

theorem ljPhi_diff (k w w' : ℝ) : ljPhi k w' - ljPhi k w = k * ((w' - w) * (w' + w - 1)) := by
  unfold ljPhi; ring

/-- on `w ≥ 1/2`, `φ` is order-reflecting -/
theorem ljPhi_reflect_hi {k w w' : ℝ} (hk : 0 < k) (hw : 1 / 2 ≤ w) (hw' : 1 / 2 ≤ w')
    (h : ljPhi k w ≤ ljPhi k w') : w ≤ w' := by
  have := ljPhi_diff k w w'
  have h2 : 0 ≤ (w' - w) * (w' + w - 1) := by
    have : 0 ≤ k * ((w' - w) * (w' + w - 1)) := by linarith
    by_contra hneg
    have := mul_neg_of_pos_of_neg hk (not_le.1 hneg)
    linarith
  by_contra hlt
  have : w' < w := not_le.1 hlt
  nlinarith

/-- on `w ≤ 1/2`, `φ` is order-reversing-reflecting -/
theorem ljPhi_reflect_lo {k w w' : ℝ} (hk : 0 < k) (hw : w ≤ 1 / 2) (hw' : w' ≤ 1 / 2)
    (h : ljPhi k w ≤ ljPhi k w') : w' ≤ w := by
  have := ljPhi_diff k w w'
  have h2 : 0 ≤ (w' - w) * (w' + w - 1) := by
    have : 0 ≤ k * ((w' - w) * (w' + w - 1)) := by linarith
    by_contra hneg
    have := mul_neg_of_pos_of_neg hk (not_le.1 hneg)
    linarith
  by_contra hlt
  have : w < w' := not_le.1 hlt
  nlinarith

theorem ljPhi_mono_hi {k w w' : ℝ} (hk : 0 < k) (hw : 1 / 2 ≤ w) (hww : w ≤ w') :
    ljPhi k w ≤ ljPhi k w' := by
  have := ljPhi_diff k w w'
  have : 0 ≤ k * ((w' - w) * (w' + w - 1)) :=
    mul_nonneg hk.le (mul_nonneg (by linarith) (by linarith))
  linarith

theorem ljPhi_anti_lo {k w w' : ℝ} (hk : 0 < k) (hw' : w' ≤ 1 / 2) (hww : w ≤ w') :
    ljPhi k w' ≤ ljPhi k w := by
  have := ljPhi_diff k w w'
  have : k * ((w' - w) * (w' + w - 1)) ≤ 0 :=
    mul_nonpos_of_nonneg_of_nonpos hk.le (mul_nonpos_of_nonneg_of_nonpos (by linarith) (by linarith))
  linarith

/-- `w = (σ/r)⁶` in terms of `r`, relative to the minimum -/
theorem ljw_ge_half {σ r : ℝ} (hσ : 0 < σ) (hr : 0 < r) :
    1 / 2 ≤ (σ / r) ^ 6 ↔ r ≤ σ * (2:ℝ) ^ ((1:ℝ) / 6) := by
  have h2 : ((2:ℝ) ^ ((1:ℝ) / 6)) ^ 6 = 2 := sixth_pow (by norm_num)
  have h20 : 0 < (2:ℝ) ^ ((1:ℝ) / 6) := Real.rpow_pos_of_pos (by norm_num) _
  have hr6 : 0 < r ^ 6 := pow_pos hr 6
  rw [div_pow, le_div_iff₀ hr6]
  have e : (σ * (2:ℝ) ^ ((1:ℝ) / 6)) ^ 6 = σ ^ 6 * 2 := by rw [mul_pow, h2]
  rw [← pow_le_pow_iff_left₀ hr.le (mul_pos hσ h20).le (show (6:ℕ) ≠ 0 by norm_num), e]
  constructor <;> intro h <;> linarith

theorem ljw_anti {σ r r' : ℝ} (hσ : 0 < σ) (hr : 0 < r) (hrr : r ≤ r') :
    (σ / r') ^ 6 ≤ (σ / r) ^ 6 :=
  pow_le_pow_left₀ (div_nonneg hσ.le (hr.le.trans hrr)) (div_le_div_of_nonneg_left hσ.le hr hrr) 6

/-- the two roots of `k (W² - W) = y` -/
theorem ljPhi_root {k y : ℝ} (hk : 0 < k) (hD : 0 ≤ 1 + 4 * y / k) (sgn : ℝ) (hs : sgn * sgn = 1) :
    ljPhi k ((1 + sgn * Real.sqrt (1 + 4 * y / k)) / 2) = y := by
  unfold ljPhi
  have h := Real.mul_self_sqrt hD
  generalize Real.sqrt (1 + 4 * y / k) = r at h ⊢
  have : k * (((1 + sgn * r) / 2) * ((1 + sgn * r) / 2) - (1 + sgn * r) / 2)
      = k * ((sgn * sgn) * (r * r) - 1) / 4 := by ring
  rw [this, hs, h]; field_simp; ring

/-- `φ ≥ -k/4` -/
theorem ljPhi_ge (k w : ℝ) (hk : 0 < k) : 0 ≤ 1 + 4 * ljPhi k w / k := by
  have : 1 + 4 * ljPhi k w / k = (2 * w - 1) * (2 * w - 1) := by
    unfold ljPhi; field_simp; ring
  rw [this]; exact mul_self_nonneg _

theorem lj_valid {k σ q : ℝ} (hk : 0 < k) (hσ : 0 < σ) (hq : 0 < q) : (ljHat k σ).Valid q := by
  have h20 : 0 < (2:ℝ) ^ ((1:ℝ) / 6) := Real.rpow_pos_of_pos (by norm_num) _
  have hr0 : 0 < σ * (2:ℝ) ^ ((1:ℝ) / 6) := mul_pos hσ h20
  refine ⟨hr0, hq, ?_, ?_, ?_, ?_, ?_⟩
  · -- decreasing inside
    intro x hx y hy hxy
    have hy2 : y ≤ σ * (2:ℝ) ^ ((1:ℝ) / 6) := hy.2
    rw [ljU_eq, ljU_eq]
    exact ljPhi_mono_hi hk ((ljw_ge_half hσ hy.1).2 hy2) (ljw_anti hσ hx.1 hxy)
  · -- increasing outside
    intro x hx y hy hxy
    have hx' : σ * (2:ℝ) ^ ((1:ℝ) / 6) ≤ x := hx
    have hx0 : 0 < x := lt_of_lt_of_le hr0 hx'
    rw [ljU_eq, ljU_eq]
    have hwx : (σ / x) ^ 6 ≤ 1 / 2 := by
      by_contra hlt
      have := (ljw_ge_half hσ hx0).1 (not_le.1 hlt).le
      have h2 : x = σ * (2:ℝ) ^ ((1:ℝ) / 6) := le_antisymm this hx'
      have := (ljw_ge_half hσ hx0).2 h2.le
      -- at the minimum itself `w = 1/2`
      have e : (σ / x) ^ 6 = 1 / 2 := by
        rw [h2, div_pow, mul_pow, sixth_pow (by norm_num)]; field_simp
      linarith [not_le.1 hlt]
    exact ljPhi_anti_lo hk hwx (ljw_anti hσ hx0 hxy)
  · -- inner inversion
    intro y a b hb hba ha h1 h2
    have ha' : a ≤ σ * (2:ℝ) ^ ((1:ℝ) / 6) := ha
    have ha0 : 0 < a := lt_of_lt_of_le hb hba
    rw [ljU_eq] at h1 h2
    have hwa := (ljw_ge_half hσ ha0).2 ha'
    have hwb := (ljw_ge_half hσ hb).2 (hba.trans ha')
    have hD : 0 ≤ 1 + 4 * y / k := by
      have := ljPhi_ge k ((σ / a) ^ 6) hk
      have e : 4 * ljPhi k ((σ / a) ^ 6) / k ≤ 4 * y / k :=
        div_le_div_of_nonneg_right (by linarith) hk.le
      linarith
    set W := (1 + Real.sqrt (1 + 4 * y / k)) / 2 with hW
    have hWhalf : 1 / 2 ≤ W := by rw [hW]; linarith [Real.sqrt_nonneg (1 + 4 * y / k)]
    have hW0 : 0 < W := by linarith
    have hroot : ljPhi k W = y := by
      have := ljPhi_root hk hD 1 (by norm_num); simpa using this
    have o1 : (σ / a) ^ 6 ≤ W := ljPhi_reflect_hi hk hwa hWhalf (by rw [hroot]; exact h1)
    have o2 : W ≤ (σ / b) ^ 6 := ljPhi_reflect_hi hk hWhalf hwb (by rw [hroot]; exact h2)
    set t := W ^ ((1:ℝ) / 6) with ht
    have ht6 : t ^ 6 = W := sixth_pow hW0.le
    have ht0 : 0 < t := Real.rpow_pos_of_pos hW0 _
    have c1 : σ / a ≤ t := (pow_le_pow_iff_left₀ (by positivity) ht0.le (show (6:ℕ) ≠ 0 by norm_num)).1
      (by rw [ht6]; exact o1)
    have c2 : t ≤ σ / b := (pow_le_pow_iff_left₀ ht0.le (by positivity) (show (6:ℕ) ≠ 0 by norm_num)).1
      (by rw [ht6]; exact o2)
    have hn : (ljHat k σ).invIn y = σ / t := rfl
    rw [hn]
    refine ⟨?_, ?_, ?_⟩
    · rw [le_div_iff₀ ht0]; rw [le_div_iff₀ hb] at c2; linarith
    · rw [div_le_iff₀ ht0]; rw [div_le_iff₀ ha0] at c1; linarith
    · rw [ljU_eq]
      have : σ / (σ / t) = t := by field_simp
      rw [this, ht6, hroot]
  · -- outer inversion
    intro y a n ha h1 hn
    have ha' : σ * (2:ℝ) ^ ((1:ℝ) / 6) ≤ a := ha
    have ha0 : 0 < a := lt_of_lt_of_le hr0 ha'
    rw [ljU_eq] at h1
    have hy : ¬ y ≥ 0 := by
      intro hy0
      have : (ljHat k σ).invOut y = none := if_pos hy0
      rw [this] at hn; exact absurd hn (by simp)
    have hyneg : y < 0 := not_le.1 hy
    have hn' : n = σ / ((1 - Real.sqrt (1 + 4 * y / k)) / 2) ^ ((1:ℝ) / 6) := by
      have : (ljHat k σ).invOut y = some (σ / ((1 - Real.sqrt (1 + 4 * y / k)) / 2) ^ ((1:ℝ) / 6)) :=
        if_neg hy
      rw [this] at hn; exact (Option.some.inj hn).symm
    have hwa : (σ / a) ^ 6 ≤ 1 / 2 := by
      by_contra hlt
      have h3 := (ljw_ge_half hσ ha0).1 (not_le.1 hlt).le
      have h2 : a = σ * (2:ℝ) ^ ((1:ℝ) / 6) := le_antisymm h3 ha'
      have e : (σ / a) ^ 6 = 1 / 2 := by
        rw [h2, div_pow, mul_pow, sixth_pow (by norm_num)]; field_simp
      linarith [not_le.1 hlt]
    have hD : 0 ≤ 1 + 4 * y / k := by
      have := ljPhi_ge k ((σ / a) ^ 6) hk
      have e : 4 * ljPhi k ((σ / a) ^ 6) / k ≤ 4 * y / k :=
        div_le_div_of_nonneg_right (by linarith) hk.le
      linarith
    have hD1 : 1 + 4 * y / k < 1 := by
      have : 4 * y / k < 0 := div_neg_of_neg_of_pos (by linarith) hk
      linarith
    have hs1 : Real.sqrt (1 + 4 * y / k) < 1 := by
      have := Real.sqrt_lt_sqrt hD hD1
      rwa [Real.sqrt_one] at this
    set W := (1 - Real.sqrt (1 + 4 * y / k)) / 2 with hW
    have hW0 : 0 < W := by rw [hW]; linarith
    have hWhalf : W ≤ 1 / 2 := by rw [hW]; linarith [Real.sqrt_nonneg (1 + 4 * y / k)]
    have hroot : ljPhi k W = y := by
      have := ljPhi_root hk hD (-1) (by norm_num)
      have e : (1 + -1 * Real.sqrt (1 + 4 * y / k)) / 2 = W := by rw [hW]; ring
      rwa [e] at this
    have o1 : W ≤ (σ / a) ^ 6 := ljPhi_reflect_lo hk hwa hWhalf (by rw [hroot]; exact h1)
    set t := W ^ ((1:ℝ) / 6) with ht
    have ht6 : t ^ 6 = W := sixth_pow hW0.le
    have ht0 : 0 < t := Real.rpow_pos_of_pos hW0 _
    have c1 : t ≤ σ / a := (pow_le_pow_iff_left₀ ht0.le (by positivity) (show (6:ℕ) ≠ 0 by norm_num)).1
      (by rw [ht6]; exact o1)
    rw [hn']
    refine ⟨?_, ?_⟩
    · rw [le_div_iff₀ ht0]; rw [le_div_iff₀ ha0] at c1; linarith
    · rw [ljU_eq]
      have : σ / (σ / t) = t := by field_simp
      rw [this, ht6, hroot]
  · -- `inf` only for energies never reached outside
    intro y hn r hr
    have hr' : σ * (2:ℝ) ^ ((1:ℝ) / 6) ≤ r := hr
    have hr0' : 0 < r := lt_of_lt_of_le hr0 hr'
    have hy : y ≥ 0 := by
      by_contra hy
      have : (ljHat k σ).invOut y = some _ := if_neg hy
      rw [this] at hn; exact absurd hn (by simp)
    rw [ljU_eq]
    have hw0 : 0 < (σ / r) ^ 6 := by positivity
    have hw : (σ / r) ^ 6 ≤ 1 / 2 := by
      by_contra hlt
      have h3 := (ljw_ge_half hσ hr0').1 (not_le.1 hlt).le
      have h2 : r = σ * (2:ℝ) ^ ((1:ℝ) / 6) := le_antisymm h3 hr'
      have e : (σ / r) ^ 6 = 1 / 2 := by
        rw [h2, div_pow, mul_pow, sixth_pow (by norm_num)]; field_simp
      linarith [not_le.1 hlt]
    have : ljPhi k ((σ / r) ^ 6) < 0 := by
      unfold ljPhi; exact mul_neg_of_pos_of_neg hk (by nlinarith)
    linarith

end
end JF.DispR
