import JF.Lemmas.DisplacementPeriodic
/-!
# Real-number reading of `MexicanHatPotential` (`potential/abstracts.py`), generic in the radial potential

`Hat` carries the three abstract methods of the Python class as functions of the *distance* `r`:
`U` (`_potential` is `U (norm separation)`), `invIn` (`_invert_potential_inside_minimum`), `invOut`
(`_invert_potential_outside_minimum`, `none` = `float('inf')`).  The separation enters through `s` (its
component along the motion, updated in place by the Python code) and the constant `q` (sum of the squares
of the other components).  The four case routines are written in the order of their call graph
(`behind_outside → behind_inside → front_inside → front_outside`, no recursion).

The `try … except ValueError` of `_displacement_behind_outside_sphere` is read as the test whether the first
`math.sqrt` succeeds (`0 ≤ r0² - q`): in the real-number reading no nested square root fails (shown by the
theorems), so that is the only way into the `except` branch.  [In binary64 a nested rounding failure is
possible — known finding `ep:inversion:budget-within-rounding-of-turning-point`.]
-/
set_option linter.unusedVariables false
namespace JF.DispR
open Set JF.Uphill

noncomputable section

structure Hat where
  U : ℝ → ℝ
  r0 : ℝ
  invIn : ℝ → ℝ
  invOut : ℝ → Option ℝ

namespace Hat
variable (H : Hat) (q : ℝ)

/-- `_potential(separation)` with component `s` along the motion -/
def pot (s : ℝ) : ℝ := H.U (Real.sqrt (s * s + q))

/-- `_displacement_front_outside_sphere` -/
def frontOutside (s cur dE : ℝ) : Option ℝ :=
  (H.invOut (cur + dE)).map fun n => s + Real.sqrt (n * n - q)

/-- `_displacement_front_inside_sphere` -/
def frontInside (s dE : ℝ) : Option ℝ :=
  let disp := s + Real.sqrt (H.r0 * H.r0 - q)
  let s1 := s - disp
  let cur := H.pot q s1
  (H.frontOutside q s1 cur dE).map (disp + ·)

/-- `_displacement_behind_inside_sphere` -/
def behindInside (s cur dE : ℝ) : Option ℝ :=
  let maxIn := H.pot q 0
  let diff := maxIn - cur
  if dE < diff then
    some (s - Real.sqrt (H.invIn (cur + dE) * H.invIn (cur + dE) - q))
  else
    (H.frontInside q 0 (dE - diff)).map (s + ·)

/-- `_displacement_behind_outside_sphere` -/
def behindOutside (s dE : ℝ) : Option ℝ :=
  if 0 ≤ H.r0 * H.r0 - q then
    let disp := s - Real.sqrt (H.r0 * H.r0 - q)
    let s1 := s - disp
    let cur := H.pot q s1
    (H.behindInside q s1 cur dE).map (disp + ·)
  else
    (H.frontOutside q 0 (H.pot q 0) dE).map (s + ·)

/-- `MexicanHatPotential.standard_velocity_displacement` -/
def disp (s dE : ℝ) : Option ℝ :=
  if Real.sqrt (s * s + q) ≥ H.r0 then
    if s ≤ 0 then H.frontOutside q s (H.pot q s) dE else H.behindOutside q s dE
  else
    if s ≤ 0 then H.frontInside q s dE else H.behindInside q s (H.pot q s) dE

/-- energy along the path from the current separation -/
def path (s : ℝ) : ℝ → ℝ := fun x => H.pot q (s - x)

/-- what the class documentation demands of an inheriting potential -/
structure Valid : Prop where
  r0_pos : 0 < H.r0
  q_pos : 0 < q
  /-- decreasing inside the minimum sphere -/
  anti : AntitoneOn H.U (Ioc 0 H.r0)
  /-- increasing outside -/
  mono : MonotoneOn H.U (Ici H.r0)
  /-- `_invert_potential_inside_minimum` is the (order-respecting) inverse on `(0, r0]` -/
  invIn_spec : ∀ y a b, 0 < b → b ≤ a → a ≤ H.r0 → H.U a ≤ y → y ≤ H.U b →
    b ≤ H.invIn y ∧ H.invIn y ≤ a ∧ H.U (H.invIn y) = y
  /-- `_invert_potential_outside_minimum` is the (order-respecting) inverse on `[r0, ∞)` -/
  invOut_some : ∀ y a n, H.r0 ≤ a → H.U a ≤ y → H.invOut y = some n → a ≤ n ∧ H.U n = y
  /-- … and returns `inf` only for energies that are never reached outside -/
  invOut_none : ∀ y, H.invOut y = none → ∀ r, H.r0 ≤ r → H.U r < y

end Hat

/-- the routine returned a distance along which exactly `E` is accumulated uphill -/
structure Good (f : ℝ → ℝ) (d E : ℝ) : Prop where
  nonneg : 0 ≤ d
  val : uphill f 0 d = E
  bv : BoundedVariationOn f (Icc 0 d)

variable {H : Hat} {q : ℝ}

theorem Hat.path_shift (H : Hat) (q s d1 : ℝ) :
    H.path q (s - d1) = fun x => H.path q s (x + d1) := by
  funext x; unfold Hat.path; congr 1; ring

/-- a first stretch with gain `G1`, then a routine started from the shifted separation -/
theorem Good.compose {s d1 G1 d2 E2 : ℝ} (h1 : Good (H.path q s) d1 G1)
    (h2 : Good (H.path q (s - d1)) d2 E2) : Good (H.path q s) (d1 + d2) (G1 + E2) := by
  have hv := h2.val
  have hb := h2.bv
  rw [Hat.path_shift, uphill_translate] at hv
  rw [Hat.path_shift] at hb
  have hb' := bv_translate' hb
  rw [zero_add] at hv hb'
  rw [add_comm d2 d1] at hv hb'
  have n1 := h1.nonneg
  have n2 := h2.nonneg
  exact ⟨by linarith, by rw [uphill_add n1 (by linarith) h1.bv hb', h1.val, hv],
    bv_add n1 (by linarith) h1.bv hb'⟩

/-! ### the distance along the path and the four monotone stretches -/

/-- distance of the two units after the active one has moved by `x` -/
def rho (s q x : ℝ) : ℝ := Real.sqrt (nsq s q x)

theorem Hat.path_eq (H : Hat) (q s x : ℝ) : H.path q s x = H.U (rho s q x) := rfl

theorem rho_pos {s q x : ℝ} (hq : 0 < q) : 0 < rho s q x := Real.sqrt_pos.2 (nsq_pos hq)

theorem r0_le_rho {s q x r0 : ℝ} (h0 : 0 ≤ r0) (h : r0 * r0 ≤ nsq s q x) : r0 ≤ rho s q x := by
  rw [← Real.sqrt_mul_self h0]; exact Real.sqrt_le_sqrt h

theorem rho_le_r0 {s q x r0 : ℝ} (h0 : 0 ≤ r0) (h : nsq s q x ≤ r0 * r0) : rho s q x ≤ r0 := by
  rw [← Real.sqrt_mul_self h0]; exact Real.sqrt_le_sqrt h

theorem rho_anti {s q x y : ℝ} (hxy : x ≤ y) (hy : y ≤ s) : rho s q y ≤ rho s q x :=
  Real.sqrt_le_sqrt (nsq_anti hxy hy)

theorem rho_mono {s q x y : ℝ} (hx : s ≤ x) (hxy : x ≤ y) : rho s q x ≤ rho s q y :=
  Real.sqrt_le_sqrt (nsq_mono hx hxy)

theorem Hat.path_zero (H : Hat) (q s : ℝ) : H.path q s 0 = H.pot q s := by
  unfold Hat.path; rw [sub_zero]

/-- an empty stretch -/
theorem Good.zero (f : ℝ → ℝ) : Good f 0 0 := by
  have hm : MonotoneOn f (Icc 0 0) := fun x hx y hy _ => by
    rw [le_antisymm hx.2 hx.1, le_antisymm hy.2 hy.1]
  exact ⟨le_rfl, by rw [uphill_mono hm le_rfl]; ring, bv_mono hm le_rfl⟩

theorem Good.of_mono {f : ℝ → ℝ} {d : ℝ} (hd : 0 ≤ d) (hm : MonotoneOn f (Icc 0 d)) :
    Good f d (f d - f 0) := ⟨hd, uphill_mono hm hd, bv_mono hm hd⟩

theorem Good.of_anti {f : ℝ → ℝ} {d : ℝ} (hd : 0 ≤ d) (hm : AntitoneOn f (Icc 0 d)) :
    Good f d 0 := ⟨hd, uphill_anti hm hd, bv_anti hm hd⟩


/-! ### the displaced even-power potential satisfies the requirements -/

/-- `DisplacedEvenPowerPotential` as a `Hat`: `U r = k (r - r0)^p` with `p` even
(`_potential`: `prefactor * (norm - r0) ** power`), the two inversions `r0 ∓ (y / k) ** (1 / p)` -/
noncomputable def evenPowerHat (k r0 : ℝ) (p : ℕ) : Hat where
  U r := k * (r - r0) ^ p
  r0 := r0
  invIn y := r0 - (y / k) ^ ((1:ℝ) / p)
  invOut y := some (r0 + (y / k) ^ ((1:ℝ) / p))

theorem root_pow {z : ℝ} {p : ℕ} (hz : 0 ≤ z) (hp : p ≠ 0) : (z ^ ((1:ℝ) / p)) ^ p = z := by
  rw [one_div]; exact Real.rpow_inv_natCast_pow hz hp

theorem evenPower_valid {k r0 q : ℝ} {p : ℕ} (hk : 0 < k) (hr0 : 0 < r0) (hp : Even p) (hp0 : p ≠ 0)
    (hq : 0 < q) : (evenPowerHat k r0 p).Valid q := by
  have flip : ∀ x : ℝ, (x - r0) ^ p = (r0 - x) ^ p := fun x => by
    rw [← hp.neg_pow]; congr 1; ring
  refine ⟨hr0, hq, ?_, ?_, ?_, ?_, ?_⟩
  · intro x hx y hy hxy
    show k * (y - r0) ^ p ≤ k * (x - r0) ^ p
    have hy2 : y ≤ r0 := hy.2
    rw [flip x, flip y]
    exact mul_le_mul_of_nonneg_left (pow_le_pow_left₀ (by linarith) (by linarith) p) hk.le
  · intro x hx y hy hxy
    show k * (x - r0) ^ p ≤ k * (y - r0) ^ p
    have hx' : r0 ≤ x := hx
    exact mul_le_mul_of_nonneg_left (pow_le_pow_left₀ (by linarith) (by linarith) p) hk.le
  · intro y a b hb hba ha h1 h2
    have ha' : a ≤ r0 := ha
    change k * (a - r0) ^ p ≤ y at h1
    change y ≤ k * (b - r0) ^ p at h2
    rw [flip a] at h1
    rw [flip b] at h2
    have hz : 0 ≤ y / k := div_nonneg (le_trans (mul_nonneg hk.le (pow_nonneg (by linarith) p)) h1) hk.le
    set t := (y / k) ^ ((1:ℝ) / p) with ht
    have htp : t ^ p = y / k := root_pow hz hp0
    have ht0 : 0 ≤ t := Real.rpow_nonneg hz _
    have h1' : (r0 - a) ^ p ≤ t ^ p := by rw [htp, le_div_iff₀ hk]; linarith
    have h2' : t ^ p ≤ (r0 - b) ^ p := by rw [htp, div_le_iff₀ hk]; linarith
    have e1 := (pow_le_pow_iff_left₀ (by linarith) ht0 hp0).1 h1'
    have e2 := (pow_le_pow_iff_left₀ ht0 (by linarith) hp0).1 h2'
    refine ⟨by show b ≤ r0 - t; linarith, by show r0 - t ≤ a; linarith, ?_⟩
    show k * ((r0 - t) - r0) ^ p = y
    rw [flip (r0 - t)]
    have : r0 - (r0 - t) = t := by ring
    rw [this, htp]; field_simp
  · intro y a n ha h1 hn
    have ha' : r0 ≤ a := ha
    change k * (a - r0) ^ p ≤ y at h1
    have hz : 0 ≤ y / k := div_nonneg (le_trans (mul_nonneg hk.le (pow_nonneg (by linarith) p)) h1) hk.le
    have hn' : n = r0 + (y / k) ^ ((1:ℝ) / p) := (Option.some.inj hn).symm
    set t := (y / k) ^ ((1:ℝ) / p) with ht
    have htp : t ^ p = y / k := root_pow hz hp0
    have ht0 : 0 ≤ t := Real.rpow_nonneg hz _
    have h1' : (a - r0) ^ p ≤ t ^ p := by rw [htp, le_div_iff₀ hk]; linarith
    have e1 := (pow_le_pow_iff_left₀ (by linarith) ht0 hp0).1 h1'
    refine ⟨by rw [hn']; linarith, ?_⟩
    show k * (n - r0) ^ p = y
    have : n - r0 = t := by rw [hn']; ring
    rw [this, htp]; field_simp
  · intro y h; exact absurd h (by simp [evenPowerHat])


variable (hV : H.Valid q)
include hV

/-- in front of the target and outside the sphere: climbing -/
theorem Hat.mono_front_out {s a b : ℝ} (ha : s ≤ a) (hout : H.r0 * H.r0 ≤ nsq s q a) :
    MonotoneOn (H.path q s) (Icc a b) := fun x hx y hy hxy => by
  have h1 : H.r0 ≤ rho s q a := r0_le_rho hV.r0_pos.le hout
  have h2 := rho_mono (q := q) ha hx.1
  exact hV.mono (show H.r0 ≤ rho s q x by linarith)
    (show H.r0 ≤ rho s q y by linarith [rho_mono (q := q) (ha.trans hx.1) hxy])
    (rho_mono (ha.trans hx.1) hxy)

/-- in front of the target and inside the sphere: descending -/
theorem Hat.anti_front_in {s a b : ℝ} (ha : s ≤ a) (hin : nsq s q b ≤ H.r0 * H.r0) :
    AntitoneOn (H.path q s) (Icc a b) := fun x hx y hy hxy => by
  have h1 : rho s q b ≤ H.r0 := rho_le_r0 hV.r0_pos.le hin
  have h2 := rho_mono (q := q) (ha.trans hy.1) hy.2
  have h3 := rho_mono (q := q) (ha.trans hx.1) hxy
  have mx : rho s q x ∈ Ioc 0 H.r0 := ⟨rho_pos hV.q_pos, by linarith⟩
  have my : rho s q y ∈ Ioc 0 H.r0 := ⟨rho_pos hV.q_pos, by linarith⟩
  exact hV.anti mx my h3

/-- behind the target and inside the sphere: climbing -/
theorem Hat.mono_behind_in {s a b : ℝ} (hb : b ≤ s) (hin : nsq s q a ≤ H.r0 * H.r0) :
    MonotoneOn (H.path q s) (Icc a b) := fun x hx y hy hxy => by
  have h1 : rho s q a ≤ H.r0 := rho_le_r0 hV.r0_pos.le hin
  have h2 := rho_anti (q := q) hx.1 (hx.2.trans hb)
  have h3 := rho_anti (q := q) hxy (hy.2.trans hb)
  have mx : rho s q x ∈ Ioc 0 H.r0 := ⟨rho_pos hV.q_pos, by linarith⟩
  have my : rho s q y ∈ Ioc 0 H.r0 := ⟨rho_pos hV.q_pos, by linarith⟩
  exact hV.anti my mx h3

/-- behind the target and outside the sphere: descending -/
theorem Hat.anti_behind_out {s a b : ℝ} (hb : b ≤ s) (hout : H.r0 * H.r0 ≤ nsq s q b) :
    AntitoneOn (H.path q s) (Icc a b) := fun x hx y hy hxy => by
  have h1 : H.r0 ≤ rho s q b := r0_le_rho hV.r0_pos.le hout
  have h2 := rho_anti (q := q) hy.2 hb
  have h3 := rho_anti (q := q) hxy (hy.2.trans hb)
  exact hV.mono (show H.r0 ≤ rho s q y by linarith) (show H.r0 ≤ rho s q x by linarith) h3

/-- **front, outside**: climb from the current potential by the budget -/
theorem Hat.frontOutside_good {s dE d : ℝ} (hs : s ≤ 0) (hout : H.r0 * H.r0 ≤ s * s + q)
    (hE : 0 ≤ dE) (h : H.frontOutside q s (H.pot q s) dE = some d) :
    Good (H.path q s) d dE := by
  unfold Hat.frontOutside at h
  obtain ⟨n, hn, rfl⟩ := Option.map_eq_some_iff.1 h
  have ha : H.r0 ≤ Real.sqrt (s * s + q) := by
    rw [← Real.sqrt_mul_self hV.r0_pos.le]; exact Real.sqrt_le_sqrt hout
  obtain ⟨h1, h2⟩ := hV.invOut_some _ _ _ ha (by unfold Hat.pot; linarith) hn
  have hn0 : 0 ≤ n := by linarith [hV.r0_pos]
  have hsq : s * s + q ≤ n * n := by
    have h3 : Real.sqrt (s * s + q) * Real.sqrt (s * s + q) = s * s + q :=
      Real.mul_self_sqrt (by nlinarith [mul_self_nonneg s, hV.q_pos])
    nlinarith [Real.sqrt_nonneg (s * s + q)]
  have hr : 0 ≤ n * n - q := by nlinarith [mul_self_nonneg s]
  have hge : -s ≤ Real.sqrt (n * n - q) := by
    rw [show -s = Real.sqrt ((-s) * (-s)) from (Real.sqrt_mul_self (by linarith)).symm]
    exact Real.sqrt_le_sqrt (by nlinarith)
  have hd : 0 ≤ s + Real.sqrt (n * n - q) := by linarith
  have hm := H.mono_front_out hV (s := s) (a := 0) (b := s + Real.sqrt (n * n - q)) hs
    (by rw [nsq_zero]; exact hout)
  have e : H.path q s (s + Real.sqrt (n * n - q)) - H.path q s 0 = dE := by
    rw [Hat.path_zero]
    have : H.path q s (s + Real.sqrt (n * n - q)) = H.U n := by
      unfold Hat.path Hat.pot
      have : (s - (s + Real.sqrt (n * n - q))) * (s - (s + Real.sqrt (n * n - q))) + q = n * n := by
        have := Real.mul_self_sqrt hr
        ring_nf; ring_nf at this; linarith
      rw [this, Real.sqrt_mul_self hn0]
    rw [this, h2]; ring
  have g := Good.of_mono hd hm
  rwa [e] at g

/-- **front, inside**: descend to the minimum sphere, then climb outside -/
theorem Hat.frontInside_good {s dE d : ℝ} (hs : s ≤ 0) (hin : s * s + q ≤ H.r0 * H.r0)
    (hE : 0 ≤ dE) (h : H.frontInside q s dE = some d) : Good (H.path q s) d dE := by
  simp only [Hat.frontInside] at h
  obtain ⟨d2, hd2, rfl⟩ := Option.map_eq_some_iff.1 h
  set hh := Real.sqrt (H.r0 * H.r0 - q) with hhdef
  have hr : 0 ≤ H.r0 * H.r0 - q := by nlinarith [mul_self_nonneg s]
  have hhsq : hh * hh = H.r0 * H.r0 - q := Real.mul_self_sqrt hr
  have hge : -s ≤ hh := by
    rw [show -s = Real.sqrt ((-s) * (-s)) from (Real.sqrt_mul_self (by linarith)).symm]
    exact Real.sqrt_le_sqrt (by nlinarith)
  have hd1 : 0 ≤ s + hh := by linarith
  have e1 : s - (s + hh) = -hh := by ring
  rw [e1] at hd2
  have g1 : Good (H.path q s) (s + hh) 0 := Good.of_anti hd1
    (H.anti_front_in hV hs (by unfold nsq; nlinarith))
  have g2 : Good (H.path q (s - (s + hh))) d2 dE := by
    rw [e1]
    exact H.frontOutside_good hV (by linarith [Real.sqrt_nonneg (H.r0 * H.r0 - q)])
      (by nlinarith) hE hd2
  have := g1.compose g2
  rwa [zero_add] at this

/-- **behind, inside**: climb the inner hill as far as the budget goes; with what is left go on
from the closest approach -/
theorem Hat.behindInside_good {s dE d : ℝ} (hs : 0 ≤ s) (hin : s * s + q ≤ H.r0 * H.r0)
    (hE : 0 ≤ dE) (h : H.behindInside q s (H.pot q s) dE = some d) : Good (H.path q s) d dE := by
  simp only [Hat.behindInside] at h
  have hq := hV.q_pos
  have hb0 : 0 < Real.sqrt (0 * 0 + q) := Real.sqrt_pos.2 (by linarith)
  have hba : Real.sqrt (0 * 0 + q) ≤ Real.sqrt (s * s + q) :=
    Real.sqrt_le_sqrt (by nlinarith [mul_self_nonneg s])
  have ha : Real.sqrt (s * s + q) ≤ H.r0 := by
    rw [← Real.sqrt_mul_self hV.r0_pos.le]; exact Real.sqrt_le_sqrt hin
  have hmono := H.mono_behind_in hV (s := s) (a := 0) (b := s) le_rfl (by rw [nsq_zero]; exact hin)
  have hps : H.path q s s = H.pot q 0 := by unfold Hat.path; rw [sub_self]
  split_ifs at h with hlt
  · -- the budget ends on the inner hill
    have hd : d = s - Real.sqrt (H.invIn (H.pot q s + dE) * H.invIn (H.pot q s + dE) - q) :=
      (Option.some.inj h).symm
    obtain ⟨h1, h2, h3⟩ := hV.invIn_spec (H.pot q s + dE) _ _ hb0 hba ha
      (by unfold Hat.pot; linarith) (by unfold Hat.pot at hlt ⊢; linarith)
    set n := H.invIn (H.pot q s + dE)
    have hn0 : 0 ≤ n := by linarith
    have hsqa : Real.sqrt (s * s + q) * Real.sqrt (s * s + q) = s * s + q :=
      Real.mul_self_sqrt (by nlinarith [mul_self_nonneg s])
    have hsqb : Real.sqrt (0 * 0 + q) * Real.sqrt (0 * 0 + q) = 0 * 0 + q :=
      Real.mul_self_sqrt (by linarith)
    have hnq : q ≤ n * n := by nlinarith
    have hns : n * n ≤ s * s + q := by nlinarith [Real.sqrt_nonneg (s * s + q)]
    have hr : 0 ≤ n * n - q := by linarith
    have hle : Real.sqrt (n * n - q) ≤ s := by
      rw [show s = Real.sqrt (s * s) from (Real.sqrt_mul_self hs).symm]
      exact Real.sqrt_le_sqrt (by linarith)
    have hd0 : 0 ≤ d := by rw [hd]; linarith
    have hds : d ≤ s := by rw [hd]; linarith [Real.sqrt_nonneg (n * n - q)]
    have e : H.path q s d - H.path q s 0 = dE := by
      rw [Hat.path_zero]
      have : H.path q s d = H.U n := by
        unfold Hat.path Hat.pot
        have : (s - d) * (s - d) + q = n * n := by
          rw [hd]
          have := Real.mul_self_sqrt hr
          ring_nf; ring_nf at this; linarith
        rw [this, Real.sqrt_mul_self hn0]
      rw [this, h3]; ring
    have g := Good.of_mono hd0 (hmono.mono (Icc_subset_Icc le_rfl hds))
    rwa [e] at g
  · -- over the top of the inner hill
    obtain ⟨d2, hd2, rfl⟩ := Option.map_eq_some_iff.1 h
    have hdiff : H.pot q 0 - H.pot q s ≤ dE := not_lt.1 hlt
    have g1 : Good (H.path q s) s (H.pot q 0 - H.pot q s) := by
      have := Good.of_mono hs hmono
      rwa [hps, Hat.path_zero] at this
    have g2 : Good (H.path q (s - s)) d2 (dE - (H.pot q 0 - H.pot q s)) := by
      rw [sub_self]
      exact H.frontInside_good hV le_rfl (by nlinarith [mul_self_nonneg s]) (by linarith) hd2
    have := g1.compose g2
    have e : H.pot q 0 - H.pot q s + (dE - (H.pot q 0 - H.pot q s)) = dE := by ring
    rwa [e] at this

/-- **behind, outside**: descend to the minimum sphere (if the path reaches it), or to the closest
approach (if it does not) -/
theorem Hat.behindOutside_good {s dE d : ℝ} (hs : 0 ≤ s) (hout : H.r0 * H.r0 ≤ s * s + q)
    (hE : 0 ≤ dE) (h : H.behindOutside q s dE = some d) : Good (H.path q s) d dE := by
  simp only [Hat.behindOutside] at h
  split_ifs at h with hreach
  · obtain ⟨d2, hd2, rfl⟩ := Option.map_eq_some_iff.1 h
    set hh := Real.sqrt (H.r0 * H.r0 - q) with hhdef
    have hhsq : hh * hh = H.r0 * H.r0 - q := Real.mul_self_sqrt hreach
    have hh0 : 0 ≤ hh := Real.sqrt_nonneg _
    have hle : hh ≤ s := by
      rw [show s = Real.sqrt (s * s) from (Real.sqrt_mul_self hs).symm]
      exact Real.sqrt_le_sqrt (by linarith)
    have e1 : s - (s - hh) = hh := by ring
    rw [e1] at hd2
    have g1 : Good (H.path q s) (s - hh) 0 := Good.of_anti (by linarith)
      (H.anti_behind_out hV (by linarith) (by unfold nsq; nlinarith))
    have g2 : Good (H.path q (s - (s - hh))) d2 dE := by
      rw [e1]; exact H.behindInside_good hV hh0 (by nlinarith) hE hd2
    have := g1.compose g2
    rwa [zero_add] at this
  · obtain ⟨d2, hd2, rfl⟩ := Option.map_eq_some_iff.1 h
    have hmiss : H.r0 * H.r0 < q := by linarith [not_le.1 hreach]
    have g1 : Good (H.path q s) s 0 := Good.of_anti hs
      (H.anti_behind_out hV le_rfl (by rw [nsq_self]; linarith))
    have g2 : Good (H.path q (s - s)) d2 dE := by
      rw [sub_self]; exact H.frontOutside_good hV le_rfl (by linarith) hE hd2
    have := g1.compose g2
    rwa [zero_add] at this

/-! ### the infinite outcome -/

omit hV in
/-- however far the unit moves, less than `E` is accumulated -/
def Never (f : ℝ → ℝ) (E : ℝ) : Prop :=
  ∀ d, 0 ≤ d → BoundedVariationOn f (Icc 0 d) ∧ uphill f 0 d < E

omit hV in
theorem uphill_le_of_le {f : ℝ → ℝ} {d d1 : ℝ} (h0 : 0 ≤ d) (hd : d ≤ d1)
    (hb : BoundedVariationOn f (Icc 0 d1)) : uphill f 0 d ≤ uphill f 0 d1 := by
  have b1 : BoundedVariationOn f (Icc 0 d) := hb.mono (Icc_subset_Icc le_rfl hd)
  have b2 : BoundedVariationOn f (Icc d d1) := hb.mono (Icc_subset_Icc h0 le_rfl)
  rw [uphill_add h0 hd b1 b2]
  linarith [uphill_nonneg hd b2]

omit hV in
/-- a first stretch with gain `G1`, then a stage that never accumulates `E2` -/
theorem Never.compose {s d1 G1 E2 : ℝ} (h1 : Good (H.path q s) d1 G1)
    (h2 : Never (H.path q (s - d1)) E2) : Never (H.path q s) (G1 + E2) := by
  intro d hd
  have hE2 : 0 < E2 := by
    have := (h2 0 le_rfl).2
    rwa [(Good.zero _).val] at this
  rcases le_total d d1 with hle | hle
  · refine ⟨h1.bv.mono (Icc_subset_Icc le_rfl hle), ?_⟩
    have := uphill_le_of_le hd hle h1.bv
    rw [h1.val] at this; linarith
  · obtain ⟨hb, hv⟩ := h2 (d - d1) (by linarith)
    rw [Hat.path_shift, uphill_translate] at hv
    rw [Hat.path_shift] at hb
    have hb' := bv_translate' hb
    have e : d - d1 + d1 = d := by ring
    rw [zero_add, e] at hv hb'
    refine ⟨bv_add h1.nonneg hle h1.bv hb', ?_⟩
    rw [uphill_add h1.nonneg hle h1.bv hb', h1.val]; linarith

theorem Hat.frontOutside_never {s dE : ℝ} (hs : s ≤ 0) (hout : H.r0 * H.r0 ≤ s * s + q)
    (h : H.frontOutside q s (H.pot q s) dE = none) : Never (H.path q s) dE := by
  unfold Hat.frontOutside at h
  have hn : H.invOut (H.pot q s + dE) = none := by simpa using h
  intro d hd
  have hm := H.mono_front_out hV (s := s) (a := 0) (b := d) hs (by rw [nsq_zero]; exact hout)
  refine ⟨bv_mono hm hd, ?_⟩
  rw [uphill_mono hm hd, Hat.path_zero, Hat.path_eq]
  have hr : H.r0 ≤ rho s q d := by
    have h1 : H.r0 ≤ rho s q 0 := r0_le_rho hV.r0_pos.le (by rw [nsq_zero]; exact hout)
    linarith [rho_mono (q := q) hs hd]
  have := hV.invOut_none _ hn _ hr
  linarith

theorem Hat.frontInside_never {s dE : ℝ} (hs : s ≤ 0) (hin : s * s + q ≤ H.r0 * H.r0)
    (h : H.frontInside q s dE = none) : Never (H.path q s) dE := by
  simp only [Hat.frontInside] at h
  have hn := Option.map_eq_none_iff.1 h
  set hh := Real.sqrt (H.r0 * H.r0 - q) with hhdef
  have hr : 0 ≤ H.r0 * H.r0 - q := by nlinarith [mul_self_nonneg s]
  have hhsq : hh * hh = H.r0 * H.r0 - q := Real.mul_self_sqrt hr
  have hge : -s ≤ hh := by
    rw [show -s = Real.sqrt ((-s) * (-s)) from (Real.sqrt_mul_self (by linarith)).symm]
    exact Real.sqrt_le_sqrt (by nlinarith)
  have e1 : s - (s + hh) = -hh := by ring
  rw [e1] at hn
  have g1 : Good (H.path q s) (s + hh) 0 := Good.of_anti (by linarith)
    (H.anti_front_in hV hs (by unfold nsq; nlinarith))
  have n2 : Never (H.path q (s - (s + hh))) dE := by
    rw [e1]
    exact H.frontOutside_never hV (by linarith [Real.sqrt_nonneg (H.r0 * H.r0 - q)]) (by nlinarith) hn
  have := Never.compose g1 n2
  rwa [zero_add] at this

theorem Hat.behindInside_never {s dE : ℝ} (hs : 0 ≤ s) (hin : s * s + q ≤ H.r0 * H.r0)
    (h : H.behindInside q s (H.pot q s) dE = none) : Never (H.path q s) dE := by
  simp only [Hat.behindInside] at h
  have hmono := H.mono_behind_in hV (s := s) (a := 0) (b := s) le_rfl (by rw [nsq_zero]; exact hin)
  have hps : H.path q s s = H.pot q 0 := by unfold Hat.path; rw [sub_self]
  split_ifs at h with hlt
  have hn := Option.map_eq_none_iff.1 h
  have g1 : Good (H.path q s) s (H.pot q 0 - H.pot q s) := by
    have := Good.of_mono hs hmono
    rwa [hps, Hat.path_zero] at this
  have n2 : Never (H.path q (s - s)) (dE - (H.pot q 0 - H.pot q s)) := by
    rw [sub_self]
    exact H.frontInside_never hV le_rfl (by nlinarith [mul_self_nonneg s]) hn
  have := Never.compose g1 n2
  have e : H.pot q 0 - H.pot q s + (dE - (H.pot q 0 - H.pot q s)) = dE := by ring
  rwa [e] at this

theorem Hat.behindOutside_never {s dE : ℝ} (hs : 0 ≤ s) (hout : H.r0 * H.r0 ≤ s * s + q)
    (h : H.behindOutside q s dE = none) : Never (H.path q s) dE := by
  simp only [Hat.behindOutside] at h
  split_ifs at h with hreach
  · have hn := Option.map_eq_none_iff.1 h
    set hh := Real.sqrt (H.r0 * H.r0 - q) with hhdef
    have hhsq : hh * hh = H.r0 * H.r0 - q := Real.mul_self_sqrt hreach
    have hh0 : 0 ≤ hh := Real.sqrt_nonneg _
    have hle : hh ≤ s := by
      rw [show s = Real.sqrt (s * s) from (Real.sqrt_mul_self hs).symm]
      exact Real.sqrt_le_sqrt (by linarith)
    have e1 : s - (s - hh) = hh := by ring
    rw [e1] at hn
    have g1 : Good (H.path q s) (s - hh) 0 := Good.of_anti (by linarith)
      (H.anti_behind_out hV (by linarith) (by unfold nsq; nlinarith))
    have n2 : Never (H.path q (s - (s - hh))) dE := by
      rw [e1]; exact H.behindInside_never hV hh0 (by nlinarith) hn
    have := Never.compose g1 n2
    rwa [zero_add] at this
  · have hn := Option.map_eq_none_iff.1 h
    have hmiss : H.r0 * H.r0 < q := by linarith [not_le.1 hreach]
    have g1 : Good (H.path q s) s 0 := Good.of_anti hs
      (H.anti_behind_out hV le_rfl (by rw [nsq_self]; linarith))
    have n2 : Never (H.path q (s - s)) dE := by
      rw [sub_self]; exact H.frontOutside_never hV le_rfl (by linarith) hn
    have := Never.compose g1 n2
    rwa [zero_add] at this

end
end JF.DispR
