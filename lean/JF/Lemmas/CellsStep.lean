import JF.Model.Cells
import Mathlib.Logic.Function.Iterate
import Mathlib.Tactic.Linarith
/-!
Rounding-abstract reading of the float-stepping loops of `CuboidCells.__init__`:
for ANY scalar type and ANY stepping functions that are mutually inverse and along which the cell digit
`_cell_identifier(x) = min(int(x / side), n - 1)` is monotone and never jumps by more than one, the loops (if they
terminate) return the two ends of the maximal run of consecutive scalars BELOW THE SYSTEM LENGTH whose digit is the
cell's identifier; in particular the last cell ends at the largest scalar below the system length.
-/
namespace JF.Cells

theorem whileStep_spec {α : Type} (cond : α → Bool) (step : α → α) :
    ∀ (fuel : Nat) (x y : α), whileStep cond step fuel x = some y →
      cond y = false ∧ ∃ j : Nat, y = step^[j] x ∧ ∀ i < j, cond (step^[i] x) = true := by
  intro fuel
  induction fuel with
  | zero => intro x y h; simp [whileStep] at h
  | succ f ih =>
    intro x y h
    rw [whileStep] at h
    split at h
    · rename_i hc
      obtain ⟨h1, j, h2, h3⟩ := ih _ _ h
      refine ⟨h1, j + 1, by rw [Function.iterate_succ_apply]; exact h2, ?_⟩
      intro i hi
      cases i with
      | zero => simpa using hc
      | succ i => rw [Function.iterate_succ_apply]; exact h3 i (by omega)
    · rename_i hc
      cases h
      exact ⟨by simpa using hc, 0, rfl, fun i hi => absurd hi (by omega)⟩

section
variable {α : Type} [Add α] [Sub α] [Mul α] [Div α] [Neg α] [LT α] [DecidableLT α] [LE α] [DecidableLE α] [BEq α]

/-- the assumptions on the stepper, relative to one direction (`side`, `n` cells, system length `len`) -/
structure StepLaws (o : Ops α) (st : Stepper α) (side : α) (n : Int) (len : α) : Prop where
  up_down : ∀ x, st.up (st.down x) = x
  down_up : ∀ x, st.down (st.up x) = x
  /-- the cell digit is monotone along the steps … -/
  mono : ∀ x, cellDigit o side n (st.down x) ≤ cellDigit o side n x
  /-- … and one step changes it by at most one -/
  slow : ∀ x, cellDigit o side n x ≤ cellDigit o side n (st.down x) + 1
  /-- `x < len` and `x >= len` are complementary (no NaN) -/
  lt_len : ∀ x, x < len ↔ ¬ len ≤ x
  /-- stepping down from below the system length stays below it -/
  down_len : ∀ x, ¬ len ≤ x → ¬ len ≤ st.down x
  /-- the largest scalar below the system length has quotient at least `n - 1` (it belongs to the last cell) -/
  top : ∀ x, len ≤ x → ¬ len ≤ st.down x → cellDigit o side n (st.down x) = n - 1

omit [Add α] [Sub α] [Mul α] [Neg α] [LT α] [DecidableLT α] [LE α] [DecidableLE α] [BEq α] in
theorem cellDigit_le (o : Ops α) (side : α) (n : Int) (x : α) : cellDigit o side n x ≤ n - 1 := by
  unfold cellDigit; omega

/-- the digit the upper stepping loops really test: `n` from the system length on, the cell digit below it -/
def effDigit (o : Ops α) (side : α) (n : Int) (len : α) (x : α) : Int :=
  if len ≤ x then n else cellDigit o side n x

omit [Add α] [Sub α] [Mul α] [Neg α] [DecidableLT α] [BEq α] in
theorem effDigit_mono {o : Ops α} {st : Stepper α} {side : α} {n : Int} {len : α} (laws : StepLaws o st side n len)
    (x : α) : effDigit o side n len (st.down x) ≤ effDigit o side n len x := by
  unfold effDigit
  by_cases h : len ≤ x
  · rw [if_pos h]
    split
    · omega
    · have := cellDigit_le o side n (st.down x); omega
  · rw [if_neg h, if_neg (laws.down_len x h)]
    exact laws.mono x

omit [Add α] [Sub α] [Mul α] [Neg α] [DecidableLT α] [BEq α] in
theorem effDigit_slow {o : Ops α} {st : Stepper α} {side : α} {n : Int} {len : α} (laws : StepLaws o st side n len)
    (x : α) : effDigit o side n len x ≤ effDigit o side n len (st.down x) + 1 := by
  unfold effDigit
  by_cases h : len ≤ x
  · rw [if_pos h]
    by_cases h' : len ≤ st.down x
    · rw [if_pos h']; omega
    · rw [if_neg h', laws.top x h h']; omega
  · rw [if_neg h, if_neg (laws.down_len x h)]
    exact laws.slow x

omit [Add α] [Sub α] [Mul α] [Neg α] [BEq α] in
/-- for a cell of the grid (`i < n`) the two loop conditions of the upper block are tests of `effDigit` -/
theorem upper_conds {o : Ops α} {st : Stepper α} {side : α} {n : Int} {len : α} (laws : StepLaws o st side n len)
    {i : Int} (hi : i < n) (x : α) :
    (decide (x < len) && (cellDigit o side n x == i)) = (effDigit o side n len x == i) ∧
    (decide (len ≤ x) || decide (cellDigit o side n x > i)) = decide (effDigit o side n len x > i) := by
  unfold effDigit
  by_cases h : len ≤ x
  · have h' : ¬ x < len := fun c => (laws.lt_len x).mp c h
    have hne : ¬ n = i := by omega
    simp [h, h', hi, hne]
  · have h' : x < len := (laws.lt_len x).mpr h
    simp [h, h']

omit [Add α] [Sub α] [Neg α] in
/-- **extent_sound (upper end)**: for a cell of the grid (`i < n`), if the start `(i+1)·side` is not below cell `i`,
the returned `cell_max` lies below the system length and has digit `i`; for an inner cell the next scalar above it lies
below the system length too and has digit `i + 1`; for the last cell the next scalar above it is not below the system
length, i.e. `cell_max` is the largest scalar below the system length. -/
theorem upperPos_sound (o : Ops α) (st : Stepper α) (fuel : Nat) (side : α) (n : Int) (len : α) (i : Int)
    (laws : StepLaws o st side n len) (hi : i < n)
    (start : len ≤ o.ofInt (i + 1) * side ∨ i ≤ cellDigit o side n (o.ofInt (i + 1) * side)) (u : α)
    (h : upperPos o st fuel side n len i = .ok u) :
    u < len ∧ cellDigit o side n u = i ∧
      (i + 1 < n → st.up u < len ∧ cellDigit o side n (st.up u) = i + 1) ∧
      (i + 1 = n → len ≤ st.up u) := by
  -- the statement about `effDigit`, as for the loops without the bound
  have key : effDigit o side n len u = i ∧ effDigit o side n len (st.up u) = i + 1 := by
    have start' : i ≤ effDigit o side n len (o.ofInt (i + 1) * side) := by
      unfold effDigit
      rcases start with s | s
      · rw [if_pos s]; omega
      · split
        · omega
        · exact s
    unfold upperPos at h
    simp only at h
    have c1' : (fun x => decide (x < len) && (cellDigit o side n x == i)) = fun x => effDigit o side n len x == i :=
      funext fun x => (upper_conds laws hi x).1
    have c2' : (fun x => decide (len ≤ x) || decide (cellDigit o side n x > i)) =
        fun x => decide (effDigit o side n len x > i) := funext fun x => (upper_conds laws hi x).2
    rw [c1', c2'] at h
    split at h
    · split at h
      · cases h
      · split at h <;> cases h
    · split at h
      · cases h
      · rename_i u1 h1
        split at h
        · cases h
        · rename_i u2 h2
          cases h
          obtain ⟨c1, j, e1, a1⟩ := whileStep_spec _ _ _ _ _ h1
          obtain ⟨c2, j', e2, a2⟩ := whileStep_spec _ _ _ _ _ h2
          simp only [beq_eq_false_iff_ne, ne_eq] at c1
          simp only [decide_eq_false_iff_not, not_lt] at c2
          -- after the first loop the digit is above i
          have hge : i ≤ effDigit o side n len u1 := by
            cases j with
            | zero => rw [e1]; exact start'
            | succ j =>
              have hp := a1 j (by omega)
              simp only [beq_iff_eq] at hp
              rw [e1, Function.iterate_succ_apply']
              have := effDigit_mono laws (st.up (st.up^[j] (o.ofInt (i + 1) * side)))
              rw [laws.down_up] at this
              omega
          have hgt : i < effDigit o side n len u1 := by omega
          -- the second loop makes at least one step
          cases j' with
          | zero =>
            rw [Function.iterate_zero, id] at e2
            rw [e2] at c2; omega
          | succ j' =>
            have hp := a2 j' (by omega)
            simp only [decide_eq_true_eq] at hp
            have hu : st.up u = st.down^[j'] u1 := by
              rw [e2, Function.iterate_succ_apply', laws.up_down]
            have hs := effDigit_slow laws (st.down^[j'] u1)
            rw [← Function.iterate_succ_apply' st.down j' u1, ← e2] at hs
            rw [hu]
            constructor <;> omega
  obtain ⟨k1, k2⟩ := key
  unfold effDigit at k1 k2
  have hu : ¬ len ≤ u := by
    intro c; rw [if_pos c] at k1; omega
  rw [if_neg hu] at k1
  refine ⟨(laws.lt_len u).mpr hu, k1, ?_, ?_⟩
  · intro hlt
    have hu' : ¬ len ≤ st.up u := by
      intro c; rw [if_pos c] at k2; omega
    rw [if_neg hu'] at k2
    exact ⟨(laws.lt_len _).mpr hu', k2⟩
  · intro he
    by_contra c
    rw [if_neg c] at k2
    have := cellDigit_le o side n (st.up u)
    omega

omit [Add α] [Sub α] [Neg α] [DecidableLE α] [BEq α] in
/-- **extent_sound (lower end)**: for a cell not at the origin (`0 < i·side`), if the start `i·side` is not
above cell `i`, the returned `cell_min` has digit `i` and the next scalar below it has digit `i - 1`. -/
theorem lowerPos_sound (o : Ops α) (st : Stepper α) (fuel : Nat) (side : α) (n : Int) (len : α) (i : Int)
    (laws : StepLaws o st side n len)
    (hpos : o.ofInt 0 < o.ofInt i * side)
    (start : cellDigit o side n (o.ofInt i * side) ≤ i) (l : α)
    (h : lowerPos o st fuel side n i = .ok l) :
    cellDigit o side n l = i ∧ cellDigit o side n (st.down l) = i - 1 := by
  unfold lowerPos at h
  simp only [hpos, if_true] at h
  split at h
  · cases h
  · rename_i l1 h1
    split at h
    · cases h
    · rename_i l2 h2
      cases h
      obtain ⟨c1, j, e1, a1⟩ := whileStep_spec _ _ _ _ _ h1
      obtain ⟨c2, j', e2, a2⟩ := whileStep_spec _ _ _ _ _ h2
      simp only [beq_eq_false_iff_ne, ne_eq] at c1
      simp only [decide_eq_false_iff_not, not_lt] at c2
      have hle : cellDigit o side n l1 ≤ i := by
        cases j with
        | zero => rw [e1]; exact start
        | succ j =>
          have hp := a1 j (by omega)
          simp only [beq_iff_eq] at hp
          rw [e1, Function.iterate_succ_apply']
          have := laws.mono (st.down^[j] (o.ofInt i * side))
          omega
      have hlt : cellDigit o side n l1 < i := by omega
      cases j' with
      | zero =>
        rw [Function.iterate_zero, id] at e2
        rw [e2] at c2; omega
      | succ j' =>
        have hp := a2 j' (by omega)
        simp only [decide_eq_true_eq] at hp
        have hd : st.down l = st.up^[j'] l1 := by
          rw [e2, Function.iterate_succ_apply', laws.down_up]
        have hs := laws.slow l
        rw [hd] at hs ⊢
        constructor <;> omega

omit [Add α] [Sub α] [Neg α] [LE α] [DecidableLE α] [BEq α] in
/-- the first cell's `cell_min` is the literal product `0 · side` (no stepping) -/
theorem lowerPos_origin (o : Ops α) (st : Stepper α) (fuel : Nat) (side : α) (n : Int) (i : Int)
    (hpos : ¬ (o.ofInt 0 < o.ofInt i * side)) : lowerPos o st fuel side n i = .ok (o.ofInt i * side) := by
  unfold lowerPos
  simp only [hpos, if_false]

end

section
variable {α : Type} [Div α] [LT α] [LE α]

/-- order facts about the scalars and the stepper (true of the finite binary64 numbers with `nextafter`) -/
structure OrderLaws (o : Ops α) (st : Stepper α) (side : α) (n : Int) : Prop where
  total : ∀ x y : α, x ≤ y ∨ y < x
  antisymm : ∀ x y : α, x ≤ y → y ≤ x → x = y
  /-- nothing lies strictly between `x` and `up x` -/
  succ : ∀ x y : α, x < y → st.up x ≤ y
  up_down : ∀ x, st.up (st.down x) = x
  /-- `min(int(x / side), n - 1)` is monotone -/
  mono : ∀ x y : α, x ≤ y → cellDigit o side n x ≤ cellDigit o side n y

/-- **cells abut**: the scalar following `cell_max` of cell `i` is `cell_min` of cell `i + 1`
(`u`, `l` as characterised by `extent_sound`) -/
theorem extents_abut (o : Ops α) (st : Stepper α) (side : α) (n : Int) (laws : OrderLaws o st side n) (i : Int)
    (u l : α)
    (hu : cellDigit o side n u = i) (hu' : cellDigit o side n (st.up u) = i + 1)
    (hl : cellDigit o side n l = i + 1) (hl' : cellDigit o side n (st.down l) = i) :
    st.up u = l := by
  have h1 : u < l := by
    rcases laws.total l u with h | h
    · have := laws.mono _ _ h; omega
    · exact h
  have h2 : st.down l < st.up u := by
    rcases laws.total (st.up u) (st.down l) with h | h
    · have := laws.mono _ _ h; omega
    · exact h
  have h3 := laws.succ _ _ h2
  rw [laws.up_down] at h3
  exact laws.antisymm _ _ (laws.succ _ _ h1) h3

/-- two more facts of a linear order, needed to place a position inside its cell's extent -/
structure LinearLaws (α : Type) [LT α] [LE α] : Prop where
  trans : ∀ x y z : α, x ≤ y → y ≤ z → x ≤ z
  not_le_of_lt : ∀ x y : α, x < y → ¬ y ≤ x

/-- a position with cell digit `j` is not below the `cell_min` of cell `j` (`lo` as characterised by `extent_sound`) -/
theorem cellMin_le_position (o : Ops α) (st : Stepper α) (side : α) (n : Int) (laws : OrderLaws o st side n)
    (lin : LinearLaws α) (j : Int) (lo x : α) (hx : cellDigit o side n x = j)
    (hlo : cellDigit o side n (st.down lo) = j - 1) : lo ≤ x := by
  rcases laws.total lo x with h | h
  · exact h
  · exfalso
    rcases laws.total x (st.down lo) with h' | h'
    · have := laws.mono _ _ h'; omega
    · have := laws.succ _ _ h'
      rw [laws.up_down] at this
      exact lin.not_le_of_lt _ _ h this

/-- a position below the system length with cell digit `j` is not above the `cell_max` of cell `j`
(`hi` as characterised by `extent_sound`; for the last cell this is the coverage of the top of the box) -/
theorem position_le_cellMax (o : Ops α) (st : Stepper α) (side : α) (n : Int) (laws : OrderLaws o st side n)
    (lin : LinearLaws α) (len : α) (j : Int) (hi x : α) (hx : cellDigit o side n x = j) (hxl : ¬ len ≤ x)
    (h1 : j + 1 < n → cellDigit o side n (st.up hi) = j + 1) (h2 : ¬ j + 1 < n → len ≤ st.up hi) : x ≤ hi := by
  rcases laws.total x hi with h | h
  · exact h
  · exfalso
    have hs := laws.succ _ _ h
    by_cases hj : j + 1 < n
    · have := laws.mono _ _ hs; have := h1 hj; omega
    · exact hxl (lin.trans _ _ _ (h2 hj) hs)
end
end JF.Cells
