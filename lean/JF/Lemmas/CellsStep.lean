import JF.Model.Cells
import Mathlib.Logic.Function.Iterate
import Mathlib.Tactic.Linarith
/-!
Rounding-abstract reading of the float-stepping loops of `CuboidCells.__init__`:
for ANY scalar type and ANY stepping functions that are mutually inverse and along which the digit
`int(x / side)` is monotone and never jumps by more than one, the loops (if they terminate) return the
two ends of the maximal run of consecutive scalars whose digit is the cell's identifier.
-/
namespace JF.Cells

theorem whileStep_spec {α : Type} (cond : α → Bool) (step : α → α) :
    ∀ (fuel : Nat) (x y : α), whileStep cond step fuel x = some y →
      cond y = false ∧ ∃ j : Nat, y = step^[j] x ∧ ∀ i < j, cond (step^[i] x) = true := by
  intro fuel
  induction fuel with
  | zero => intro x y h; simp [whileStep] at h
  | succ f ih =>
    intro x y h
    rw [whileStep] at h
    split at h
    · rename_i hc
      obtain ⟨h1, j, h2, h3⟩ := ih _ _ h
      refine ⟨h1, j + 1, by rw [Function.iterate_succ_apply]; exact h2, ?_⟩
      intro i hi
      cases i with
      | zero => simpa using hc
      | succ i => rw [Function.iterate_succ_apply]; exact h3 i (by omega)
    · rename_i hc
      cases h
      exact ⟨by simpa using hc, 0, rfl, fun i hi => absurd hi (by omega)⟩

section
variable {α : Type} [Add α] [Sub α] [Mul α] [Div α] [Neg α] [LT α] [DecidableLT α] [LE α] [DecidableLE α] [BEq α]

/-- the assumptions on the stepper, relative to one direction's `side` -/
structure StepLaws (o : Ops α) (st : Stepper α) (side : α) : Prop where
  up_down : ∀ x, st.up (st.down x) = x
  down_up : ∀ x, st.down (st.up x) = x
  /-- the digit is monotone along the steps … -/
  mono : ∀ x, digit o side (st.down x) ≤ digit o side x
  /-- … and one step changes it by at most one -/
  slow : ∀ x, digit o side x ≤ digit o side (st.down x) + 1

omit [Add α] [Sub α] [Neg α] [LE α] [DecidableLE α] [LT α] [DecidableLT α] in
/-- **extent_sound (upper end)**: if the start `(i+1)·side` is not below cell `i`, the returned `cell_max` has
digit `i` and the next scalar above it has digit `i + 1`. -/
theorem upperPos_sound (o : Ops α) (st : Stepper α) (fuel : Nat) (side : α) (i : Int) (laws : StepLaws o st side)
    (start : i ≤ digit o side (o.ofInt (i + 1) * side)) (u : α)
    (h : upperPos o st fuel side i = .ok u) :
    digit o side u = i ∧ digit o side (st.up u) = i + 1 := by
  unfold upperPos at h
  simp only at h
  split at h
  · cases h
  · split at h
    · cases h
    · rename_i u1 h1
      split at h
      · cases h
      · rename_i u2 h2
        cases h
        obtain ⟨c1, j, e1, a1⟩ := whileStep_spec _ _ _ _ _ h1
        obtain ⟨c2, j', e2, a2⟩ := whileStep_spec _ _ _ _ _ h2
        simp only [beq_eq_false_iff_ne, ne_eq] at c1
        simp only [decide_eq_false_iff_not, not_lt] at c2
        -- after the first loop the digit is above i
        have hge : i ≤ digit o side u1 := by
          cases j with
          | zero => rw [e1]; exact start
          | succ j =>
            have hp := a1 j (by omega)
            simp only [beq_iff_eq] at hp
            rw [e1, Function.iterate_succ_apply']
            have := laws.mono (st.up (st.up^[j] (o.ofInt (i + 1) * side)))
            rw [laws.down_up] at this
            omega
        have hgt : i < digit o side u1 := by omega
        -- the second loop makes at least one step
        cases j' with
        | zero =>
          rw [Function.iterate_zero, id] at e2
          rw [e2] at c2; omega
        | succ j' =>
          have hp := a2 j' (by omega)
          simp only [decide_eq_true_eq] at hp
          have hu : st.up u = st.down^[j'] u1 := by
            rw [e2, Function.iterate_succ_apply', laws.up_down]
          have hs := laws.slow (st.down^[j'] u1)
          rw [← Function.iterate_succ_apply' st.down j' u1, ← e2] at hs
          rw [hu]
          constructor <;> omega

omit [Add α] [Sub α] [Neg α] [LE α] [DecidableLE α] [BEq α] in
/-- **extent_sound (lower end)**: for a cell not at the origin (`0 < i·side`), if the start `i·side` is not
above cell `i`, the returned `cell_min` has digit `i` and the next scalar below it has digit `i - 1`. -/
theorem lowerPos_sound (o : Ops α) (st : Stepper α) (fuel : Nat) (side : α) (i : Int) (laws : StepLaws o st side)
    (hpos : o.ofInt 0 < o.ofInt i * side)
    (start : digit o side (o.ofInt i * side) ≤ i) (l : α)
    (h : lowerPos o st fuel side i = .ok l) :
    digit o side l = i ∧ digit o side (st.down l) = i - 1 := by
  unfold lowerPos at h
  simp only [hpos, if_true] at h
  split at h
  · cases h
  · rename_i l1 h1
    split at h
    · cases h
    · rename_i l2 h2
      cases h
      obtain ⟨c1, j, e1, a1⟩ := whileStep_spec _ _ _ _ _ h1
      obtain ⟨c2, j', e2, a2⟩ := whileStep_spec _ _ _ _ _ h2
      simp only [beq_eq_false_iff_ne, ne_eq] at c1
      simp only [decide_eq_false_iff_not, not_lt] at c2
      have hle : digit o side l1 ≤ i := by
        cases j with
        | zero => rw [e1]; exact start
        | succ j =>
          have hp := a1 j (by omega)
          simp only [beq_iff_eq] at hp
          rw [e1, Function.iterate_succ_apply']
          have := laws.mono (st.down^[j] (o.ofInt i * side))
          omega
      have hlt : digit o side l1 < i := by omega
      cases j' with
      | zero =>
        rw [Function.iterate_zero, id] at e2
        rw [e2] at c2; omega
      | succ j' =>
        have hp := a2 j' (by omega)
        simp only [decide_eq_true_eq] at hp
        have hd : st.down l = st.up^[j'] l1 := by
          rw [e2, Function.iterate_succ_apply', laws.down_up]
        have hs := laws.slow l
        rw [hd] at hs ⊢
        constructor <;> omega

omit [Add α] [Sub α] [Neg α] [LE α] [DecidableLE α] [BEq α] in
/-- the first cell's `cell_min` is the literal product `0 · side` (no stepping) -/
theorem lowerPos_origin (o : Ops α) (st : Stepper α) (fuel : Nat) (side : α) (i : Int)
    (hpos : ¬ (o.ofInt 0 < o.ofInt i * side)) : lowerPos o st fuel side i = .ok (o.ofInt i * side) := by
  unfold lowerPos
  simp only [hpos, if_false]

end

section
variable {α : Type} [Div α] [LT α] [LE α]

/-- order facts about the scalars and the stepper (true of the finite binary64 numbers with `nextafter`) -/
structure OrderLaws (o : Ops α) (st : Stepper α) (side : α) : Prop where
  total : ∀ x y : α, x ≤ y ∨ y < x
  antisymm : ∀ x y : α, x ≤ y → y ≤ x → x = y
  /-- nothing lies strictly between `x` and `up x` -/
  succ : ∀ x y : α, x < y → st.up x ≤ y
  up_down : ∀ x, st.up (st.down x) = x
  /-- `int(x / side)` is monotone -/
  mono : ∀ x y : α, x ≤ y → digit o side x ≤ digit o side y

/-- **cells abut**: the scalar following `cell_max` of cell `i` is `cell_min` of cell `i + 1`
(`u`, `l` as characterised by `extent_sound`) -/
theorem extents_abut (o : Ops α) (st : Stepper α) (side : α) (laws : OrderLaws o st side) (i : Int) (u l : α)
    (hu : digit o side u = i) (hu' : digit o side (st.up u) = i + 1)
    (hl : digit o side l = i + 1) (hl' : digit o side (st.down l) = i) :
    st.up u = l := by
  have h1 : u < l := by
    rcases laws.total l u with h | h
    · have := laws.mono _ _ h; omega
    · exact h
  have h2 : st.down l < st.up u := by
    rcases laws.total (st.up u) (st.down l) with h | h
    · have := laws.mono _ _ h; omega
    · exact h
  have h3 := laws.succ _ _ h2
  rw [laws.up_down] at h3
  exact laws.antisymm _ _ (laws.succ _ _ h1) h3
end
end JF.Cells
