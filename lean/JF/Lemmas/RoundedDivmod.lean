import JF.Num.Rounded
import JF.Lemmas.PyArith
/-!
CPython's `divmod(x, 1.0)` (`pydivmod1`, the model of `float_divmod`) in the rounding-abstract reading:
for a representable non-negative `x` NO operation of the algorithm rounds, and the result is
`(⌊x⌋, x - ⌊x⌋)`.

Walk through `float_divmod(vx = x, wx = 1.0)`:
* `mod = fmod(vx, wx)`                     exact by definition of `fmod`:  `x - ⌊x⌋`;
* `div = (vx - mod) / wx`                  `x - (x - ⌊x⌋) = ⌊x⌋` is representable (`floor_mem`), so the
                                            subtraction is exact; division by one is exact;
* `if (mod) { if ((wx < 0) != (mod < 0)) … }`   never taken: `mod ≥ 0`, `wx = 1 > 0`;
* `else mod = copysign(0.0, wx)`           `= 0 = x - ⌊x⌋`;
* `if (div) { floordiv = floor(div); if (div - floordiv > 0.5) floordiv += 1.0; }`
                                            `div` is an integer: `div - floor(div) = rnd 0 = 0`, and
                                            `rnd (1/2) ≥ 0` by monotonicity, so the correction never fires;
* `else floordiv = copysign(0.0, vx / wx)`  `= 0 = ⌊x⌋`.
-/
namespace JF
open R
variable {fm : FloatModel}

theorem pydivmod1_rounded (x : R fm) (hx : toQ x ∈ fm.F) (h0 : 0 ≤ toQ x) :
    pydivmod1 (Ops.rounded fm) x
      = (ofQ ((⌊toQ x⌋ : ℤ) : ℚ), ofQ (toQ x - ((⌊toQ x⌋ : ℤ) : ℚ))) := by
  have hfl : ((⌊toQ x⌋ : ℤ) : ℚ) ∈ fm.F := fm.floor_mem _ hx h0
  have hm0 : (Ops.rounded fm).fmod x ((Ops.rounded fm).ofInt 1) = ofQ (toQ x - ((⌊toQ x⌋ : ℤ) : ℚ)) := by
    apply R.ext
    have := fmod1 (toQ x)
    simp only [h0, if_true] at this
    simpa using this
  have hm0_nn : 0 ≤ toQ x - ((⌊toQ x⌋ : ℤ) : ℚ) := by linarith [Int.floor_le (toQ x)]
  have hd0 : (x - (ofQ (toQ x - ((⌊toQ x⌋ : ℤ) : ℚ)) : R fm)) / (Ops.rounded fm).ofInt 1
      = ofQ ((⌊toQ x⌋ : ℤ) : ℚ) := by
    apply R.ext
    simp only [toQ_div, toQ_sub, rounded_ofInt, Int.cast_one, div_one, toQ_ofQ]
    have e : toQ x - (toQ x - ((⌊toQ x⌋ : ℤ) : ℚ)) = ((⌊toQ x⌋ : ℤ) : ℚ) := by ring
    rw [e, fm.rnd_id _ hfl, fm.rnd_id _ hfl]
  have hhalf : ¬ (fm.rnd (1 / 2) < 0) := not_lt.mpr (fm.rnd_nonneg (by norm_num))
  have hnl : ¬ (toQ x - ((⌊toQ x⌋ : ℤ) : ℚ) < 0) := not_lt.mpr hm0_nn
  have hadj : (((ofQ (toQ x - ((⌊toQ x⌋ : ℤ) : ℚ)) : R fm) != (Ops.rounded fm).ofInt 0) &&
      (decide ((Ops.rounded fm).ofInt 1 < (Ops.rounded fm).ofInt 0)
        != decide ((ofQ (toQ x - ((⌊toQ x⌋ : ℤ) : ℚ)) : R fm) < (Ops.rounded fm).ofInt 0))) = false := by
    simp only [decide_lt, rounded_ofInt, toQ_ofQ, Int.cast_one, Int.cast_zero, hnl,
      show ¬ ((1:ℚ) < 0) by norm_num, decide_false, bne_self_eq_false, Bool.and_false]
  simp only [pydivmod1, hm0, hd0, hadj, Bool.false_eq_true, if_false]
  have hfloor : (Ops.rounded fm).floor (ofQ ((⌊toQ x⌋ : ℤ) : ℚ)) = ofQ ((⌊toQ x⌋ : ℤ) : ℚ) := by
    apply R.ext; simp only [rounded_floor, toQ_ofQ, Int.floor_intCast]
  have hcorr : ¬ ((Ops.rounded fm).ofInt 1 / (Ops.rounded fm).ofInt 2 <
      (ofQ ((⌊toQ x⌋ : ℤ) : ℚ) : R fm) - ofQ ((⌊toQ x⌋ : ℤ) : ℚ)) := by
    simp only [lt_iff, toQ_div, toQ_sub, rounded_ofInt, toQ_ofQ, Int.cast_one, Int.cast_ofNat, sub_self,
      fm.rnd_zero]
    exact hhalf
  simp only [hfloor, hcorr, if_false]
  refine Prod.ext ?_ ?_
  · by_cases hz : ((⌊toQ x⌋ : ℤ) : ℚ) = 0
    · have hb : ((ofQ ((⌊toQ x⌋ : ℤ) : ℚ) : R fm) != (Ops.rounded fm).ofInt 0) = false := by
        simp [hz]
      simp only [hb, Bool.false_eq_true, if_false]
      apply R.ext; simp [hz]
    · have hb : ((ofQ ((⌊toQ x⌋ : ℤ) : ℚ) : R fm) != (Ops.rounded fm).ofInt 0) = true := by
        simpa using hz
      simp only [hb, if_true]
  · by_cases hz : toQ x - ((⌊toQ x⌋ : ℤ) : ℚ) = 0
    · have hb : ((ofQ (toQ x - ((⌊toQ x⌋ : ℤ) : ℚ)) : R fm) != (Ops.rounded fm).ofInt 0) = false := by
        simp [hz]
      simp only [hb, Bool.false_eq_true, if_false]
      apply R.ext; simp [hz]
    · have hb : ((ofQ (toQ x - ((⌊toQ x⌋ : ℤ) : ℚ)) : R fm) != (Ops.rounded fm).ofInt 0) = true := by
        simpa using hz
      simp only [hb, if_true]
end JF
