import JF.Lemmas.MediatorLaws
import JF.Lemmas.ActivatorFresh
/-!
The invariant of the composed mediator loop (`JF.Med.leg`) and its induction step, for every scheduler instance that
satisfies `JF.Med.Laws`: the ghost dictionary of pending candidate times mirrors the running lists of the activator model,
and the scheduler state holds exactly the pending events it keeps.
-/
namespace JF.Med
open JF.Act JF.Heap JF.Sched

variable {κ : Type}

/-! ### the ghost dictionary along the pushes and trashes of one leg -/

/-- `p` after the `push_event` calls `l` -/
def pushAll (p : Pend κ) (l : List (HandlerId × κ)) : Pend κ := l.foldl (fun p q => upd p q.1 (some q.2)) p
/-- `p` after the `trash_event` calls `hs` -/
def dropAll (p : Pend κ) (hs : List HandlerId) : Pend κ := hs.foldl (fun p h => upd p h none) p

theorem pushAll_not_mem (p : Pend κ) (l : List (HandlerId × κ)) {h : HandlerId} (hn : h ∉ l.map Prod.fst) :
    pushAll p l h = p h := by
  induction l generalizing p with
  | nil => rfl
  | cons q l ih =>
    simp only [List.map_cons, List.mem_cons, not_or] at hn
    show pushAll (upd p q.1 (some q.2)) l h = p h
    rw [ih _ hn.2, upd_ne _ _ hn.1]

theorem pushAll_mem (p : Pend κ) {l : List (HandlerId × κ)} (nd : (l.map Prod.fst).Nodup) {q : HandlerId × κ} (hq : q ∈ l) :
    pushAll p l q.1 = some q.2 := by
  induction l generalizing p with
  | nil => simp at hq
  | cons a l ih =>
    simp only [List.map_cons, List.nodup_cons] at nd
    show pushAll (upd p a.1 (some a.2)) l q.1 = some q.2
    rcases List.mem_cons.mp hq with rfl | hq
    · rw [pushAll_not_mem _ _ nd.1, upd_self]
    · exact ih _ nd.2 hq

theorem pushAll_isSome (p : Pend κ) (l : List (HandlerId × κ)) (h : HandlerId) :
    (pushAll p l h).isSome ↔ (p h).isSome ∨ h ∈ l.map Prod.fst := by
  induction l generalizing p with
  | nil => simp [pushAll]
  | cons a l ih =>
    show (pushAll (upd p a.1 (some a.2)) l h).isSome ↔ _
    rw [ih]
    simp only [List.map_cons, List.mem_cons]
    by_cases ha : h = a.1
    · subst ha; simp
    · rw [upd_ne _ _ ha]; simp [ha]

/-- a pending time after the pushes is an old pending time or one of the pushed ones -/
theorem pushAll_some (p : Pend κ) (l : List (HandlerId × κ)) {h : HandlerId} {t : κ} (e : pushAll p l h = some t) :
    p h = some t ∨ (h, t) ∈ l := by
  induction l generalizing p with
  | nil => exact Or.inl e
  | cons a l ih =>
    rcases ih (upd p a.1 (some a.2)) e with h1 | h1
    · by_cases ha : h = a.1
      · subst ha; rw [upd_self] at h1; cases h1; exact Or.inr (List.mem_cons_self ..)
      · rw [upd_ne _ _ ha] at h1; exact Or.inl h1
    · exact Or.inr (List.mem_cons_of_mem _ h1)

theorem dropAll_eq (p : Pend κ) (hs : List HandlerId) (h : HandlerId) :
    dropAll p hs h = if h ∈ hs then none else p h := by
  induction hs generalizing p with
  | nil => simp [dropAll]
  | cons a hs ih =>
    show dropAll (upd p a none) hs h = _
    rw [ih]
    by_cases h1 : h ∈ hs
    · simp [h1]
    · by_cases ha : h = a
      · subst ha; simp [h1]
      · simp [h1, ha, upd_ne _ _ ha]

/-! ### the two scheduler loops of a leg -/

theorem pushLoop_rel {cfg : Cfg κ} {I : SchedI κ} {vis : κ → Bool} {R : I.σ → Pend κ → κ → Prop} (L : Laws cfg I vis R)
    (M : MWire) (o : Oracle κ) : ∀ (created : List (HandlerId × IdTuple)) (s s1 : I.σ) (p : Pend κ) (l : κ),
    R s p l → (created.map Prod.fst).Nodup → (∀ h ∈ created.map Prod.fst, p h = none) →
    pushLoop M I o s created = .ok s1 → R s1 (pushAll p (created.map fun q => (q.1, o.cand q.1))) l := by
  intro created
  induction created with
  | nil => intro s s1 p l hR _ _ e; simp only [pushLoop, Except.ok.injEq] at e; subst e; exact hR
  | cons a rest ih =>
    intro s s1 p l hR nd hn e
    obtain ⟨h, ids⟩ := a
    simp only [List.map_cons, List.nodup_cons] at nd
    unfold pushLoop at e
    split at e
    · cases e
    · show R s1 (pushAll (upd p h (some (o.cand h))) (rest.map fun q => (q.1, o.cand q.1))) l
      refine ih _ _ _ _ (L.push (o.cand h) hR (hn h (by simp))) nd.2 ?_ e
      intro x hx
      have hne : x ≠ h := fun hc => nd.1 (hc ▸ hx)
      rw [upd_ne _ _ hne]
      exact hn x (by simp [hx])

/-- the in-state assertions do not depend on the scheduler -/
theorem pushLoop_transfer {I J : SchedI κ} (M : MWire) (o : Oracle κ) : ∀ (created : List (HandlerId × IdTuple))
    (s s1 : I.σ) (sJ : J.σ), pushLoop M I o s created = .ok s1 → ∃ sJ1, pushLoop M J o sJ created = .ok sJ1 := by
  intro created
  induction created with
  | nil => intro s s1 sJ _; exact ⟨sJ, rfl⟩
  | cons a rest ih =>
    intro s s1 sJ e
    obtain ⟨h, ids⟩ := a
    unfold pushLoop at e ⊢
    split at e
    · cases e
    · next hc => rw [if_neg hc]; exact ih _ _ _ e

theorem trashAll_rel {cfg : Cfg κ} {I : SchedI κ} {vis : κ → Bool} {R : I.σ → Pend κ → κ → Prop} (L : Laws cfg I vis R) :
    ∀ (hs : List HandlerId) (s s3 : I.σ) (p : Pend κ) (l : κ), R s p l → trashAll I s hs = .ok s3 → R s3 (dropAll p hs) l := by
  intro hs
  induction hs with
  | nil => intro s s3 p l hR e; simp only [trashAll, Except.ok.injEq] at e; subst e; exact hR
  | cons h hs ih =>
    intro s s3 p l hR e
    unfold trashAll at e
    split at e
    · cases e
    · next s' hs' => exact ih _ _ _ _ (L.trash hR hs') e

theorem trashAll_succeeds {cfg : Cfg κ} {I : SchedI κ} {vis : κ → Bool} {R : I.σ → Pend κ → κ → Prop} (L : Laws cfg I vis R) :
    ∀ (hs : List HandlerId) (s : I.σ) (p : Pend κ) (l : κ), R s p l → hs.Nodup → (∀ h ∈ hs, (p h).isSome) →
    ∃ s3, trashAll I s hs = .ok s3 := by
  intro hs
  induction hs with
  | nil => intro s p l _ _ _; exact ⟨s, rfl⟩
  | cons h hs ih =>
    intro s p l hR nd hsome
    obtain ⟨t, ht⟩ := Option.isSome_iff_exists.mp (hsome h (by simp))
    obtain ⟨s', hs'⟩ := L.trash_ok hR ht
    unfold trashAll
    rw [hs']
    simp only
    refine ih s' _ l (L.trash hR hs') (List.nodup_cons.mp nd).2 ?_
    intro x hx
    have hne : x ≠ h := fun hc => (List.nodup_cons.mp nd).1 (hc ▸ hx)
    rw [upd_ne _ _ hne]
    exact hsome x (by simp [hx])

/-! ### the activator calls of a leg -/

/-- static well-formedness of the configuration: duplicate-free create lists in range, duplicate-free pairwise disjoint
handler pools (all proved for generated wirings in `JF/Lemmas/ActivatorWiring.lean`), a start-of-run tagger in range -/
structure Static (M : MWire) : Prop where
  wf : WFw M.w
  pok : PoolsOK M.w
  hS : M.S < M.w.length

theorem createLoop_running {w : Wires} (pok : PoolsOK w) {yields : TaggerIdx → List IdTuple} {Ts : List TaggerIdx}
    {s s' : Act} {out : List (HandlerId × IdTuple)} (pinv : PoolInv w s) (nd : Ts.Nodup) (hr : ∀ T ∈ Ts, T < s.length)
    (e : createLoop yields s Ts = some (s', out)) :
    (out.map Prod.fst).Nodup ∧ (∀ h ∈ out.map Prod.fst, ∀ U, h ∉ (getT s U).running) ∧
    ∀ h, (∃ T, h ∈ (getT s' T).running) ↔ (∃ T, h ∈ (getT s T).running) ∨ h ∈ out.map Prod.fst := by
  obtain ⟨knd, ksub⟩ := createLoop_keys pok pinv nd hr e
  obtain ⟨hout, hpop⟩ := createLoop_some nd hr e
  refine ⟨knd, ?_, ?_⟩
  · intro h hh U hU
    obtain ⟨T, hT, hx⟩ := ksub h hh
    by_cases hUT : U = T
    · subst hUT
      exact (List.nodup_append.mp (pinv.nodup pok U)).2.2 h hU h hx rfl
    · exact pok.2 U T hUT h (pinv.mem_pool_of_running hU) (pinv.mem_pool_of_notRunning hx)
  · intro h
    constructor
    · rintro ⟨T, hT⟩
      by_cases hc : T ∈ Ts
      · obtain ⟨_, p2, _, _⟩ := popMany_some (hpop T hc)
        rw [p2] at hT
        rcases List.mem_append.mp hT with h1 | h2
        · exact Or.inl ⟨T, h1⟩
        · right; rw [hout, List.map_flatMap]
          exact List.mem_flatMap.mpr ⟨T, hc, h2⟩
      · rw [createLoop_frame e hc] at hT; exact Or.inl ⟨T, hT⟩
    · rintro (⟨T, hT⟩ | hk)
      · by_cases hc : T ∈ Ts
        · obtain ⟨_, p2, _, _⟩ := popMany_some (hpop T hc)
          exact ⟨T, by rw [p2]; exact List.mem_append_left _ hT⟩
        · exact ⟨T, by rw [createLoop_frame e hc]; exact hT⟩
      · rw [hout, List.map_flatMap] at hk
        obtain ⟨T, hc, h2⟩ := List.mem_flatMap.mp hk
        obtain ⟨_, p2, _, _⟩ := popMany_some (hpop T hc)
        exact ⟨T, by rw [p2]; exact List.mem_append_right _ h2⟩

/-- `get_event_handlers_to_run`: the handed-out handlers are pairwise distinct, none of them was running, and afterwards the
running handlers are the old ones plus the handed-out ones -/
theorem getToRun_ok {M : MWire} (hs : Static M) {a a1 : ActSt} {pre : Option HandlerId} {ys : TaggerIdx → List IdTuple}
    {created : List (HandlerId × IdTuple)} (pinv : PoolInv M.w a.ts)
    (e : getToRun M.w M.S a pre ys = (a1, .ok created)) :
    PoolInv M.w a1.ts ∧ (created.map Prod.fst).Nodup ∧ (∀ h ∈ created.map Prod.fst, ∀ U, h ∉ (getT a.ts U).running) ∧
    ∀ h, (∃ T, h ∈ (getT a1.ts T).running) ↔ (∃ T, h ∈ (getT a.ts T).running) ∨ h ∈ created.map Prod.fst := by
  have core : ∀ (E : TaggerIdx) (Ts : List TaggerIdx) (s' : Act), Ts.Nodup → (∀ T ∈ Ts, T < M.w.length) →
      createLoop ys (applyActivation M.w a.ts E) Ts = some (s', created) →
      PoolInv M.w s' ∧ (created.map Prod.fst).Nodup ∧ (∀ h ∈ created.map Prod.fst, ∀ U, h ∉ (getT a.ts U).running) ∧
      ∀ h, (∃ T, h ∈ (getT s' T).running) ↔ (∃ T, h ∈ (getT a.ts T).running) ∨ h ∈ created.map Prod.fst := by
    intro E Ts s' nd hr hc
    have pa : PoolInv M.w (applyActivation M.w a.ts E) := poolInv_applyActivation E pinv
    have hr' : ∀ T ∈ Ts, T < (applyActivation M.w a.ts E).length := by intro T hT; rw [pa.1]; exact hr T hT
    obtain ⟨c1, c2, c3⟩ := createLoop_running hs.pok pa nd hr' hc
    refine ⟨poolInv_createLoop pa hc, c1, ?_, ?_⟩
    · intro h hh U; rw [← applyActivation_running M.w a.ts E U]; exact c2 h hh U
    · intro h; rw [c3 h]; simp only [applyActivation_running]
  unfold getToRun at e
  split at e
  · -- first call
    split at e
    · simp only [Prod.mk.injEq, reduceCtorEq, and_false] at e
    · split at e
      · simp only [Prod.mk.injEq, reduceCtorEq, and_false] at e
      · next s' out hf =>
        simp only [Prod.mk.injEq, RunOut.ok.injEq] at e
        obtain ⟨rfl, rfl⟩ := e
        exact core M.S [M.S] s' (by simp) (by intro T hT; simp at hT; subst hT; exact hs.hS) hf
  · split at e
    · simp only [Prod.mk.injEq, reduceCtorEq, and_false] at e
    · next E hE =>
      split at e
      · simp only [Prod.mk.injEq, reduceCtorEq, and_false] at e
      · next s' out hf =>
        simp only [Prod.mk.injEq, RunOut.ok.injEq] at e
        obtain ⟨rfl, rfl⟩ := e
        exact core E (getW M.w E).creates s' (hs.wf E).1 (hs.wf E).2 hf

theorem owner_mem {w : Wires} {h : HandlerId} {E : TaggerIdx} (e : owner w h = some E) : h ∈ (getW w E).pool := by
  unfold owner at e
  simp only at e
  split at e
  · next hlt =>
    simp only [Option.some.injEq] at e
    subst e
    have := List.findIdx_getElem (w := hlt)
    unfold getW
    rw [List.getElem?_eq_getElem hlt]
    simpa using this
  · cases e

/-- the returned list of the trash loop has no duplicates (pools are disjoint, a tagger listed twice contributes once) -/
theorem trashLoop_out_nodup {w : Wires} (pok : PoolsOK w) : ∀ (Ts : List TaggerIdx) (s : Act), PoolInv w s →
    (trashLoop s Ts).2.Nodup := by
  intro Ts
  induction Ts with
  | nil => intro s _; simp [trashLoop]
  | cons T Ts ih =>
    intro s pinv
    simp only [trashLoop]
    have p1 : PoolInv w (s.set T { getT s T with notRunning := (getT s T).notRunning ++ (getT s T).running, running := [] }) := by
      have := poolInv_trashLoop [T] pinv
      simpa [trashLoop] using this
    rw [List.nodup_append]
    refine ⟨(List.nodup_append.mp (pinv.nodup pok T)).1, ih _ p1, ?_⟩
    intro a ha b hb hab
    subst hab
    obtain ⟨U, hU, hbU⟩ := (trashLoop_out_mem _ Ts a).mp hb
    rw [getT_set] at hbU
    split at hbU
    · simp at hbU
    · next hc =>
      have hne : T ≠ U := by
        intro hTU; subst hTU
        by_cases hl : T < s.length
        · exact hc ⟨rfl, hl⟩
        · rw [getT_of_le s T (Nat.le_of_not_lt hl)] at ha; simp [TState.empty] at ha
      exact pok.2 T U hne a (pinv.mem_pool_of_running ha) (pinv.mem_pool_of_running hbU)

/-- `get_trashable_events`: the list is the running handlers of the trashed taggers of the committing handler's own tagger
`E`; the committing handler is one of them and runs for `E`; afterwards exactly the listed handlers stopped running -/
theorem getTrashable_ok {M : MWire} (hs : Static M) {a a2 : ActSt} {h : HandlerId} {trashed : List HandlerId}
    (pinv : PoolInv M.w a.ts) (e : getTrashable M.w a h = (a2, .ok trashed)) :
    ∃ E, owner M.w h = some E ∧ a2.ts = (trash M.w a.ts E).1 ∧ trashed = (trash M.w a.ts E).2 ∧
      h ∈ (getT a.ts E).running ∧ h ∈ trashed ∧ trashed.Nodup ∧ PoolInv M.w a2.ts ∧
      (∀ x ∈ trashed, ∃ T, x ∈ (getT a.ts T).running) ∧
      ∀ x, (∃ T, x ∈ (getT a2.ts T).running) ↔ (∃ T, x ∈ (getT a.ts T).running) ∧ x ∉ trashed := by
  unfold getTrashable at e
  split at e
  · simp only [Prod.mk.injEq, reduceCtorEq, and_false] at e
  · next E hE =>
    simp only at e
    split at e
    · next hcont =>
      simp only [Prod.mk.injEq, TrashOut.ok.injEq] at e
      obtain ⟨rfl, rfl⟩ := e
      have hmem : h ∈ (trash M.w a.ts E).2 := by simpa using hcont
      have hchar := fun x => trashLoop_out_mem a.ts (getW M.w E).trashes x
      refine ⟨E, hE, rfl, rfl, ?_, hmem, trashLoop_out_nodup hs.pok _ _ pinv, poolInv_trash E pinv, ?_, ?_⟩
      · obtain ⟨T, _, hT⟩ := (hchar h).mp hmem
        have h1 : h ∈ (getW M.w T).pool := pinv.mem_pool_of_running hT
        have h2 : h ∈ (getW M.w E).pool := owner_mem hE
        by_cases hTE : T = E
        · subst hTE; exact hT
        · exact absurd h2 (hs.pok.2 T E hTE h h1)
      · intro x hx
        obtain ⟨T, _, hT⟩ := (hchar x).mp hx
        exact ⟨T, hT⟩
      · intro x
        show (∃ T, x ∈ (getT (trash M.w a.ts E).1 T).running) ↔ _
        constructor
        · rintro ⟨T, hT⟩
          by_cases ht : T ∈ (getW M.w E).trashes
          · exfalso
            by_cases hl : T < a.ts.length
            · rw [trash, trashLoop_mem _ _ ht hl] at hT; simp [Act.trashed] at hT
            · rw [getT_of_le _ _ (by rw [trash, trashLoop_length]; exact Nat.le_of_not_lt hl)] at hT
              simp [TState.empty] at hT
          · rw [trash, trashLoop_frame _ _ ht] at hT
            refine ⟨⟨T, hT⟩, fun hx => ?_⟩
            obtain ⟨U, hU, hxU⟩ := (hchar x).mp hx
            have hne : U ≠ T := fun hc => ht (hc ▸ hU)
            exact hs.pok.2 U T hne x (pinv.mem_pool_of_running hxU) (pinv.mem_pool_of_running hT)
        · rintro ⟨⟨T, hT⟩, hx⟩
          have ht : T ∉ (getW M.w E).trashes := fun hc => hx ((hchar x).mpr ⟨T, hc, hT⟩)
          exact ⟨T, by rw [trash, trashLoop_frame _ _ ht]; exact hT⟩
    · simp only [Prod.mk.injEq, reduceCtorEq, and_false] at e

/-! ### the invariant and its step -/

/-- the ghost dictionary after one leg -/
def pendPushed (p : Pend κ) (c : Committed κ) : Pend κ := pushAll p c.pushed
def pendAfter (p : Pend κ) (c : Committed κ) : Pend κ := dropAll (pendPushed p c) c.trashed

/-- the composed invariant: bookkeeping of the activator, the scheduler holds exactly the pending events it keeps (`R`), and a
handler has a pending event iff it is a running handler of some tagger -/
structure MInv (M : MWire) {I : SchedI κ} (R : I.σ → Pend κ → κ → Prop) (st : MedState I.σ) (p : Pend κ) (l : κ) : Prop where
  pool : PoolInv M.w st.act.ts
  rel : R st.sched p l
  mirror : ∀ h, (p h).isSome ↔ ∃ T, h ∈ (getT st.act.ts T).running

/-- the activator state in the middle of the leg (after `get_event_handlers_to_run`) -/
def midAct (M : MWire) {σ : Type} (st : MedState σ) (o : Oracle κ) : Act :=
  (getToRun M.w M.S st.act st.preceding o.yields).1.ts

/-- what every successful leg satisfies, in terms of its record `c`, the ghost dictionary `p` and the last commit time `l`
before the leg -/
structure LegOK (cfg : Cfg κ) (vis : κ → Bool) (p : Pend κ) (l : κ) (c : Committed κ) : Prop where
  /-- one `push_event` per handler handed out, in the activator's order -/
  pushed_keys : c.pushed.map Prod.fst = c.created.map Prod.fst
  /-- the handlers handed out are pairwise distinct … -/
  nodup : (c.pushed.map Prod.fst).Nodup
  /-- … and had no pending event -/
  fresh : ∀ h ∈ c.pushed.map Prod.fst, p h = none
  /-- the committed handler has a pending event, with the committed time, which the scheduler keeps -/
  pending : pendPushed p c c.handler = some c.time
  visible : vis c.time = true
  /-- it is a minimal one among the pending events the scheduler keeps -/
  minimal : ∀ h' t', pendPushed p c h' = some t' → vis t' = true → cfg.lt t' c.time = false
  /-- the guard of `get_succeeding_event` -/
  guard : cfg.lt c.time l = false
  /-- the committed handler's event is trashed; every `trash_event` call hits a pending event; no handler twice -/
  self_trashed : c.handler ∈ c.trashed
  trashed_pending : ∀ h ∈ c.trashed, (pendPushed p c h).isSome
  trashed_nodup : c.trashed.Nodup

/-- **the induction step**: a successful leg re-establishes the invariant (for the ghost dictionary after the leg and the
committed time as last returned time), satisfies `LegOK`, and its trash list is the activator's for the committed handler's
own tagger, for which the committed handler was running -/
theorem leg_inv {cfg : Cfg κ} {I : SchedI κ} {vis : κ → Bool} {R : I.σ → Pend κ → κ → Prop} (L : Laws cfg I vis R)
    {M : MWire} (hs : Static M) {st st' : MedState I.σ} {p : Pend κ} {l : κ} {o : Oracle κ} {c : Committed κ}
    (inv : MInv M R st p l) (e : leg M I st o = .ok (st', c)) :
    MInv M R st' (pendAfter p c) c.time ∧ LegOK cfg vis p l c ∧
    c.pushed = c.created.map (fun q => (q.1, o.cand q.1)) ∧ st'.preceding = some c.handler ∧
    c.stop = M.endOfRun c.handler ∧
    ∃ E, owner M.w c.handler = some E ∧ c.handler ∈ (getT (midAct M st o) E).running ∧
      c.trashed = (trash M.w (midAct M st o) E).2 ∧ st'.act.ts = (trash M.w (midAct M st o) E).1 := by
  unfold leg at e
  simp only at e
  split at e
  · cases e
  · cases e
  · cases e
  · next created hcr =>
    have hrun : getToRun M.w M.S st.act st.preceding o.yields =
        ((getToRun M.w M.S st.act st.preceding o.yields).1, .ok created) := by rw [← hcr]
    obtain ⟨pinv1, cnd, cfresh, crun⟩ := getToRun_ok hs inv.pool hrun
    split at e
    · cases e
    · next s1 hpush =>
      have hfresh : ∀ h ∈ created.map Prod.fst, p h = none := by
        intro h hh
        cases hp : p h with
        | none => rfl
        | some t =>
          obtain ⟨T, hT⟩ := (inv.mirror h).mp (by simp [hp])
          exact absurd hT (cfresh h hh T)
      have R1 := pushLoop_rel L M o created st.sched s1 p l inv.rel cnd hfresh hpush
      have hkeys : (created.map fun q => (q.1, o.cand q.1)).map Prod.fst = created.map Prod.fst := by
        rw [List.map_map]; rfl
      have G := L.get R1
      unfold GetSpec at G
      split at e
      · cases e
      · cases e
      · next h t hget =>
        rw [hget] at G
        simp only at G
        obtain ⟨gp, gv, gmin, gguard, R2⟩ := G
        split at e
        · cases e
        · cases e
        · next trashed htr =>
          have htrash : getTrashable M.w (getToRun M.w M.S st.act st.preceding o.yields).1 h =
              ((getTrashable M.w (getToRun M.w M.S st.act st.preceding o.yields).1 h).1, .ok trashed) := by rw [← htr]
          obtain ⟨E, hE, hts, htl, hrunE, hself, tnd, pinv2, tpend, trun⟩ := getTrashable_ok hs pinv1 htrash
          split at e
          · cases e
          · next s3 htall =>
            simp only [Except.ok.injEq, Prod.mk.injEq] at e
            obtain ⟨rfl, rfl⟩ := e
            have R3 := trashAll_rel L trashed _ s3 _ _ R2 htall
            -- the mirror after the pushes
            have mirror1 : ∀ x, (pushAll p (created.map fun q => (q.1, o.cand q.1)) x).isSome ↔
                ∃ T, x ∈ (getT (getToRun M.w M.S st.act st.preceding o.yields).1.ts T).running := by
              intro x
              rw [pushAll_isSome, hkeys, crun x, inv.mirror x]
            refine ⟨⟨pinv2, R3, ?_⟩, ⟨hkeys, by rw [hkeys]; exact cnd, by rw [hkeys]; exact hfresh, gp, gv, gmin, gguard, hself, ?_, tnd⟩,
              rfl, rfl, rfl, E, hE, hrunE, htl, hts⟩
            · intro x
              show (dropAll (pushAll p _) trashed x).isSome ↔ _
              rw [dropAll_eq, trun x, ← mirror1 x]
              by_cases hx : x ∈ trashed
              · simp [hx]
              · simp [hx]
            · intro x hx
              exact (mirror1 x).mpr (tpend x hx)

/-- the invariant holds initially -/
theorem minv_init {cfg : Cfg κ} {I : SchedI κ} {vis : κ → Bool} {R : I.σ → Pend κ → κ → Prop} (L : Laws cfg I vis R)
    (M : MWire) : MInv M R (MedState.init I M.w) (fun _ => none) cfg.bot := by
  refine ⟨poolInv_init M.w, L.init, fun h => ?_⟩
  simp only [Option.isSome_none, Bool.false_eq_true, false_iff, not_exists]
  intro T
  show h ∉ (getT (initAct M.w) T).running
  rw [getT_initAct]
  split <;> simp [TState.empty]

end JF.Med
