import JF.Props.C01
import Mathlib.Algebra.BigOperators.Fin
/-!
# Pointwise algebra behind the generator statement of C01 (`JF/Props/C01Generator.lean`)

Everything here is about ONE configuration: a factor lists the derivatives `q k` of its energy for the units
`k : Fin n` (C03), C05's lifting schemes act on the table `tableOf q = [(q 0, 0), …, (q (n-1), n-1)]`.

* `prob_row_sum`: for every scheme of C05, the selection probabilities `C05.prob sch tbl a ·` of a valid active unit
  sum to one over the units of the negative list (not stated in C05; needed because the generator's jump part is
  `Σ_j P k j (f j − f k)`);
* `negIdx`, `negOf_getElem_negIdx`, `sum_negIdx`: the position of a unit of non-positive derivative in C05's negative list;
* `liftP sch q k j`: the probability that scheme `sch` hands the motion from the active unit `k` to the unit `j`, as a
  function of unit numbers (`0` for a unit of positive derivative: C05 `choose_negative_of_nodup`), with
  `liftP_eq_prob` (it IS `C05.prob` at the unit's index of the negative list), `liftP_row_sum`, `liftP_inflow`;
* `unitFactor`: the `C01.Factor` "factor with table `q`, seen from unit `j`", its `WF`, `deriv`, `netInflow`;
* `unit_balance` (from C01's `factor_balance`), `unit_balance_uniform` (the same from C01's `global_balance_identity`);
* `jump_balance`: `Σ_k Σ_M β max 0 (q M k) Σ_j P_M k j (φ j − φ k) = −β Σ_k φ k Σ_M q M k` for every `φ`.
-/
namespace JF.C01Generator
open JF JF.Lifting JF.C05 JF.C01

set_option linter.unusedSectionVars false
variable {K : Type} [Field K] [LinearOrder K] [IsStrictOrderedRing K] {ι : Type}

/-! ### the selection probabilities of one active unit sum to one -/

/-- the overlap of `[p, p+q]` with a window `[c, d]` is the increment over the window of the clamp into `[p, p+q]` -/
theorem overlap_window (p q c d : K) (hq : 0 ≤ q) (hcd : c ≤ d) :
    overlap p q c d = clamp p (p + q) d - clamp p (p + q) c := by
  simp only [overlap, clamp, max_def, min_def]
  split_ifs <;> linarith

theorem N_zero (tbl : List (K × ι)) : N tbl 0 = 0 := cumB_zero _
theorem N_length (tbl : List (K × ι)) : N tbl (negOf tbl).length = S tbl := cumB_length _
theorem N_mono (tbl : List (K × ι)) (k : Nat) : N tbl k ≤ N tbl (k + 1) :=
  cumB_mono (Lifting.negOf_nonneg tbl) (Nat.le_succ k)

theorem rate_eq_getElem (tbl : List (K × ι)) {a : Nat} (ha : a < tbl.length) : rate tbl a = (tbl[a]).1 := by
  simp [rate, List.getD_eq_getElem?_getD, ha]

theorem S_eq_posSum {tbl : List (K × ι)} (hz : total tbl = 0) : S tbl = posSum tbl := by
  have := total_eq_posSum_sub tbl
  unfold S; linarith

theorem P_add_rate_le_S {tbl : List (K × ι)} {a : Nat} (V : Valid tbl a) : P tbl a + rate tbl a ≤ S tbl := by
  rw [S_eq_posSum V.sum_zero, rate_eq_getElem tbl V.lt]
  exact posSum_take_add_le tbl V.lt (by rw [← rate_eq_getElem tbl V.lt]; exact V.pos)

/-- **The lifting probabilities of a valid active unit sum to one** (all three schemes of C05). -/
theorem prob_row_sum (sch : Scheme) {tbl : List (K × ι)} {a : Nat} (V : Valid tbl a) :
    ∑ k ∈ Finset.range (negOf tbl).length, prob sch tbl a k = 1 := by
  have hq := V.pos
  have hP : 0 ≤ P tbl a := posSum_nonneg _
  have hPS := P_add_rate_le_S V
  have hclS : clamp (P tbl a) (P tbl a + rate tbl a) (S tbl) = P tbl a + rate tbl a := by
    simp only [clamp, max_def, min_def]; split_ifs <;> linarith
  have hcl0 : clamp (P tbl a) (P tbl a + rate tbl a) 0 = P tbl a := by
    simp only [clamp, max_def, min_def]; split_ifs <;> linarith
  cases sch
  · -- inside
    have h1 : ∀ k, rate tbl a * prob .inside tbl a k =
        clamp (P tbl a) (P tbl a + rate tbl a) (N tbl (k + 1)) - clamp (P tbl a) (P tbl a + rate tbl a) (N tbl k) := by
      intro k
      rw [← overlap_window _ _ _ _ hq.le (N_mono tbl k)]
      simp only [prob, lo, hi, window, overlap]
      rw [← sub_div, mul_max_of_nonneg _ _ hq.le, mul_zero, mul_div_cancel₀ _ hq.ne']
      congr 1; ring
    apply mul_left_cancel₀ hq.ne'
    rw [Finset.mul_sum, Finset.sum_congr rfl (fun k _ => h1 k),
      Finset.sum_range_sub (fun k => clamp (P tbl a) (P tbl a + rate tbl a) (N tbl k)),
      N_length, N_zero, hclS, hcl0]
    ring
  · -- outside
    have h1 : ∀ k, rate tbl a * prob .outside tbl a k =
        clamp (P tbl a) (P tbl a + rate tbl a) (S tbl - N tbl k) -
          clamp (P tbl a) (P tbl a + rate tbl a) (S tbl - N tbl (k + 1)) := by
      intro k
      rw [← overlap_window _ _ _ _ hq.le (by linarith [N_mono tbl k])]
      simp only [prob, lo, hi, window, overlap]
      rw [← sub_div, mul_max_of_nonneg _ _ hq.le, mul_zero, mul_div_cancel₀ _ hq.ne']
      congr 1; ring
    apply mul_left_cancel₀ hq.ne'
    rw [Finset.mul_sum, Finset.sum_congr rfl (fun k _ => h1 k),
      Finset.sum_range_sub' (fun k => clamp (P tbl a) (P tbl a + rate tbl a) (S tbl - N tbl k)),
      N_length, N_zero, sub_zero, sub_self, hclS, hcl0]
    ring
  · -- ratio
    have hS : 0 < S tbl := by linarith
    have h1 : ∀ k, prob .ratio tbl a k = N tbl (k + 1) / S tbl - N tbl k / S tbl := by
      intro k
      simp only [prob, lo, hi]
      rw [max_eq_right]
      rw [← sub_div]
      exact div_nonneg (by linarith [N_mono tbl k]) hS.le
    rw [Finset.sum_congr rfl (fun k _ => h1 k), Finset.sum_range_sub (fun k => N tbl k / S tbl),
      N_length, N_zero]
    field_simp
    ring

/-! ### where a unit of non-positive derivative sits in C05's negative list -/

theorem negOf_append (l₁ l₂ : List (K × ι)) : negOf (l₁ ++ l₂) = negOf l₁ ++ negOf l₂ := by
  induction l₁ with
  | nil => simp [negOf]
  | cons x t ih =>
    obtain ⟨r, i⟩ := x
    simp only [List.cons_append, negOf, ih]
    split <;> simp

/-- index in `negOf tbl` of the table's unit number `i` (meaningful when its derivative is not positive): the number of
non-positive entries inserted before it -/
def negIdx (tbl : List (K × ι)) (i : Nat) : Nat := (negOf (tbl.take i)).length

/-- unit number `i` of the table, if its derivative `r` is not positive, is entry `negIdx tbl i` of the negative list,
stored as `(−r, identifier)` -/
theorem negOf_getElem_negIdx {tbl : List (K × ι)} {i : Nat} (hi : i < tbl.length) (hneg : ¬ 0 < (tbl[i]).1) :
    ∃ h : negIdx tbl i < (negOf tbl).length, (negOf tbl)[negIdx tbl i] = (-(tbl[i]).1, (tbl[i]).2) := by
  have hsplit : tbl = tbl.take i ++ tbl[i] :: tbl.drop (i + 1) := by
    rw [← List.drop_eq_getElem_cons hi, List.take_append_drop]
  have hneg' : negOf tbl = negOf (tbl.take i) ++ (-(tbl[i]).1, (tbl[i]).2) :: negOf (tbl.drop (i + 1)) := by
    conv_lhs => rw [hsplit]
    rw [negOf_append]
    congr 1
    generalize tbl[i] = e at hneg
    obtain ⟨r, id⟩ := e
    simp only [negOf]
    simp only [] at hneg
    simp [hneg]
  have hlt : negIdx tbl i < (negOf tbl).length := by
    rw [hneg']; simp [negIdx]
  refine ⟨hlt, ?_⟩
  simp only [hneg', negIdx]
  rw [List.getElem_append_right (le_refl _)]
  simp

theorem nrate_negIdx {tbl : List (K × ι)} {i : Nat} (hi : i < tbl.length) (hneg : ¬ 0 < (tbl[i]).1) :
    nrate tbl (negIdx tbl i) = -(tbl[i]).1 := by
  obtain ⟨h, he⟩ := negOf_getElem_negIdx hi hneg
  simp [nrate, List.getD_eq_getElem?_getD, h, he]

theorem rate_cons_succ (e : K × ι) (t : List (K × ι)) (i : Nat) : rate (e :: t) (i + 1) = rate t i := by
  simp [rate]

theorem rate_cons_zero (e : K × ι) (t : List (K × ι)) : rate (e :: t) 0 = e.1 := by
  simp [rate]

/-- **Re-indexing**: a sum over the units of the negative list is the sum over the table's units of non-positive
derivative, each at its `negIdx` -/
theorem sum_negIdx (tbl : List (K × ι)) (g : Nat → K) :
    ∑ i ∈ Finset.range tbl.length, (if 0 < rate tbl i then 0 else g (negIdx tbl i)) =
      ∑ k ∈ Finset.range (negOf tbl).length, g k := by
  induction tbl generalizing g with
  | nil => simp [negOf]
  | cons x t ih =>
    obtain ⟨r, id⟩ := x
    rw [List.length_cons, Finset.sum_range_succ']
    simp only [rate_cons_succ, rate_cons_zero]
    by_cases h : 0 < r
    · have e1 : ∀ i, negIdx ((r, id) :: t) (i + 1) = negIdx t i := by
        intro i; simp [negIdx, negOf, h]
      have e2 : negOf ((r, id) :: t) = negOf t := by simp [negOf, h]
      simp only [e1, e2, h, if_true, add_zero]
      exact ih g
    · have e1 : ∀ i, negIdx ((r, id) :: t) (i + 1) = negIdx t i + 1 := by
        intro i; simp [negIdx, negOf, h]
      have e0 : negIdx ((r, id) :: t) 0 = 0 := by simp [negIdx, negOf]
      have e2 : negOf ((r, id) :: t) = (-r, id) :: negOf t := by simp [negOf, h]
      simp only [e1, e0, e2, h, if_false, List.length_cons]
      rw [Finset.sum_range_succ' g, ih (fun k => g (k + 1))]

/-! ### the table of a factor whose units are numbered `Fin n` -/

variable {n : Nat}

/-- the factor table at a configuration: `(derivative of the factor energy when unit k moves, k)` in unit order — what
the event handlers hand to `Lifting.insert` (`jellyfysh/lifting/lifting.py`) -/
def tableOf (q : Fin n → K) : List (K × Fin n) := (List.finRange n).map fun k => (q k, k)

@[simp] theorem tableOf_length (q : Fin n → K) : (tableOf q).length = n := by simp [tableOf]

theorem tableOf_getElem (q : Fin n → K) (k : Fin n) :
    (tableOf q)[(k : Nat)]'(by simp) = (q k, k) := by
  simp [tableOf]

@[simp] theorem rate_tableOf (q : Fin n → K) (k : Fin n) : rate (tableOf q) k = q k := by
  rw [rate_eq_getElem _ (by simp), tableOf_getElem]

theorem total_tableOf (q : Fin n → K) : total (tableOf q) = ∑ k, q k := by
  simp [total, tableOf, Fin.sum_univ_def, Function.comp_def]

theorem tableOf_ids_nodup (q : Fin n → K) : ((tableOf q).map Prod.snd).Nodup := by
  have : (tableOf q).map Prod.snd = List.finRange n := by
    simp [tableOf, Function.comp_def]
  rw [this]; exact List.nodup_finRange n

/-- index of unit `j` in the negative list of the factor's table -/
def negIdxOf (q : Fin n → K) (j : Fin n) : Nat := negIdx (tableOf q) j

/-- a unit `j` of non-positive derivative is entry `negIdxOf q j` of C05's negative list, carrying identifier `j` and
magnitude `−q j` -/
theorem negOf_tableOf_getElem (q : Fin n → K) {j : Fin n} (hj : ¬ 0 < q j) :
    ∃ h : negIdxOf q j < (negOf (tableOf q)).length, (negOf (tableOf q))[negIdxOf q j] = (-q j, j) := by
  have := negOf_getElem_negIdx (tbl := tableOf q) (i := j) (by simp) (by rw [tableOf_getElem]; exact hj)
  simpa only [tableOf_getElem, negIdxOf] using this

theorem nrate_tableOf (q : Fin n → K) {j : Fin n} (hj : ¬ 0 < q j) : nrate (tableOf q) (negIdxOf q j) = -q j := by
  have := nrate_negIdx (tbl := tableOf q) (i := j) (by simp) (by rw [tableOf_getElem]; exact hj)
  simpa only [tableOf_getElem, negIdxOf] using this

theorem valid_tableOf (q : Fin n → K) (hz : ∑ k, q k = 0) {k : Fin n} (hk : 0 < q k) : Valid (tableOf q) k :=
  ⟨by rw [total_tableOf, hz], by rw [rate_tableOf]; exact hk⟩

/-! ### the lifting probability as a function of unit numbers -/

/-- probability that scheme `sch`, with unit `k` active in the factor whose derivatives are `q`, hands the motion to unit
`j`: `C05.prob` at `j`'s index of the negative list; `0` for a unit of positive derivative (never selected:
`C05.choose_negative_of_nodup`) -/
def liftP (sch : Scheme) (q : Fin n → K) (k j : Fin n) : K :=
  if 0 < q j then 0 else prob sch (tableOf q) k (negIdxOf q j)

theorem liftP_eq_prob (sch : Scheme) (q : Fin n → K) (k : Fin n) {j : Fin n} (hj : ¬ 0 < q j) :
    liftP sch q k j = prob sch (tableOf q) k (negIdxOf q j) := by simp [liftP, hj]

theorem liftP_pos (sch : Scheme) (q : Fin n → K) (k : Fin n) {j : Fin n} (hj : 0 < q j) : liftP sch q k j = 0 := by
  simp [liftP, hj]

theorem liftP_nonneg (sch : Scheme) (q : Fin n → K) (k j : Fin n) : 0 ≤ liftP sch q k j := by
  unfold liftP; split
  · exact le_rfl
  · exact le_max_left _ _

/-- **the lifting probabilities of an active unit (positive derivative) sum to one** -/
theorem liftP_row_sum (sch : Scheme) (q : Fin n → K) (hz : ∑ k, q k = 0) {k : Fin n} (hk : 0 < q k) :
    ∑ j, liftP sch q k j = 1 := by
  rw [← prob_row_sum sch (valid_tableOf q hz hk), ← sum_negIdx (tableOf q) (fun i => prob sch (tableOf q) k i),
    tableOf_length, ← Fin.sum_univ_eq_sum_range]
  apply Finset.sum_congr rfl
  intro j _
  simp [liftP, negIdxOf]

theorem max_mul_liftP_row (sch : Scheme) (q : Fin n → K) (hz : ∑ k, q k = 0) (k : Fin n) :
    max 0 (q k) * ∑ j, liftP sch q k j = max 0 (q k) := by
  by_cases hk : 0 < q k
  · rw [liftP_row_sum sch q hz hk, mul_one]
  · rw [max_eq_left (not_lt.mp hk), zero_mul]

/-- flow into unit `j` in terms of unit numbers = C01's `inflow` at the unit's index of the negative list -/
theorem liftP_inflow (β : K) (sch : Scheme) (q : Fin n → K) {j : Fin n} (hj : ¬ 0 < q j) :
    ∑ k, β * max 0 (q k) * liftP sch q k j = inflow β sch (tableOf q) (negIdxOf q j) := by
  unfold inflow
  rw [tableOf_length, ← Fin.sum_univ_eq_sum_range (fun a => evRate β (tableOf q) a * prob sch (tableOf q) a (negIdxOf q j))]
  apply Finset.sum_congr rfl
  intro k _
  simp [evRate, liftP_eq_prob sch q k hj]

/-! ### the factor seen from one unit, as a `C01.Factor` -/

/-- the factor with derivatives `q`, seen from unit `j` -/
def unitFactor (q : Fin n → K) (j : Fin n) : Factor K (Fin n) :=
  ⟨tableOf q, if 0 < q j then .pos j else .neg (negIdxOf q j)⟩

theorem unitFactor_WF (q : Fin n → K) (hz : ∑ k, q k = 0) (j : Fin n) : (unitFactor q j).WF := by
  refine ⟨by show total (tableOf q) = 0; rw [total_tableOf, hz], ?_⟩
  unfold unitFactor
  by_cases hj : 0 < q j
  · simp only [hj, if_true, rate_tableOf]
  · simp only [hj, if_false]
    exact (negOf_tableOf_getElem q hj).1

theorem unitFactor_deriv (q : Fin n → K) (j : Fin n) : (unitFactor q j).deriv = q j := by
  unfold unitFactor Factor.deriv
  by_cases hj : 0 < q j
  · simp only [hj, if_true, rate_tableOf]
  · simp only [hj, if_false, nrate_tableOf q hj, neg_neg]

/-- C01's net inflow into "unit `j` moves", written with unit numbers: what arrives through the scheme minus the unit's
own event rate -/
theorem unitFactor_netInflow (β : K) (sch : Scheme) (q : Fin n → K) (j : Fin n) :
    (unitFactor q j).netInflow β sch = ∑ k, β * max 0 (q k) * liftP sch q k j - β * max 0 (q j) := by
  unfold unitFactor Factor.netInflow
  by_cases hj : 0 < q j
  · simp only [hj, if_true, evRate, rate_tableOf]
    simp [liftP_pos sch q _ hj]
  · simp only [hj, if_false, nrate_tableOf q hj, neg_neg, liftP_inflow β sch q hj]

variable {F : Type} [Fintype F]

/-- **C01's balance per unit, over unit numbers, for any mix of schemes**: summed over the factors, what arrives at
unit `j` minus what leaves it is `−β Σ_M q M j` (from `C01.factor_balance`) -/
theorem unit_balance (β : K) (sch : F → Scheme) (q : F → Fin n → K) (hz : ∀ M, ∑ k, q M k = 0) (j : Fin n) :
    ∑ M, (∑ k, β * max 0 (q M k) * liftP (sch M) (q M) k j - β * max 0 (q M j)) = -β * ∑ M, q M j := by
  rw [Finset.mul_sum]
  apply Finset.sum_congr rfl
  intro M _
  rw [← unitFactor_netInflow, factor_balance β (sch M) _ (unitFactor_WF (q M) (hz M) j), unitFactor_deriv]

/-- the same for one scheme, literally as an instance of `C01.global_balance_identity` over the list of all factors -/
theorem unit_balance_uniform (β : K) (sch : Scheme) (q : F → Fin n → K) (hz : ∀ M, ∑ k, q M k = 0) (j : Fin n) :
    ∑ M, (∑ k, β * max 0 (q M k) * liftP sch (q M) k j - β * max 0 (q M j)) = -β * ∑ M, q M j := by
  have h := global_balance_identity β sch ((Finset.univ : Finset F).toList.map fun M => unitFactor (q M) j)
    (by
      intro f hf
      obtain ⟨M, _, rfl⟩ := List.mem_map.mp hf
      exact unitFactor_WF (q M) (hz M) j)
  rw [List.map_map, List.map_map, Finset.sum_map_toList, Finset.sum_map_toList] at h
  simpa only [Function.comp_def, unitFactor_netInflow, unitFactor_deriv] using h

/-- **Pointwise core of stationarity, one factor**: for every function `φ` of the lifting variable -/
theorem jump_balance_one (β : K) (sch : Scheme) (q : Fin n → K) (hz : ∑ k, q k = 0) (φ : Fin n → K) :
    ∑ k, β * max 0 (q k) * ∑ j, liftP sch q k j * (φ j - φ k) = -β * ∑ j, φ j * q j := by
  have hb : ∀ j, ∑ k, β * max 0 (q k) * liftP sch q k j - β * max 0 (q j) = -β * q j := by
    intro j
    rw [← unitFactor_netInflow, factor_balance β sch _ (unitFactor_WF q hz j), unitFactor_deriv]
  have h1 : ∀ k, β * max 0 (q k) * ∑ j, liftP sch q k j * (φ j - φ k) =
      ∑ j, β * max 0 (q k) * liftP sch q k j * φ j - β * max 0 (q k) * φ k := by
    intro k
    have hrow := max_mul_liftP_row sch q hz k
    have e1 : ∑ j, liftP sch q k j * (φ j - φ k) = ∑ j, liftP sch q k j * φ j - φ k * ∑ j, liftP sch q k j := by
      rw [Finset.mul_sum, ← Finset.sum_sub_distrib]
      apply Finset.sum_congr rfl; intro j _; ring
    have e2 : ∑ j, β * max 0 (q k) * liftP sch q k j * φ j = β * max 0 (q k) * ∑ j, liftP sch q k j * φ j := by
      rw [Finset.mul_sum]; apply Finset.sum_congr rfl; intro j _; ring
    rw [e1, e2]
    linear_combination (-β * φ k) * hrow
  rw [Finset.sum_congr rfl (fun k _ => h1 k), Finset.sum_sub_distrib, Finset.sum_comm, ← Finset.sum_sub_distrib,
    Finset.mul_sum]
  apply Finset.sum_congr rfl
  intro j _
  have : ∑ k, β * max 0 (q k) * liftP sch q k j * φ j = φ j * ∑ k, β * max 0 (q k) * liftP sch q k j := by
    rw [Finset.mul_sum]; apply Finset.sum_congr rfl; intro k _; ring
  rw [this]
  linear_combination φ j * hb j

/-- **Pointwise core of stationarity**: summed over the lifting variable, the jump part of the generator applied to any
`φ` equals minus the transport term `β Σ_k φ k · Σ_M q M k`. -/
theorem jump_balance (β : K) (sch : F → Scheme) (q : F → Fin n → K) (hz : ∀ M, ∑ k, q M k = 0) (φ : Fin n → K) :
    ∑ k, ∑ M, β * max 0 (q M k) * ∑ j, liftP (sch M) (q M) k j * (φ j - φ k) = -β * ∑ k, φ k * ∑ M, q M k := by
  rw [Finset.sum_comm, Finset.sum_congr rfl (fun M _ => jump_balance_one β (sch M) (q M) (hz M) φ),
    ← Finset.mul_sum, Finset.sum_comm]
  congr 1
  apply Finset.sum_congr rfl
  intro k _
  rw [Finset.mul_sum]

/-- **Two units** (a pair factor): whatever the scheme, an active unit of positive derivative hands the motion to the
other unit with probability one, so the jump part is `max 0 (q k) (φ other − φ k)` -/
theorem pair_jump (sch : Scheme) (q : Fin 2 → K) (hz : ∑ k, q k = 0) (φ : Fin 2 → K) (k : Fin 2) :
    max 0 (q k) * ∑ j, liftP sch q k j * (φ j - φ k) = max 0 (q k) * (φ k.rev - φ k) := by
  by_cases hk : 0 < q k
  · have hrow := liftP_row_sum sch q hz hk
    have hkk := liftP_pos sch q k hk
    congr 1
    rw [Fin.sum_univ_two] at hrow ⊢
    have h01 : k = 0 ∨ k = 1 := by fin_cases k <;> simp
    rcases h01 with rfl | rfl
    · have e : liftP sch q 0 1 = 1 := by rw [hkk] at hrow; linarith
      have r : (0 : Fin 2).rev = 1 := by decide
      rw [hkk, e, r]; ring
    · have e : liftP sch q 1 0 = 1 := by rw [hkk] at hrow; linarith
      have r : (1 : Fin 2).rev = 0 := by decide
      rw [hkk, e, r]; ring
  · rw [max_eq_left (not_lt.mp hk), zero_mul, zero_mul]

/-! ### non-vacuity -/

/-- `prob_row_sum` on C05's example table (zero entries, both signs interleaved), second positive unit active -/
example : ∑ k ∈ Finset.range (negOf exTbl).length, prob .outside exTbl 3 k = 1 :=
  prob_row_sum .outside ⟨by norm_num [exTbl, total], by norm_num [exTbl, rate]⟩

/-- a three-unit factor and a pair factor acting on three units: both tables sum to zero and have non-zero rates, so
`liftP_row_sum`, `unit_balance`, `unit_balance_uniform`, `jump_balance_one` and `jump_balance` apply -/
def exQ : Bool → Fin 3 → ℚ := fun M => if M then ![2, -1/2, -3/2] else ![-1, 0, 1]

/-- a different scheme per factor -/
def exSch : Bool → Scheme := fun M => if M then .inside else .ratio

theorem exQ_sum : ∀ M, ∑ k, exQ M k = 0 := by
  intro M; cases M
  · simp [exQ, Fin.sum_univ_three]
  · simp [exQ, Fin.sum_univ_three]; norm_num

theorem exQ_rates_nonzero : max 0 (exQ true 0) = 2 ∧ max 0 (exQ false 2) = 1 := by
  constructor <;> simp [exQ]

example (β : ℚ) (φ : Fin 3 → ℚ) :
    ∑ k, ∑ M, β * max 0 (exQ M k) * ∑ j, liftP (exSch M) (exQ M) k j * (φ j - φ k) =
      -β * ∑ k, φ k * ∑ M, exQ M k :=
  jump_balance β exSch exQ exQ_sum φ

example (β : ℚ) (j : Fin 3) :
    ∑ M, (∑ k, β * max 0 (exQ M k) * liftP (exSch M) (exQ M) k j - β * max 0 (exQ M j)) = -β * ∑ M, exQ M j :=
  unit_balance β exSch exQ exQ_sum j

example : ∑ j, liftP .outside (exQ true) 0 j = 1 :=
  liftP_row_sum .outside (exQ true) (exQ_sum true) (by simp [exQ])

end JF.C01Generator
