import JF.Lemmas.WalkerGeom
/-!
Helper lemmas for C18: unfolding of the model of `CellVetoEventHandler.initialize/send_event_time`
in the exact reading.
-/
namespace JF.Walker

theorem timeAdd_val (t : Time ℚ) (d : ℚ) :
    (Time.add Ops.rat t d).q + (Time.add Ops.rat t d).r = t.q + t.r + d := by
  simp only [Time.add, rat_isInf, pydivmod1_rat]; simp only [Bool.not_false, if_true]; ring

/-- what a successful `sendCore` returns -/
theorem sendCore_spec {h : Handler ℚ} {dir active k : Nat} {speed cf' x e : ℚ} {walker : Table ℚ}
    {sel : ℚ × ℚ → ℚ} {ts : Time ℚ} {p : Proposal ℚ}
    (hs : sendCore Ops.rat h dir speed active walker sel cf' ts k x e = .ok p) :
    ∃ j, sampleCell walker k x = .ok j ∧
      p.boundingRate = sel ((h.bounds[j]!)[dir]!) * cf' ∧ 0 < p.boundingRate ∧
      translate Ops.rat h.grid active h.domain[j]! = .ok p.target ∧
      walker.total * cf' * speed ≠ 0 ∧
      p.time.q + p.time.r = ts.q + ts.r + e / (walker.total * cf' * speed) := by
  unfold sendCore at hs
  simp only [rat_ofInt, Int.cast_zero] at hs
  split at hs
  · exact absurd hs (by simp)
  · rename_i j hj
    split at hs
    · exact absurd hs (by simp)
    · rename_i hrate
      split at hs
      · exact absurd hs (by simp)
      · rename_i target htr
        split at hs
        · exact absurd hs (by simp)
        · rename_i hden
          simp only [Except.ok.injEq] at hs
          subst hs
          refine ⟨j, hj, rfl, ?_, htr, ?_, timeAdd_val _ _⟩
          · simpa using hrate
          · simpa using hden

/-- what a successful `send_event_time` returns -/
theorem send_spec {h : Handler ℚ} {vel pos : List ℚ} {cf : ℚ} {ts : Time ℚ} {k : Nat} {x e : ℚ} {p : Proposal ℚ}
    (hs : sendEventTime Ops.rat h vel cf pos ts k x e = .ok p) :
    ∃ dir active walker j,
      (List.range vel.length).filter (fun d => vel[d]! != 0) = [dir] ∧ 0 < vel[dir]! ∧
      posToCell Ops.rat h.grid pos = .ok active ∧
      (if 0 < cf then h.upper[dir]? else h.lower[dir]?) = some walker ∧
      sampleCell walker k x = .ok j ∧
      p.boundingRate = (if 0 < cf then ((h.bounds[j]!)[dir]!).1 else ((h.bounds[j]!)[dir]!).2) * |cf| ∧
      0 < p.boundingRate ∧
      translate Ops.rat h.grid active h.domain[j]! = .ok p.target ∧
      walker.total * |cf| * vel[dir]! ≠ 0 ∧
      p.time.q + p.time.r = ts.q + ts.r + e / (walker.total * |cf| * vel[dir]!) := by
  unfold sendEventTime at hs
  simp only [rat_ofInt, Int.cast_zero] at hs
  split at hs
  · rename_i dir hdir
    split at hs
    · exact absurd hs (by simp)
    · rename_i hspeed
      split at hs
      · exact absurd hs (by simp)
      · rename_i active hact
        have hsp : 0 < vel[dir]! := by simpa using hspeed
        by_cases hc : 0 < cf
        · simp only [hc, if_true] at hs ⊢
          split at hs
          · exact absurd hs (by simp)
          · rename_i walker hw
            obtain ⟨j, h1, h2, h3, h4, h5, h6⟩ := sendCore_spec hs
            rw [abs_of_pos hc]
            exact ⟨dir, active, walker, j, hdir, hsp, hact, hw, h1, h2, h3, h4, h5, h6⟩
        · simp only [hc, if_false] at hs ⊢
          split at hs
          · exact absurd hs (by simp)
          · rename_i walker hw
            obtain ⟨j, h1, h2, h3, h4, h5, h6⟩ := sendCore_spec hs
            have : cf * ((-1 : ℤ) : ℚ) = |cf| := by rw [abs_of_nonpos (not_lt.mp hc)]; push_cast; ring
            rw [this] at h2 h5 h6
            exact ⟨dir, active, walker, j, hdir, hsp, hact, hw, h1, h2, h3, h4, h5, h6⟩
  · exact absurd hs (by simp)

/-- `[Walker(item_list) for item_list in ...]` succeeded: every walker is the constructor's result -/
theorem buildAll_spec (rs : List (List ℚ)) (ts : List (Table ℚ)) (hb : buildAll Ops.rat rs = .ok ts) :
    ts.length = rs.length ∧ ∀ (d : Nat) (r : List ℚ), rs[d]? = some r → ∃ t, ts[d]? = some t ∧ build Ops.rat r = .ok t := by
  induction rs generalizing ts with
  | nil => simp only [buildAll, Except.ok.injEq] at hb; subst hb; simp
  | cons r rs ih =>
    simp only [buildAll] at hb
    split at hb
    · exact absurd hb (by simp)
    · rename_i t ht
      split at hb
      · exact absurd hb (by simp)
      · rename_i ts' hts'
        simp only [Except.ok.injEq] at hb
        subst hb
        obtain ⟨il, ih2⟩ := ih ts' hts'
        refine ⟨by simp [il], ?_⟩
        intro d r' hd
        cases d with
        | zero => simp only [List.getElem?_cons_zero, Option.some.injEq] at hd; subst hd; exact ⟨t, by simp, ht⟩
        | succ d => simp only [List.getElem?_cons_succ] at hd ⊢; exact ih2 d r' hd

/-- the rates of the walker for direction `d`: `max(bound, 0.0)` of the stored upper (`sel = (·.1)`) or negated
lower (`sel = (·.2)`) bounds, in domain order -/
def walkerRates (bounds : List (List (ℚ × ℚ))) (sel : ℚ × ℚ → ℚ) (d : Nat) : List ℚ :=
  bounds.map fun row => pymax0 Ops.rat (sel (row[d]!))

/-- what a successful `initialize` stores -/
theorem initHandler_spec (g : Grid ℚ) (est : List (List (ℚ × ℚ))) (h : Handler ℚ)
    (hi : initHandler Ops.rat g est = .ok h) :
    h.grid = g ∧ h.domain = domainOf g.ns g.nl ∧ h.bounds = est.map (fun row => row.map fun ul => (ul.1, -ul.2)) ∧
    ∀ d, d < g.dims.length →
      (∃ t, h.upper[d]? = some t ∧ build Ops.rat (walkerRates h.bounds (·.1) d) = .ok t) ∧
      (∃ t, h.lower[d]? = some t ∧ build Ops.rat (walkerRates h.bounds (·.2) d) = .ok t) := by
  unfold initHandler at hi
  simp only at hi
  split at hi
  · exact absurd hi (by simp)
  · rename_i up hup
    split at hi
    · exact absurd hi (by simp)
    · rename_i lo hlo
      simp only [Except.ok.injEq] at hi
      subst hi
      refine ⟨rfl, rfl, rfl, ?_⟩
      intro d hd
      obtain ⟨-, hu⟩ := buildAll_spec _ _ hup
      obtain ⟨-, hl⟩ := buildAll_spec _ _ hlo
      constructor
      · exact hu d _ (by simp [hd, walkerRates])
      · exact hl d _ (by simp [hd, walkerRates])

theorem pymax0_rat (b : ℚ) : pymax0 Ops.rat b = max b 0 := by
  simp only [pymax0, rat_ofInt, Int.cast_zero]
  split
  · rename_i h; rw [max_eq_right h.le]
  · rename_i h; rw [max_eq_left (not_lt.mp h)]

end JF.Walker
