import JF.Props.C10Closed
import JF.Gen.Pools
import JF.Lemmas.C09PoolsClosedAct
/-!
E42 / C09, last clause, coulomb_atoms world (`JF.CW`, `JF.Sys`) — the pieces of `no_pool_exhausted_closed`:

* `leg_tagErr`: a leg of `JF.Med.leg` ends in `TagActivatorError` only if `get_event_handlers_to_run` raised it;
* `update_cap`: `SingleActiveCellOccupancy.update` never changes `_maximum_number_occupants`;
* `Fits`: how a generated `PoolCfg` describes the environment / state of a run (number of point masses, cell system, occupant
  limit, number of charged point masses) — invariants of `SysStep` (`fits_step`);
* `next_occInv`, `next_inGrid`, `next_movers`: the joint invariant of `JF/Props/SystemInv.lean` read for the state the NEXT leg's
  taggers will yield on (`⟨s.us, occ'⟩`, `occ'` the occupancy after the next `update`), i.e. BEFORE that leg is known to succeed;
* `yield_le_demandBound`: on such a state every tagger of the wiring yields at most `demandBound pc T` in-states.
-/
namespace JF.C09Pools
open JF JF.Act JF.Heap JF.Sched JF.Med JF.CW JF.C14 JF.MediatorLoop JF.Kin JF.Sys JF.SystemInv JF.CellTaggers JF.C10C11 JF.C10Closed

/-! ## a leg raises `TagActivatorError` only out of the activator call -/

theorem pushLoop_err {κ : Type} {M : MWire} {I : SchedI κ} {o : Oracle κ} : ∀ (l : List (HandlerId × IdTuple)) (s : I.σ) (e : Err),
    pushLoop M I o s l = .error e → ∃ h, e = .inStateAssertion h
  | [], s, e, h => by simp [pushLoop] at h
  | (x, ids) :: rest, s, e, h => by
    unfold pushLoop at h
    split at h
    · simp only [Except.error.injEq] at h; exact ⟨x, h.symm⟩
    · exact pushLoop_err rest _ e h

theorem trashAll_err {κ : Type} {I : SchedI κ} : ∀ (l : List HandlerId) (s : I.σ) (e : Err),
    trashAll I s l = .error e → ∃ h, e = .schedTrash h
  | [], s, e, h => by simp [trashAll] at h
  | x :: rest, s, e, h => by
    unfold trashAll at h
    split at h
    · simp only [Except.error.injEq] at h; exact ⟨x, h.symm⟩
    · exact trashAll_err rest _ e h

/-- **`SingleProcessMediator.run` leaves the loop with `TagActivatorError` only if `get_event_handlers_to_run` raised it** -/
theorem leg_tagErr {κ : Type} {M : MWire} {I : SchedI κ} {st : MedState I.σ} {o : Oracle κ}
    (e : leg M I st o = .error .tagActivatorError) :
    (getToRun M.w M.S st.act st.preceding o.yields).2 = .tagActivatorError := by
  unfold leg at e
  simp only at e
  split at e
  · next h => exact h
  · cases e
  · cases e
  · split at e
    · next e' hp =>
      obtain ⟨h, hh⟩ := pushLoop_err _ _ _ hp
      simp only [Except.error.injEq] at e
      rw [e] at hh; cases hh
    · split at e
      · cases e
      · cases e
      · split at e
        · cases e
        · cases e
        · split at e
          · next e' hp =>
            obtain ⟨h, hh⟩ := trashAll_err _ _ _ hp
            simp only [Except.error.injEq] at e
            rw [e] at hh; cases hh
          · cases e

/-- the first call: `TagActivatorError` iff `first` runs out of handlers -/
theorem getToRun_first_tagErr {w : Wires} {S : TaggerIdx} {a : ActSt} {ys : TaggerIdx → List IdTuple}
    (hst : a.started = false) (h : (getToRun w S a none ys).2 = .tagActivatorError) : first w a.ts S ys = none := by
  unfold getToRun at h
  simp only [hst, Bool.not_false, if_true] at h
  split at h
  · next hf => exact hf
  · cases h

/-- a later call: `TagActivatorError` iff `update` runs out of handlers -/
theorem getToRun_started_tagErr {w : Wires} {S : TaggerIdx} {a : ActSt} {hd : HandlerId} {E : TaggerIdx}
    {ys : TaggerIdx → List IdTuple} (hst : a.started = true) (ho : owner w hd = some E)
    (h : (getToRun w S a (some hd) ys).2 = .tagActivatorError) : update w a.ts E ys = none := by
  unfold getToRun at h
  simp only [hst, Bool.not_true, Bool.false_eq_true, if_false, Option.bind_some, ho] at h
  split at h
  · next hf => exact hf
  · cases h

/-! ## the occupant limit is never changed -/

theorem reinsertOld_cap {s s1 : Occ.State} (h : Occ.reinsertOld s = .ok s1) : s1.cap = s.cap := by
  unfold Occ.reinsertOld at h
  split at h
  · cases h; rfl
  · split at h
    · cases h
    · cases h; simp

theorem activate_cap {s1 s' : Occ.State} {new : Occ.UnitIn} (h : Occ.activate s1 new = .ok s') : s'.cap = s1.cap := by
  unfold Occ.activate at h
  split at h
  · simp only at h
    split at h
    · split at h
      · cases h
      · cases h; simp
    · split at h
      · cases h
      · split at h
        · cases h; simp
        · cases h
  · cases h; rfl

/-- `SingleActiveCellOccupancy.update` does not touch `_maximum_number_occupants` -/
theorem update_cap {s s' : Occ.State} {new : Occ.UnitIn} (h : Occ.update s new = .ok s') : s'.cap = s.cap := by
  unfold Occ.update at h
  split at h
  · split at h
    · cases h
    · next s1 h1 => rw [activate_cap h, reinsertOld_cap h1]
  · cases h; rfl

theorem foldl_insert_cap (units : List Occ.UnitIn) : ∀ s : Occ.State,
    (units.foldl (fun s u => if u.relevant then Occ.insert s u.cell u.id else s) s).cap = s.cap := by
  induction units with
  | nil => intro s; rfl
  | cons u us ih =>
    intro s
    rw [List.foldl_cons, ih]
    split <;> simp

/-- `initialize` stores the configured occupant limit -/
theorem init_cap (cap : Int) (units : List Occ.UnitIn) : (Occ.init cap units).cap = cap := by
  unfold Occ.init; rw [foldl_insert_cap]; rfl

theorem occNext_cap {env : Env ℚ} {hasOcc : Bool} {s : Sys} {occ' : Occ.State} (h : occNext env hasOcc s = some occ') :
    occ'.cap = s.occ.cap := by
  unfold occNext at h
  split at h
  · unfold occAfter at h
    split at h
    · split at h
      · split at h
        · next hu => cases h; exact update_cap hu
        · cases h
      · cases h
    · cases h; rfl
  · cases h; rfl

/-! ## a generated `PoolCfg` describes a run -/

/-- **how the generated data of a configuration (`JF/Gen/Pools.lean`) describe the environment and the state of a run**: the
configuration consists of point masses (`nPer = 1`), `nRoots` of them; if the activator has an internal state, its cell system, its
occupant limit and the number of point masses that pass its charge filter are the generated ones.  All of this is fixed by the
initial state and the environment (`fits_step`). -/
structure Fits (pc : PoolCfg) (env : Env ℚ) (s : Sys) : Prop where
  nPer : pc.nPer = 1
  nRoots : s.us.length = pc.nRoots
  occ : hasOccOf pc.w = true → ∃ o, pc.occs[0]? = some o ∧ o.grid = env.grid ∧ o.cap = s.occ.cap ∧
    o.nRel = (relUnits env s.us.length).length

section
variable {env : Env ℚ} {geo : Geo env} {c : Wiring} {S : TaggerIdx} {needs : HandlerId → Bool}

theorem sysStep_length (ho : env.o = Ops.rat) {s s' : Sys} {o : Oracle XTime} {cm : Committed XTime}
    (st : SysStep env geo c S needs s o cm s') : s'.us.length = s.us.length := by
  obtain ⟨t, _, hc⟩ := st.ev
  exact commits_length ho hc

/-- `Fits` is an invariant of the legs -/
theorem fits_step {pc : PoolCfg} (ho : env.o = Ops.rat) {s s' : Sys} {o : Oracle XTime} {cm : Committed XTime}
    (st : SysStep env geo pc.w S needs s o cm s') (h : Fits pc env s) : Fits pc env s' := by
  have hl := sysStep_length ho st
  refine ⟨h.nPer, by rw [hl]; exact h.nRoots, fun hO => ?_⟩
  obtain ⟨o', h1, h2, h3, h4⟩ := h.occ hO
  exact ⟨o', h1, h2, by rw [occNext_cap st.occ1]; exact h3, by rw [hl]; exact h4⟩

/-- … in both directions (it speaks about quantities no leg changes) -/
theorem fits_step_back {pc : PoolCfg} (ho : env.o = Ops.rat) {s s' : Sys} {o : Oracle XTime} {cm : Committed XTime}
    (st : SysStep env geo pc.w S needs s o cm s') (h : Fits pc env s') : Fits pc env s := by
  have hl := sysStep_length ho st
  refine ⟨h.nPer, by rw [← hl]; exact h.nRoots, fun hO => ?_⟩
  obtain ⟨o', h1, h2, h3, h4⟩ := h.occ hO
  exact ⟨o', h1, h2, by rw [← occNext_cap st.occ1]; exact h3, by rw [← hl]; exact h4⟩

/-- … hence of the runs: it holds at the end of a run iff it held at its beginning, whatever the initial state was -/
theorem fits_reach {pc : PoolCfg} (ho : env.o = Ops.rat) {os : List (Oracle XTime)} {cs : List (Committed XTime)} {s : Sys}
    (hr : Reach env geo pc.w S needs os cs s) :
    ∃ s0, Init env pc.w s0 ∧ (Fits pc env s0 → Fits pc env s) := by
  induction hr with
  | init s h => exact ⟨s, h, id⟩
  | step prev _ hstep ih =>
    obtain ⟨s0, h0, hf⟩ := ih
    exact ⟨s0, h0, fun h => fits_step ho hstep (hf h)⟩

/-! ## the joint invariant, read for the state of the NEXT leg -/

/-- at most one point mass moves after every leg (C07's chain invariant, from the joint invariant) -/
theorem next_movers (H : Hyp env c S) {os : List (Oracle XTime)} {cs : List (Committed XTime)} {s : Sys}
    (hr : Reach env geo c S needs os cs s) (nt : TieFree c cs) : (movers s.us).length ≤ 1 := by
  rcases joint_inv H hr nt with ⟨_, hi⟩ | ⟨cs0, cl, E, tl, a, pos, v, ts, _, big⟩
  · rw [movers_rest hi.rest]; simp
  · rw [big.kin.movers]; simp

/-- **C11's full invariant for the state the next leg works on**: the occupancy after the next `update` (which the next call of
`get_event_handlers_to_run` performs before the create loop) with the positions after the last commit — without knowing that the
next leg succeeds (`c11_occinv_closed` speaks about legs that were made) -/
theorem next_occInv (H : Hyp env c S) {os : List (Oracle XTime)} {cs : List (Committed XTime)} {s : Sys}
    (hr : Reach env geo c S needs os cs s) (nta : TieFreeAll c cs) (hO : hasOccOf c = true) {occ' : Occ.State}
    (hocc : occNext env (hasOccOf c) s = some occ') : C11.OccInv (relW env s.us) (cellW env s.us) occ' := by
  have ih0 := c11_occinv_closed H hr nta hO
  unfold occNext at hocc
  rcases joint_inv H hr (tieFree_of_all nta) with ⟨rfl, hi⟩ | ⟨cs0, cl, E, tl, a, pos, v, ts, rfl, big⟩
  · have hst : s.med.act.started = false := by rw [hi.med]; rfl
    rw [hst] at hocc
    simp only [Bool.false_eq_true, if_false, Option.some.injEq] at hocc
    rw [← hocc, ← hi.prev]
    exact ih0
  · rw [big.started, hO] at hocc
    simp only [if_true] at hocc
    obtain ⟨hc, _⟩ := big.phase
    have hkE : kindOfH c cl.handler = (c.tagger E).kind := kindOfH_of_owner big.owner
    refine occ_step H.ho ih0 (by rw [hO] at hc; exact hc) big.kinPrev big.kin big.commit (big.mirror hO)
      (fun hncb => big.stays hO hncb ?_) hocc
    exact tieFreeAll_last nta (by simp) (by rw [hkE]; exact hncb)

/-- the cell of every relevant point mass after the last commit is a cell of the grid -/
theorem next_inGrid (H : Hyp env c S) (hG : CellOfInGrid env) {os : List (Oracle XTime)} {cs : List (Committed XTime)}
    {s : Sys} (hr : Reach env geo c S needs os cs s) (nt : TieFree c cs) :
    InGrid env.grid (relUnits env s.us.length) (cellW env s.us) := by
  intro u hu
  have hr' := (mem_relUnits env s.us u).mp hu
  have hul : u < s.us.length := by
    unfold relW at hr'
    simp only [Bool.and_eq_true, decide_eq_true_eq] at hr'
    exact hr'.1
  unfold cellW
  rw [if_pos hr', List.getElem?_eq_getElem hul]
  exact hG _ (box_us_closed H hr nt _ (List.getElem_mem hul))

end

/-! ## every yield respects `demandBound` -/

/-- **the demand of every tagger of a coulomb_atoms wiring on a state with at most one moving point mass whose occupancy satisfies
C11's invariant is at most `demandBound`** — this is the hypothesis `hy` of `shipped_no_pool_exhausted_partial`, discharged -/
theorem yield_le_demandBound (pc : PoolCfg) (env : Env ℚ) (hsup : Supported pc.w = true) (us : List (PUnit ℚ))
    (occ' : Occ.State) (hnPer : pc.nPer = 1) (hn : us.length = pc.nRoots) (hm : (movers us).length ≤ 1)
    (hcell : hasOccOf pc.w = true → (∃ o, pc.occs[0]? = some o ∧ o.grid = env.grid ∧ o.cap = occ'.cap ∧
        o.nRel = (relUnits env us.length).length) ∧
      C11.OccInv (relW env us) (cellW env us) occ' ∧ InGrid env.grid (relUnits env us.length) (cellW env us))
    (T : TaggerIdx) : (yieldCls env (pc.w.tagger T).cls ⟨us, occ'⟩).length ≤ demandBound pc T := by
  have hcr : cellReading (pc.w.tagger T).cls = true →
      ∃ o, pc.occOf T = some o ∧ o.grid = env.grid ∧ o.cap = occ'.cap ∧ o.nRel = (relUnits env us.length).length ∧
        C11.OccInv (relW env us) (cellW env us) occ' ∧ InGrid env.grid (relUnits env us.length) (cellW env us) := by
    intro hc
    rcases supported_tagger hsup T with hok | ⟨hu, _⟩
    · unfold okT at hok
      simp only [Bool.and_eq_true, Bool.or_eq_true, Bool.not_eq_true', hc, Bool.true_eq_false, false_or, beq_iff_eq] at hok
      obtain ⟨⟨⟨_, _⟩, hlab, hnl⟩, _⟩ := hok
      have hO : hasOccOf pc.w = true := by
        unfold hasOccOf
        cases hl : pc.w.labels with
        | nil => rw [hl] at hnl; simp at hnl
        | cons _ _ => rfl
      obtain ⟨⟨o, h1, h2, h3, h4⟩, h5, h6⟩ := hcell hO
      refine ⟨o, ?_, h2, h3, h4, h5, h6⟩
      unfold PoolCfg.occOf
      rw [hlab]; exact h1
    · rw [hu] at hc; cases hc
  unfold demandBound
  cases hcls : (pc.w.tagger T).cls with
  | noInState => simp [yieldCls]
  | activeGlobalState => simp [yieldCls]
  | activeRootUnit => simp [yieldCls]
  | unknown => simp [yieldCls]
  | cellBoundary => exact cw_cellBoundary env _
  | cellVeto => exact cw_cellVeto env _
  | factorTypeMap =>
    simp only [hnPer, beq_self_eq_true, if_true]
    rw [← hn]
    exact cw_factorTypeMap_one_chain env ⟨us, occ'⟩ hm
  | excludedCells =>
    obtain ⟨o, h1, h2, h3, h4, h5, h6⟩ := hcr (by rw [hcls]; rfl)
    simp only [h1, h2, h3, h4]
    exact (cw_cell_demands env ⟨us, occ'⟩ h5 _ (isRelevantList_relUnits env us) h6).1
  | cellBounding =>
    obtain ⟨o, h1, h2, h3, h4, h5, h6⟩ := hcr (by rw [hcls]; rfl)
    simp only [h1, h2, h4]
    exact (cw_cell_demands env ⟨us, occ'⟩ h5 _ (isRelevantList_relUnits env us) h6).2.1
  | surplusCells =>
    obtain ⟨o, h1, h2, h3, h4, h5, h6⟩ := hcr (by rw [hcls]; rfl)
    simp only [h1, h4]
    exact (cw_cell_demands env ⟨us, occ'⟩ h5 _ (isRelevantList_relUnits env us) h6).2.2

end JF.C09Pools
