import JF.Model.SystemRun3Loop
import JF.Lemmas.SystemRun3
import JF.Lemmas.SystemRun2Motion
import JF.Lemmas.SystemRunInv
import JF.Props.Footprints3
/-!
The composed system for COMPOSITE OBJECTS WITH CELL SYSTEMS at the level of the mediator loop (E41 = stage 2 of E22) — definitions of
its runs and of the joint invariant, and the kinematic lemmas about the units on the cell levels.  The induction step is in
`JF/Lemmas/SystemRun3LoopStep.lean`, the theorems for the reader in `JF/Props/SystemInv3Loop.lean`.

One leg (`SysStep3`) = one pass through the body of `SingleProcessMediator.run`, i.e. `JF.Med.leg` (E1, spec-level scheduler over
`XTime`) on the concrete state of E22 (`JF.CW3`: `List (CObj ℚ)` + one `Occ.State` per internal state):
* the activator first updates EVERY internal state with the active unit on its cell level of the current global state (`occAfter`;
  not in the first leg), then the taggers yield on that state: `o.yields T = yieldCls3 …` — COMPUTED, not oracle values;
* the candidate times (`CandsOK3`): the cell-boundary handler of internal state `l` returns exactly
  `time stamp + (geo l).ttb position velocity` of the ACTIVE UNIT ON THE CELL LEVEL OF `l` (level 1: the root unit of the active
  composite object, which moves with `v / nPer`; level 2: the active point mass), that unit is in the box, moves in a direction of the
  geometry (`velOK`: positive axis direction for `axisGeoPos`) and carries the time of the last commit as its time stamp; every other
  handler returns a normalised finite time or `inf`, not before the last commit;
* the committed handler's event moves the global state by `Composite.step` of an event of a kind that the handler class of the
  committing tagger commits in LEAF mode (the wirings are `LeafOnly`), at the committed time, under C12's weak admissibility `AdmW`
  (`Commits3`).
-/
namespace JF.Sys3L
open JF JF.Act JF.Heap JF.Sched JF.Med JF.CW3 JF.C14 JF.MediatorLoop JF.Sys JF.Sys3 JF.Composite JF.C12 JF.Kin

/-- E9's environment (one cell system) for internal state `l` of E22's environment: same box, the cell function of `l` -/
def cwEnv (env : Env ℚ) (l : Nat) : CW.Env ℚ :=
  ⟨Ops.rat, env.base.L, (env.oe l).grid, (env.oe l).cellOf, (env.oe l).relevant⟩

/-- the identifier (in the global state) of the unit with encoded identifier `a` on the cell level of internal state `l` -/
def identL (env : Env ℚ) (l : Nat) (a : Nat) : List Nat := identOf env.base.nPer (env.oe l).level a

/-- the encoded identifiers of the active units on the cell level of internal state `l` -/
def activeOn (env : Env ℚ) (l : Nat) (cs : List (CObj ℚ)) : List Nat :=
  unitsOn env.base.nPer (env.oe l).level (CW2.flags cs)

section defs
variable (env : Env ℚ) (geo : ∀ l, Geo (cwEnv env l)) (mw : ModeWiring) (S : TaggerIdx) (needs : HandlerId → Bool)

/-- side conditions of a committed event: C12's weak admissibility; the start-of-run event starts ONE point mass (leaf mode) -/
def EvAdm3 (cs : List (CObj ℚ)) (e : Composite.Ev ℚ) : Prop :=
  AdmW env.base.d env.base.L cs e ∧ ∀ i P v, e = .start i P v → StartMode cs i P .leaf

/-- the commit of an event of a handler of tagger `E` at time `t` -/
def Commits3 (E : TaggerIdx) (t : Time ℚ) (cs cs' : List (CObj ℚ)) : Prop :=
  ∃ e : Composite.Ev ℚ, CW2.evKind e ∈ kindsOf (mw.hmode E) .leaf ∧ Sys2.evTime Ops.rat e = t ∧ EvAdm3 env cs e ∧
    cs' = step Ops.rat isZ env.base.L cs e

/-- what `send_event_time` of the handlers handed out in this leg returns -/
def CandsOK3 (cs : List (CObj ℚ)) (last : XTime) (o : Oracle XTime) (created : List (HandlerId × IdTuple)) : Prop :=
  ∀ q ∈ created,
    (∀ B l, owner mw.w.wires q.1 = some B → isCBT mw.w l B = true →
      ∃ a u v ts, activeOn env l cs = [a] ∧ Sys2.unitAt cs (identL env l a) = some u ∧ u.vel = some v ∧ u.ts = some ts ∧
        InBox env.base.L u.pos ∧ (geo l).velOK v ∧ last = .fin ts ∧
        o.cand q.1 = .fin (Time.add Ops.rat ts ((geo l).ttb u.pos v))) ∧
    (kindOfH mw.w q.1 ≠ .cellBoundary → NormX (o.cand q.1) ∧ xcfg.lt (o.cand q.1) last = false)

/-- one leg of the composed system -/
structure SysStep3 (s : Sys3) (o : Oracle XTime) (cm : Committed XTime) (s' : Sys3) : Prop where
  occ1 : if s.med.act.started = true then OccsUpdated env mw.w.labels.length s.occs s'.occs s.cs else s'.occs = s.occs
  yields : o.yields = fun T => yieldCls3 env T (mw.w.tagger T).cls (mw.w.tagger T).label s.cs s'.occs
  leg : leg (mwire mw.w S needs) (specI xcfg) s.med o = .ok (s'.med, cm)
  cands : CandsOK3 env geo mw s.cs s.med.sched.last o cm.created
  ev : ∃ t E', cm.time = .fin t ∧ owner mw.w.wires cm.handler = some E' ∧ Commits3 env mw E' t s.cs s'.cs
  ids' : s'.ids = assign s.ids cm.created
  prev : s'.csPrev = s.cs
  mid' : s'.mid = midAct (mwire mw.w S needs) s.med o

/-- the state before the first leg: C12's `AllGood`, `nPer` point masses per object, nothing moves, every carried occupancy records
no active unit (e.g. freshly initialised: `consistent_init`) -/
structure Init3 (s : Sys3) : Prop where
  med : s.med = MedState.init (specI xcfg) mw.w.wires
  good : AllGood env.base.d env.base.L s.cs
  unif : CW2.Uniform env.base.nPer s.cs
  rest : AllRest s.cs
  cons : ConsAll env mw.w.labels.length ⟨s.cs, .leaf, s.occs⟩
  prev : s.csPrev = s.cs

/-- the runs of the composed system: any number of legs; no leg after the end-of-run commit -/
inductive Reach3 : List (Oracle XTime) → List (Committed XTime) → Sys3 → Prop
  | init (s : Sys3) (h : Init3 env mw s) : Reach3 [] [] s
  | step {os : List (Oracle XTime)} {cs : List (Committed XTime)} {s s' : Sys3} {o : Oracle XTime} {cm : Committed XTime}
      (prev : Reach3 os cs s) (hgo : ∀ cl, cs.getLast? = some cl → cl.stop = false)
      (hstep : SysStep3 env geo mw S needs s o cm s') : Reach3 (os ++ [o]) (cs ++ [cm]) s'

/-- `hb` is a handler of the cell-boundary tagger of internal state `l` -/
def isCBH (l : Nat) (hb : HandlerId) : Prop := ∃ B, owner mw.w.wires hb = some B ∧ isCBT mw.w l B = true

/-- the committed time of the leg is not the time of a pending cell-boundary candidate of internal state `l` -/
def NoTie3 (l : Nat) (p : Pend XTime) (cm : Committed XTime) : Prop :=
  ∀ hb, isCBH mw l hb → pendPushed p cm hb ≠ some cm.time

/-- **the no-tie hypothesis of one leg** (E9's `TieFreeLeg`, per cell system): an event of a tagger that — according to the footprint
table — does not affect cell system `l` (sampling, dumping, end of run, the cell-boundary event of ANOTHER cell system) is not committed
at exactly the time of a pending cell-boundary candidate of system `l` -/
def TieFreeLeg3 (p : Pend XTime) (cm : Committed XTime) : Prop :=
  ∀ E l, owner mw.w.wires cm.handler = some E → l < mw.w.labels.length → affects (mw.w.tagger E) (.cell l) = false →
    NoTie3 mw l p cm

def TieFree3 (cs : List (Committed XTime)) : Prop :=
  ∀ k cm, cs[k]? = some cm → TieFreeLeg3 mw (pendOf (fun _ => none) (cs.take k)) cm

/-- the standing hypotheses on the configuration: a box, and the decidable side conditions on the wiring -/
structure Hyp3L : Prop where
  box : BoxOK env.base.d env.base.L
  sound : WiringSound mw.w = true
  start : mw.w.start? = some S
  supp : Supported3 mw = true
  leaf : LeafOnly mw = true
  cb : cbWired3 mw.w S = true

/-- the active unit on the cell level of internal state `l` in the state `cs` — time stamp not after `tl` — stays in the cell of its
position strictly before `τ` -/
def Track (l : Nat) (cs : List (CObj ℚ)) (tl τ : Time ℚ) : Prop :=
  ∃ a u v ts, activeOn env l cs = [a] ∧ Sys2.unitAt cs (identL env l a) = some u ∧ u.vel = some v ∧ u.ts = some ts ∧
    val ts ≤ val tl ∧ u.pos.length = env.base.L.length ∧ v.length = env.base.L.length ∧
    StayUntil (cwEnv env l) u.pos v ts τ

/-- **the joint invariant** at the boundary after the leg that committed `cl` (the last element of `cs`): `E` = tagger of the
committed handler, `tl` = committed time. -/
structure Big3 (cs : List (Committed XTime)) (cl : Committed XTime) (s : Sys3) (E : TaggerIdx) (tl : Time ℚ) : Prop where
  /-- E1: the scheduler holds exactly the pending events, a handler has one iff it is running -/
  med : MInv (I := specI xcfg) (mwire mw.w S needs) (SRel xcfg) s.med (pendOf (fun _ => none) cs) cl.time
  started : s.med.act.started = true
  prec : s.med.preceding = some cl.handler
  owner : owner mw.w.wires cl.handler = some E
  stopEq : cl.stop = (mwire mw.w S needs).endOfRun cl.handler
  /-- the activator after the trash of the last leg, in terms of its lists in the middle of that leg -/
  trashEq : s.med.act.ts = (trash mw.w.wires s.mid E).1
  running : cl.handler ∈ (getT s.mid E).running
  time : cl.time = .fin tl
  tnorm : Normalised tl
  /-- every pending candidate time is a normalised finite time or `inf` -/
  norm : ∀ h t, pendOf (fun _ => none) cs h = some t → NormX t
  /-- C09 (via the run of the activator-level machine up to the middle of the last leg, which carries `Fresh` for every live tagger:
  `JF.Act.run_inv`), on the concrete state of that moment, which satisfies `Inv3`; every step of that run is a transition of `Tr3L`,
  **premise `StaysInRecordedCell` included** -/
  phase : ∃ hi : Inv3 env mw ⟨s.csPrev, .leaf, s.occs⟩,
    (cs.length = 1 ∧ E = S ∧ AllRest s.csPrev ∧ ∃ ids0 out,
        first mw.w.wires (initAct mw.w.wires) S (fun T => (world3 env mw).yieldOf T ⟨_, hi⟩) = some (s.mid, out) ∧
        s.ids = assign ids0 out)
    ∨ Run mw.w (world3 env mw) (Tr3L env mw) S ⟨s.mid, s.ids, ⟨_, hi⟩⟩
  /-- how the global state came from the one the last leg's candidates were computed on -/
  commit : Commits3 env mw E tl s.csPrev s.cs
  /-- C12 + C07's one-chain clause for the state after the commit -/
  invNext : CW2.Inv env.base ⟨s.cs, .leaf⟩
  /-- C11's mirror for the active units: in the middle of the last leg (after the first) every occupancy recorded, as active cell, the
  cell of the position of the active unit on its cell level -/
  mirror : 2 ≤ cs.length → ∀ l, l < mw.w.labels.length → ∀ a, activeOn env l s.csPrev = [a] → (env.oe l).relevant a = true →
    (getOcc s.occs l).activeCell = some ((env.oe l).cellOf (posOn env.base.nPer (env.oe l).level s.csPrev a))
  /-- C11 (the former premise of `Tr3`): after the commit of a tagger that does not affect cell system `l`, at a time that is not the
  time of a pending cell-boundary candidate of `l`, the active unit on the cell level of `l` is still in its recorded cell -/
  stays : ∀ l, l < mw.w.labels.length → affects (mw.w.tagger E) (.cell l) = false →
    NoTie3 mw l (pendOf (fun _ => none) cs.dropLast) cl →
    StaysInRecordedCell env.base.nPer (env.oe l) (getOcc s.occs l) s.cs
  /-- a pending cell-boundary candidate of cell system `l` is a time until which the active unit on the level of `l` stays in the
  cell of its position -/
  cb : ∀ l, l < mw.w.labels.length → cl.stop = false → TieFreeLeg3 mw (pendOf (fun _ => none) cs.dropLast) cl →
    ∀ hb tb, isCBH mw l hb → pendOf (fun _ => none) cs hb = some tb →
      ∃ τ, tb = .fin τ ∧ Normalised τ ∧ Track env l s.cs tl τ

end defs

/-! ### reading the decidable side conditions -/

theorem cbWired3_spec {c : Wiring} {S : TaggerIdx} (h : cbWired3 c S = true) {l : Nat} (hl : l < c.labels.length) :
    ∃ B, B < c.n ∧ (c.tagger B).cls = .cellBoundary ∧ isCBT c l B = true ∧
      (∀ T, T < c.n → isCBT c l T = true → T = B) ∧ ∀ σ ∈ reach c S, aGet σ B = true := by
  unfold cbWired3 at h
  have := List.all_eq_true.mp h l (List.mem_range.mpr hl)
  simp only [List.any_eq_true, List.mem_range, Bool.and_eq_true, beq_iff_eq, List.all_eq_true, Bool.or_eq_true,
    Bool.not_eq_true'] at this
  obtain ⟨B, hB, ⟨⟨h1, h2⟩, h3⟩, h4⟩ := this
  refine ⟨B, hB, h1, h2, ?_, h4⟩
  intro T hT hk
  rcases h3 T hT with h5 | h5
  · exact h5
  · rw [hk] at h5; cases h5

theorem isCBT_kind {c : Wiring} {l : Nat} {B : TaggerIdx} (h : isCBT c l B = true) :
    (c.tagger B).kind = .cellBoundary ∧ (c.tagger B).label = some l := by
  unfold isCBT at h
  simpa using h

/-- a tagger that does not affect cell system `l` does not change which units move -/
theorem ident_false_of_cell_false {t : TaggerW} {l : Nat} (h : affects t (.cell l) = false) : affects t .ident = false := by
  unfold affects at h ⊢
  cases hk : t.kind <;> simp_all

/-- a tagger that keeps the moving units but affects cell system `l` is the cell-boundary tagger of `l` -/
theorem isCBT_of_affects {c : Wiring} {l : Nat} {E : TaggerIdx} (h1 : affects (c.tagger E) .ident = false)
    (h2 : affects (c.tagger E) (.cell l) = true) : isCBT c l E = true := by
  unfold affects at h1 h2
  unfold isCBT
  cases hk : (c.tagger E).kind <;> simp_all

/-- the handler class of a tagger that is not the start-of-run tagger does not commit a `start` -/
theorem not_start_kind {mw : ModeWiring} (hs : Supported3 mw = true) {E : TaggerIdx} (hE : E < mw.w.n)
    (hk : (mw.w.tagger E).kind ≠ .startOfRun) {k : EvKind} (hmem : k ∈ kindsOf (mw.hmode E) .leaf) : k ≠ .start := by
  have hag := supported3_agree hs hE
  have hok : hmOK (mw.hmode E) = true := by
    unfold Supported3 at hs
    simp only [Bool.and_eq_true] at hs
    have := List.all_eq_true.mp hs.2 E (List.mem_range.mpr hE)
    simp only [Bool.and_eq_true] at this
    exact this.1
  revert hag hok hmem hk
  cases (mw.w.tagger E).kind <;> cases mw.hmode E <;> simp [kindAgrees, kindsOf, hmOK] <;>
    (try (intro h; rcases h with rfl | rfl <;> simp))
  rename_i b
  cases b <;> simp <;> rintro rfl <;> simp

/-! ### `keep` and an admissible `snap` are time slices -/

theorem modify_id' {β : Type} (f : β → β) (hf : ∀ x, f x = x) : ∀ (xs : List β) (i : Nat), xs.modify i f = xs :=
  fun xs i => modify_eq_self f xs i (fun x _ => hf x)

/-- in the exact reading an admissible cell-boundary event writes the coordinate the unit has reached: it is a time slice -/
theorem snap_eq_sliceAt {d : Nat} {L : List ℚ} {cs : List (CObj ℚ)} {t : Time ℚ} {S0 : List Nat} {i : Nat} {j : Option Nat}
    {dd : Nat} {x : ℚ} (ha : AdmW d L cs (.snap t S0 i j dd x)) :
    step Ops.rat isZ L cs (.snap t S0 i j dd x) = sliceAt Ops.rat L t S0 cs := by
  show snap Ops.rat L t S0 i j dd x cs = _
  unfold snap
  apply modify_eq_self
  intro c hc
  have h := ha c hc
  cases j with
  | none =>
    simp only at h ⊢
    rw [h, setCoord_getD]
  | some j =>
    simp only at h ⊢
    have : c.leaves.modify j (fun l => { l with pos := Kin.setCoord l.pos dd x }) = c.leaves := by
      apply modify_eq_self
      intro l hl
      rw [h l hl, setCoord_getD]
    rw [this]

/-- the commit of a tagger whose table entry `affects · .ident` is `false` is a time slice of some in-state at the committed time -/
theorem quiet_commit {env : Env ℚ} {mw : ModeWiring} (hs : Supported3 mw = true) {E : TaggerIdx} {t : Time ℚ}
    {cs cs' : List (CObj ℚ)} (ha : affects (mw.w.tagger E) .ident = false) (hc : Commits3 env mw E t cs cs') :
    ∃ S0, cs' = sliceAt Ops.rat env.base.L t S0 cs := by
  obtain ⟨e, hk, ht, ⟨hadm, _⟩, hcs⟩ := hc
  have hq := quiet_of_ident_false3 hs ha hk
  cases e with
  | keep t0 S0 =>
    have : t0 = t := ht
    subst this
    exact ⟨S0, hcs⟩
  | snap t0 S0 i j dd x =>
    have : t0 = t := ht
    subst this
    exact ⟨S0, by rw [hcs, snap_eq_sliceAt hadm]⟩
  | _ => simp [CW2.evKind, CW2.quietKind] at hq

/-! ### units under a time slice -/

/-- a property of a unit that one time slice preserves holds for the unit after `sliceAt` -/
theorem unitAt_sliceAt (L : List ℚ) (t : Time ℚ) (P : PUnit ℚ → Prop) (hP : ∀ u, P u → P (Kin.timeSlice Ops.rat L t u))
    (id : List Nat) : ∀ (S0 : List Nat) (cs : List (CObj ℚ)) (u : PUnit ℚ), Sys2.unitAt cs id = some u → P u →
      ∃ u', Sys2.unitAt (sliceAt Ops.rat L t S0 cs) id = some u' ∧ P u'
  | [], cs, u, hu, hp => ⟨u, hu, hp⟩
  | i :: S0, cs, u, hu, hp => by
    rw [sliceAt_cons]
    by_cases hh : id.head? = some i
    · refine unitAt_sliceAt L t P hP id S0 _ (Kin.timeSlice Ops.rat L t u) ?_ (hP u hp)
      rw [Sys2.unitAt_modify_slice, if_pos hh, hu]; rfl
    · refine unitAt_sliceAt L t P hP id S0 _ u ?_ hp
      rw [Sys2.unitAt_modify_slice, if_neg hh, hu]

theorem unitAt_sliceAt_none (L : List ℚ) (t : Time ℚ) (id : List Nat) : ∀ (S0 : List Nat) (cs : List (CObj ℚ)),
    Sys2.unitAt cs id = none → Sys2.unitAt (sliceAt Ops.rat L t S0 cs) id = none
  | [], _, h => h
  | i :: S0, cs, h => by
    rw [sliceAt_cons]
    apply unitAt_sliceAt_none L t id S0
    rw [Sys2.unitAt_modify_slice, h]
    split <;> rfl

/-- `posOn` (E22) in terms of `unitAt` (E16) -/
theorem posOn_unitAt (nPer lvl : Nat) (cs : List (CObj ℚ)) (a : Nat) :
    posOn nPer lvl cs a = ((Sys2.unitAt cs (identOf nPer lvl a)).map (·.pos)).getD [] := by
  unfold posOn identOf
  by_cases h : (lvl == 1) = true
  · simp only [h, if_true, Sys2.unitAt]
    cases cs[a]? <;> rfl
  · simp only [h, Bool.false_eq_true, if_false, Sys2.unitAt]

/-- `sliceAt` keeps which units move -/
theorem flags_sliceAt (L : List ℚ) (t : Time ℚ) (S0 : List Nat) (cs : List (CObj ℚ)) :
    CW2.flags (sliceAt Ops.rat L t S0 cs) = CW2.flags cs :=
  CW2.flags_eq_of_vels (CW2.vels_sliceAt Ops.rat L t S0 cs)

section track
variable {env : Env ℚ} {l : Nat}

/-- **one time slice of the tracked unit strictly before the crossing time**: the unit keeps its velocity, gets the time stamp `t`,
stays in its cell, and still stays there until `τ` -/
theorem track_timeSlice (hL : PosBox env.base.L) {v : List ℚ} {t τ : Time ℚ} {c0 : Nat} (hlt : val t < val τ) (u : PUnit ℚ)
    (h : u.vel = some v ∧ ∃ ts, u.ts = some ts ∧ val ts ≤ val t ∧ u.pos.length = env.base.L.length ∧
      v.length = env.base.L.length ∧ (env.oe l).cellOf u.pos = c0 ∧ StayUntil (cwEnv env l) u.pos v ts τ) :
    (Kin.timeSlice Ops.rat env.base.L t u).vel = some v ∧ ∃ ts, (Kin.timeSlice Ops.rat env.base.L t u).ts = some ts ∧
      val ts ≤ val t ∧ (Kin.timeSlice Ops.rat env.base.L t u).pos.length = env.base.L.length ∧
      v.length = env.base.L.length ∧ (env.oe l).cellOf (Kin.timeSlice Ops.rat env.base.L t u).pos = c0 ∧
      StayUntil (cwEnv env l) (Kin.timeSlice Ops.rat env.base.L t u).pos v ts τ := by
  obtain ⟨hv, ts, hts, hle, hpl, hvl, hc, hst⟩ := h
  rw [timeSlice_of_moving env.base.L t u hv hts]
  have key := stayUntil_slice (env := cwEnv env l) (pos := u.pos) (v := v) (ts := ts) (τ := τ) (t := t) hL hpl hvl hst hle hlt
  refine ⟨rfl, t, rfl, le_refl _, ?_, hvl, ?_, key.2⟩
  · exact length_sliceVec env.base.L u.pos v _ hpl hvl
  · exact key.1.trans hc

/-- a unit at rest is not moved by a time slice -/
theorem rest_sliceAt (L : List ℚ) (t : Time ℚ) (S0 : List Nat) {cs0 : List (CObj ℚ)} {id : List Nat} {u : PUnit ℚ}
    (hu : Sys2.unitAt cs0 id = some u) (hv : u.vel = none) :
    ∃ u', Sys2.unitAt (sliceAt Ops.rat L t S0 cs0) id = some u' ∧ u'.pos = u.pos := by
  obtain ⟨u', hu', _, hp⟩ := unitAt_sliceAt L t (fun x => x.vel = none ∧ x.pos = u.pos)
    (fun x hx => by
      have : Kin.timeSlice Ops.rat L t x = x := by unfold Kin.timeSlice; rw [hx.1]
      rw [this]; exact hx) id S0 cs0 u hu ⟨hv, rfl⟩
  exact ⟨u', hu', hp⟩

/-- **a quiet commit (a time slice of some in-state at time `t'`) strictly before the crossing time `τ`**: the active unit on the
cell level of `l` is still tracked until `τ`, and it is still in the cell it was in -/
theorem track_quiet (hL : PosBox env.base.L) {cs0 : List (CObj ℚ)} {tl t' τ : Time ℚ} (htr : Track env l cs0 tl τ)
    (hle : val tl ≤ val t') (hlt : val t' < val τ) (S0 : List Nat) :
    Track env l (sliceAt Ops.rat env.base.L t' S0 cs0) t' τ ∧
    ∀ a, activeOn env l cs0 = [a] →
      (env.oe l).cellOf (posOn env.base.nPer (env.oe l).level (sliceAt Ops.rat env.base.L t' S0 cs0) a) =
        (env.oe l).cellOf (posOn env.base.nPer (env.oe l).level cs0 a) := by
  obtain ⟨a, u, v, ts, hact, hu, hv, hts, hle0, hpl, hvl, hst⟩ := htr
  obtain ⟨u', hu', hv', ts', hts', hle', hpl', _, hc', hst'⟩ :=
    unitAt_sliceAt env.base.L t' _ (track_timeSlice (env := env) (l := l) (v := v) (τ := τ) (c0 := (env.oe l).cellOf u.pos) hL hlt)
      (identL env l a) S0 cs0 u hu ⟨hv, ts, hts, le_trans hle0 hle, hpl, hvl, rfl, hst⟩
  have hact' : activeOn env l (sliceAt Ops.rat env.base.L t' S0 cs0) = [a] := by
    unfold activeOn at hact ⊢
    rw [flags_sliceAt]; exact hact
  refine ⟨⟨a, u', v, ts', hact', hu', hv', hts', hle', hpl', hvl, hst'⟩, ?_⟩
  intro a0 ha0
  have : a0 = a := by rw [hact] at ha0; simpa using ha0.symm
  subst this
  have hu0 : Sys2.unitAt cs0 (identOf env.base.nPer (env.oe l).level a0) = some u := hu
  have hu0' : Sys2.unitAt (sliceAt Ops.rat env.base.L t' S0 cs0) (identOf env.base.nPer (env.oe l).level a0) = some u' := hu'
  rw [posOn_unitAt, posOn_unitAt, hu0, hu0']
  exact hc'

end track

end JF.Sys3L
