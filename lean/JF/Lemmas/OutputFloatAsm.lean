import JF.Lemmas.OutputFloatRnd
import Mathlib.Data.List.Forall2
/-!
Assembly lemmas for `JF/Props/OutputFloat.lean` §2: the cubic `separation_vector` over `R fm` component by component, the
component-wise comparison with the exact nearest-image vector, and the scalar step through `pow(x, 0.5)`.
-/
namespace JF.OutputFloat
open JF JF.Periodic JF.C15 JF.Output JF.R JF.Lifting

variable {fm : FloatModel}

/-- `separation_vector` of the cubic box over `R fm`, entry by entry -/
theorem cubic_sepVec_R (c : Cubic (R fm)) (a b : List (R fm)) (ha : a.length = c.dim) (hb : b.length = c.dim) :
    c.separationVector (Ops.rounded fm) a b = some (List.zipWith (fun x y => compSep fm x y c.L c.half) a b) := by
  obtain ⟨s, hs⟩ := rawSeparation_isSome (dim := c.dim) (ref := a) (tgt := b) (by omega) (by omega)
  obtain ⟨hsl, hse⟩ := (rawSeparation_spec _ _ _ _).mp hs
  simp only [Cubic.separationVector, hs, Option.map_some]
  congr 1
  apply List.ext_getElem (by simp [Cubic.correctSeparation, hsl, ha, hb])
  intro j h1 h2
  have hj : j < c.dim := by simp [Cubic.correctSeparation, hsl] at h1; exact h1
  obtain ⟨_, _, e⟩ := hse j hj (by omega)
  simp only [Cubic.correctSeparation, List.getElem_mapIdx, List.getElem_zipWith, Cubic.correctSeparationEntry, compSep, e]

/-- the hypotheses `CompOK` in every dimension -/
def BoxCompOK (fm : FloatModel) (c : Cubic (R fm)) (a b : List (R fm)) : Prop :=
  a.length = c.dim ∧ b.length = c.dim ∧
    ∀ j (ha : j < a.length) (hb : j < b.length), CompOK fm a[j] b[j] c.L c.half

/-- the computed vector, as exact rationals -/
def compVec (fm : FloatModel) (c : Cubic (R fm)) (a b : List (R fm)) : List ℚ :=
  (List.zipWith (fun x y => compSep fm x y c.L c.half) a b).map toQ

/-- the exact nearest-image vector of the same (representable) positions -/
def exactVec (c : Cubic (R fm)) (a b : List (R fm)) : List ℚ :=
  sepSpec (List.replicate c.dim (toQ c.L)) (a.map toQ) (b.map toQ)

theorem exactVec_length (c : Cubic (R fm)) (a b : List (R fm)) (ha : a.length = c.dim) (hb : b.length = c.dim) :
    (exactVec c a b).length = c.dim := by
  unfold exactVec
  rw [sepSpec_length (by simp [ha]) (by simp [hb])]; simp

theorem exactVec_abs (c : Cubic (R fm)) (a b : List (R fm)) (ha : a.length = c.dim) (hb : b.length = c.dim)
    (j : Nat) (h : j < (exactVec c a b).length) (hja : j < a.length) (hjb : j < b.length) :
    |(exactVec c a b)[j]| = dist1 (toQ c.L) (toQ b[j] - toQ a[j]) := by
  unfold exactVec at h ⊢
  rw [sepSpec_getElem j h (by simp; omega) (by simp; omega) (by simp; omega)]
  simp [dist1]

theorem comp_exact_forall₂ (c : Cubic (R fm)) (a b : List (R fm)) (ok : BoxCompOK fm c a b) :
    List.Forall₂ (fun x e => |x| ≤ |e| + 9 / 2 * (fm.eps * toQ c.L)) (compVec fm c a b) (exactVec c a b) ∧
    List.Forall₂ (fun e x => |e| ≤ |x| + 9 / 2 * (fm.eps * toQ c.L)) (exactVec c a b) (compVec fm c a b) := by
  obtain ⟨ha, hb, hc⟩ := ok
  have hl := exactVec_length c a b ha hb
  have hl' : (compVec fm c a b).length = c.dim := by simp [compVec, ha, hb]
  have key : ∀ j (h1 : j < (compVec fm c a b).length) (h2 : j < (exactVec c a b).length),
      |(|(compVec fm c a b)[j]| - |(exactVec c a b)[j]|)| ≤ 9 / 2 * (fm.eps * toQ c.L) := by
    intro j h1 h2
    rw [exactVec_abs c a b ha hb j h2 (by omega) (by omega)]
    have := compSep_err (hc j (by omega) (by omega))
    simpa [compVec] using this
  constructor
  · apply List.forall₂_of_length_eq_of_get (by omega)
    intro j h1 h2
    have := abs_le.mp (key j h1 h2)
    simp only [List.get_eq_getElem]
    linarith [this.2]
  · apply List.forall₂_of_length_eq_of_get (by omega)
    intro j h1 h2
    have := abs_le.mp (key j h2 h1)
    simp only [List.get_eq_getElem]
    linarith [this.1]

theorem comp_zero_forall₂ (c : Cubic (R fm)) (a b : List (R fm)) (ok : BoxCompOK fm c a b) :
    List.Forall₂ (fun x e => |x| ≤ |e| + toQ c.half) (compVec fm c a b) (List.replicate c.dim (0 : ℚ)) := by
  obtain ⟨ha, hb, hc⟩ := ok
  apply List.forall₂_of_length_eq_of_get (by simp [compVec, ha, hb])
  intro j h1 h2
  have hj : j < c.dim := by simpa using h2
  have := compSep_bound (hc j (by omega) (by omega))
  simp only [List.get_eq_getElem, List.getElem_replicate, abs_zero, zero_add]
  simpa [compVec] using this

theorem sqR_replicate_zero (n : Nat) : sqR (List.replicate n (0 : ℚ)) = 0 := by
  unfold sqR sq
  simp [List.map_replicate, List.sum_replicate]

/-- the step through the compensated `sum` and `pow(x, 0.5)`: the squared norm known up to factors `lo ≤ 1 ≤ up`, the root
with relative error `δp` -/
theorem written_of_bounds {w X N δp lo up : ℝ} (_hN : 0 ≤ N) (hlo0 : 0 ≤ lo) (hlo1 : lo ≤ 1) (hup : 1 ≤ up)
    (hX1 : lo * N ≤ X) (hX2 : X ≤ up * N) (hδ0 : 0 ≤ δp) (hδ1 : δp ≤ 1) (hw : |w - Real.sqrt X| ≤ δp * Real.sqrt X) :
    (1 - δp) * (lo * Real.sqrt N) ≤ w ∧ w ≤ (1 + δp) * (up * Real.sqrt N) := by
  have hs := Real.sqrt_nonneg N
  have hsX := Real.sqrt_nonneg X
  have l1 : lo * Real.sqrt N ≤ Real.sqrt X := by
    have h1 : lo ≤ Real.sqrt lo := Real.le_sqrt_of_sq_le (by nlinarith)
    calc lo * Real.sqrt N ≤ Real.sqrt lo * Real.sqrt N := mul_le_mul_of_nonneg_right h1 hs
      _ = Real.sqrt (lo * N) := (Real.sqrt_mul hlo0 N).symm
      _ ≤ Real.sqrt X := Real.sqrt_le_sqrt hX1
  have l2 : Real.sqrt X ≤ up * Real.sqrt N := by
    have h1 : Real.sqrt up ≤ up := by
      rw [Real.sqrt_le_left (by linarith)]; nlinarith
    calc Real.sqrt X ≤ Real.sqrt (up * N) := Real.sqrt_le_sqrt hX2
      _ = Real.sqrt up * Real.sqrt N := Real.sqrt_mul (by linarith) N
      _ ≤ up * Real.sqrt N := mul_le_mul_of_nonneg_right h1 hs
  have hw' := abs_le.mp hw
  constructor
  · have : (1 - δp) * (lo * Real.sqrt N) ≤ (1 - δp) * Real.sqrt X := mul_le_mul_of_nonneg_left l1 (by linarith)
    linarith
  · have : (1 + δp) * Real.sqrt X ≤ (1 + δp) * (up * Real.sqrt N) := mul_le_mul_of_nonneg_left l2 (by linarith)
    linarith

end JF.OutputFloat
