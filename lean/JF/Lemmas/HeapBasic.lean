import JF.Model.Heap
/-!
Invariants of the model of `heap.c` and their preservation by `insert` (bubble up).
No Mathlib needed.
-/
namespace JF.Heap
variable {κ : Type} {cfg : Cfg κ}

/-- what the proofs need of the comparison: a strict weak order with the sentinel key minimal -/
structure StrictWeak (cfg : Cfg κ) : Prop where
  irrefl : ∀ a, cfg.lt a a = false
  trans : ∀ a b c, cfg.lt a b = true → cfg.lt b c = true → cfg.lt a c = true
  ntrans : ∀ a b c, cfg.lt a b = false → cfg.lt b c = false → cfg.lt a c = false
  bot_min : ∀ a, cfg.lt a cfg.bot = false

theorem StrictWeak.asymm (o : StrictWeak cfg) {a b : κ} (h : cfg.lt a b = true) : cfg.lt b a = false := by
  cases h' : cfg.lt b a with
  | false => rfl
  | true => have := o.trans a b a h h'; rw [o.irrefl] at this; cases this

/-- `a < b ≤ c → a < c` -/
theorem StrictWeak.lt_of_lt_of_nlt (o : StrictWeak cfg) {a b c : κ} (h : cfg.lt a b = true)
    (h' : cfg.lt c b = false) : cfg.lt a c = true := by
  cases h'' : cfg.lt a c with
  | true => rfl
  | false => have := o.ntrans a c b h'' h'; rw [h] at this; cases this

/-! ### frame lemmas for the memory primitives -/

theorem get_set (cfg : Cfg κ) (hp : CHeap κ) (i j : Nat) (e : Entry κ) :
    get cfg (set hp i e) j = if j = i ∧ i < hp.mem.size then e else get cfg hp j := by
  unfold get set
  by_cases h : i < hp.mem.size
  · simp only [h, if_true, and_true]
    by_cases hj : j = i
    · subst hj; simp [Array.getD, h]
    · simp [Array.getD, hj]
      grind
  · simp [h]

theorem get_set_lt (hp : CHeap κ) {i : Nat} (j : Nat) (e : Entry κ) (h : i < hp.mem.size) :
    get cfg (set hp i e) j = if j = i then e else get cfg hp j := by
  rw [get_set]; simp [h]

@[simp] theorem length_set (hp : CHeap κ) (i : Nat) (e : Entry κ) : (set hp i e).length = hp.length := by
  unfold set; split <;> rfl
@[simp] theorem size_set (hp : CHeap κ) (i : Nat) (e : Entry κ) : (set hp i e).mem.size = hp.mem.size := by
  unfold set; split <;> simp
theorem fault_set (hp : CHeap κ) {i : Nat} (e : Entry κ) (h : i < hp.mem.size) : (set hp i e).fault = hp.fault := by
  unfold set; simp [h]
theorem chk_of_lt (hp : CHeap κ) {i : Nat} (h : i < hp.mem.size) : chk hp i = hp := by
  unfold chk; simp [h]

@[simp] theorem size_chk (hp : CHeap κ) (i : Nat) : (chk hp i).mem.size = hp.mem.size := by
  unfold chk; split <;> rfl
@[simp] theorem length_chk (hp : CHeap κ) (i : Nat) : (chk hp i).length = hp.length := by
  unfold chk; split <;> rfl
@[simp] theorem get_chk (hp : CHeap κ) (i j : Nat) : get cfg (chk hp i) j = get cfg hp j := by
  unfold chk; split <;> rfl


theorem get_grow (cfg : Cfg κ) (hp : CHeap κ) (n i : Nat) (hn : hp.mem.size ≤ n) :
    get cfg { hp with mem := grow cfg hp.mem n } i = get cfg hp i := by
  unfold get grow
  by_cases h : i < n
  · simp [Array.getD, h]
  · have : ¬ i < hp.mem.size := by omega
    simp [Array.getD, h, this]

@[simp] theorem size_grow (cfg : Cfg κ) (m : Array (Entry κ)) (n : Nat) : (grow cfg m n).size = n := by
  simp [grow]

/-! ### invariants -/

/-- no fault so far; either nothing was ever allocated, or the sentinel is in place and the block has
room for `length + 1` entries (the spare slot `bubble_down` uses) -/
def WF (cfg : Cfg κ) (hp : CHeap κ) : Prop :=
  hp.fault = false ∧
    ((hp.length = 0 ∧ hp.mem.size = 0) ∨
     (1 ≤ hp.length ∧ hp.length + 1 ≤ hp.mem.size ∧ (get cfg hp 0).key = cfg.bot))

/-- heap order: no entry is smaller than its parent (index 0 is the sentinel) -/
def HOrd (cfg : Cfg κ) (hp : CHeap κ) : Prop :=
  ∀ i, 1 ≤ i → i < hp.length → cfg.lt (get cfg hp i).key (get cfg hp (i / 2)).key = false

/-- `e` is stored in the heap -/
def Mem (cfg : Cfg κ) (hp : CHeap κ) (e : Entry κ) : Prop :=
  ∃ i, 1 ≤ i ∧ i < hp.length ∧ get cfg hp i = e

def Inv (cfg : Cfg κ) (hp : CHeap κ) : Prop := WF cfg hp ∧ HOrd cfg hp

theorem inv_empty (cfg : Cfg κ) : Inv cfg (CHeap.empty : CHeap κ) := by
  refine ⟨⟨rfl, Or.inl ⟨rfl, rfl⟩⟩, ?_⟩
  intro i _ h; simp [CHeap.empty] at h

theorem not_mem_empty (cfg : Cfg κ) (e : Entry κ) : ¬ Mem cfg (CHeap.empty : CHeap κ) e := by
  rintro ⟨i, _, h, _⟩; simp [CHeap.empty] at h

/-- the root is a minimum -/
theorem HOrd.root_min (o : StrictWeak cfg) {hp : CHeap κ} (h : HOrd cfg hp) :
    ∀ i, 1 ≤ i → i < hp.length → cfg.lt (get cfg hp i).key (get cfg hp 1).key = false := by
  intro i
  induction i using Nat.strongRecOn with
  | _ i ih =>
    intro h1 hl
    by_cases hi : i = 1
    · subst hi; exact o.irrefl _
    · have := ih (i / 2) (by omega) (by omega) (by omega)
      exact o.ntrans _ _ _ (h i h1 hl) this

/-! ### bubble up -/

/-- loop invariant of the `while` loop of `insert`: the array with a hole at `pos` for the key `k` -/
structure UpInv (cfg : Cfg κ) (k : κ) (L : Nat) (C : Entry κ → Prop) (hp : CHeap κ) (pos : Nat) : Prop where
  nf : hp.fault = false
  len : hp.length = L
  sz : L + 1 ≤ hp.mem.size
  pos1 : 1 ≤ pos
  posL : pos < L
  bot : (get cfg hp 0).key = cfg.bot
  a : ∀ i, 1 ≤ i → i < L → i ≠ pos → i / 2 ≠ pos →
    cfg.lt (get cfg hp i).key (get cfg hp (i / 2)).key = false
  b : ∀ c, c < L → c / 2 = pos →
    cfg.lt (get cfg hp c).key k = false ∧ cfg.lt (get cfg hp c).key (get cfg hp (pos / 2)).key = false
  cont : ∀ e, (∃ i, 1 ≤ i ∧ i < L ∧ i ≠ pos ∧ get cfg hp i = e) ↔ C e

theorem insertLoop_spec (o : StrictWeak cfg) (k : κ) (L : Nat) (C : Entry κ → Prop) :
    ∀ fuel hp pos, pos < fuel → UpInv cfg k L C hp pos →
      UpInv cfg k L C (insertLoop cfg k fuel hp pos).1 (insertLoop cfg k fuel hp pos).2 ∧
      cfg.lt k (get cfg (insertLoop cfg k fuel hp pos).1 ((insertLoop cfg k fuel hp pos).2 / 2)).key = false := by
  intro fuel
  induction fuel with
  | zero => intro hp pos h; omega
  | succ fuel ih =>
    intro hp pos hf I
    have hpar : pos / 2 < hp.mem.size := by have := I.sz; have := I.posL; omega
    simp only [insertLoop, chk_of_lt hp hpar]
    cases hlt : cfg.lt k (get cfg hp (pos / 2)).key with
    | false => simp only [Bool.false_eq_true, if_false]; exact ⟨I, hlt⟩
    | true =>
      simp only [if_true]
      have hpar1 : 1 ≤ pos / 2 := by
        rcases Nat.eq_zero_or_pos (pos / 2) with h0 | h0
        · rw [h0, I.bot, o.bot_min] at hlt; cases hlt
        · exact h0
      have hps : pos < hp.mem.size := by have := I.sz; have := I.posL; omega
      have hg : ∀ j, get cfg (set hp pos (get cfg hp (pos / 2))) j
          = if j = pos then get cfg hp (pos / 2) else get cfg hp j := fun j => get_set_lt hp j _ hps
      apply ih _ _ (by omega)
      have hpp := I.a (pos / 2) hpar1 (by have := I.posL; omega) (by omega) (by omega)
      refine ⟨by rw [fault_set hp _ hps]; exact I.nf, by simp [I.len], by simp; exact I.sz, hpar1,
        by have := I.posL; omega, ?_, ?_, ?_, ?_⟩
      · rw [hg]; have := I.pos1; simp only [show (0:Nat) ≠ pos by omega, if_false]; exact I.bot
      · intro i h1 hL hne hne2
        rw [hg, hg]
        have hip : i ≠ pos := by intro h; subst h; exact hne2 rfl
        simp only [hip, if_false]
        by_cases h2 : i / 2 = pos
        · simp only [h2, if_true]; exact (I.b i hL h2).2
        · simp only [h2, if_false]; exact I.a i h1 hL hip h2
      · intro c hL hc
        rw [hg, hg]
        have hpp2 : pos / 2 / 2 ≠ pos := by omega
        simp only [hpp2, if_false]
        by_cases hcp : c = pos
        · simp only [hcp, if_true]
          exact ⟨o.asymm hlt, hpp⟩
        · simp only [hcp, if_false]
          have h1 := I.a c (by omega) hL hcp (by omega)
          rw [hc] at h1
          refine ⟨?_, o.ntrans _ _ _ h1 hpp⟩
          cases h3 : cfg.lt (get cfg hp c).key k with
          | false => rfl
          | true => have := o.trans _ _ _ h3 hlt; rw [h1] at this; cases this
      · intro e
        rw [← I.cont e]
        constructor
        · rintro ⟨i, h1, hL, hne, he⟩
          rw [hg] at he
          by_cases hip : i = pos
          · simp only [hip, if_true] at he
            exact ⟨pos / 2, hpar1, by have := I.posL; omega, by omega, he⟩
          · simp only [hip, if_false] at he
            exact ⟨i, h1, hL, hip, he⟩
        · rintro ⟨i, h1, hL, hne, he⟩
          by_cases hip : i = pos / 2
          · exact ⟨pos, I.pos1, I.posL, by omega, by rw [hg]; simp only [if_true]; rw [← hip]; exact he⟩
          · exact ⟨i, h1, hL, hip, by rw [hg]; simp only [hne, if_false]; exact he⟩

theorem insertLoop_size (k : κ) : ∀ fuel (hp : CHeap κ) pos,
    (insertLoop cfg k fuel hp pos).1.mem.size = hp.mem.size := by
  intro fuel
  induction fuel with
  | zero => intro hp pos; rfl
  | succ fuel ih =>
    intro hp pos
    simp only [insertLoop]
    split
    · rw [ih]; simp
    · simp
end JF.Heap
