import JF.Lemmas.StoreRefineSpec
import Mathlib.Tactic.Common
/-!
Facts about the purely functional specification `Spec` alone (no heap, no reference occurs in this
file): what the global state reads after a commit.  `JF/Props/C13Refine.lean` carries them to the
reference-level store through the refinement theorem.
-/
set_option linter.unusedSimpArgs false
namespace JF.Store
variable {α : Type}

/-! ### read-back of a commit, on the specification alone -/
namespace Spec

theorem beq_false_of_ne {a b : Ident} (h : ¬ a = b) : (a == b) = false := by simpa using h

theorem lookup_assocSet {β : Type} (d : List (Ident × β)) (id id' : Ident) (x : β) :
    (assocSet d id x).lookup id' = if id' = id then some x else d.lookup id' := by
  induction d with
  | nil =>
    simp only [assocSet, List.lookup_cons, List.lookup_nil]
    by_cases h : id' = id
    · subst h; simp
    · simp [h, beq_false_of_ne h]
  | cons e d ih =>
    obtain ⟨k, y⟩ := e
    simp only [assocSet]
    by_cases hk : k = id
    · subst hk
      simp only [if_true, List.lookup_cons]
      by_cases h : id' = k
      · subst h; simp
      · simp [h, beq_false_of_ne h]
    · simp only [hk, if_false, List.lookup_cons, ih]
      by_cases h : id' = k
      · subst h; simp [hk]
      · simp [h, beq_false_of_ne h]

theorem lookup_filter_ne {β : Type} (d : List (Ident × β)) (id id' : Ident) :
    (d.filter (·.1 ≠ id)).lookup id' = if id' = id then none else d.lookup id' := by
  induction d with
  | nil => simp
  | cons e d ih =>
    obtain ⟨k, y⟩ := e
    simp only [List.filter_cons]
    by_cases hk : k = id
    · subst hk
      simp only [ne_eq, not_true_eq_false, decide_false, Bool.false_eq_true, if_false, ih, List.lookup_cons]
      by_cases h : id' = k
      · subst h; simp
      · simp [h, beq_false_of_ne h]
    · simp only [ne_eq, hk, not_false_eq_true, decide_true, if_true, List.lookup_cons, ih]
      by_cases h : id' = k
      · subst h; simp [hk]
      · simp [h, beq_false_of_ne h]

theorem node_physSet {g : Global α} {id : Ident} {p : Val α} {phys' : List (Node α × List (Node α))}
    (hs : physSet g.phys id p = .ok phys') (id' : Ident) :
    node { g with phys := phys' } id' =
      if id' = id then (node g id).map (fun n => { n with pos := p }) else node g id' := by
  match id, hs with
  | [r], hs =>
    simp only [physSet] at hs
    cases hR : g.phys[r]? with
    | none => simp [hR] at hs
    | some R =>
      simp only [hR, Except.ok.injEq] at hs
      subst hs
      obtain ⟨hlt, hRe⟩ := List.getElem?_eq_some_iff.1 hR
      match id' with
      | [] => simp [node]
      | [r'] =>
        by_cases hr : r' = r
        · subst hr; simp [node, hR, hlt, hRe]
        · simp [node, List.getElem?_set_ne (Ne.symm hr), hr]
      | [r', c'] =>
        by_cases hr : r' = r
        · subst hr; simp [node, hR, hlt, hRe]
        · simp [node, List.getElem?_set_ne (Ne.symm hr)]
      | _ :: _ :: _ :: _ => simp [node]
  | [r, c], hs =>
    simp only [physSet] at hs
    cases hR : g.phys[r]? with
    | none => simp [hR] at hs
    | some R =>
      simp only [hR] at hs
      cases hL : R.2[c]? with
      | none => simp [hL] at hs
      | some L =>
        simp only [hL, Except.ok.injEq] at hs
        subst hs
        obtain ⟨hlt, hRe⟩ := List.getElem?_eq_some_iff.1 hR
        obtain ⟨hlc, hLe⟩ := List.getElem?_eq_some_iff.1 hL
        match id' with
        | [] => simp [node]
        | [r'] =>
          by_cases hr : r' = r
          · subst hr; simp [node, hR, hlt, hRe]
          · simp [node, List.getElem?_set_ne (Ne.symm hr)]
        | [r', c'] =>
          by_cases hr : r' = r
          · subst hr
            by_cases hc : c' = c
            · subst hc; simp [node, hR, hL, hlt, hlc, hRe, hLe]
            · simp [node, hR, hlt, List.getElem?_set_ne (Ne.symm hc), hc, hRe]
          · simp [node, List.getElem?_set_ne (Ne.symm hr), hr]
        | _ :: _ :: _ :: _ => simp [node]
  | [], hs => simp [physSet] at hs
  | _ :: _ :: _ :: _, hs => simp [physSet] at hs

/-- what is stored under the identifier of a committed unit: its position, velocity and time stamp;
charge and weight are those of the node -/
def over (u o : UVal α) : UVal α := { u with charge := o.charge, weight := o.weight }

/-- **read-back of one committed unit, on values**: afterwards the global state reads the committed
position, velocity and time stamp under `u.id`, and every other identifier reads as before -/
theorem unitAt_insertUnit {g g' : Global α} {u : UVal α} (hs : insertUnit g u = (g', none)) (id' : Ident) :
    unitAt g' id' = if id' = u.id then (unitAt g u.id).map (over u) else unitAt g id' := by
  simp only [insertUnit] at hs
  cases hp : physSet g.phys u.id u.pos with
  | error e => simp [hp] at hs
  | ok phys =>
    simp only [hp] at hs
    have hn := node_physSet hp id'
    have hlift : g'.phys = phys ∧ g'.levels = g.levels ∧ g'.perRoot = g.perRoot ∧
        (g'.lift.lookup id').map (·.1) = (if id' = u.id then u.vel else (g.lift.lookup id').map (·.1)) ∧
        (g'.lift.lookup id').map (·.2) = (if id' = u.id then u.ts else (g.lift.lookup id').map (·.2)) := by
      simp only [liftSet] at hs
      cases hv : u.vel with
      | some v =>
        cases ht : u.ts with
        | none => simp [hv, ht] at hs
        | some t =>
          simp only [hv, ht, Prod.mk.injEq] at hs
          obtain ⟨rfl, _⟩ := hs
          simp only [lookup_assocSet, true_and]
          by_cases h : id' = u.id <;> simp [h]
      | none =>
        cases ht : u.ts with
        | some t => simp [hv, ht] at hs
        | none =>
          simp only [hv, ht] at hs
          split at hs
          · simp only [Prod.mk.injEq] at hs
            obtain ⟨rfl, _⟩ := hs
            simp only [lookup_filter_ne, true_and]
            by_cases h : id' = u.id <;> simp [h]
          · rename_i hnone
            simp only [Prod.mk.injEq, and_true] at hs
            subst hs
            simp only [true_and]
            by_cases h : id' = u.id
            · subst h
              cases hl : g.lift.lookup u.id with
              | none => simp
              | some x => simp [hl] at hnone
            · simp [h]
    obtain ⟨h1, _, _, h4, h5⟩ := hlift
    have hnode : node g' id' = node { g with phys := phys } id' := by
      cases id' with
      | nil => rfl
      | cons r t =>
        cases t with
        | nil => simp only [node, h1]
        | cons c t =>
          cases t with
          | nil => simp only [node, h1]
          | cons _ _ => rfl
    simp only [unitAt, hnode, hn, h4, h5]
    by_cases h : id' = u.id
    · simp only [h, if_true, Option.map_map]
      congr 1
    · simp only [h, if_false]

theorem insertUnit_isSome {g g' : Global α} {u : UVal α} (hs : insertUnit g u = (g', none)) :
    (unitAt g u.id).isSome = true := by
  simp only [insertUnit] at hs
  cases hp : physSet g.phys u.id u.pos with
  | error e => simp [hp] at hs
  | ok phys =>
    simp only [unitAt, Option.isSome_map]
    match hid : u.id, hp with
    | [], hp => simp [physSet] at hp
    | [r], hp =>
      simp only [physSet] at hp
      cases hR : g.phys[r]? with
      | none => simp [hR] at hp
      | some R => simp [node, hR]
    | [r, c], hp =>
      simp only [physSet] at hp
      cases hR : g.phys[r]? with
      | none => simp [hR] at hp
      | some R =>
        simp only [hR] at hp
        cases hL : R.2[c]? with
        | none => simp [hL] at hp
        | some L => simp [node, hR, hL]
    | _ :: _ :: _ :: _, hp => simp [physSet] at hp

theorem unitAt_insertUnits_other {us : List (UVal α)} : ∀ {g g' : Global α}, insertUnits g us = (g', none) →
    ∀ {id : Ident}, (∀ w ∈ us, w.id ≠ id) → unitAt g' id = unitAt g id := by
  induction us with
  | nil => intro g g' hs id _; simp only [insertUnits, Prod.mk.injEq, and_true] at hs; rw [hs]
  | cons u us ih =>
    intro g g' hs id hn
    simp only [insertUnits] at hs
    cases hu : insertUnit g u with
    | mk g1 e =>
      cases e with
      | some e => simp [hu] at hs
      | none =>
        simp only [hu] at hs
        rw [ih hs (fun w hw => hn w (List.mem_cons_of_mem _ hw)), unitAt_insertUnit hu,
          if_neg (Ne.symm (hn u (by simp)))]

/-- charge and weight of a node never change -/
theorem unitAt_insertUnits_static {us : List (UVal α)} : ∀ {g g' : Global α}, insertUnits g us = (g', none) →
    ∀ (id : Ident), (unitAt g' id).map (fun o => (o.charge, o.weight)) =
      (unitAt g id).map (fun o => (o.charge, o.weight)) := by
  induction us with
  | nil => intro g g' hs id; simp only [insertUnits, Prod.mk.injEq, and_true] at hs; rw [hs]
  | cons u us ih =>
    intro g g' hs id
    simp only [insertUnits] at hs
    cases hu : insertUnit g u with
    | mk g1 e =>
      cases e with
      | some e => simp [hu] at hs
      | none =>
        simp only [hu] at hs
        rw [ih hs, unitAt_insertUnit hu]
        by_cases he : id = u.id
        · simp only [he, if_true, Option.map_map]
          rfl
        · simp [he]

/-- **read-back of a commit, on values**: the last unit committed under an identifier is what the
global state reads there afterwards (charge and weight are the node's) -/
theorem unitAt_insertUnits_last {g g' : Global α} {pre post : List (UVal α)} {u : UVal α}
    (hs : insertUnits g (pre ++ u :: post) = (g', none)) (hn : ∀ w ∈ post, w.id ≠ u.id) :
    ∃ o, unitAt g u.id = some o ∧ unitAt g' u.id = some (over u o) := by
  have app : ∀ (a b : List (UVal α)) (g : Global α), insertUnits g (a ++ b) =
      match insertUnits g a with
      | (g1, none) => insertUnits g1 b
      | r => r := by
    intro a b
    induction a with
    | nil => intro g; simp [insertUnits]
    | cons x a ih =>
      intro g
      simp only [List.cons_append, insertUnits]
      cases hx : insertUnit g x with
      | mk g1 e =>
        cases e with
        | none => simp only [ih]
        | some e => simp
  rw [app] at hs
  cases h1 : insertUnits g pre with
  | mk g1 e1 =>
    cases e1 with
    | some e => simp [h1] at hs
    | none =>
      simp only [h1, insertUnits] at hs
      cases h2 : insertUnit g1 u with
      | mk g2 e2 =>
        cases e2 with
        | some e => simp [h2] at hs
        | none =>
          simp only [h2] at hs
          have a := unitAt_insertUnits_other hs hn
          have b := unitAt_insertUnit h2 u.id
          simp only [if_true] at b
          obtain ⟨o1, ho1⟩ := Option.isSome_iff_exists.1 (insertUnit_isSome h2)
          have d := unitAt_insertUnits_static h1 u.id
          rw [ho1] at d
          cases ho : unitAt g u.id with
          | none => simp [ho] at d
          | some o =>
            refine ⟨o, rfl, ?_⟩
            rw [a, b, ho1]
            simp only [ho, Option.map_some, Option.some.injEq, Prod.mk.injEq] at d
            simp [over, d.1, d.2]

end Spec
end JF.Store
