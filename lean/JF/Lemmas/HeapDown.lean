import JF.Lemmas.HeapBasic
/-!
`bubble_down`, `root` (lazy deletion) and `delete_events` of the model of `heap.c`: memory safety,
preservation of the heap order, exact description of the stored entries.
-/
namespace JF.Heap
variable {κ : Type} {cfg : Cfg κ}

/-- what `pick` computes: one of `length`, `2 pos`, `2 pos + 1`; its key is not above the cached key nor
above either child -/
theorem pick_spec (o : StrictWeak cfg) (hp : CHeap κ) (pos : Nat) :
    (pick cfg hp pos = hp.length ∨ (pick cfg hp pos = pos * 2 ∧ pos * 2 < hp.length) ∨
      (pick cfg hp pos = pos * 2 + 1 ∧ pos * 2 + 1 < hp.length)) ∧
    cfg.lt (get cfg hp hp.length).key (get cfg hp (pick cfg hp pos)).key = false ∧
    (pos * 2 < hp.length → cfg.lt (get cfg hp (pos * 2)).key (get cfg hp (pick cfg hp pos)).key = false) ∧
    (pos * 2 + 1 < hp.length →
      cfg.lt (get cfg hp (pos * 2 + 1)).key (get cfg hp (pick cfg hp pos)).key = false) := by
  by_cases h1 : pos * 2 < hp.length
  · by_cases l1 : cfg.lt (get cfg hp (pos * 2)).key (get cfg hp hp.length).key = true
    · by_cases h2 : pos * 2 + 1 < hp.length
      · by_cases l2 : cfg.lt (get cfg hp (pos * 2 + 1)).key (get cfg hp (pos * 2)).key = true
        · have hv : pick cfg hp pos = pos * 2 + 1 := by simp [pick, h1, l1, h2, l2]
          rw [hv]
          exact ⟨Or.inr (Or.inr ⟨rfl, h2⟩), o.asymm (o.trans _ _ _ l2 l1), fun _ => o.asymm l2,
            fun _ => o.irrefl _⟩
        · have hv : pick cfg hp pos = pos * 2 := by simp [pick, h1, l1, h2, l2]
          rw [hv]
          exact ⟨Or.inr (Or.inl ⟨rfl, h1⟩), o.asymm l1, fun _ => o.irrefl _, fun _ => by simpa using l2⟩
      · have hv : pick cfg hp pos = pos * 2 := by simp [pick, h1, l1, h2]
        rw [hv]
        exact ⟨Or.inr (Or.inl ⟨rfl, h1⟩), o.asymm l1, fun _ => o.irrefl _, fun h => absurd h h2⟩
    · have l1' : cfg.lt (get cfg hp (pos * 2)).key (get cfg hp hp.length).key = false := by simpa using l1
      by_cases h2 : pos * 2 + 1 < hp.length
      · by_cases l2 : cfg.lt (get cfg hp (pos * 2 + 1)).key (get cfg hp hp.length).key = true
        · have hv : pick cfg hp pos = pos * 2 + 1 := by simp [pick, h1, l1', h2, l2]
          rw [hv]
          refine ⟨Or.inr (Or.inr ⟨rfl, h2⟩), o.asymm l2, fun _ => ?_, fun _ => o.irrefl _⟩
          cases h3 : cfg.lt (get cfg hp (pos * 2)).key (get cfg hp (pos * 2 + 1)).key with
          | false => rfl
          | true => have := o.trans _ _ _ h3 l2; rw [l1'] at this; cases this
        · have hv : pick cfg hp pos = hp.length := by simp [pick, h1, l1', h2, l2]
          rw [hv]
          exact ⟨Or.inl rfl, o.irrefl _, fun _ => l1', fun _ => by simpa using l2⟩
      · have hv : pick cfg hp pos = hp.length := by simp [pick, h1, l1', h2]
        rw [hv]
        exact ⟨Or.inl rfl, o.irrefl _, fun _ => l1', fun h => absurd h h2⟩
  · have h2 : ¬ pos * 2 + 1 < hp.length := by omega
    have hv : pick cfg hp pos = hp.length := by simp [pick, h1, h2]
    rw [hv]
    exact ⟨Or.inl rfl, o.irrefl _, fun h => absurd h h1, fun h => absurd h h2⟩

/-- loop invariant of `bubble_down`: hole at `pos` for the cached entry at index `L = length`;
heap order is only claimed for entries whose parent index is `≥ lo` (Floyd's heapify) -/
structure DownInv (cfg : Cfg κ) (L S lo : Nat) (x : Entry κ) (z : Entry κ) (C : Entry κ → Prop)
    (hp : CHeap κ) (pos : Nat) : Prop where
  nf : hp.fault = false
  len : hp.length = L
  sz : hp.mem.size = S
  szL : L < S
  pos1 : 1 ≤ pos
  lop : lo ≤ pos
  hx : get cfg hp L = x
  hz : get cfg hp 0 = z
  a : ∀ i, 1 ≤ i → i < L → i ≠ pos → i / 2 ≠ pos → lo ≤ i / 2 →
    cfg.lt (get cfg hp i).key (get cfg hp (i / 2)).key = false
  b : ∀ c, c < L → c / 2 = pos → lo ≤ pos / 2 →
    cfg.lt (get cfg hp c).key (get cfg hp (pos / 2)).key = false
  c : pos < L → lo ≤ pos / 2 → cfg.lt x.key (get cfg hp (pos / 2)).key = false
  cont : pos < L → ∀ e, ((∃ i, 1 ≤ i ∧ i < L ∧ i ≠ pos ∧ get cfg hp i = e) ∨ e = x) ↔ C e
  done : L ≤ pos → ∀ e, (∃ i, 1 ≤ i ∧ i < L ∧ get cfg hp i = e) ↔ C e

theorem bubbleDownLoop_spec (o : StrictWeak cfg) (L S lo : Nat) (x z : Entry κ) (C : Entry κ → Prop) :
    ∀ fuel hp pos, L ≤ pos + fuel → DownInv cfg L S lo x z C hp pos →
      ∃ pos', L ≤ pos' ∧ DownInv cfg L S lo x z C (bubbleDownLoop cfg fuel hp pos) pos' := by
  intro fuel
  induction fuel with
  | zero =>
    intro hp pos hf I
    have : ¬ pos < hp.length := by rw [I.len]; omega
    simp only [bubbleDownLoop, this, if_false]
    exact ⟨pos, by omega, I⟩
  | succ fuel ih =>
    intro hp pos hf I
    by_cases hpl : pos < hp.length
    · have hL : hp.length < hp.mem.size := by rw [I.len, I.sz]; exact I.szL
      simp only [bubbleDownLoop, hpl, if_true, chk_of_lt hp hL]
      have hpL : pos < L := by rw [← I.len]; exact hpl
      obtain ⟨hcase, hx, hc1, hc2⟩ := pick_spec o hp pos
      generalize hcm : pick cfg hp pos = cmp at hcase hx hc1 hc2
      rw [I.len] at hcase hc1 hc2
      rw [I.len, I.hx] at hx
      have hps : pos < hp.mem.size := by rw [I.sz]; have := I.szL; omega
      have hg : ∀ j, get cfg (set hp pos (get cfg hp cmp)) j
          = if j = pos then get cfg hp cmp else get cfg hp j := fun j => get_set_lt hp j _ hps
      have hcgt : pos < cmp := by have := I.pos1; omega
      apply ih _ _ (by omega)
      refine ⟨by rw [fault_set hp _ hps]; exact I.nf, by simp [I.len], by simp [I.sz], I.szL, by omega,
        by have := I.lop; omega, ?_, ?_, ?_, ?_, ?_, ?_, ?_⟩
      · rw [hg]; simp only [show L ≠ pos by omega, if_false]; exact I.hx
      · rw [hg]; have := I.pos1; simp only [show (0:Nat) ≠ pos by omega, if_false]; exact I.hz
      · intro i h1 hiL hne hne2 hlo
        rw [hg, hg]
        by_cases hip : i = pos
        · subst hip
          have : i / 2 ≠ i := by omega
          simp only [this, if_true, if_false]
          rcases hcase with h | ⟨h, _⟩ | ⟨h, _⟩
          · rw [h, I.hx]; exact I.c hpL hlo
          · exact I.b cmp (by omega) (by omega) hlo
          · exact I.b cmp (by omega) (by omega) hlo
        · simp only [hip, if_false]
          by_cases h2 : i / 2 = pos
          · simp only [h2, if_true]
            have : i = pos * 2 ∨ i = pos * 2 + 1 := by omega
            rcases this with h | h
            · rw [h]; exact hc1 (by omega)
            · rw [h]; exact hc2 (by omega)
          · simp only [h2, if_false]; exact I.a i h1 hiL hip h2 hlo
      · intro c hcL hc hlo
        have hcmpL : cmp < L := by omega
        have hcp : cmp / 2 = pos := by omega
        rw [hg, hg]
        simp only [show c ≠ pos by omega, hcp, if_true, if_false]
        have := I.a c (by omega) hcL (by omega) (by omega) (by have := I.lop; omega)
        rw [hc] at this; exact this
      · intro hcmpL hlo
        have hcp : cmp / 2 = pos := by omega
        rw [hg]; simp only [hcp, if_true]; exact hx
      · intro hcmpL e
        rw [← I.cont hpL e]
        constructor
        · rintro (⟨i, h1, hiL, hne, he⟩ | he)
          · rw [hg] at he
            by_cases hip : i = pos
            · simp only [hip, if_true] at he
              exact Or.inl ⟨cmp, by omega, hcmpL, by omega, he⟩
            · simp only [hip, if_false] at he
              exact Or.inl ⟨i, h1, hiL, hip, he⟩
          · exact Or.inr he
        · rintro (⟨i, h1, hiL, hne, he⟩ | he)
          · by_cases hic : i = cmp
            · exact Or.inl ⟨pos, I.pos1, hpL, by omega, by rw [hg]; simp only [if_true]; rw [← hic]; exact he⟩
            · exact Or.inl ⟨i, h1, hiL, hic, by rw [hg]; simp only [hne, if_false]; exact he⟩
          · exact Or.inr he
      · intro hLc e
        have hcL : cmp = L := by omega
        rw [← I.cont hpL e]
        constructor
        · rintro ⟨i, h1, hiL, he⟩
          rw [hg] at he
          by_cases hip : i = pos
          · simp only [hip, if_true] at he
            rw [hcL, I.hx] at he; exact Or.inr he.symm
          · simp only [hip, if_false] at he
            exact Or.inl ⟨i, h1, hiL, hip, he⟩
        · rintro (⟨i, h1, hiL, hne, he⟩ | he)
          · exact ⟨i, h1, hiL, by rw [hg]; simp only [hne, if_false]; exact he⟩
          · exact ⟨pos, I.pos1, hpL, by rw [hg]; simp only [if_true]; rw [hcL, I.hx]; exact he.symm⟩
    · simp only [bubbleDownLoop, hpl, if_false]
      exact ⟨pos, by rw [I.len] at hpl; omega, I⟩

theorem bubbleDown_spec (o : StrictWeak cfg) {L S lo : Nat} {x z : Entry κ} {C : Entry κ → Prop}
    {hp : CHeap κ} {pos : Nat} (I : DownInv cfg L S lo x z C hp pos) :
    ∃ pos', L ≤ pos' ∧ DownInv cfg L S lo x z C (bubbleDown cfg hp pos) pos' := by
  unfold bubbleDown
  exact bubbleDownLoop_spec o L S lo x z C _ hp pos (by rw [I.len]; omega) I

/-- what a finished `bubble_down` leaves behind -/
theorem DownInv.final {L S lo : Nat} {x z : Entry κ} {C : Entry κ → Prop} {hp : CHeap κ} {pos : Nat}
    (I : DownInv cfg L S lo x z C hp pos) (h : L ≤ pos) :
    hp.fault = false ∧ hp.length = L ∧ hp.mem.size = S ∧ get cfg hp 0 = z ∧
    (∀ i, 1 ≤ i → i < L → lo ≤ i / 2 → cfg.lt (get cfg hp i).key (get cfg hp (i / 2)).key = false) ∧
    (∀ e, Mem cfg hp e ↔ C e) := by
  refine ⟨I.nf, I.len, I.sz, I.hz, fun i h1 hL hlo => I.a i h1 hL (by omega) (by omega) hlo, fun e => ?_⟩
  rw [← I.done h e]; unfold Mem; rw [I.len]

/-- result of the `while` loop of `root` -/
structure RootSpec (cfg : Cfg κ) (dead : Nat → Nat → Bool) (hp r : CHeap κ) : Prop where
  inv : Inv cfg r
  sz : r.mem.size = hp.mem.size
  len : r.length ≤ hp.length
  sub : ∀ e, Mem cfg r e → Mem cfg hp e
  sup : ∀ e, Mem cfg hp e → Mem cfg r e ∨ dead e.h e.c = true
  live : 1 < r.length → dead (get cfg r 1).h (get cfg r 1).c = false

theorem rootLoop_spec (o : StrictWeak cfg) (dead : Nat → Nat → Bool) :
    ∀ fuel (hp : CHeap κ), hp.length ≤ fuel + 1 → Inv cfg hp →
      RootSpec cfg dead hp (rootLoop cfg dead fuel hp) := by
  intro fuel
  induction fuel with
  | zero =>
    intro hp hf hI
    have : ¬ hp.length > 1 := by omega
    simp only [rootLoop, this, decide_false, Bool.false_and, Bool.false_eq_true, if_false]
    exact ⟨hI, rfl, Nat.le_refl _, fun _ h => h, fun _ h => Or.inl h, fun h => absurd h (by omega)⟩
  | succ fuel ih =>
    intro hp hf hI
    by_cases hl : hp.length > 1
    · obtain ⟨⟨hnf, hw⟩, ho⟩ := hI
      have hw' : hp.length + 1 ≤ hp.mem.size ∧ (get cfg hp 0).key = cfg.bot := by
        rcases hw with h | h
        · omega
        · exact ⟨h.2.1, h.2.2⟩
      have h1s : 1 < hp.mem.size := by omega
      simp only [rootLoop, hl, if_true, chk_of_lt hp h1s]
      cases hd : dead (get cfg hp 1).h (get cfg hp 1).c with
      | false =>
        simp only [Bool.false_eq_true, if_false]
        exact ⟨⟨⟨hnf, hw⟩, ho⟩, rfl, Nat.le_refl _, fun _ h => h, fun _ h => Or.inl h, fun _ => hd⟩
      | true =>
        simp only [if_true]
        generalize hL : hp.length - 1 = L
        have hLs : L < hp.mem.size := by omega
        have e1 : chk { hp with length := L } L = { hp with length := L } := chk_of_lt _ hLs
        simp only [e1]
        have hgg : ∀ j, get cfg ({ hp with length := L } : CHeap κ) j = get cfg hp j := fun _ => rfl
        rw [hgg]
        have hg : ∀ j, get cfg (set ({ hp with length := L } : CHeap κ) 1 (get cfg hp L)) j
            = if j = 1 then get cfg hp L else get cfg hp j := fun j => by
          rw [get_set_lt _ j _ (show 1 < ({ hp with length := L } : CHeap κ).mem.size from h1s)]; rfl
        have D : DownInv cfg L hp.mem.size 0 (get cfg hp L) (get cfg hp 0)
            (fun e => ∃ i, 2 ≤ i ∧ i < L + 1 ∧ get cfg hp i = e)
            (set ({ hp with length := L } : CHeap κ) 1 (get cfg hp L)) 1 := by
          refine ⟨by rw [fault_set _ _ (show 1 < ({ hp with length := L } : CHeap κ).mem.size from h1s)]; exact hnf,
            by simp, by simp, hLs, Nat.le_refl _, Nat.zero_le _, ?_, ?_, ?_, ?_, ?_, ?_, ?_⟩
          · rw [hg]; split <;> rfl
          · rw [hg]; simp
          · intro i h1 hiL hne hne2 _
            rw [hg, hg]; simp only [hne, hne2, if_false]
            exact ho i h1 (by omega)
          · intro c _ _ _
            rw [hg (1 / 2)]; simp only [show (1:Nat) / 2 ≠ 1 by omega, if_false]
            rw [show (1:Nat) / 2 = 0 from rfl, hw'.2]; exact o.bot_min _
          · intro _ _
            rw [hg (1 / 2)]; simp only [show (1:Nat) / 2 ≠ 1 by omega, if_false]
            rw [show (1:Nat) / 2 = 0 from rfl, hw'.2]; exact o.bot_min _
          · intro h1L e
            constructor
            · rintro (⟨i, h1, hiL, hne, he⟩ | he)
              · rw [hg] at he; simp only [hne, if_false] at he
                exact ⟨i, by omega, by omega, he⟩
              · exact ⟨L, by omega, by omega, he.symm⟩
            · rintro ⟨i, h2, hiL, he⟩
              by_cases hiL' : i = L
              · right; rw [← he, hiL']
              · left; exact ⟨i, by omega, by omega, by omega, by rw [hg]; simp only [show i ≠ 1 by omega, if_false]; exact he⟩
          · intro hL1 e
            constructor
            · rintro ⟨i, h1, hiL, _⟩; omega
            · rintro ⟨i, h2, hiL, _⟩; omega
        obtain ⟨pos', hp', D'⟩ := bubbleDown_spec o D
        obtain ⟨fnf, flen, fsz, fz, ford, fmem⟩ := D'.final hp'
        generalize bubbleDown cfg (set ({ hp with length := L } : CHeap κ) 1 (get cfg hp L)) 1 = hp3 at *
        have hI3 : Inv cfg hp3 := by
          refine ⟨⟨fnf, Or.inr ⟨by omega, by omega, by rw [fz]; exact hw'.2⟩⟩, ?_⟩
          intro i h1 hiL; rw [flen] at hiL; exact ford i h1 hiL (Nat.zero_le _)
        have R := ih hp3 (by omega) hI3
        refine ⟨R.inv, by rw [R.sz, fsz], by have := R.len; omega, ?_, ?_, R.live⟩
        · intro e he
          obtain ⟨i, h2, hiL, hie⟩ := (fmem e).1 (R.sub e he)
          exact ⟨i, by omega, by omega, hie⟩
        · rintro e ⟨i, h1, hiL, hie⟩
          by_cases hi1 : i = 1
          · right; rw [← hie, hi1]; exact hd
          · rcases R.sup e ((fmem e).2 ⟨i, by omega, by omega, hie⟩) with h | h
            · exact Or.inl h
            · exact Or.inr h
    · simp only [rootLoop, hl, if_false]
      exact ⟨hI, rfl, Nat.le_refl _, fun _ h => h, fun _ h => Or.inl h, fun h => absurd h hl⟩

/-- `root`: the returned entry is stored, not dead, minimal among the stored entries; everything that
disappeared was dead; `NULL` is returned only if every stored entry was dead -/
theorem root_spec (o : StrictWeak cfg) (dead : Nat → Nat → Bool) {hp : CHeap κ} (hI : Inv cfg hp) :
    RootSpec cfg dead hp (root cfg dead hp).1 ∧
    ((1 < (root cfg dead hp).1.length ∧ Mem cfg (root cfg dead hp).1 (root cfg dead hp).2 ∧
        dead (root cfg dead hp).2.h (root cfg dead hp).2.c = false ∧
        ∀ e, Mem cfg (root cfg dead hp).1 e → cfg.lt e.key (root cfg dead hp).2.key = false) ∨
     ((root cfg dead hp).1.length ≤ 1 ∧ (root cfg dead hp).2 = nullEntry cfg)) := by
  have R := rootLoop_spec o dead hp.length hp (by omega) hI
  unfold root
  generalize rootLoop cfg dead hp.length hp = r at R
  by_cases hl : r.length > 1
  · have h1s : 1 < r.mem.size := by
      rcases R.inv.1.2 with h | h <;> omega
    rw [if_pos hl, chk_of_lt r h1s]
    refine ⟨R, Or.inl ⟨hl, ⟨1, Nat.le_refl _, hl, rfl⟩, R.live hl, ?_⟩⟩
    rintro e ⟨i, h1, hiL, rfl⟩
    exact R.inv.2.root_min o i h1 hiL
  · rw [if_neg hl]
    exact ⟨R, Or.inr ⟨by show r.length ≤ 1; omega, rfl⟩⟩

/-! ### `delete_events` -/

/-- result of the swap-with-last scan: the block is untouched beyond the old length, the order is
destroyed, the stored entries are exactly the old ones of other handlers -/
structure ScanSpec (cfg : Cfg κ) (h : Nat) (hp r : CHeap κ) : Prop where
  nf : r.fault = false
  sz : r.mem.size = hp.mem.size
  len : r.length ≤ hp.length
  len1 : 1 ≤ hp.length → 1 ≤ r.length
  z : get cfg r 0 = get cfg hp 0
  mem : ∀ e, Mem cfg r e ↔ Mem cfg hp e ∧ e.h ≠ h

theorem delScan_spec (h : Nat) (hp0 : CHeap κ) :
    ∀ fuel (hp : CHeap κ) cur, hp.length ≤ cur + fuel → 1 ≤ cur →
      hp.fault = false → hp.mem.size = hp0.mem.size → hp.length ≤ hp0.length → hp.length ≤ hp.mem.size →
      (1 ≤ hp0.length → 1 ≤ hp.length) → get cfg hp 0 = get cfg hp0 0 →
      (∀ i, 1 ≤ i → i < cur → i < hp.length → (get cfg hp i).h ≠ h) →
      (∀ e, Mem cfg hp e → Mem cfg hp0 e) → (∀ e, Mem cfg hp0 e → e.h ≠ h → Mem cfg hp e) →
      ScanSpec cfg h hp0 (delScan cfg h fuel hp cur) := by
  intro fuel
  induction fuel with
  | zero =>
    intro hp cur hf hc1 hnf hsz hlen hls hl1 hz hdone hsub hsup
    have : ¬ cur < hp.length := by omega
    simp only [delScan, this, if_false]
    refine ⟨hnf, hsz, hlen, hl1, hz, fun e => ⟨fun he => ⟨hsub e he, ?_⟩, fun he => hsup e he.1 he.2⟩⟩
    obtain ⟨i, h1, hiL, rfl⟩ := he
    exact hdone i h1 (by omega) hiL
  | succ fuel ih =>
    intro hp cur hf hc1 hnf hsz hlen hls hl1 hz hdone hsub hsup
    by_cases hcl : cur < hp.length
    · have hcs : cur < hp.mem.size := by omega
      simp only [delScan, hcl, if_true, chk_of_lt hp hcs]
      by_cases hh : (get cfg hp cur).h = h
      · simp only [hh, beq_self_eq_true, if_true]
        generalize hL : hp.length - 1 = L
        have hLs : L < hp.mem.size := by omega
        have e1 : chk { hp with length := L } L = { hp with length := L } := chk_of_lt _ hLs
        simp only [e1]
        have hgg : ∀ j, get cfg ({ hp with length := L } : CHeap κ) j = get cfg hp j := fun _ => rfl
        rw [hgg]
        have hg : ∀ j, get cfg (set ({ hp with length := L } : CHeap κ) cur (get cfg hp L)) j
            = if j = cur then get cfg hp L else get cfg hp j := fun j => by
          rw [get_set_lt _ j _ (show cur < ({ hp with length := L } : CHeap κ).mem.size from hcs)]; rfl
        apply ih
        · simp; omega
        · exact hc1
        · rw [fault_set _ _ (show cur < ({ hp with length := L } : CHeap κ).mem.size from hcs)]; exact hnf
        · simp [hsz]
        · simp; omega
        · simp; omega
        · intro h0; simp; have := hl1 h0; omega
        · rw [hg]; simp only [show (0:Nat) ≠ cur by omega, if_false]; exact hz
        · intro i h1 hic hiL
          rw [hg]; simp only [show i ≠ cur by omega, if_false]
          exact hdone i h1 hic (by simp at hiL; omega)
        · rintro e ⟨i, h1, hiL, he⟩
          simp at hiL
          rw [hg] at he
          by_cases hic : i = cur
          · simp only [hic, if_true] at he
            exact hsub e ⟨L, by omega, by omega, he⟩
          · simp only [hic, if_false] at he
            exact hsub e ⟨i, h1, by omega, he⟩
        · intro e he hne
          obtain ⟨i, h1, hiL, hie⟩ := hsup e he hne
          by_cases hic : i = cur
          · exfalso; apply hne; rw [← hie, hic]; exact hh
          · by_cases hiL' : i = L
            · by_cases hcL : cur = L
              · omega
              · exact ⟨cur, hc1, by simp; omega, by rw [hg]; simp only [if_true]; rw [← hiL']; exact hie⟩
            · exact ⟨i, h1, by simp; omega, by rw [hg]; simp only [hic, if_false]; exact hie⟩
      · have hh' : ((get cfg hp cur).h == h) = false := by simpa using hh
        simp only [hh', Bool.false_eq_true, if_false]
        apply ih _ _ (by omega) (by omega) hnf hsz hlen hls hl1 hz _ hsub hsup
        intro i h1 hic hiL
        by_cases hi : i = cur
        · rw [hi]; exact hh
        · exact hdone i h1 (by omega) hiL
    · simp only [delScan, hcl, if_false]
      refine ⟨hnf, hsz, hlen, hl1, hz, fun e => ⟨fun he => ⟨hsub e he, ?_⟩, fun he => hsup e he.1 he.2⟩⟩
      obtain ⟨i, h1, hiL, rfl⟩ := he
      exact hdone i h1 (by omega) hiL

/-- Floyd's heapify loop of `delete_events` (the argument counts down the loop index) -/
theorem heapify_spec (o : StrictWeak cfg) :
    ∀ idx (hp : CHeap κ), hp.fault = false →
      (idx ≠ 0 → idx < hp.length ∧ hp.length < hp.mem.size) →
      (∀ i, 1 ≤ i → i < hp.length → idx + 1 ≤ i / 2 →
        cfg.lt (get cfg hp i).key (get cfg hp (i / 2)).key = false) →
      (heapify cfg idx hp).fault = false ∧ (heapify cfg idx hp).length = hp.length ∧
      (heapify cfg idx hp).mem.size = hp.mem.size ∧ get cfg (heapify cfg idx hp) 0 = get cfg hp 0 ∧
      (∀ i, 1 ≤ i → i < hp.length → 1 ≤ i / 2 →
        cfg.lt (get cfg (heapify cfg idx hp) i).key (get cfg (heapify cfg idx hp) (i / 2)).key = false) ∧
      (∀ e, Mem cfg (heapify cfg idx hp) e ↔ Mem cfg hp e) := by
  intro idx
  induction idx with
  | zero =>
    intro hp hnf _ ho
    exact ⟨hnf, rfl, rfl, rfl, fun i h1 hL h2 => ho i h1 hL (by omega), fun _ => Iff.rfl⟩
  | succ idx ih =>
    intro hp hnf hb ho
    obtain ⟨hiL, hLs⟩ := hb (by omega)
    have his : idx + 1 < hp.mem.size := by omega
    simp only [heapify, chk_of_lt hp his]
    have hg : ∀ j, get cfg (set hp hp.length (get cfg hp (idx + 1))) j
        = if j = hp.length then get cfg hp (idx + 1) else get cfg hp j := fun j => get_set_lt hp j _ hLs
    have D : DownInv cfg hp.length hp.mem.size (idx + 1) (get cfg hp (idx + 1)) (get cfg hp 0) (Mem cfg hp)
        (set hp hp.length (get cfg hp (idx + 1))) (idx + 1) := by
      refine ⟨by rw [fault_set _ _ hLs]; exact hnf, by simp, by simp, hLs, by omega, Nat.le_refl _, ?_, ?_, ?_, ?_, ?_, ?_, ?_⟩
      · rw [hg]; simp
      · rw [hg]; simp only [show (0:Nat) ≠ hp.length by omega, if_false]
      · intro i h1 hL hne hne2 hlo
        rw [hg, hg]; simp only [show i ≠ hp.length by omega, show i / 2 ≠ hp.length by omega, if_false]
        exact ho i h1 hL (by omega)
      · intro c _ _ h; omega
      · intro _ h; omega
      · intro _ e
        constructor
        · rintro (⟨i, h1, hL, hne, he⟩ | he)
          · rw [hg] at he; simp only [show i ≠ hp.length by omega, if_false] at he
            exact ⟨i, h1, hL, he⟩
          · exact ⟨idx + 1, by omega, hiL, he.symm⟩
        · rintro ⟨i, h1, hL, he⟩
          by_cases hi : i = idx + 1
          · right; rw [← he, hi]
          · left; exact ⟨i, h1, hL, hi, by rw [hg]; simp only [show i ≠ hp.length by omega, if_false]; exact he⟩
      · intro h; omega
    obtain ⟨pos', hp', D'⟩ := bubbleDown_spec o D
    obtain ⟨fnf, flen, fsz, fz, ford, fmem⟩ := D'.final hp'
    generalize bubbleDown cfg (set hp hp.length (get cfg hp (idx + 1))) (idx + 1) = hp3 at *
    obtain ⟨r1, r2, r3, r4, r5, r6⟩ := ih hp3 fnf (fun h => by rw [flen, fsz]; exact ⟨by omega, hLs⟩)
      (fun i h1 hL h2 => by rw [flen] at hL; exact ford i h1 hL h2)
    refine ⟨r1, by rw [r2, flen], by rw [r3, fsz], by rw [r4, fz], ?_, fun e => by rw [r6, fmem]⟩
    intro i h1 hL h2
    exact r5 i h1 (by rw [flen]; exact hL) h2

/-- `delete_events`: the heap invariant is restored and exactly the entries of handler `h` are gone -/
theorem deleteEvents_spec (o : StrictWeak cfg) {hp : CHeap κ} (h : Nat) (hI : Inv cfg hp) :
    Inv cfg (deleteEvents cfg hp h) ∧ (deleteEvents cfg hp h).mem.size = hp.mem.size ∧
    (∀ e, Mem cfg (deleteEvents cfg hp h) e ↔ Mem cfg hp e ∧ e.h ≠ h) := by
  obtain ⟨⟨hnf, hw⟩, ho⟩ := hI
  have hls : hp.length ≤ hp.mem.size := by rcases hw with h | h <;> omega
  have S := delScan_spec (cfg := cfg) h hp hp.length hp 1 (by omega) (Nat.le_refl _) hnf rfl (Nat.le_refl _) hls
    (fun h => h) rfl (fun i h1 h2 => by omega) (fun _ h => h) (fun _ h _ => h)
  unfold deleteEvents
  generalize delScan cfg h hp.length hp 1 = r at S
  have hb : r.length / 2 ≠ 0 → r.length / 2 < r.length ∧ r.length < r.mem.size := by
    intro h0
    have := S.len; have := S.sz
    rcases hw with h | h
    · omega
    · omega
  obtain ⟨r1, r2, r3, r4, r5, r6⟩ := heapify_spec o (r.length / 2) r S.nf hb (fun i h1 hL h2 => by omega)
  refine ⟨⟨⟨r1, ?_⟩, ?_⟩, by rw [r3, S.sz], fun e => by rw [r6, S.mem]⟩
  · rcases hw with h | h
    · left; exact ⟨by rw [r2]; have := S.len; omega, by rw [r3, S.sz]; exact h.2⟩
    · right
      exact ⟨by rw [r2]; exact S.len1 h.1, by rw [r2, r3, S.sz]; have := S.len; omega, by rw [r4, S.z]; exact h.2.2⟩
  · intro i h1 hL
    rw [r2] at hL
    by_cases h2 : 1 ≤ i / 2
    · exact r5 i h1 hL h2
    · have h0 : i / 2 = 0 := by omega
      have hb0 : (get cfg hp 0).key = cfg.bot := by
        rcases hw with h | h
        · have := S.len; omega
        · exact h.2.2
      rw [h0, r4, S.z, hb0]; exact o.bot_min _
end JF.Heap
