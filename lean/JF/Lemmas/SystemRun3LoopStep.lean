import JF.Lemmas.SystemRun3LoopDefs
/-!
The induction step of the joint invariant of the composed system for composite objects WITH cell systems (E41): the pieces
(`mid_run3`: the activator-level machine of C09 makes the step that the leg's `get_event_handlers_to_run` is, FOR THE TRANSITION
RELATION `Tr3L` — premise `StaysInRecordedCell` included; `cb_exists3`: by C09's freshness the cell-boundary event of a cell system IS
pending while a relevant unit is active on its level; `trashes_cb_of_ident3`: a commit that may change the active unit trashes every
cell-boundary tagger), the first leg (`first_step3`) and every later leg (`big_step3`).
-/
namespace JF.Sys3L
open JF JF.Act JF.Heap JF.Sched JF.Med JF.CW3 JF.C14 JF.MediatorLoop JF.Sys JF.Sys3 JF.Composite JF.C12 JF.Kin JF.Footprints3

section
variable {env : Env ℚ} {geo : ∀ l, Geo (cwEnv env l)} {mw : ModeWiring} {S : TaggerIdx} {needs : HandlerId → Bool}

theorem hyp3_static (H : Hyp3L env mw S) : Med.Static (mwire mw.w S needs) :=
  static_of_wiringSound mw.w S needs H.sound H.start

theorem hyp3_fps (H : Hyp3L env mw S) : FootprintsSound mw.w (world3 env mw) (Tr3 env mw) :=
  footprintsSound_concrete3 env H.box mw H.supp

/-- the invariant of C09's run induction at a state of a run over `Tr3L` -/
theorem runInv3 (H : Hyp3L env mw S) {rs : RS (G3 env mw)} (h : Run mw.w (world3 env mw) (Tr3L env mw) S rs) :
    RunInv mw.w (world3 env mw) S rs :=
  Act.run_inv mw.w (world3 env mw) (Tr3 env mw) S H.sound H.start (hyp3_fps H) (liveIs3 env mw)
    (run_mono (fun _ _ _ htr => trRaw3_of_leafOnly H.leaf htr) h)

/-- in a state of a run: the tagger of a pending handler is in range, live, activated, and may commit -/
theorem can_commit3 (H : Hyp3L env mw S) {rs : RS (G3 env mw)} (inv : RunInv mw.w (world3 env mw) S rs) {E : TaggerIdx}
    (hE : (getT rs.act E).running ≠ []) (hend : (mw.w.tagger E).kind ≠ .endOfRun) :
    E < mw.w.n ∧ (mw.w.tagger E).kind ≠ .startOfRun ∧ canCommit mw.w (absOf rs.act) E = true := by
  obtain ⟨hSn, hSk, hSu⟩ := start_spec H.start
  have hEn : E < mw.w.n := by
    rcases Nat.lt_or_ge E mw.w.n with h | h
    · exact h
    · exfalso; apply hE
      rw [getT_of_le _ _ (by rw [inv.pool.1, mw.w.wires_length]; exact h)]; rfl
  have hEk : (mw.w.tagger E).kind ≠ .startOfRun := by
    intro hk
    have := hSu E hEn hk
    subst this
    exact hE inv.startIdle
  have hEl : (world3 env mw).live E := ⟨hEn, hEk⟩
  have hEa : aGet (absOf rs.act) E = true := by
    rw [aGet_absOf]
    cases ha : (getT rs.act E).activated
    · exact absurd (fresh_nil_of_deactivated (inv.fresh E hEl) ha) hE
    · rfl
  refine ⟨hEn, hEk, ?_⟩
  unfold canCommit
  simp only [hEa, Bool.true_and, Bool.and_eq_true, bne_iff_ne, ne_eq]
  exact ⟨hEk, hend⟩

/-- the tagger of a pending handler (not the end of run) is in range and not the start-of-run tagger, without a run: in the
middle of the leg the start-of-run tagger has no running handler -/
theorem endOfRun_of_stop3 {cl : Committed XTime} {E : TaggerIdx} (ho : owner mw.w.wires cl.handler = some E)
    (hst : cl.stop = (mwire mw.w S needs).endOfRun cl.handler) :
    cl.stop = ((mw.w.tagger E).kind == HandlerKind.endOfRun) := by
  rw [hst]
  show (match owner mw.w.wires cl.handler with
    | some E => (mw.w.tagger E).kind == HandlerKind.endOfRun
    | none => false) = _
  rw [ho]

/-- **a commit that may change the active unit trashes the (activated) cell-boundary tagger of every cell system** — read off
`WiringSound` (the cell-boundary tagger's yield reads the identity of the active unit) -/
theorem trashes_cb_of_ident3 (H : Hyp3L env mw S) {rs : RS (G3 env mw)} (inv : RunInv mw.w (world3 env mw) S rs)
    {E : TaggerIdx} (hE : (getT rs.act E).running ≠ []) (hend : (mw.w.tagger E).kind ≠ .endOfRun)
    (haff : affects (mw.w.tagger E) .ident = true) {B : TaggerIdx} (hB : B < mw.w.n)
    (hBc : (mw.w.tagger B).cls = .cellBoundary) (hBk : (mw.w.tagger B).kind = .cellBoundary)
    (hBa : aGet (absOf rs.act) B = true) : B ∈ (mw.w.tagger E).trashes := by
  obtain ⟨hEn, _, hcan⟩ := can_commit3 H inv hE hend
  obtain ⟨_, _, hviol⟩ := sound_unpack H.sound H.start
  have hBs : (mw.w.tagger B).kind ≠ .startOfRun := by rw [hBk]; decide
  obtain ⟨cl1, _, cl3, _⟩ := clauses_of_no_violation (no_violation hviol inv.reach hEn hcan hB) hBs
  by_contra ht
  by_cases hc : B ∈ (mw.w.tagger E).creates
  · have := cl1 hc ht; rw [hBa] at this; cases this
  · rcases (cl3 ht hc).2 with h | h
    · rw [hBa] at h; cases h
    · have := JF.CW.disjoint_ident h haff
      simp [reads, hBc] at this

/-- C09's freshness for the cell-boundary tagger of cell system `l` says that its event IS pending while a relevant unit is active
on the cell level of `l` -/
theorem cb_exists3 {rs : RS (G3 env mw)} (inv : RunInv mw.w (world3 env mw) S rs) {l : Nat} (hl : l < mw.w.labels.length)
    {B : TaggerIdx} (hB : B < mw.w.n) (hBc : (mw.w.tagger B).cls = .cellBoundary) (hBl : isCBT mw.w l B = true)
    (hBa : (getT rs.act B).activated = true) {a : Nat} (hact : activeOn env l rs.g.1.cs = [a])
    (hrel : (env.oe l).relevant a = true) : ∃ hb, hb ∈ (getT rs.act B).running := by
  obtain ⟨hBk, hBlab⟩ := isCBT_kind hBl
  have fr := inv.fresh B ⟨hB, by rw [hBk]; decide⟩
  have len := fr.length_eq
  simp only [List.length_map] at len
  obtain ⟨h1, h2⟩ := rs.g.2.2 l hl
  have hact' : unitsOn env.base.nPer (env.oe l).level (CW2.flags rs.g.1.cs) = [a] := hact
  rw [hact'] at h1
  simp only [expectedActive, hrel, if_true] at h1
  rw [h1] at h2
  have hy : (world3 env mw).yieldOf B rs.g = [some [identOf env.base.nPer (env.oe l).level a]] := by
    show yieldCls3 env B (mw.w.tagger B).cls (mw.w.tagger B).label rs.g.1.cs rs.g.1.occs = _
    rw [hBc, hBlab]
    cases hx : (getOcc rs.g.1.occs l).activeCell with
    | none => rw [hx] at h2; simp at h2
    | some c0 => simp [yieldCls3, isCellCls, yieldCell, CW.wrapIds, CellTaggers.cellVetoTagger, tocc, h1, hx]
  rw [hy] at len
  simp only [yieldEff, hBa, if_true, List.length_singleton] at len
  cases hr : (getT rs.act B).running with
  | nil => rw [hr] at len; simp at len
  | cons x _ => exact ⟨x, by simp⟩

/-- a cell-boundary handler of a supported wiring names one of the internal states -/
theorem cb_label (hs : Supported3 mw = true) {B : TaggerIdx} (hk : (mw.w.tagger B).kind = .cellBoundary) :
    ∃ l, (mw.w.tagger B).label = some l ∧ l < mw.w.labels.length := by
  rcases supported3_tagger hs B with h | ⟨_, h⟩
  · simp only [okT, Bool.and_eq_true, Bool.or_eq_true, Bool.not_eq_true'] at h
    rcases h.2 with h' | h'
    · rw [hk] at h'; simp at h'
    · cases hl : (mw.w.tagger B).label with
      | none => rw [hl] at h'; cases h'
      | some l => rw [hl] at h'; exact ⟨l, rfl, by simpa using h'⟩
  · rw [hk] at h; cases h

variable {cs : List (Committed XTime)} {cl : Committed XTime} {s : Sys3} {E : TaggerIdx} {tl : Time ℚ}

theorem occs_step (big : Big3 env mw S needs cs cl s E tl) {o : Oracle XTime} {cm : Committed XTime} {s' : Sys3}
    (st : SysStep3 env geo mw S needs s o cm s') : OccsUpdated env mw.w.labels.length s.occs s'.occs s.cs := by
  have := st.occ1
  rw [if_pos big.started] at this
  exact this

/-- the activator-level machine of C09 makes the step that this leg's `get_event_handlers_to_run` is: the state in the middle of
the leg satisfies `Inv3` and is a state of a `JF.Act.Run` **for the transition relation `Tr3L`, premise `StaysInRecordedCell`
included** (it is `Big3.stays`, derived in the previous step of the induction) -/
theorem mid_run3 (H : Hyp3L env mw S) (big : Big3 env mw S needs cs cl s E tl) (hgo : cl.stop = false)
    (ntl : TieFreeLeg3 mw (pendOf (fun _ => none) cs.dropLast) cl)
    {o : Oracle XTime} {cm : Committed XTime} {s' : Sys3} (st : SysStep3 env geo mw S needs s o cm s') :
    ∃ hi' : Inv3 env mw ⟨s.cs, .leaf, s'.occs⟩,
      Run mw.w (world3 env mw) (Tr3L env mw) S ⟨s'.mid, s'.ids, ⟨_, hi'⟩⟩ := by
  obtain ⟨hi, hph⟩ := big.phase
  have hocc := occs_step big st
  have hi' : Inv3 env mw ⟨s.cs, .leaf, s'.occs⟩ :=
    ⟨big.invNext, consAll_after (s := ⟨s.csPrev, .leaf, s.occs⟩) (s' := ⟨s.cs, .leaf, s'.occs⟩) hi.2 hocc⟩
  refine ⟨hi', ?_⟩
  let g0 : G3 env mw := ⟨⟨s.csPrev, .leaf, s.occs⟩, hi⟩
  let g1 : G3 env mw := ⟨⟨s.cs, .leaf, s'.occs⟩, hi'⟩
  show Run mw.w (world3 env mw) (Tr3L env mw) S ⟨s'.mid, s'.ids, g1⟩
  obtain ⟨a1, s1, a2, s3, hrun, -⟩ := leg_ok st.leg
  have hmid : s'.mid = a1.ts := by rw [st.mid']; exact midAct_eq hrun
  rw [big.prec] at hrun
  have hupd : update mw.w.wires s.med.act.ts E o.yields = some (s'.mid, cm.created) := by
    rw [hmid]; exact getToRun_started big.started big.owner hrun
  have hy : (fun T => (world3 env mw).yieldOf T g1) = o.yields := by rw [st.yields]; rfl
  have hcommit : ∀ (ids : HandlerId → IdTuple) (g : G3 env mw),
      commit mw.w.wires (world3 env mw) ⟨s.mid, ids, g⟩ E g1 = some ⟨s'.mid, assign ids cm.created, g1⟩ := by
    intro ids g
    unfold commit
    simp only [hy]
    rw [← big.trashEq, hupd]
  rcases hph with ⟨_, hES, _, ids0, out, hfirst, hids⟩ | hrunp
  · subst hES
    have hc := hcommit (assign ids0 out) g0
    rw [← hids, ← st.ids'] at hc
    rw [hids] at hc
    exact Run.start (c := mw.w) (W := world3 env mw) (Tr := Tr3L env mw) (S := E) ids0 g0 g1 s.mid out
      ⟨s'.mid, s'.ids, g1⟩ hfirst hc
  · have hpend : (getT s.mid E).running ≠ [] := List.ne_nil_of_mem big.running
    have hend : (mw.w.tagger E).kind ≠ .endOfRun := by
      have := endOfRun_of_stop3 big.owner big.stopEq
      rw [hgo] at this
      intro hk; rw [hk] at this; simp at this
    have inv := runInv3 H hrunp
    obtain ⟨hEn, hEk, _⟩ := can_commit3 H inv hpend hend
    obtain ⟨e, hk, _, ⟨ha, _⟩, hcs⟩ := big.commit
    have htr : Tr3L env mw E g0 g1 :=
      ⟨hEn, rfl, rfl, ⟨e, hk, not_start_kind H.supp hEn hEk hk, ha, hcs⟩, hocc,
        fun l hl haff => big.stays l hl haff (ntl E l big.owner hl haff)⟩
    have hc := hcommit s.ids g0
    rw [← st.ids'] at hc
    exact Run.step (c := mw.w) (W := world3 env mw) (Tr := Tr3L env mw) (S := S) ⟨s.mid, s.ids, g0⟩ ⟨s'.mid, s'.ids, g1⟩ E g1
      hrunp hpend hend htr hc

/-- the candidate times pushed in a leg are normalised finite times or `inf`; the cell-boundary candidates of cell system `l` among
them are times until which the active unit on the level of `l` stays in the cell of its position; the others are not before the last
commit -/
theorem pushed_facts3 (hs : Supported3 mw = true) {csg : List (CObj ℚ)} {o : Oracle XTime}
    {created : List (HandlerId × IdTuple)} (htl : Normalised tl)
    (hc : CandsOK3 env geo mw csg (.fin tl) o created) {h : HandlerId} {t : XTime}
    (hm : (h, t) ∈ created.map (fun q => (q.1, o.cand q.1))) :
    NormX t ∧ xcfg.lt t (.fin tl) = false ∧
    ∀ l, isCBH mw l h → ∃ τ, t = .fin τ ∧ Normalised τ ∧ Track env l csg tl τ := by
  obtain ⟨q, hq, hqe⟩ := List.mem_map.mp hm
  simp only [Prod.mk.injEq] at hqe
  obtain ⟨rfl, rfl⟩ := hqe
  obtain ⟨h1, h2⟩ := hc q hq
  have cbfacts : ∀ l, isCBH mw l q.1 → ∃ τ, o.cand q.1 = .fin τ ∧ Normalised τ ∧ Track env l csg tl τ ∧ val tl < val τ := by
    rintro l ⟨B, hB, hBl⟩
    obtain ⟨a, u, v, ts, hact, hu, hv, hts, hbox, hvok, hlast, hcand⟩ := h1 B l hB hBl
    have hte : tl = ts := by injection hlast
    subst hte
    have hpl : u.pos.length = env.base.L.length := ((inBox_iff _ _).mp hbox).1
    have hvl : v.length = env.base.L.length := (geo l).vlen v hvok
    refine ⟨_, hcand, add_normalised _ _ htl, ⟨a, u, v, tl, hact, hu, hv, hts, le_refl _, hpl, hvl, ?_⟩, ?_⟩
    · exact stayUntil_of_geo (geo l) hbox hvok
    · rw [add_val]; linarith [(geo l).pos u.pos v hbox hvok]
  by_cases hkq : kindOfH mw.w q.1 = .cellBoundary
  · -- a cell-boundary handler: its tagger names an internal state
    have hown : ∃ B, owner mw.w.wires q.1 = some B := by
      unfold kindOfH at hkq
      cases ho : owner mw.w.wires q.1 with
      | none => rw [ho] at hkq; cases hkq
      | some B => exact ⟨B, rfl⟩
    obtain ⟨B, hB⟩ := hown
    have hBk : (mw.w.tagger B).kind = .cellBoundary := by rw [← kindOfH_of_owner hB]; exact hkq
    obtain ⟨l0, hl0, _⟩ := cb_label hs hBk
    have hcbt : isCBT mw.w l0 B = true := by unfold isCBT; simp [hBk, hl0]
    obtain ⟨τ, hτ, hτn, _, hlt⟩ := cbfacts l0 ⟨B, hB, hcbt⟩
    refine ⟨by rw [hτ]; exact hτn, by rw [hτ, xlt_false_iff hτn htl]; exact le_of_lt hlt, fun l hl => ?_⟩
    obtain ⟨τ', h1', h2', h3', _⟩ := cbfacts l hl
    exact ⟨τ', h1', h2', h3'⟩
  · obtain ⟨hn, hlt⟩ := h2 hkq
    refine ⟨hn, hlt, ?_⟩
    rintro l ⟨B, hB, hBl⟩
    exact absurd (by rw [kindOfH_of_owner hB]; exact (isCBT_kind hBl).1) hkq

/-- **the induction step** (every leg after the first) -/
theorem big_step3 (H : Hyp3L env mw S) (big : Big3 env mw S needs cs cl s E tl) (hgo : cl.stop = false)
    (ntl : TieFreeLeg3 mw (pendOf (fun _ => none) cs.dropLast) cl)
    {o : Oracle XTime} {cm : Committed XTime} {s' : Sys3} (st : SysStep3 env geo mw S needs s o cm s') :
    ∃ E' tl', Big3 env mw S needs (cs ++ [cm]) cm s' E' tl' := by
  have hs : Med.Static (mwire mw.w S needs) := hyp3_static H
  have pok : PoolsOK mw.w.wires := poolsOK_wires mw.w
  obtain ⟨hi', hrun'⟩ := mid_run3 H big hgo ntl st
  have inv' := runInv3 H hrun'
  obtain ⟨minv', ok, hpushed, hprec', hstop', E', hE0, hrunE0, htr0, hts0⟩ :=
    leg_inv (specLaws xcfg_strictWeak) hs big.med st.leg
  obtain ⟨pmid0, mirr0, _⟩ := mid_mirror hs big.med st.leg
  obtain ⟨a1, s1, a2, s3, hgtr, _, _, hgtrash, _, hst', _, _⟩ := leg_ok st.leg
  have hrunE' : cm.handler ∈ (getT s'.mid E').running := by rw [st.mid']; exact hrunE0
  have htr' : cm.trashed = (trash mw.w.wires s'.mid E').2 := by rw [st.mid']; exact htr0
  have hts' : s'.med.act.ts = (trash mw.w.wires s'.mid E').1 := by rw [st.mid']; exact hts0
  have pmid : PoolInv mw.w.wires s'.mid := by rw [st.mid']; exact pmid0
  have mirr : ∀ x, (pendPushed (pendOf (fun _ => none) cs) cm x).isSome ↔ ∃ T, x ∈ (getT s'.mid T).running := by
    rw [st.mid']; exact mirr0
  have hE' : owner mw.w.wires cm.handler = some E' := hE0
  clear hrunE0 htr0 hts0 pmid0 mirr0 hE0
  obtain ⟨t', E'', ht'eq, hE'', hcom⟩ := st.ev
  have hEE : E' = E'' := by rw [hE'] at hE''; exact Option.some.inj hE''
  subst hEE
  have hocc := occs_step big st
  have hcands := st.cands
  rw [big.med.rel.last, big.time] at hcands
  -- every pending time in the middle of the leg
  have normP : ∀ h t, pendPushed (pendOf (fun _ => none) cs) cm h = some t → NormX t := by
    intro h t e
    rcases pushAll_some _ _ e with h1 | h1
    · exact big.norm h t h1
    · rw [hpushed] at h1; exact (pushed_facts3 (geo := geo) H.supp big.tnorm hcands h1).1
  -- every pending cell-boundary candidate in the middle of the leg
  have midcb : ∀ l, l < mw.w.labels.length → ∀ hb tb, isCBH mw l hb →
      pendPushed (pendOf (fun _ => none) cs) cm hb = some tb → ∃ τ, tb = .fin τ ∧ Normalised τ ∧ Track env l s.cs tl τ := by
    intro l hl hb tb hcb e
    rcases pushAll_some _ _ e with h1 | h1
    · exact big.cb l hl hgo ntl hb tb hcb h1
    · rw [hpushed] at h1; exact (pushed_facts3 (geo := geo) H.supp big.tnorm hcands h1).2.2 l hcb
  -- the committed time
  have ht'n : Normalised t' := by
    have := normP _ _ ok.pending
    rw [ht'eq] at this; exact this
  have hle : val tl ≤ val t' := by
    have := ok.guard
    rw [ht'eq, big.time] at this
    exact (xlt_false_iff ht'n big.tnorm).mp this
  -- a pending cell-boundary candidate is not before the commit; strictly after it if there is no tie
  have cb_after : ∀ l hb tb τ, isCBH mw l hb → pendPushed (pendOf (fun _ => none) cs) cm hb = some tb →
      tb = .fin τ → Normalised τ → val t' ≤ val τ ∧ (NoTie3 mw l (pendOf (fun _ => none) cs) cm → val t' < val τ) := by
    intro l hb tb τ hcb e hτ hτn
    have hmin := ok.minimal hb tb e (by rw [hτ]; rfl)
    rw [hτ, ht'eq] at hmin
    have h1 := (xlt_false_iff hτn ht'n).mp hmin
    refine ⟨h1, fun hnt => lt_of_le_of_ne h1 ?_⟩
    intro heq
    apply hnt hb hcb
    rw [e, hτ, ht'eq, normalised_ext hτn ht'n heq.symm]
  have hstopE' := endOfRun_of_stop3 hE' hstop'
  have hpendE' : (getT s'.mid E').running ≠ [] := List.ne_nil_of_mem hrunE'
  have hE'n : E' < mw.w.n := by rw [← mw.w.wires_length]; exact owner_lt hE'
  have hE'k : (mw.w.tagger E').kind ≠ .startOfRun := by
    intro hk
    obtain ⟨_, _, hSu⟩ := start_spec H.start
    have := hSu E' hE'n hk
    subst this
    exact hpendE' inv'.startIdle
  -- the state after the commit
  have hcom0 := hcom
  obtain ⟨e', hk', _, ⟨ha', _⟩, hcs'⟩ := hcom
  have hms : modeStep .leaf e' = some .leaf :=
    modeStep_leafOnly (leafOnly_hmode H.leaf hE'n) hk' (not_start_kind H.supp hE'n hE'k hk')
  have hinv' : CW2.Inv env.base ⟨s'.cs, .leaf⟩ := by
    rw [hcs']; exact CW2.inv_step (s := ⟨s.cs, .leaf⟩) H.box hi'.1 hms ha'
  clear hcs' ha' hk' hms
  cases hs' : s' with
  | mk med' cs' occs' ids' csPrev' mid' =>
  subst hs'
  have hprev := st.prev
  simp only at hprev
  subst hprev
  simp only at hi' hrun' inv' hrunE' htr' hts' pmid mirr hocc hinv' hcom0 hpendE'
  refine ⟨E', t', ?_⟩
  refine
    { med := by rw [pendOf_snoc]; exact minv'
      started := ?_
      prec := hprec'
      owner := hE'
      stopEq := hstop'
      trashEq := hts'
      running := hrunE'
      time := ht'eq
      tnorm := ht'n
      norm := ?_
      phase := ⟨hi', Or.inr hrun'⟩
      commit := hcom0
      invNext := hinv'
      mirror := ?_
      stays := ?_
      cb := ?_ }
  · -- started
    have h1 := getToRun_ok_started hgtr
    have h2 := getTrashable_started hgtrash
    have : med' = ⟨a2, s3, some cm.handler⟩ := hst'
    rw [this]; show a2.started = true; rw [h2, h1]
  · -- norm
    intro h t e
    rw [pendOf_snoc] at e
    have e' : dropAll (pendPushed (pendOf (fun _ => none) cs) cm) cm.trashed h = some t := e
    rw [dropAll_eq] at e'
    split at e'
    · cases e'
    · exact normP h t e'
  · -- mirror
    intro _ l hl a hm hrel
    obtain ⟨a0, hm0, hu0⟩ := occAfter_some (hocc l hl)
    have hm0' : activeOn env l s.cs = [a0] := hm0
    have : a0 = a := by rw [hm] at hm0'; simpa using hm0'.symm
    subst this
    exact update_activeCell hu0 hrel
  · -- stays: the former premise of `Tr3`
    intro l hl haff hnt
    rw [List.dropLast_concat] at hnt
    intro a hm hrel
    obtain ⟨S0, hS0⟩ := quiet_commit H.supp (ident_false_of_cell_false haff) hcom0
    have hS0' : cs' = sliceAt Ops.rat env.base.L t' S0 s.cs := hS0
    have hm' : activeOn env l s.cs = [a] := by
      have : CW2.flags cs' = CW2.flags s.cs := by rw [hS0']; exact flags_sliceAt _ _ _ _
      unfold activeOn; rw [← this]; exact hm
    obtain ⟨a0, hm0, hu0⟩ := occAfter_some (hocc l hl)
    have hm0' : activeOn env l s.cs = [a0] := hm0
    have : a0 = a := by rw [hm'] at hm0'; simpa using hm0'.symm
    subst this
    have hcell := update_activeCell hu0 hrel
    rw [hcell]
    show some ((env.oe l).cellOf (posOn env.base.nPer (env.oe l).level s.cs a0)) =
      some ((env.oe l).cellOf (posOn env.base.nPer (env.oe l).level cs' a0))
    congr 1
    rw [hS0']
    cases hu : Sys2.unitAt s.cs (identOf env.base.nPer (env.oe l).level a0) with
    | none =>
      rw [posOn_unitAt, posOn_unitAt, hu, unitAt_sliceAt_none _ _ _ _ _ hu]
    | some u =>
      cases hv : u.vel with
      | none =>
        obtain ⟨u', hu', hp⟩ := rest_sliceAt env.base.L t' S0 hu hv
        rw [posOn_unitAt, posOn_unitAt, hu, hu']
        simp [hp]
      | some v =>
        -- the unit moves: by C09 the cell-boundary event of `l` is pending, by minimality + no tie strictly later
        obtain ⟨B, hB, hBc, hBl, _, hBr⟩ := cbWired3_spec H.cb hl
        have hBa : (getT mid' B).activated = true := by
          have := hBr _ inv'.reach
          rw [aGet_absOf] at this; exact this
        obtain ⟨hb, hhb⟩ := cb_exists3 (rs := ⟨mid', ids', ⟨_, hi'⟩⟩) inv' hl hB hBc hBl hBa hm' hrel
        have hcbh : isCBH mw l hb := ⟨B, owner_of_running pok pmid hhb, hBl⟩
        obtain ⟨tb, htb⟩ := Option.isSome_iff_exists.mp ((mirr hb).mpr ⟨B, hhb⟩)
        obtain ⟨τ, hτ, hτn, htrack⟩ := midcb l hl hb tb hcbh htb
        have hlt := (cb_after l hb tb τ hcbh htb hτ hτn).2 hnt
        exact ((track_quiet H.box.2 htrack hle hlt S0).2 a0 hm').symm
  · -- the pending cell-boundary candidates after the trash
    intro l hl hstop hntc hb tb hcbh e
    rw [List.dropLast_concat] at hntc
    rw [pendOf_snoc] at e
    have e' : dropAll (pendPushed (pendOf (fun _ => none) cs) cm) cm.trashed hb = some tb := e
    rw [dropAll_eq] at e'
    split at e'
    · cases e'
    · next hnt =>
      obtain ⟨τ, hτ, hτn, htrack⟩ := midcb l hl hb tb hcbh e'
      have hend : (mw.w.tagger E').kind ≠ .endOfRun := by
        intro hk; rw [hstopE', hk] at hstop; simp at hstop
      obtain ⟨B, hoB, hBl⟩ := hcbh
      obtain ⟨T, hT⟩ := (mirr hb).mp (by rw [e']; rfl)
      have hTB : T = B := by
        have := owner_of_running pok pmid hT
        rw [hoB] at this; exact (Option.some.inj this).symm
      subst hTB
      have hTn : T < mw.w.n := by rw [← mw.w.wires_length]; exact owner_lt hoB
      obtain ⟨B0, hB0, hB0c, _, hB0u, hB0r⟩ := cbWired3_spec H.cb hl
      have hTB0 : T = B0 := hB0u T hTn hBl
      subst hTB0
      have haff : affects (mw.w.tagger E') (.cell l) = false := by
        cases hne : affects (mw.w.tagger E') (.cell l) with
        | false => rfl
        | true =>
          exfalso
          apply hnt
          have hin : T ∈ (mw.w.tagger E').trashes := by
            cases hid : affects (mw.w.tagger E') .ident with
            | true =>
              have hBa : aGet (absOf mid') T = true := hB0r _ inv'.reach
              exact trashes_cb_of_ident3 (rs := ⟨mid', ids', ⟨_, hi'⟩⟩) H inv' hpendE' hend hid hB0 hB0c (isCBT_kind hBl).1 hBa
            | false =>
              have := hB0u E' hE'n (isCBT_of_affects hid hne)
              subst this
              obtain ⟨hwf, _, _⟩ := sound_unpack H.sound H.start
              exact (static_of_wfStatic hwf).self_trash _ hE'n
          rw [htr']
          exact (trashLoop_out_mem _ _ hb).mpr ⟨T, by rw [(getW_wires mw.w E').2.1]; exact hin, hT⟩
      obtain ⟨S0, hS0⟩ := quiet_commit H.supp (ident_false_of_cell_false haff) hcom0
      have hS0' : cs' = sliceAt Ops.rat env.base.L t' S0 s.cs := hS0
      have hlt := (cb_after l hb tb τ ⟨T, hoB, hBl⟩ e' hτ hτn).2 (hntc E' l hE' hl haff)
      refine ⟨τ, hτ, hτn, ?_⟩
      rw [hS0']
      exact (track_quiet H.box.2 htrack hle hlt S0).1

/-- **`CandOK` of E1 for a leg after the first** (every candidate of a handler handed out is not before the last commit): by
hypothesis for the handlers that are not cell-boundary handlers, DERIVED for the cell-boundary handlers — the candidate is the time
stamp of the active unit on the cell level, which is the time of the last commit, plus a positive time to the boundary (`Geo.pos`) -/
theorem candOK_step3 (H : Hyp3L env mw S) (big : Big3 env mw S needs cs cl s E tl) {o : Oracle XTime} {cm : Committed XTime}
    {s' : Sys3} (st : SysStep3 env geo mw S needs s o cm s') : ∀ q ∈ cm.pushed, xcfg.lt q.2 cl.time = false := by
  obtain ⟨a1, s1, a2, s3, _, _, _, _, _, _, hpushed, _⟩ := leg_ok st.leg
  intro q hq
  rw [hpushed] at hq
  have hc := st.cands
  rw [big.med.rel.last, big.time] at hc
  rw [big.time]
  exact (pushed_facts3 (geo := geo) H.supp big.tnorm hc (h := q.1) (t := q.2) hq).2.1

/-- **C08, clause (h) at a leg of the composed system** (no footprint hypothesis, no history premise): when the committed event may
change the motion of a unit, every handler of an interaction / cell-veto tagger that is running in the middle of the leg is in the
leg's trash list -/
theorem stale_trashed_step3 (H : Hyp3L env mw S) (big : Big3 env mw S needs cs cl s E tl) (hgo : cl.stop = false)
    (ntl : TieFreeLeg3 mw (pendOf (fun _ => none) cs.dropLast) cl)
    {o : Oracle XTime} {cm : Committed XTime} {s' : Sys3} (st : SysStep3 env geo mw S needs s o cm s')
    {E' : TaggerIdx} (hE' : owner mw.w.wires cm.handler = some E') (hm : affects (mw.w.tagger E') .motion = true)
    {T : TaggerIdx} (hT : T < mw.w.n) (hb : motionBound (mw.w.tagger T) = true) {h : HandlerId}
    (hh : h ∈ (getT s'.mid T).running) : h ∈ cm.trashed := by
  have hs : Med.Static (mwire mw.w S needs) := hyp3_static H
  obtain ⟨hi', hrun'⟩ := mid_run3 H big hgo ntl st
  obtain ⟨_, _, _, _, _, E0, hE0, hrunE0, htr0, _⟩ := leg_inv (specLaws xcfg_strictWeak) hs big.med st.leg
  have hE0' : owner mw.w.wires cm.handler = some E0 := hE0
  rw [hE'] at hE0'
  have : E' = E0 := Option.some.inj hE0'
  subst this
  have hrunE' : cm.handler ∈ (getT s'.mid E').running := by rw [st.mid']; exact hrunE0
  have htr' : cm.trashed = (trash mw.w.wires s'.mid E').2 := by rw [st.mid']; exact htr0
  have hend : (mw.w.tagger E').kind ≠ .endOfRun := by
    intro hk; simp [affects, hk] at hm
  rcases clause_h_concrete3 env H.box mw S H.sound H.start H.supp
      (run_mono (fun _ _ _ htr => trRaw3_of_leafOnly H.leaf htr) hrun') (E := E')
      (List.ne_nil_of_mem hrunE') hend hm hT hb with h1 | h1
  · rw [htr']
    exact (trashLoop_out_mem _ _ h).mpr ⟨T, h1, hh⟩
  · have h1' : (getT s'.mid T).running = [] := h1
    rw [h1'] at hh; cases hh

end

section first
variable {env : Env ℚ} {geo : ∀ l, Geo (cwEnv env l)} {mw : ModeWiring} {S : TaggerIdx} {needs : HandlerId → Bool}

theorem evKind_start3 {e : Composite.Ev ℚ} (h : CW2.evKind e = .start) : ∃ i P v, e = .start i P v := by
  cases e <;> simp [CW2.evKind] at h
  exact ⟨_, _, _, rfl⟩

/-- the first call of the activator: only the start-of-run tagger runs something -/
theorem first_leg_only (H : Hyp3L env mw S) {s : Sys3} (hi : Init3 env mw s) {o : Oracle XTime} {cm : Committed XTime}
    {s' : Sys3} (st : SysStep3 env geo mw S needs s o cm s') :
    first mw.w.wires (initAct mw.w.wires) S o.yields = some (s'.mid, cm.created) ∧ s'.occs = s.occs ∧
    (∀ T, T ≠ S → (getT s'.mid T).running = []) ∧
    ∀ h, (pendPushed (fun _ => none) cm h).isSome → kindOfH mw.w h = .startOfRun := by
  have hs : Med.Static (mwire mw.w S needs) := hyp3_static H
  have pok : PoolsOK mw.w.wires := poolsOK_wires mw.w
  obtain ⟨_, hSk, _⟩ := start_spec H.start
  have minv0 : MInv (I := specI xcfg) (mwire mw.w S needs) (SRel xcfg) s.med (fun _ => none) xcfg.bot := by
    rw [hi.med]; exact minv_init (specLaws xcfg_strictWeak) (mwire mw.w S needs)
  obtain ⟨pmid0, mirr0, _⟩ := mid_mirror hs minv0 st.leg
  obtain ⟨a1, s1, a2, s3, hgtr, _⟩ := leg_ok st.leg
  have pmid : PoolInv mw.w.wires s'.mid := by rw [st.mid']; exact pmid0
  have mirr : ∀ x, (pendPushed (fun _ => none) cm x).isSome ↔ ∃ T, x ∈ (getT s'.mid T).running := by
    rw [st.mid']; exact mirr0
  have hmid : s'.mid = a1.ts := by rw [st.mid']; exact midAct_eq hgtr
  have hact0 : s.med.act = ⟨false, initAct mw.w.wires⟩ := by rw [hi.med]; rfl
  have hpre0 : s.med.preceding = none := by rw [hi.med]; rfl
  rw [hpre0] at hgtr
  obtain ⟨hfirst, _⟩ := getToRun_first (by rw [hact0]) hgtr
  rw [hact0] at hfirst
  have hfirst : first mw.w.wires (initAct mw.w.wires) S o.yields = some (s'.mid, cm.created) := by rw [hmid]; exact hfirst
  have hocc : s'.occs = s.occs := by
    have := st.occ1
    rw [hact0] at this
    simpa using this
  have honly : ∀ T, T ≠ S → (getT s'.mid T).running = [] := by
    intro T hT
    have hne : T ∉ [S] := by simp [hT]
    have hf := hfirst
    unfold first at hf
    rw [createLoop_frame hf hne, applyActivation_running, getT_initAct]
    split <;> rfl
  refine ⟨hfirst, hocc, honly, ?_⟩
  intro h hp
  obtain ⟨T, hT⟩ := (mirr h).mp hp
  have : T = S := by
    by_contra hne
    rw [honly T hne] at hT; simp at hT
  subst this
  rw [kindOfH_of_owner (owner_of_running pok pmid hT)]; exact hSk

/-- **the base case**: the first leg (the start-of-run handler is handed out and commits) -/
theorem first_step3 (H : Hyp3L env mw S) {s : Sys3} (hi : Init3 env mw s) {o : Oracle XTime} {cm : Committed XTime} {s' : Sys3}
    (st : SysStep3 env geo mw S needs s o cm s') :
    ∃ E' tl', Big3 env mw S needs ([] ++ [cm]) cm s' E' tl' := by
  have hs : Med.Static (mwire mw.w S needs) := hyp3_static H
  obtain ⟨hSn, hSk, _⟩ := start_spec H.start
  have minv0 : MInv (I := specI xcfg) (mwire mw.w S needs) (SRel xcfg) s.med (fun _ => none) xcfg.bot := by
    rw [hi.med]; exact minv_init (specLaws xcfg_strictWeak) (mwire mw.w S needs)
  obtain ⟨minv', ok, hpushed, hprec', hstop', E', hE0, hrunE0, htr0, hts0⟩ :=
    leg_inv (specLaws xcfg_strictWeak) hs minv0 st.leg
  obtain ⟨a1, s1, a2, s3, hgtr, _, _, hgtrash, _, hst', _, _⟩ := leg_ok st.leg
  have hrunE' : cm.handler ∈ (getT s'.mid E').running := by rw [st.mid']; exact hrunE0
  have hts' : s'.med.act.ts = (trash mw.w.wires s'.mid E').1 := by rw [st.mid']; exact hts0
  have hE' : owner mw.w.wires cm.handler = some E' := hE0
  clear hrunE0 htr0 hts0 hE0
  obtain ⟨hfirst, hocc, honly, hkS⟩ := first_leg_only H hi st
  have hact0 : s.med.act = ⟨false, initAct mw.w.wires⟩ := by rw [hi.med]; rfl
  have hpre0 : s.med.preceding = none := by rw [hi.med]; rfl
  rw [hpre0] at hgtr
  obtain ⟨_, hst1⟩ := getToRun_first (by rw [hact0]) hgtr
  have hES : E' = S := by
    by_contra hne
    rw [honly E' hne] at hrunE'; simp at hrunE'
  subst hES
  obtain ⟨t', E'', ht'eq, hE'', hcom⟩ := st.ev
  have hEE : E' = E'' := by rw [hE'] at hE''; exact Option.some.inj hE''
  subst hEE
  -- pending times in the middle of the leg: only those pushed now, of start-of-run handlers
  have hcands := st.cands
  have normP : ∀ h t, pendPushed (fun _ => none) cm h = some t → NormX t ∧ kindOfH mw.w h = .startOfRun := by
    intro h t e
    have hk : kindOfH mw.w h = .startOfRun := hkS h (by rw [e]; rfl)
    have hne : kindOfH mw.w h ≠ .cellBoundary := by rw [hk]; decide
    rcases pushAll_some _ _ e with h1 | h1
    · cases h1
    · rw [hpushed] at h1
      obtain ⟨q, hq, hqe⟩ := List.mem_map.mp h1
      simp only [Prod.mk.injEq] at hqe
      obtain ⟨rfl, rfl⟩ := hqe
      exact ⟨((hcands q hq).2 hne).1, hk⟩
  have ht'n : Normalised t' := by
    have := (normP _ _ ok.pending).1
    rw [ht'eq] at this; exact this
  -- the start-of-run event
  have hcom0 := hcom
  obtain ⟨e, hk, _, ⟨ha, hsm⟩, hcs⟩ := hcom
  have hstart : ∃ b, mw.hmode E' = .start b := by
    have hag := supported3_agree H.supp hSn
    rw [hSk] at hag
    revert hag
    cases mw.hmode E' <;> simp [kindAgrees]
  obtain ⟨b, hb⟩ := hstart
  rw [hb] at hk
  simp only [kindsOf, List.mem_singleton] at hk
  obtain ⟨i, P, v, rfl⟩ := evKind_start3 hk
  have hsm := hsm i P v rfl
  cases hs' : s' with
  | mk med' cs' occs' ids' csPrev' mid' =>
  subst hs'
  have hprev := st.prev
  simp only at hprev hcs hocc
  subst hprev
  subst hcs
  subst hocc
  simp only at hrunE' hts' hfirst honly hcom0
  have hi0 : Inv3 env mw ⟨s.cs, .leaf, s.occs⟩ := ⟨CW2.inv_rest hi.good hi.unif hi.rest .leaf, hi.cons⟩
  have hy : (fun T => (world3 env mw).yieldOf T ⟨_, hi0⟩) = o.yields := by rw [st.yields]; rfl
  refine ⟨E', t', ?_⟩
  refine
    { med := by rw [pendOf_snoc]; exact minv'
      started := ?_
      prec := hprec'
      owner := hE'
      stopEq := hstop'
      trashEq := hts'
      running := hrunE'
      time := ht'eq
      tnorm := ht'n
      norm := ?_
      phase := ⟨hi0, Or.inl ⟨rfl, rfl, hi.rest, s.ids, cm.created, by rw [hy]; exact hfirst, st.ids'⟩⟩
      commit := hcom0
      invNext := CW2.inv_start H.box hi.good hi.unif hi.rest ha hsm
      mirror := fun h2 => absurd h2 (by simp)
      stays := ?_
      cb := ?_ }
  · have h2 := getTrashable_started hgtrash
    have : med' = ⟨a2, s3, some cm.handler⟩ := hst'
    rw [this]; show a2.started = true; rw [h2, hst1]
  · intro h t e
    rw [pendOf_snoc] at e
    have e' : dropAll (pendPushed (fun _ => none) cm) cm.trashed h = some t := e
    rw [dropAll_eq] at e'
    split at e'
    · cases e'
    · exact (normP h t e').1
  · intro l _ haff _
    simp [affects, hSk] at haff
  · intro l _ _ _ hb tb hcbh e
    rw [pendOf_snoc] at e
    have e' : dropAll (pendPushed (fun _ => none) cm) cm.trashed hb = some tb := e
    rw [dropAll_eq] at e'
    split at e'
    · cases e'
    · exfalso
      obtain ⟨B, hoB, hBl⟩ := hcbh
      have h1 := (normP hb tb e').2
      rw [kindOfH_of_owner hoB, (isCBT_kind hBl).1] at h1
      cases h1

end first

end JF.Sys3L
