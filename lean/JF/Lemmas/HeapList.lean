import JF.Lemmas.HeapSched
/-! Refinement of the model of `ListScheduler` (`list_scheduler.py`) against the reference model. -/
namespace JF.Sched
open JF.Heap
variable {κ : Type} {cfg : Cfg κ}

/-- refinement relation between the list scheduler and the reference model -/
structure LRel (ls : LSched κ) (live : Live κ) : Prop where
  mem : ∀ h t, (t, h) ∈ ls.times ↔ live h = some t
  nodup : ls.times.Pairwise (fun a b => a.2 ≠ b.2)

theorem lrel_init (cfg : Cfg κ) : LRel (LSched.init cfg) (fun _ => none) :=
  ⟨fun h t => by simp [LSched.init], by simp [LSched.init]⟩

theorem lpush_rel {ls : LSched κ} {live : Live κ} (L : LRel ls live) (t : κ) {h : Nat}
    (hl : live h = none) : LRel (ls.push t h) (live.set h (some t)) := by
  refine ⟨fun h' t' => ?_, ?_⟩
  · simp only [LSched.push, List.mem_append, List.mem_singleton, Prod.mk.injEq, Live.set]
    by_cases hh : h' = h
    · subst hh
      simp only [if_true, and_true]
      constructor
      · rintro (h1 | h1)
        · rw [(L.mem _ _).1 h1] at hl; cases hl
        · rw [h1]
      · intro h1; cases h1; exact Or.inr rfl
    · simp only [hh, if_false, and_false, or_false]; exact L.mem h' t'
  · simp only [LSched.push]
    rw [List.pairwise_append]
    refine ⟨L.nodup, by simp, ?_⟩
    rintro ⟨t', h'⟩ ha b hb
    simp only [List.mem_singleton] at hb; subst hb
    intro heq; simp only at heq; subst heq
    rw [(L.mem _ _).1 ha] at hl; cases hl

theorem mem_eraseP_handler (h : Nat) : ∀ (l : List (κ × Nat)), l.Pairwise (fun a b => a.2 ≠ b.2) →
    ∀ x, x ∈ l.eraseP (fun p => p.2 == h) ↔ x ∈ l ∧ x.2 ≠ h := by
  intro l
  induction l with
  | nil => intro _ x; simp
  | cons a l ih =>
    intro hp x
    rw [List.pairwise_cons] at hp
    by_cases ha : a.2 = h
    · have : (fun p : κ × Nat => p.2 == h) a = true := by simpa using ha
      rw [List.eraseP_cons_of_pos (p := fun p : κ × Nat => p.2 == h) this]
      constructor
      · intro hx; exact ⟨List.mem_cons_of_mem _ hx, fun hxh => hp.1 x hx (by rw [ha, hxh])⟩
      · rintro ⟨hx, hxh⟩
        rcases List.mem_cons.1 hx with rfl | hx
        · exact absurd ha hxh
        · exact hx
    · have : ¬ (fun p : κ × Nat => p.2 == h) a = true := by simpa using ha
      rw [List.eraseP_cons_of_neg (p := fun p : κ × Nat => p.2 == h) this, List.mem_cons, List.mem_cons, ih hp.2]
      constructor
      · rintro (rfl | ⟨h1, h2⟩)
        · exact ⟨Or.inl rfl, ha⟩
        · exact ⟨Or.inr h1, h2⟩
      · rintro ⟨rfl | h1, h2⟩
        · exact Or.inl rfl
        · exact Or.inr ⟨h1, h2⟩

theorem ltrash_rel {ls : LSched κ} {live : Live κ} (L : LRel ls live) (h : Nat) :
    (live h = none → ls.trash h = none) ∧
    (∀ t, live h = some t → ∃ ls', ls.trash h = some ls' ∧ LRel ls' (live.set h none)) := by
  constructor
  · intro hl
    have : ls.times.any (fun p => p.2 == h) = false := by
      rw [List.any_eq_false]
      rintro ⟨t', h'⟩ hm
      simp only [beq_iff_eq]
      intro heq; subst heq
      rw [(L.mem _ _).1 hm] at hl; cases hl
    simp [LSched.trash, this]
  · intro t hl
    have : ls.times.any (fun p => p.2 == h) = true := by
      rw [List.any_eq_true]
      exact ⟨(t, h), (L.mem _ _).2 hl, by simp⟩
    refine ⟨{ ls with times := ls.times.eraseP (fun p => p.2 == h) }, by simp [LSched.trash, this], fun h' t' => ?_, ?_⟩
    · simp only [mem_eraseP_handler h _ L.nodup, Live.set]
      by_cases hh : h' = h
      · simp [hh]
      · simp only [hh, if_false, ne_eq, not_false_eq_true, and_true]; exact L.mem h' t'
    · exact L.nodup.sublist (List.eraseP_sublist)

theorem minBy_spec (o : StrictWeak cfg) : ∀ (l : List (κ × Nat)) (x : κ × Nat),
    minBy cfg.lt x l ∈ x :: l ∧ ∀ e ∈ x :: l, cfg.lt e.1 (minBy cfg.lt x l).1 = false := by
  intro l
  induction l with
  | nil => intro x; simp [minBy, o.irrefl]
  | cons a l ih =>
    intro x
    have hstep : minBy cfg.lt x (a :: l) = minBy cfg.lt (if cfg.lt a.1 x.1 then a else x) l := by
      simp [minBy, List.foldl]
    rw [hstep]
    cases hax : cfg.lt a.1 x.1 with
    | true =>
      simp only [if_true]
      obtain ⟨h1, h2⟩ := ih a
      refine ⟨?_, ?_⟩
      · rcases List.mem_cons.1 h1 with h | h
        · rw [h]; simp
        · exact List.mem_cons_of_mem _ (List.mem_cons_of_mem _ h)
      · intro e he
        rcases List.mem_cons.1 he with rfl | he
        · have ham := h2 a (List.mem_cons_self ..)
          cases hem : cfg.lt e.1 (minBy cfg.lt a l).1 with
          | false => rfl
          | true => have := o.trans _ _ _ hax hem; rw [ham] at this; cases this
        · exact h2 e he
    | false =>
      simp only [Bool.false_eq_true, if_false]
      obtain ⟨h1, h2⟩ := ih x
      refine ⟨?_, ?_⟩
      · rcases List.mem_cons.1 h1 with h | h
        · rw [h]; simp
        · exact List.mem_cons_of_mem _ (List.mem_cons_of_mem _ h)
      · intro e he
        rcases List.mem_cons.1 he with rfl | he
        · exact h2 e (List.mem_cons_self ..)
        · rcases List.mem_cons.1 he with rfl | he
          · exact o.ntrans _ _ _ hax (h2 x (List.mem_cons_self ..))
          · exact h2 e (List.mem_cons_of_mem _ he)

/-- what `get_succeeding_event` of the list scheduler returns, in terms of the reference model -/
def LGetOK (cfg : Cfg κ) (live : Live κ) : GetRes κ → Prop
  | .ok h t | .guard h t => live h = some t ∧ ∀ h' t', live h' = some t' → cfg.lt t' t = false
  | .empty => ∀ h, live h = none

theorem lget_rel (o : StrictWeak cfg) {ls : LSched κ} {live : Live κ} (L : LRel ls live) :
    (ls.get cfg).1.times = ls.times ∧ LGetOK cfg live (ls.get cfg).2 := by
  unfold LSched.get
  cases hts : ls.times with
  | nil =>
    refine ⟨hts, fun h => ?_⟩
    cases hl : live h with
    | none => rfl
    | some t => have := (L.mem h t).2 hl; rw [hts] at this; cases this
  | cons x xs =>
    obtain ⟨h1, h2⟩ := minBy_spec o xs x
    have key : live (minBy cfg.lt x xs).2 = some (minBy cfg.lt x xs).1 ∧
        ∀ h' t', live h' = some t' → cfg.lt t' (minBy cfg.lt x xs).1 = false := by
      refine ⟨(L.mem _ _).1 (by rw [hts]; exact h1), fun h' t' hl => ?_⟩
      have := (L.mem h' t').2 hl
      rw [hts] at this
      exact h2 _ this
    simp only
    split
    · exact ⟨hts, key⟩
    · exact ⟨rfl, key⟩
end JF.Sched
