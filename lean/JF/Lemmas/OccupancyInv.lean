import JF.Model.Occupancy
import JF.Lemmas.Occupancy
import JF.Lemmas.PyArith
import Mathlib.Tactic.Positivity
/-!
Definitions (`OccInv` — the statement of property C11 on the model — and its ingredients) and the
helper lemmas behind the theorems of `JF/Props/C11.lean`: the loop invariant of `initialize`, the two
blocks of `update`, and the exact-arithmetic one-direction cell grid used by the boundary theorems.
-/
namespace JF.C11
open JF JF.Occ

/-- the surplus list stored under cell `c` (`[]` if the dictionary has no such key) -/
def surAt (s : State) (c : Cell) : List UId := (s.surplus.get? c).getD []

/-- how often unit `u` is on record under cell `c` (occupant list + surplus list) -/
def recCount (s : State) (u : UId) (c : Cell) : Nat := (s.occupants c).count u + (surAt s c).count u

/-- structural part: unique dictionary keys, no empty surplus list, occupant limit respected -/
structure WF (s : State) : Prop where
  keys_nodup : s.surplus.keys.Nodup
  no_empty : ∀ c, s.surplus.get? c ≠ some []
  cap : 0 < s.cap → ∀ c, ((s.occupants c).length : Int) ≤ s.cap

/-- `f u = some c`: unit `u` is on record exactly once, under cell `c`; `f u = none`: nowhere -/
def Rec (s : State) (f : UId → Option Cell) : Prop :=
  ∀ u c, recCount s u c = if f u = some c then 1 else 0

/-- **The property.**  Every relevant non-active unit is recorded exactly once, in the occupant or
surplus list of the cell containing its position, and nothing else is recorded; the active unit is in
no list but recorded as the active unit of the cell containing its position; no cell lists more
occupants than the limit (and the dictionary is well formed). -/
structure OccInv (rel : UId → Bool) (cellOf : UId → Cell) (s : State) : Prop where
  wf : WF s
  active : (s.activeId = none ∧ s.activeCell = none) ∨
           (∃ a, s.activeId = some a ∧ s.activeCell = some (cellOf a) ∧ rel a = true)
  count : Rec s (fun u => if rel u = true ∧ s.activeId ≠ some u then some (cellOf u) else none)

/-! ### `insert` (the block shared by `initialize` and `update`) -/

@[simp] theorem insert_cap (s : State) (c : Cell) (u : UId) : (Occ.insert s c u).cap = s.cap := by
  unfold Occ.insert; split <;> rfl
@[simp] theorem insert_activeId (s : State) (c : Cell) (u : UId) : (Occ.insert s c u).activeId = s.activeId := by
  unfold Occ.insert; split <;> rfl
@[simp] theorem insert_activeCell (s : State) (c : Cell) (u : UId) :
    (Occ.insert s c u).activeCell = s.activeCell := by
  unfold Occ.insert; split <;> rfl

theorem insert_count (s : State) (c : Cell) (u : UId) (u' : UId) (c' : Cell) :
    recCount (Occ.insert s c u) u' c' = recCount s u' c' + if u' = u ∧ c' = c then 1 else 0 := by
  unfold Occ.insert
  split
  · simp only [recCount, surAt, setAt_apply]
    by_cases hc : c' = c
    · subst hc; simp only [if_true, List.count_append, List.count_singleton]; grind
    · simp [hc]
  · simp only [recCount, surAt, Dict.get?_appendAt]
    by_cases hc : c' = c
    · subst hc; simp only [if_true, Option.getD_some, List.count_append, List.count_singleton]; grind
    · simp [hc]

theorem insert_wf {s : State} (h : WF s) (c : Cell) (u : UId) : WF (Occ.insert s c u) := by
  unfold Occ.insert
  split
  · rename_i hr
    refine ⟨h.keys_nodup, h.no_empty, ?_⟩
    intro hcap c'
    simp only [setAt_apply]
    split
    · rename_i hc; subst hc
      simp only [hasRoom, Bool.or_eq_true, decide_eq_true_eq] at hr
      simp only [List.length_append, List.length_singleton]
      have := h.cap hcap c'
      simp only at hcap
      omega
    · exact h.cap hcap c'
  · refine ⟨Dict.nodup_keys_appendAt _ _ _ h.keys_nodup, ?_, h.cap⟩
    intro c'
    simp only [Dict.get?_appendAt]
    split
    · simp
    · exact h.no_empty c'

/-! ### `dropEmpty` (`if not self._surplus.get(cell, True): del self._surplus[cell]`) -/

@[simp] theorem dropEmpty_occupants (s : State) (c : Cell) : (dropEmpty s c).occupants = s.occupants := by
  unfold dropEmpty; split <;> rfl
@[simp] theorem dropEmpty_cap (s : State) (c : Cell) : (dropEmpty s c).cap = s.cap := by
  unfold dropEmpty; split <;> rfl
@[simp] theorem dropEmpty_activeId (s : State) (c : Cell) : (dropEmpty s c).activeId = s.activeId := by
  unfold dropEmpty; split <;> rfl
@[simp] theorem dropEmpty_activeCell (s : State) (c : Cell) : (dropEmpty s c).activeCell = s.activeCell := by
  unfold dropEmpty; split <;> rfl

/-- deleting an *empty* list does not change what is on record -/
theorem dropEmpty_surAt (s : State) (c c' : Cell) : surAt (dropEmpty s c) c' = surAt s c' := by
  unfold dropEmpty
  split
  · rename_i h
    simp only [surAt, Dict.get?_del]
    split
    · rename_i hc; subst hc; simp [h]
    · rfl
  · rfl

theorem dropEmpty_count (s : State) (c : Cell) (u : UId) (c' : Cell) :
    recCount (dropEmpty s c) u c' = recCount s u c' := by
  simp [recCount, dropEmpty_surAt]

/-- `dropEmpty` restores "no empty surplus list" if `c` was the only possible offender -/
theorem dropEmpty_wf {s : State} (hk : s.surplus.keys.Nodup)
    (hne : ∀ c', c' ≠ c → s.surplus.get? c' ≠ some [])
    (hcap : 0 < s.cap → ∀ c, ((s.occupants c).length : Int) ≤ s.cap) : WF (dropEmpty s c) := by
  unfold dropEmpty
  split
  · refine ⟨Dict.nodup_keys_del _ _ hk, ?_, hcap⟩
    intro c'
    simp only [Dict.get?_del]
    split
    · simp
    · rename_i hc; exact hne c' hc
  · rename_i hno
    refine ⟨hk, ?_, hcap⟩
    intro c'
    by_cases hc : c' = c
    · subst hc; exact fun h => hno h
    · exact hne c' hc

/-! ### `initialize` -/

/-- the relevance predicate and the cell function read off the list handed to `initialize` -/
def relOf (units : List UnitIn) (u : UId) : Bool := units.any (fun x => x.id == u && x.relevant)
def cellOfUnits (units : List UnitIn) (u : UId) : Cell :=
  match units.find? (fun x => x.id == u) with
  | some x => x.cell
  | none => 0

theorem empty_inv (cap : Int) : WF (State.empty cap) ∧ Rec (State.empty cap) (fun _ => none) := by
  refine ⟨⟨by simp [State.empty, Dict.keys], by simp [State.empty],
    by intro h c; simp only [State.empty] at h ⊢; simp only [List.length_nil]; omega⟩, ?_⟩
  intro u c; simp [recCount, surAt, State.empty]

theorem relOf_cons (x : UnitIn) (t : List UnitIn) (u : UId) :
    relOf (x :: t) u = ((x.id == u && x.relevant) || relOf t u) := by
  simp [relOf, List.any_cons]

theorem cellOfUnits_cons (x : UnitIn) (t : List UnitIn) (u : UId) :
    cellOfUnits (x :: t) u = if x.id = u then x.cell else cellOfUnits t u := by
  simp only [cellOfUnits, List.find?_cons]
  by_cases h : x.id = u
  · simp [h]
  · have : (x.id == u) = false := by simpa using h
    simp [this, h]

theorem relOf_of_not_mem (t : List UnitIn) (u : UId) (h : ∀ y ∈ t, y.id ≠ u) : relOf t u = false := by
  simp only [relOf, List.any_eq_false, Bool.and_eq_true, beq_iff_eq, not_and]
  intro y hy h'; exact absurd h' (h y hy)

/-- generalised loop invariant of `initialize`: after processing a duplicate-free list, exactly the
relevant units of the list are on record, each under its cell -/
theorem foldl_inv (units : List UnitIn) :
    ∀ (s : State) (f : UId → Option Cell), WF s → Rec s f → s.activeId = none → s.activeCell = none →
      (units.map (·.id)).Nodup → (∀ x ∈ units, f x.id = none) →
      let s' := units.foldl (fun s u => if u.relevant then Occ.insert s u.cell u.id else s) s
      WF s' ∧ s'.activeId = none ∧ s'.activeCell = none ∧ s'.cap = s.cap ∧
      Rec s' (fun u => if relOf units u = true then some (cellOfUnits units u) else f u) := by
  induction units with
  | nil => intro s f hw hr ha hc _ _; exact ⟨hw, ha, hc, rfl, by simpa [relOf] using hr⟩
  | cons x t ih =>
    intro s f hw hr ha hc hnd hfresh
    simp only [List.map_cons, List.nodup_cons] at hnd
    simp only [List.foldl_cons]
    have hxt : ∀ y ∈ t, y.id ≠ x.id := fun y hy h => hnd.1 (h ▸ List.mem_map_of_mem hy)
    have hnt : relOf t x.id = false := relOf_of_not_mem t x.id hxt
    have hfx := hfresh x (List.mem_cons_self ..)
    by_cases hx : x.relevant = true
    · simp only [hx, if_true]
      have hr1 : Rec (Occ.insert s x.cell x.id) (fun u => if u = x.id then some x.cell else f u) := by
        intro u c
        rw [insert_count, hr u c]
        by_cases hu : u = x.id
        · subst hu; simp only [hfx, true_and, if_true]; grind
        · simp [hu]
      have := ih (Occ.insert s x.cell x.id) _ (insert_wf hw _ _) hr1 (by simpa using ha) (by simpa using hc) hnd.2
        (by intro y hy; simp only [hxt y hy, if_false]; exact hfresh y (List.mem_cons_of_mem _ hy))
      obtain ⟨h1, h2, h3, h4, h5⟩ := this
      refine ⟨h1, h2, h3, by simpa using h4, ?_⟩
      intro u c
      rw [h5 u c]
      simp only [relOf_cons, cellOfUnits_cons, hx, Bool.and_true, Bool.or_eq_true, beq_iff_eq]
      by_cases hu : u = x.id
      · subst hu; simp [hnt]
      · have hu' : ¬ x.id = u := fun h => hu h.symm
        simp [hu, hu']
    · have hx' : x.relevant = false := by simpa using hx
      simp only [hx', Bool.false_eq_true, if_false]
      have := ih s f hw hr ha hc hnd.2 (fun y hy => hfresh y (List.mem_cons_of_mem _ hy))
      obtain ⟨h1, h2, h3, h4, h5⟩ := this
      refine ⟨h1, h2, h3, h4, ?_⟩
      intro u c
      rw [h5 u c]
      simp only [relOf_cons, cellOfUnits_cons, hx', Bool.and_false, Bool.false_or]
      by_cases hu : u = x.id
      · subst hu; simp [hnt]
      · have hu' : ¬ x.id = u := fun h => hu h.symm
        simp [hu']

/-! ### `update` -/

/-- after the first block of `update` everything relevant is on record (the previous active unit
under its *recorded* cell) and no error was raised -/
theorem reinsertOld_spec {rel : UId → Bool} {cellOf : UId → Cell} {s : State} (h : OccInv rel cellOf s) :
    ∃ s1, reinsertOld s = .ok s1 ∧ WF s1 ∧
      Rec s1 (fun u => if rel u = true then some (cellOf u) else none) := by
  rcases h.active with ⟨ha, hc⟩ | ⟨a, ha, hc, hra⟩
  · refine ⟨s, by simp [reinsertOld, ha], h.wf, ?_⟩
    intro u c
    have := h.count u c
    simp only [ha] at this
    simpa using this
  · refine ⟨Occ.insert s (cellOf a) a, by simp [reinsertOld, ha, hc], insert_wf h.wf _ _, ?_⟩
    intro u c
    rw [insert_count, h.count u c]
    by_cases hu : u = a
    · subst hu; simp only [ha, hra]; grind
    · have : s.activeId ≠ some u := by rw [ha]; simpa using fun h => hu h.symm
      simp [hu, this]

theorem wf_of_fields {s t : State} (h : WF s) (h1 : t.surplus = s.surplus) (h2 : t.occupants = s.occupants)
    (h3 : t.cap = s.cap) : WF t :=
  ⟨h1 ▸ h.keys_nodup, h1 ▸ h.no_empty, by rw [h2, h3]; exact h.cap⟩

/-- the second block of `update`: from "everything relevant on record" to the property with the new
active unit; none of the error branches (`IndexError`, `KeyError`, `ValueError`) is taken -/
theorem activate_inv {rel : UId → Bool} {cellOf : UId → Cell} {s1 : State} (new : UnitIn) (hw : WF s1)
    (hr : Rec s1 (fun u => if rel u = true then some (cellOf u) else none))
    (hrel : new.relevant = rel new.id) (hcell : new.cell = cellOf new.id) :
    ∃ s', activate s1 new = .ok s' ∧ OccInv rel cellOf s' := by
  unfold activate
  by_cases hn : new.relevant = true
  · simp only [hn, if_true]
    have hreln : rel new.id = true := hrel ▸ hn
    have h1 : recCount s1 new.id new.cell = 1 := by rw [hr]; simp [hreln, hcell]
    have hother : ∀ c, c ≠ new.cell → recCount s1 new.id c = 0 := by
      intro c hc; rw [hr]; simp only [hreln, if_true, Option.some.injEq]
      rw [if_neg]; rw [← hcell]; exact fun h => hc h.symm
    by_cases hm : new.id ∈ s1.occupants new.cell
    · simp only [hm, if_true]
      have hne := hw.no_empty new.cell
      split
      · rename_i hg; exact absurd hg hne
      · refine ⟨_, rfl, ?_, ?_, ?_⟩
        · refine dropEmpty_wf ?_ ?_ ?_
          · exact hw.keys_nodup
          · exact fun c' _ => hw.no_empty c'
          intro hcap c
          simp only [setAt_apply]
          split
          · have := hw.cap hcap new.cell
            have hl := List.length_erase_of_mem hm
            rename_i hc; subst hc
            show (((s1.occupants new.cell).erase new.id).length : Int) ≤ s1.cap
            omega
          · exact hw.cap hcap c
        · exact Or.inr ⟨new.id, by simp, by simp [hcell], hreln⟩
        · intro u c
          rw [dropEmpty_count]
          have hrc := hr u c
          simp only [recCount, surAt, setAt_apply, dropEmpty_activeId] at hrc ⊢
          have hpos : 0 < (s1.occupants new.cell).count new.id := List.count_pos_iff.mpr hm
          simp only [recCount, surAt] at h1 hother
          by_cases hc : c = new.cell
          · subst hc
            simp only [if_true, List.count_erase]
            by_cases hu : u = new.id
            · subst hu; simp; omega
            · have hu' : ¬ new.id = u := fun h => hu h.symm
              simp only [beq_iff_eq, hu', if_false, Nat.sub_zero, hrc]
              simp [hu']
          · simp only [hc, if_false, hrc]
            by_cases hu : u = new.id
            · subst hu
              have hcc : ¬ cellOf new.id = c := by rw [← hcell]; exact fun h => hc h.symm
              simp [hreln, hcc]
            · have hu' : ¬ new.id = u := fun h => hu h.symm
              simp [hu']
    · simp only [hm, if_false]
      have hz : (s1.occupants new.cell).count new.id = 0 := List.count_eq_zero.mpr hm
      simp only [recCount, surAt] at h1
      cases hg : s1.surplus.get? new.cell with
      | none => simp [hg, hz] at h1
      | some l =>
        simp only [hg, Option.getD_some, hz, Nat.zero_add] at h1
        have hml : new.id ∈ l := List.count_pos_iff.mp (by omega)
        simp only [hml, if_true]
        have hkey : new.cell ∈ s1.surplus.keys := by
          by_contra hk; rw [(Dict.get?_eq_none_iff _ _).mpr hk] at hg; cases hg
        refine ⟨_, rfl, ?_, ?_, ?_⟩
        · refine dropEmpty_wf ?_ ?_ ?_
          · simp only [Dict.keys_set]; exact hw.keys_nodup
          · intro c' hc'
            simp only [Dict.get?_set, hc', false_and, if_false]
            exact hw.no_empty c'
          · exact hw.cap
        · exact Or.inr ⟨new.id, by simp, by simp [hcell], hreln⟩
        · intro u c
          rw [dropEmpty_count]
          have hrc := hr u c
          simp only [recCount, surAt, Dict.get?_set, hkey, and_true, dropEmpty_activeId] at hrc ⊢
          simp only [recCount, surAt] at hother
          by_cases hc : c = new.cell
          · subst hc
            simp only [if_true, Option.getD_some, List.count_erase, hg] at hrc ⊢
            by_cases hu : u = new.id
            · subst hu; simp; omega
            · have hu' : ¬ new.id = u := fun h => hu h.symm
              simp only [beq_iff_eq, hu', if_false, Nat.sub_zero, hrc]
              simp [hu']
          · simp only [hc, if_false, hrc]
            by_cases hu : u = new.id
            · subst hu
              have hcc : ¬ cellOf new.id = c := by rw [← hcell]; exact fun h => hc h.symm
              simp [hreln, hcc]
            · have hu' : ¬ new.id = u := fun h => hu h.symm
              simp [hu']
  · have hn' : new.relevant = false := by simpa using hn
    simp only [hn', Bool.false_eq_true, if_false]
    refine ⟨_, rfl, wf_of_fields hw rfl rfl rfl, Or.inl ⟨rfl, rfl⟩, ?_⟩
    intro u c
    have := hr u c
    simp only [recCount, surAt] at this ⊢
    rw [this]; simp

/-! ### exact-arithmetic cell grid in one direction -/

/-- exact-arithmetic geometry of one direction: `n` cells of side `side`, box length `n * side` -/
structure Grid where
  n : ℕ
  side : ℚ
  hn : 0 < n
  hside : 0 < side

namespace Grid
def L (g : Grid) : ℚ := g.n * g.side
/-- `_cell_identifier(x) = min(int(x / side), n - 1)`, the index `position_to_cell` computes in this direction -/
def idx (g : Grid) (x : ℚ) : ℤ := min (Ops.rat.toInt (x / g.side)) ((g.n : ℤ) - 1)
/-- lower edge of cell `i` (exact reading of `cell_min`) -/
def cmin (g : Grid) (i : ℕ) : ℚ := i * g.side

theorem idx_eq (g : Grid) {x : ℚ} {i : ℕ} (hi : i < g.n) (h0 : g.cmin i ≤ x) (h1 : x < g.cmin (i + 1)) :
    g.idx x = i := by
  have hs := g.hside
  simp only [cmin, Nat.cast_add, Nat.cast_one] at h0 h1
  have h0' : (i : ℚ) ≤ x / g.side := by rw [le_div_iff₀ hs]; exact h0
  have h1' : x / g.side < (i : ℚ) + 1 := by rw [div_lt_iff₀ hs]; exact h1
  have hnn : 0 ≤ x / g.side := le_trans (by positivity) h0'
  have hfl : ⌊x / g.side⌋ = (i : ℤ) := by
    rw [Int.floor_eq_iff]
    exact ⟨by exact_mod_cast h0', by exact_mod_cast h1'⟩
  simp only [idx, rat_toInt, trunc_nonneg hnn, hfl]
  omega
end Grid

end JF.C11
