import JF.Model.Mediator
import JF.Lemmas.HeapList
/-!
The scheduler laws the mediator loop relies on (`Laws`), stated against the ghost dictionary "candidate time of the pending
event of each handler" (`Pend`), and their proofs for the three instances of `JF.Med.SchedI`:
the spec-level scheduler (directly), the model of `ListScheduler` and the model of `HeapScheduler`/`heap.c` (from the
refinement lemmas of C06: `JF/Lemmas/HeapSched.lean`, `JF/Lemmas/HeapList.lean`).
-/
namespace JF.Med
open JF.Act JF.Heap JF.Sched

variable {κ : Type}

/-- ghost: the time handed to `push_event` for the pending (pushed, not yet trashed) event of each handler -/
abbrev Pend (κ : Type) := HandlerId → Option κ

def upd (p : Pend κ) (h : HandlerId) (v : Option κ) : Pend κ := fun x => if x = h then v else p x

@[simp] theorem upd_self (p : Pend κ) (h : HandlerId) (v : Option κ) : upd p h v h = v := by simp [upd]
theorem upd_ne (p : Pend κ) {h x : HandlerId} (v : Option κ) (hx : x ≠ h) : upd p h v x = p x := by simp [upd, hx]

/-- the dictionary over the object numbers of `JF.Sched` (`h + 1`; `0` = `NULL`) -/
def shift (p : Pend κ) : Live κ := fun n => match n with
  | 0 => none
  | h + 1 => p h

theorem shift_set (p : Pend κ) (h : HandlerId) (v : Option κ) : (shift p).set (h + 1) v = shift (upd p h v) := by
  funext n
  cases n with
  | zero => simp [Live.set, shift]
  | succ m =>
    simp only [Live.set, shift, upd]
    by_cases hm : m = h
    · simp [hm]
    · simp [hm]

theorem shift_some {p : Pend κ} {n : Nat} {t : κ} (e : shift p n = some t) : n = (n - 1) + 1 ∧ p (n - 1) = some t := by
  cases n with
  | zero => simp [shift] at e
  | succ m => exact ⟨rfl, e⟩

/-- what `get_succeeding_event` must deliver, in terms of the ghost dictionary: a pending event that the scheduler keeps
(`vis`: the heap and the spec-level scheduler keep finite times only, the list keeps everything), minimal among those; the
guard compares with the last returned time `l`, which a successful call replaces -/
def GetSpec (cfg : Cfg κ) {σ : Type} (vis : κ → Bool) (R : σ → Pend κ → κ → Prop) (p : Pend κ) (l : κ)
    (r : σ × GetRes κ) : Prop :=
  match r.2 with
  | .ok h t => p h = some t ∧ vis t = true ∧ (∀ h' t', p h' = some t' → vis t' = true → cfg.lt t' t = false) ∧
      cfg.lt t l = false ∧ R r.1 p t
  | .guard h t => p h = some t ∧ vis t = true ∧ (∀ h' t', p h' = some t' → vis t' = true → cfg.lt t' t = false) ∧
      cfg.lt t l = true
  | .empty => ∀ h t, p h = some t → vis t = false

/-- the laws of a scheduler instance: `R s p l` = "scheduler state `s` holds exactly the events of `p` it keeps, and its last
returned time is `l`" -/
structure Laws (cfg : Cfg κ) (I : SchedI κ) (vis : κ → Bool) (R : I.σ → Pend κ → κ → Prop) : Prop where
  init : R I.init (fun _ => none) cfg.bot
  push : ∀ {s : I.σ} {p : Pend κ} {l : κ} (t : κ) {h : HandlerId}, R s p l → p h = none →
    R (I.push s t h) (upd p h (some t)) l
  trash : ∀ {s s' : I.σ} {p : Pend κ} {l : κ} {h : HandlerId}, R s p l → I.trash s h = some s' → R s' (upd p h none) l
  trash_ok : ∀ {s : I.σ} {p : Pend κ} {l : κ} {h : HandlerId} {t : κ}, R s p l → p h = some t → ∃ s', I.trash s h = some s'
  get : ∀ {s : I.σ} {p : Pend κ} {l : κ}, R s p l → GetSpec cfg vis R p l (I.get s)

/-! ### spec-level scheduler -/

/-- the spec scheduler holds exactly the finite pending events, at most one per handler -/
structure SRel (cfg : Cfg κ) (s : SSched κ) (p : Pend κ) (l : κ) : Prop where
  mem : ∀ h t, (t, h) ∈ s.live ↔ p h = some t ∧ cfg.finite t = true
  nodup : s.live.Pairwise (fun a b => a.2 ≠ b.2)
  last : s.last = l

theorem spec_init (cfg : Cfg κ) : SRel cfg (SSched.init cfg) (fun _ => none) cfg.bot :=
  ⟨fun h t => by simp [SSched.init], by simp [SSched.init], rfl⟩

theorem spec_push {cfg : Cfg κ} {s : SSched κ} {p : Pend κ} {l : κ} (t : κ) {h : HandlerId} (R : SRel cfg s p l)
    (hp : p h = none) : SRel cfg (s.push cfg t h) (upd p h (some t)) l := by
  unfold SSched.push
  by_cases hf : cfg.finite t = true
  · rw [if_pos hf]
    refine ⟨fun h' t' => ?_, ?_, R.last⟩
    · simp only [List.mem_append, List.mem_singleton, Prod.mk.injEq]
      by_cases hh : h' = h
      · subst hh
        simp only [upd_self, Option.some.injEq, and_true]
        constructor
        · rintro (h1 | h1)
          · rw [((R.mem _ _).1 h1).1] at hp; cases hp
          · exact ⟨h1.symm, h1 ▸ hf⟩
        · rintro ⟨h1, _⟩; exact Or.inr h1.symm
      · simp only [hh, and_false, or_false, upd_ne p _ hh]; exact R.mem h' t'
    · show (s.live ++ [(t, h)]).Pairwise _
      rw [List.pairwise_append]
      refine ⟨R.nodup, by simp, ?_⟩
      rintro ⟨t', h'⟩ ha b hb
      simp only [List.mem_singleton] at hb; subst hb
      intro heq; simp only at heq; subst heq
      rw [((R.mem _ _).1 ha).1] at hp; cases hp
  · rw [if_neg hf]
    refine ⟨fun h' t' => ?_, R.nodup, R.last⟩
    rw [R.mem h' t']
    by_cases hh : h' = h
    · subst hh
      simp only [upd_self, hp, Option.some.injEq]
      constructor
      · rintro ⟨h1, _⟩; cases h1
      · rintro ⟨h1, h2⟩; rw [← h1] at h2; exact absurd h2 hf
    · rw [upd_ne p _ hh]

theorem spec_trash {cfg : Cfg κ} {s : SSched κ} {p : Pend κ} {l : κ} (h : HandlerId) (R : SRel cfg s p l) :
    SRel cfg (s.trash h) (upd p h none) l := by
  refine ⟨fun h' t' => ?_, R.nodup.sublist List.filter_sublist, R.last⟩
  simp only [SSched.trash, List.mem_filter, bne_iff_ne, ne_eq, R.mem h' t']
  by_cases hh : h' = h
  · subst hh; simp
  · simp [hh, upd_ne p _ hh]

theorem spec_get {cfg : Cfg κ} (o : StrictWeak cfg) {s : SSched κ} {p : Pend κ} {l : κ} (R : SRel cfg s p l) :
    GetSpec cfg cfg.finite (SRel cfg) p l (s.get cfg) := by
  unfold SSched.get
  cases hl : s.live with
  | nil =>
    intro h t hp
    cases hf : cfg.finite t with
    | false => rfl
    | true => have := (R.mem h t).2 ⟨hp, hf⟩; rw [hl] at this; cases this
  | cons x xs =>
    obtain ⟨h1, h2⟩ := minBy_spec o xs x
    have hm := (R.mem (minBy cfg.lt x xs).2 (minBy cfg.lt x xs).1).1 (by rw [hl]; exact h1)
    have hmin : ∀ h' t', p h' = some t' → cfg.finite t' = true → cfg.lt t' (minBy cfg.lt x xs).1 = false := by
      intro h' t' hp hf
      have := (R.mem h' t').2 ⟨hp, hf⟩
      rw [hl] at this
      exact h2 _ this
    simp only
    cases hg : cfg.lt (minBy cfg.lt x xs).1 s.last with
    | true =>
      simp only [if_true]
      exact ⟨hm.1, hm.2, hmin, by rw [← R.last]; exact hg⟩
    | false =>
      simp only [Bool.false_eq_true, if_false]
      refine ⟨hm.1, hm.2, hmin, by rw [← R.last]; exact hg, ⟨fun h t => ?_, ?_, rfl⟩⟩
      · show (t, h) ∈ x :: xs ↔ _
        rw [← hl]; exact R.mem h t
      · show (x :: xs).Pairwise _
        rw [← hl]; exact R.nodup

theorem specLaws {cfg : Cfg κ} (o : StrictWeak cfg) : Laws cfg (specI cfg) cfg.finite (SRel cfg) where
  init := spec_init cfg
  push := fun t _ R hp => spec_push t R hp
  trash := fun {s s' p l h} R e => by
    cases (Option.some.inj e : SSched.trash s h = s')
    exact spec_trash h R
  trash_ok := fun _ _ => ⟨_, rfl⟩
  get := fun R => spec_get o R

/-! ### the model of `ListScheduler` -/

def LRelM (ls : LSched κ) (p : Pend κ) (l : κ) : Prop := LRel ls (shift p) ∧ ls.last = l

theorem shift_none : shift (fun _ => none : Pend κ) = (fun _ => none : Live κ) := by
  funext n; cases n <;> rfl

theorem ltrash_last {ls ls' : LSched κ} {h : Nat} (e : ls.trash h = some ls') : ls'.last = ls.last := by
  unfold LSched.trash at e
  split at e
  · simp only [Option.some.injEq] at e; rw [← e]
  · cases e

theorem list_push {s : LSched κ} {p : Pend κ} {l : κ} (t : κ) {h : HandlerId} (R : LRelM s p l) (hp : p h = none) :
    LRelM (s.push t (h + 1)) (upd p h (some t)) l := by
  refine ⟨?_, R.2⟩
  have := lpush_rel R.1 t (h := h + 1) (by simpa [shift] using hp)
  rw [shift_set] at this
  exact this

theorem list_trash {s s' : LSched κ} {p : Pend κ} {l : κ} {h : HandlerId} (R : LRelM s p l)
    (e : s.trash (h + 1) = some s') : LRelM s' (upd p h none) l := by
  cases hl : p h with
  | none =>
    have := (ltrash_rel R.1 (h + 1)).1 (by simpa [shift] using hl)
    rw [this] at e; cases e
  | some t =>
    obtain ⟨ls', e2, L'⟩ := (ltrash_rel R.1 (h + 1)).2 t (by simpa [shift] using hl)
    rw [e2] at e; simp only [Option.some.injEq] at e; subst e
    rw [shift_set] at L'
    exact ⟨L', by rw [ltrash_last e2]; exact R.2⟩

theorem list_trash_ok {s : LSched κ} {p : Pend κ} {l : κ} {h : HandlerId} {t : κ} (R : LRelM s p l) (hp : p h = some t) :
    ∃ s', s.trash (h + 1) = some s' := by
  obtain ⟨ls', e2, _⟩ := (ltrash_rel R.1 (h + 1)).2 t (by simpa [shift] using hp)
  exact ⟨ls', e2⟩

theorem lget_last (cfg : Cfg κ) (s : LSched κ) :
    match (s.get cfg).2 with
    | .ok _ t => cfg.lt t s.last = false ∧ (s.get cfg).1.last = t
    | .guard _ t => cfg.lt t s.last = true
    | .empty => True := by
  unfold LSched.get
  cases s.times with
  | nil => trivial
  | cons x xs =>
    simp only
    cases hc : cfg.lt (minBy cfg.lt x xs).1 s.last with
    | true => simp [hc]
    | false => simp [hc]

theorem list_get {cfg : Cfg κ} (o : StrictWeak cfg) {s : LSched κ} {p : Pend κ} {l : κ} (R : LRelM s p l) :
    GetSpec cfg (fun _ => true) LRelM p l ((s.get cfg).1, dec (s.get cfg).2) := by
  obtain ⟨ht, hg⟩ := lget_rel o R.1
  have hlast := lget_last cfg s
  unfold GetSpec
  cases hr : (s.get cfg).2 with
  | empty =>
    rw [hr] at hg
    simp only [dec]
    intro h t hp
    have := hg (h + 1); simp [shift, hp] at this
  | ok n t =>
    rw [hr] at hg hlast
    obtain ⟨hn, hpn⟩ := shift_some hg.1
    simp only [dec]
    refine ⟨hpn, by trivial, fun h' t' hp' _ => hg.2 (h' + 1) t' (by simpa [shift] using hp'), by rw [← R.2]; exact hlast.1, ?_, hlast.2⟩
    refine ⟨fun h t' => ?_, ?_⟩
    · rw [ht]; exact R.1.mem h t'
    · rw [ht]; exact R.1.nodup
  | guard n t =>
    rw [hr] at hg hlast
    obtain ⟨hn, hpn⟩ := shift_some hg.1
    simp only [dec]
    exact ⟨hpn, by trivial, fun h' t' hp' _ => hg.2 (h' + 1) t' (by simpa [shift] using hp'), by rw [← R.2]; exact hlast⟩

theorem listLaws {cfg : Cfg κ} (o : StrictWeak cfg) : Laws cfg (listI cfg) (fun _ => true) LRelM where
  init := ⟨by rw [shift_none]; exact lrel_init cfg, rfl⟩
  push := fun t _ R hp => list_push t R hp
  trash := fun R e => list_trash R e
  trash_ok := fun R hp => list_trash_ok R hp
  get := fun R => list_get o R

/-! ### the model of `HeapScheduler` on the model of `heap.c` -/

def HRelM (cfg : Cfg κ) (W : Nat) (s : HSched κ) (p : Pend κ) (l : κ) : Prop := Rel cfg W s (shift p) ∧ s.last = l

theorem hpush_last (cfg : Cfg κ) (W : Nat) (s : HSched κ) (t : κ) (h : Nat) : (s.push cfg W t h).last = s.last := by
  unfold HSched.push
  by_cases hf : cfg.finite t = true
  · simp only [hf, if_true]
    by_cases hc : (mvGet s.mv h).getD 0 < W <;> simp [hc]
  · simp [hf]

theorem heap_push {cfg : Cfg κ} (o : StrictWeak cfg) {W : Nat} (hW : 0 < W) {s : HSched κ} {p : Pend κ} {l : κ} (t : κ)
    {h : HandlerId} (R : HRelM cfg W s p l) (hp : p h = none) : HRelM cfg W (s.push cfg W t (h + 1)) (upd p h (some t)) l := by
  refine ⟨?_, by rw [hpush_last]; exact R.2⟩
  have := push_rel o hW R.1 t (h := h + 1) (Nat.succ_ne_zero h) (by simpa [shift] using hp)
  rw [shift_set] at this
  exact this

theorem heap_trash {cfg : Cfg κ} {W : Nat} {s : HSched κ} {p : Pend κ} {l : κ} (h : HandlerId) (R : HRelM cfg W s p l) :
    HRelM cfg W (s.trash (h + 1)) (upd p h none) l := by
  have := trash_rel R.1 (h + 1)
  rw [shift_set] at this
  exact ⟨this, R.2⟩

theorem heap_get {cfg : Cfg κ} (o : StrictWeak cfg) {W : Nat} {s : HSched κ} {p : Pend κ} {l : κ} (R : HRelM cfg W s p l) :
    GetSpec cfg cfg.finite (HRelM cfg W) p l ((s.get cfg).1, dec (s.get cfg).2) := by
  obtain ⟨R', hg, _, hlast⟩ := get_rel o R.1
  unfold GetSpec
  cases hr : (s.get cfg).2 with
  | empty =>
    rw [hr] at hg
    simp only [dec]
    intro h t hp
    exact hg (h + 1) t (by simpa [shift] using hp)
  | ok n t =>
    rw [hr] at hg hlast
    obtain ⟨hn, hpn⟩ := shift_some hg.1
    simp only [dec]
    exact ⟨hpn, hg.2.1, fun h' t' hp' hv => hg.2.2 (h' + 1) t' (by simpa [shift] using hp') hv,
      by rw [← R.2]; exact hlast.1, R', hlast.2⟩
  | guard n t =>
    rw [hr] at hg hlast
    obtain ⟨hn, hpn⟩ := shift_some hg.1
    simp only [dec]
    exact ⟨hpn, hg.2.1, fun h' t' hp' hv => hg.2.2 (h' + 1) t' (by simpa [shift] using hp') hv,
      by rw [← R.2]; exact hlast.1⟩

theorem heapLaws {cfg : Cfg κ} (o : StrictWeak cfg) {W : Nat} (hW : 0 < W) :
    Laws cfg (heapI cfg W) cfg.finite (HRelM cfg W) where
  init := ⟨by rw [shift_none]; exact rel_init cfg W, rfl⟩
  push := fun t _ R hp => heap_push o hW t R hp
  trash := fun {s s' p l h} R e => by
    cases (Option.some.inj e : HSched.trash s (h + 1) = s')
    exact heap_trash h R
  trash_ok := fun _ _ => ⟨_, rfl⟩
  get := fun R => heap_get o R

end JF.Med
