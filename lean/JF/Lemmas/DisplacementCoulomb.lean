import JF.Lemmas.DisplacementPeriodic
/-!
# The minimum-image `1/r` energy along the path and its two monotone profiles

`MinImage K L sx q g` says that `g` is the energy of the periodic `1/r` bounding potential along the path:
`L`-periodic in the displacement `x`, and equal to the potential of the directly nearest image while the
component `sx - x` of the separation stays inside the box (`|sx - x| ≤ L/2`).
-/
set_option linter.unusedVariables false
namespace JF.DispR
open Set JF.Uphill

noncomputable section

/-- energy of the minimum-image `1/r` potential along the path (characterised, not constructed: these two
properties determine `g`; `minImage_exists` in `JF/Props/C02.lean` shows that such a `g` exists) -/
structure MinImage (K L sx q : ℝ) (g : ℝ → ℝ) : Prop where
  per : ∀ x, g (x + L) = g x
  win : ∀ x, |sx - x| ≤ L / 2 → g x = cbPot K (sx - x) q

/-- profile while approaching an image from the box face (`x = 0`: half a box away, `x = L/2`: closest) -/
def upP (K L q : ℝ) : ℝ → ℝ := path K 1 (L / 2) q
/-- profile while leaving an image (`x = 0`: closest approach, `x = L/2`: box face) -/
def dnP (K q : ℝ) : ℝ → ℝ := path K 1 0 q

theorem upP_zero (K L q : ℝ) : upP K L q 0 = cbPot K (L / 2) q := by
  unfold upP path; rw [nsq_zero, cbPot_eq_pot]
theorem upP_half (K L q : ℝ) : upP K L q (L / 2) = cbPot K 0 q := by
  unfold upP path; rw [nsq_self, cbPot_eq_pot]
theorem upP_at (K L q sx : ℝ) : upP K L q (L / 2 - sx) = cbPot K sx q := by
  unfold upP path nsq; rw [cbPot_eq_pot]; congr 1; ring
/-- the inverse-power path from `sx` is a stretch of the approach profile -/
theorem upP_shift (K L q sx x : ℝ) : upP K L q (L / 2 - sx + x) = path K 1 sx q x := by
  unfold upP path nsq; congr 1; ring
theorem dnP_zero (K q : ℝ) : dnP K q 0 = cbPot K 0 q := by
  unfold dnP path; rw [nsq_zero, cbPot_eq_pot]
theorem dnP_half (K L q : ℝ) : dnP K q (L / 2) = cbPot K (L / 2) q := by
  unfold dnP path nsq; rw [cbPot_eq_pot]; congr 1; ring
theorem dnP_at (K q sx : ℝ) : dnP K q (-sx) = cbPot K sx q := by
  unfold dnP path nsq; rw [cbPot_eq_pot]; congr 1; ring
theorem dnP_shift (K q sx x : ℝ) : dnP K q (-sx + x) = path K 1 sx q x := by
  unfold dnP path nsq; congr 1; ring

variable {K L sx q : ℝ} {g : ℝ → ℝ}

theorem MinImage.prof_up (hg : MinImage K L sx q g) (k : ℕ) {x : ℝ} (h0 : 0 ≤ x) (h1 : x ≤ L / 2) :
    g ((sx - L / 2 + k * L) + x) = upP K L q x := by
  have e : (sx - L / 2 + k * L) + x = (sx - L / 2 + x) + k * L := by ring
  rw [e, periodic_nat hg.per, hg.win _ (by rw [abs_le]; constructor <;> linarith)]
  unfold upP path nsq; rw [cbPot_eq_pot]; congr 1; ring

theorem MinImage.prof_dn (hg : MinImage K L sx q g) (k : ℕ) {x : ℝ} (h0 : 0 ≤ x) (h1 : x ≤ L / 2) :
    g ((sx + k * L) + x) = dnP K q x := by
  have e : (sx + k * L) + x = (sx + x) + k * L := by ring
  rw [e, periodic_nat hg.per, hg.win _ (by rw [abs_le]; constructor <;> linarith)]
  unfold dnP path nsq; rw [cbPot_eq_pot]; congr 1; ring

/-- a stretch on which `g` follows an increasing profile accumulates the profile's increment -/
theorem seg_mono {f : ℝ → ℝ} {a u v : ℝ} (huv : u ≤ v)
    (hprof : ∀ x, u ≤ x → x ≤ v → g (a + x) = f x) (hm : MonotoneOn f (Icc u v)) :
    uphill g (a + u) (a + v) = f v - f u ∧ BoundedVariationOn g (Icc (a + u) (a + v)) :=
  ⟨by rw [uphill_of_profile huv hprof, uphill_mono hm huv], bv_of_profile hprof (bv_mono hm huv)⟩

/-- a stretch on which `g` follows a decreasing profile accumulates nothing -/
theorem seg_anti {f : ℝ → ℝ} {a u v : ℝ} (huv : u ≤ v)
    (hprof : ∀ x, u ≤ x → x ≤ v → g (a + x) = f x) (hm : AntitoneOn f (Icc u v)) :
    uphill g (a + u) (a + v) = 0 ∧ BoundedVariationOn g (Icc (a + u) (a + v)) :=
  ⟨by rw [uphill_of_profile huv hprof, uphill_anti hm huv], bv_of_profile hprof (bv_anti hm huv)⟩

/-- strict version of `pot_anti` -/
theorem pot_strictAnti {K p u v : ℝ} (hK : 0 < K) (hp : 0 < p) (hu : 0 < u) (huv : u < v) :
    pot K p v < pot K p u := by
  unfold pot
  have h1 : u ^ (p / 2) < v ^ (p / 2) := Real.rpow_lt_rpow hu.le huv (by positivity)
  have h2 : 0 < u ^ (p / 2) := Real.rpow_pos_of_pos hu _
  exact div_lt_div_of_pos_left hK h2 h1

/-- for `K > 0` the climb per lap is `U(0) - U(L/2) > 0` -/
theorem cbPerLap_pos_of_pos (hK : 0 < K) (hL : 0 < L) (hq : 0 < q) :
    cbPerLap K L q = cbPot K 0 q - cbPot K (L / 2) q ∧ 0 < cbPerLap K L q := by
  have h : cbPot K (L / 2) q < cbPot K 0 q := by
    rw [cbPot_eq_pot, cbPot_eq_pot]
    exact pot_strictAnti hK one_pos (by linarith) (by nlinarith)
  unfold cbPerLap
  rw [abs_of_pos (by linarith)]
  exact ⟨rfl, by linarith⟩

/-- for `K < 0` the climb per lap is `U(L/2) - U(0) > 0` -/
theorem cbPerLap_pos_of_neg (hK : K < 0) (hL : 0 < L) (hq : 0 < q) :
    cbPerLap K L q = cbPot K (L / 2) q - cbPot K 0 q ∧ 0 < cbPerLap K L q := by
  have h : cbPot K 0 q < cbPot K (L / 2) q := by
    have := pot_strictAnti (K := -K) (p := 1) (u := 0 * 0 + q) (v := L / 2 * (L / 2) + q)
      (by linarith) one_pos (by linarith) (by nlinarith)
    rw [pot_neg, pot_neg] at this
    rw [cbPot_eq_pot, cbPot_eq_pot]; linarith
  unfold cbPerLap
  rw [abs_of_neg (by linarith)]
  exact ⟨by ring, by linarith⟩

/-! ### stretches of the path in absolute coordinates -/

/-- approach stretch `[x, y] ⊆ [a, a + L/2]`, `a = sx - L/2 + k L` a box face: `g` follows `upP` -/
theorem MinImage.up_stretch (hg : MinImage K L sx q g) (k : ℕ) {a x y : ℝ}
    (ha : a = sx - L / 2 + k * L) (hx : a ≤ x) (hxy : x ≤ y) (hy : y ≤ a + L / 2) :
    (MonotoneOn (upP K L q) (Icc (x - a) (y - a)) →
      uphill g x y = upP K L q (y - a) - upP K L q (x - a) ∧ BoundedVariationOn g (Icc x y)) ∧
    (AntitoneOn (upP K L q) (Icc (x - a) (y - a)) →
      uphill g x y = 0 ∧ BoundedVariationOn g (Icc x y)) := by
  have hprof : ∀ z, x - a ≤ z → z ≤ y - a → g (a + z) = upP K L q z := fun z h0 h1 => by
    rw [ha]; exact hg.prof_up k (by linarith) (by linarith)
  have e1 : a + (x - a) = x := by ring
  have e2 : a + (y - a) = y := by ring
  constructor
  · intro hm
    have := seg_mono (g := g) (a := a) (u := x - a) (v := y - a) (by linarith) hprof hm
    rwa [e1, e2] at this
  · intro hm
    have := seg_anti (g := g) (a := a) (u := x - a) (v := y - a) (by linarith) hprof hm
    rwa [e1, e2] at this

/-- departure stretch `[x, y] ⊆ [a, a + L/2]`, `a = sx + k L` a closest approach: `g` follows `dnP` -/
theorem MinImage.dn_stretch (hg : MinImage K L sx q g) (k : ℕ) {a x y : ℝ}
    (ha : a = sx + k * L) (hx : a ≤ x) (hxy : x ≤ y) (hy : y ≤ a + L / 2) :
    (MonotoneOn (dnP K q) (Icc (x - a) (y - a)) →
      uphill g x y = dnP K q (y - a) - dnP K q (x - a) ∧ BoundedVariationOn g (Icc x y)) ∧
    (AntitoneOn (dnP K q) (Icc (x - a) (y - a)) →
      uphill g x y = 0 ∧ BoundedVariationOn g (Icc x y)) := by
  have hprof : ∀ z, x - a ≤ z → z ≤ y - a → g (a + z) = dnP K q z := fun z h0 h1 => by
    rw [ha]; exact hg.prof_dn k (by linarith) (by linarith)
  have e1 : a + (x - a) = x := by ring
  have e2 : a + (y - a) = y := by ring
  constructor
  · intro hm
    have := seg_mono (g := g) (a := a) (u := x - a) (v := y - a) (by linarith) hprof hm
    rwa [e1, e2] at this
  · intro hm
    have := seg_anti (g := g) (a := a) (u := x - a) (v := y - a) (by linarith) hprof hm
    rwa [e1, e2] at this

end
end JF.DispR
