import JF.Props.C09
/-!
E40 / C09, last clause — from "the yield of every created tagger is no longer than its pool" to "`TagActivatorError` is never
raised" (`TagActivator._get_event_handlers_to_run_update`: `self._not_running_event_handlers[tagger].pop()` on an empty list).

`commit_isSome`: one leg (`get_trashable_events` then `get_event_handlers_to_run`) does not raise if every created tagger is
trashed in the same leg or has nothing pending, and yields at most `pool` in-states on the new state.
`run_next_commit_isSome`: in every run (`JF.Act.Run`) of a configuration with `WiringSound`, the first premise holds by itself —
what remains is the bound on the yields.  `Run'` / `run'_is_run`: the run relation WITHOUT the "this commit did not raise"
premise; under a demand bound every such run is a run, i.e. no pool is ever exhausted.
-/
namespace JF.C09Pools
open JF JF.Act

theorem pool_length_poolsFrom (off : Nat) (ts : List TaggerW) (i : Nat) :
    (getW (poolsFrom off ts) i).pool.length =
      ((ts[i]?).getD ⟨"", .unknown, "", .unknown, [], [], [], [], 0, none⟩).pool := by
  induction ts generalizing off i with
  | nil => simp [poolsFrom, getW, TWire.empty]
  | cons t ts ih =>
    cases i with
    | zero => simp [poolsFrom, getW]
    | succ i => simpa [poolsFrom, getW] using ih (off + t.pool) i

/-- the model's pool of tagger `i` has `pool` handlers (`len(tagger.get_event_handlers())`) -/
theorem pool_length_wires (c : Wiring) (i : Nat) : (getW c.wires i).pool.length = (c.tagger i).pool :=
  pool_length_poolsFrom 0 c.taggers i

/-- **one leg does not raise `TagActivatorError`** if every tagger of the create list (i) is trashed in the same leg or has no
pending handler and (ii) yields at most as many in-states on the new state as its pool holds -/
theorem commit_isSome {G : Type} {w : Wires} {W : World G} {rs : RS G} {E : TaggerIdx} {g' : G} (wf : WFw w)
    (pinv : PoolInv w rs.act)
    (hidle : ∀ T ∈ (getW w E).creates, T ∈ (getW w E).trashes ∨ (getT rs.act T).running = [])
    (hb : ∀ T ∈ (getW w E).creates, (W.yieldOf T g').length ≤ (getW w T).pool.length) :
    (commit w W rs E g').isSome = true := by
  have pinv' : PoolInv w (trash w rs.act E).1 := poolInv_trash E pinv
  cases hu : update w (trash w rs.act E).1 E (fun T => W.yieldOf T g') with
  | some r => unfold commit; rw [hu]; rfl
  | none =>
    exfalso
    obtain ⟨T, hT, hlt⟩ := (C09.update_error_iff wf pinv'.1 E _).mp hu
    obtain ⟨_, htr, hfr⟩ := C09.trash_returns_exactly_running w rs.act E
    have hrun : (getT (trash w rs.act E).1 T).running = [] := by
      by_cases ht : T ∈ (getW w E).trashes
      · exact htr T ht
      · rw [hfr T ht]
        rcases hidle T hT with h | h
        · exact absurd h ht
        · exact h
    have hperm := (pinv'.2 T).length_eq
    rw [hrun, List.nil_append] at hperm
    have hy : (if actAfter w E T (getT (trash w rs.act E).1 T).activated = true then W.yieldOf T g' else []).length
        ≤ (W.yieldOf T g').length := by
      split <;> simp
    have := hb T hT
    omega

/-- **in every run of a sound configuration the next leg does not raise**, provided the taggers of the create list of the
committing tagger yield at most `pool` in-states on the new state -/
theorem run_next_commit_isSome {G : Type} (c : Wiring) (W : World G) (Tr : TaggerIdx → G → G → Prop) (S : TaggerIdx)
    (sound : WiringSound c = true) (hS : c.start? = some S) (fps : FootprintsSound c W Tr) (hlive : LiveIs c W)
    {rs : RS G} (hrun : Run c W Tr S rs) {E : TaggerIdx} (hpending : (getT rs.act E).running ≠ [])
    (hend : (c.tagger E).kind ≠ .endOfRun) {g' : G}
    (hb : ∀ T ∈ (c.tagger E).creates, (W.yieldOf T g').length ≤ (c.tagger T).pool) :
    (commit c.wires W rs E g').isSome = true := by
  have ih := run_inv c W Tr S sound hS fps hlive hrun
  unfold WiringSound at sound
  rw [hS] at sound
  simp only [Bool.and_eq_true] at sound
  obtain ⟨⟨⟨hwf, _⟩, _⟩, hviol⟩ := sound
  have st := static_of_wfStatic hwf
  have wf := wfw_of_static st
  obtain ⟨hSn, hSk, hSu⟩ := start_spec hS
  have hEn : E < c.n := by
    rcases Nat.lt_or_ge E c.n with h | h
    · exact h
    · exfalso; apply hpending
      rw [getT_of_le _ _ (by rw [ih.pool.1, c.wires_length]; exact h)]; rfl
  have hEk : (c.tagger E).kind ≠ .startOfRun := by
    intro hk
    have := hSu E hEn hk
    subst this
    exact hpending ih.startIdle
  have hEl : W.live E := (hlive E).mpr ⟨hEn, hEk⟩
  have hEa : aGet (absOf rs.act) E = true := by
    rw [aGet_absOf]
    cases ha : (getT rs.act E).activated
    · exact absurd (fresh_nil_of_deactivated (ih.fresh E hEl) ha) hpending
    · rfl
  have hcan : canCommit c (absOf rs.act) E = true := by
    unfold canCommit
    simp only [hEa, Bool.true_and, Bool.and_eq_true, bne_iff_ne, ne_eq]
    exact ⟨hEk, hend⟩
  refine commit_isSome wf ih.pool ?_ ?_
  · intro T hT
    rw [(getW_wires c E).1] at hT
    rw [(getW_wires c E).2.1]
    by_cases ht : T ∈ (c.tagger E).trashes
    · exact Or.inl ht
    · right
      have hTn : T < c.n := st.creates_lt E T hT
      have hTk : (c.tagger T).kind ≠ .startOfRun := by
        intro hk
        have := hSu T hTn hk
        subst this
        exact st.start_not_created E hT
      have hTl : W.live T := (hlive T).mpr ⟨hTn, hTk⟩
      have := (clauses_of_no_violation (no_violation hviol ih.reach hEn hcan hTn) hTk).1 hT ht
      rw [aGet_absOf] at this
      exact fresh_nil_of_deactivated (ih.fresh T hTl) this
  · intro T hT
    rw [(getW_wires c E).1] at hT
    rw [pool_length_wires]
    exact hb T hT

/-- the very first call `get_event_handlers_to_run(state, None)` does not raise: the start-of-run tagger owns one handler
(`Wiring.start?`) and is asked for at most one in-state -/
theorem first_isSome {G : Type} (c : Wiring) (W : World G) (S : TaggerIdx) (hS : c.start? = some S) (g0 : G)
    (hb : (W.yieldOf S g0).length ≤ (c.tagger S).pool) :
    (first c.wires (initAct c.wires) S (fun T => W.yieldOf T g0)).isSome = true := by
  obtain ⟨hSn, _, _⟩ := start_spec hS
  cases hf : first c.wires (initAct c.wires) S (fun T => W.yieldOf T g0) with
  | some r => rfl
  | none =>
    exfalso
    unfold first at hf
    have hr : ∀ U ∈ [S], U < (applyActivation c.wires (initAct c.wires) S).length := by
      intro U hU
      rw [applyActivation_length]
      simp only [List.mem_singleton] at hU
      subst hU
      simp [initAct, c.wires_length, hSn]
    obtain ⟨T, hT, hlt⟩ := (createLoop_none (by simp) hr).mp hf
    simp only [List.mem_singleton] at hT
    subst hT
    rw [applyActivation_notRunning, getT_initAct] at hlt
    have hlen : T < c.wires.length := by rw [c.wires_length]; exact hSn
    simp only [hlen, if_true] at hlt
    rw [pool_length_wires] at hlt
    have : (yieldEff (getT (applyActivation c.wires (initAct c.wires) T) T) (W.yieldOf T g0)).length
        ≤ (W.yieldOf T g0).length := by
      unfold yieldEff; split <;> simp
    omega

/-! ### runs without the "did not raise" premise -/

/-- **a demand bound for a world**: on every state satisfying `I`, every tagger yields at most as many in-states as its pool holds -/
def DemandBounded {G : Type} (c : Wiring) (W : World G) (I : G → Prop) : Prop :=
  ∀ g, I g → ∀ T, T < c.n → (W.yieldOf T g).length ≤ (c.tagger T).pool

/-- the attempts of a run: like `JF.Act.Run`, but a leg is allowed to raise `TagActivatorError` (`none`); `I` is any predicate of
the global states the run visits (an invariant of the transition relation, e.g. the one-chain invariant + the occupancy invariant) -/
inductive Attempt {G : Type} (c : Wiring) (W : World G) (Tr : TaggerIdx → G → G → Prop) (I : G → Prop) (S : TaggerIdx) :
    Option (RS G) → Prop where
  | first_raises (g0 : G) (h0 : I g0)
      (hfirst : first c.wires (initAct c.wires) S (fun T => W.yieldOf T g0) = none) : Attempt c W Tr I S none
  | start (ids0 : HandlerId → IdTuple) (g0 g1 : G) (s0 : Act) (out : List (HandlerId × IdTuple)) (h0 : I g0) (h1 : I g1)
      (hfirst : first c.wires (initAct c.wires) S (fun T => W.yieldOf T g0) = some (s0, out)) :
      Attempt c W Tr I S (commit c.wires W ⟨s0, assign ids0 out, g0⟩ S g1)
  | step (rs : RS G) (E : TaggerIdx) (g' : G) (prev : Attempt c W Tr I S (some rs))
      (hpending : (getT rs.act E).running ≠ []) (hend : (c.tagger E).kind ≠ .endOfRun)
      (htr : Tr E rs.g g') (h' : I g') : Attempt c W Tr I S (commit c.wires W rs E g')

theorem attempt_run {G : Type} {c : Wiring} {W : World G} {Tr : TaggerIdx → G → G → Prop} {I : G → Prop} {S : TaggerIdx}
    {o : Option (RS G)} (h : Attempt c W Tr I S o) : ∀ rs, o = some rs → Run c W Tr S rs := by
  induction h with
  | first_raises g0 h0 hfirst => intro rs e; cases e
  | start ids0 g0 g1 s0 out h0 h1 hfirst => intro rs e; exact .start ids0 g0 g1 s0 out rs hfirst e
  | step rs E g' prev hpending hend htr h' ih => intro rs' e; exact .step rs rs' E g' (ih rs rfl) hpending hend htr e

/-- **no pool is ever exhausted**: in a configuration with `WiringSound` whose demand is bounded by the pools on the states a run
visits, NO attempt of a run ends in `TagActivatorError` — neither the first call, nor the commit of the start-of-run event, nor
any later leg -/
theorem no_pool_exhausted {G : Type} (c : Wiring) (W : World G) (Tr : TaggerIdx → G → G → Prop) (I : G → Prop) (S : TaggerIdx)
    (sound : WiringSound c = true) (hS : c.start? = some S) (fps : FootprintsSound c W Tr) (hlive : LiveIs c W)
    (hdb : DemandBounded c W I) {o : Option (RS G)} (h : Attempt c W Tr I S o) : o.isSome = true := by
  have sound' := sound
  unfold WiringSound at sound'
  rw [hS] at sound'
  simp only [Bool.and_eq_true] at sound'
  obtain ⟨⟨⟨hwf, _⟩, _⟩, _⟩ := sound'
  have st := static_of_wfStatic hwf
  have wf := wfw_of_static st
  obtain ⟨hSn, _, _⟩ := start_spec hS
  cases h with
  | first_raises g0 h0 hfirst =>
    have := first_isSome c W S hS g0 (hdb g0 h0 S hSn)
    rw [hfirst] at this; exact this
  | start ids0 g0 g1 s0 out h0 h1 hfirst =>
    have p0 : PoolInv c.wires s0 := poolInv_first (poolInv_init c.wires) hfirst
    refine commit_isSome wf p0 ?_ ?_
    · intro T hT
      right
      rw [(getW_wires c S).1] at hT
      have hne : T ∉ [S] := by
        simp only [List.mem_singleton]; intro e; subst e; exact st.start_not_created T hT
      unfold first at hfirst
      show (getT s0 T).running = []
      rw [createLoop_frame hfirst hne, applyActivation_running, getT_initAct]
      split <;> rfl
    · intro T hT
      rw [(getW_wires c S).1] at hT
      rw [pool_length_wires]
      exact hdb g1 h1 T (st.creates_lt S T hT)
  | step rs E g' prev hpending hend htr h' =>
    refine run_next_commit_isSome c W Tr S sound hS fps hlive (attempt_run prev rs rfl) hpending hend ?_
    intro T hT
    exact hdb g' h' T (st.creates_lt E T hT)

end JF.C09Pools
