import JF.Model.Output
import JF.Props.C15
import JF.Lemmas.Lifting
import Mathlib.Tactic.Linarith
import Mathlib.Tactic.Ring
import Mathlib.Tactic.Positivity
/-!
Exact reading (`ℚ`) of the geometry the output handlers use: the nearest-image separation vector of a well-formed box as ONE
specification function for both box classes (`sepSpec`, from C15's theorems), its squared norm, and the scalar facts the
theorems of `JF/Props/Output.lean` need (sign symmetry of the squared wrapped separation, Cauchy–Schwarz for lists).
-/
namespace JF.Output
open JF JF.Periodic JF.C15

/-! ### scalar -/

/-- the wrapped separation of `-s` is minus the wrapped separation of `s`, except at the half-box boundary where both are
`-L/2`: in every case the SQUARES agree -/
theorem wrapSep_neg_sq {s L : ℚ} (hL : 0 < L) :
    wrapSep Ops.rat (-s) L (L / 2) * wrapSep Ops.rat (-s) L (L / 2) = wrapSep Ops.rat s L (L / 2) * wrapSep Ops.rat s L (L / 2) := by
  have hr := wrapSep_range (s := s) hL
  obtain ⟨k, hk⟩ := wrapSep_congr (s := s) hL
  set r := wrapSep Ops.rat s L (L / 2) with hrdef
  rcases eq_or_lt_of_le hr.1 with h | h
  · -- r = -L/2: then -s ≡ L/2 ≡ -L/2
    have : wrapSep Ops.rat (-s) L (L / 2) = -(L / 2) :=
      (wrapSep_unique hL (le_refl _) (by linarith) ⟨-k + 1, by push_cast; linarith⟩).symm
    rw [this, ← h]
  · have : wrapSep Ops.rat (-s) L (L / 2) = -r :=
      (wrapSep_unique hL (by linarith [hr.2]) (by linarith) ⟨-k, by push_cast; linarith⟩).symm
    rw [this]; ring

theorem wrapSep_congr_eq {s s' L : ℚ} (hL : 0 < L) (h : Congr L s s') :
    wrapSep Ops.rat s L (L / 2) = wrapSep Ops.rat s' L (L / 2) := by
  obtain ⟨k, hk⟩ := h
  have : s = s' + k * L := by linarith
  rw [this, wrapSep_add_int_mul hL]

theorem wrapSep_sq_le {s L : ℚ} (hL : 0 < L) :
    wrapSep Ops.rat s L (L / 2) * wrapSep Ops.rat s L (L / 2) ≤ (L / 2) * (L / 2) := by
  have h := abs_le.mp (wrapSep_abs_le (s := s) hL)
  nlinarith [h.1, h.2]

/-! ### the specification of `separation_vector` for both box classes -/

/-- exact nearest-image separation vector for box lengths `Ls`: component `j` is the representative of
`tgt[j] - ref[j]` modulo `Ls[j]` in `[-Ls[j]/2, Ls[j]/2)` -/
def sepSpec (Ls ref tgt : List ℚ) : List ℚ :=
  List.zipWith (fun L d => wrapSep Ops.rat d L (L / 2)) Ls (List.zipWith (fun a b => b - a) ref tgt)

theorem sepSpec_length {Ls ref tgt : List ℚ} (hr : ref.length = Ls.length) (ht : tgt.length = Ls.length) :
    (sepSpec Ls ref tgt).length = Ls.length := by
  simp [sepSpec, hr, ht]

theorem sepSpec_getElem {Ls ref tgt : List ℚ} (j : Nat) (h : j < (sepSpec Ls ref tgt).length)
    (hL : j < Ls.length) (hr : j < ref.length) (ht : j < tgt.length) :
    (sepSpec Ls ref tgt)[j] = wrapSep Ops.rat (tgt[j] - ref[j]) Ls[j] (Ls[j] / 2) := by
  simp [sepSpec]

/-- a box as constructed by the setting classes, with its list of box lengths -/
inductive BoxOK : Box ℚ → List ℚ → Prop
  | cubic (d : ℤ) (L : ℚ) (c : Cubic ℚ) (h : Cubic.init Ops.rat d L = .ok c) : BoxOK (.cubic c) (List.replicate d.toNat L)
  | cuboid (d : ℤ) (Ls : List ℚ) (c : Cuboid ℚ) (h : Cuboid.init Ops.rat d Ls = .ok c) : BoxOK (.cuboid c) Ls

theorem BoxOK.pos {box : Box ℚ} {Ls : List ℚ} (h : BoxOK box Ls) : ∀ L ∈ Ls, 0 < L := by
  cases h with
  | cubic d L c h =>
    intro l hl
    rw [List.eq_of_mem_replicate hl]
    exact (cubic_init_iff.mp h).2.1
  | cuboid d Ls c h => exact (cuboid_init_iff.mp h).2.2.1

theorem BoxOK.dim {box : Box ℚ} {Ls : List ℚ} (h : BoxOK box Ls) : box.dim = Ls.length := by
  cases h with
  | cubic d L c h =>
    obtain ⟨-, -, rfl⟩ := cubic_init_iff.mp h
    simp [Box.dim]
  | cuboid d Ls c h =>
    obtain ⟨hd, hl, -, rfl⟩ := cuboid_init_iff.mp h
    simp only [Box.dim]; omega

theorem BoxOK.ne_nil {box : Box ℚ} {Ls : List ℚ} (h : BoxOK box Ls) : 0 < Ls.length := by
  cases h with
  | cubic d L c h =>
    have := (cubic_init_iff.mp h).1
    simp only [List.length_replicate]; omega
  | cuboid d Ls c h =>
    obtain ⟨hd, hl, -, -⟩ := cuboid_init_iff.mp h
    omega

/-- **`separation_vector` of a well-formed box on positions with `dimension` entries is the nearest-image vector** (both
box classes; never the `IndexError` outcome) -/
theorem sepVec_eq {box : Box ℚ} {Ls ref tgt : List ℚ} (h : BoxOK box Ls)
    (hr : ref.length = Ls.length) (ht : tgt.length = Ls.length) :
    box.sepVec Ops.rat ref tgt = some (sepSpec Ls ref tgt) := by
  have hpos := h.pos
  cases h with
  | cubic d L c h =>
    simp only [List.length_replicate] at hr ht
    obtain ⟨r, hr1, hr2, hr3⟩ := cubic_separationVector h ref tgt (by omega) (by omega)
    simp only [Box.sepVec, hr1, Option.some.injEq]
    have hlen := sepSpec_length (Ls := List.replicate d.toNat L) (ref := ref) (tgt := tgt) (by simpa using hr) (by simpa using ht)
    simp only [List.length_replicate] at hlen
    apply List.ext_getElem (by omega)
    intro j h1 h2
    have hL : 0 < L := (cubic_init_iff.mp h).2.1
    have e := sepSpec_getElem (Ls := List.replicate d.toNat L) (ref := ref) (tgt := tgt) j h2 (by simp; omega) (by omega) (by omega)
    simp only [List.getElem_replicate] at e
    rw [e]
    exact IsSep.unique hL (hr3 j (by omega) h1) (isSep_wrapSep hL _)
  | cuboid d Ls c h =>
    obtain ⟨r, hr1, hr2, hr3⟩ := cuboid_separationVector h ref tgt (by omega) (by omega)
    simp only [Box.sepVec, hr1, Option.some.injEq]
    have hlen := sepSpec_length hr ht
    apply List.ext_getElem (by omega)
    intro j h1 h2
    have hL : 0 < Ls[j] := hpos _ (List.getElem_mem (by omega))
    rw [sepSpec_getElem j h2 (by omega) (by omega) (by omega)]
    exact IsSep.unique hL (hr3 j (by omega) h1) (isSep_wrapSep hL _)

/-! ### squared norms and dot products in the exact reading -/

theorem normSq_rat (v : List ℚ) : normSq Ops.rat v = (v.map fun c => c * c).sum := by
  unfold normSq
  exact JF.Lifting.pySum_exact Ops.rat rfl _

theorem dot_rat (v w : List ℚ) (h : v.length = w.length) : dot Ops.rat v w = .ok (List.zipWith (· * ·) v w).sum := by
  unfold dot
  rw [if_neg (by simpa using h)]
  congr 1
  exact JF.Lifting.pySum_exact Ops.rat rfl _

/-- the exact squared nearest-image separation -/
def sepSq (Ls a b : List ℚ) : ℚ := ((sepSpec Ls a b).map fun c => c * c).sum

/-- exact dot product of two lists -/
def dotQ (v w : List ℚ) : ℚ := (List.zipWith (· * ·) v w).sum

theorem dotQ_comm (v w : List ℚ) : dotQ v w = dotQ w v := by
  unfold dotQ
  induction v generalizing w with
  | nil => cases w <;> simp
  | cons x v ih =>
    cases w with
    | nil => simp
    | cons y w => simp only [List.zipWith_cons_cons, List.sum_cons, ih w, mul_comm]

/-- Cauchy–Schwarz for lists (any lengths: `zipWith` truncates, the squared norms only grow) -/
theorem dotQ_sq_le (v w : List ℚ) :
    dotQ v w * dotQ v w ≤ (v.map fun c => c * c).sum * (w.map fun c => c * c).sum := by
  have nn : ∀ l : List ℚ, 0 ≤ (l.map fun c => c * c).sum := by
    intro l
    induction l with
    | nil => simp
    | cons x l ih => simp only [List.map_cons, List.sum_cons]; nlinarith [mul_self_nonneg x]
  unfold dotQ
  induction v generalizing w with
  | nil => simp
  | cons x v ih =>
    cases w with
    | nil => simp
    | cons y w =>
      have := ih w
      have hA := nn v
      have hB := nn w
      simp only [List.zipWith_cons_cons, List.sum_cons, List.map_cons]
      set d := (List.zipWith (· * ·) v w).sum
      set A := (v.map fun c => c * c).sum
      set B := (w.map fun c => c * c).sum
      -- (xy + d)² ≤ (x² + A)(y² + B)  ⇐  d² ≤ AB and 2xyd ≤ x²B + y²A
      have h2 : 2 * (x * y) * d ≤ x * x * B + y * y * A := by
        -- (x²B + y²A)² ≥ 4 x²y² AB ≥ 4 x²y² d², and x²B + y²A ≥ 0
        have hs : 0 ≤ x * x * B + y * y * A :=
          add_nonneg (mul_nonneg (mul_self_nonneg x) hB) (mul_nonneg (mul_self_nonneg y) hA)
        have hq : (2 * (x * y) * d) * (2 * (x * y) * d) ≤ (x * x * B + y * y * A) * (x * x * B + y * y * A) := by
          have h4 : (x * y) * (x * y) * (d * d) ≤ (x * y) * (x * y) * (A * B) :=
            mul_le_mul_of_nonneg_left this (mul_self_nonneg _)
          nlinarith [mul_self_nonneg (x * x * B - y * y * A)]
        by_contra hc
        rw [not_le] at hc
        nlinarith [mul_pos (sub_pos.mpr hc) (by linarith : 0 < 2 * (x * y) * d + (x * x * B + y * y * A))]
      nlinarith

/-- the cosine `dot / r₁ / r₂` lies in `[-1, 1]` whenever `r₁, r₂ > 0` are roots of the squared norms (any ordered field in
which the roots exist; over `ℚ`: whenever the squared lengths happen to be squares) -/
theorem cos_in_range {K : Type} [Field K] [LinearOrder K] [IsStrictOrderedRing K] {d s1 s2 r1 r2 : K} (hcs : d * d ≤ s1 * s2) (h1 : 0 < r1) (h2 : 0 < r2)
    (e1 : r1 * r1 = s1) (e2 : r2 * r2 = s2) : -1 ≤ d / r1 / r2 ∧ d / r1 / r2 ≤ 1 := by
  have hp : 0 < r1 * r2 := mul_pos h1 h2
  have hd : d * d ≤ (r1 * r2) * (r1 * r2) := by rw [← e1, ← e2] at hcs; nlinarith
  have this : -(r1 * r2) ≤ d ∧ d ≤ r1 * r2 := by
    constructor <;> by_contra hc <;> rw [not_le] at hc <;> nlinarith
  rw [div_div]
  constructor
  · rw [le_div_iff₀ hp]; linarith [this.1]
  · rw [div_le_iff₀ hp]; linarith [this.2]

/-! ### properties of `sepSpec` / `sepSq` -/

section
variable {Ls a b a' b' : List ℚ}

/-- positions that are component-wise congruent modulo the box lengths have the same separation vector -/
theorem sepSpec_congr (hpos : ∀ L ∈ Ls, 0 < L)
    (ha : a.length = Ls.length) (hb : b.length = Ls.length) (ha' : a'.length = Ls.length) (hb' : b'.length = Ls.length)
    (hca : ∀ j (h : j < Ls.length), Congr Ls[j] (a[j]'(by omega)) (a'[j]'(by omega)))
    (hcb : ∀ j (h : j < Ls.length), Congr Ls[j] (b[j]'(by omega)) (b'[j]'(by omega))) :
    sepSpec Ls a b = sepSpec Ls a' b' := by
  have l1 := sepSpec_length ha hb
  have l2 := sepSpec_length ha' hb'
  apply List.ext_getElem (by omega)
  intro j h1 h2
  rw [sepSpec_getElem j h1 (by omega) (by omega) (by omega), sepSpec_getElem j h2 (by omega) (by omega) (by omega)]
  have hL : 0 < Ls[j] := hpos _ (List.getElem_mem (by omega))
  apply wrapSep_congr_eq hL
  obtain ⟨k, hk⟩ := hca j (by omega)
  obtain ⟨m, hm⟩ := hcb j (by omega)
  exact ⟨m - k, by push_cast; linarith⟩

theorem sepSq_symm (hpos : ∀ L ∈ Ls, 0 < L) (ha : a.length = Ls.length) (hb : b.length = Ls.length) :
    sepSq Ls a b = sepSq Ls b a := by
  unfold sepSq
  congr 1
  have l1 := sepSpec_length ha hb
  have l2 := sepSpec_length hb ha
  apply List.ext_getElem (by simp; omega)
  intro j h1 h2
  simp only [List.length_map] at h1 h2
  simp only [List.getElem_map]
  rw [sepSpec_getElem j h1 (by omega) (by omega) (by omega), sepSpec_getElem j h2 (by omega) (by omega) (by omega)]
  have hL : 0 < Ls[j] := hpos _ (List.getElem_mem (by omega))
  have := wrapSep_neg_sq (s := b[j] - a[j]) hL
  rw [neg_sub] at this
  exact this.symm

/-- every component of the separation vector has magnitude at most half the box length -/
theorem sepSpec_abs_le (hpos : ∀ L ∈ Ls, 0 < L) (ha : a.length = Ls.length) (hb : b.length = Ls.length)
    (j : Nat) (h : j < (sepSpec Ls a b).length) (hj : j < Ls.length) : |(sepSpec Ls a b)[j]| ≤ Ls[j] / 2 := by
  rw [sepSpec_getElem j h hj (by omega) (by omega)]
  exact wrapSep_abs_le (hpos _ (List.getElem_mem hj))

theorem sepSq_le (hpos : ∀ L ∈ Ls, 0 < L) : sepSq Ls a b ≤ (Ls.map fun L => (L / 2) * (L / 2)).sum := by
  unfold sepSq sepSpec
  induction Ls generalizing a b with
  | nil => simp
  | cons L Ls ih =>
    have hL : 0 < L := hpos L (by simp)
    have nn : 0 ≤ ((L :: Ls).map fun L => (L / 2) * (L / 2)).sum := by
      apply List.sum_nonneg
      intro x hx
      simp only [List.mem_map] at hx
      obtain ⟨l, -, rfl⟩ := hx
      exact mul_self_nonneg _
    cases a with
    | nil => simpa using nn
    | cons x a =>
      cases b with
      | nil => simpa using nn
      | cons y b =>
        simp only [List.zipWith_cons_cons, List.map_cons, List.sum_cons]
        have := ih (a := a) (b := b) (fun l hl => hpos l (by simp [hl]))
        have := wrapSep_sq_le (s := y - x) hL
        linarith

theorem sepSq_nonneg : 0 ≤ sepSq Ls a b := by
  unfold sepSq
  apply List.sum_nonneg
  intro x hx
  simp only [List.mem_map] at hx
  obtain ⟨l, -, rfl⟩ := hx
  exact mul_self_nonneg _

end
end JF.Output
