import JF.Model.Sched
import JF.Lemmas.HeapInsert
import JF.Lemmas.HeapDown
/-!
Refinement: the models of `HeapScheduler` and `ListScheduler` against the plain reference model
"current event of each handler" (`Live`).
-/
namespace JF.Sched
open JF.Heap
variable {κ : Type} {cfg : Cfg κ}

/-! ### the counter dictionary -/

theorem lookup_filter_ne (m : MV) (h h' : Nat) (hne : h' ≠ h) :
    List.lookup h' (m.filter (fun p => p.1 != h)) = List.lookup h' m := by
  induction m with
  | nil => rfl
  | cons p m ih =>
    obtain ⟨a, b⟩ := p
    by_cases ha : a = h
    · subst ha
      have : (h' == a) = false := by simpa using hne
      simp [List.filter, List.lookup, this, ih]
    · have : ((a, b).1 != h) = true := by simpa using ha
      simp only [List.filter, this, List.lookup]
      split <;> simp_all

theorem mvGet_mvSet (m : MV) (h v h' : Nat) :
    mvGet (mvSet m h v) h' = if h' = h then some v else mvGet m h' := by
  unfold mvGet mvSet
  by_cases hh : h' = h
  · subst hh; simp [List.lookup]
  · have : (h' == h) = false := by simpa using hh
    simp [List.lookup, this, hh, lookup_filter_ne m h h' hh]

/-! ### reference model -/

/-- the plain reference model of the property: the current (pushed, not trashed) event of each handler -/
abbrev Live (κ : Type) := Nat → Option κ

def Live.set (l : Live κ) (h : Nat) (v : Option κ) : Live κ := fun x => if x = h then v else l x

/-- refinement relation between the heap scheduler and the reference model -/
structure Rel (cfg : Cfg κ) (W : Nat) (s : HSched κ) (live : Live κ) : Prop where
  inv : Inv cfg s.heap
  cnt : ∀ e, Mem cfg s.heap e → e.h ≠ 0 ∧ e.c < W ∧ ∃ m, mvGet s.mv e.h = some m ∧ e.c ≤ m
  cur : ∀ h t, (live h = some t ∧ cfg.finite t = true) ↔
    ∃ m, mvGet s.mv h = some m ∧ Mem cfg s.heap ⟨t, h, m⟩

theorem rel_init (cfg : Cfg κ) (W : Nat) : Rel cfg W (HSched.init cfg) (fun _ => none) := by
  refine ⟨inv_empty cfg, fun e h => absurd h (not_mem_empty cfg e), fun h t => ?_⟩
  constructor
  · rintro ⟨h, _⟩; cases h
  · rintro ⟨m, _, h⟩; exact absurd h (not_mem_empty cfg _)

theorem push_rel (o : StrictWeak cfg) {W : Nat} (hW : 0 < W) {s : HSched κ} {live : Live κ}
    (R : Rel cfg W s live) (t : κ) {h : Nat} (h0 : h ≠ 0) (hl : live h = none) :
    Rel cfg W (s.push cfg W t h) (live.set h (some t)) := by
  unfold HSched.push
  by_cases hf : cfg.finite t = true
  · simp only [hf, if_true]
    -- the dictionary after `setdefault`
    generalize hmv' : mvSetDefault s.mv h 0 = mv'
    generalize hc : (mvGet s.mv h).getD 0 = c
    have g1 : mvGet mv' h = some c := by
      rw [← hmv', ← hc]; unfold mvSetDefault
      cases hm : mvGet s.mv h with
      | none => simp [mvGet_mvSet]
      | some m => simp [hm]
    have g2 : ∀ h', h' ≠ h → mvGet mv' h' = mvGet s.mv h' := by
      intro h' hne
      rw [← hmv']; unfold mvSetDefault
      cases hm : mvGet s.mv h with
      | none => simp [mvGet_mvSet, hne]
      | some m => rfl
    have g3 : ∀ m, mvGet s.mv h = some m → m = c := by
      intro m hm; rw [← hc, hm]; rfl
    have nomem : ∀ t' m, mvGet s.mv h = some m → ¬ Mem cfg s.heap ⟨t', h, m⟩ := by
      intro t' m hm hmem
      have := (R.cur h t').2 ⟨m, hm, hmem⟩
      rw [hl] at this; cases this.1
    by_cases hcW : c < W
    · simp only [hcW, if_true]
      obtain ⟨I', M', _, _⟩ := insert_spec o t h c R.inv
      refine ⟨I', ?_, ?_⟩
      · intro e he
        rcases (M' e).1 he with rfl | he
        · exact ⟨h0, hcW, c, g1, Nat.le_refl _⟩
        · obtain ⟨a, b, m, hm, hle⟩ := R.cnt e he
          by_cases heh : e.h = h
          · rw [heh] at hm ⊢; exact ⟨h0, b, c, g1, by rw [← g3 m hm]; exact hle⟩
          · exact ⟨a, b, m, by rw [g2 _ heh]; exact hm, hle⟩
      · intro h' t'
        by_cases hh : h' = h
        · subst hh
          simp only [Live.set, if_true]
          constructor
          · rintro ⟨h1, _⟩
            cases h1
            exact ⟨c, g1, (M' _).2 (Or.inl rfl)⟩
          · rintro ⟨m, hm, hmem⟩
            rw [g1] at hm; cases hm
            rcases (M' _).1 hmem with he | he
            · cases he; exact ⟨rfl, hf⟩
            · exfalso
              obtain ⟨_, _, m, hm, _⟩ := R.cnt _ he
              have := g3 m hm; subst this
              exact nomem t' m hm he
        · simp only [Live.set, hh, if_false]
          rw [R.cur h' t']
          constructor
          · rintro ⟨m, hm, hmem⟩; exact ⟨m, by rw [g2 _ hh]; exact hm, (M' _).2 (Or.inr hmem)⟩
          · rintro ⟨m, hm, hmem⟩
            rw [g2 _ hh] at hm
            rcases (M' _).1 hmem with he | he
            · cases he; exact absurd rfl hh
            · exact ⟨m, hm, he⟩
    · simp only [hcW, if_false]
      obtain ⟨I1, _, M1⟩ := deleteEvents_spec o h R.inv
      obtain ⟨I', M', _, _⟩ := insert_spec o t h 0 I1
      refine ⟨I', ?_, ?_⟩
      · intro e he
        rcases (M' e).1 he with rfl | he
        · exact ⟨h0, hW, 0, by simp [mvGet_mvSet], Nat.le_refl _⟩
        · obtain ⟨he, hne⟩ := (M1 e).1 he
          obtain ⟨a, b, m, hm, hle⟩ := R.cnt e he
          exact ⟨a, b, m, by simp only [mvGet_mvSet, hne, if_false]; rw [g2 _ hne]; exact hm, hle⟩
      · intro h' t'
        by_cases hh : h' = h
        · subst hh
          simp only [Live.set, if_true, mvGet_mvSet]
          constructor
          · rintro ⟨h1, _⟩
            cases h1
            exact ⟨0, rfl, (M' _).2 (Or.inl rfl)⟩
          · rintro ⟨m, hm, hmem⟩
            cases hm
            rcases (M' _).1 hmem with he | he
            · cases he; exact ⟨rfl, hf⟩
            · exact absurd rfl ((M1 _).1 he).2
        · simp only [Live.set, hh, if_false, mvGet_mvSet]
          rw [R.cur h' t', g2 _ hh]
          constructor
          · rintro ⟨m, hm, hmem⟩; exact ⟨m, hm, (M' _).2 (Or.inr ((M1 _).2 ⟨hmem, hh⟩))⟩
          · rintro ⟨m, hm, hmem⟩
            rcases (M' _).1 hmem with he | he
            · cases he; exact absurd rfl hh
            · exact ⟨m, hm, ((M1 _).1 he).1⟩
  · simp only [hf, Bool.false_eq_true, if_false]
    refine ⟨R.inv, R.cnt, fun h' t' => ?_⟩
    by_cases hh : h' = h
    · subst hh
      simp only [Live.set, if_true]
      constructor
      · rintro ⟨h1, h2⟩; cases h1; exact absurd h2 hf
      · rintro ⟨m, hm, hmem⟩
        have := (R.cur h' t').2 ⟨m, hm, hmem⟩
        rw [hl] at this; cases this.1
    · simp only [Live.set, hh, if_false]; exact R.cur h' t'

theorem trash_rel {W : Nat} {s : HSched κ} {live : Live κ} (R : Rel cfg W s live) (h : Nat) :
    Rel cfg W (s.trash h) (live.set h none) := by
  unfold HSched.trash
  refine ⟨R.inv, ?_, ?_⟩
  · intro e he
    obtain ⟨a, b, m, hm, hle⟩ := R.cnt e he
    refine ⟨a, b, ?_⟩
    simp only [mvGet_mvSet]
    by_cases heh : e.h = h
    · simp only [heh, if_true]
      rw [heh] at hm
      exact ⟨_, rfl, by rw [hm]; simp; omega⟩
    · simp only [heh, if_false]; exact ⟨m, hm, hle⟩
  · intro h' t'
    simp only [mvGet_mvSet]
    by_cases hh : h' = h
    · subst hh
      simp only [Live.set, if_true]
      constructor
      · rintro ⟨h1, _⟩; cases h1
      · rintro ⟨m, hm, hmem⟩
        cases hm
        obtain ⟨_, _, m, hm, hle⟩ := R.cnt _ hmem
        simp only at hm hle
        rw [hm] at hle; simp at hle; omega
    · simp only [Live.set, hh, if_false]; exact R.cur h' t'

/-- what `get_succeeding_event` of the heap scheduler returns, in terms of the reference model -/
def GetOK (cfg : Cfg κ) (live : Live κ) : GetRes κ → Prop
  | .ok h t | .guard h t =>
    live h = some t ∧ cfg.finite t = true ∧
    ∀ h' t', live h' = some t' → cfg.finite t' = true → cfg.lt t' t = false
  | .empty => ∀ h t, live h = some t → cfg.finite t = false

theorem get_rel (o : StrictWeak cfg) {W : Nat} {s : HSched κ} {live : Live κ} (R : Rel cfg W s live) :
    Rel cfg W (s.get cfg).1 live ∧ GetOK cfg live (s.get cfg).2 ∧ (s.get cfg).1.mv = s.mv ∧
    (match (s.get cfg).2 with
     | .ok _ t => cfg.lt t s.last = false ∧ (s.get cfg).1.last = t
     | .guard _ t => cfg.lt t s.last = true ∧ (s.get cfg).1.last = s.last
     | .empty => (s.get cfg).1.last = s.last) := by
  obtain ⟨RS, hcase⟩ := root_spec o (deadCb s.mv) R.inv
  unfold HSched.get
  generalize root cfg (deadCb s.mv) s.heap = rt at RS hcase
  obtain ⟨heap', top⟩ := rt
  simp only at RS hcase ⊢
  have notdead : ∀ h m, mvGet s.mv h = some m → deadCb s.mv h m = false := by
    intro h m hm; simp [deadCb, hm]
  have R' : ∀ last, Rel cfg W ({ heap := heap', mv := s.mv, last := last } : HSched κ) live := by
    intro last
    refine ⟨RS.inv, fun e he => R.cnt e (RS.sub e he), fun h t => ?_⟩
    rw [R.cur h t]
    constructor
    · rintro ⟨m, hm, hmem⟩
      rcases RS.sup _ hmem with h' | h'
      · exact ⟨m, hm, h'⟩
      · simp only at h'; rw [notdead h m hm] at h'; cases h'
    · rintro ⟨m, hm, hmem⟩; exact ⟨m, hm, RS.sub _ hmem⟩
  rcases hcase with ⟨_, hmem, hnd, hmin⟩ | ⟨hlen, htop⟩
  · obtain ⟨a, b, m, hm, hle⟩ := R.cnt top (RS.sub _ hmem)
    have hcm : top.c = m := by
      simp only [deadCb, hm, decide_eq_false_iff_not] at hnd; omega
    have htop : top = ⟨top.key, top.h, m⟩ := by rw [← hcm]
    have hlive := ((R' s.last).cur top.h top.key).2 ⟨m, hm, by rw [← htop]; exact hmem⟩
    have hmin' : ∀ h' t', live h' = some t' → cfg.finite t' = true → cfg.lt t' top.key = false := by
      intro h' t' h1 h2
      obtain ⟨m', _, hmem'⟩ := ((R' s.last).cur h' t').1 ⟨h1, h2⟩
      exact hmin _ hmem'
    have hne : (top.h == 0) = false := by simpa using a
    rw [hne, if_neg (by simp)]
    cases hg : cfg.lt top.key s.last with
    | true => rw [if_pos rfl]; exact ⟨R' _, ⟨hlive.1, hlive.2, hmin'⟩, rfl, hg, rfl⟩
    | false => rw [if_neg (by simp)]; exact ⟨R' _, ⟨hlive.1, hlive.2, hmin'⟩, rfl, hg, rfl⟩
  · subst htop
    rw [if_pos (by simp [nullEntry])]
    refine ⟨R' _, ?_, rfl, rfl⟩
    intro h t h1
    cases hf : cfg.finite t with
    | false => rfl
    | true =>
      obtain ⟨m, _, i, h1', hiL, _⟩ := ((R' s.last).cur h t).1 ⟨h1, hf⟩
      simp only at hiL; omega
end JF.Sched
