import JF.Props.Output
import Mathlib.Tactic.Linarith
import Mathlib.Tactic.Ring
/-!
Exact reading (`ℚ`) of `PolarizationOutputHandler.write` (`JF.Output.polarization`,
`/repo/jellyfysh/input_output_handler/output_handler/polarization_output_handler.py`, `base/node.py:
yield_closest_leaf_unit_positions`): the closed form of the written vector and the list lemmas the theorems of
`JF/Props/OutputFloat.lean` need.
-/
namespace JF.OutputFloat
open JF JF.Periodic JF.C15 JF.Output

/-! ### the specification -/

/-- the position of the leaf closest to the root position: `[entry + shortest_separation[index] …]` -/
def closest (Ls : List ℚ) (r : Root ℚ) (l : Leaf ℚ) : List ℚ :=
  List.zipWith (· + ·) r.pos (sepSpec Ls r.pos l.pos)

/-- the charge of a leaf (`0` stands in for `None`, which the well-formedness hypotheses exclude) -/
def chargeOf (l : Leaf ℚ) : ℚ := l.charge.getD 0

/-- contribution of one point mass to component `j`: `q_i · r_i[j]`, `r_i` the unwrapped position -/
def leafTerm (Ls : List ℚ) (r : Root ℚ) (l : Leaf ℚ) (j : Nat) : ℚ := chargeOf l * (closest Ls r l).getD j 0

/-- the same with the position RELATIVE to the root position (the nearest-image separation root → leaf) -/
def relTerm (Ls : List ℚ) (r : Root ℚ) (l : Leaf ℚ) (j : Nat) : ℚ := chargeOf l * (sepSpec Ls r.pos l.pos).getD j 0

/-- `Σ_i q_i · r_i`, component by component, over all molecules and all their point masses -/
def polSpec (Ls : List ℚ) (state : List (Root ℚ)) : List ℚ :=
  (List.range Ls.length).map fun j => (state.map fun r => (r.children.map fun l => leafTerm Ls r l j).sum).sum

/-- `Σ_i q_i · (r_i − R_mol(i))`: what remains for neutral molecules -/
def polSpecRel (Ls : List ℚ) (state : List (Root ℚ)) : List ℚ :=
  (List.range Ls.length).map fun j => (state.map fun r => (r.children.map fun l => relTerm Ls r l j).sum).sum

/-- a composite object the handler accepts: a position and at least one child, every child with a position of `dimension`
entries and a charge, total charge zero (the handler's `assert`) -/
structure RootOK (Ls : List ℚ) (r : Root ℚ) : Prop where
  pos : r.pos.length = Ls.length
  ne : r.children ≠ []
  leaf : ∀ l ∈ r.children, l.pos.length = Ls.length ∧ ∃ q, l.charge = some q
  neutral : (r.children.map chargeOf).sum = 0

/-! ### list helpers -/

theorem mapM_charge {cs : List (Leaf ℚ)} (h : ∀ l ∈ cs, ∃ q, l.charge = some q) :
    cs.mapM (·.charge) = some (cs.map chargeOf) := by
  induction cs with
  | nil => rfl
  | cons c cs ih =>
    obtain ⟨q, hq⟩ := h c (by simp)
    rw [List.mapM_cons, ih (fun l hl => h l (by simp [hl])), hq]
    simp [chargeOf, hq]

theorem mapM_charge_none {cs : List (Leaf ℚ)} (h : ∃ l ∈ cs, l.charge = none) : cs.mapM (·.charge) = none := by
  induction cs with
  | nil => simp at h
  | cons c cs ih =>
    rw [List.mapM_cons]
    cases hc : c.charge with
    | none => rfl
    | some q =>
      obtain ⟨l, hl, hn⟩ := h
      have : l ∈ cs := by
        rcases List.mem_cons.mp hl with rfl | h'
        · rw [hc] at hn; cases hn
        · exact h'
      rw [ih ⟨l, this, hn⟩]; rfl

theorem accumulate_range (d : Nat) (g : Nat → ℚ) (q : ℚ) (p : List ℚ) (hp : p.length = d) :
    accumulate ((List.range d).map g) q p = some ((List.range d).map fun j => g j + q * p.getD j 0) := by
  unfold accumulate
  rw [if_pos (by simp [hp])]
  congr 1
  apply List.ext_getElem (by simp)
  intro i h1 h2
  simp only [List.length_mapIdx, List.length_map, List.length_range] at h1
  have : p[i]? = some p[i] := List.getElem?_eq_getElem (by omega)
  simp [List.getElem_mapIdx, this, List.getD_eq_getElem?_getD]

theorem accumulate_short {pol p : List ℚ} (q : ℚ) (h : pol.length < p.length) : accumulate pol q p = none := by
  unfold accumulate
  rw [if_neg (by omega)]

variable {st : Setting ℚ} {Ls : List ℚ}

theorem closestPosition_eq (hb : BoxOK st.box Ls) (r : Root ℚ) (l : Leaf ℚ) (hr : r.pos.length = Ls.length)
    (hl : l.pos.length = Ls.length) :
    closestPosition Ops.rat st r.pos l.pos = some (closest Ls r l) ∧ (closest Ls r l).length = Ls.length := by
  unfold closestPosition closest
  have := sepSpec_length hr hl
  rw [sepVec_eq hb hr hl]
  simp only [this, hr, le_refl, if_true, List.length_zipWith, min_self, and_self]

theorem closest_getD (r : Root ℚ) (l : Leaf ℚ) (hr : r.pos.length = Ls.length) (hl : l.pos.length = Ls.length)
    (j : Nat) (hj : j < Ls.length) :
    (closest Ls r l).getD j 0 = r.pos.getD j 0 + (sepSpec Ls r.pos l.pos).getD j 0 := by
  have := sepSpec_length hr hl
  unfold closest
  simp only [List.getD_eq_getElem?_getD]
  rw [List.getElem?_eq_getElem (by simp; omega), List.getElem?_eq_getElem (by omega),
    List.getElem?_eq_getElem (by omega)]
  simp

/-! ### closed form of one molecule and of the whole loop -/

theorem foldChildren (r : Root ℚ) (F : List ℚ → Leaf ℚ → Except String (List ℚ))
    (hF : ∀ (g : Nat → ℚ) (l : Leaf ℚ) (q : ℚ), l.charge = some q → l.pos.length = Ls.length →
      F ((List.range Ls.length).map g) l = .ok ((List.range Ls.length).map fun j => g j + q * (closest Ls r l).getD j 0)) :
    ∀ (cs : List (Leaf ℚ)) (g : Nat → ℚ), (∀ l ∈ cs, l.pos.length = Ls.length ∧ ∃ q, l.charge = some q) →
    cs.foldlM F ((List.range Ls.length).map g) =
      .ok ((List.range Ls.length).map fun j => g j + (cs.map fun l => leafTerm Ls r l j).sum) := by
  intro cs
  induction cs with
  | nil => intro g _; simp [pure, Except.pure]
  | cons c cs ih =>
    intro g h
    obtain ⟨hl, q, hq⟩ := h c (by simp)
    rw [List.foldlM_cons, hF g c q hq hl]
    simp only [bind, Except.bind]
    rw [ih _ (fun l hl => h l (by simp [hl]))]
    congr 1
    apply List.map_congr_left
    intro j _
    simp only [List.map_cons, List.sum_cons, leafTerm, chargeOf, hq, Option.getD_some]
    ring

/-- one well-formed molecule adds `Σ_leaves q · (unwrapped position)` to the running vector -/
theorem polRoot_eq (hb : BoxOK st.box Ls) (r : Root ℚ) (ok : RootOK Ls r) (g : Nat → ℚ) :
    polRoot Ops.rat st r ((List.range Ls.length).map g) =
      .ok ((List.range Ls.length).map fun j => g j + (r.children.map fun l => leafTerm Ls r l j).sum) := by
  unfold polRoot
  rw [mapM_charge (fun l hl => (ok.leaf l hl).2)]
  have hs : Lifting.pySum Ops.rat (r.children.map chargeOf) = 0 := by
    rw [JF.Lifting.pySum_exact Ops.rat rfl _]; exact ok.neutral
  have hne : r.children.isEmpty = false := by
    cases hc : r.children with
    | nil => exact absurd hc ok.ne
    | cons _ _ => rfl
  simp only [hs, rat_ofInt, Int.cast_zero, beq_self_eq_true, Bool.not_true, Bool.false_eq_true, if_false, hne]
  apply foldChildren r _ _ r.children g ok.leaf
  intro g l q hq hl
  obtain ⟨e1, e2⟩ := closestPosition_eq hb r l ok.pos hl
  simp only [hq, e1, accumulate_range _ g q _ e2]

theorem foldRoots (hb : BoxOK st.box Ls) :
    ∀ (state : List (Root ℚ)) (g : Nat → ℚ), (∀ r ∈ state, RootOK Ls r) →
    state.foldlM (fun pol r => polRoot Ops.rat st r pol) ((List.range Ls.length).map g) =
      .ok ((List.range Ls.length).map fun j =>
        g j + (state.map fun r => (r.children.map fun l => leafTerm Ls r l j).sum).sum) := by
  intro state
  induction state with
  | nil => intro g _; simp [pure, Except.pure]
  | cons r rs ih =>
    intro g h
    rw [List.foldlM_cons, polRoot_eq hb r (h r (by simp)) g]
    simp only [bind, Except.bind]
    rw [ih _ (fun r hr => h r (by simp [hr]))]
    congr 1
    apply List.map_congr_left
    intro j _
    simp only [List.map_cons, List.sum_cons]
    ring

theorem replicate_zero (d : Nat) : List.replicate d (Ops.rat.ofInt 0) = (List.range d).map fun _ => (0 : ℚ) := by
  apply List.ext_getElem (by simp)
  intro i h1 h2
  simp

/-- a failing molecule ends the loop with its exception, whatever was accumulated before -/
theorem foldRoots_error (hb : BoxOK st.box Ls) (pre post : List (Root ℚ)) (r : Root ℚ) (e : String)
    (hpre : ∀ r ∈ pre, RootOK Ls r) (he : ∀ pol, polRoot Ops.rat st r pol = .error e) (g : Nat → ℚ) :
    (pre ++ r :: post).foldlM (fun pol r => polRoot Ops.rat st r pol) ((List.range Ls.length).map g) = .error e := by
  rw [List.foldlM_append, foldRoots hb pre g hpre]
  simp only [bind, Except.bind, List.foldlM_cons, he]

/-! ### sums -/

theorem sum_map_mul_left {β : Type} (l : List β) (c : ℚ) (f : β → ℚ) : (l.map fun x => c * f x).sum = c * (l.map f).sum := by
  induction l with
  | nil => simp
  | cons x l ih => simp only [List.map_cons, List.sum_cons, ih]; ring

theorem sum_map_add {β : Type} (l : List β) (f g : β → ℚ) : (l.map fun x => f x + g x).sum = (l.map f).sum + (l.map g).sum := by
  induction l with
  | nil => simp
  | cons x l ih => simp only [List.map_cons, List.sum_cons, ih]; ring

theorem sum_map_congr {β : Type} (l : List β) (f g : β → ℚ) (h : ∀ x ∈ l, f x = g x) : (l.map f).sum = (l.map g).sum := by
  rw [List.map_congr_left h]

/-- for a neutral molecule the root position drops out -/
theorem root_sum_rel (r : Root ℚ) (ok : RootOK Ls r) (j : Nat) (hj : j < Ls.length) :
    (r.children.map fun l => leafTerm Ls r l j).sum = (r.children.map fun l => relTerm Ls r l j).sum := by
  have e : ∀ l ∈ r.children, leafTerm Ls r l j = r.pos.getD j 0 * chargeOf l + relTerm Ls r l j := by
    intro l hl
    unfold leafTerm relTerm
    rw [closest_getD r l ok.pos (ok.leaf l hl).1 j hj]; ring
  rw [sum_map_congr _ _ _ e, sum_map_add, sum_map_mul_left, ok.neutral]; ring

theorem polSpec_eq_rel (state : List (Root ℚ)) (h : ∀ r ∈ state, RootOK Ls r) : polSpec Ls state = polSpecRel Ls state := by
  unfold polSpec polSpecRel
  apply List.map_congr_left
  intro j hj
  rw [List.mem_range] at hj
  congr 1
  apply List.map_congr_left
  intro r hr
  exact root_sum_rel r (h r hr) j hj

end JF.OutputFloat
