import JF.Lemmas.DerivReal
import Mathlib.Algebra.BigOperators.Intervals
/-!
Loop lemmas for the Ewald derivative routine (`JF/Model/Potential/DerivativeEwald.lean`) in the exact reading:
the trigonometric recurrences hold `cos(kθ), sin(kθ)`, hence the three nested loops compute a plain
triple sum over the lattice octant; the position-space fold is a plain triple sum over the integer ball.
-/
namespace JF.Deriv
open Real Finset

variable (e : ℝ → ℝ)

/-- `delta_cos_x … delta_sin_z` for the angles `θ = 2π s / L` -/
noncomputable def Dθ (θx θy θz : ℝ) : Deltas ℝ := ⟨cos θx, sin θx, cos θy, sin θy, cos θz, sin θz⟩

theorem foldl_range_succ {β : Type} (f : β → ℕ → β) (s : β) (n : ℕ) :
    (List.range (n + 1)).foldl f s = f ((List.range n).foldl f s) n := by
  rw [List.range_succ, List.foldl_append]; rfl

theorem cos_succ (m : ℕ) (θ : ℝ) : cos (m * θ) * cos θ - sin (m * θ) * sin θ = cos ((m + 1 : ℕ) * θ) := by
  rw [← Real.cos_add]; congr 1; push_cast; ring

theorem sin_succ (m : ℕ) (θ : ℝ) : sin (m * θ) * cos θ + cos (m * θ) * sin θ = sin ((m + 1 : ℕ) * θ) := by
  rw [← Real.sin_add]; congr 1; push_cast; ring

/-- **recurrence, innermost loop**: while `k` has not reached its cut-off, the `z` registers hold
`cos(kθz), sin(kθz)` and the other registers are untouched -/
theorem fStep_prefix (p : Ewald ℝ) (θx θy θz : ℝ) (i j cutY cutX : ℕ) (s : FS ℝ)
    (hc : s.cz = 1) (hs : s.sz = 0) :
    ∀ m, m ≤ cutX →
      (List.range m).foldl (fStep (DOps.real e) p (Dθ θx θy θz) i j cutY cutX) s
        = { s with d := s.d + ∑ k ∈ range m, p.farr i j k * s.sx * s.cy * cos (k * θz),
                   cz := cos (m * θz), sz := sin (m * θz) } := by
  intro m
  induction m with
  | zero =>
    intro _
    obtain ⟨d, cx, sx, cy, sy, cz, sz⟩ := s
    simp only at hc hs
    simp [hc, hs]
  | succ m ih =>
    intro hm
    rw [foldl_range_succ, ih (by omega)]
    have hne : (m != cutX) = true := by simp; omega
    simp only [fStep, hne, if_true, Dθ]
    rw [cos_succ, sin_succ, sum_range_succ]
    simp only [add_assoc]

/-- the registers hold the cosines / sines of `(iθx, jθy, 0·θz)` -/
def Inv (θx θy : ℝ) (s : FS ℝ) (i j : ℕ) : Prop :=
  s.cx = cos (i * θx) ∧ s.sx = sin (i * θx) ∧ s.cy = cos (j * θy) ∧ s.sy = sin (j * θy) ∧ s.cz = 1 ∧ s.sz = 0

/-- one octant term -/
noncomputable def octTerm (p : Ewald ℝ) (θx θy θz : ℝ) (i j k : ℕ) : ℝ :=
  p.farr i j k * sin (i * θx) * cos (j * θy) * cos (k * θz)

/-- **recurrence, whole `k` loop** -/
theorem fLoopK_spec (p : Ewald ℝ) (θx θy θz : ℝ) (i cutY : ℕ) (s : FS ℝ) (j : ℕ) (h : Inv θx θy s i j) :
    let s' := fLoopK (DOps.real e) p (Dθ θx θy θz) i cutY s j
    s'.d = s.d + ∑ k ∈ range (cutoff p.fc i j + 1), octTerm p θx θy θz i j k ∧
      (j ≠ cutY → Inv θx θy s' i (j + 1)) ∧ (j = cutY → i ≠ p.fc → Inv θx θy s' (i + 1) 0) := by
  obtain ⟨h1, h2, h3, h4, h5, h6⟩ := h
  simp only [fLoopK]
  rw [foldl_range_succ, fStep_prefix e p θx θy θz i j cutY _ s h5 h6 _ le_rfl]
  by_cases hj : j = cutY
  · by_cases hi : i = p.fc
    · simp [fStep, hj, hi, sum_range_succ, octTerm, h2, h3, add_assoc]
    · simp [fStep, hj, hi, sum_range_succ, octTerm, h2, h3, add_assoc, Inv, Dθ, h1, cos_succ, sin_succ]
  · simp [fStep, hj, sum_range_succ, octTerm, h2, h3, add_assoc, Inv, Dθ, h1, h4, cos_succ, sin_succ]

/-- the `j`-column sum at octant row `i` -/
noncomputable def rowSum (p : Ewald ℝ) (θx θy θz : ℝ) (i : ℕ) (n : ℕ) : ℝ :=
  ∑ j ∈ range n, ∑ k ∈ range (cutoff p.fc i j + 1), octTerm p θx θy θz i j k

/-- **recurrence, `j` loop while `j` has not reached its cut-off** -/
theorem fLoopK_prefix (p : Ewald ℝ) (θx θy θz : ℝ) (i cutY : ℕ) (s : FS ℝ) (h : Inv θx θy s i 0) :
    ∀ m, m ≤ cutY →
      let sm := (List.range m).foldl (fLoopK (DOps.real e) p (Dθ θx θy θz) i cutY) s
      sm.d = s.d + rowSum p θx θy θz i m ∧ Inv θx θy sm i m := by
  intro m
  induction m with
  | zero => intro _; simpa [rowSum] using h
  | succ m ih =>
    intro hm
    obtain ⟨ihd, ihI⟩ := ih (by omega)
    have := fLoopK_spec e p θx θy θz i cutY _ m ihI
    simp only [foldl_range_succ]
    refine ⟨?_, this.2.1 (by omega)⟩
    rw [this.1, ihd, rowSum, rowSum, sum_range_succ _ m, add_assoc]

/-- **recurrence, whole `j` loop** -/
theorem fLoopJ_spec (p : Ewald ℝ) (θx θy θz : ℝ) (s : FS ℝ) (i0 : ℕ) (h : Inv θx θy s (i0 + 1) 0) :
    let s' := fLoopJ (DOps.real e) p (Dθ θx θy θz) s i0
    s'.d = s.d + rowSum p θx θy θz (i0 + 1) (cutoff p.fc (i0 + 1 : ℕ) 0 + 1) ∧
      (i0 + 1 ≠ p.fc → Inv θx θy s' (i0 + 2) 0) := by
  simp only [fLoopJ]
  rw [foldl_range_succ]
  obtain ⟨hd, hI⟩ := fLoopK_prefix e p θx θy θz (i0 + 1) (cutoff p.fc (i0 + 1 : ℕ) 0) s h _ le_rfl
  have := fLoopK_spec e p θx θy θz (i0 + 1) (cutoff p.fc (i0 + 1 : ℕ) 0) _ _ hI
  refine ⟨?_, fun hne => this.2.2 rfl hne⟩
  rw [this.1, hd, rowSum, rowSum, sum_range_succ _ (cutoff p.fc (i0 + 1 : ℕ) 0), add_assoc]

/-- the octant triple sum `Σ_{i=1..fc} Σ_{j=0..⌊√(fc²-i²)⌋} Σ_{k=0..⌊√(fc²-i²-j²)⌋}` -/
noncomputable def octSum (fc : ℕ) (g : ℕ → ℕ → ℕ → ℝ) : ℝ :=
  ∑ i0 ∈ range fc, ∑ j ∈ range (cutoff fc (i0 + 1 : ℕ) 0 + 1), ∑ k ∈ range (cutoff fc (i0 + 1 : ℕ) j + 1), g (i0 + 1) j k

theorem fLoopJ_prefix (p : Ewald ℝ) (θx θy θz : ℝ) (s : FS ℝ) (h : Inv θx θy s 1 0) :
    ∀ m, m ≤ p.fc →
      let sm := (List.range m).foldl (fLoopJ (DOps.real e) p (Dθ θx θy θz)) s
      sm.d = s.d + ∑ i0 ∈ range m, rowSum p θx θy θz (i0 + 1) (cutoff p.fc (i0 + 1 : ℕ) 0 + 1) ∧
        (m < p.fc → Inv θx θy sm (m + 1) 0) := by
  intro m
  induction m with
  | zero => intro _; exact ⟨by simp, fun _ => h⟩
  | succ m ih =>
    intro hm
    obtain ⟨ihd, ihI⟩ := ih (by omega)
    have := fLoopJ_spec e p θx θy θz _ m (ihI (by omega))
    simp only [foldl_range_succ]
    refine ⟨?_, fun hlt => this.2 (by omega)⟩
    rw [this.1, ihd, sum_range_succ _ m, add_assoc]

/-- **`recurrence_spec`**: with `delta_cos/sin = cos/sin θ` the three nested Fourier loops with their
register updates and resets compute `acc + Σ_{octant} A_ijk sin(iθx) cos(jθy) cos(kθz)`. -/
theorem fourierSum_spec (p : Ewald ℝ) (θx θy θz acc : ℝ) :
    (fourierSum (DOps.real e) p (Dθ θx θy θz) acc).d = acc + octSum p.fc (octTerm p θx θy θz) := by
  simp only [fourierSum]
  rw [(fLoopJ_prefix e p θx θy θz _ (by simp [Inv, Dθ]) p.fc le_rfl).1]
  rfl

/-! ### the position-space fold is a plain triple sum over the integer ball -/

theorem foldl_add_eq {ι : Type} (f : ι → ℝ) (l : List ι) (a : ℝ) :
    l.foldl (fun acc i => acc + f i) a = a + (l.map f).sum := by
  induction l generalizing a with
  | nil => simp
  | cons x l ih => simp [ih, add_assoc]

/-- `Σ_{k=-c..c} Σ_{j=-⌊√(c²-k²)⌋..} Σ_{i=-⌊√(c²-j²-k²)⌋..} f i j k`, in the routine's order -/
noncomputable def latSum (c : ℕ) (f : ℤ → ℤ → ℤ → ℝ) : ℝ :=
  ((intRange c).map fun k => ((intRange (cutoff c k 0)).map fun j =>
    ((intRange (cutoff c j k)).map fun i => f i j k).sum).sum).sum

theorem posSum_eq (p : Ewald ℝ) (sx sy sz acc : ℝ) :
    posSum (DOps.real e) p sx sy sz acc = acc + latSum p.pc (posTerm (DOps.real e) p sx sy sz) := by
  simp only [posSum, foldl_add_eq, latSum]

theorem hasDerivAt_list_sum {ι : Type} (l : List ι) (F : ℝ → ι → ℝ) (F' : ι → ℝ) (x0 : ℝ)
    (h : ∀ i, HasDerivAt (fun x => F x i) (F' i) x0) :
    HasDerivAt (fun x => (l.map (F x)).sum) ((l.map F').sum) x0 := by
  induction l with
  | nil => simpa using hasDerivAt_const x0 (0 : ℝ)
  | cons a l ih =>
    simp only [List.map_cons, List.sum_cons]
    exact (h a).add ih

theorem latSum_hasDerivAt (c : ℕ) (F : ℝ → ℤ → ℤ → ℤ → ℝ) (F' : ℤ → ℤ → ℤ → ℝ) (x0 : ℝ)
    (h : ∀ i j k, HasDerivAt (fun x => F x i j k) (F' i j k) x0) :
    HasDerivAt (fun x => latSum c (F x)) (latSum c F') x0 := by
  unfold latSum
  refine hasDerivAt_list_sum _ (fun x k => _) (fun k => _) x0 fun k => ?_
  refine hasDerivAt_list_sum _ (fun x j => _) (fun j => _) x0 fun j => ?_
  exact hasDerivAt_list_sum _ (fun x i => F x i j k) (fun i => F' i j k) x0 fun i => h i j k

theorem octSum_hasDerivAt (fc : ℕ) (G : ℝ → ℕ → ℕ → ℕ → ℝ) (G' : ℕ → ℕ → ℕ → ℝ) (x0 : ℝ)
    (h : ∀ i0 j k, HasDerivAt (fun x => G x (i0 + 1) j k) (G' (i0 + 1) j k) x0) :
    HasDerivAt (fun x => octSum fc (G x)) (octSum fc G') x0 := by
  unfold octSum
  refine HasDerivAt.fun_sum fun i0 _ => ?_
  refine HasDerivAt.fun_sum fun j _ => ?_
  exact HasDerivAt.fun_sum fun k _ => h i0 j k

/-! ### term-wise derivatives of the truncated Ewald energy -/

/-- the shifted vector `s + (i, j, k) L` -/
def latVec (L sx sy sz : ℝ) (i j k : ℤ) : V3 ℝ := ⟨sx + i * L, sy + j * L, sz + k * L⟩

/-- one position-space term of the energy: `erfc(a |s + nL|) / |s + nL|` -/
noncomputable def posEnergyTerm (p : Ewald ℝ) (sx sy sz : ℝ) (i j k : ℤ) : ℝ :=
  e (p.aol * √((latVec p.L sx sy sz i j k).nsq)) / √((latVec p.L sx sy sz i j k).nsq)

/-- one Fourier-space term of the energy (octant form): `A_ijk / (i·2π/L) · cos(iθx) cos(jθy) cos(kθz)` -/
noncomputable def fourierEnergyTerm (p : Ewald ℝ) (sx sy sz : ℝ) (i j k : ℕ) : ℝ :=
  p.farr i j k / (i * p.twoPiOverL) * cos (i * (p.twoPiOverL * sx)) * cos (j * (p.twoPiOverL * sy))
    * cos (k * (p.twoPiOverL * sz))

theorem posTerm_hasDerivAt (p : Ewald ℝ) (hp1 : p.twoAolRootPi = 2 * p.aol / √π)
    (hp2 : p.aolSq = p.aol * p.aol)
    (he : ∀ y, HasDerivAt e (-(2 / √π) * Real.exp (-(y * y))) y)
    (sx sy sz : ℝ) (i j k : ℤ) (hne : (latVec p.L sx sy sz i j k).nsq ≠ 0) :
    HasDerivAt (fun x => posEnergyTerm e p (sx - x) sy sz i j k)
      (posTerm (DOps.real e) p sx sy sz i j k) 0 := by
  set w := latVec p.L sx sy sz i j k with hw
  have hr0 : 0 < √(w.nsq) := Real.sqrt_pos.mpr (lt_of_le_of_ne w.nsq_nonneg (Ne.symm hne))
  have hsq : √(w.nsq) * √(w.nsq) = w.nsq := Real.mul_self_sqrt w.nsq_nonneg
  have hpi : 0 < √π := Real.sqrt_pos.mpr Real.pi_pos
  have hr := norm_moved_hasDerivAt w 0 hne
  have hcomp : HasDerivAt (fun x => e (p.aol * √((w.moved 0 x).nsq)))
      (-(2 / √π) * Real.exp (-((p.aol * √(w.nsq)) * (p.aol * √(w.nsq)))) * (p.aol * (-(w.get 0) / √(w.nsq)))) 0 := by
    have h1 := hr.const_mul p.aol
    have h2 : HasDerivAt e (-(2 / √π) * Real.exp (-((p.aol * √(w.nsq)) * (p.aol * √(w.nsq)))))
        (p.aol * √((w.moved 0 0).nsq)) := by simpa using he (p.aol * √(w.nsq))
    exact h2.comp (0 : ℝ) h1
  have hdiv := hcomp.div hr (by simpa using hr0.ne')
  have hfun : (fun x => posEnergyTerm e p (sx - x) sy sz i j k)
      = fun x => e (p.aol * √((w.moved 0 x).nsq)) / √((w.moved 0 x).nsq) := by
    funext x
    have : latVec p.L (sx - x) sy sz i j k = w.moved 0 x := by
      simp only [hw, latVec, V3.moved]; congr 1; ring
    simp only [posEnergyTerm, this]
  rw [hfun]
  refine hdiv.congr_deriv ?_
  have hterm : posTerm (DOps.real e) p sx sy sz i j k
      = w.x * (p.twoAolRootPi * Real.exp ((-p.aolSq) * w.nsq) + e (p.aol * √(w.nsq)) / √(w.nsq)) / w.nsq := by
    simp only [posTerm, hw, latVec, V3.nsq, real_ofInt, real_exp, real_erfc, real_sqrt]
  rw [hterm, hp1, hp2]
  simp only [moved_zero, V3.get]
  obtain ⟨r, hrd⟩ : ∃ r, r = √(w.nsq) := ⟨_, rfl⟩
  rw [← hrd] at hr0 hsq ⊢
  rw [← hsq]
  have hexp : (-(p.aol * p.aol)) * (r * r) = -((p.aol * r) * (p.aol * r)) := by ring
  rw [hexp]
  field_simp
  ring

theorem fourierTerm_hasDerivAt (p : Ewald ℝ) (hw : p.twoPiOverL ≠ 0) (sx sy sz : ℝ) (i j k : ℕ) (hi : i ≠ 0) :
    HasDerivAt (fun x => fourierEnergyTerm p (sx - x) sy sz i j k)
      (octTerm p (p.twoPiOverL * sx) (p.twoPiOverL * sy) (p.twoPiOverL * sz) i j k) 0 := by
  have h1 : HasDerivAt (fun x : ℝ => (i : ℝ) * (p.twoPiOverL * (sx - x))) ((i : ℝ) * (p.twoPiOverL * (-1))) 0 := by
    have : HasDerivAt (fun x : ℝ => sx - x) (-1) 0 := by simpa using (hasDerivAt_id (0 : ℝ)).const_sub sx
    exact (this.const_mul _).const_mul _
  have h2 := (h1.cos.const_mul (p.farr i j k / (i * p.twoPiOverL))).mul_const
    (cos (j * (p.twoPiOverL * sy)))
  have h3 := h2.mul_const (cos (k * (p.twoPiOverL * sz)))
  have hi' : (i : ℝ) ≠ 0 := by exact_mod_cast hi
  unfold fourierEnergyTerm
  refine h3.congr_deriv ?_
  simp only [octTerm, sub_zero]
  field_simp

/-! ### symmetry of the sums -/

theorem list_range_map_sum (n : ℕ) (g : ℕ → ℝ) : ((List.range n).map g).sum = ∑ m ∈ range n, g m := by
  induction n with
  | zero => simp
  | succ n ih => rw [List.sum_range_succ, ih, sum_range_succ]

theorem intRange_map_sum (c : ℕ) (g : ℤ → ℝ) :
    ((intRange c).map g).sum = ∑ n ∈ range (2 * c + 1), g ((n : ℤ) - c) := by
  simp only [intRange, List.map_map]
  exact list_range_map_sum _ _

/-- the index interval `-c..c` is symmetric -/
theorem intRange_sum_neg (c : ℕ) (f : ℤ → ℝ) :
    ((intRange c).map (fun i => f (-i))).sum = ((intRange c).map f).sum := by
  rw [intRange_map_sum, intRange_map_sum, ← sum_range_reflect (fun n => f ((n : ℤ) - c))]
  refine sum_congr rfl fun n hn => ?_
  have hn' : n ≤ 2 * c := by have := mem_range.mp hn; omega
  congr 1
  have : ((2 * c + 1 - 1 - n : ℕ) : ℤ) = 2 * (c : ℤ) - n := by omega
  rw [this]; ring

theorem list_sum_map_neg {ι : Type} (l : List ι) (f : ι → ℝ) :
    (l.map (fun i => -f i)).sum = -(l.map f).sum := by
  induction l with
  | nil => simp
  | cons a l ih => simp [ih]; ring

theorem latSum_neg_reflect (c : ℕ) (f : ℤ → ℤ → ℤ → ℝ) :
    latSum c (fun i j k => -f (-i) j k) = -latSum c f := by
  unfold latSum
  rw [← list_sum_map_neg]
  congr 1; refine List.map_congr_left fun k _ => ?_
  rw [← list_sum_map_neg]
  congr 1; refine List.map_congr_left fun j _ => ?_
  rw [list_sum_map_neg, intRange_sum_neg _ (fun i => f i j k)]

theorem posTerm_neg (p : Ewald ℝ) (sx sy sz : ℝ) (i j k : ℤ) :
    posTerm (DOps.real e) p (-sx) sy sz i j k = -posTerm (DOps.real e) p sx sy sz (-i) j k := by
  have hvx : -sx + (i : ℝ) * p.L = -(sx + ((-i : ℤ) : ℝ) * p.L) := by push_cast; ring
  simp only [posTerm, real_ofInt, real_exp, real_erfc, real_sqrt]
  rw [hvx, neg_mul_neg]
  ring

theorem octTerm_neg (p : Ewald ℝ) (w sx θy θz : ℝ) (i j k : ℕ) :
    octTerm p (w * -sx) θy θz i j k = -octTerm p (w * sx) θy θz i j k := by
  simp only [octTerm, mul_neg, Real.sin_neg]; ring

theorem octSum_neg (fc : ℕ) (g : ℕ → ℕ → ℕ → ℝ) : octSum fc (fun i j k => -g i j k) = -octSum fc g := by
  simp only [octSum, sum_neg_distrib]

/-! ### homogeneity in the box length -/

theorem list_sum_map_mul {ι : Type} (l : List ι) (a : ℝ) (f : ι → ℝ) :
    (l.map (fun i => a * f i)).sum = a * (l.map f).sum := by
  induction l with
  | nil => simp
  | cons x l ih => simp [ih]; ring

theorem latSum_mul (c : ℕ) (a : ℝ) (f : ℤ → ℤ → ℤ → ℝ) :
    latSum c (fun i j k => a * f i j k) = a * latSum c f := by
  unfold latSum
  rw [← list_sum_map_mul]
  congr 1; refine List.map_congr_left fun k _ => ?_
  rw [← list_sum_map_mul]
  congr 1; refine List.map_congr_left fun j _ => ?_
  rw [list_sum_map_mul]

theorem octSum_mul (fc : ℕ) (a : ℝ) (g : ℕ → ℕ → ℕ → ℝ) :
    octSum fc (fun i j k => a * g i j k) = a * octSum fc g := by
  simp only [octSum, mul_sum]

theorem posTerm_scale (fc pc : ℕ) (alpha L : ℝ) (hL : 0 < L) (sx sy sz : ℝ) (i j k : ℤ) :
    posTerm (DOps.real e) (Ewald.construct (DOps.real e) fc pc alpha L) sx sy sz i j k
      = 1 / L ^ 2 * posTerm (DOps.real e) (Ewald.construct (DOps.real e) fc pc alpha 1) (sx / L) (sy / L) (sz / L) i j k := by
  have hL' : L ≠ 0 := hL.ne'
  simp only [posTerm, Ewald.construct, real_ofInt, real_exp, real_erfc, real_sqrt, real_pi]
  set a : ℝ := sx / L + (i : ℝ) * 1 with ha
  set b : ℝ := sy / L + (j : ℝ) * 1 with hb
  set c : ℝ := sz / L + (k : ℝ) * 1 with hc
  have e1 : sx + (i : ℝ) * L = L * a := by rw [ha]; field_simp
  have e2 : sy + (j : ℝ) * L = L * b := by rw [hb]; field_simp
  have e3 : sz + (k : ℝ) * L = L * c := by rw [hc]; field_simp
  rw [e1, e2, e3]
  have hq : L * a * (L * a) + L * b * (L * b) + L * c * (L * c) = L * L * (a * a + b * b + c * c) := by ring
  rw [hq, Real.sqrt_mul (mul_self_nonneg L), Real.sqrt_mul_self hL.le]
  set q : ℝ := a * a + b * b + c * c with hqd
  have h1 : alpha / L * (L * √q) = alpha / 1 * √q := by field_simp
  have h2 : -(alpha * alpha / (L * L)) * (L * L * q) = -(alpha * alpha / (1 * 1)) * q := by field_simp
  rw [h1, h2]
  by_cases hq0 : q = 0
  · simp [hq0]
  · have hsq : √q ≠ 0 := by
      have : 0 ≤ q := by rw [hqd]; nlinarith [mul_self_nonneg a, mul_self_nonneg b, mul_self_nonneg c]
      exact (Real.sqrt_pos.mpr (lt_of_le_of_ne this (Ne.symm hq0))).ne'
    have hpi : √π ≠ 0 := (Real.sqrt_pos.mpr Real.pi_pos).ne'
    field_simp

theorem octTerm_scale (fc pc : ℕ) (alpha L : ℝ) (hL : 0 < L) (sx sy sz : ℝ) (i j k : ℕ) :
    octTerm (Ewald.construct (DOps.real e) fc pc alpha L)
        ((Ewald.construct (DOps.real e) fc pc alpha L).twoPiOverL * sx)
        ((Ewald.construct (DOps.real e) fc pc alpha L).twoPiOverL * sy)
        ((Ewald.construct (DOps.real e) fc pc alpha L).twoPiOverL * sz) i j k
      = 1 / L ^ 2 * octTerm (Ewald.construct (DOps.real e) fc pc alpha 1)
        ((Ewald.construct (DOps.real e) fc pc alpha 1).twoPiOverL * (sx / L))
        ((Ewald.construct (DOps.real e) fc pc alpha 1).twoPiOverL * (sy / L))
        ((Ewald.construct (DOps.real e) fc pc alpha 1).twoPiOverL * (sz / L)) i j k := by
  have hL' : L ≠ 0 := hL.ne'
  have hw : ∀ s : ℝ, (2 : ℝ) * π / L * s = 2 * π / 1 * (s / L) := fun s => by field_simp
  simp only [octTerm, Ewald.construct, fourierCoeff, real_ofInt, real_exp, real_pi, Int.cast_ofNat, hw]
  simp only [div_eq_mul_inv, mul_inv, one_mul]
  ring

end JF.Deriv
