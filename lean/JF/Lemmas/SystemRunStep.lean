import JF.Lemmas.SystemRun
import JF.Lemmas.SystemRunGeo
import JF.Lemmas.SystemRunMotion
import JF.Props.Footprints
/-!
The composed system for the concrete coulomb_atoms world — definitions of its runs and of the joint invariant, and the induction
step.  The theorems for the reader are in `JF/Props/SystemInv.lean`.

One leg (`SysStep`) = one pass through the body of `SingleProcessMediator.run`, i.e. `JF.Med.leg` (E1, spec-level scheduler over
`XTime`) on the concrete global state of E8 (`JF.CW`):
* the activator first updates its occupancy with the active unit of the current global state (`occNext`), then the taggers yield
  on that state: `o.yields T = yieldCls env (class of T) ⟨us, occ'⟩` — the yields are COMPUTED, not oracle values;
* the candidate times are constrained by what the handler kinds compute (`CandsOK`): a cell-boundary handler returns exactly
  `time stamp of the unit of its in-state + geo.ttb position velocity` (`CellBoundaryEventHandler.send_event_time`), every other
  handler a normalised finite time or `inf`, not before the last commit;
* the committed handler's event moves the global state by `Kin.step` of an event of the kind allowed for the committing tagger
  (`CW.allowedEv`) at the committed time (`Commits`; a dumping event may also leave the state as it is).
-/
namespace JF.Sys
open JF JF.Act JF.Heap JF.Sched JF.Med JF.CW JF.C14 JF.MediatorLoop JF.Kin

section defs
variable (env : Env ℚ) (geo : Geo env) (c : Wiring) (S : TaggerIdx) (needs : HandlerId → Bool)

/-- side conditions of a committed event (C07's admissibility `Adm` with the velocities of the geometry, and C07's `Smooth` for
the cell-boundary event: the coordinate it writes is congruent modulo the box length to the time-sliced coordinate it
overwrites — in the exact reading the boundary IS the time-sliced coordinate, `JF.C11.boundary_pos`, last clause) -/
def EvAdm (us : List (PUnit ℚ)) : Kin.Ev ℚ → Prop
  | .start _ a v => a < us.length ∧ geo.velOK v ∧ ∀ u ∈ us, u.vel = none
  | .keep _ => True
  | .snap t d x => (∀ h : d < env.L.length, 0 ≤ x ∧ x < env.L[d]) ∧ Smooth env.L us (.snap t d x)
  | .lift _ b => b < us.length
  | .endOfChain _ a v => a < us.length ∧ geo.velOK v

/-- the commit of an event of a handler of kind `kind` at time `t` -/
def Commits (kind : HandlerKind) (t : Time ℚ) (us us' : List (PUnit ℚ)) : Prop :=
  (∃ ev : Kin.Ev ℚ, allowedEv kind ev = true ∧ ev.time = t ∧ EvAdm env geo us ev ∧ us' = Kin.step env.o env.L us ev)
  ∨ (kind = .dumping ∧ us' = us)

/-- what `send_event_time` of the handlers handed out in this leg returns -/
def CandsOK (us : List (PUnit ℚ)) (last : XTime) (o : Oracle XTime) (created : List (HandlerId × IdTuple)) : Prop :=
  ∀ q ∈ created,
    (kindOfH c q.1 = .cellBoundary →
      ∃ a u v ts, q.2 = some [[a]] ∧ us[a]? = some u ∧ u.vel = some v ∧ u.ts = some ts ∧
        o.cand q.1 = .fin (Time.add Ops.rat ts (geo.ttb u.pos v))) ∧
    (kindOfH c q.1 ≠ .cellBoundary → NormX (o.cand q.1) ∧ xcfg.lt (o.cand q.1) last = false)

/-- one leg of the composed system -/
structure SysStep (s : Sys) (o : Oracle XTime) (cm : Committed XTime) (s' : Sys) : Prop where
  occ1 : occNext env (hasOccOf c) s = some s'.occ
  yields : o.yields = fun T => yieldCls env (c.tagger T).cls ⟨s.us, s'.occ⟩
  leg : leg (mwire c S needs) (specI xcfg) s.med o = .ok (s'.med, cm)
  cands : CandsOK env geo c s.us s.med.sched.last o cm.created
  ev : ∃ t, cm.time = .fin t ∧ Commits env geo (kindOfH c cm.handler) t s.us s'.us
  ids' : s'.ids = assign s.ids cm.created
  prev : s'.usPrev = s.us
  mid' : s'.mid = midAct (mwire c S needs) s.med o

/-- the state before the first leg: nothing moves, the occupancy records no active unit (`initialize`) -/
structure Init (s : Sys) : Prop where
  med : s.med = MedState.init (specI xcfg) c.wires
  wf : WF env.L s.us
  box : ∀ u ∈ s.us, InBox env.L u.pos
  rest : ∀ u ∈ s.us, u.vel = none
  occId : s.occ.activeId = none
  occCell : s.occ.activeCell = none
  /-- the occupancy is what `initialize` builds from all point masses -/
  occInit : ∃ cap, s.occ = Occ.init cap (unitsOf env s.us)
  prev : s.usPrev = s.us

/-- the runs of the composed system: any number of legs; no leg after the end-of-run commit -/
inductive Reach : List (Oracle XTime) → List (Committed XTime) → Sys → Prop
  | init (s : Sys) (h : Init env c s) : Reach [] [] s
  | step {os : List (Oracle XTime)} {cs : List (Committed XTime)} {s s' : Sys} {o : Oracle XTime} {cm : Committed XTime}
      (prev : Reach os cs s) (hgo : ∀ cl, cs.getLast? = some cl → cl.stop = false)
      (hstep : SysStep env geo c S needs s o cm s') : Reach (os ++ [o]) (cs ++ [cm]) s'

/-- the committed time of the leg is not the time of a pending cell-boundary candidate -/
def NoTieAll (p : Pend XTime) (cm : Committed XTime) : Prop :=
  ∀ hb, kindOfH c hb = .cellBoundary → pendPushed p cm hb ≠ some cm.time

/-- the unit that was active in `usPrev` (the state the occupancy `occ` was updated on) is, in the state `us`, in the cell the
occupancy has recorded as active cell.  For `us = usPrev`: C11's mirror for the active unit.  For `us` = the state after the
commit: the active unit — time-sliced to the event time — has not left its recorded cell (E8's `StaysInRecordedCell` for the
commits that keep the active unit; the premise `hmove` of `JF.C11.update_inv` for those that change it). -/
def OldActiveStays (occ : Occ.State) (usPrev us : List (PUnit ℚ)) : Prop :=
  ∀ a, movers usPrev = [a] → env.relevant a = true → occ.activeCell = some (unitIn env us a).cell

/-- the no-tie hypothesis of one leg: a sampling or dumping event is not committed at exactly the time of a pending cell-boundary
candidate (if it were, the active unit would be time-sliced ONTO the cell boundary by an event that does not re-create the cell
taggers: `JF.Footprints.Example.quiet_commit_needs_premise`) -/
def TieFreeLeg (p : Pend XTime) (cm : Committed XTime) : Prop :=
  (kindOfH c cm.handler = .sampling ∨ kindOfH c cm.handler = .dumping) → NoTieAll c p cm

def TieFree (cs : List (Committed XTime)) : Prop :=
  ∀ k cm, cs[k]? = some cm → TieFreeLeg c (pendOf (fun _ => none) (cs.take k)) cm

/-- decidable side condition on a wiring with an occupancy: there is exactly one tagger of kind cell-boundary, it has the class
`CellBoundaryTagger`, and it is activated in every reachable activation state -/
def cbWired (c : Wiring) (S : TaggerIdx) : Bool :=
  !hasOccOf c ||
  (List.range c.n).any fun B =>
    (c.tagger B).cls == .cellBoundary && (c.tagger B).kind == .cellBoundary &&
    (List.range c.n).all (fun T => T == B || (c.tagger T).kind != .cellBoundary) &&
    (reach c S).all (fun σ => aGet σ B)

/-- the standing hypotheses on the configuration -/
structure Hyp : Prop where
  ho : env.o = Ops.rat
  sound : WiringSound c = true
  hS : c.start? = some S
  sup : Supported c = true
  cb : cbWired c S = true

/-- **the joint invariant** at the boundary after the leg that committed `cl` (the last element of `cs`): `E` = tagger of the
committed handler, `tl` = committed time; exactly unit `a` moves, from `pos` with velocity `v` since `ts`. -/
structure Big (cs : List (Committed XTime)) (cl : Committed XTime) (s : Sys)
    (E : TaggerIdx) (tl : Time ℚ) (a : Nat) (pos v : List ℚ) (ts : Time ℚ) : Prop where
  /-- E1: the scheduler holds exactly the pending events, a handler has one iff it is running -/
  med : MInv (I := specI xcfg) (mwire c S needs) (SRel xcfg) s.med (pendOf (fun _ => none) cs) cl.time
  started : s.med.act.started = true
  prec : s.med.preceding = some cl.handler
  owner : owner c.wires cl.handler = some E
  stopEq : cl.stop = (mwire c S needs).endOfRun cl.handler
  /-- the activator after the trash of the last leg, in terms of its lists in the middle of that leg -/
  trashEq : s.med.act.ts = (trash c.wires s.mid E).1
  running : cl.handler ∈ (getT s.mid E).running
  time : cl.time = .fin tl
  tnorm : Normalised tl
  /-- every pending candidate time is a normalised finite time or `inf` -/
  norm : ∀ h t, pendOf (fun _ => none) cs h = some t → NormX t
  /-- C07: one mover, everything in the box; its time stamp is not after the last commit -/
  kin : KinI env.L s.us a pos v ts
  vel : geo.velOK v
  tsnorm : Normalised ts
  tsle : val ts ≤ val tl
  /-- … and it IS the time of the last commit unless that was a dumping event (whose out-state is empty) -/
  tsEq : (c.tagger E).kind ≠ .dumping → ts = tl
  /-- C09 (via the run of the activator-level machine up to the middle of the last leg, which carries `Fresh` for every live
  tagger: `JF.Act.run_inv`), on the consistent concrete state of that moment -/
  phase : ∃ hc : Consistent env (hasOccOf c) ⟨s.usPrev, s.occ⟩,
    (cs.length = 1 ∧ E = S ∧ ∃ ids0 out, first c.wires (initAct c.wires) S
        (fun T => (world env c).yieldOf T ⟨⟨s.usPrev, s.occ⟩, hc⟩) = some (s.mid, out) ∧ s.ids = assign ids0 out)
    ∨ Run c (world env c) (Tr env c) S ⟨s.mid, s.ids, ⟨⟨s.usPrev, s.occ⟩, hc⟩⟩
  /-- C08 (via the run of C08's machine `Reach8` up to the middle of the last leg, with the concrete motion relation `motionOf`:
  it carries `Current` — every unit of the in-state of every pending interaction / cell-veto handler still moves as it did when
  the candidate was computed, `born` being the state of that moment) -/
  cur : ∃ (hc : Consistent env (hasOccOf c) ⟨s.usPrev, s.occ⟩) (born : HandlerId → G env c),
    C08.Reach8 c.wires (world env c) (motionOf env c) S ⟨⟨s.mid, s.ids, ⟨⟨s.usPrev, s.occ⟩, hc⟩⟩, born⟩
  wfPrev : ∀ u ∈ s.usPrev, WFU env.L.length u
  /-- the state the last leg's candidates were computed on: at rest (first leg) or with one mover -/
  kinPrev : (∀ u ∈ s.usPrev, u.vel = none) ∨ ∃ a0 pos0 v0 ts0, KinI env.L s.usPrev a0 pos0 v0 ts0
  /-- how the global state came from the one the last leg's candidates were computed on -/
  commit : Commits env geo (c.tagger E).kind tl s.usPrev s.us
  /-- C11's mirror for the active unit: in the middle of the last leg the recorded active cell was the cell of its position -/
  mirror : hasOccOf c = true → OldActiveStays env s.occ s.usPrev s.usPrev
  /-- C11 (the former premise): after the commit of anything but the cell-boundary event, at a time that is not the time of
  the pending cell-boundary candidate, the unit that was active is — time-sliced to the committed time — still in its recorded cell -/
  stays : hasOccOf c = true → (c.tagger E).kind ≠ .cellBoundary → NoTieAll c (pendOf (fun _ => none) cs.dropLast) cl →
    OldActiveStays env s.occ s.usPrev s.us
  /-- a pending cell-boundary candidate is the time until which the mover stays in the cell of its position -/
  cb : hasOccOf c = true → cl.stop = false → TieFreeLeg c (pendOf (fun _ => none) cs.dropLast) cl →
    ∀ hb tb, kindOfH c hb = .cellBoundary →
    pendOf (fun _ => none) cs hb = some tb →
    ∃ τ, tb = .fin τ ∧ Normalised τ ∧ ∀ x, val ts ≤ x → x < val τ →
      env.cellOf (sliceVec Ops.rat env.L pos v (x - val ts)) = env.cellOf pos

/-- decidable side condition for the derivation of `CandOK` (E1) for the cell-boundary candidates: a dumping event — whose
out-state is empty, so that the active unit keeps an older time stamp — does not create a cell-boundary handler -/
def dumpQuiet (c : Wiring) : Bool :=
  (List.range c.n).all fun E => (c.tagger E).kind != .dumping ||
    (c.tagger E).creates.all fun T => (c.tagger T).kind != .cellBoundary

end defs

/-! ### the activator call of a leg after the first one is the `update` of C09's `commit` -/

theorem getToRun_started {w : Wires} {S : TaggerIdx} {a a1 : ActSt} {h : HandlerId} {E : TaggerIdx}
    {ys : TaggerIdx → List IdTuple} {created : List (HandlerId × IdTuple)} (hst : a.started = true)
    (ho : owner w h = some E) (e : getToRun w S a (some h) ys = (a1, .ok created)) :
    update w a.ts E ys = some (a1.ts, created) := by
  unfold getToRun at e
  simp only [hst, Bool.not_true, Bool.false_eq_true, if_false, Option.bind_some, ho] at e
  split at e
  · simp at e
  · next s' out hu =>
    simp only [Prod.mk.injEq, RunOut.ok.injEq] at e
    obtain ⟨rfl, rfl⟩ := e
    exact hu

theorem getToRun_first {w : Wires} {S : TaggerIdx} {a a1 : ActSt}
    {ys : TaggerIdx → List IdTuple} {created : List (HandlerId × IdTuple)} (hst : a.started = false)
    (e : getToRun w S a none ys = (a1, .ok created)) :
    first w a.ts S ys = some (a1.ts, created) ∧ a1.started = true := by
  unfold getToRun at e
  simp only [hst, Bool.not_false, if_true] at e
  split at e
  · simp at e
  · next s' out hu =>
    simp only [Prod.mk.injEq, RunOut.ok.injEq] at e
    obtain ⟨rfl, rfl⟩ := e
    exact ⟨hu, rfl⟩

theorem getTrashable_started {w : Wires} {a a2 : ActSt} {h : HandlerId} {r : TrashOut}
    (e : getTrashable w a h = (a2, r)) : a2.started = a.started := by
  unfold getTrashable at e
  split at e
  · simp only [Prod.mk.injEq] at e; rw [← e.1]
  · simp only [Prod.mk.injEq] at e; rw [← e.1]

theorem owner_lt {w : Wires} {h : HandlerId} {E : TaggerIdx} (e : owner w h = some E) : E < w.length := by
  unfold owner at e
  simp only at e
  split at e
  · next hlt => simp only [Option.some.injEq] at e; subst e; exact hlt
  · cases e

section step
variable {env : Env ℚ} {geo : Geo env} {c : Wiring} {S : TaggerIdx} {needs : HandlerId → Bool}

theorem hyp_static (H : Hyp env c S) : Med.Static (mwire c S needs) :=
  static_of_wiringSound c S needs H.sound H.hS

theorem quiet_cases {k : HandlerKind} (hq : quietKind k = true) (he : k ≠ .endOfRun) : k = .sampling ∨ k = .dumping := by
  cases k <;> simp_all [quietKind]

/-- the activator-level machine of C09 makes the step that this leg's `get_event_handlers_to_run` is: the state in the middle of
the leg is a state of a `JF.Act.Run` **with the transition relation `Tr` of E8, premise `StaysInRecordedCell` included** -/
theorem mid_run (H : Hyp env c S) {cs : List (Committed XTime)} {cl : Committed XTime} {s : Sys} {E : TaggerIdx} {tl : Time ℚ}
    {a : Nat} {pos v : List ℚ} {ts : Time ℚ} (big : Big env geo c S needs cs cl s E tl a pos v ts)
    (hgo : cl.stop = false) (ntl : TieFreeLeg c (pendOf (fun _ => none) cs.dropLast) cl)
    {o : Oracle XTime} {cm : Committed XTime} {s' : Sys}
    (st : SysStep env geo c S needs s o cm s') :
    ∃ hc' : Consistent env (hasOccOf c) ⟨s.us, s'.occ⟩,
      Run c (world env c) (Tr env c) S ⟨s'.mid, s'.ids, ⟨⟨s.us, s'.occ⟩, hc'⟩⟩ := by
  obtain ⟨hc, hph⟩ := big.phase
  have hocc : occAfter env (hasOccOf c) s.occ s.us = some s'.occ := by
    have := st.occ1; unfold occNext at this; rw [big.started] at this; simpa using this
  have hc' : Consistent env (hasOccOf c) ⟨s.us, s'.occ⟩ :=
    consistent_after (g := ⟨s.usPrev, s.occ⟩) (g' := ⟨s.us, s'.occ⟩) hc hocc
  refine ⟨hc', ?_⟩
  obtain ⟨a1, s1, a2, s3, hrun, -⟩ := leg_ok st.leg
  have hmid : s'.mid = a1.ts := by rw [st.mid']; exact midAct_eq hrun
  rw [big.prec] at hrun
  have hupd : update c.wires s.med.act.ts E o.yields = some (a1.ts, cm.created) :=
    getToRun_started big.started big.owner hrun
  have hy : (fun T => (world env c).yieldOf T ⟨⟨s.us, s'.occ⟩, hc'⟩) = o.yields := by rw [st.yields]; rfl
  have hcommit : ∀ ids, commit c.wires (world env c) ⟨s.mid, ids, ⟨⟨s.usPrev, s.occ⟩, hc⟩⟩ E ⟨⟨s.us, s'.occ⟩, hc'⟩ =
      some ⟨s'.mid, assign ids cm.created, ⟨⟨s.us, s'.occ⟩, hc'⟩⟩ := by
    intro ids
    unfold commit
    simp only [hy]
    rw [← big.trashEq, hupd, hmid]
  rcases hph with ⟨_, hES, ids0, out, hfirst, hids⟩ | hrunp
  · subst hES
    have := hcommit (assign ids0 out)
    rw [← hids, ← st.ids'] at this
    rw [hids] at this
    exact Run.start ids0 _ _ s.mid out _ hfirst this
  · have hend : (c.tagger E).kind ≠ .endOfRun := by
      have := big.stopEq
      rw [hgo] at this
      have h2 : (mwire c S needs).endOfRun cl.handler = ((c.tagger E).kind == .endOfRun) := by
        show (match owner c.wires cl.handler with
          | some E => (c.tagger E).kind == HandlerKind.endOfRun
          | none => false) = _
        rw [big.owner]
      rw [h2] at this
      intro hk; rw [hk] at this; simp at this
    have hdis : (∃ ev : Kin.Ev ℚ, allowedEv (c.tagger E).kind ev = true ∧ s.us = Kin.step env.o env.L s.usPrev ev) ∨
        ((c.tagger E).kind = .dumping ∧ s.us = s.usPrev) := by
      rcases big.commit with ⟨ev, hal, _, _, hus⟩ | h
      · exact Or.inl ⟨ev, hal, hus⟩
      · exact Or.inr h
    have htr : Tr env c E ⟨⟨s.usPrev, s.occ⟩, hc⟩ ⟨⟨s.us, s'.occ⟩, hc'⟩ := by
      refine ⟨hdis, hocc, fun hO hq => ?_⟩
      have hsd := quiet_cases hq hend
      have hkE : kindOfH c cl.handler = (c.tagger E).kind := kindOfH_of_owner big.owner
      have hncb : (c.tagger E).kind ≠ .cellBoundary := by rcases hsd with h | h <;> rw [h] <;> decide
      have hold := big.stays hO hncb (ntl (by rw [hkE]; exact hsd))
      have hmv := (movers_of_identQuiet (env := env) (Or.inl hq) hdis).1
      intro a hm hrel
      exact hold a (by rw [← hmv]; exact hm) hrel
    have := hcommit s.ids
    rw [← st.ids'] at this
    exact Run.step _ _ E _ hrunp (List.ne_nil_of_mem big.running) hend htr this

theorem not_moves_kinds {t : TaggerW} (h : ¬ affects t .motion = true) :
    t.kind = .sampling ∨ t.kind = .dumping ∨ t.kind = .endOfRun ∨ t.kind = .cellBoundary := by
  unfold affects at h
  cases hk : t.kind <;> simp_all

/-- a commit by a tagger that the footprint table does not declare motion-changing keeps every unit's motion -/
theorem same_of_quiet (ho : env.o = Ops.rat) {us us' : List (PUnit ℚ)} {kind : HandlerKind} {t : Time ℚ}
    (hwf : ∀ u ∈ us, WFU env.L.length u) (hc : Commits env geo kind t us us')
    (hq : kind = .sampling ∨ kind = .dumping ∨ kind = .endOfRun ∨ kind = .cellBoundary) (u : Nat) :
    SameMotion env.L us us' u := by
  rcases hc with ⟨ev, hal, _, hadm, rfl⟩ | ⟨_, rfl⟩
  · rw [ho]
    cases ev with
    | keep t0 => exact same_keep geo.posBox hwf t0 u
    | snap t0 d x => exact same_snap geo.posBox hwf t0 d x hadm.2 u
    | start t0 b w => rcases hq with rfl | rfl | rfl | rfl <;> simp [allowedEv] at hal
    | lift t0 b => rcases hq with rfl | rfl | rfl | rfl <;> simp [allowedEv] at hal
    | endOfChain t0 b w => rcases hq with rfl | rfl | rfl | rfl <;> simp [allowedEv] at hal
  · exact SameMotion.refl _ _ _

/-- C08's machine makes the step that this leg's `get_event_handlers_to_run` is: both hypotheses of `StepOK8` are discharged —
`quiet` by the kinematics (`same_of_quiet`), clause (h) by `WiringSound` through the run of `JF.Act.Run` -/
theorem mid_cur (H : Hyp env c S) {cs : List (Committed XTime)} {cl : Committed XTime} {s : Sys} {E : TaggerIdx} {tl : Time ℚ}
    {a : Nat} {pos v : List ℚ} {ts : Time ℚ} (big : Big env geo c S needs cs cl s E tl a pos v ts)
    (hgo : cl.stop = false) {o : Oracle XTime} {cm : Committed XTime} {s' : Sys}
    (st : SysStep env geo c S needs s o cm s') :
    ∃ (hc' : Consistent env (hasOccOf c) ⟨s.us, s'.occ⟩) (born' : HandlerId → G env c),
      C08.Reach8 c.wires (world env c) (motionOf env c) S ⟨⟨s'.mid, s'.ids, ⟨⟨s.us, s'.occ⟩, hc'⟩⟩, born'⟩ := by
  obtain ⟨hc, born, hr8⟩ := big.cur
  have hocc : occAfter env (hasOccOf c) s.occ s.us = some s'.occ := by
    have := st.occ1; unfold occNext at this; rw [big.started] at this; simpa using this
  have hc' : Consistent env (hasOccOf c) ⟨s.us, s'.occ⟩ :=
    consistent_after (g := ⟨s.usPrev, s.occ⟩) (g' := ⟨s.us, s'.occ⟩) hc hocc
  obtain ⟨a1, s1, a2, s3, hrun, -⟩ := leg_ok st.leg
  have hmid : s'.mid = a1.ts := by rw [st.mid']; exact midAct_eq hrun
  rw [big.prec] at hrun
  have hupd : update c.wires s.med.act.ts E o.yields = some (a1.ts, cm.created) :=
    getToRun_started big.started big.owner hrun
  have hy : (fun T => (world env c).yieldOf T ⟨⟨s.us, s'.occ⟩, hc'⟩) = o.yields := by rw [st.yields]; rfl
  have hcommit : C08.commit8 c.wires (world env c) ⟨⟨s.mid, s.ids, ⟨⟨s.usPrev, s.occ⟩, hc⟩⟩, born⟩ E ⟨⟨s.us, s'.occ⟩, hc'⟩ =
      some ⟨⟨s'.mid, s'.ids, ⟨⟨s.us, s'.occ⟩, hc'⟩⟩,
        fun h => if h ∈ cm.created.map Prod.fst then ⟨⟨s.us, s'.occ⟩, hc'⟩ else born h⟩ := by
    unfold C08.commit8
    simp only [hy]
    rw [← big.trashEq, hupd, hmid, st.ids']
  have hend : (c.tagger E).kind ≠ .endOfRun := by
    have := big.stopEq
    rw [hgo] at this
    have h2 : (mwire c S needs).endOfRun cl.handler = ((c.tagger E).kind == .endOfRun) := by
      show (match owner c.wires cl.handler with
        | some E => (c.tagger E).kind == HandlerKind.endOfRun
        | none => false) = _
      rw [big.owner]
    rw [h2] at this
    intro hk; rw [hk] at this; simp at this
  have ok : C08.StepOK8 c.wires (motionOf env c) ⟨⟨s.mid, s.ids, ⟨⟨s.usPrev, s.occ⟩, hc⟩⟩, born⟩ E ⟨⟨s.us, s'.occ⟩, hc'⟩ := by
    constructor
    · intro hnm u
      exact same_of_quiet H.ho big.wfPrev big.commit (not_moves_kinds hnm) u
    · intro hm T hb
      obtain ⟨hc0, hph⟩ := big.phase
      rcases hph with ⟨_, hES, ids0, out, hfirst, _⟩ | hrunp
      · right
        subst hES
        obtain ⟨_, hSk, _⟩ := start_spec H.hS
        have hne : T ∉ [E] := by
          intro hTE
          have : T = E := by simpa using hTE
          subst this
          have := hb.2
          rw [motionBound, hSk] at this; simp at this
        unfold first at hfirst
        show (getT s.mid T).running = []
        rw [createLoop_frame hfirst hne, applyActivation_running, getT_initAct]
        split <;> rfl
      · exact run_clause_h c (world env c) (Tr env c) S H.sound H.hS (Footprints.footprintsSound_concrete env c H.sup)
          (liveIs env c) hrunp (E := E) (List.ne_nil_of_mem big.running) hend hm hb.1 hb.2
  exact ⟨hc', _, C08.Reach8.step _ _ E _ hr8 ok hcommit⟩

end step

end JF.Sys
