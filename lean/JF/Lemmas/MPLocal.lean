import JF.Model.MPMediator
/-!
# C20 helper lemmas 1: what each mediator action does to the local state of the handler it touches
-/
namespace JF.MP
set_option linter.unusedSimpArgs false

@[simp] theorem upd_same (s : St) (h : Nat) (x : HS) : upd s h x h = x := by simp [upd]
theorem upd_other (s : St) {h k : Nat} (x : HS) (hk : k ≠ h) : upd s h x k = s k := by simp [upd, hk]

/-- propositional reading of `HS.coh` -/
theorem coh_iff (x : HS) : x.coh = true ↔
    (match x.stage with
      | .idle => (x.pc = .idle ∨ x.pc = .suspended) ∧ x.chan = []
      | .timeStarted => (x.pc = .computingTime ∧ x.chan = []) ∨ (x.pc = .suspended ∧ x.chan = [.time x.tag])
      | .suspended => x.pc = .suspended ∧ x.chan = []
      | .outStarted => (x.pc = .computingOut ∧ x.chan = []) ∨ (x.pc = .idle ∧ x.chan = [.out x.tag]))
    ∧ (∀ t, x.stored = some t → x.stage = .idle ∧ t = x.tag) := by
  obtain ⟨st, pc, tag, chan, stored⟩ := x
  cases st <;> cases stored <;> simp [HS.coh]

/-- "Send in-states" succeeds on an idle handler without stored out-state -/
theorem send_ok (x : HS) (n : Nat) (hc : x.coh = true) (hi : x.stage = .idle) (hs : x.stored = none) :
    ∃ y, x.send n = .ok y ∧ y.stage = .timeStarted ∧ y.coh = true ∧ y.tag = n ∧ y.stored = none := by
  obtain ⟨st, pc, tag, chan, stored⟩ := x
  simp only at hi hs; subst hi hs
  rw [coh_iff] at hc
  simp only at hc
  obtain ⟨⟨hp, hch⟩, -⟩ := hc
  subst hch
  rcases hp with hp | hp <;> subst hp <;>
    exact ⟨_, rfl, rfl, by simp [HS.coh, HS.start, HS.finish], rfl, rfl⟩

/-- receiving a candidate event time -/
theorem recvTime_ok (x : HS) (hc : x.coh = true) (hi : x.stage = .timeStarted) :
    ∃ y, x.recvTime = .ok (x.tag, y) ∧ y.stage = .suspended ∧ y.coh = true ∧ y.tag = x.tag ∧ y.stored = none := by
  obtain ⟨st, pc, tag, chan, stored⟩ := x
  simp only at hi; subst hi
  rw [coh_iff] at hc
  simp only at hc
  obtain ⟨hp, hst⟩ := hc
  have hs : stored = none := by
    cases stored with
    | none => rfl
    | some t => exact absurd (hst t rfl).1 (by simp)
  subst hs
  rcases hp with ⟨hp, hch⟩ | ⟨hp, hch⟩ <;> subst hp hch <;>
    exact ⟨_, rfl, rfl, by simp [HS.coh, HS.start, HS.finish], rfl, rfl⟩

/-- starting an out-state computation of a suspended handler -/
theorem startOut_ok (x : HS) (hc : x.coh = true) (hi : x.stage = .suspended) :
    ∃ y, x.startOut = .ok y ∧ y.stage = .outStarted ∧ y.coh = true ∧ y.tag = x.tag ∧ y.stored = none := by
  obtain ⟨st, pc, tag, chan, stored⟩ := x
  simp only at hi; subst hi
  rw [coh_iff] at hc
  simp only at hc
  obtain ⟨⟨hp, hch⟩, hst⟩ := hc
  have hs : stored = none := by
    cases stored with
    | none => rfl
    | some t => exact absurd (hst t rfl).1 (by simp)
  subst hs hp hch
  exact ⟨_, rfl, rfl, by simp [HS.coh, HS.start, HS.finish], rfl, rfl⟩

/-- receive branch `out_state_started`: `state = idle; … ; _out_states[handler] = pipe.recv()` -/
theorem recvOut_ok (x : HS) (hc : x.coh = true) (hi : x.stage = .outStarted) :
    ∃ y, ({ x with stage := .idle } : HS).recvOut = .ok y ∧ y.stage = .idle ∧ y.coh = true ∧ y.tag = x.tag ∧
      y.stored = some x.tag := by
  obtain ⟨st, pc, tag, chan, stored⟩ := x
  simp only at hi; subst hi
  rw [coh_iff] at hc
  simp only at hc
  obtain ⟨hp, hst⟩ := hc
  rcases hp with ⟨hp, hch⟩ | ⟨hp, hch⟩ <;> subst hp hch <;>
    exact ⟨_, rfl, rfl, by simp [HS.coh, HS.start, HS.finish], rfl, rfl⟩

/-- the commit block succeeds on every handler that is not `event_time_started` and, if idle, has a stored
out-state; the committed out-state carries the tag of the worker's in-state -/
theorem commit_ok (x : HS) (hc : x.coh = true) (hi : x.stage ≠ .timeStarted)
    (hs : x.stage = .idle → x.stored ≠ none) :
    ∃ p y, x.commit = .ok (x.tag, p, y) ∧ y.stage = .idle ∧ y.coh = true ∧ y.tag = x.tag ∧ y.stored = some x.tag := by
  obtain ⟨st, pc, tag, chan, stored⟩ := x
  rw [coh_iff] at hc
  simp only at hc hi hs
  obtain ⟨hp, hst⟩ := hc
  cases st with
  | timeStarted => exact absurd rfl hi
  | idle =>
    cases stored with
    | none => exact absurd rfl (hs rfl)
    | some t =>
      obtain ⟨-, ht⟩ := hst t rfl
      subst ht
      simp only at hp
      obtain ⟨hp, hch⟩ := hp
      subst hch
      rcases hp with hp | hp <;> subst hp <;>
        exact ⟨_, _, rfl, rfl, by simp [HS.coh, HS.start, HS.finish], rfl, rfl⟩
  | suspended =>
    have hs' : stored = none := by
      cases stored with
      | none => rfl
      | some t => exact absurd (hst t rfl).1 (by simp)
    simp only at hp
    obtain ⟨hp, hch⟩ := hp
    subst hs' hp hch
    exact ⟨_, _, rfl, rfl, by simp [HS.coh, HS.start, HS.finish], rfl, rfl⟩
  | outStarted =>
    have hs' : stored = none := by
      cases stored with
      | none => rfl
      | some t => exact absurd (hst t rfl).1 (by simp)
    simp only at hp
    subst hs'
    rcases hp with ⟨hp, hch⟩ | ⟨hp, hch⟩ <;> subst hp hch <;>
      exact ⟨_, _, rfl, rfl, by simp [HS.coh, HS.start, HS.finish], rfl, rfl⟩

/-- the body of the trash loop succeeds on every handler that is not `event_time_started` and leaves it idle without
stored out-state -/
theorem trash_ok (x : HS) (hc : x.coh = true) (hi : x.stage ≠ .timeStarted) :
    ∃ y d, x.trash = .ok (y, d) ∧ y.stage = .idle ∧ y.coh = true ∧ y.tag = x.tag ∧ y.stored = none ∧
      y.quiescent = true := by
  obtain ⟨st, pc, tag, chan, stored⟩ := x
  rw [coh_iff] at hc
  simp only at hc hi
  obtain ⟨hp, hst⟩ := hc
  cases st with
  | timeStarted => exact absurd rfl hi
  | idle =>
    simp only at hp
    obtain ⟨hp, hch⟩ := hp
    subst hch
    rcases hp with hp | hp <;> subst hp <;>
      exact ⟨_, _, rfl, rfl, by simp [HS.coh, HS.start, HS.finish], rfl, rfl, by simp [HS.quiescent, HS.finish]⟩
  | suspended =>
    simp only at hp
    obtain ⟨hp, hch⟩ := hp
    subst hp hch
    exact ⟨_, _, rfl, rfl, by simp [HS.coh, HS.start, HS.finish], rfl, rfl, by simp [HS.quiescent, HS.finish]⟩
  | outStarted =>
    simp only at hp
    rcases hp with ⟨hp, hch⟩ | ⟨hp, hch⟩ <;> subst hp hch <;>
      exact ⟨_, _, rfl, rfl, by simp [HS.coh, HS.start, HS.finish], rfl, rfl, by simp [HS.quiescent, HS.finish]⟩

end JF.MP
