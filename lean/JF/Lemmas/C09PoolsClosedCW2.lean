import JF.Props.SystemInv2
import JF.Gen.Pools
import JF.Lemmas.C09PoolsClosedAct
/-!
E42 / C09, last clause, composite objects without cells (`JF.CW2`, `JF.Sys2`) — the pieces of `demand_le_pool_closed2`:

* `Fits2`: how a generated `PoolCfg` describes the environment / state of a run of this world;
* `selSound`: the decidable link between the generated `sel` (which one-chain states a factor tagger is asked on: from the handler
  class) and the MODE READ OFF THE ACTIVATION FLAGS (`ModeWiring.mode`): in every reachable activation state, an ACTIVATED tagger with
  `sel = 0` sees leaf mode and one with `sel = 1` sees root mode;
* `modeOK_of_chain`, `yield2_le_demandBound`: on a one-chain state of mode `m`, a tagger whose `sel` is compatible with `m` yields at
  most `demandBound` in-states.
-/
namespace JF.C09Pools
open JF JF.Act JF.CW2 JF.Composite JF.C12

/-- the generated numbers describe this environment: composite objects with `nPer ≠ 1` point masses, `nRoots` of them, the factor
maps of the configuration's factor file, the factor types of its taggers -/
structure Fits2 (pc : PoolCfg) (env : CW2.Env ℚ) (cs : List (CObj ℚ)) : Prop where
  nPer : pc.nPer = env.nPer
  nPer1 : env.nPer ≠ 1
  nRoots : cs.length = pc.nRoots
  fs : pc.fs = env.fs
  ftype : ∀ T, pc.ftypeOf T = env.ftype T

/-- **the activation-aware link**: in every reachable activation state, every activated tagger that is only asked in leaf mode
(`sel = 0`) is activated in a leaf-mode state, every one only asked in root mode (`sel = 1`) in a root-mode state -/
def selSound (mw : ModeWiring) (pc : PoolCfg) (S : TaggerIdx) : Bool :=
  (reach mw.w S).all fun σ => (List.range mw.w.n).all fun T =>
    !(aGet σ T) || ((pc.selOf T != 0 || mw.mode σ == .leaf) && (pc.selOf T != 1 || mw.mode σ == .root))

theorem selSound_spec {mw : ModeWiring} {pc : PoolCfg} {S : TaggerIdx} (h : selSound mw pc S = true) {σ : AState}
    (hσ : σ ∈ reach mw.w S) {T : TaggerIdx} (hT : T < mw.w.n) (ha : aGet σ T = true) :
    (pc.selOf T = 0 → mw.mode σ = .leaf) ∧ (pc.selOf T = 1 → mw.mode σ = .root) := by
  have := List.all_eq_true.mp (List.all_eq_true.mp h σ hσ) T (List.mem_range.mpr hT)
  simp only [ha, Bool.not_true, Bool.false_or, Bool.and_eq_true, Bool.or_eq_true, bne_iff_ne, ne_eq, beq_iff_eq] at this
  exact ⟨fun h0 => this.1.resolve_left (fun hn => hn h0), fun h1 => this.2.resolve_left (fun hn => hn h1)⟩

theorem flags_unif {nPer : Nat} {cs : List (CObj ℚ)} (hu : Uniform nPer cs) : ∀ f ∈ flags cs, f.2.length = nPer := by
  intro f hf
  obtain ⟨c, hc, rfl⟩ := List.mem_map.mp hf
  simp only [flagOf, List.length_map]
  exact hu c hc

/-- the mode of a one-chain state bounds the shape of its independent active identifier -/
theorem modeOK_of_chain {d : Nat} {L : List ℚ} {nPer : Nat} {cs : List (CObj ℚ)} (hg : AllGood d L cs) (hu : Uniform nPer cs)
    (hn : nPer ≠ 1) {sq : ℚ} {m : Composite.Mode} (hc : OneChainM cs sq m) (sel : Sel)
    (hs : (sel = 0 → m = .leaf) ∧ (sel = 1 → m = .root)) : ModeOK sel nPer (flags cs) := by
  intro x hx
  cases m with
  | leaf =>
    obtain ⟨i, j, v, _, hM⟩ := hc
    rw [independent_leaf hg hu hM] at hx
    simp only [hn, if_false, List.mem_singleton] at hx
    subst hx
    exact ⟨fun _ => rfl, fun h1 => (by have := hs.2 h1; cases this)⟩
  | root =>
    obtain ⟨i, v, _, hM⟩ := hc
    rw [independent_root hg hu hM] at hx
    simp only [List.mem_singleton] at hx
    subst hx
    exact ⟨fun h0 => (by have := hs.1 h0; cases this), fun _ => rfl⟩

/-- **on a one-chain state of mode `m`, a tagger of this world whose `sel` is compatible with `m` yields at most `demandBound`
in-states** -/
theorem yield2_le_demandBound (pc : PoolCfg) (env : CW2.Env ℚ) (cs : List (CObj ℚ)) (fit : Fits2 pc env cs)
    (hg : AllGood env.d env.L cs) (hu : Uniform env.nPer cs) {sq : ℚ} {m : Composite.Mode} (hc : OneChainM cs sq m)
    (T : TaggerIdx) (hcls : CW2.clsOK (pc.w.tagger T).cls = true)
    (hs : (pc.selOf T = 0 → m = .leaf) ∧ (pc.selOf T = 1 → m = .root)) :
    (CW2.yieldCls env T (pc.w.tagger T).cls cs).length ≤ demandBound pc T := by
  have h1 : (independent env.nPer (flags cs)).length = 1 := independent_length_chain hg hu hc
  unfold demandBound
  cases hk : (pc.w.tagger T).cls with
  | noInState => simp [CW2.yieldCls, CW2.yieldF]
  | activeGlobalState => simp [CW2.yieldCls, CW2.yieldF]
  | activeRootUnit =>
    show (CW2.yieldF ℚ env T .activeRootUnit (flags cs)).length ≤ 1
    rw [cw2_activeRootUnit, h1]
  | factorTypeMap =>
    have hne : (pc.nPer == 1) = false := by rw [fit.nPer]; simpa using fit.nPer1
    simp only [hne, Bool.false_eq_true, if_false]
    have := cw2_demand_le_max env T .factorTypeMap (pc.selOf T) (flags cs) (flags_unif hu) (Nat.le_of_eq h1)
      (modeOK_of_chain hg hu fit.nPer1 hc _ hs)
    have hl : (flags cs).length = pc.nRoots := by rw [← fit.nRoots]; simp [flags]
    rw [hl, ← fit.nPer, ← fit.fs, ← fit.ftype T] at this
    exact this
  | cellBoundary => rw [hk] at hcls; cases hcls
  | cellVeto => rw [hk] at hcls; cases hcls
  | excludedCells => rw [hk] at hcls; cases hcls
  | cellBounding => rw [hk] at hcls; cases hcls
  | surplusCells => rw [hk] at hcls; cases hcls
  | unknown => rw [hk] at hcls; cases hcls

end JF.C09Pools
