import JF.Lemmas.SystemInvMP2Generic
import JF.Props.SystemInv3Loop
/-!
E50 — the composed system of COMPOSITE OBJECTS WITH CELL SYSTEMS (`JF.Sys3L`, `JF/Lemmas/SystemRun3LoopDefs.lean`) as an instance `T3`
of `JF.SysGen.CSys`: `X3` = `Sys3` without its mediator state, `RStep3` = `SysStep3` without `leg` (field for field), `Init3X` = `Init3`.
`reach3_of` / `reach3_to`: the runs `Reach3` ARE the runs `T3.ReachS` (both directions, no hypothesis).
`A3 v vo`: the adapter for views `v : G → List (CObj ℚ)` (composite objects) and `vo : G → List Occ.State` (the activator's internal
states as of their last `update`: as in E48, C20's world has no activator-internal mutable state, so the occupancies are counted to
the global state and the update of a leg is visible in the state after that leg's commit).
-/
namespace JF.SystemInvMP2
open JF JF.Act JF.Heap JF.Sched JF.Med JF.CW3 JF.C14 JF.MediatorLoop JF.Sys JF.Sys3 JF.Sys3L JF.Composite JF.C12 JF.Footprints3
  JF.SysGen

/-- `Sys3` without the mediator state: the global state, the occupancies and the ghost fields -/
structure X3 where
  cs : List (CObj ℚ)
  occs : List Occ.State
  ids : HandlerId → IdTuple
  csPrev : List (CObj ℚ)
  mid : Act

/-- the same world and ghost fields around a spec-level mediator state -/
def X3.toSys (x : X3) (m : SM) : Sys3 := ⟨m, x.cs, x.occs, x.ids, x.csPrev, x.mid⟩
def xOf3 (s : Sys3) : X3 := ⟨s.cs, s.occs, s.ids, s.csPrev, s.mid⟩

section defs
variable (env : Env ℚ) (geo : ∀ l, Geo (cwEnv env l)) (mw : ModeWiring) (S : TaggerIdx) (needs : HandlerId → Bool)

/-- `SysStep3` without its field `leg`, field for field; the mediator state before the leg is read through `e` (activator state,
preceding handler) and `last` (`s.med.sched.last`) only -/
structure RStep3 (e : MedState Unit) (last : XTime) (x : X3) (o : Oracle XTime) (cm : Committed XTime) (x' : X3) : Prop where
  occ1 : if e.act.started = true then OccsUpdated env mw.w.labels.length x.occs x'.occs x.cs else x'.occs = x.occs
  yields : o.yields = fun T => yieldCls3 env T (mw.w.tagger T).cls (mw.w.tagger T).label x.cs x'.occs
  cands : CandsOK3 env geo mw x.cs last o cm.created
  ev : ∃ t E', cm.time = .fin t ∧ owner mw.w.wires cm.handler = some E' ∧ Commits3 env mw E' t x.cs x'.cs
  ids' : x'.ids = assign x.ids cm.created
  prev : x'.csPrev = x.cs
  mid' : x'.mid = midAct (mwire mw.w S needs) e o

/-- `Init3` -/
def Init3X (x : X3) : Prop := Init3 env mw (x.toSys (MedState.init (specI xcfg) mw.w.wires))

/-- **the composed system of composite objects with cell systems** as a `CSys` -/
def T3 : CSys := ⟨X3, mwire mw.w S needs, Init3X env mw, RStep3 env geo mw S needs⟩

end defs

section
variable {env : Env ℚ} {geo : ∀ l, Geo (cwEnv env l)} {mw : ModeWiring} {S : TaggerIdx} {needs : HandlerId → Bool}

/-- a run `Reach3` is a run of `T3` over the spec-level scheduler -/
theorem reach3_of {os : List (Oracle XTime)} {cs : List (Committed XTime)} {s : Sys3}
    (hr : Reach3 env geo mw S needs os cs s) : (T3 env geo mw S needs).ReachS os cs s.med (xOf3 s) := by
  induction hr with
  | init s h =>
    exact CSys.Reach.init (T := T3 env geo mw S needs) (I := specI xcfg) s.med (xOf3 s) h.med
      (show Init3 env mw _ from ⟨rfl, h.good, h.unif, h.rest, h.cons, h.prev⟩)
  | step _ hgo hstep ih =>
    exact CSys.Reach.step (T := T3 env geo mw S needs) ih hgo hstep.leg
      (show RStep3 env geo mw S needs _ _ _ _ _ _ from
        ⟨hstep.occ1, hstep.yields, hstep.cands, hstep.ev, hstep.ids', hstep.prev, hstep.mid'⟩)

/-- … and conversely -/
theorem reach3_to {os : List (Oracle XTime)} {cs : List (Committed XTime)} {m : MedState (specI xcfg).σ}
    {x : (T3 env geo mw S needs).X} (hr : (T3 env geo mw S needs).ReachS os cs m x) :
    Reach3 env geo mw S needs os cs (X3.toSys x m) := by
  induction hr with
  | init m x hm h => subst hm; exact .init _ h
  | step _ hgo hleg hw ih =>
    have hw' : RStep3 env geo mw S needs _ _ _ _ _ _ := hw
    exact .step ih hgo ⟨hw'.occ1, hw'.yields, hleg, hw'.cands, hw'.ev, hw'.ids', hw'.prev, hw'.mid'⟩

variable {G : Type}

/-- the adapter for views `v` (composite objects) and `vo` (occupancies as of the last update) of the global state of C20's world -/
def A3 (env : Env ℚ) (geo : ∀ l, Geo (cwEnv env l)) (mw : ModeWiring) (S : TaggerIdx) (needs : HandlerId → Bool)
    (v : G → List (CObj ℚ)) (vo : G → List Occ.State) : Adapter (T3 env geo mw S needs) G where
  nx e x o cm g' := (⟨v g', vo g', assign x.ids cm.created, x.cs, midAct (mwire mw.w S needs) e o⟩ : X3)
  sees x g := X3.cs x = v g ∧ X3.occs x = vo g
  sawPrev x g := X3.csPrev x = v g
  sees_nx _ _ _ _ _ := ⟨rfl, rfl⟩
  prev_nx _ _ _ _ _ _ h := h.1

/-- a successor state is determined by its world part -/
theorem nx3_unique (v : G → List (CObj ℚ)) (vo : G → List Occ.State) (e : MedState Unit) (last : XTime) (x : X3)
    (o : Oracle XTime) (cm : Committed XTime) (x' : X3) (g' : G) (hw : RStep3 env geo mw S needs e last x o cm x')
    (hs : x'.cs = v g' ∧ x'.occs = vo g') : x' = (A3 env geo mw S needs v vo).nx e x o cm g' := by
  obtain ⟨a, b, c, d, f⟩ := x'
  have h1 := hw.ids'
  have h2 := hw.prev
  have h3 := hw.mid'
  obtain ⟨hs1, hs2⟩ := hs
  simp only at h1 h2 h3 hs1 hs2
  subst h1 h2 h3 hs1 hs2
  rfl

/-- **the world part of `SysStep3`** for a leg of the multi-process run to the global state `g'`, read through `v` / `vo` -/
structure WStep3 (env : Env ℚ) (geo : ∀ l, Geo (cwEnv env l)) (mw : ModeWiring) (v : G → List (CObj ℚ))
    (vo : G → List Occ.State) (e : MedState Unit) (last : XTime) (x : X3) (o : Oracle XTime) (cm : Committed XTime) (g' : G) :
    Prop where
  occ1 : if e.act.started = true then OccsUpdated env mw.w.labels.length x.occs (vo g') x.cs else vo g' = x.occs
  yields : o.yields = fun T => yieldCls3 env T (mw.w.tagger T).cls (mw.w.tagger T).label x.cs (vo g')
  cands : CandsOK3 env geo mw x.cs last o cm.created
  ev : ∃ t E', cm.time = .fin t ∧ owner mw.w.wires cm.handler = some E' ∧ Commits3 env mw E' t x.cs (v g')

/-- `Moves` for `T3` asks exactly for `WStep3` at every leg -/
theorem rstep3_nx_iff (v : G → List (CObj ℚ)) (vo : G → List Occ.State) (e : MedState Unit) (last : XTime) (x : X3)
    (o : Oracle XTime) (cm : Committed XTime) (g' : G) :
    RStep3 env geo mw S needs e last x o cm ((A3 env geo mw S needs v vo).nx e x o cm g') ↔
      WStep3 env geo mw v vo e last x o cm g' :=
  ⟨fun h => ⟨h.occ1, h.yields, h.cands, h.ev⟩, fun h => ⟨h.occ1, h.yields, h.cands, h.ev, rfl, rfl, rfl⟩⟩

end

end JF.SystemInvMP2
