import JF.Lemmas.HeapSched
/-! Pickle round trip of the model of `HeapScheduler` (`__getstate__` / `__setstate__`). -/
namespace JF.Sched
open JF.Heap
variable {κ : Type} {cfg : Cfg κ}

theorem getstateLoop_spec (hp : CHeap κ) (hls : hp.length ≤ hp.mem.size)
    (hh : ∀ i, 1 ≤ i → i < hp.length → (get cfg hp i).h ≠ 0) :
    ∀ fuel idx, 1 ≤ fuel → hp.length ≤ idx + fuel →
      getstateLoop cfg hp fuel idx = ((List.range' (idx + 1) (hp.length - (idx + 1))).map (get cfg hp), false) := by
  intro fuel
  induction fuel with
  | zero => intro idx h; omega
  | succ fuel ih =>
    intro idx _ hf
    by_cases hi : idx + 1 < hp.length
    · have hne : ((get cfg hp (idx + 1)).h == 0) = false := by simpa using hh (idx + 1) (by omega) hi
      have hs : idx + 1 < hp.mem.size := by omega
      have hr : hp.length - (idx + 1) = (hp.length - (idx + 1 + 1)) + 1 := by omega
      simp only [getstateLoop, entry, hi, if_true, hne, Bool.false_eq_true, if_false, hs, decide_true, Bool.not_true,
        ih (idx + 1) (by omega) (by omega), Bool.or_false]
      rw [hr, List.range'_succ]; rfl
    · have hr : hp.length - (idx + 1) = 0 := by omega
      simp [getstateLoop, entry, hi, nullEntry, hr]

/-- re-inserting an entry that is not smaller than its parent-to-be appends it -/
theorem insert_append (o : StrictWeak cfg) {hp hk : CHeap κ} {k : Nat} (hIk : Inv cfg hk)
    (hlen : hk.length = if k = 0 then 0 else k + 1)
    (hsame : ∀ i, 1 ≤ i → i ≤ k → get cfg hk i = get cfg hp i)
    (ho : HOrd cfg hp) (hk1 : k + 1 < hp.length) :
    let e := get cfg hp (k + 1)
    let hk' := insert cfg hk e.key e.h e.c
    Inv cfg hk' ∧ hk'.length = k + 2 ∧ (∀ i, 1 ≤ i → i ≤ k + 1 → get cfg hk' i = get cfg hp i) := by
  intro e hk'
  have IS := insert_spec o e.key e.h e.c hIk
  refine ⟨IS.1, ?_, ?_⟩
  · rw [IS.2.2.1, hlen]; by_cases h : k = 0 <;> simp [h]
  · have P := prep_spec hIk.1
    have hp_eq : (prep cfg hk).2 = k + 1 := by
      rw [P.pdef, hlen]; by_cases h : k = 0 <;> simp [h]
    show ∀ i, 1 ≤ i → i ≤ k + 1 → get cfg (insert cfg hk e.key e.h e.c) i = get cfg hp i
    rw [insert_eq]
    generalize (prep cfg hk).1 = hp1 at P
    rw [hp_eq] at P ⊢
    have hpar : (k + 1) / 2 < hp1.mem.size := by have := P.sz; omega
    have hcond : cfg.lt e.key (get cfg hp1 ((k + 1) / 2)).key = false := by
      by_cases h0 : (k + 1) / 2 = 0
      · rw [h0, P.bot]; exact o.bot_min _
      · rw [P.same _ (by omega) (by omega), hsame _ (by omega) (by omega)]
        exact ho (k + 1) (by omega) hk1
    have hloop : insertLoop cfg e.key (k + 1 + 1) hp1 (k + 1) = (hp1, k + 1) := by
      simp only [insertLoop, chk_of_lt hp1 hpar, hcond, Bool.false_eq_true, if_false]
    rw [hloop]
    dsimp only
    intro i h1 hik
    rw [get_set_lt _ _ _ (by have := P.sz; omega)]
    by_cases hi : i = k + 1
    · simp only [hi, if_true]; rfl
    · simp only [hi, if_false]
      rw [P.same i h1 (by omega), hsame i h1 (by omega)]

theorem setstate_fold (o : StrictWeak cfg) {hp : CHeap κ} (ho : HOrd cfg hp) :
    ∀ m k (hk : CHeap κ), k + m ≤ hp.length - 1 → Inv cfg hk →
      hk.length = (if k = 0 then 0 else k + 1) →
      (∀ i, 1 ≤ i → i ≤ k → get cfg hk i = get cfg hp i) →
      let r := ((List.range' (k + 1) m).map (get cfg hp)).foldl (fun hp e => insert cfg hp e.key e.h e.c) hk
      Inv cfg r ∧ r.length = (if k + m = 0 then 0 else k + m + 1) ∧
        (∀ i, 1 ≤ i → i ≤ k + m → get cfg r i = get cfg hp i) := by
  intro m
  induction m with
  | zero => intro k hk _ hI hl hs; exact ⟨hI, hl, hs⟩
  | succ m ih =>
    intro k hk hb hI hl hs
    obtain ⟨a1, a2, a3⟩ := insert_append o hI hl hs ho (by omega)
    have := ih (k + 1) _ (by omega) a1 (by simp [a2]) a3
    simp only [List.range'_succ, List.map_cons, List.foldl_cons]
    have e1 : k + 1 + m = k + (m + 1) := by omega
    rw [e1] at this
    exact this

/-- pickle round trip: the re-inserted heap has the same entries at the same indices -/
theorem pickle_spec (o : StrictWeak cfg) {W : Nat} {s : HSched κ} {live : Live κ} (R : Rel cfg W s live) :
    Rel cfg W (s.pickle cfg) live ∧ (s.pickle cfg).mv = s.mv ∧ (s.pickle cfg).last = s.last ∧
    (∀ i, 1 ≤ i → i < s.heap.length → get cfg (s.pickle cfg).heap i = get cfg s.heap i) ∧
    (s.pickle cfg).heap.length = (if s.heap.length ≤ 1 then 0 else s.heap.length) := by
  obtain ⟨⟨hnf, hw⟩, ho⟩ := R.inv
  have hls : s.heap.length ≤ s.heap.mem.size := by rcases hw with h | h <;> omega
  have hh : ∀ i, 1 ≤ i → i < s.heap.length → (get cfg s.heap i).h ≠ 0 :=
    fun i h1 hL => (R.cnt _ ⟨i, h1, hL, rfl⟩).1
  have hgs := getstateLoop_spec (cfg := cfg) s.heap hls hh (s.heap.length + 1) 0 (by omega) (by omega)
  obtain ⟨r1, r2, r3⟩ := setstate_fold o ho (s.heap.length - 1) 0 CHeap.empty (by omega) (inv_empty cfg) rfl
    (fun i h1 h2 => by omega)
  simp only [Nat.zero_add] at hgs r1 r2 r3
  unfold HSched.pickle HSched.getstate setstateHeap
  rw [hgs]
  simp only [hnf, Bool.or_false]
  generalize hr : List.foldl (fun hp e => insert cfg hp e.key e.h e.c) CHeap.empty
    (List.map (get cfg s.heap) (List.range' 1 (s.heap.length - 1))) = r at r1 r2 r3
  have hrr : ({ r with fault := r.fault } : CHeap κ) = r := rfl
  rw [hrr]
  have hmem : ∀ e, Mem cfg r e ↔ Mem cfg s.heap e := by
    intro e
    constructor
    · rintro ⟨i, h1, hL, he⟩
      rw [r2] at hL
      by_cases h0 : s.heap.length - 1 = 0
      · simp [h0] at hL
      · simp only [h0, if_false] at hL
        exact ⟨i, h1, by omega, by rw [← r3 i h1 (by omega)]; exact he⟩
    · rintro ⟨i, h1, hL, he⟩
      have h0 : s.heap.length - 1 ≠ 0 := by omega
      exact ⟨i, h1, by rw [r2]; simp only [h0, if_false]; omega, by rw [r3 i h1 (by omega)]; exact he⟩
  refine ⟨⟨r1, fun e he => R.cnt e ((hmem e).1 he), fun h t => ?_⟩, trivial, trivial, fun i h1 hL => r3 i h1 (by omega), ?_⟩
  · rw [R.cur h t]
    constructor
    · rintro ⟨m, hm, hmm⟩; exact ⟨m, hm, (hmem _).2 hmm⟩
    · rintro ⟨m, hm, hmm⟩; exact ⟨m, hm, (hmem _).1 hmm⟩
  · show r.length = _
    rw [r2]
    by_cases h0 : s.heap.length ≤ 1
    · have : s.heap.length - 1 = 0 := by omega
      simp [h0, this]
    · have : s.heap.length - 1 ≠ 0 := by omega
      simp only [h0, this, if_false]; omega
end JF.Sched
