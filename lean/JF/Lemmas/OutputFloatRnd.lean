import JF.Props.Output
import JF.Num.Rounded
import JF.Lemmas.LiftingRndErr
import Mathlib.Analysis.SpecialFunctions.Sqrt
import Mathlib.Tactic.Linarith
import Mathlib.Tactic.Ring
import Mathlib.Tactic.Positivity
/-!
Rounding-abstract reading (every `FloatModel`) of `vectors.norm(separation_vector(a, b))`: helper lemmas for
`JF/Props/OutputFloat.lean` §2.

* `dist1`: the exact per-component nearest-image distance `|wrapSep s|` is 1-Lipschitz in `s`;
* `pymod_rounded`: Python's `%` over `R fm` is the exact result rounded once (C `fmod` being exact);
* `compSep_bound`, `compSep_err`: one component of the computed separation vector;
* `normSq_bounds`: the computed squared norm; `mink2`, `norm_perturb`: Euclidean perturbation.
-/
namespace JF.OutputFloat
open JF JF.Periodic JF.C15 JF.Output JF.R JF.Lifting

/-! ### A. the exact per-component distance -/

/-- exact nearest-image distance in one dimension: the distance from `s` to the lattice `L·ℤ` -/
def dist1 (L s : ℚ) : ℚ := |wrapSep Ops.rat s L (L / 2)|

theorem dist1_lipschitz {L : ℚ} (hL : 0 < L) (s s' : ℚ) : dist1 L s ≤ dist1 L s' + |s - s'| := by
  unfold dist1
  obtain ⟨k, hk⟩ := wrapSep_congr (s := s') hL
  have h := wrapSep_minimal (s := s) hL (-k)
  have e : s + ((-k : ℤ) : ℚ) * L = wrapSep Ops.rat s' L (L / 2) + (s - s') := by push_cast; linarith
  rw [e] at h
  exact h.trans (abs_add_le _ _)

theorem dist1_abs_sub {L : ℚ} (hL : 0 < L) (s s' : ℚ) : |dist1 L s - dist1 L s'| ≤ |s - s'| := by
  have h1 := dist1_lipschitz hL s s'
  have h2 := dist1_lipschitz hL s' s
  rw [abs_sub_comm s' s] at h2
  rw [abs_le]; constructor <;> linarith

theorem dist1_le {L : ℚ} (hL : 0 < L) (s : ℚ) : dist1 L s ≤ L / 2 := wrapSep_abs_le hL

theorem dist1_nonneg (L s : ℚ) : 0 ≤ dist1 L s := abs_nonneg _

/-! ### B. `%` over `R fm` -/

variable {fm : FloatModel}

theorem pymod_rat_cases (x L : ℚ) :
    pymod Ops.rat x L = Ops.rat.fmod x L ∨ pymod Ops.rat x L = Ops.rat.fmod x L + L := by
  unfold pymod
  simp only [rat_ofInt, rat_zeroLike, Int.cast_zero]
  by_cases hz : Ops.rat.fmod x L = 0
  · left; simp [hz]
  · by_cases hneg : (decide (L < 0) != decide (Ops.rat.fmod x L < 0)) = true
    · right; simp [hz, hneg]
    · left; simp [hz, hneg]

/-- Python's `x % L` in rounded arithmetic is the exact result rounded ONCE, given that `fmod`'s exact result is
representable (C `fmod` never rounds) -/
theorem pymod_rounded (x L : R fm) (hm : Ops.rat.fmod (toQ x) (toQ L) ∈ fm.F) :
    toQ (pymod (Ops.rounded fm) x L) = fm.rnd (pymod Ops.rat (toQ x) (toQ L)) := by
  unfold pymod
  simp only [Ops.rounded, R.bne_iff, R.decide_lt, rat_ofInt, rat_zeroLike, Int.cast_zero, toQ_ofQ]
  by_cases hz : Ops.rat.fmod (toQ x) (toQ L) = 0
  · simp [hz]
  · by_cases hiff : (toQ L < 0 ↔ Ops.rat.fmod (toQ x) (toQ L) < 0)
    · simp [hz, hiff]
      split_ifs with h
      · exact (fm.rnd_id _ hm).symm
      · exact absurd rfl h
    · simp [hz, hiff]
      split_ifs with h
      · exact absurd (decide_eq_decide.mp h) hiff
      · rfl

/-- … with error at most `eps · L` (and none when no `+ L` is needed) -/
theorem pymod_rounded_err (x L : R fm) (hL : 0 < toQ L) (hLF : toQ L ∈ fm.F) (hLh : toQ L ≤ fm.huge)
    (hm : Ops.rat.fmod (toQ x) (toQ L) ∈ fm.F) :
    |toQ (pymod (Ops.rounded fm) x L) - pymod Ops.rat (toQ x) (toQ L)| ≤ fm.eps * toQ L := by
  rw [pymod_rounded x L hm]
  have h0 := pymod_rat_nonneg (toQ x) (toQ L) hL
  have h1 := pymod_rat_lt (toQ x) (toQ L) hL
  rcases pymod_rat_cases (toQ x) (toQ L) with h | h
  · rw [h, fm.rnd_id _ hm]; simp
    exact mul_nonneg fm.eps_nonneg hL.le
  · have ha := fm.add_err hm hLF (by rw [← h, abs_of_nonneg h0]; linarith)
    rw [← h, abs_of_nonneg h0] at ha
    exact ha.trans (mul_le_mul_of_nonneg_left h1.le fm.eps_nonneg)

/-! ### C. one component of the computed separation vector -/

/-- one entry of `separation_vector(a, b)`: `correct_separation_entry(b - a)` with the precomputed half length `h` -/
def compSep (fm : FloatModel) (a b L h : R fm) : R fm := wrapSep (Ops.rounded fm) (b - a) L h

/-- hypotheses on one dimension: a representable box length whose half is the stored half length, representable
coordinates inside the closed box, no overflow, and the (exact) result of C `fmod` representable -/
structure CompOK (fm : FloatModel) (a b L h : R fm) : Prop where
  hL : 0 < toQ L
  hh : toQ h = toQ L / 2
  aF : toQ a ∈ fm.F
  bF : toQ b ∈ fm.F
  LF : toQ L ∈ fm.F
  hF : toQ h ∈ fm.F
  a0 : 0 ≤ toQ a
  a1 : toQ a ≤ toQ L
  b0 : 0 ≤ toQ b
  b1 : toQ b ≤ toQ L
  big : 2 * toQ L ≤ fm.huge
  hm : Ops.rat.fmod (toQ ((b - a) + h)) (toQ L) ∈ fm.F

theorem compSep_toQ (a b L h : R fm) :
    toQ (compSep fm a b L h) = fm.rnd (toQ (pymod (Ops.rounded fm) ((b - a) + h) L) - toQ h) := rfl

/-- **the closed bound survives rounding**: every component of the computed separation vector has magnitude `≤ L/2` -/
theorem compSep_bound {a b L h : R fm} (ok : CompOK fm a b L h) : |toQ (compSep fm a b L h)| ≤ toQ h := by
  have hh0 : 0 < toQ h := by rw [ok.hh]; linarith [ok.hL]
  rw [compSep_toQ, pymod_rounded _ _ ok.hm]
  have h0 := pymod_rat_nonneg (toQ ((b - a) + h)) (toQ L) ok.hL
  have h1 := pymod_rat_lt (toQ ((b - a) + h)) (toQ L) ok.hL
  have p0 : 0 ≤ fm.rnd (pymod Ops.rat (toQ ((b - a) + h)) (toQ L)) := fm.rnd_nonneg h0
  have p1 : fm.rnd (pymod Ops.rat (toQ ((b - a) + h)) (toQ L)) ≤ toQ L := fm.rnd_le_of_le ok.LF h1.le
  rw [abs_le]
  constructor
  · exact fm.le_rnd_of_le (fm.neg_mem ok.hF) (by linarith)
  · exact fm.rnd_le_of_le ok.hF (by rw [ok.hh] at *; linarith)

/-- **one component against the exact nearest-image distance**: the magnitude of the computed component differs from the
exact distance of `b − a` to the lattice by at most `9/2 · eps · L` (four roundings: `b − a`, `+ L/2`, the `+ L` inside `%`,
`− L/2`; an ABSOLUTE error proportional to the box, not to the separation) -/
theorem compSep_err {a b L h : R fm} (ok : CompOK fm a b L h) :
    |(|toQ (compSep fm a b L h)|) - dist1 (toQ L) (toQ b - toQ a)| ≤ 9 / 2 * (fm.eps * toQ L) := by
  have hL := ok.hL
  have hE0 : 0 ≤ fm.eps * toQ L := mul_nonneg fm.eps_nonneg hL.le
  have hE1 : fm.eps * toQ L ≤ toQ L / 2 := by nlinarith [fm.eps_le_half]
  set E := fm.eps * toQ L with hE
  -- s1 = rnd (b - a)
  have hba : |toQ b - toQ a| ≤ toQ L := by rw [abs_le]; constructor <;> linarith [ok.a0, ok.a1, ok.b0, ok.b1]
  have e1 : |toQ (b - a) - (toQ b - toQ a)| ≤ E := by
    rw [toQ_sub]
    exact (fm.sub_err ok.bF ok.aF (by linarith [ok.big])).trans (mul_le_mul_of_nonneg_left hba fm.eps_nonneg)
  have s1F : toQ (b - a) ∈ fm.F := by rw [toQ_sub]; exact fm.rnd_mem _
  have e1' := abs_le.mp e1
  have hba' := abs_le.mp hba
  -- x = rnd (s1 + h)
  have hs1h : |toQ (b - a) + toQ h| ≤ 2 * toQ L := by
    rw [abs_le, ok.hh]; constructor <;> linarith
  have e2 : |toQ ((b - a) + h) - (toQ (b - a) + toQ h)| ≤ 2 * E := by
    rw [toQ_add]
    refine (fm.add_err s1F ok.hF (hs1h.trans ok.big)).trans ?_
    have := mul_le_mul_of_nonneg_left hs1h fm.eps_nonneg
    linarith
  set x := toQ ((b - a) + h) with hx
  -- p = exact x % L, pm its rounded counterpart
  have h0 := pymod_rat_nonneg x (toQ L) hL
  have h1 := pymod_rat_lt x (toQ L) hL
  have e3 := pymod_rounded_err ((b - a) + h) L hL ok.LF (by linarith [ok.big]) ok.hm
  rw [← hx] at e3
  set p := pymod Ops.rat x (toQ L) with hp
  set pm := toQ (pymod (Ops.rounded fm) ((b - a) + h) L) with hpm
  have pmF : pm ∈ fm.F := by rw [hpm, pymod_rounded _ _ ok.hm]; exact fm.rnd_mem _
  have pm0 : 0 ≤ pm := by rw [hpm, pymod_rounded _ _ ok.hm]; exact fm.rnd_nonneg h0
  have pm1 : pm ≤ toQ L := by rw [hpm, pymod_rounded _ _ ok.hm]; exact fm.rnd_le_of_le ok.LF h1.le
  -- c = rnd (pm - h)
  have hpmh : |pm - toQ h| ≤ toQ L / 2 := by rw [abs_le, ok.hh]; constructor <;> linarith
  have e4 : |toQ (compSep fm a b L h) - (pm - toQ h)| ≤ E / 2 := by
    rw [compSep_toQ]
    refine (fm.sub_err pmF ok.hF (by linarith [ok.big])).trans ?_
    have := mul_le_mul_of_nonneg_left hpmh fm.eps_nonneg
    linarith
  -- the exact wrapped separation of x - h is p - h
  have ex : dist1 (toQ L) (x - toQ h) = |p - toQ h| := by
    unfold dist1 wrapSep
    rw [hp, ok.hh]
    congr 2
    ring_nf
  have lip := dist1_abs_sub hL (x - toQ h) (toQ b - toQ a)
  rw [ex] at lip
  have hxs : |x - toQ h - (toQ b - toQ a)| ≤ 3 * E := by
    have e2' := abs_le.mp e2
    rw [abs_le]; constructor <;> linarith
  have t1 := abs_abs_sub_abs_le_abs_sub (toQ (compSep fm a b L h)) (p - toQ h)
  have hcp : |toQ (compSep fm a b L h) - (p - toQ h)| ≤ 3 / 2 * E := by
    have e3' := abs_le.mp e3
    have e4' := abs_le.mp e4
    rw [abs_le]; constructor <;> linarith
  have a1 := abs_le.mp (t1.trans hcp)
  have a2 := abs_le.mp (lip.trans hxs)
  rw [abs_le]; constructor <;> linarith

/-! ### D. the computed squared norm -/

/-- exact squared Euclidean norm of a list -/
def sq (v : List ℚ) : ℚ := (v.map fun c => c * c).sum

theorem sq_nonneg (v : List ℚ) : 0 ≤ sq v := by
  unfold sq
  apply List.sum_nonneg
  intro x hx
  obtain ⟨c, -, rfl⟩ := List.mem_map.mp hx
  exact mul_self_nonneg c

/-- no square of a component underflows or overflows (a zero component is fine) -/
def SqOK (fm : FloatModel) (v : List (R fm)) : Prop :=
  ∀ c ∈ v, toQ c = 0 ∨ (fm.tiny ≤ toQ c * toQ c ∧ toQ c * toQ c ≤ fm.huge)

/-- the error of CPython's compensated `sum` on the list of squares, as a parameter (as in `C05Float`): relative `δs` -/
def SumOK (fm : FloatModel) (xs : List (R fm)) (δs : ℚ) : Prop :=
  |toQ (pySum (Ops.rounded fm) xs) - (xs.map toQ).sum| ≤ δs * (xs.map toQ).sum

theorem squares_bounds (v : List (R fm)) (hv : SqOK fm v) :
    (1 - fm.eps) * sq (v.map toQ) ≤ ((v.map fun c => c * c).map toQ).sum ∧
      ((v.map fun c => c * c).map toQ).sum ≤ (1 + fm.eps) * sq (v.map toQ) := by
  unfold sq
  induction v with
  | nil => simp
  | cons c v ih =>
    obtain ⟨i1, i2⟩ := ih (fun x hx => hv x (by simp [hx]))
    simp only [List.map_cons, List.sum_cons, toQ_mul]
    have hc : |fm.rnd (toQ c * toQ c) - toQ c * toQ c| ≤ fm.eps * (toQ c * toQ c) := by
      rcases hv c (by simp) with h | ⟨h1, h2⟩
      · simp [h]
      · have := fm.rel_err (toQ c * toQ c) (by rwa [abs_of_nonneg (mul_self_nonneg _)])
          (by rwa [abs_of_nonneg (mul_self_nonneg _)])
        rwa [abs_of_nonneg (mul_self_nonneg (toQ c))] at this
    have hc' := abs_le.mp hc
    constructor <;> nlinarith

/-- **the computed squared norm** `sum(c * c for c in v)` is within the factors `(1 ∓ δs)(1 ∓ eps)` of the exact one -/
theorem normSq_bounds (v : List (R fm)) (hv : SqOK fm v) (δs : ℚ) (h0 : 0 ≤ δs) (h1 : δs ≤ 1)
    (hs : SumOK fm (v.map fun c => c * c) δs) :
    (1 - δs) * ((1 - fm.eps) * sq (v.map toQ)) ≤ toQ (normSq (Ops.rounded fm) v) ∧
      toQ (normSq (Ops.rounded fm) v) ≤ (1 + δs) * ((1 + fm.eps) * sq (v.map toQ)) := by
  obtain ⟨b1, b2⟩ := squares_bounds v hv
  have hs' := abs_le.mp hs
  have hN := sq_nonneg (v.map toQ)
  have he := fm.eps_nonneg
  have he2 := fm.eps_le_half
  have hS0 : 0 ≤ ((v.map fun c => c * c).map toQ).sum := by
    have : 0 ≤ (1 - fm.eps) * sq (v.map toQ) := mul_nonneg (by linarith) hN
    linarith
  unfold normSq
  constructor
  · have : (1 - δs) * ((1 - fm.eps) * sq (v.map toQ)) ≤ (1 - δs) * ((v.map fun c => c * c).map toQ).sum :=
      mul_le_mul_of_nonneg_left b1 (by linarith)
    linarith
  · have : (1 + δs) * ((v.map fun c => c * c).map toQ).sum ≤ (1 + δs) * ((1 + fm.eps) * sq (v.map toQ)) :=
      mul_le_mul_of_nonneg_left b2 (by linarith)
    linarith

/-! ### E. Euclidean perturbation -/

theorem mink2 {u v p q : ℝ} (hu : 0 ≤ u) (hv : 0 ≤ v) (hp : 0 ≤ p) (hq : 0 ≤ q) :
    Real.sqrt ((u + p) * (u + p) + (v + q) * (v + q)) ≤ Real.sqrt (u * u + v * v) + Real.sqrt (p * p + q * q) := by
  have n1 : 0 ≤ u * u + v * v := by positivity
  have n2 : 0 ≤ p * p + q * q := by positivity
  set S1 := Real.sqrt (u * u + v * v) with hS1
  set S2 := Real.sqrt (p * p + q * q) with hS2
  have s1 : 0 ≤ S1 := Real.sqrt_nonneg _
  have s2 : 0 ≤ S2 := Real.sqrt_nonneg _
  have q1 : S1 * S1 = u * u + v * v := Real.mul_self_sqrt n1
  have q2 : S2 * S2 = p * p + q * q := Real.mul_self_sqrt n2
  have cs : u * p + v * q ≤ S1 * S2 := by
    by_contra hc
    rw [not_le] at hc
    have hpos : 0 ≤ S1 * S2 := mul_nonneg s1 s2
    have : (S1 * S2) * (S1 * S2) < (u * p + v * q) * (u * p + v * q) := by nlinarith
    have e : (S1 * S2) * (S1 * S2) = (u * u + v * v) * (p * p + q * q) := by rw [← q1, ← q2]; ring
    nlinarith [mul_self_nonneg (u * q - v * p)]
  rw [show Real.sqrt ((u + p) * (u + p) + (v + q) * (v + q)) ≤ S1 + S2 ↔ _ from Real.sqrt_le_left (by positivity)]
  nlinarith

/-- the squared norm over `ℝ` -/
noncomputable def sqR (v : List ℚ) : ℝ := ((sq v : ℚ) : ℝ)

theorem sqR_cons (c : ℚ) (v : List ℚ) : sqR (c :: v) = (c : ℝ) * (c : ℝ) + sqR v := by
  unfold sqR sq; simp

theorem sqR_nonneg (v : List ℚ) : 0 ≤ sqR v := by unfold sqR; exact_mod_cast sq_nonneg v

/-- components whose magnitudes exceed those of another vector by at most `η` each: the norm exceeds by at most `√n · η` -/
theorem norm_perturb {η : ℚ} (hη : 0 ≤ η) {cs es : List ℚ} (h : List.Forall₂ (fun c e => |c| ≤ |e| + η) cs es) :
    Real.sqrt (sqR cs) ≤ Real.sqrt (sqR es) + Real.sqrt (es.length : ℝ) * (η : ℝ) := by
  have hηR : (0 : ℝ) ≤ (η : ℝ) := by exact_mod_cast hη
  induction h with
  | nil => simp [sqR, sq]
  | @cons c e cs es hce _ ih =>
    rw [sqR_cons, sqR_cons]
    have hQc := sqR_nonneg cs
    have hQe := sqR_nonneg es
    set Qc := sqR cs
    set Qe := sqR es
    set n : ℝ := (es.length : ℝ) with hn
    have hn0 : 0 ≤ n := by positivity
    have hceR : |(c : ℝ)| ≤ |(e : ℝ)| + (η : ℝ) := by exact_mod_cast hce
    have c2 : (c : ℝ) * (c : ℝ) ≤ (|(e : ℝ)| + η) * (|(e : ℝ)| + η) := by
      rw [← abs_mul_abs_self (c : ℝ)]
      exact mul_self_le_mul_self (abs_nonneg _) hceR
    have sQc : Real.sqrt Qc * Real.sqrt Qc = Qc := Real.mul_self_sqrt hQc
    have Q2 : Qc ≤ (Real.sqrt Qe + Real.sqrt n * η) * (Real.sqrt Qe + Real.sqrt n * η) := by
      rw [← sQc]
      exact mul_self_le_mul_self (Real.sqrt_nonneg _) ih
    have hsn : 0 ≤ Real.sqrt n * (η : ℝ) := mul_nonneg (Real.sqrt_nonneg _) hηR
    have m := mink2 (abs_nonneg (e : ℝ)) (Real.sqrt_nonneg Qe) hηR hsn
    have e1 : |(e : ℝ)| * |(e : ℝ)| + Real.sqrt Qe * Real.sqrt Qe = (e : ℝ) * (e : ℝ) + Qe := by
      rw [abs_mul_abs_self, Real.mul_self_sqrt hQe]
    have e2 : (η : ℝ) * η + (Real.sqrt n * η) * (Real.sqrt n * η) = ((n + 1) * (η * η)) := by
      have : Real.sqrt n * Real.sqrt n = n := Real.mul_self_sqrt hn0
      calc (η : ℝ) * η + (Real.sqrt n * η) * (Real.sqrt n * η)
          = η * η + (Real.sqrt n * Real.sqrt n) * (η * η) := by ring
        _ = (n + 1) * (η * η) := by rw [this]; ring
    rw [e1, e2] at m
    have e3 : Real.sqrt ((n + 1) * ((η : ℝ) * η)) = Real.sqrt (((e :: es).length : ℕ) : ℝ) * η := by
      rw [Real.sqrt_mul (by positivity), Real.sqrt_mul_self hηR]
      simp [hn]
    rw [e3] at m
    exact (Real.sqrt_le_sqrt (by linarith)).trans m

end JF.OutputFloat
