import Mathlib.MeasureTheory.Integral.IntervalIntegral.IntegrationByParts
import Mathlib.Analysis.SpecialFunctions.ExpDeriv
import Mathlib.Analysis.SpecialFunctions.Trigonometric.Deriv
import Mathlib.Analysis.Calculus.ContDiff.Deriv
import Mathlib.Algebra.Ring.Periodic
/-!
# Calculus on the circle for the concrete instance of C01's generator statement

Plain Mathlib analysis, no project definitions: `L`-periodic `C¹` functions on `ℝ` (functions on the circle `ℝ / L`),
the integral over one period, and **integration by parts against the Boltzmann weight without boundary term**
(`periodic_boltzmann_ibp`): for `C¹` `L`-periodic `U`, `g`

  `∫_0^L e^{−βU} g' = β ∫_0^L e^{−βU} g U'`.
-/
namespace JF.C01Generator.Circle
open Real intervalIntegral MeasureTheory

/-- `C¹` and `L`-periodic -/
def Smooth (L : ℝ) (g : ℝ → ℝ) : Prop := ContDiff ℝ 1 g ∧ Function.Periodic g L

theorem Smooth.add {L : ℝ} {f g : ℝ → ℝ} (hf : Smooth L f) (hg : Smooth L g) : Smooth L (f + g) :=
  ⟨hf.1.add hg.1, hf.2.add hg.2⟩

theorem Smooth.zero (L : ℝ) : Smooth L (0 : ℝ → ℝ) :=
  ⟨contDiff_const, fun _ => rfl⟩

theorem Smooth.smul {L : ℝ} (c : ℝ) {g : ℝ → ℝ} (hg : Smooth L g) : Smooth L (c • g) :=
  ⟨hg.1.const_smul c, fun x => by simp [hg.2 x]⟩

theorem Smooth.differentiable {L : ℝ} {g : ℝ → ℝ} (hg : Smooth L g) : Differentiable ℝ g :=
  hg.1.differentiable one_ne_zero

theorem Smooth.continuous {L : ℝ} {g : ℝ → ℝ} (hg : Smooth L g) : Continuous g := hg.1.continuous

theorem Smooth.continuous_deriv {L : ℝ} {g : ℝ → ℝ} (hg : Smooth L g) : Continuous (deriv g) :=
  hg.1.continuous_deriv_one

theorem Smooth.deriv_add {L : ℝ} {f g : ℝ → ℝ} (hf : Smooth L f) (hg : Smooth L g) :
    deriv (f + g) = deriv f + deriv g := by
  funext s
  exact _root_.deriv_add (hf.differentiable s) (hg.differentiable s)

theorem Smooth.deriv_smul {L : ℝ} (c : ℝ) {g : ℝ → ℝ} (hg : Smooth L g) :
    deriv (c • g) = c • deriv g := by
  funext s
  exact _root_.deriv_const_smul c (hg.differentiable s)

/-- the Boltzmann weight of a `C¹` energy and its derivative -/
theorem hasDerivAt_weight (β : ℝ) {U : ℝ → ℝ} (hU : Differentiable ℝ U) (s : ℝ) :
    HasDerivAt (fun s => exp (-β * U s)) (exp (-β * U s) * (-β * deriv U s)) s :=
  ((hU s).hasDerivAt.const_mul (-β)).exp

/-- **Integration by parts on the circle against the Boltzmann weight: no boundary term.** -/
theorem periodic_boltzmann_ibp (L β : ℝ) {U g : ℝ → ℝ} (hU : Smooth L U) (hg : Smooth L g) :
    ∫ s in (0:ℝ)..L, exp (-β * U s) * deriv g s = β * ∫ s in (0:ℝ)..L, exp (-β * U s) * g s * deriv U s := by
  have hcw : Continuous fun s => exp (-β * U s) := by
    have := hU.continuous
    fun_prop
  have hu' : Continuous fun s => exp (-β * U s) * (-β * deriv U s) := by
    have := hU.continuous_deriv
    fun_prop
  have h := integral_mul_deriv_eq_deriv_mul (a := 0) (b := L)
    (u := fun s => exp (-β * U s)) (u' := fun s => exp (-β * U s) * (-β * deriv U s))
    (v := g) (v' := deriv g)
    (fun s _ => hasDerivAt_weight β hU.differentiable s)
    (fun s _ => (hg.differentiable s).hasDerivAt)
    (hu'.intervalIntegrable _ _) (hg.continuous_deriv.intervalIntegrable _ _)
  have hUL : U L = U 0 := by simpa using hU.2 0
  have hgL : g L = g 0 := by simpa using hg.2 0
  rw [h, hUL, hgL, sub_self, zero_sub, ← intervalIntegral.integral_const_mul, ← intervalIntegral.integral_neg]
  apply intervalIntegral.integral_congr
  intro s _
  ring

/-- the cosine pair energy `1 − cos(2π s / L)` of the separation `s` -/
noncomputable def cosU (L : ℝ) (s : ℝ) : ℝ := 1 - cos (2 * π * s / L)

theorem cosU_smooth {L : ℝ} (hL : L ≠ 0) : Smooth L (cosU L) := by
  constructor
  · unfold cosU
    fun_prop
  · intro s
    unfold cosU
    have : 2 * π * (s + L) / L = 2 * π * s / L + 2 * π := by field_simp
    rw [this, cos_add_two_pi]

theorem deriv_cosU (L : ℝ) (s : ℝ) : deriv (cosU L) s = 2 * π / L * sin (2 * π * s / L) := by
  have h1 : HasDerivAt (fun s : ℝ => 2 * π * s / L) (2 * π / L) s := by
    have := ((hasDerivAt_id s).const_mul (2 * π)).div_const L
    simpa using this
  have h2 := (h1.cos).const_sub 1
  have e : (2 * π / L * sin (2 * π * s / L)) = -(-sin (2 * π * s / L) * (2 * π / L)) := by ring
  have : HasDerivAt (cosU L) (2 * π / L * sin (2 * π * s / L)) s := by
    rw [e]; exact h2
  exact this.deriv

end JF.C01Generator.Circle
