import JF.Lemmas.LiftingRnd
import JF.Lemmas.Lifting
import Mathlib.Tactic.Positivity
/-!
Error analysis for `JF/Props/C05Float.lean`: how far the rounded quantities of the lifting walk (`R fm`, any
`fm : FloatModel`) are from the exact ones of `JF/Lemmas/Lifting.lean` (`ℚ`).

* `gam fm k = (1 + eps)^k − 1` : the classical accumulated relative error of `k` roundings (`≤ 2·k·eps` when
  `k·eps ≤ 1`, `gam_le_linear`);
* `tau fm = (1 + eps)·max tiny 0` : absolute error of ONE rounding in the subnormal range (the product
  `lifting_rate * random()` can be subnormal; sums of representable numbers cannot lose anything there);
* `step_err`   : one rounded addition of an exact non-negative term to an approximated non-negative sum;
* `acc_err`    : the loop's running sums against the exact partial sums `cumB`;
* `posAcc_err` : `_random_position` before the active unit against the exact `posSum`;
* `tblQ`, `negL_toQ` : the exact (`ℚ`) reading of a table over `R fm` and of its negative list.
-/
namespace JF.Lifting
set_option linter.unusedSectionVars false
open R

variable {fm : FloatModel} {ι : Type}

/-- accumulated relative error of `k` roundings -/
def gam (fm : FloatModel) (k : ℕ) : ℚ := (1 + fm.eps) ^ k - 1

/-- absolute error bound of one rounding below the normal range -/
def tau (fm : FloatModel) : ℚ := (1 + fm.eps) * max fm.tiny 0

theorem one_le_ope (fm : FloatModel) : (1 : ℚ) ≤ 1 + fm.eps := by linarith [fm.eps_nonneg]

theorem one_add_gam (fm : FloatModel) (k : ℕ) : 1 + gam fm k = (1 + fm.eps) ^ k := by unfold gam; ring

theorem gam_zero (fm : FloatModel) : gam fm 0 = 0 := by simp [gam]

theorem gam_succ (fm : FloatModel) (k : ℕ) : gam fm (k + 1) = fm.eps + (1 + fm.eps) * gam fm k := by
  unfold gam; ring

theorem gam_mono (fm : FloatModel) {j k : ℕ} (h : j ≤ k) : gam fm j ≤ gam fm k := by
  unfold gam
  have := pow_le_pow_right₀ (one_le_ope fm) h
  linarith

theorem gam_nonneg (fm : FloatModel) (k : ℕ) : 0 ≤ gam fm k := by
  have := gam_mono fm (Nat.zero_le k)
  rwa [gam_zero] at this

theorem tau_nonneg (fm : FloatModel) : 0 ≤ tau fm :=
  mul_nonneg (by linarith [fm.eps_nonneg]) (le_max_right _ _)

/-- `(1 + x)^k ≤ 1 + k x + (k x)^2` for `k x ≤ 1` -/
theorem pow_le_quad {x : ℚ} (hx : 0 ≤ x) : ∀ k : ℕ, (k : ℚ) * x ≤ 1 → (1 + x) ^ k ≤ 1 + k * x + (k * x) ^ 2
  | 0, _ => by simp
  | k + 1, h => by
    have hk : (k : ℚ) * x ≤ 1 := by
      have : ((k + 1 : ℕ) : ℚ) * x = k * x + x := by push_cast; ring
      linarith
    have ih := pow_le_quad hx k hk
    have hk0 : (0 : ℚ) ≤ k := Nat.cast_nonneg k
    have h1 : (1 + x) ^ (k + 1) ≤ (1 + k * x + (k * x) ^ 2) * (1 + x) := by
      rw [pow_succ]; exact mul_le_mul_of_nonneg_right ih (by linarith)
    have h2 : (k : ℚ) * x * (k * x * x) ≤ 1 * (k * x * x) :=
      mul_le_mul_of_nonneg_right hk (mul_nonneg (mul_nonneg hk0 hx) hx)
    have h3 : 0 ≤ x * x := mul_nonneg hx hx
    push_cast
    nlinarith

/-- for `k·eps ≤ 1` the accumulated relative error is at most `2·k·eps` -/
theorem gam_le_linear (fm : FloatModel) (k : ℕ) (h : (k : ℚ) * fm.eps ≤ 1) : gam fm k ≤ 2 * k * fm.eps := by
  have h1 := pow_le_quad fm.eps_nonneg k h
  have h0 : 0 ≤ (k : ℚ) * fm.eps := mul_nonneg (Nat.cast_nonneg k) fm.eps_nonneg
  have h2 : ((k : ℚ) * fm.eps) ^ 2 ≤ (k : ℚ) * fm.eps := by
    rw [pow_two]; nlinarith
  unfold gam
  linarith

/-- one rounding of any number up to `huge`: relative error `eps` plus, below the normal range, at most `tau` -/
theorem rnd_err_abs (fm : FloatModel) (ht : fm.tiny ≤ fm.huge) {x : ℚ} (hx : |x| ≤ fm.huge) :
    |fm.rnd x - x| ≤ fm.eps * |x| + tau fm := by
  have key : ∀ y : ℚ, 0 ≤ y → y ≤ fm.huge → |fm.rnd y - y| ≤ fm.eps * y + tau fm := by
    intro y hy0 hyh
    rcases le_or_gt fm.tiny y with h | h
    · have := fm.rel_err y (by rwa [abs_of_nonneg hy0]) (by rwa [abs_of_nonneg hy0])
      rw [abs_of_nonneg hy0] at this
      linarith [tau_nonneg fm]
    · have ht0 : 0 < fm.tiny := lt_of_le_of_lt hy0 h
      have h1 : 0 ≤ fm.rnd y := fm.rnd_nonneg hy0
      have h2 : fm.rnd y ≤ fm.rnd fm.tiny := fm.rnd_mono h.le
      have h3 := fm.rel_err fm.tiny (by rw [abs_of_pos ht0]) (by rwa [abs_of_pos ht0])
      rw [abs_of_pos ht0] at h3
      have h4 := (abs_le.mp h3).2
      have h5 : tau fm = fm.tiny + fm.eps * fm.tiny := by
        unfold tau; rw [max_eq_left ht0.le]; ring
      have h6 : 0 ≤ fm.eps * y := mul_nonneg fm.eps_nonneg hy0
      have h7 : 0 ≤ fm.eps * fm.tiny := mul_nonneg fm.eps_nonneg ht0.le
      rw [abs_le]
      constructor <;> linarith
  rcases le_total 0 x with h | h
  · rw [abs_of_nonneg h] at hx ⊢
    exact key x h hx
  · rw [abs_of_nonpos h] at hx ⊢
    have := key (-x) (by linarith) hx
    rw [fm.rnd_neg] at this
    rwa [show -fm.rnd x - -x = -(fm.rnd x - x) by ring, abs_neg] at this

/-- one rounded addition of an exact non-negative term `y` to an approximation `xt` of a non-negative `x` -/
theorem step_err (fm : FloatModel) {xt y x T g : ℚ} (hxt : xt ∈ fm.F) (hy : y ∈ fm.F) (hx0 : 0 ≤ x)
    (hy0 : 0 ≤ y) (hg : 0 ≤ g) (he : |xt - x| ≤ g * T) (hT : x + y ≤ T) (hH : (1 + g) * T ≤ fm.huge) :
    |fm.rnd (xt + y) - (x + y)| ≤ (fm.eps + (1 + fm.eps) * g) * T := by
  have hT0 : 0 ≤ T := by linarith
  have he' := abs_le.mp he
  have hs : |xt + y| ≤ (1 + g) * T := by
    rw [abs_le]; constructor
    · have : 0 ≤ g * T := mul_nonneg hg hT0
      nlinarith
    · nlinarith
  have h1 := fm.add_err hxt hy (le_trans hs hH)
  have h2 : fm.eps * |xt + y| ≤ fm.eps * ((1 + g) * T) := mul_le_mul_of_nonneg_left hs fm.eps_nonneg
  have h3 := abs_le.mp (le_trans h1 h2)
  rw [abs_le]
  constructor <;> nlinarith

/-! ### the exact reading of a table over `R fm` -/

/-- the same table with its rates read as exact rationals -/
def tblQ (tbl : List (R fm × ι)) : List (ℚ × ι) := tbl.map fun e => (toQ e.1, e.2)

@[simp] theorem tblQ_nil : tblQ ([] : List (R fm × ι)) = [] := rfl
@[simp] theorem tblQ_cons (e : R fm × ι) (t : List (R fm × ι)) : tblQ (e :: t) = (toQ e.1, e.2) :: tblQ t := rfl
@[simp] theorem tblQ_length (tbl : List (R fm × ι)) : (tblQ tbl).length = tbl.length := by simp [tblQ]
theorem tblQ_take (tbl : List (R fm × ι)) (a : ℕ) : tblQ (tbl.take a) = (tblQ tbl).take a := by
  simp [tblQ, List.map_take]
theorem tblQ_getElem (tbl : List (R fm × ι)) {a : ℕ} (ha : a < tbl.length) :
    ((tblQ tbl)[a]'(by simpa using ha)).1 = toQ (tbl[a]).1 := by simp [tblQ]

/-- the rounded insertion loop collects exactly the exact negative list -/
theorem negL_toQ (tbl : List (R fm × ι)) : tblQ (negL (Ops.rounded fm) tbl) = negOf (tblQ tbl) := by
  induction tbl with
  | nil => simp [negL, negOf]
  | cons x t ih =>
    obtain ⟨r, i⟩ := x
    unfold negL
    simp only [tblQ_cons, negOf]
    have e : ((Ops.rounded fm).ofInt 0 < r) ↔ (0 : ℚ) < toQ r := by simp
    by_cases h : (0 : ℚ) < toQ r
    · rw [if_pos (e.mpr h), if_pos h]; exact ih
    · rw [if_neg (fun h' => h (e.mp h')), if_neg h]; simp [ih]

theorem negL_length_le (tbl : List (R fm × ι)) : (negL (Ops.rounded fm) tbl).length ≤ tbl.length := by
  induction tbl with
  | nil => simp [negL]
  | cons x t ih =>
    obtain ⟨r, i⟩ := x
    unfold negL
    split <;> simp <;> omega

/-- all rates of a list are representable -/
def InF (fm : FloatModel) (l : List (R fm × ι)) : Prop := ∀ e ∈ l, toQ e.1 ∈ fm.F

theorem InF.tail {e : R fm × ι} {l : List (R fm × ι)} (h : InF fm (e :: l)) : InF fm l :=
  fun x hx => h x (List.mem_cons_of_mem _ hx)
theorem InF.head {e : R fm × ι} {l : List (R fm × ι)} (h : InF fm (e :: l)) : toQ e.1 ∈ fm.F :=
  h e List.mem_cons_self

theorem negL_inF {tbl : List (R fm × ι)} (h : InF fm tbl) : InF fm (negL (Ops.rounded fm) tbl) := by
  intro e he
  obtain ⟨r, h1, _, h3⟩ := mem_negL _ he
  rw [h3, toQ_neg]
  exact fm.neg_mem (h _ h1)

theorem pow_add_le (fm : FloatModel) {j k : ℕ} (h : j ≤ k) {T : ℚ} (hT : 0 ≤ T) :
    (1 + fm.eps) ^ j * T ≤ (1 + fm.eps) ^ k * T :=
  mul_le_mul_of_nonneg_right (pow_le_pow_right₀ (one_le_ope fm) h) hT

/-- **the loop's running sums**: after `k` entries, started from an approximation `c` (error `gam j · T`) of `x ≥ 0`,
the rounded running sum is within `gam (j + k) · T` of the exact one -/
theorem acc_err (fm : FloatModel) {T : ℚ} :
    ∀ (l : List (R fm × ι)) (c : R fm) (x : ℚ) (j k : ℕ), InF fm l → NonNegR l → toQ c ∈ fm.F → 0 ≤ x →
      |toQ c - x| ≤ gam fm j * T → x + total (tblQ l) ≤ T → (1 + fm.eps) ^ (j + l.length) * T ≤ fm.huge →
      |toQ (acc l c k) - (x + cumB (tblQ l) k)| ≤ gam fm (j + k) * T
  | [], c, x, j, k, _, _, _, hx, he, hT, _ => by
    have hT0 : 0 ≤ T := by simpa using le_trans hx (by simpa using hT)
    simp only [acc_nil, tblQ_nil, cumB_nil, add_zero]
    exact le_trans he (mul_le_mul_of_nonneg_right (gam_mono fm (Nat.le_add_right j k)) hT0)
  | e :: t, c, x, j, 0, _, _, _, _, he, _, _ => by simpa using he
  | e :: t, c, x, j, k + 1, hF, hN, hc, hx, he, hT, hH => by
    have ht0 : 0 ≤ total (tblQ t) := total_nonneg (l := tblQ t) (by
      intro y hy
      simp only [tblQ, List.mem_map] at hy
      obtain ⟨z, hz, rfl⟩ := hy
      exact hN.tail z hz)
    simp only [tblQ_cons, total_cons] at hT
    have hT0 : 0 ≤ T := by linarith [hN.head]
    have hstep := step_err fm hc hF.head hx hN.head (gam_nonneg fm j) he (by linarith) (by
      rw [one_add_gam]
      exact le_trans (pow_add_le fm (Nat.le_add_right j _) hT0) hH)
    rw [← gam_succ] at hstep
    have := acc_err fm t (c + e.1) (x + toQ e.1) (j + 1) k hF.tail hN.tail (by rw [toQ_add]; exact fm.rnd_mem _)
      (by linarith [hN.head]) (by rw [toQ_add]; exact hstep) (by linarith) (by
        rw [show j + 1 + t.length = j + (e :: t).length by simp; omega]; exact hH)
    simp only [acc_cons_succ, tblQ_cons, cumB_cons_succ]
    rw [show j + (k + 1) = j + 1 + k by omega, ← add_assoc]
    exact this

/-- the running sums are not negative -/
theorem acc_nonneg {l : List (R fm × ι)} (hl : NonNegR l) (k : ℕ) :
    0 ≤ toQ (acc l ((Ops.rounded fm).ofInt 0) k) := by
  have := acc_mono hl ((Ops.rounded fm).ofInt 0) zero_memR (Nat.zero_le k)
  simpa using this

/-- **`_random_position` before the active unit**: the left-to-right rounded sum of the positive rates of a list,
started from an approximation `p` (error `gam j · T`) of `x ≥ 0` -/
theorem posAcc_err (fm : FloatModel) {T : ℚ} :
    ∀ (t : List (R fm × ι)) (p : R fm) (x : ℚ) (j : ℕ), InF fm t → toQ p ∈ fm.F → 0 ≤ x →
      |toQ p - x| ≤ gam fm j * T → x + posSum (tblQ t) ≤ T → (1 + fm.eps) ^ (j + t.length) * T ≤ fm.huge →
      |toQ (posAcc (Ops.rounded fm) t p) - (x + posSum (tblQ t))| ≤ gam fm (j + t.length) * T ∧
        toQ (posAcc (Ops.rounded fm) t p) ∈ fm.F
  | [], p, x, j, _, hp, _, he, _, _ => by simpa [posAcc, posSum] using ⟨he, hp⟩
  | (r, i) :: t, p, x, j, hF, hp, hx, he, hT, hH => by
    have hps : 0 ≤ posSum (tblQ t) := posSum_nonneg _
    have e : ((Ops.rounded fm).ofInt 0 < r) ↔ (0 : ℚ) < toQ r := by simp
    have hlen : j + ((r, i) :: t).length = j + 1 + t.length := by simp; omega
    by_cases h : (0 : ℚ) < toQ r
    · have hT' : x + toQ r + posSum (tblQ t) ≤ T := by
        simp only [tblQ_cons, posSum, h, if_true] at hT; linarith
      have hT0 : 0 ≤ T := by linarith
      have hstep := step_err fm hp hF.head hx h.le (gam_nonneg fm j) he (by linarith) (by
        rw [one_add_gam]
        exact le_trans (pow_add_le fm (Nat.le_add_right j _) hT0) hH)
      rw [← gam_succ] at hstep
      have := posAcc_err fm t (p + r) (x + toQ r) (j + 1) hF.tail (by rw [toQ_add]; exact fm.rnd_mem _)
        (by linarith) (by rw [toQ_add]; exact hstep) hT' (by rw [← hlen]; exact hH)
      unfold posAcc
      rw [if_pos (e.mpr h)]
      simp only [tblQ_cons, posSum, h, if_true]
      rw [hlen, ← add_assoc]
      exact this
    · have hT' : x + posSum (tblQ t) ≤ T := by
        simp only [tblQ_cons, posSum, h, if_false] at hT; exact hT
      have hT0 : 0 ≤ T := by linarith
      have := posAcc_err fm t p x j hF.tail hp hx he hT' (le_trans (pow_add_le fm (by simp) hT0) hH)
      unfold posAcc
      rw [if_neg (fun h' => h (e.mp h'))]
      simp only [tblQ_cons, posSum, h, if_false]
      refine ⟨le_trans this.1 (mul_le_mul_of_nonneg_right (gam_mono fm (by simp)) hT0), this.2⟩

/-! ### `sum()` -/

theorem neumaier_mem (xs : List (R fm)) (f c : R fm) (hf : toQ f ∈ fm.F) :
    toQ (neumaier (Ops.rounded fm) xs f c) ∈ fm.F := by
  induction xs generalizing f c with
  | nil =>
    unfold neumaier
    split
    · rw [toQ_add]; exact fm.rnd_mem _
    · exact hf
  | cons x t ih =>
    unfold neumaier
    exact ih _ _ (by rw [toQ_add]; exact fm.rnd_mem _)

/-- the value of CPython's compensated `sum()` in the rounded reading is representable -/
theorem pySum_mem (xs : List (R fm)) : toQ (pySum (Ops.rounded fm) xs) ∈ fm.F := by
  cases xs with
  | nil => simpa [pySum] using fm.zero_mem
  | cons x t => exact neumaier_mem t _ _ (by rw [toQ_add]; exact fm.rnd_mem _)

theorem sumNeg_mem (tbl : List (R fm × ι)) : toQ (sumNeg (Ops.rounded fm) tbl) ∈ fm.F := pySum_mem _

/-! ### the positions -/

theorem toQ_posIn' {tbl : List (R fm × ι)} {a : Nat} (ha : a < tbl.length) (u : R fm) :
    toQ (posIn (Ops.rounded fm) tbl a u) =
      fm.rnd (toQ (posAcc (Ops.rounded fm) (tbl.take a) ((Ops.rounded fm).ofInt 0)) +
        fm.rnd (0 + fm.rnd (fm.rnd (toQ (tbl[a]).1 - 0) * toQ u))) := by
  simp [posIn, ha, pyUniform]

/-- **inside first**: the rounded `_random_position` against the exact `P_a + q_a·u`:
`a + 2` roundings of numbers below `T`, plus one possibly subnormal product -/
theorem posIn_err (fm : FloatModel) (ht : fm.tiny ≤ fm.huge) {tbl : List (R fm × ι)} {a : ℕ} (ha : a < tbl.length)
    (hq : 0 < toQ (tbl[a]).1) (hF : InF fm tbl) (u : R fm) (hu0 : 0 ≤ toQ u) (hu1 : toQ u ≤ 1) {T : ℚ}
    (hT : posSum (tblQ tbl) ≤ T) (hH : (1 + fm.eps) ^ (a + 2) * T + (1 + fm.eps) * tau fm ≤ fm.huge) :
    |toQ (posIn (Ops.rounded fm) tbl a u) - (posSum ((tblQ tbl).take a) + toQ (tbl[a]).1 * toQ u)|
        ≤ gam fm (a + 2) * T + (1 + fm.eps) * tau fm ∧
      toQ (posIn (Ops.rounded fm) tbl a u) ∈ fm.F := by
  rw [toQ_posIn' ha]
  refine ⟨?_, fm.rnd_mem _⟩
  set q := toQ (tbl[a]).1 with hqdef
  set e := fm.eps with hedef
  set g := gam fm a with hgdef
  have he0 : 0 ≤ e := fm.eps_nonneg
  have hg0 : 0 ≤ g := gam_nonneg fm a
  have htau := tau_nonneg fm
  have hqF : q ∈ fm.F := hF _ (List.getElem_mem ha)
  have hPq : posSum ((tblQ tbl).take a) + q ≤ posSum (tblQ tbl) := by
    have := posSum_take_add_le (tblQ tbl) (a := a) (by simpa using ha) (by rw [tblQ_getElem tbl ha]; exact hq)
    rwa [tblQ_getElem tbl ha] at this
  have hP0 : 0 ≤ posSum ((tblQ tbl).take a) := posSum_nonneg _
  have hT0 : 0 ≤ T := by linarith
  -- powers
  have hpow2 : (1 + e) ^ (a + 2) = (1 + e) * ((1 + e) * (1 + g)) := by rw [hgdef, one_add_gam]; ring
  have hgT : 0 ≤ g * T := mul_nonneg hg0 hT0
  have heT : 0 ≤ e * T := mul_nonneg he0 hT0
  have hegT : 0 ≤ e * (g * T) := mul_nonneg he0 hgT
  have heeT : 0 ≤ e * (e * T) := mul_nonneg he0 heT
  have heegT : 0 ≤ e * (e * (g * T)) := mul_nonneg he0 hegT
  have hetau : 0 ≤ e * tau fm := mul_nonneg he0 htau
  have hH' : (1 + e) * ((1 + e) * (1 + g)) * T + (1 + e) * tau fm ≤ fm.huge := by rw [← hpow2]; exact hH
  -- the sum of the positive rates before `a`
  have hlen : (tbl.take a).length = a := by simp; omega
  have hP := posAcc_err fm (T := T) (tbl.take a) ((Ops.rounded fm).ofInt 0) 0 0
    (fun x hx => hF x (List.mem_of_mem_take hx)) zero_memR (le_refl _) (by simp [gam_zero])
    (by rw [tblQ_take]; linarith) (by
      rw [hlen, zero_add, ← one_add_gam, ← hgdef]; nlinarith)
  rw [hlen, zero_add, zero_add, tblQ_take, ← hgdef] at hP
  obtain ⟨hPe, hPF⟩ := hP
  set Pt := toQ (posAcc (Ops.rounded fm) (tbl.take a) ((Ops.rounded fm).ofInt 0)) with hPt
  set P := posSum ((tblQ tbl).take a) with hPdef
  -- the product
  rw [sub_zero, fm.rnd_id q hqF, zero_add, fm.rnd_id _ (fm.rnd_mem _)]
  have hqu0 : 0 ≤ q * toQ u := mul_nonneg hq.le hu0
  have hqu1 : q * toQ u ≤ q := by nlinarith
  have hm := rnd_err_abs fm ht (x := q * toQ u) (by rw [abs_of_nonneg hqu0]; nlinarith)
  rw [abs_of_nonneg hqu0] at hm
  have hm' : |fm.rnd (q * toQ u) - q * toQ u| ≤ e * T + tau fm := by
    have : e * (q * toQ u) ≤ e * T := mul_le_mul_of_nonneg_left (by linarith) he0
    linarith
  set m := fm.rnd (q * toQ u) with hmdef
  have hPe' := abs_le.mp hPe
  have hm'' := abs_le.mp hm'
  -- the final addition
  have hS : |Pt + m| ≤ (1 + g + e) * T + tau fm := by
    rw [abs_le]; constructor <;> nlinarith
  have hadd := fm.add_err hPF (fm.rnd_mem (q * toQ u)) (le_trans hS (by nlinarith))
  have hadd' : |fm.rnd (Pt + m) - (Pt + m)| ≤ e * ((1 + g + e) * T + tau fm) :=
    le_trans hadd (mul_le_mul_of_nonneg_left hS he0)
  have hadd'' := abs_le.mp hadd'
  rw [gam_succ, gam_succ, ← hgdef, ← hedef]
  rw [abs_le]
  constructor <;> nlinarith

/-- **outside first**: the rounded reflected position `fl(sum(neg) − _random_position)` against the exact
`S − (P_a + q_a·u)`, for ANY value `S̃` of `sum(neg)` within `δ` of the exact sum `S` -/
theorem posOut_err (fm : FloatModel) (ht : fm.tiny ≤ fm.huge) {tbl : List (R fm × ι)} {a : ℕ} (ha : a < tbl.length)
    (hq : 0 < toQ (tbl[a]).1) (hF : InF fm tbl) (u u2 : R fm) (hu0 : 0 ≤ toQ u) (hu1 : toQ u ≤ 1) {T δ : ℚ}
    (hT : posSum (tblQ tbl) + total (negOf (tblQ tbl)) ≤ T)
    (hδ : |toQ (sumNeg (Ops.rounded fm) tbl) - total (negOf (tblQ tbl))| ≤ δ)
    (hH : (1 + fm.eps) ^ (a + 2) * T + (1 + fm.eps) * tau fm + δ ≤ fm.huge) :
    |toQ (posOf (Ops.rounded fm) .outside tbl a u u2) -
        (total (negOf (tblQ tbl)) - (posSum ((tblQ tbl).take a) + toQ (tbl[a]).1 * toQ u))|
      ≤ fm.eps * T + (1 + fm.eps) * (δ + (gam fm (a + 2) * T + (1 + fm.eps) * tau fm)) := by
  have hS0 : 0 ≤ total (negOf (tblQ tbl)) := total_nonneg (negOf_nonneg _)
  have hps0 : 0 ≤ posSum (tblQ tbl) := posSum_nonneg _
  have hδ0 : 0 ≤ δ := le_trans (abs_nonneg _) hδ
  have hT0 : 0 ≤ T := by linarith
  have he0 := fm.eps_nonneg
  have htau := tau_nonneg fm
  obtain ⟨hin, hinF⟩ := posIn_err fm ht ha hq hF u hu0 hu1 (T := T) (by linarith) (by linarith)
  set q := toQ (tbl[a]).1
  have hPq : posSum ((tblQ tbl).take a) + q ≤ posSum (tblQ tbl) := by
    have := posSum_take_add_le (tblQ tbl) (a := a) (by simpa using ha) (by rw [tblQ_getElem tbl ha]; exact hq)
    rwa [tblQ_getElem tbl ha] at this
  have hP0 : 0 ≤ posSum ((tblQ tbl).take a) := posSum_nonneg _
  have hqu0 : 0 ≤ q * toQ u := mul_nonneg hq.le hu0
  have hqu1 : q * toQ u ≤ q := by nlinarith
  set pin := posSum ((tblQ tbl).take a) + q * toQ u
  set S := total (negOf (tblQ tbl))
  set St := toQ (sumNeg (Ops.rounded fm) tbl)
  set pt := toQ (posIn (Ops.rounded fm) tbl a u)
  set E := gam fm (a + 2) * T + (1 + fm.eps) * tau fm with hE
  have hE0 : 0 ≤ E := add_nonneg (mul_nonneg (gam_nonneg fm _) hT0) (mul_nonneg (by linarith) htau)
  have hpow : (1 + fm.eps) ^ (a + 2) * T = T + gam fm (a + 2) * T := by rw [← one_add_gam]; ring
  have h1 := abs_le.mp hδ
  have h2 := abs_le.mp hin
  have hx : |St - pt| ≤ T + δ + E := by
    rw [abs_le]; constructor <;> linarith
  show |fm.rnd (St - pt) - (S - pin)| ≤ _
  have hsub := fm.sub_err (sumNeg_mem tbl) hinF (le_trans hx (by rw [hE]; linarith))
  have hsub' : |fm.rnd (St - pt) - (St - pt)| ≤ fm.eps * (T + δ + E) :=
    le_trans hsub (mul_le_mul_of_nonneg_left hx he0)
  have h3 := abs_le.mp hsub'
  rw [abs_le]
  constructor <;> nlinarith

/-- **ratio**: `fl(0.0 + fl(fl(sum(neg) − 0.0)·u2))` against the exact `S·u2`, for ANY value of `sum(neg)` within `δ`
of the exact sum -/
theorem posRatio_err (fm : FloatModel) (ht : fm.tiny ≤ fm.huge) (tbl : List (R fm × ι)) (a : ℕ) (u u2 : R fm)
    (hu0 : 0 ≤ toQ u2) (hu1 : toQ u2 ≤ 1) {T δ : ℚ} (hT : total (negOf (tblQ tbl)) ≤ T)
    (hδ : |toQ (sumNeg (Ops.rounded fm) tbl) - total (negOf (tblQ tbl))| ≤ δ) (hH : T + δ ≤ fm.huge) :
    |toQ (posOf (Ops.rounded fm) .ratio tbl a u u2) - total (negOf (tblQ tbl)) * toQ u2|
      ≤ fm.eps * (T + δ) + tau fm + δ := by
  have hS0 : 0 ≤ total (negOf (tblQ tbl)) := total_nonneg (negOf_nonneg _)
  have he0 := fm.eps_nonneg
  have hpos : toQ (posOf (Ops.rounded fm) .ratio tbl a u u2) =
      fm.rnd (toQ (sumNeg (Ops.rounded fm) tbl) * toQ u2) := by
    simp only [posOf, pyUniform, toQ_add, toQ_mul, toQ_sub, rounded_ofInt, Int.cast_zero, sub_zero, zero_add]
    rw [fm.rnd_id _ (sumNeg_mem tbl), fm.rnd_id _ (fm.rnd_mem _)]
  rw [hpos]
  set S := total (negOf (tblQ tbl))
  set St := toQ (sumNeg (Ops.rounded fm) tbl)
  have h1 := abs_le.mp hδ
  have hSt : |St| ≤ T + δ := by rw [abs_le]; constructor <;> linarith
  have hx : |St * toQ u2| ≤ T + δ := by
    rw [abs_mul, abs_of_nonneg hu0]
    calc |St| * toQ u2 ≤ |St| * 1 := mul_le_mul_of_nonneg_left hu1 (abs_nonneg _)
      _ ≤ T + δ := by rw [mul_one]; exact hSt
  have hr := rnd_err_abs fm ht (le_trans hx hH)
  have hr' : |fm.rnd (St * toQ u2) - St * toQ u2| ≤ fm.eps * (T + δ) + tau fm := by
    have := mul_le_mul_of_nonneg_left hx he0
    linarith
  have hd : |St * toQ u2 - S * toQ u2| ≤ δ := by
    rw [← sub_mul, abs_mul, abs_of_nonneg hu0]
    calc |St - S| * toQ u2 ≤ |St - S| * 1 := mul_le_mul_of_nonneg_left hu1 (abs_nonneg _)
      _ ≤ δ := by rw [mul_one]; exact hδ
  have h2 := abs_le.mp hr'
  have h3 := abs_le.mp hd
  rw [abs_le]
  constructor <;> linarith

/-! ### the thresholds -/

/-- the index read by loop + fall-through, located against the EXACT partial sums `N_k = cumB k`: the position is
above `N_k − gam k·T` (unless `k = 0`) and at most `N_{k+1} + gam (k+1)·T` (unless `k` is the last index, which is
also read on a fall-through) -/
theorem sel_sandwich (fm : FloatModel) {l : List (R fm × ι)} (hl : NonNegR l) (hF : InF fm l) (p : R fm) {T : ℚ}
    (hT : total (tblQ l) ≤ T) (hH : (1 + fm.eps) ^ l.length * T ≤ fm.huge) :
    (sel (Ops.rounded fm) p l = 0 ∨
        cumB (tblQ l) (sel (Ops.rounded fm) p l) - gam fm (sel (Ops.rounded fm) p l) * T < toQ p) ∧
      (sel (Ops.rounded fm) p l = l.length - 1 ∨
        toQ p ≤ cumB (tblQ l) (sel (Ops.rounded fm) p l + 1) + gam fm (sel (Ops.rounded fm) p l + 1) * T) := by
  have herr : ∀ k, |toQ (acc l ((Ops.rounded fm).ofInt 0) k) - cumB (tblQ l) k| ≤ gam fm k * T := by
    intro k
    have := acc_err fm (T := T) l ((Ops.rounded fm).ofInt 0) 0 0 k hF hl zero_memR (le_refl _)
      (by simp [gam_zero]) (by linarith) (by rw [zero_add]; exact hH)
    simpa using this
  cases hw : walkIdx p l ((Ops.rounded fm).ofInt 0) with
  | none =>
    have hs : sel (Ops.rounded fm) p l = l.length - 1 := by simp [sel, hw]
    rw [hs]
    refine ⟨?_, Or.inl rfl⟩
    rcases (walkIdx_none_iff_R p hl _ zero_memR).mp hw with h | h
    · left; simp [h]
    · right
      have h1 := acc_mono hl ((Ops.rounded fm).ofInt 0) zero_memR (show l.length - 1 ≤ l.length by omega)
      have h2 := abs_le.mp (herr (l.length - 1))
      linarith
  | some k =>
    have hs : sel (Ops.rounded fm) p l = k := by simp [sel, hw]
    rw [hs]
    obtain ⟨_, h2, h3⟩ := (walkIdx_some_iff_R p hl _ zero_memR k).mp hw
    constructor
    · rcases h2 with h2 | h2
      · exact Or.inl h2
      · right
        have := abs_le.mp (herr k)
        linarith
    · right
      have := abs_le.mp (herr (k + 1))
      linarith

end JF.Lifting
