import JF.Lemmas.DisplacementUphill
import Mathlib.Analysis.SpecialFunctions.Pow.Real
/-!
# Real-number reading of the displacement routines (`JF/Model/Potential/Displacement.lean`)

The executable model runs on `Float` with libm `pow`/`sqrt`.  Here the same routines are written over `ℝ`
(`Real.rpow`, `Real.sqrt`), textually parallel to the `Float` model (and hence to the Python/C source);
the tie between the two readings is by inspection plus the correspondence run of `harness/props/c02.py`.

Reduction used throughout: the routines touch the separation vector only through
`s` = its component along the direction of motion and `q` = the sum of the squares of the other
components (`vectors.norm_sq(sep) = s*s + q`, `copy_vector_with_replaced_component(sep, d, 0.0)` has squared norm
`0*0 + q`, `displacement_until_new_norm_sq_component_*` uses `s` and `q`).  A displacement `x` of the active
unit along its direction of motion changes `s` to `s - x` and leaves `q` alone.
-/
set_option linter.unusedVariables false
namespace JF.DispR
open Set JF.Uphill

noncomputable section

/-! ## inverse power potential -/

/-- `InversePowerPotential.potential` as a function of the squared norm `n2`:
`charge_product * prefactor / norm_sq ** (power / 2)`, `K = charge_product * prefactor` -/
def pot (K p n2 : ℝ) : ℝ := K / n2 ^ (p / 2)

/-- squared norm of the separation after the active unit has moved by `x` -/
def nsq (s q x : ℝ) : ℝ := (s - x) * (s - x) + q

/-- potential energy along the straight path -/
def path (K p s q : ℝ) (x : ℝ) : ℝ := pot K p (nsq s q x)

/-- `InversePowerPotential._displacement_repulsive` (`none` = `float('inf')`) -/
def dispRepulsive (K p s q dE : ℝ) : Option ℝ :=
  if s ≤ 0 then none
  else
    let maxPot := pot K p (0 * 0 + q)
    let cur := pot K p (s * s + q)
    if dE < maxPot - cur then
      some (s - Real.sqrt ((K / (cur + dE)) ^ (2 / p) - q))
    else none

/-- `InversePowerPotential._displacement_attractive` -/
def dispAttractive (K p s q dE : ℝ) : Option ℝ :=
  let cd := if 0 < s then 0 + s else 0
  let s' := if 0 < s then 0 else s
  let cur := pot K p (s' * s' + q)
  if cur + dE ≥ 0 then none
  else some (cd + (s' + Real.sqrt ((K / (cur + dE)) ^ (2 / p) - q)))

/-- `InversePowerPotential.standard_velocity_displacement`: `K = prefactor * charge_product` -/
def dispInvPow (K p s q dE : ℝ) : Option ℝ :=
  if K > 0 then dispRepulsive K p s q dE else dispAttractive K p s q dE

/-- the reduction to `(s, q)`: moving the active unit by `x` along the coordinate `d` changes the component
`d` of the separation to `v d - x`; the squared norm (`vectors.norm_sq`) of the new separation is
`nsq s q x` with `s = v d` and `q` the sum of the squares of the other components
(`sum([value ** 2 for index, value in enumerate(old_vector) if index != translation_direction])`). -/
theorem nsq_vector {ι : Type} [Fintype ι] [DecidableEq ι] (v : ι → ℝ) (d : ι) (x : ℝ) :
    ∑ i, Function.update v d (v d - x) i * Function.update v d (v d - x) i =
      nsq (v d) (∑ i ∈ Finset.univ.erase d, v i * v i) x := by
  unfold nsq
  rw [← Finset.add_sum_erase Finset.univ _ (Finset.mem_univ d), Function.update_self]
  congr 1
  apply Finset.sum_congr rfl
  intro i hi
  rw [Function.update_of_ne (Finset.ne_of_mem_erase hi)]


/-! ### elementary facts -/

theorem nsq_pos {s q x : ℝ} (hq : 0 < q) : 0 < nsq s q x := by
  unfold nsq; nlinarith [mul_self_nonneg (s - x)]

theorem nsq_zero (s q : ℝ) : nsq s q 0 = s * s + q := by simp [nsq]

theorem nsq_self (s q : ℝ) : nsq s q s = 0 * 0 + q := by simp [nsq]

theorem nsq_anti {s q x y : ℝ} (hxy : x ≤ y) (hy : y ≤ s) : nsq s q y ≤ nsq s q x := by
  unfold nsq; nlinarith

theorem nsq_mono {s q x y : ℝ} (hx : s ≤ x) (hxy : x ≤ y) : nsq s q x ≤ nsq s q y := by
  unfold nsq; nlinarith

/-- for `K > 0` the potential decreases with the distance -/
theorem pot_anti {K p u v : ℝ} (hK : 0 < K) (hp : 0 < p) (hu : 0 < u) (huv : u ≤ v) :
    pot K p v ≤ pot K p u := by
  unfold pot
  have h1 : u ^ (p / 2) ≤ v ^ (p / 2) := Real.rpow_le_rpow hu.le huv (by positivity)
  have h2 : 0 < u ^ (p / 2) := Real.rpow_pos_of_pos hu _
  exact div_le_div_of_nonneg_left hK.le h2 h1

theorem pot_neg (K p u : ℝ) : pot (-K) p u = -pot K p u := by unfold pot; ring

/-- for `K < 0` the potential increases with the distance -/
theorem pot_mono_of_neg {K p u v : ℝ} (hK : K < 0) (hp : 0 < p) (hu : 0 < u) (huv : u ≤ v) :
    pot K p u ≤ pot K p v := by
  have h := pot_anti (K := -K) (by linarith) hp hu huv
  rw [pot_neg, pot_neg] at h; linarith

theorem pot_pos {K p u : ℝ} (hK : 0 < K) (hu : 0 < u) : 0 < pot K p u :=
  div_pos hK (Real.rpow_pos_of_pos hu _)

theorem pot_neg_of_neg {K p u : ℝ} (hK : K < 0) (hu : 0 < u) : pot K p u < 0 :=
  div_neg_of_neg_of_pos hK (Real.rpow_pos_of_pos hu _)

/-- the code's inversion `norm_sq_new = (K / (U)) ** (2 / p)` hits the wanted potential -/
theorem pot_inv {K p y : ℝ} (hp : 0 < p) (h : 0 < K / y) : pot K p ((K / y) ^ (2 / p)) = y := by
  unfold pot
  rw [← Real.rpow_mul h.le]
  have : 2 / p * (p / 2) = 1 := by field_simp
  rw [this, Real.rpow_one]
  have hy : y ≠ 0 := by rintro rfl; simp at h
  have hK : K ≠ 0 := by rintro rfl; simp at h
  field_simp

/-- `K / pot K p u = u ^ (p/2)` -/
theorem div_pot {K p u : ℝ} (hK : K ≠ 0) (hu : 0 < u) : K / pot K p u = u ^ (p / 2) := by
  unfold pot
  have := (Real.rpow_pos_of_pos hu (p / 2)).ne'
  field_simp

theorem rpow_two_div {p u : ℝ} (hp : 0 < p) (hu : 0 ≤ u) : (u ^ (p / 2)) ^ (2 / p) = u := by
  rw [← Real.rpow_mul hu]
  have : p / 2 * (2 / p) = 1 := by field_simp
  rw [this, Real.rpow_one]

/-! ### shape of the path energy -/

theorem path_monoOn_of_pos {K p s q a b : ℝ} (hK : 0 < K) (hp : 0 < p) (hq : 0 < q) (hb : b ≤ s) :
    MonotoneOn (path K p s q) (Icc a b) := fun x hx y hy hxy =>
  pot_anti hK hp (nsq_pos hq) (nsq_anti hxy (hy.2.trans hb))

theorem path_antiOn_of_pos {K p s q a b : ℝ} (hK : 0 < K) (hp : 0 < p) (hq : 0 < q) (ha : s ≤ a) :
    AntitoneOn (path K p s q) (Icc a b) := fun x hx y _ hxy =>
  pot_anti hK hp (nsq_pos hq) (nsq_mono (ha.trans hx.1) hxy)

theorem path_antiOn_of_neg {K p s q a b : ℝ} (hK : K < 0) (hp : 0 < p) (hq : 0 < q) (hb : b ≤ s) :
    AntitoneOn (path K p s q) (Icc a b) := fun x _ y hy hxy =>
  pot_mono_of_neg hK hp (nsq_pos hq) (nsq_anti hxy (hy.2.trans hb))

theorem path_monoOn_of_neg {K p s q a b : ℝ} (hK : K < 0) (hp : 0 < p) (hq : 0 < q) (ha : s ≤ a) :
    MonotoneOn (path K p s q) (Icc a b) := fun x hx y _ hxy =>
  pot_mono_of_neg hK hp (nsq_pos hq) (nsq_mono (ha.trans hx.1) hxy)

/-! ## hard cores

Reduction: with `a = |v|²`, `b = v·s`, `c = |s|² - R²` the squared distance of the two centres at time
`t`, minus `R²`, is `|s - v t|² - R² = a t² - 2 b t + c` (`gap_expand` below proves this expansion for
vectors given as functions on a finite index type). -/

/-- `|s - v t|² - R²` in the reduced quantities -/
def gap (a b c t : ℝ) : ℝ := a * t * t - 2 * b * t + c

theorem gap_expand {ι : Type} [Fintype ι] (v s : ι → ℝ) (R2 t : ℝ) :
    (∑ i, (s i - v i * t) * (s i - v i * t)) - R2 =
      gap (∑ i, v i * v i) (∑ i, v i * s i) ((∑ i, s i * s i) - R2) t := by
  unfold gap
  have : ∀ i, (s i - v i * t) * (s i - v i * t) = v i * v i * t * t - 2 * (v i * s i) * t + s i * s i :=
    fun i => by ring
  simp only [this, Finset.sum_add_distrib, Finset.sum_sub_distrib, ← Finset.sum_mul, ← Finset.mul_sum]
  ring

/-- `HardSpherePotential.displacement`: `a = velocity_squared`, `b = velocity_dot_separation`,
`c = separation_squared - self._diameter_squared`; `none` = `inf` -/
def hardSphere (a b c : ℝ) : Option ℝ :=
  let root := b * b - a * c
  if root ≥ 0 ∧ b ≥ 0 then some ((b - Real.sqrt root) / a) else none

/-- `HardDipolePotential.displacement`: `cmin = separation_squared - minimum_separation_squared`,
`cmax = separation_squared - maximum_separation_squared` -/
def hardDipole (a b cmin cmax : ℝ) : ℝ :=
  if b ≥ 0 ∧ b * b - a * cmin ≥ 0 then (b - Real.sqrt (b * b - a * cmin)) / a
  else (b + Real.sqrt (b * b - a * cmax)) / a

/-- the smaller root is a root -/
theorem gap_root_minus {a b c : ℝ} (ha : 0 < a) (hD : 0 ≤ b * b - a * c) :
    gap a b c ((b - Real.sqrt (b * b - a * c)) / a) = 0 := by
  unfold gap
  have h := Real.mul_self_sqrt hD
  generalize Real.sqrt (b * b - a * c) = r at h ⊢
  field_simp
  nlinarith [h]

/-- the larger root is a root -/
theorem gap_root_plus {a b c : ℝ} (ha : 0 < a) (hD : 0 ≤ b * b - a * c) :
    gap a b c ((b + Real.sqrt (b * b - a * c)) / a) = 0 := by
  unfold gap
  have h := Real.mul_self_sqrt hD
  generalize Real.sqrt (b * b - a * c) = r at h ⊢
  field_simp
  nlinarith [h]

/-- factorisation of the gap through its two roots -/
theorem gap_factor {a b c : ℝ} (ha : 0 < a) (hD : 0 ≤ b * b - a * c) (t : ℝ) :
    gap a b c t = a * (t - (b - Real.sqrt (b * b - a * c)) / a) * (t - (b + Real.sqrt (b * b - a * c)) / a) := by
  unfold gap
  have h := Real.mul_self_sqrt hD
  generalize Real.sqrt (b * b - a * c) = r at h ⊢
  field_simp
  nlinarith [h]

/-- without a real root the gap is positive -/
theorem gap_pos_of_disc_neg {a b c : ℝ} (ha : 0 < a) (hD : b * b - a * c < 0) (t : ℝ) :
    0 < gap a b c t := by
  unfold gap
  have : 0 < a * (a * t * t - 2 * b * t + c) := by nlinarith [mul_self_nonneg (a * t - b)]
  exact (mul_pos_iff_of_pos_left ha).1 this

/-! ## C routine of the Coulomb bounding potential (`inverse_power_coulomb_bounding_potential.c`)

`q = sy*sy + sz*sz`; `K = prefactor_product`. -/

/-- C `potential` -/
def cbPot (K sx q : ℝ) : ℝ := K / Real.sqrt (sx * sx + q)

/-- the part of C `displacement()` after the whole-box laps have been taken out (`dE` is the remainder
budget `fmod(potential_change, potential_change_per_system_length)`) -/
def cbRemainder (K L sx q dE : ℝ) : ℝ :=
  let half := L / 2
  let cur := cbPot K sx q
  let pot0 := cbPot K 0 q
  let potHalf := cbPot K half q
  if K > 0 then
    if sx ≤ 0 then
      (half + sx) + (half - Real.sqrt ((K / (potHalf + dE)) * (K / (potHalf + dE)) - q))
    else if dE ≥ pot0 - cur then
      (sx + half) + (half - Real.sqrt ((K / (potHalf + (dE - (pot0 - cur)))) * (K / (potHalf + (dE - (pot0 - cur)))) - q))
    else
      sx - Real.sqrt ((K / (cur + dE)) * (K / (cur + dE)) - q)
  else
    if sx > 0 then
      sx + (0 + Real.sqrt ((K / (pot0 + dE)) * (K / (pot0 + dE)) - q))
    else if dE ≥ potHalf - cur then
      (sx + L) + (0 + Real.sqrt ((K / (pot0 + (dE - (potHalf - cur)))) * (K / (pot0 + (dE - (potHalf - cur)))) - q))
    else
      sx + Real.sqrt ((K / (cur + dE)) * (K / (cur + dE)) - q)

/-- `potential_change_per_system_length` -/
def cbPerLap (K L q : ℝ) : ℝ := |cbPot K 0 q - cbPot K (L / 2) q|

/-- C `displacement()`: `floor(dE / perLap) * L`, then the remainder stage with
`fmod(dE, perLap) = dE - floor(dE / perLap) * perLap` (for `dE ≥ 0`, `perLap > 0`) -/
def cbDisplacement (K L sx q dE : ℝ) : ℝ :=
  (⌊dE / cbPerLap K L q⌋ : ℝ) * L +
    cbRemainder K L sx q (dE - (⌊dE / cbPerLap K L q⌋ : ℝ) * cbPerLap K L q)

/-- C `non_negative` (repair `22b464f`): a rounding-negative argument of `sqrt` is replaced by zero -/
def cbNonNeg (x : ℝ) : ℝ := if x < 0 then 0 else x

/-- in the exact reading the clamp is invisible: `Real.sqrt` already is zero on negative numbers -/
theorem sqrt_cbNonNeg (x : ℝ) : Real.sqrt (cbNonNeg x) = Real.sqrt x := by
  unfold cbNonNeg
  split
  · rename_i h; rw [Real.sqrt_zero, Real.sqrt_eq_zero_of_nonpos h.le]
  · rfl

/-- the remainder stage as the code has it since the repair `22b464f` (`sqrt(non_negative(…))`) -/
def cbRemainderCode (K L sx q dE : ℝ) : ℝ :=
  let half := L / 2
  let cur := cbPot K sx q
  let pot0 := cbPot K 0 q
  let potHalf := cbPot K half q
  if K > 0 then
    if sx ≤ 0 then
      (half + sx) + (half - Real.sqrt (cbNonNeg ((K / (potHalf + dE)) * (K / (potHalf + dE)) - q)))
    else if dE ≥ pot0 - cur then
      (sx + half) + (half - Real.sqrt (cbNonNeg ((K / (potHalf + (dE - (pot0 - cur)))) * (K / (potHalf + (dE - (pot0 - cur)))) - q)))
    else
      sx - Real.sqrt (cbNonNeg ((K / (cur + dE)) * (K / (cur + dE)) - q))
  else
    if sx > 0 then
      sx + (0 + Real.sqrt (cbNonNeg ((K / (pot0 + dE)) * (K / (pot0 + dE)) - q)))
    else if dE ≥ potHalf - cur then
      (sx + L) + (0 + Real.sqrt (cbNonNeg ((K / (pot0 + (dE - (potHalf - cur)))) * (K / (pot0 + (dE - (potHalf - cur)))) - q)))
    else
      sx + Real.sqrt (cbNonNeg ((K / (cur + dE)) * (K / (cur + dE)) - q))

theorem cbRemainderCode_eq (K L sx q dE : ℝ) : cbRemainderCode K L sx q dE = cbRemainder K L sx q dE := by
  simp only [cbRemainderCode, cbRemainder, sqrt_cbNonNeg]

/-- C `displacement()` as it is since the repair `1b03a38`: the remainder budget `fmod(dE, perLap)` first, the number of
complete trips as `round((dE - remainder) / perLap)` -/
def cbDisplacementCode (K L sx q dE : ℝ) : ℝ :=
  let c := cbPerLap K L q
  let r := dE - (⌊dE / c⌋ : ℝ) * c          -- `fmod(dE, c)` for `dE ≥ 0`, `c > 0`
  (round ((dE - r) / c) : ℝ) * L + cbRemainderCode K L sx q r

/-- the repaired routine and the formulation `floor(dE / c) · L + remainder stage` agree in exact arithmetic (they differ only in
binary64, where `floor(dE / c)` and `fmod(dE, c)` could disagree) -/
theorem cbDisplacementCode_eq (K L sx q dE : ℝ) (hc : 0 < cbPerLap K L q) :
    cbDisplacementCode K L sx q dE = cbDisplacement K L sx q dE := by
  unfold cbDisplacementCode cbDisplacement
  have : (dE - (dE - (⌊dE / cbPerLap K L q⌋ : ℝ) * cbPerLap K L q)) / cbPerLap K L q = (⌊dE / cbPerLap K L q⌋ : ℝ) := by
    field_simp; ring
  simp only [this, round_intCast, cbRemainderCode_eq]

theorem cbPot_eq_pot (K sx q : ℝ) : cbPot K sx q = pot K 1 (sx * sx + q) := by
  unfold cbPot pot; rw [Real.sqrt_eq_rpow]

theorem rpow_two_div_one (x : ℝ) : x ^ ((2:ℝ) / 1) = x * x := by
  rw [div_one, Real.rpow_two, sq]

/-- `CellBoundingPotential.standard_velocity_displacement`: `dE / rate` if `rate > 0`, else `inf` -/
def cellBounding (rate dE : ℝ) : Option ℝ := if rate > 0 then some (dE / rate) else none

end
end JF.DispR
