import JF.Model.Walker
import JF.Lemmas.PyArith
import Mathlib.Algebra.BigOperators.Group.List.Basic
import Mathlib.Algebra.Order.BigOperators.Group.List
import Mathlib.Tactic.Linarith
import Mathlib.Tactic.Ring
import Mathlib.Tactic.FieldSimp
import Mathlib.Tactic.NormNum
/-!
Helper lemmas for C18: the exact reading (`Ops.rat`) of `Walker.__init__/_build_table`.
-/
namespace JF.Walker

/-! ### Python's compensated `sum` is the sum -/

theorem sumStep_rat (f x : ℚ) : sumStep Ops.rat (f, 0) x = (f + x, 0) := by
  simp only [sumStep]
  split <;> (refine Prod.ext rfl ?_; simp only; ring)

theorem foldl_sumStep_rat (l : List ℚ) (f : ℚ) : l.foldl (sumStep Ops.rat) (f, 0) = (f + l.sum, 0) := by
  induction l generalizing f with
  | nil => simp
  | cons x xs ih => simp only [List.foldl_cons, sumStep_rat, ih, List.sum_cons]; ring_nf

theorem pysum_rat (l : List ℚ) : pysum Ops.rat l = l.sum := by
  cases l with
  | nil => simp [pysum]
  | cons x xs =>
    simp only [pysum, rat_ofInt, Int.cast_zero, foldl_sumStep_rat, List.sum_cons]
    simp

/-! ### bookkeeping functions used to state the invariants -/

/-- sum of the rates on a stack -/
def sumRates (l : List (Item ℚ)) : ℚ := (l.map (·.rate)).sum

/-- the rate an item identifier currently carries on a stack -/
def rateOf (i : Nat) (l : List (Item ℚ)) : ℚ := (l.map fun it => if it.item = i then it.rate else 0).sum

/-- the length of the draw interval `(0, mean]` on which a row returns item `i` -/
def contrib (i : Nat) : Row ℚ → ℚ
  | .pair s l => (if s.item = i then s.rate else 0) + (if l.item = i then l.rate else 0)
  | .single x => if x.item = i then x.rate else 0

def contribRows (i : Nat) (rows : List (Row ℚ)) : ℚ := (rows.map (contrib i)).sum

/-- well-formed row of a table with mean rate `m` -/
def RowOK (m : ℚ) : Row ℚ → Prop
  | .pair s l => 0 ≤ s.rate ∧ s.rate ≤ m ∧ l.rate = m - s.rate ∧ s.item ≠ l.item
  | .single x => x.rate = m

@[simp] theorem sumRates_nil : sumRates [] = 0 := rfl
@[simp] theorem sumRates_cons (a : Item ℚ) (l) : sumRates (a :: l) = a.rate + sumRates l := by
  simp [sumRates]
@[simp] theorem rateOf_nil (i) : rateOf i [] = 0 := rfl
@[simp] theorem rateOf_cons (i) (a : Item ℚ) (l) :
    rateOf i (a :: l) = (if a.item = i then a.rate else 0) + rateOf i l := by
  simp [rateOf]
@[simp] theorem contribRows_nil (i) : contribRows i [] = 0 := rfl
@[simp] theorem contribRows_cons (i) (r : Row ℚ) (l) : contribRows i (r :: l) = contrib i r + contribRows i l := by
  simp [contribRows]
theorem contribRows_append (i) (a b : List (Row ℚ)) : contribRows i (a ++ b) = contribRows i a + contribRows i b := by
  simp [contribRows]
theorem sumRates_append (a b : List (Item ℚ)) : sumRates (a ++ b) = sumRates a + sumRates b := by
  simp [sumRates]
theorem rateOf_append (i) (a b : List (Item ℚ)) : rateOf i (a ++ b) = rateOf i a + rateOf i b := by
  simp [rateOf]
theorem sumRates_reverse (a : List (Item ℚ)) : sumRates a.reverse = sumRates a := by
  rw [sumRates, List.map_reverse, List.sum_reverse]; rfl
theorem rateOf_reverse (i) (a : List (Item ℚ)) : rateOf i a.reverse = rateOf i a := by
  rw [rateOf, List.map_reverse, List.sum_reverse]; rfl

/-! ### the pairing loop -/

/-- stack invariant of the pairing loop -/
def StackInv (m : ℚ) (S L : List (Item ℚ)) : Prop :=
  (∀ s ∈ S, 0 ≤ s.rate ∧ s.rate ≤ m) ∧ (∀ l ∈ L, m ≤ l.rate)

theorem pairLoop_step (m : ℚ) (fuel : Nat) (s : Item ℚ) (S : List (Item ℚ)) (l : Item ℚ) (L : List (Item ℚ)) :
    pairLoop m (fuel + 1) (s :: S) (l :: L) =
      (Row.pair s ⟨l.item, m - s.rate⟩ ::
        (if l.rate - (m - s.rate) < m then pairLoop m fuel (⟨l.item, l.rate - (m - s.rate)⟩ :: S) L
          else pairLoop m fuel S (⟨l.item, l.rate - (m - s.rate)⟩ :: L)).1,
       (if l.rate - (m - s.rate) < m then pairLoop m fuel (⟨l.item, l.rate - (m - s.rate)⟩ :: S) L
          else pairLoop m fuel S (⟨l.item, l.rate - (m - s.rate)⟩ :: L)).2.1,
       (if l.rate - (m - s.rate) < m then pairLoop m fuel (⟨l.item, l.rate - (m - s.rate)⟩ :: S) L
          else pairLoop m fuel S (⟨l.item, l.rate - (m - s.rate)⟩ :: L)).2.2) := by
  simp only [pairLoop]

theorem pairLoop_nil_left (m : ℚ) (fuel : Nat) (L : List (Item ℚ)) : pairLoop m fuel [] L = ([], [], L) := by
  cases fuel <;> simp [pairLoop]

theorem pairLoop_nil_right (m : ℚ) (fuel : Nat) (S : List (Item ℚ)) : pairLoop m fuel S [] = ([], S, []) := by
  cases fuel <;> cases S <;> simp [pairLoop]

/-- a property `P` of (rows, small, large) triples that holds when the loop stops and is preserved by
one iteration backwards holds for the loop's result -/
theorem pairLoop_induct (m : ℚ)
    (P : List (Item ℚ) → List (Item ℚ) → List (Row ℚ) × List (Item ℚ) × List (Item ℚ) → Prop)
    (stop : ∀ S L, P S L ([], S, L))
    (stepS : ∀ s S l L out, l.rate - (m - s.rate) < m → P (⟨l.item, l.rate - (m - s.rate)⟩ :: S) L out →
      P (s :: S) (l :: L) (Row.pair s ⟨l.item, m - s.rate⟩ :: out.1, out.2.1, out.2.2))
    (stepL : ∀ s S l L out, ¬ l.rate - (m - s.rate) < m → P S (⟨l.item, l.rate - (m - s.rate)⟩ :: L) out →
      P (s :: S) (l :: L) (Row.pair s ⟨l.item, m - s.rate⟩ :: out.1, out.2.1, out.2.2))
    (fuel : Nat) (S L : List (Item ℚ)) : P S L (pairLoop m fuel S L) := by
  induction fuel generalizing S L with
  | zero => simp only [pairLoop]; exact stop S L
  | succ f ih =>
    cases S with
    | nil => rw [pairLoop_nil_left]; exact stop [] L
    | cons s S =>
      cases L with
      | nil => rw [pairLoop_nil_right]; exact stop (s :: S) []
      | cons l L =>
        rw [pairLoop_step]
        by_cases h : l.rate - (m - s.rate) < m
        · simp only [h, if_true]; exact stepS s S l L _ h (ih _ _)
        · simp only [h, if_false]; exact stepL s S l L _ h (ih _ _)

/-- the number of rows plus the stack sizes is conserved -/
theorem pairLoop_len (m : ℚ) (fuel : Nat) (S L : List (Item ℚ)) :
    (pairLoop m fuel S L).1.length + (pairLoop m fuel S L).2.1.length + (pairLoop m fuel S L).2.2.length
      = S.length + L.length := by
  refine pairLoop_induct m (fun S L out => out.1.length + out.2.1.length + out.2.2.length = S.length + L.length)
    ?_ ?_ ?_ fuel S L
  · intro S L; simp
  · intro s S l L out _ h; simp only [List.length_cons] at h ⊢; omega
  · intro s S l L out _ h; simp only [List.length_cons] at h ⊢; omega

/-- every row takes exactly `m` out of the stacks -/
theorem pairLoop_sum (m : ℚ) (fuel : Nat) (S L : List (Item ℚ)) :
    sumRates (pairLoop m fuel S L).2.1 + sumRates (pairLoop m fuel S L).2.2 + (pairLoop m fuel S L).1.length * m
      = sumRates S + sumRates L := by
  refine pairLoop_induct m (fun S L out => sumRates out.2.1 + sumRates out.2.2 + out.1.length * m
      = sumRates S + sumRates L) ?_ ?_ ?_ fuel S L
  · intro S L; simp
  · intro s S l L out _ h
    simp only [sumRates_cons, List.length_cons, Nat.cast_add, Nat.cast_one] at h ⊢; linarith
  · intro s S l L out _ h
    simp only [sumRates_cons, List.length_cons, Nat.cast_add, Nat.cast_one] at h ⊢; linarith

/-- mass conservation per item identifier -/
theorem pairLoop_mass (m : ℚ) (i : Nat) (fuel : Nat) (S L : List (Item ℚ)) :
    contribRows i (pairLoop m fuel S L).1 + rateOf i (pairLoop m fuel S L).2.1 + rateOf i (pairLoop m fuel S L).2.2
      = rateOf i S + rateOf i L := by
  refine pairLoop_induct m (fun S L out => contribRows i out.1 + rateOf i out.2.1 + rateOf i out.2.2
      = rateOf i S + rateOf i L) ?_ ?_ ?_ fuel S L
  · intro S L; simp
  · intro s S l L out _ h
    simp only [rateOf_cons, contribRows_cons, contrib] at h ⊢
    by_cases h1 : s.item = i <;> by_cases h2 : l.item = i <;> simp only [h1, h2, if_true, if_false] at h ⊢ <;> linarith
  · intro s S l L out _ h
    simp only [rateOf_cons, contribRows_cons, contrib] at h ⊢
    by_cases h1 : s.item = i <;> by_cases h2 : l.item = i <;> simp only [h1, h2, if_true, if_false] at h ⊢ <;> linarith

/-- the stack invariant holds at exit -/
theorem pairLoop_inv (m : ℚ) (fuel : Nat) (S L : List (Item ℚ)) (h : StackInv m S L) :
    StackInv m (pairLoop m fuel S L).2.1 (pairLoop m fuel S L).2.2 := by
  refine pairLoop_induct m (fun S L out => StackInv m S L → StackInv m out.2.1 out.2.2) ?_ ?_ ?_ fuel S L h
  · intro S L h; exact h
  · intro s S l L out hlt ih h
    apply ih
    obtain ⟨hS, hL⟩ := h
    have hs := hS s (List.mem_cons_self)
    have hl := hL l (List.mem_cons_self)
    refine ⟨?_, fun x hx => hL x (List.mem_cons_of_mem _ hx)⟩
    intro x hx
    rcases List.mem_cons.mp hx with rfl | hx
    · simp only; constructor <;> linarith [hs.1, hs.2]
    · exact hS x (List.mem_cons_of_mem _ hx)
  · intro s S l L out hge ih h
    apply ih
    obtain ⟨hS, hL⟩ := h
    refine ⟨fun x hx => hS x (List.mem_cons_of_mem _ hx), ?_⟩
    intro x hx
    rcases List.mem_cons.mp hx with rfl | hx
    · simp only; linarith [not_lt.mp hge]
    · exact hL x (List.mem_cons_of_mem _ hx)

/-- the rows written by the loop are well formed (given pairwise distinct item identifiers) -/
theorem pairLoop_rows (m : ℚ) (fuel : Nat) (S L : List (Item ℚ)) (h : StackInv m S L)
    (hd : ((S ++ L).map (·.item)).Nodup) :
    ∀ row ∈ (pairLoop m fuel S L).1, RowOK m row := by
  refine pairLoop_induct m (fun S L out => StackInv m S L → ((S ++ L).map (·.item)).Nodup →
      ∀ row ∈ out.1, RowOK m row) ?_ ?_ ?_ fuel S L h hd
  · intro S L _ _ row hrow; simp at hrow
  · intro s S l L out hlt ih h hd row hrow
    obtain ⟨hS, hL⟩ := h
    have hs := hS s (List.mem_cons_self)
    have hl := hL l (List.mem_cons_self)
    have hne : s.item ≠ l.item := by
      simp only [List.cons_append, List.map_cons, List.map_append, List.nodup_cons, List.mem_append,
        List.mem_map, List.mem_cons] at hd
      intro e; apply hd.1; right; exact Or.inl e
    rcases List.mem_cons.mp hrow with rfl | hrow
    · exact ⟨hs.1, hs.2, rfl, hne⟩
    · refine ih ?_ ?_ row hrow
      · refine ⟨?_, fun x hx => hL x (List.mem_cons_of_mem _ hx)⟩
        intro x hx
        rcases List.mem_cons.mp hx with rfl | hx
        · simp only; constructor <;> linarith [hs.1, hs.2]
        · exact hS x (List.mem_cons_of_mem _ hx)
      · have : ((⟨l.item, l.rate - (m - s.rate)⟩ :: S ++ L : List (Item ℚ)).map (·.item)).Perm
            ((S ++ l :: L).map (·.item)) := by
          simp only [List.cons_append, List.map_cons, List.map_append]
          exact (List.perm_middle).symm
        refine this.nodup_iff.mpr ?_
        simp only [List.cons_append, List.map_cons, List.nodup_cons] at hd
        exact hd.2
  · intro s S l L out hge ih h hd row hrow
    obtain ⟨hS, hL⟩ := h
    have hs := hS s (List.mem_cons_self)
    have hl := hL l (List.mem_cons_self)
    have hne : s.item ≠ l.item := by
      simp only [List.cons_append, List.map_cons, List.map_append, List.nodup_cons, List.mem_append,
        List.mem_map, List.mem_cons] at hd
      intro e; apply hd.1; right; exact Or.inl e
    rcases List.mem_cons.mp hrow with rfl | hrow
    · exact ⟨hs.1, hs.2, rfl, hne⟩
    · refine ih ?_ ?_ row hrow
      · refine ⟨fun x hx => hS x (List.mem_cons_of_mem _ hx), ?_⟩
        intro x hx
        rcases List.mem_cons.mp hx with rfl | hx
        · simp only; linarith [not_lt.mp hge]
        · exact hL x (List.mem_cons_of_mem _ hx)
      · have : ((S ++ ⟨l.item, l.rate - (m - s.rate)⟩ :: L : List (Item ℚ)).map (·.item)) =
            ((S ++ l :: L).map (·.item)) := by simp
        rw [this]
        simp only [List.cons_append, List.map_cons, List.nodup_cons] at hd
        exact hd.2

/-- termination: with fuel `|small| + |large|` the loop stops because one stack is empty -/
theorem pairLoop_done (m : ℚ) (fuel : Nat) (S L : List (Item ℚ)) (h : S.length + L.length ≤ fuel) :
    (pairLoop m fuel S L).2.1 = [] ∨ (pairLoop m fuel S L).2.2 = [] := by
  induction fuel generalizing S L with
  | zero =>
    have : S = [] := List.eq_nil_of_length_eq_zero (by omega)
    left; simp [pairLoop, this]
  | succ f ih =>
    cases S with
    | nil => left; rw [pairLoop_nil_left]
    | cons s S =>
      cases L with
      | nil => right; rw [pairLoop_nil_right]
      | cons l L =>
        rw [pairLoop_step]
        simp only [List.length_cons] at h
        by_cases hlt : l.rate - (m - s.rate) < m
        · simp only [hlt, if_true]; exact ih _ _ (by simp only [List.length_cons]; omega)
        · simp only [hlt, if_false]; exact ih _ _ (by simp only [List.length_cons]; omega)

/-- more fuel does not change the result once it suffices -/
theorem pairLoop_fuel (m : ℚ) (fuel k : Nat) (S L : List (Item ℚ)) (h : S.length + L.length ≤ fuel) :
    pairLoop m (fuel + k) S L = pairLoop m fuel S L := by
  induction fuel generalizing S L with
  | zero =>
    have hS : S = [] := List.eq_nil_of_length_eq_zero (by omega)
    subst hS; rw [pairLoop_nil_left, pairLoop_nil_left]
  | succ f ih =>
    cases S with
    | nil => rw [pairLoop_nil_left, pairLoop_nil_left]
    | cons s S =>
      cases L with
      | nil => rw [pairLoop_nil_right, pairLoop_nil_right]
      | cons l L =>
        have e : f + 1 + k = (f + k) + 1 := by omega
        rw [e, pairLoop_step, pairLoop_step]
        simp only [List.length_cons] at h
        by_cases hlt : l.rate - (m - s.rate) < m
        · simp only [hlt, if_true]; rw [ih _ _ (by simp only [List.length_cons]; omega)]
        · simp only [hlt, if_false]; rw [ih _ _ (by simp only [List.length_cons]; omega)]

/-! ### exactness of the left-overs -/

theorem sumRates_le (m : ℚ) (l : List (Item ℚ)) (h : ∀ x ∈ l, x.rate ≤ m) : sumRates l ≤ l.length * m := by
  induction l with
  | nil => simp
  | cons a l ih =>
    simp only [sumRates_cons, List.length_cons, Nat.cast_add, Nat.cast_one]
    have := h a List.mem_cons_self
    have := ih fun x hx => h x (List.mem_cons_of_mem _ hx)
    linarith

theorem sumRates_ge (m : ℚ) (l : List (Item ℚ)) (h : ∀ x ∈ l, m ≤ x.rate) : (l.length : ℚ) * m ≤ sumRates l := by
  induction l with
  | nil => simp
  | cons a l ih =>
    simp only [sumRates_cons, List.length_cons, Nat.cast_add, Nat.cast_one]
    have := h a List.mem_cons_self
    have := ih fun x hx => h x (List.mem_cons_of_mem _ hx)
    linarith

theorem all_eq_of_sum_le (m : ℚ) (l : List (Item ℚ)) (h : ∀ x ∈ l, x.rate ≤ m)
    (hs : sumRates l = l.length * m) : ∀ x ∈ l, x.rate = m := by
  induction l with
  | nil => intro x hx; simp at hx
  | cons a l ih =>
    simp only [sumRates_cons, List.length_cons, Nat.cast_add, Nat.cast_one] at hs
    have ha := h a List.mem_cons_self
    have hl := sumRates_le m l fun x hx => h x (List.mem_cons_of_mem _ hx)
    intro x hx
    rcases List.mem_cons.mp hx with rfl | hx
    · linarith
    · exact ih (fun x hx => h x (List.mem_cons_of_mem _ hx)) (by linarith) x hx

theorem all_eq_of_sum_ge (m : ℚ) (l : List (Item ℚ)) (h : ∀ x ∈ l, m ≤ x.rate)
    (hs : sumRates l = l.length * m) : ∀ x ∈ l, x.rate = m := by
  induction l with
  | nil => intro x hx; simp at hx
  | cons a l ih =>
    simp only [sumRates_cons, List.length_cons, Nat.cast_add, Nat.cast_one] at hs
    have ha := h a List.mem_cons_self
    have hl := sumRates_ge m l fun x hx => h x (List.mem_cons_of_mem _ hx)
    intro x hx
    rcases List.mem_cons.mp hx with rfl | hx
    · linarith
    · exact ih (fun x hx => h x (List.mem_cons_of_mem _ hx)) (by linarith) x hx

/-- the assertion of the left-over loops holds and each left-over becomes a one-entry row -/
theorem leftover_rat (m : ℚ) (hm : 0 < m) (l : List (Item ℚ)) (h : ∀ x ∈ l, x.rate = m) :
    leftover Ops.rat m l = .ok (l.map fun it => Row.single ⟨it.item, m⟩) := by
  induction l with
  | nil => simp [leftover]
  | cons a l ih =>
    have ha := h a List.mem_cons_self
    have hne : m ≠ 0 := ne_of_gt hm
    have hq : a.rate / m = 1 := by rw [ha]; exact div_self hne
    simp only [leftover, rat_ofInt, Int.cast_zero, beq_iff_eq, hne, if_false, hq, eps6, Int.cast_one, Int.cast_ofNat,
      ih fun x hx => h x (List.mem_cons_of_mem _ hx), List.map_cons]
    norm_num

end JF.Walker

namespace JF.Walker

/-! ### the initial split -/

theorem mkItems_items (k : Nat) (rates : List ℚ) : (mkItems k rates).map (·.item) = List.range' k rates.length := by
  induction rates generalizing k with
  | nil => simp [mkItems]
  | cons r rs ih => simp [mkItems, ih, List.range'_succ]

theorem mkItems_length (k : Nat) (rates : List ℚ) : (mkItems k rates).length = rates.length := by
  induction rates generalizing k with
  | nil => simp [mkItems]
  | cons r rs ih => simp [mkItems, ih]

theorem mkItems_sum (k : Nat) (rates : List ℚ) : sumRates (mkItems k rates) = rates.sum := by
  induction rates generalizing k with
  | nil => simp [mkItems]
  | cons r rs ih => simp [mkItems, ih]

theorem mkItems_mem (k : Nat) (rates : List ℚ) : ∀ it ∈ mkItems k rates, it.rate ∈ rates := by
  induction rates generalizing k with
  | nil => simp [mkItems]
  | cons r rs ih =>
    intro it hit
    simp only [mkItems, List.mem_cons] at hit ⊢
    rcases hit with rfl | hit
    · left; rfl
    · right; exact ih _ it hit

theorem mkItems_rateOf (k i : Nat) (rates : List ℚ) :
    rateOf i (mkItems k rates) = if k ≤ i then rates.getD (i - k) 0 else 0 := by
  induction rates generalizing k with
  | nil => simp [mkItems]
  | cons r rs ih =>
    simp only [mkItems, rateOf_cons, ih]
    by_cases h1 : k = i
    · subst h1; simp
    · by_cases h2 : k ≤ i
      · have h3 : k + 1 ≤ i := by omega
        have h4 : i - k = (i - (k + 1)) + 1 := by omega
        simp only [h1, h2, h3, if_true, if_false, zero_add]
        rw [h4, List.getD_cons_succ]
      · have h3 : ¬ k + 1 ≤ i := by omega
        simp [h1, h2, h3]

theorem split_sum (m : ℚ) (items : List (Item ℚ)) :
    sumRates (smallOf m items) + sumRates (largeOf m items) = sumRates items := by
  simp only [smallOf, largeOf, sumRates_reverse]
  induction items with
  | nil => simp
  | cons a l ih =>
    by_cases h : m < a.rate <;> simp [h] <;> linarith

theorem split_rateOf (m : ℚ) (i : Nat) (items : List (Item ℚ)) :
    rateOf i (smallOf m items) + rateOf i (largeOf m items) = rateOf i items := by
  simp only [smallOf, largeOf, rateOf_reverse]
  induction items with
  | nil => simp
  | cons a l ih =>
    by_cases h : m < a.rate <;> simp [h] <;> linarith

theorem split_length (m : ℚ) (items : List (Item ℚ)) :
    (smallOf m items).length + (largeOf m items).length = items.length := by
  simp only [smallOf, largeOf, List.length_reverse]
  induction items with
  | nil => simp
  | cons a l ih =>
    by_cases h : m < a.rate <;> simp [h] <;> omega

theorem split_inv (m : ℚ) (items : List (Item ℚ)) (h0 : ∀ it ∈ items, 0 ≤ it.rate) :
    StackInv m (smallOf m items) (largeOf m items) := by
  constructor
  · intro s hs
    simp only [smallOf, List.mem_reverse, List.mem_filter, Bool.not_eq_true', decide_eq_false_iff_not, not_lt] at hs
    exact ⟨h0 s hs.1, hs.2⟩
  · intro l hl
    simp only [largeOf, List.mem_reverse, List.mem_filter, decide_eq_true_eq] at hl
    exact le_of_lt hl.2

theorem split_perm (m : ℚ) (items : List (Item ℚ)) : (smallOf m items ++ largeOf m items).Perm items := by
  simp only [smallOf, largeOf]
  refine ((List.reverse_perm _).append (List.reverse_perm _)).trans ?_
  have := List.filter_append_perm (fun it : Item ℚ => decide (m < it.rate)) items
  refine (List.perm_append_comm).trans ?_
  convert this using 2

/-! ### the constructor in the exact reading -/

/-- what `Walker.__init__` establishes (exact reading) -/
structure BuildSpec (rates : List ℚ) (t : Table ℚ) : Prop where
  total : t.total = rates.sum
  mean : t.mean = rates.sum / rates.length
  len : t.rows.length = rates.length
  rows : ∀ row ∈ t.rows, RowOK t.mean row
  mass : ∀ i, contribRows i t.rows = rates.getD i 0

theorem contribRows_singles (i : Nat) (m : ℚ) (l : List (Item ℚ)) (h : ∀ x ∈ l, x.rate = m) :
    contribRows i (l.map fun it => Row.single ⟨it.item, m⟩) = rateOf i l := by
  induction l with
  | nil => simp
  | cons a l ih =>
    simp only [List.map_cons, contribRows_cons, contrib, rateOf_cons,
      ih fun x hx => h x (List.mem_cons_of_mem _ hx), h a List.mem_cons_self]

/-- **left-overs are exact**: when the pairing loop stops (one stack is empty), every item still on a stack
has rate exactly the mean rate — so the two `assert 1-1e-6 < rate/mean < 1+1e-6` hold with `rate/mean = 1` -/
theorem leftovers_exact (rates : List ℚ) (hne : rates ≠ []) (h0 : ∀ r ∈ rates, 0 ≤ r) (hpos : 0 < rates.sum) :
    let m := rates.sum / rates.length
    let out := pairLoop m rates.length (smallOf m (mkItems 0 rates)) (largeOf m (mkItems 0 rates))
    (out.2.1 = [] ∨ out.2.2 = []) ∧ (∀ x ∈ out.2.1, x.rate = m) ∧ (∀ x ∈ out.2.2, x.rate = m) := by
  intro m' out'
  have hm'' : m' = rates.sum / rates.length := rfl
  have hout'' : out' = pairLoop m' rates.length (smallOf m' (mkItems 0 rates)) (largeOf m' (mkItems 0 rates)) := rfl
  clear_value m' out'
  subst hm''
  subst hout''
  have hlen : 0 < rates.length := List.length_pos_iff.mpr hne
  have hnpos : (0:ℚ) < rates.length := by exact_mod_cast hlen
  set m : ℚ := rates.sum / rates.length with hm
  have hmpos : 0 < m := div_pos hpos hnpos
  have hnm : (rates.length : ℚ) * m = rates.sum := by rw [hm]; field_simp
  set items := mkItems 0 rates with hitems
  set out := pairLoop m rates.length (smallOf m items) (largeOf m items) with hout
  have hitems0 : ∀ it ∈ items, 0 ≤ it.rate := fun it hit => h0 _ (mkItems_mem 0 rates it hit)
  have hinv0 := split_inv m items hitems0
  have hlen0 : (smallOf m items).length + (largeOf m items).length = rates.length := by
    rw [split_length, hitems, mkItems_length]
  have hdone := pairLoop_done m rates.length _ _ (le_of_eq hlen0)
  have hinv := pairLoop_inv m rates.length _ _ hinv0
  have hsum := pairLoop_sum m rates.length (smallOf m items) (largeOf m items)
  have hl := pairLoop_len m rates.length (smallOf m items) (largeOf m items)
  rw [← hout] at hdone hinv hsum hl
  rw [split_sum, hitems, mkItems_sum, ← hnm] at hsum
  rw [hlen0] at hl
  have hcast : (out.1.length : ℚ) + out.2.1.length + out.2.2.length = rates.length := by exact_mod_cast hl
  have hrem : sumRates out.2.1 + sumRates out.2.2 = (out.2.1.length + out.2.2.length : ℚ) * m := by
    have : (rates.length : ℚ) * m = (out.1.length + out.2.1.length + out.2.2.length : ℚ) * m := by rw [hcast]
    linarith
  -- both left-over lists consist of items with rate exactly `m`
  have hboth : (∀ x ∈ out.2.1, x.rate = m) ∧ (∀ x ∈ out.2.2, x.rate = m) := by
    rcases hdone with hS | hL
    · refine ⟨by rw [hS]; intro x hx; simp at hx, ?_⟩
      rw [hS] at hrem
      simp only [sumRates_nil, List.length_nil, Nat.cast_zero, zero_add] at hrem
      exact all_eq_of_sum_ge m _ hinv.2 hrem
    · refine ⟨?_, by rw [hL]; intro x hx; simp at hx⟩
      rw [hL] at hrem
      simp only [sumRates_nil, List.length_nil, Nat.cast_zero, add_zero] at hrem
      exact all_eq_of_sum_le m _ (fun x hx => (hinv.1 x hx).2) hrem
  exact ⟨hdone, hboth⟩

theorem build_rat (rates : List ℚ) (hne : rates ≠ []) (h0 : ∀ r ∈ rates, 0 ≤ r) (hpos : 0 < rates.sum) :
    ∃ t, build Ops.rat rates = .ok t ∧ BuildSpec rates t := by
  obtain ⟨r, rs, rfl⟩ := List.exists_cons_of_ne_nil hne
  generalize hR : r :: rs = rates at *
  have hlen : 0 < rates.length := by rw [← hR]; simp
  have hnpos : (0:ℚ) < rates.length := by exact_mod_cast hlen
  set m : ℚ := rates.sum / rates.length with hm
  have hmpos : 0 < m := div_pos hpos hnpos
  set items := mkItems 0 rates with hitems
  set out := pairLoop m rates.length (smallOf m items) (largeOf m items) with hout
  have hitems0 : ∀ it ∈ items, 0 ≤ it.rate := fun it hit => h0 _ (mkItems_mem 0 rates it hit)
  have hinv0 := split_inv m items hitems0
  have hlen0 : (smallOf m items).length + (largeOf m items).length = rates.length := by
    rw [split_length, hitems, mkItems_length]
  have hl := pairLoop_len m rates.length (smallOf m items) (largeOf m items)
  rw [← hout, hlen0] at hl
  obtain ⟨-, hboth1, hboth2⟩ := leftovers_exact rates hne h0 hpos
  have hboth : (∀ x ∈ out.2.1, x.rate = m) ∧ (∀ x ∈ out.2.2, x.rate = m) := ⟨hboth1, hboth2⟩
  have hall : (rates.all fun r => decide (((0:ℤ):ℚ) ≤ r)) = true := by
    simp only [List.all_eq_true, decide_eq_true_eq, Int.cast_zero]; exact h0
  have hb : build Ops.rat rates = .ok ⟨rates.sum, m, out.1 ++ (out.2.1.map fun it => Row.single ⟨it.item, m⟩)
      ++ (out.2.2.map fun it => Row.single ⟨it.item, m⟩)⟩ := by
    rw [← hR]
    simp only [build]
    rw [hR]
    simp only [pysum_rat, rat_ofInt]
    simp only [Int.cast_natCast, ← hm, ← hitems, ← hout, leftover_rat m hmpos _ hboth.1, leftover_rat m hmpos _ hboth.2]
    rw [if_neg]
    simpa using h0
  refine ⟨_, hb, ⟨rfl, rfl, ?_, ?_, ?_⟩⟩
  · simp only [List.length_append, List.length_map]; omega
  · intro row hrow
    simp only [List.mem_append, List.mem_map] at hrow
    rcases hrow with (hrow | ⟨it, _, rfl⟩) | ⟨it, _, rfl⟩
    · refine pairLoop_rows m rates.length _ _ hinv0 ?_ row hrow
      refine ((split_perm m items).map _).nodup_iff.mpr ?_
      rw [hitems, mkItems_items]; exact List.nodup_range'
    · rfl
    · rfl
  · intro i
    have hmass := pairLoop_mass m i rates.length (smallOf m items) (largeOf m items)
    rw [← hout, split_rateOf, hitems, mkItems_rateOf] at hmass
    simp only [contribRows_append, contribRows_singles i m _ hboth.1, contribRows_singles i m _ hboth.2]
    simpa using hmass

end JF.Walker
