import JF.Model.Lifting
import Mathlib.Algebra.Order.Field.Basic
import Mathlib.Algebra.BigOperators.Intervals
import Mathlib.Tactic.Linarith
import Mathlib.Tactic.Ring
import Mathlib.Tactic.FieldSimp
import Mathlib.Tactic.Push
/-!
Helper lemmas for C05: the exact reading of `JF.Model.Lifting` over an arbitrary linearly ordered
field `K` (any `Ops K` whose literal `0` is the field's zero).

* `neumaier_exact`, `pySum_exact`  : CPython's compensated `sum()` is the plain sum in exact arithmetic;
* `fill_eq`                        : the state after `reset` + the insertion loop;
* `walkIdx_eq_some_iff`, `walkIdx_eq_none_iff` : what the common loop of the three schemes returns;
* `overlap_sum`                    : consecutive intervals of lengths `q_a` tile, so their overlaps with a
                                     fixed interval add up to the overlap of the union.
-/
namespace JF.Lifting
set_option linter.unusedSectionVars false

variable {K : Type} [Field K] [LinearOrder K] [IsStrictOrderedRing K] {ι : Type}

/-! ### specification vocabulary -/

/-- the list of non-positive entries of a table, negated, in insertion order: what `insert` builds in
`_negative_lifting_rates` / `_associated_identifiers` -/
def negOf : List (K × ι) → List (K × ι)
  | [] => []
  | (r, i) :: t => if 0 < r then negOf t else (-r, i) :: negOf t

/-- sum of the positive entries of a table -/
def posSum : List (K × ι) → K
  | [] => 0
  | (r, _) :: t => if 0 < r then r + posSum t else posSum t

/-- sum of the first components -/
def total (l : List (K × ι)) : K := (l.map Prod.fst).sum

/-- `N_{k-1}`: sum of the first `k` entries (`cumB l 0 = 0`, `cumB l (k+1) = N_k`) -/
def cumB (l : List (K × ι)) (k : Nat) : K := total (l.take k)

/-- all entries non-negative -/
def NonNeg (l : List (K × ι)) : Prop := ∀ e ∈ l, 0 ≤ e.1

@[simp] theorem total_nil : total ([] : List (K × ι)) = 0 := rfl
@[simp] theorem total_cons (e : K × ι) (l : List (K × ι)) : total (e :: l) = e.1 + total l := by
  simp [total]
@[simp] theorem cumB_zero (l : List (K × ι)) : cumB l 0 = 0 := by simp [cumB]
@[simp] theorem cumB_nil (k : Nat) : cumB ([] : List (K × ι)) k = 0 := by simp [cumB]
@[simp] theorem cumB_cons_succ (e : K × ι) (l : List (K × ι)) (k : Nat) :
    cumB (e :: l) (k + 1) = e.1 + cumB l k := by simp [cumB]

theorem cumB_length (l : List (K × ι)) : cumB l l.length = total l := by simp [cumB]

theorem cumB_of_length_le (l : List (K × ι)) {k : Nat} (h : l.length ≤ k) : cumB l k = total l := by
  simp [cumB, List.take_of_length_le h]

theorem NonNeg.tail {e : K × ι} {l : List (K × ι)} (h : NonNeg (e :: l)) : NonNeg l :=
  fun x hx => h x (List.mem_cons_of_mem _ hx)

theorem NonNeg.head {e : K × ι} {l : List (K × ι)} (h : NonNeg (e :: l)) : 0 ≤ e.1 :=
  h e List.mem_cons_self

theorem total_nonneg {l : List (K × ι)} (h : NonNeg l) : 0 ≤ total l := by
  induction l with
  | nil => simp
  | cons e t ih => rw [total_cons]; linarith [h.head, ih h.tail]

theorem cumB_nonneg {l : List (K × ι)} (h : NonNeg l) (k : Nat) : 0 ≤ cumB l k :=
  total_nonneg fun e he => h e (List.mem_of_mem_take he)

theorem cumB_mono {l : List (K × ι)} (h : NonNeg l) : ∀ {j k : Nat}, j ≤ k → cumB l j ≤ cumB l k := by
  induction l with
  | nil => intro j k _; simp
  | cons e t ih =>
    intro j k hjk
    cases j with
    | zero => simpa using cumB_nonneg h k
    | succ j =>
      cases k with
      | zero => omega
      | succ k => simp only [cumB_cons_succ]; linarith [ih h.tail (Nat.le_of_succ_le_succ hjk)]

theorem cumB_le_total {l : List (K × ι)} (h : NonNeg l) (k : Nat) : cumB l k ≤ total l := by
  rcases Nat.le_total k l.length with hk | hk
  · rw [← cumB_length]; exact cumB_mono h hk
  · rw [cumB_of_length_le l hk]

theorem cumB_succ (l : List (K × ι)) {k : Nat} (hk : k < l.length) :
    cumB l (k + 1) = cumB l k + (l[k]).1 := by
  induction l generalizing k with
  | nil => simp at hk
  | cons e t ih =>
    cases k with
    | zero => simp
    | succ k =>
      have hk' : k < t.length := by simpa using hk
      simp only [cumB_cons_succ, List.getElem_cons_succ, ih hk']; ring

theorem negOf_nonneg (tbl : List (K × ι)) : NonNeg (negOf tbl) := by
  induction tbl with
  | nil => intro e he; simp [negOf] at he
  | cons x t ih =>
    obtain ⟨r, i⟩ := x
    unfold negOf
    split
    · exact ih
    · next h =>
      intro e he
      rcases List.mem_cons.mp he with rfl | he
      · simp only; linarith [not_lt.mp h]
      · exact ih e he

/-- an entry of the negative list comes from a non-positive entry of the table -/
theorem mem_negOf {tbl : List (K × ι)} {n : K} {i : ι} :
    (n, i) ∈ negOf tbl ↔ (-n, i) ∈ tbl ∧ 0 ≤ n := by
  induction tbl with
  | nil => simp [negOf]
  | cons x t ih =>
    obtain ⟨r, j⟩ := x
    unfold negOf
    split
    · next h =>
      rw [ih]
      constructor
      · rintro ⟨h1, h2⟩; exact ⟨List.mem_cons_of_mem _ h1, h2⟩
      · rintro ⟨h1, h2⟩
        rcases List.mem_cons.mp h1 with h1 | h1
        · have : r = -n := (Prod.mk.inj h1).1.symm
          exfalso; linarith
        · exact ⟨h1, h2⟩
    · next h =>
      rw [List.mem_cons, ih]
      constructor
      · rintro (h1 | ⟨h1, h2⟩)
        · obtain ⟨h1, h2⟩ := Prod.mk.inj h1
          subst h1 h2
          exact ⟨by simp, by linarith [not_lt.mp h]⟩
        · exact ⟨List.mem_cons_of_mem _ h1, h2⟩
      · rintro ⟨h1, h2⟩
        rcases List.mem_cons.mp h1 with h1 | h1
        · left
          obtain ⟨e1, e2⟩ := Prod.mk.inj h1
          subst e1 e2; simp
        · exact Or.inr ⟨h1, h2⟩

/-- the table sums to zero iff positive and negative parts balance -/
theorem total_eq_posSum_sub (tbl : List (K × ι)) : total tbl = posSum tbl - total (negOf tbl) := by
  induction tbl with
  | nil => simp [posSum, negOf]
  | cons x t ih =>
    obtain ⟨r, i⟩ := x
    unfold posSum negOf
    split <;> simp [ih] <;> ring

theorem posSum_nonneg (tbl : List (K × ι)) : 0 ≤ posSum tbl := by
  induction tbl with
  | nil => simp [posSum]
  | cons x t ih =>
    obtain ⟨r, i⟩ := x
    unfold posSum
    split
    · next h => linarith
    · exact ih

theorem posSum_take_le (tbl : List (K × ι)) (a : Nat) : posSum (tbl.take a) ≤ posSum tbl := by
  induction tbl generalizing a with
  | nil => simp
  | cons x t ih =>
    obtain ⟨r, i⟩ := x
    cases a with
    | zero => simpa [posSum] using posSum_nonneg ((r, i) :: t)
    | succ a =>
      simp only [List.take_succ_cons]
      unfold posSum
      split
      · linarith [ih a]
      · exact ih a

/-- positive rates before `a`, the active rate and what follows never exceed the sum of all positive rates -/
theorem posSum_take_add_le (tbl : List (K × ι)) {a : Nat} (ha : a < tbl.length) (hq : 0 < (tbl[a]).1) :
    posSum (tbl.take a) + (tbl[a]).1 ≤ posSum tbl := by
  induction tbl generalizing a with
  | nil => simp at ha
  | cons x t ih =>
    obtain ⟨r, i⟩ := x
    cases a with
    | zero =>
      simp only [List.getElem_cons_zero] at hq
      simp only [List.take_zero, List.getElem_cons_zero]
      unfold posSum
      simp only [hq, if_true]
      linarith [posSum_nonneg t]
    | succ a =>
      have ha' : a < t.length := by simpa using ha
      simp only [List.getElem_cons_succ] at hq ⊢
      simp only [List.take_succ_cons]
      have := ih ha' hq
      unfold posSum
      split <;> linarith

/-! ### CPython's compensated `sum()` in exact arithmetic -/

section ops
variable (o : Ops K)

theorem neumaier_exact (h0 : o.ofInt 0 = 0) (xs : List K) (f : K) :
    neumaier o xs f 0 = f + xs.sum := by
  induction xs generalizing f with
  | nil => simp [neumaier, h0]
  | cons x t ih =>
    unfold neumaier
    have h1 : (0 : K) + (f - (f + x) + x) = 0 := by ring
    have h2 : (0 : K) + (x - (f + x) + f) = 0 := by ring
    simp only [h1, h2, ite_self, ih, List.sum_cons]
    ring

theorem pySum_exact (h0 : o.ofInt 0 = 0) (xs : List K) : pySum o xs = xs.sum := by
  cases xs with
  | nil => simp [pySum, h0]
  | cons x t =>
    simp only [pySum, h0, List.sum_cons]
    rw [neumaier_exact o h0 t]
    ring

theorem pyUniform_zero (h0 : o.ofInt 0 = 0) (b u : K) : pyUniform (o.ofInt 0) b u = b * u := by
  simp [pyUniform, h0]

/-! ### the insertion loop -/

/-- after the active unit has been recorded: positives only add to `sumPos`, the rest is appended -/
theorem fillFrom_after (h0 : o.ofInt 0 = 0) (a : Nat) (u : K) (t : List (K × ι)) :
    ∀ (i : Nat) (s : Lifting K ι), a < i → s.recorded = true →
      fillFrom o a u i s t = .ok ⟨s.neg ++ negOf t, s.pos, s.sumPos + posSum t, true⟩ := by
  induction t with
  | nil => intro i s _ hr; cases s; simp_all [fillFrom, negOf, posSum]
  | cons x t ih =>
    intro i s hi hr
    obtain ⟨r, id⟩ := x
    have hne : (i == a) = false := by simp; omega
    unfold fillFrom insert
    simp only [h0, hne, hr]
    by_cases hpos : 0 < r
    · simp only [hpos, if_true, Bool.false_eq_true, if_false, Bool.not_true]
      rw [ih (i + 1) _ (by omega) rfl]
      simp [negOf, posSum, hpos, add_assoc]
    · simp only [hpos, if_false, Bool.false_eq_true]
      rw [ih (i + 1) _ (by omega) rfl]
      simp [negOf, posSum, hpos]

/-- before the active unit: positives add to the position as well -/
theorem fillFrom_before (h0 : o.ofInt 0 = 0) (a : Nat) (u : K) (t : List (K × ι)) :
    ∀ (i j : Nat) (s : Lifting K ι) (hj : j < t.length), a = i + j → s.recorded = false → 0 < (t[j]).1 →
      fillFrom o a u i s t =
        .ok ⟨s.neg ++ negOf t, s.pos + posSum (t.take j) + (t[j]).1 * u, s.sumPos + posSum t, true⟩ := by
  induction t with
  | nil => intro i j s hj; simp at hj
  | cons x t ih =>
    intro i j s hj ha hr hq
    obtain ⟨r, id⟩ := x
    cases j with
    | zero =>
      have he : (i == a) = true := by simp; omega
      simp only [List.getElem_cons_zero] at hq
      unfold fillFrom insert
      simp only [h0, he, hq, if_true]
      rw [fillFrom_after o h0 a u t (i + 1) _ (by omega) rfl]
      simp [posSum, negOf, hq, pyUniform, add_assoc]
    | succ j =>
      have hne : (i == a) = false := by simp; omega
      have hj' : j < t.length := by simpa using hj
      simp only [List.getElem_cons_succ] at hq
      unfold fillFrom insert
      simp only [h0, hne, hr]
      by_cases hpos : 0 < r
      · simp only [hpos, if_true, Bool.false_eq_true, if_false, Bool.not_false]
        rw [ih (i + 1) j _ hj' (by omega) rfl hq]
        simp [negOf, posSum, hpos, add_assoc]
      · simp only [hpos, if_false, Bool.false_eq_true]
        rw [ih (i + 1) j _ hj' (by omega) rfl hq]
        simp [negOf, posSum, hpos]

/-- the state after `reset` and the insertion loop with a positive entry `a` active -/
theorem fill_eq (h0 : o.ofInt 0 = 0) (tbl : List (K × ι)) (a : Nat) (u : K) (ha : a < tbl.length)
    (hq : 0 < (tbl[a]).1) :
    fill o tbl a u = .ok ⟨negOf tbl, posSum (tbl.take a) + (tbl[a]).1 * u, posSum tbl, true⟩ := by
  unfold fill
  rw [fillFrom_before o h0 a u tbl 0 a (empty o) ha (by omega) rfl hq]
  simp [empty, h0]

/-- an active entry with a non-positive rate trips the `assert` -/
theorem fill_assertion (h0 : o.ofInt 0 = 0) (a : Nat) (u : K) (t : List (K × ι)) :
    ∀ (i j : Nat) (s : Lifting K ι) (hj : j < t.length), a = i + j → s.recorded = false → ¬ 0 < (t[j]).1 →
      fillFrom o a u i s t = .error .assertion := by
  induction t with
  | nil => intro i j s hj; simp at hj
  | cons x t ih =>
    intro i j s hj ha hr hq
    obtain ⟨r, id⟩ := x
    cases j with
    | zero =>
      have he : (i == a) = true := by simp; omega
      simp only [List.getElem_cons_zero] at hq
      unfold fillFrom insert
      simp [h0, he, hq]
    | succ j =>
      have hne : (i == a) = false := by simp; omega
      have hj' : j < t.length := by simpa using hj
      simp only [List.getElem_cons_succ] at hq
      unfold fillFrom insert
      simp only [h0, hne, hr]
      by_cases hpos : 0 < r
      · simp only [hpos, if_true, Bool.false_eq_true, if_false, Bool.not_false]
        exact ih (i + 1) j _ hj' (by omega) rfl hq
      · simp only [hpos, if_false, Bool.false_eq_true]
        exact ih (i + 1) j _ hj' (by omega) rfl hq

end ops

/-! ### the common loop -/

theorem walkIdx_lt (p : K) (l : List (K × ι)) (c : K) {k : Nat} (h : walkIdx p l c = some k) :
    k < l.length := by
  induction l generalizing c k with
  | nil => simp [walkIdx] at h
  | cons e t ih =>
    obtain ⟨r, i⟩ := e
    unfold walkIdx at h
    simp only at h
    split at h
    · cases h; simp
    · cases hw : walkIdx p t (c + r) with
      | none => simp [hw] at h
      | some k' =>
        simp only [hw, Option.map_some, Option.some.injEq] at h
        subst h
        simpa using ih _ hw

/-- the loop returns `k` iff the position lies in the half-open interval `(N_{k-1}, N_k]`
(for a position strictly above the start of the stack) -/
theorem walkIdx_eq_some_iff (p : K) (l : List (K × ι)) (hl : NonNeg l) (c : K) (hc : c < p) (k : Nat) :
    walkIdx p l c = some k ↔ k < l.length ∧ c + cumB l k < p ∧ p ≤ c + cumB l (k + 1) := by
  induction l generalizing c k with
  | nil => simp [walkIdx]
  | cons e t ih =>
    obtain ⟨r, i⟩ := e
    have hr : 0 ≤ r := hl.head
    unfold walkIdx
    simp only
    by_cases hp : p ≤ c + r
    · simp only [hp, if_true, Option.some.injEq]
      constructor
      · intro h; subst h; simp [hc, hp]
      · rintro ⟨_, h2, _⟩
        cases k with
        | zero => rfl
        | succ k =>
          exfalso
          simp only [cumB_cons_succ] at h2
          linarith [cumB_nonneg hl.tail k]
    · simp only [hp, if_false]
      have hc' : c + r < p := not_le.mp hp
      cases k with
      | zero =>
        simp only [cumB_zero, cumB_cons_succ, add_zero]
        constructor
        · intro h
          cases hw : walkIdx p t (c + r) <;> simp [hw] at h
        · rintro ⟨_, _, h3⟩; exact absurd h3 hp
      | succ k =>
        have := ih hl.tail (c + r) hc' k
        simp only [cumB_cons_succ, List.length_cons, Nat.add_lt_add_iff_right]
        rw [← add_assoc, ← add_assoc, ← this]
        cases hw : walkIdx p t (c + r) <;> simp

/-- the loop runs to its end iff the position lies above the whole stack -/
theorem walkIdx_eq_none_iff (p : K) (l : List (K × ι)) (hl : NonNeg l) (c : K) (hc : c < p) :
    walkIdx p l c = none ↔ c + total l < p := by
  induction l generalizing c with
  | nil => simp [walkIdx, hc]
  | cons e t ih =>
    obtain ⟨r, i⟩ := e
    unfold walkIdx
    simp only
    by_cases hp : p ≤ c + r
    · simp only [hp, if_true, total_cons]
      constructor
      · intro h; cases h
      · intro h; exfalso; linarith [total_nonneg hl.tail]
    · simp only [hp, if_false, total_cons, Option.map_eq_none_iff]
      rw [ih hl.tail (c + r) (not_le.mp hp), add_assoc]

/-- at a position `≤ 0 + first entry` the loop stops at index 0 whatever the sign of the position:
this is how a zero-rate first entry gets selected at position 0 -/
theorem walkIdx_first (p : K) (e : K × ι) (t : List (K × ι)) (c : K) (h : p ≤ c + e.1) :
    walkIdx p (e :: t) c = some 0 := by
  obtain ⟨r, i⟩ := e
  simp [walkIdx, h]

/-! ### tiling -/

/-- length of the intersection of `[p, p+q]` and `[c, d]` -/
def overlap (p q c d : K) : K := max 0 (min (p + q) d - max p c)

/-- clamp `x` into `[c, d]` -/
def clamp (c d x : K) : K := min (max x c) d

/-- the overlap is the increment of the clamp function -/
theorem overlap_eq_clamp (p q c d : K) (hq : 0 ≤ q) (hcd : c ≤ d) :
    overlap p q c d = clamp c d (p + q) - clamp c d p := by
  simp only [overlap, clamp, max_def, min_def]
  split_ifs <;> linarith

theorem overlap_add (p q r c d : K) (hq : 0 ≤ q) (hr : 0 ≤ r) (hcd : c ≤ d) :
    overlap p q c d + overlap (p + q) r c d = overlap p (q + r) c d := by
  rw [overlap_eq_clamp _ _ _ _ hq hcd, overlap_eq_clamp _ _ _ _ hr hcd,
    overlap_eq_clamp _ _ _ _ (add_nonneg hq hr) hcd, add_assoc]
  ring

/-- sum over the positive entries `a` of a table of `g (P_a) (q_a)`, `P_a` = offset + positive rates
before `a` -/
def sumPosRec (g : K → K → K) : List (K × ι) → K → K
  | [], _ => 0
  | (r, _) :: t, P => if 0 < r then g P r + sumPosRec g t (P + r) else sumPosRec g t P

/-- consecutive intervals tile: the overlaps add up to the overlap of the union -/
theorem overlap_sum (tbl : List (K × ι)) (P c d : K) (hcd : c ≤ d) :
    sumPosRec (fun p q => overlap p q c d) tbl P = overlap P (posSum tbl) c d := by
  induction tbl generalizing P with
  | nil => rw [overlap_eq_clamp _ _ _ _ (by simp [posSum]) hcd]; simp [sumPosRec, posSum]
  | cons x t ih =>
    obtain ⟨r, i⟩ := x
    unfold sumPosRec posSum
    split
    · next h => rw [ih, overlap_add _ _ _ _ _ h.le (posSum_nonneg t) hcd]
    · exact ih P

theorem overlap_full (S c d : K) (h0 : 0 ≤ c) (hcd : c ≤ d) (hd : d ≤ S) : overlap 0 S c d = d - c := by
  unfold overlap
  simp [min_eq_right hd, max_eq_right h0, hcd]

/-- `sumPosRec` is the sum over the indices of the positive entries -/
theorem sumPosRec_eq_sum (g : K → K → K) (tbl : List (K × ι)) (P : K) :
    sumPosRec g tbl P =
      ∑ a ∈ Finset.range tbl.length,
        (if 0 < ((tbl.map Prod.fst).getD a 0) then g (P + posSum (tbl.take a)) ((tbl.map Prod.fst).getD a 0) else 0) := by
  induction tbl generalizing P with
  | nil => simp [sumPosRec]
  | cons x t ih =>
    obtain ⟨r, i⟩ := x
    rw [List.length_cons, Finset.sum_range_succ']
    unfold sumPosRec
    by_cases h : 0 < r
    · simp only [h, if_true, List.map_cons, List.getD_cons_succ, List.take_succ_cons, List.getD_cons_zero,
        List.take_zero]
      rw [ih, add_comm]
      congr 1
      · apply Finset.sum_congr rfl
        intro a _
        simp [posSum, h, add_assoc]
      · simp [posSum]
    · simp only [h, if_false, List.map_cons, List.getD_cons_succ, List.take_succ_cons, List.getD_cons_zero,
        List.take_zero, add_zero]
      rw [ih]
      apply Finset.sum_congr rfl
      intro a _
      simp [posSum, h]

end JF.Lifting
