import JF.Num.Ops
import Mathlib.Algebra.Order.Floor.Ring
import Mathlib.Data.Rat.Floor
import Mathlib.Data.Set.Basic
import Mathlib.Order.Monotone.Basic
import Mathlib.Algebra.Order.AbsoluteValue.Basic
import Mathlib.Tactic.Linarith
import Mathlib.Tactic.Ring
import Mathlib.Tactic.NormNum
/-!
# The rounding-abstract reading of the scalar layer

`FloatModel` is a structure of HYPOTHESES about a rounding function `rnd : ℚ → ℚ` and its set `F` of
representable numbers.  Nothing here is an axiom: every theorem of the rounding-abstract reading is of the
form `∀ fm : FloatModel, …`.  `R fm` is `ℚ` with `+ - * /` that round their exact result with `fm.rnd`;
`Ops.rounded fm : Ops (R fm)` completes it to a scalar layer, so that the model definitions of `JF/Model`
(written once, generically) can be read "as floats".

Proof-side file (imports Mathlib; never linked into a driver).

## Which fields, and why each one is true of IEEE-754 binary64 (round to nearest, ties to even)

(The informal justification below is PROVED in `JF/Lemmas/RoundedBinary.lean`: `FloatModel.binary64` constructs the
instance for the mathematical definition of binary64 RNE.  Smaller instances: `RoundedInstances.lean`.)

Take `F` = the finite doubles (as rationals), `rnd` = round-to-nearest-even of a rational, saturating at
`±max_double` (overflow to `±∞` is outside the model: no theorem ever rounds a number above `huge`),
`eps = 2^-53`, `tiny = 2^-1022` (smallest normal), `huge = 2^1023`.

* `rnd_mem`, `rnd_id`   : the result of rounding is a double; a double rounds to itself.
* `rnd_mono`            : RNE is monotone (non-decreasing) - standard.
* `rnd_neg`             : RNE is sign-symmetric (ties-to-even does not look at the sign).
* `eps_nonneg`, `eps_le_half` : `0 ≤ 2^-53 ≤ 1/2`.
* `huge_ge`             : `2^55 ≤ 2^1023`.
* `rel_err`             : in the NORMAL range `2^-1022 ≤ |x| ≤ 2^1023`, `|RNE x - x| ≤ 2^-53 |x|`
                          (half an ulp, ulp ≤ 2^-52 |x|).  NOT claimed below `tiny` (subnormals have an
                          absolute, not a relative, error bound) nor above `huge` (overflow).
* `add_tiny`            : all doubles are integer multiples of `2^-1074`; so is the sum of two of them, and a
                          multiple of `2^-1074` below `2^-1022` in magnitude is a (subnormal) double:
                          additions that land in the subnormal range are EXACT (Hauser's lemma).
* `int_mem`             : every integer of magnitude ≤ 2^53 is a double.
* `floor_mem`           : IEEE `floor` of a double is a double (doubles ≥ 2^52 are integers; below that the
                          integer part has ≤ 52 bits).
* `fract_mem`           : for `x ≥ 0`, `x - ⌊x⌋ = fmod(x, 1)` is a double (it keeps the low-order bits of the
                          significand of `x`; C `fmod` is exact).  FALSE for negative `x` (e.g. `-2^-60`),
                          hence the hypothesis `0 ≤ x`.
-/
namespace JF

structure FloatModel where
  /-- the rounding function, on exact (rational) results -/
  rnd : ℚ → ℚ
  /-- the representable numbers -/
  F : Set ℚ
  /-- unit roundoff -/
  eps : ℚ
  /-- lower end of the range in which the relative error bound holds (binary64: smallest normal) -/
  tiny : ℚ
  /-- upper end of that range (binary64: anything up to the largest double) -/
  huge : ℚ
  rnd_mem : ∀ x, rnd x ∈ F
  rnd_id : ∀ x, x ∈ F → rnd x = x
  rnd_mono : Monotone rnd
  rnd_neg : ∀ x, rnd (-x) = -rnd x
  eps_nonneg : 0 ≤ eps
  eps_le_half : eps ≤ 1 / 2
  huge_ge : (2:ℚ) ^ 55 ≤ huge
  rel_err : ∀ x, tiny ≤ |x| → |x| ≤ huge → |rnd x - x| ≤ eps * |x|
  add_tiny : ∀ a b, a ∈ F → b ∈ F → |a + b| < tiny → a + b ∈ F
  int_mem : ∀ n : ℤ, |(n:ℚ)| ≤ 2 ^ 53 → (n:ℚ) ∈ F
  floor_mem : ∀ x, x ∈ F → 0 ≤ x → ((⌊x⌋ : ℤ) : ℚ) ∈ F
  fract_mem : ∀ x, x ∈ F → 0 ≤ x → x - ((⌊x⌋ : ℤ) : ℚ) ∈ F

namespace FloatModel
variable (fm : FloatModel)

theorem zero_mem : (0:ℚ) ∈ fm.F := by
  have := fm.int_mem 0 (by norm_num); simpa using this

theorem one_mem : (1:ℚ) ∈ fm.F := by
  have := fm.int_mem 1 (by norm_num); simpa using this

@[simp] theorem rnd_zero : fm.rnd 0 = 0 := fm.rnd_id 0 fm.zero_mem

theorem rnd_nonneg {x : ℚ} (h : 0 ≤ x) : 0 ≤ fm.rnd x := by
  have := fm.rnd_mono h; rwa [rnd_zero] at this

theorem rnd_nonpos {x : ℚ} (h : x ≤ 0) : fm.rnd x ≤ 0 := by
  have := fm.rnd_mono h; rwa [rnd_zero] at this

theorem neg_mem {x : ℚ} (h : x ∈ fm.F) : -x ∈ fm.F := by
  have := fm.rnd_mem (-x); rwa [fm.rnd_neg, fm.rnd_id x h] at this

theorem rnd_int (n : ℤ) (h : |(n:ℚ)| ≤ 2 ^ 53) : fm.rnd n = n := fm.rnd_id _ (fm.int_mem n h)

/-- rounding never crosses a representable number -/
theorem rnd_le_of_le {x y : ℚ} (hy : y ∈ fm.F) (h : x ≤ y) : fm.rnd x ≤ y := by
  have := fm.rnd_mono h; rwa [fm.rnd_id y hy] at this

theorem le_rnd_of_le {x y : ℚ} (hx : x ∈ fm.F) (h : x ≤ y) : x ≤ fm.rnd y := by
  have := fm.rnd_mono h; rwa [fm.rnd_id x hx] at this

/-- The sum of two representable numbers is rounded with relative error `eps`, whatever its size below
`huge`: in the range `[tiny, huge]` by `rel_err`, below `tiny` because it is exact (`add_tiny`). -/
theorem add_err {a b : ℚ} (ha : a ∈ fm.F) (hb : b ∈ fm.F) (hh : |a + b| ≤ fm.huge) :
    |fm.rnd (a + b) - (a + b)| ≤ fm.eps * |a + b| := by
  rcases le_or_gt fm.tiny |a + b| with h | h
  · exact fm.rel_err _ h hh
  · rw [fm.rnd_id _ (fm.add_tiny a b ha hb h)]
    simp only [sub_self, abs_zero]
    exact mul_nonneg fm.eps_nonneg (abs_nonneg _)

theorem sub_err {a b : ℚ} (ha : a ∈ fm.F) (hb : b ∈ fm.F) (hh : |a - b| ≤ fm.huge) :
    |fm.rnd (a - b) - (a - b)| ≤ fm.eps * |a - b| := by
  have := fm.add_err ha (fm.neg_mem hb) (by rwa [← sub_eq_add_neg])
  rwa [← sub_eq_add_neg] at this

end FloatModel

/-! ### the scalar type -/

/-- rationals whose arithmetic rounds with `fm.rnd` -/
def R (_fm : FloatModel) : Type := ℚ

namespace R
variable {fm : FloatModel}

/-- the exact rational value of a scalar (the identity; it only changes the type, so that the exact
operations of `ℚ` are not confused with the rounded ones of `R fm`) -/
def toQ (x : R fm) : ℚ := x
/-- a rational read as a scalar WITHOUT rounding (used for exact operations and literals) -/
def ofQ (x : ℚ) : R fm := x

@[simp] theorem toQ_ofQ (x : ℚ) : toQ (ofQ x : R fm) = x := rfl
@[simp] theorem ofQ_toQ (x : R fm) : ofQ (toQ x) = x := rfl
theorem ext {x y : R fm} (h : toQ x = toQ y) : x = y := h
theorem ext_iff {x y : R fm} : x = y ↔ toQ x = toQ y := Iff.rfl

instance : Add (R fm) := ⟨fun a b => ofQ (fm.rnd (toQ a + toQ b))⟩
instance : Sub (R fm) := ⟨fun a b => ofQ (fm.rnd (toQ a - toQ b))⟩
instance : Mul (R fm) := ⟨fun a b => ofQ (fm.rnd (toQ a * toQ b))⟩
instance : Div (R fm) := ⟨fun a b => ofQ (fm.rnd (toQ a / toQ b))⟩
/-- negation is exact (sign flip) -/
instance : Neg (R fm) := ⟨fun a => ofQ (-toQ a)⟩
/-- comparisons do not round -/
instance : LT (R fm) := ⟨fun a b => toQ a < toQ b⟩
instance : LE (R fm) := ⟨fun a b => toQ a ≤ toQ b⟩
instance : DecidableLT (R fm) := fun a b => inferInstanceAs (Decidable (toQ a < toQ b))
instance : DecidableLE (R fm) := fun a b => inferInstanceAs (Decidable (toQ a ≤ toQ b))
instance : BEq (R fm) := ⟨fun a b => toQ a == toQ b⟩

@[simp] theorem toQ_add (a b : R fm) : toQ (a + b) = fm.rnd (toQ a + toQ b) := rfl
@[simp] theorem toQ_sub (a b : R fm) : toQ (a - b) = fm.rnd (toQ a - toQ b) := rfl
@[simp] theorem toQ_mul (a b : R fm) : toQ (a * b) = fm.rnd (toQ a * toQ b) := rfl
@[simp] theorem toQ_div (a b : R fm) : toQ (a / b) = fm.rnd (toQ a / toQ b) := rfl
@[simp] theorem toQ_neg (a : R fm) : toQ (-a) = -toQ a := rfl
@[simp] theorem lt_iff (a b : R fm) : a < b ↔ toQ a < toQ b := Iff.rfl
@[simp] theorem le_iff (a b : R fm) : a ≤ b ↔ toQ a ≤ toQ b := Iff.rfl
@[simp] theorem beq_iff (a b : R fm) : (a == b) = (toQ a == toQ b) := rfl
@[simp] theorem bne_iff (a b : R fm) : (a != b) = (toQ a != toQ b) := rfl
@[simp] theorem decide_lt (a b : R fm) : decide (a < b) = decide (toQ a < toQ b) := rfl

end R

open R in
/-- The scalar operations over `R fm`.  `floor` and `fmod` are EXACT (IEEE `floor` and C `fmod` are exact
operations: their mathematical result is representable); integer literals are not rounded (exact for
`|n| ≤ 2^53`; the models only use the literals 0, 1, 2); signed zeros are not distinguished;
there is no infinity in this reading (`Time.add`'s infinite branch is covered by `C14.add_inf`, which
holds for every scalar type). -/
def Ops.rounded (fm : FloatModel) : Ops (R fm) where
  ofInt n := ofQ (n : ℚ)
  floor x := ofQ ((⌊toQ x⌋ : ℤ) : ℚ)
  fmod x y := ofQ (Ops.rat.fmod (toQ x) (toQ y))
  toInt x := Rat.trunc (toQ x)
  isInf _ := false
  zeroLike _ := ofQ 0
  sqrt x := x

namespace R
variable {fm : FloatModel}
@[simp] theorem rounded_ofInt (n : ℤ) : toQ ((Ops.rounded fm).ofInt n) = (n : ℚ) := rfl
@[simp] theorem rounded_floor (x : R fm) : toQ ((Ops.rounded fm).floor x) = ((⌊toQ x⌋ : ℤ) : ℚ) := rfl
@[simp] theorem rounded_fmod (x y : R fm) :
    toQ ((Ops.rounded fm).fmod x y) = Ops.rat.fmod (toQ x) (toQ y) := rfl
@[simp] theorem rounded_isInf (x : R fm) : (Ops.rounded fm).isInf x = false := rfl
@[simp] theorem rounded_zeroLike (x : R fm) : toQ ((Ops.rounded fm).zeroLike x) = 0 := rfl
@[simp] theorem rounded_toInt (x : R fm) : (Ops.rounded fm).toInt x = Rat.trunc (toQ x) := rfl
end R

end JF
