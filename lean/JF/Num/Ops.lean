/-
Scalar layer shared by every model.

Model functions are written once, over a type `α` carrying the core arithmetic classes
(`+ - * / < ≤ ==`) and an explicit record `Ops α` for the operations that are not field
operations (`floor`, `fmod`, `int()`, literals, infinity test).  Two instances exist:

* `Ops.rat`   : exact reading over `Rat` (what the theorems in `JF/Props` talk about);
* `Ops.float` : IEEE-754 binary64 via Lean's native `Float` (what the line-protocol driver
                 runs, compared bit for bit with CPython / C).

No Mathlib import here: this file is linked into the driver executable.
-/
namespace JF

structure Ops (α : Type) where
  /-- literal from an integer (exact for |n| ≤ 2^53 in the float reading) -/
  ofInt : Int → α
  /-- `math.floor` returned as a scalar -/
  floor : α → α
  /-- C `fmod` (exact in both readings): sign of the dividend, magnitude below |divisor| -/
  fmod  : α → α → α
  /-- Python `int()`: truncation toward zero -/
  toInt : α → Int
  /-- `math.isinf` -/
  isInf : α → Bool
  /-- `copysign(0.0, x)`: a zero carrying the sign bit of `x` -/
  zeroLike : α → α
  /-- square root (exact reading: only used under hypotheses that make it irrelevant) -/
  sqrt  : α → α

/-! ### exact reading -/

def Rat.trunc (x : Rat) : Int := if 0 ≤ x then x.floor else -((-x).floor)

def Ops.rat : Ops Rat where
  ofInt n := (n : Rat)
  floor x := (x.floor : Rat)
  fmod x y := x - y * ((Rat.trunc (x / y) : Int) : Rat)
  toInt x := Rat.trunc x
  isInf _ := false
  zeroLike _ := 0
  sqrt x := x   -- placeholder: no model whose theorem is stated over `Rat` calls `sqrt`

/-! ### binary64 reading -/

/-- sign, mantissa, exponent with `|x| = m * 2^e` for finite `x`. -/
def fdecode (x : Float) : Bool × Nat × Int :=
  let b := x.toBits.toNat
  let s := b >>> 63 == 1
  let ex := (b >>> 52) &&& 0x7ff
  let fr := b &&& (2^52 - 1)
  if ex == 0 then (s, fr, -1074) else (s, fr + 2^52, (ex : Int) - 1075)

def fIsFinite (x : Float) : Bool := ((x.toBits.toNat >>> 52) &&& 0x7ff) != 0x7ff

/-- `m * 2^e` for `m < 2^53` whose value is representable (exact). -/
def fencode (neg : Bool) (m : Nat) (e : Int) : Float :=
  let v := (Float.ofNat m).scaleB e
  if neg then -v else v

/-- C `fmod`, computed exactly on the integer decoding. -/
def ffmod (x y : Float) : Float :=
  if x.isNaN || y.isNaN then x + y
  else if !(fIsFinite x) then Float.ofBits 0x7ff8000000000000
  else if !(fIsFinite y) then x
  else
    let (sx, mx, ex) := fdecode x
    let (_, my, ey) := fdecode y
    if my == 0 then Float.ofBits 0x7ff8000000000000
    else if mx == 0 then x
    else if ex ≥ ey then
      let r := (mx * 2 ^ (ex - ey).toNat) % my
      fencode sx r ey
    else
      let r := mx % (my * 2 ^ (ey - ex).toNat)
      fencode sx r ex

/-- Python `int(x)` for finite `x`. -/
def ftoInt (x : Float) : Int :=
  let (s, m, e) := fdecode x
  let mag : Nat := if e ≥ 0 then m * 2 ^ e.toNat else m / 2 ^ (-e).toNat
  if s then -(mag : Int) else mag

def Ops.float : Ops Float where
  ofInt n := Float.ofInt n
  floor x := x.floor
  fmod := ffmod
  toInt := ftoInt
  isInf x := x.isInf
  zeroLike x := if x.toBits.toNat >>> 63 == 1 then -0.0 else 0.0
  sqrt x := x.sqrt

/-! ### Python float semantics built from the primitives (CPython `float_rem`, `float_divmod`) -/

section
variable {α : Type} [Add α] [Sub α] [Mul α] [Div α] [Neg α] [LT α] [DecidableLT α] [BEq α]

/-- `x % y` as CPython computes it for floats (`Objects/floatobject.c: float_rem`), `y ≠ 0`.
-/
def pymod (o : Ops α) (x y : α) : α :=
  let m := o.fmod x y
  if m != o.ofInt 0 then
    if (y < o.ofInt 0) != (m < o.ofInt 0) then m + y else m
  else
    o.zeroLike y

/-- `correct_position_entry` of the setting classes: `r = x % L; r if r != L else 0.0` -/
def pywrap (o : Ops α) (x L : α) : α := let r := pymod o x L; if r != L then r else o.ofInt 0

/-- `divmod(x, 1.0)` as CPython computes it (`float_divmod` specialised to divisor 1.0). -/
def pydivmod1 (o : Ops α) (x : α) : α × α :=
  let one := o.ofInt 1
  let zero := o.ofInt 0
  let m0 := o.fmod x one
  let d0 := (x - m0) / one
  -- `if (mod) { if ((wx < 0) != (mod < 0)) { mod += wx; div -= 1.0; } } else mod = copysign(0.0, wx);`
  let adj : Bool := (m0 != zero) && (decide (one < zero) != decide (m0 < zero))
  let m := if m0 != zero then (if adj then m0 + one else m0) else o.zeroLike one
  let d := if adj then d0 - one else d0
  -- `if (div) { floordiv = floor(div); if (div - floordiv > 0.5) floordiv += 1.0; }`
  -- `else floordiv = copysign(0.0, vx / wx);`
  let fl :=
    if d != zero then
      (if o.ofInt 1 / o.ofInt 2 < d - o.floor d then o.floor d + one else o.floor d)
    else o.zeroLike (x / one)
  (fl, m)
end

/-! ### wire format: floats cross the line protocol as unsigned 64-bit integers -/

def fOfBitsStr (s : String) : Float := Float.ofBits (UInt64.ofNat s.toNat!)
def fBitsStr (x : Float) : String := toString x.toBits.toNat

end JF
