import JF.Props.C14
import JF.Lemmas.RoundedDivmod
import JF.Lemmas.RoundedInstances
import JF.Lemmas.RoundedBinary
/-!
# C14, rounding-abstract reading — the statements that are true FOR FLOATS

Same model (`JF/Model/Time.lean`, the transcription of `jellyfysh/base/time.py`), same definitions, but the
scalar type is `R fm`: rationals whose `+ - * /` round with `fm.rnd`, for an ARBITRARY `fm : FloatModel`
(a structure of hypotheses that binary64 round-to-nearest-even satisfies, see `JF/Num/Rounded.lean`).
`floor` and `fmod` are exact, comparisons do not round.

All theorems are `∀ fm : FloatModel`; at the end they are specialised to `FloatModel.binary64`, the PROVED instance
for IEEE-754 binary64 round-to-nearest-even (`JF/Lemmas/RoundedBinary.lean`), with `eps = 2^-53`.  Times are representable and normalised (`Rep`): integer quotient in `F`,
remainder in `[0, 1) ∩ F`; where it matters `|q| ≤ 2^52` and `0 ≤ d ≤ 2^40`, the property's quantifier.

There is no infinity in `R fm` (`isInf = false`): the clauses about infinity are `C14.add_inf` (absorbing, for every
scalar type and every `Ops`) and the bit-exact correspondence run.
-/
namespace JF.C14F
open JF JF.R

variable {fm : FloatModel}

/-- the same pair read as exact rationals (the identity on the data) -/
def tq (t : Time (R fm)) : Time ℚ := ⟨toQ t.q, toQ t.r⟩

/-- the exact rational number a time stands for: quotient + remainder, NOT rounded -/
def val (t : Time (R fm)) : ℚ := toQ t.q + toQ t.r

theorem val_eq (t : Time (R fm)) : val t = C14.val (tq t) := rfl

/-- representable and normalised: integer quotient in `F`, remainder in `[0, 1) ∩ F` -/
structure Rep (fm : FloatModel) (t : Time (R fm)) : Prop where
  q_int : ∃ n : ℤ, toQ t.q = n
  q_mem : toQ t.q ∈ fm.F
  r_mem : toQ t.r ∈ fm.F
  r_nonneg : 0 ≤ toQ t.r
  r_lt : toQ t.r < 1

theorem Rep.normalised {t : Time (R fm)} (h : Rep fm t) : C14.Normalised (tq t) :=
  ⟨h.q_int, h.r_nonneg, h.r_lt⟩

/-! ### addition -/

section add
variable (t : Time (R fm)) (d : R fm)

/-- the rounded sum `fl(r + d)`: the ONLY rounding that happens in `Time.__add__` -/
def rsum : ℚ := fm.rnd (toQ t.r + toQ d)

theorem rsum_mem : rsum t d ∈ fm.F := fm.rnd_mem _

variable {t d}

theorem rsum_nonneg (hr : 0 ≤ toQ t.r) (hd : 0 ≤ toQ d) : 0 ≤ rsum t d :=
  fm.rnd_nonneg (add_nonneg hr hd)

theorem rsum_le (hr : toQ t.r < 1) (hd : toQ d ≤ 2 ^ 40) : rsum t d ≤ 2 ^ 40 + 1 := by
  have hm : (((2 ^ 40 + 1 : ℤ)) : ℚ) ∈ fm.F := fm.int_mem _ (by norm_num)
  have h := fm.rnd_le_of_le hm (x := toQ t.r + toQ d) (by push_cast; linarith)
  calc rsum t d ≤ (((2 ^ 40 + 1 : ℤ)) : ℚ) := h
    _ = 2 ^ 40 + 1 := by push_cast; ring

/-- `Time.__add__` without the last addition unfolded: `divmod(fl(r + d), 1.0)` is exact. -/
theorem add_eq0 (ht : Rep fm t) (hd0 : 0 ≤ toQ d) :
    Time.add (Ops.rounded fm) t d
      = ⟨t.q + ofQ ((⌊rsum t d⌋ : ℤ) : ℚ), ofQ (rsum t d - ((⌊rsum t d⌋ : ℤ) : ℚ))⟩ := by
  have h := pydivmod1_rounded (fm := fm) (t.r + d) (fm.rnd_mem _) (rsum_nonneg ht.r_nonneg hd0)
  simp only [Time.add, rounded_isInf, h]
  rfl

/-- The result of `Time.__add__`, completely: the quotient addition is an exact integer addition. -/
theorem add_eq (ht : Rep fm t) (hq : |toQ t.q| ≤ 2 ^ 52) (hd0 : 0 ≤ toQ d) (hd1 : toQ d ≤ 2 ^ 40) :
    Time.add (Ops.rounded fm) t d
      = ⟨ofQ (toQ t.q + ((⌊rsum t d⌋ : ℤ) : ℚ)), ofQ (rsum t d - ((⌊rsum t d⌋ : ℤ) : ℚ))⟩ := by
  rw [add_eq0 ht hd0]
  congr 1
  apply R.ext
  simp only [toQ_add, toQ_ofQ]
  obtain ⟨n, hn⟩ := ht.q_int
  have h0 := rsum_nonneg (d := d) ht.r_nonneg hd0
  have h1 := rsum_le (d := d) ht.r_lt hd1
  have hf0 : (0:ℚ) ≤ ((⌊rsum t d⌋ : ℤ) : ℚ) := by exact_mod_cast Int.floor_nonneg.mpr h0
  have hf1 : ((⌊rsum t d⌋ : ℤ) : ℚ) ≤ 2 ^ 40 + 1 := le_trans (Int.floor_le _) h1
  rw [hn] at hq ⊢
  have := fm.rnd_int (n + ⌊rsum t d⌋) (by
    push_cast
    rw [abs_le] at hq ⊢
    constructor <;> [linarith [hq.1]; linarith [hq.2]])
  simpa using this

/-- `add_normalised`: the sum is again representable and normalised (`d` need not even be representable:
whatever `r + d` is, it is rounded into `F` before `divmod` sees it). -/
theorem add_normalised (ht : Rep fm t) (hq : |toQ t.q| ≤ 2 ^ 52)
    (hd0 : 0 ≤ toQ d) (hd1 : toQ d ≤ 2 ^ 40) : Rep fm (Time.add (Ops.rounded fm) t d) := by
  rw [add_eq ht hq hd0 hd1]
  obtain ⟨n, hn⟩ := ht.q_int
  have h0 := rsum_nonneg (d := d) ht.r_nonneg hd0
  have h1 := rsum_le (d := d) ht.r_lt hd1
  have hf0 : (0:ℚ) ≤ ((⌊rsum t d⌋ : ℤ) : ℚ) := by exact_mod_cast Int.floor_nonneg.mpr h0
  have hf1 : ((⌊rsum t d⌋ : ℤ) : ℚ) ≤ 2 ^ 40 + 1 := le_trans (Int.floor_le _) h1
  refine ⟨⟨n + ⌊rsum t d⌋, by simp [hn]⟩, ?_, ?_, ?_, ?_⟩
  · simp only [toQ_ofQ, hn]
    have := fm.int_mem (n + ⌊rsum t d⌋) (by
      rw [hn] at hq
      push_cast
      rw [abs_le] at hq ⊢
      constructor <;> [linarith [hq.1]; linarith [hq.2]])
    simpa using this
  · exact fm.fract_mem _ (rsum_mem t d) h0
  · simp only [toQ_ofQ]; linarith [Int.floor_le (rsum t d)]
  · simp only [toQ_ofQ]; linarith [Int.lt_floor_add_one (rsum t d)]

/-- the new quotient stays far below 2^53 (so the next addition is again covered, up to `|q| ≤ 2^52`) -/
theorem add_q_bound (ht : Rep fm t) (hq : |toQ t.q| ≤ 2 ^ 52) (hd0 : 0 ≤ toQ d) (hd1 : toQ d ≤ 2 ^ 40) :
    toQ t.q ≤ toQ (Time.add (Ops.rounded fm) t d).q ∧
    toQ (Time.add (Ops.rounded fm) t d).q ≤ toQ t.q + 2 ^ 40 + 1 := by
  rw [add_eq ht hq hd0 hd1]
  have h0 := rsum_nonneg (d := d) ht.r_nonneg hd0
  have h1 := rsum_le (d := d) ht.r_lt hd1
  have hf0 : (0:ℚ) ≤ ((⌊rsum t d⌋ : ℤ) : ℚ) := by exact_mod_cast Int.floor_nonneg.mpr h0
  have hf1 : ((⌊rsum t d⌋ : ℤ) : ℚ) ≤ 2 ^ 40 + 1 := le_trans (Int.floor_le _) h1
  simp only [toQ_ofQ]; constructor <;> linarith

/-- `add_one_rounding`: the exact value of the sum is `q + fl(r + d)` — exactly ONE rounding, of `r + d`;
the quotient `q` does not enter any rounded operation's error. -/
theorem add_one_rounding (ht : Rep fm t) (hq : |toQ t.q| ≤ 2 ^ 52) (hd0 : 0 ≤ toQ d) (hd1 : toQ d ≤ 2 ^ 40) :
    val (Time.add (Ops.rounded fm) t d) = toQ t.q + fm.rnd (toQ t.r + toQ d) := by
  rw [add_eq ht hq hd0 hd1]
  simp only [val, toQ_ofQ, rsum]; ring

/-- `add_error`: the error of an addition is one relative rounding error of `r + d < 1 + d`, independent of how
large the quotient already is. -/
theorem add_error (ht : Rep fm t) (hq : |toQ t.q| ≤ 2 ^ 52) (hdF : toQ d ∈ fm.F)
    (hd0 : 0 ≤ toQ d) (hd1 : toQ d ≤ 2 ^ 40) :
    |val (Time.add (Ops.rounded fm) t d) - (val t + toQ d)| ≤ fm.eps * (toQ t.r + toQ d) := by
  rw [add_one_rounding ht hq hd0 hd1]
  have hs : 0 ≤ toQ t.r + toQ d := add_nonneg ht.r_nonneg hd0
  have hh : |toQ t.r + toQ d| ≤ fm.huge := by
    rw [abs_of_nonneg hs]
    have := fm.huge_ge
    have : toQ t.r + toQ d ≤ 2 ^ 55 := by linarith [ht.r_lt]
    linarith
  have := fm.add_err ht.r_mem hdF hh
  rw [abs_of_nonneg hs] at this
  have e : toQ t.q + fm.rnd (toQ t.r + toQ d) - (val t + toQ d)
      = fm.rnd (toQ t.r + toQ d) - (toQ t.r + toQ d) := by simp only [val]; ring
  rw [e]; exact this

end add

/-! ### comparisons: they do not round, so the exact-reading proofs apply verbatim -/

section cmp
variable (t u : Time (R fm))

theorem lt_tq : Time.lt t u = Time.lt (tq t) (tq u) := rfl
theorem eq_tq : Time.eq t u = Time.eq (tq t) (tq u) := rfl
theorem gt_tq : Time.gt t u = Time.gt (tq t) (tq u) := rfl
theorem le_tq : Time.le t u = Time.le (tq t) (tq u) := rfl
theorem ge_tq : Time.ge t u = Time.ge (tq t) (tq u) := rfl
theorem cLt_tq : Time.cLt t u = Time.cLt (tq t) (tq u) := rfl

variable {t u}
variable (ht : C14.Normalised (tq t)) (hu : C14.Normalised (tq u))
include ht hu

theorem lt_iff : Time.lt t u = true ↔ val t < val u := C14.lt_iff _ _ ht hu
theorem eq_iff : Time.eq t u = true ↔ val t = val u := C14.eq_iff _ _ ht hu
theorem gt_iff : Time.gt t u = true ↔ val t > val u := C14.gt_iff _ _ ht hu
theorem le_iff : Time.le t u = true ↔ val t ≤ val u := C14.le_iff _ _ ht hu
theorem ge_iff : Time.ge t u = true ↔ val t ≥ val u := C14.ge_iff _ _ ht hu
/-- the comparison of `heap.c` -/
theorem cLt_iff : Time.cLt t u = true ↔ val t < val u := C14.cLt_iff _ _ ht hu

end cmp

/-! ### monotonicity -/

/-- `add_mono`: a larger displacement never gives an earlier time (rounding is monotone). -/
theorem add_mono {t : Time (R fm)} {d d' : R fm} (ht : Rep fm t) (hq : |toQ t.q| ≤ 2 ^ 52)
    (hd0 : 0 ≤ toQ d) (hd'1 : toQ d' ≤ 2 ^ 40) (h : toQ d ≤ toQ d') :
    Time.le (Time.add (Ops.rounded fm) t d) (Time.add (Ops.rounded fm) t d') = true := by
  have hd1 : toQ d ≤ 2 ^ 40 := le_trans h hd'1
  have hd'0 : 0 ≤ toQ d' := le_trans hd0 h
  rw [le_iff (add_normalised ht hq hd0 hd1).normalised (add_normalised ht hq hd'0 hd'1).normalised,
    add_one_rounding ht hq hd0 hd1, add_one_rounding ht hq hd'0 hd'1]
  have := fm.rnd_mono (show toQ t.r + toQ d ≤ toQ t.r + toQ d' by linarith)
  linarith

/-- `add_ge`: adding a non-negative displacement never decreases the time. -/
theorem add_ge {t : Time (R fm)} {d : R fm} (ht : Rep fm t) (hq : |toQ t.q| ≤ 2 ^ 52)
    (hd0 : 0 ≤ toQ d) (hd1 : toQ d ≤ 2 ^ 40) :
    Time.le t (Time.add (Ops.rounded fm) t d) = true := by
  rw [le_iff ht.normalised (add_normalised ht hq hd0 hd1).normalised, add_one_rounding ht hq hd0 hd1]
  have := fm.le_rnd_of_le ht.r_mem (show toQ t.r ≤ toQ t.r + toQ d by linarith)
  simp only [val]; linarith

/-- strictness is lost only by rounding: if the rounded remainders differ, the order is strict -/
theorem add_lt_of_rnd_lt {t : Time (R fm)} {d d' : R fm} (ht : Rep fm t) (hq : |toQ t.q| ≤ 2 ^ 52)
    (hd0 : 0 ≤ toQ d) (hd1 : toQ d ≤ 2 ^ 40) (hd'0 : 0 ≤ toQ d') (hd'1 : toQ d' ≤ 2 ^ 40)
    (h : fm.rnd (toQ t.r + toQ d) < fm.rnd (toQ t.r + toQ d')) :
    Time.lt (Time.add (Ops.rounded fm) t d) (Time.add (Ops.rounded fm) t d') = true := by
  rw [lt_iff (add_normalised ht hq hd0 hd1).normalised (add_normalised ht hq hd'0 hd'1).normalised,
    add_one_rounding ht hq hd0 hd1, add_one_rounding ht hq hd'0 hd'1]
  linarith

/-! ### conversion from a float -/

/-- `fromFloat_exact`: `Time.from_float` of a representable non-negative number loses nothing. -/
theorem fromFloat_exact (x : R fm) (hx : toQ x ∈ fm.F) (h0 : 0 ≤ toQ x) :
    val (Time.fromFloat (Ops.rounded fm) x) = toQ x ∧ Rep fm (Time.fromFloat (Ops.rounded fm) x) := by
  have e : Time.fromFloat (Ops.rounded fm) x
      = ⟨ofQ ((⌊toQ x⌋ : ℤ) : ℚ), ofQ (toQ x - ((⌊toQ x⌋ : ℤ) : ℚ))⟩ := by
    simp only [Time.fromFloat, rounded_isInf, pydivmod1_rounded x hx h0]; rfl
  rw [e]
  refine ⟨by simp [val], ⟨⌊toQ x⌋, rfl⟩, fm.floor_mem _ hx h0, fm.fract_mem _ hx h0, ?_, ?_⟩
  · simp only [toQ_ofQ]; linarith [Int.floor_le (toQ x)]
  · simp only [toQ_ofQ]; linarith [Int.lt_floor_add_one (toQ x)]

/-! ### subtraction -/

/-- `Time.__sub__` is `fl(fl((q - q') + r) - r')`: the integer subtraction is exact (an integer of magnitude
≤ 2^53), two roundings follow. -/
theorem sub_eq {t u : Time (R fm)} (ht : Rep fm t) (hu : Rep fm u)
    (hN : |toQ t.q - toQ u.q| ≤ 2 ^ 53) :
    toQ (Time.sub t u) = fm.rnd (fm.rnd (toQ t.q - toQ u.q + toQ t.r) - toQ u.r) := by
  obtain ⟨n, hn⟩ := ht.q_int
  obtain ⟨m, hm⟩ := hu.q_int
  simp only [Time.sub, toQ_sub, toQ_add]
  rw [hn, hm] at hN ⊢
  have := fm.rnd_int (n - m) (by push_cast; exact hN)
  push_cast at this
  rw [this]

/-- `sub_error`, general form: the computed difference is the exact difference to within
`4 eps · max(1, |difference|)` whenever the quotients differ by at most 2^53. -/
theorem sub_error' {t u : Time (R fm)} (ht : Rep fm t) (hu : Rep fm u)
    (hNb : |toQ t.q - toQ u.q| ≤ 2 ^ 53) :
    |toQ (Time.sub t u) - (val t - val u)| ≤ 4 * fm.eps * max 1 |val t - val u| := by
  rw [sub_eq ht hu hNb]
  obtain ⟨n, hn⟩ := ht.q_int
  obtain ⟨m, hm⟩ := hu.q_int
  -- the integer difference is representable
  have hNF : toQ t.q - toQ u.q ∈ fm.F := by
    have := fm.int_mem (n - m) (by rw [hn, hm] at hNb; push_cast; exact hNb)
    rw [hn, hm]; push_cast at this; exact this
  -- notation
  set N := toQ t.q - toQ u.q with hN
  set r := toQ t.r with hr
  set r' := toQ u.r with hr'
  have hr0 : 0 ≤ r := ht.r_nonneg
  have hr1 : r < 1 := ht.r_lt
  have hr'0 : 0 ≤ r' := hu.r_nonneg
  have hr'1 : r' < 1 := hu.r_lt
  have hD : val t - val u = N + r - r' := by simp only [val, hN, hr, hr']; ring
  rw [hD]
  set D := N + r - r' with hDdef
  set M := max 1 |D| with hM
  have hM1 : 1 ≤ M := le_max_left _ _
  have hMD : |D| ≤ M := le_max_right _ _
  have heps0 := fm.eps_nonneg
  have heps1 := fm.eps_le_half
  have hhuge := fm.huge_ge
  -- first rounding
  have hA : |N + r| ≤ 2 ^ 53 + 1 := by
    calc |N + r| ≤ |N| + |r| := abs_add_le _ _
      _ ≤ 2 ^ 53 + 1 := by rw [abs_of_nonneg hr0]; linarith
  have hAM : |N + r| ≤ 2 * M := by
    have e : N + r = D + r' := by simp only [hDdef]; ring
    calc |N + r| = |D + r'| := by rw [e]
      _ ≤ |D| + |r'| := abs_add_le _ _
      _ ≤ 2 * M := by rw [abs_of_nonneg hr'0]; linarith
  have h1 : |fm.rnd (N + r) - (N + r)| ≤ fm.eps * |N + r| :=
    fm.add_err hNF ht.r_mem (by linarith)
  have h1M : |fm.rnd (N + r) - (N + r)| ≤ fm.eps * (2 * M) :=
    le_trans h1 (mul_le_mul_of_nonneg_left hAM heps0)
  have hepsM : fm.eps * M ≤ 1 / 2 * M := mul_le_mul_of_nonneg_right heps1 (by linarith)
  set s := fm.rnd (N + r) with hs
  -- second rounding
  have hB : s - r' = D + (s - (N + r)) := by simp only [hDdef]; ring
  have hBM : |s - r'| ≤ 2 * M := by
    calc |s - r'| = |D + (s - (N + r))| := by rw [hB]
      _ ≤ |D| + |s - (N + r)| := abs_add_le _ _
      _ ≤ 2 * M := by linarith
  have hBh : |s - r'| ≤ fm.huge := by
    have h1' : |s - (N + r)| ≤ 1 / 2 * (2 ^ 53 + 1) := by
      calc |s - (N + r)| ≤ fm.eps * |N + r| := h1
        _ ≤ 1 / 2 * |N + r| := mul_le_mul_of_nonneg_right heps1 (abs_nonneg _)
        _ ≤ 1 / 2 * (2 ^ 53 + 1) := by linarith
    have e : s - r' = (s - (N + r)) + (N + r) + (-r') := by ring
    calc |s - r'| = |(s - (N + r)) + (N + r) + (-r')| := by rw [e]
      _ ≤ |(s - (N + r)) + (N + r)| + |-r'| := abs_add_le _ _
      _ ≤ |s - (N + r)| + |N + r| + |-r'| := by linarith [abs_add_le (s - (N + r)) (N + r)]
      _ ≤ fm.huge := by rw [abs_neg, abs_of_nonneg hr'0]; linarith
  have h2 : |fm.rnd (s - r') - (s - r')| ≤ fm.eps * |s - r'| :=
    fm.sub_err (fm.rnd_mem _) hu.r_mem hBh
  have h2M : |fm.rnd (s - r') - (s - r')| ≤ fm.eps * (2 * M) :=
    le_trans h2 (mul_le_mul_of_nonneg_left hBM heps0)
  -- total
  have e : fm.rnd (s - r') - D = (fm.rnd (s - r') - (s - r')) + (s - (N + r)) := by simp only [hDdef]; ring
  calc |fm.rnd (s - r') - D| = |(fm.rnd (s - r') - (s - r')) + (s - (N + r))| := by rw [e]
    _ ≤ |fm.rnd (s - r') - (s - r')| + |s - (N + r)| := abs_add_le _ _
    _ ≤ fm.eps * (2 * M) + fm.eps * (2 * M) := add_le_add h2M h1M
    _ = 4 * fm.eps * M := by ring

/-- `sub_error` in the property's quantifier: all pairs of times with quotients up to 2^52 in magnitude. -/
theorem sub_error {t u : Time (R fm)} (ht : Rep fm t) (hu : Rep fm u)
    (hqt : |toQ t.q| ≤ 2 ^ 52) (hqu : |toQ u.q| ≤ 2 ^ 52) :
    |toQ (Time.sub t u) - (val t - val u)| ≤ 4 * fm.eps * max 1 |val t - val u| := by
  apply sub_error' ht hu
  rw [abs_le] at hqt hqu ⊢
  constructor <;> [linarith [hqt.1, hqu.2]; linarith [hqt.2, hqu.1]]

/-- equal times subtract to exactly zero, whatever their size -/
theorem sub_self (t : Time (R fm)) (ht : Rep fm t) : toQ (Time.sub t t) = 0 := by
  rw [sub_eq ht ht (by simp)]
  simp only [_root_.sub_self, zero_add, fm.rnd_id _ ht.r_mem, fm.rnd_zero]

/-! ### non-vacuity

First in the fixed-point model with 53 fractional bits (`FloatModel.fixed 53`, rounding toward zero): the time with
the largest admitted quotient `2^52` and the largest remainder below one, `1 - 2^-53`, and displacements between one
grid step and `2^40`; a pair of times as far apart as the quantifier allows for `sub_error`.  (In a fixed-point model
sums of representable numbers are exact; the instances in which the addition REALLY rounds are the binary64 ones
in the next section.) -/

section examples
/-- 53 fractional bits, rounding toward zero -/
abbrev fx : FloatModel := FloatModel.fixed 53 (by norm_num)

theorem fx_mem (x : ℚ) (m : ℤ) (h : x * 2 ^ 53 = m) : x ∈ fx.F := ⟨m, by rw [← h]; field_simp⟩

/-- `q = 2^52`, `r = 1 - 2^-53` -/
def tBig : Time (R fx) := ⟨ofQ (2 ^ 52), ofQ (1 - 1 / 2 ^ 53)⟩

theorem tBig_rep : Rep fx tBig := by
  refine ⟨⟨2 ^ 52, by simp only [tBig, toQ_ofQ]; norm_num⟩, ?_, ?_, ?_, ?_⟩
  · exact fx_mem (2 ^ 52) (2 ^ 105) (by norm_num)
  · exact fx_mem (1 - 1 / 2 ^ 53) (2 ^ 53 - 1) (by norm_num)
  · simp only [tBig, toQ_ofQ]; norm_num
  · simp only [tBig, toQ_ofQ]; norm_num

theorem tBig_q : |toQ tBig.q| ≤ 2 ^ 52 := by simp only [tBig, toQ_ofQ]; norm_num

/-- one grid step, `2^-53` (for binary64 read: a tiny displacement) -/
def dSmall : R fx := ofQ (1 / 2 ^ 53)
/-- `2^40`, the largest admitted displacement -/
def dLarge : R fx := ofQ (2 ^ 40)

theorem dSmall_mem : toQ dSmall ∈ fx.F := fx_mem (1 / 2 ^ 53) 1 (by norm_num)
theorem dLarge_mem : toQ dLarge ∈ fx.F := fx_mem (2 ^ 40) (2 ^ 93) (by norm_num)

example : Rep fx (Time.add (Ops.rounded fx) tBig dSmall) :=
  add_normalised tBig_rep tBig_q (by simp [dSmall]) (by simp only [dSmall, toQ_ofQ]; norm_num)
example : Rep fx (Time.add (Ops.rounded fx) tBig dLarge) :=
  add_normalised tBig_rep tBig_q (by simp [dLarge]) (by simp [dLarge])
example : val (Time.add (Ops.rounded fx) tBig dLarge) = toQ tBig.q + fx.rnd (toQ tBig.r + toQ dLarge) :=
  add_one_rounding tBig_rep tBig_q (by simp [dLarge]) (by simp [dLarge])
example : |val (Time.add (Ops.rounded fx) tBig dLarge) - (val tBig + toQ dLarge)|
    ≤ fx.eps * (toQ tBig.r + toQ dLarge) :=
  add_error tBig_rep tBig_q dLarge_mem (by simp [dLarge]) (by simp [dLarge])
example : Time.le (Time.add (Ops.rounded fx) tBig dSmall) (Time.add (Ops.rounded fx) tBig dLarge) = true :=
  add_mono tBig_rep tBig_q (by simp [dSmall]) (by simp [dLarge])
    (by simp only [dSmall, dLarge, toQ_ofQ]; norm_num)
example : Time.le tBig (Time.add (Ops.rounded fx) tBig dSmall) = true :=
  add_ge tBig_rep tBig_q (by simp [dSmall]) (by simp only [dSmall, toQ_ofQ]; norm_num)
example : val (Time.fromFloat (Ops.rounded fx) (ofQ (2 ^ 52 + 1 / 2))) = 2 ^ 52 + 1 / 2 := by
  have h : toQ (ofQ (2 ^ 52 + 1 / 2) : R fx) ∈ fx.F :=
    fx_mem (2 ^ 52 + 1 / 2) (2 ^ 105 + 2 ^ 52) (by norm_num)
  exact (fromFloat_exact _ h (by simp only [toQ_ofQ]; norm_num)).1
/-- `q = -2^52`, `r = 2^-53`: as far from `tBig` as the quantifier allows -/
def tNeg : Time (R fx) := ⟨ofQ (-2 ^ 52), ofQ (1 / 2 ^ 53)⟩

theorem tNeg_rep : Rep fx tNeg := by
  refine ⟨⟨-2 ^ 52, by simp only [tNeg, toQ_ofQ]; norm_num⟩, ?_, ?_, ?_, ?_⟩
  · exact fx_mem (-2 ^ 52) (-2 ^ 105) (by norm_num)
  · exact fx_mem (1 / 2 ^ 53) 1 (by norm_num)
  · simp only [tNeg, toQ_ofQ]; norm_num
  · simp only [tNeg, toQ_ofQ]; norm_num

example : |toQ (Time.sub tBig tNeg) - (val tBig - val tNeg)| ≤ 4 * fx.eps * max 1 |val tBig - val tNeg| :=
  sub_error tBig_rep tNeg_rep tBig_q (by simp only [tNeg, toQ_ofQ]; norm_num)
example : Time.lt tNeg tBig = true ↔ val tNeg < val tBig := lt_iff tNeg_rep.normalised tBig_rep.normalised
end examples

/-! ### the same, for IEEE-754 binary64 round-to-nearest-even

`FloatModel.binary64` (`JF/Lemmas/RoundedBinary.lean`) is a proved instance, so every theorem above holds for it;
the two error bounds with `eps = 2^-53` spelled out: -/

section binary64
abbrev b64 : FloatModel := FloatModel.binary64

/-- one addition is off by at most `2^-53 (r + d)`, whatever the quotient -/
theorem add_error_binary64 {t : Time (R b64)} {d : R b64} (ht : Rep b64 t) (hq : |toQ t.q| ≤ 2 ^ 52)
    (hdF : toQ d ∈ b64.F) (hd0 : 0 ≤ toQ d) (hd1 : toQ d ≤ 2 ^ 40) :
    |val (Time.add (Ops.rounded b64) t d) - (val t + toQ d)| ≤ (toQ t.r + toQ d) / 2 ^ 53 := by
  have := add_error ht hq hdF hd0 hd1
  rw [binary64_eps] at this
  rw [div_eq_mul_inv, mul_comm, ← one_div]; exact this

/-- a difference is off by at most `2^-51 max(1, |difference|)` (four units of `2^-53`) -/
theorem sub_error_binary64 {t u : Time (R b64)} (ht : Rep b64 t) (hu : Rep b64 u)
    (hqt : |toQ t.q| ≤ 2 ^ 52) (hqu : |toQ u.q| ≤ 2 ^ 52) :
    |toQ (Time.sub t u) - (val t - val u)| ≤ max 1 |val t - val u| / 2 ^ 51 := by
  have := sub_error ht hu hqt hqu
  rw [binary64_eps] at this
  have e : (4:ℚ) * (1 / 2 ^ 53) = 1 / 2 ^ 51 := by norm_num
  rw [e] at this
  rw [div_eq_mul_inv, mul_comm, ← one_div]; exact this

/-- `q = 2^52`, `r = 1 - 2^-53` (the largest double below one) -/
def tBig64 : Time (R b64) := ⟨ofQ (2 ^ 52), ofQ (1 - 1 / 2 ^ 53)⟩
/-- `2^-60`: `r + d` is NOT a double, the addition really rounds -/
def dTiny64 : R b64 := ofQ (1 / 2 ^ 60)
/-- the smallest subnormal, `2^-1074` -/
def dDenorm64 : R b64 := ofQ (2 ^ (-1074 : ℤ))

theorem tBig64_rep : Rep b64 tBig64 := by
  refine ⟨⟨2 ^ 52, by simp only [tBig64, toQ_ofQ]; norm_num⟩, ?_, ?_, ?_, ?_⟩
  · show (2:ℚ) ^ 52 ∈ b64.F
    exact binary64_mem 1 52 (by norm_num) (by norm_num) (by norm_num)
      (by rw [abs_of_pos (by positivity)]; exact pow_le_pow_right₀ (by norm_num) (by norm_num))
  · show (1:ℚ) - 1 / 2 ^ 53 ∈ b64.F
    exact binary64_mem (2 ^ 53 - 1) (-53) (by norm_num) (by norm_num) (by norm_num)
      (by rw [abs_of_pos (by norm_num)]; exact le_trans (by norm_num : (1:ℚ) - 1 / 2 ^ 53 ≤ 1) (one_le_pow₀ (by norm_num)))
  · simp only [tBig64, toQ_ofQ]; norm_num
  · simp only [tBig64, toQ_ofQ]; norm_num

theorem tBig64_q : |toQ tBig64.q| ≤ 2 ^ 52 := by simp only [tBig64, toQ_ofQ]; norm_num

theorem dTiny64_mem : toQ dTiny64 ∈ b64.F := by
  show (1:ℚ) / 2 ^ 60 ∈ b64.F
  exact binary64_mem 1 (-60) (by norm_num) (by norm_num) (by norm_num)
    (by rw [abs_of_pos (by positivity)]; exact le_trans (by norm_num : (1:ℚ) / 2 ^ 60 ≤ 1) (one_le_pow₀ (by norm_num)))

theorem dDenorm64_mem : toQ dDenorm64 ∈ b64.F := by
  show (2:ℚ) ^ (-1074 : ℤ) ∈ b64.F
  exact binary64_mem 1 (-1074) (by norm_num) (by norm_num) (by simp)
    (by
      rw [abs_of_pos (zpow_pos (by norm_num) _)]
      have h1 : (2:ℚ) ^ (-1074 : ℤ) ≤ 2 ^ (0 : ℤ) := zpow_le_zpow_right₀ (by norm_num) (by norm_num)
      rw [zpow_zero] at h1
      exact le_trans h1 (one_le_pow₀ (by norm_num)))

theorem dDenorm64_le : toQ dDenorm64 ≤ 2 ^ 40 := by
  show (2:ℚ) ^ (-1074 : ℤ) ≤ 2 ^ 40
  have h1 : (2:ℚ) ^ (-1074 : ℤ) ≤ 2 ^ (0 : ℤ) := zpow_le_zpow_right₀ (by norm_num) (by norm_num)
  rw [zpow_zero] at h1
  exact le_trans h1 (one_le_pow₀ (by norm_num))

example : Rep b64 (Time.add (Ops.rounded b64) tBig64 dTiny64) :=
  add_normalised tBig64_rep tBig64_q (by simp [dTiny64]) (by simp only [dTiny64, toQ_ofQ]; norm_num)
example : |val (Time.add (Ops.rounded b64) tBig64 dTiny64) - (val tBig64 + toQ dTiny64)|
    ≤ (toQ tBig64.r + toQ dTiny64) / 2 ^ 53 :=
  add_error_binary64 tBig64_rep tBig64_q dTiny64_mem (by simp [dTiny64]) (by simp only [dTiny64, toQ_ofQ]; norm_num)
/-- denormal displacement at the largest quotient -/
example : Time.le tBig64 (Time.add (Ops.rounded b64) tBig64 dDenorm64) = true :=
  add_ge tBig64_rep tBig64_q (zpow_pos (by norm_num) _).le dDenorm64_le
example : Time.le (Time.add (Ops.rounded b64) tBig64 dDenorm64) (Time.add (Ops.rounded b64) tBig64 dTiny64) = true :=
  add_mono tBig64_rep tBig64_q (zpow_pos (by norm_num) _).le (by simp only [dTiny64, toQ_ofQ]; norm_num) (by
    show (2:ℚ) ^ (-1074 : ℤ) ≤ 1 / 2 ^ 60
    have : (2:ℚ) ^ (-1074 : ℤ) ≤ 2 ^ (-60 : ℤ) := zpow_le_zpow_right₀ (by norm_num) (by norm_num)
    calc (2:ℚ) ^ (-1074 : ℤ) ≤ 2 ^ (-60 : ℤ) := this
      _ = 1 / 2 ^ 60 := by norm_num)
example : |toQ (Time.sub (Time.add (Ops.rounded b64) tBig64 dTiny64) tBig64)
      - (val (Time.add (Ops.rounded b64) tBig64 dTiny64) - val tBig64)|
    ≤ 4 * b64.eps * max 1 |val (Time.add (Ops.rounded b64) tBig64 dTiny64) - val tBig64| := by
  have hd0 : 0 ≤ toQ dTiny64 := by simp [dTiny64]
  have hd1 : toQ dTiny64 ≤ 2 ^ 40 := by simp only [dTiny64, toQ_ofQ]; norm_num
  have hb := add_q_bound tBig64_rep tBig64_q hd0 hd1
  apply sub_error' (add_normalised tBig64_rep tBig64_q hd0 hd1) tBig64_rep
  have h53 : (2:ℚ) ^ 40 + 1 ≤ 2 ^ 53 := by norm_num
  rw [abs_le]; constructor
  · linarith [hb.1]
  · linarith [hb.2]
/-- floats: the displacement `2^-60` is absorbed by the rounding of `r + d` (`add_ge` cannot be strict) -/
theorem absorbed64 : b64.rnd (toQ tBig64.r + toQ dTiny64) = toQ tBig64.r := by
  show max (-maxDouble) (min maxDouble (brnd rne 53 (-1074) ((1 - 1 / 2 ^ 53) + 1 / 2 ^ 60))) = 1 - 1 / 2 ^ 53
  have l : lg ((1 - 1 / 2 ^ 53) + 1 / 2 ^ 60) = -1 := lg_eq (by norm_num) (by norm_num)
  have e : ex 53 (-1074) ((1 - 1 / 2 ^ 53) + 1 / 2 ^ 60) = -53 := by
    unfold ex; rw [l]; norm_num
  have f : ⌊((1 - 1 / 2 ^ 53) + 1 / 2 ^ 60 : ℚ) / 2 ^ (-53 : ℤ)⌋ = 2 ^ 53 - 1 := by
    rw [Int.floor_eq_iff]; norm_num
  have hb : brnd rne 53 (-1074) ((1 - 1 / 2 ^ 53) + 1 / 2 ^ 60) = 1 - 1 / 2 ^ 53 := by
    simp only [brnd, e, rne, rneInt, f]; norm_num
  have h1 : (1:ℚ) ≤ maxDouble := le_trans (one_le_pow₀ (by norm_num)) maxDouble_ge
  rw [hb, min_eq_right (by linarith [show (1:ℚ) - 1 / 2 ^ 53 ≤ 1 by norm_num]),
    max_eq_right (by linarith [show (0:ℚ) ≤ 1 - 1 / 2 ^ 53 by norm_num])]

example : val (Time.add (Ops.rounded b64) tBig64 dTiny64) = val tBig64 := by
  rw [add_one_rounding tBig64_rep tBig64_q (by simp [dTiny64]) (by simp only [dTiny64, toQ_ofQ]; norm_num),
    absorbed64]; rfl
end binary64

end JF.C14F
