import JF.Lemmas.SystemInvMP2Sys2
import JF.Lemmas.SystemInvMP2Sys3
import JF.Lemmas.C09PoolsClosed2Run
/-!
# E50 — the joint invariant of the composed system of COMPOSITE OBJECTS WITHOUT CELLS, transported to MULTI-PROCESS runs

E48 (`JF/Props/SystemInvMP.lean`) transported the joint invariant of the coulomb_atoms world `JF.Sys.Reach` to multi-process runs.
This module does the same for `JF.Sys2.Reach2` (`JF/Props/SystemInv2.lean`: `joint_inv2` and its closed corollaries), as ONE INSTANCE
of the generic transport `JF/Lemmas/SystemInvMP2Generic.lean` (`CSys`, `Adapter`, `Moves`, `extend`, `mp_run_is_reach`, E48's proof
with the world abstracted; instance: `JF/Lemmas/SystemInvMP2Sys2.lean`, `T2`, `A2`, `reach2_of` / `reach2_to`).

**Statement shape.**  `MPRun2 H needs W v g l cs` (= `SysGen.MPRun (T2 …) (A2 … v) (hyp2_static H) W g l cs`): the multi-process
mediator (any core count, any arities, any adversary) over C20's environment `medEnv` built from the components of `JF.Med.leg`
(spec-level scheduler) and an abstract world `W : C20Loop.World G O XTime` returns the commits `l` (`mp`); `cs` are the legs
`JF.Med.runLegs` makes on the oracle values `oracles W 0 g l` of that run (`legs`); there is an initial state `x0` (`Init2`) whose
composite objects are the view `v g` of the initial global state, and the world moves by the step relation of `JF.Sys2` along the run
(`Moves`, leg by leg `WStep2` — `rstep2_nx_iff` —: the yields are the computed `CW2.yieldCls` of the composite objects `v g`;
`CandsOK2`; `v g → v g'` is `Commits2` of the committing tagger, at the committed time, in the mode `cmodeNext` reads off the activation
flags of the single-process mediator state of that leg).
Then (`mp_run_is_reach2`) the run IS a `Reach2` run with exactly the commits `cs` — handler by handler, time by time the commits `l`
of the multi-process mediator (`mp_refines_medloop`) — ending in a state whose composite objects are `v` of the global state of the
multi-process run after `cs.length` commits (`gAt`), with ghost `csPrev` = `v` of the state before the last commit.  Hence every
closed corollary of `SystemInv2` holds for the multi-process run, with the hypotheses of the original (`Hyp2`; this world needs no
no-tie hypothesis) and `MPRun2`.

**Adapter assumptions** (as E48's, items 2 and 3): `Moves` is a hypothesis on the world ALONG THE RUN; the ghost mode-at-request
`cmode` is not a function of the commits alone, so `Moves` is stated along the tracked state (`A2.nx`: world part read off the global
state after the commit, ghost fields as `SysStep2` prescribes) and the single-process mediator state (`legSt`) — both are FUNCTIONS of
the multi-process run (no existential); the multi-process run is taken over the SPEC-level scheduler instance.  The core count is
unconstrained.

Non-vacuity (`Example`): the seven-leg `Reach2` run of `dipoles/dipole_motion.ini` of `JF/Lemmas/C09PoolsClosed2Run.lean` (both mode
switches, `eocRoot` and `eocLeaf`), under the multi-process machine with 3 cores (out-of-order arrivals, pre-computations) and with
2 cores, over the world `replayWorld os7'` that replays its oracle values.  A concrete computed world (E48's `cwWorld`) for composite
objects is NOT given.

Composite objects WITH cell systems (`JF.Sys3L`, `JF/Props/SystemInv3Loop.lean`): namespace `JF.SystemInvMP2.Cells` at the end of this
file — the same transport for the instance `T3` / `A3 v vo` of `JF/Lemmas/SystemInvMP2Sys3.lean` (`vo` reads the activator's internal
states off the global state: E48's adapter assumption 1): `MPRun3`, `mp_run_is_reach3`, `joint_inv3_mp`, `c09_fresh_closed3_mp`,
`c12_rootConsistent_closed3_mp`, `staysInRecordedCell_closed3_mp`, `c11_consistent_closed3_mp`, `commit_times_sorted_closed3_mp`,
`no_sample_skipped3_mp`, with `Hyp3L`, `TieFree3` and `MPRun3`; non-vacuity on the four-leg run of `dipoles/cell_bounded.ini` of
`JF.SystemInv3Loop.Example`.  NOT transported: `c11_occinv_closed3` (`JF/Props/SystemInv3Occ.lean`) — it is stated for `Reach3From s0`
with a hypothesis `OccInit3` on the initial state `s0`, which the generic `Reach` does not expose.
-/
namespace JF.SystemInvMP2
open JF JF.Act JF.Heap JF.Sched JF.Med JF.CW2 JF.C14 JF.MediatorLoop JF.Sys JF.Sys2 JF.Composite JF.C12 JF.SystemInv2 JF.C20Loop
  JF.SysGen
open JF.SystemInvMP (gAt)

section
variable {G O : Type} {env : Env ℚ} {mw : ModeWiring} {S : TaggerIdx}

/-- **a multi-process run of the composed system of composite objects without cells** -/
abbrev MPRun2 (H : Hyp2 env mw S) (needs : HandlerId → Bool) (W : World G O XTime) (v : G → List (CObj ℚ)) (g : G)
    (l : List (MP.Commit G XTime O)) (cs : List (Committed XTime)) : Prop :=
  MPRun (T2 env mw S needs) (A2 env mw S needs v) (hyp2_static H) W g l cs

variable {H : Hyp2 env mw S} {needs : HandlerId → Bool} {W : World G O XTime} {v : G → List (CObj ℚ)} {g : G}
  {l : List (MP.Commit G XTime O)} {cs : List (Committed XTime)}

/-- the state of `JF.Sys2` that mirrors the multi-process run after the legs `cs` -/
structure Tracks2 (v : G → List (CObj ℚ)) (g : G) (l : List (MP.Commit G XTime O)) (cs : List (Committed XTime)) (s : Sys2) :
    Prop where
  world : s.cs = v (gAt g l cs.length)
  prevWorld : cs ≠ [] → s.csPrev = v (gAt g l (cs.length - 1))

/-- **`mp_run_is_reach2` — the multi-process run IS a run of `JF.Sys2.Reach2`**: with exactly the commits `cs`, on the oracle
values of the multi-process run, ending in a state that mirrors the global state of the multi-process run; and `cs` is, handler by
handler and time by time, the commit list `l` of the multi-process mediator, for all legs unless the loop ended earlier with an
exception or the end-of-run commit -/
theorem mp_run_is_reach2 (R : MPRun2 H needs W v g l cs) :
    ∃ s, Reach2 env mw S needs ((oracles W 0 g l).take cs.length) cs s ∧ Tracks2 v g l cs s ∧
      cs.map keyMed = (l.take cs.length).map keyMP ∧
      (cs.length = l.length ∨ (∃ fin, runLegs (mwire mw.w S needs) (specI xcfg)
          (MedState.init (specI xcfg) (mwire mw.w S needs).w) (oracles W 0 g l) = (cs, fin) ∧ fin = none) ∨
        ∃ cl, cs.getLast? = some cl ∧ cl.stop = true) := by
  obtain ⟨m, x, hr, h1, h2, h3, h4⟩ := mp_run_is_reach R
  exact ⟨X2.toSys x m, reach2_to hr, ⟨h1, h2⟩, h3, h4⟩

/-! ## the closed corollaries of `JF/Props/SystemInv2.lean`, for the multi-process run -/

/-- **the joint invariant holds for the multi-process run** -/
theorem joint_inv2_mp (R : MPRun2 H needs W v g l cs) : ∃ s, Tracks2 v g l cs s ∧ JInv2 env mw S needs cs s := by
  obtain ⟨s, hr, tr, _⟩ := mp_run_is_reach2 R
  exact ⟨s, tr, joint_inv2 H hr⟩

/-- **`c09_fresh_closed2` for the multi-process run**: in the middle of the last leg (`2 ≤` legs), on the concrete state the
multi-process run was in — the composite objects of the global state before the last commit, with the mode read off the activation
flags —, E10's invariant holds, every live tagger is `Fresh` and the activator state is a state of `JF.Act.Run` for `Tr2` -/
theorem c09_fresh_closed2_mp (R : MPRun2 H needs W v g l cs) (h2 : 2 ≤ cs.length) :
    ∃ s : Sys2, s.csPrev = v (gAt g l (cs.length - 1)) ∧
      ∃ hi : Inv env ⟨s.csPrev, ofW (mw.mode (absOf s.mid))⟩,
        (∀ T, (world2 env mw).live T → Fresh (world2 env mw) ⟨s.mid, s.ids, ⟨_, hi⟩⟩ T) ∧
        Act.Run mw.w (world2 env mw) (Tr2 env mw) S ⟨s.mid, s.ids, ⟨_, hi⟩⟩ := by
  obtain ⟨s, hr, tr, _⟩ := mp_run_is_reach2 R
  have hne : cs ≠ [] := by intro h; rw [h] at h2; simp at h2
  exact ⟨s, tr.prevWorld hne, c09_fresh_closed2 H hr h2⟩

/-- **`c12_rootConsistent_closed2` for the multi-process run**, stated on the global state of the multi-process run itself: after
`cs.length` commits every composite object satisfies C12's `Good` (hence `RootConsistent`) and has `nPer` point masses -/
theorem c12_rootConsistent_closed2_mp (R : MPRun2 H needs W v g l cs) :
    AllGood env.d env.L (v (gAt g l cs.length)) ∧ Uniform env.nPer (v (gAt g l cs.length)) ∧
      ∀ c ∈ v (gAt g l cs.length), RootConsistent env.L c := by
  obtain ⟨s, hr, tr, _⟩ := mp_run_is_reach2 R
  have := c12_rootConsistent_closed2 H hr
  rw [tr.world] at this
  exact this

/-- **`c07_one_chain_closed2` for the multi-process run**: in the global state after the last commit of the multi-process mediator
exactly one chain moves (one point mass, or all point masses of one composite object, with one velocity) -/
theorem c07_one_chain_closed2_mp (R : MPRun2 H needs W v g l cs) {cl : Committed XTime} (hl : cs.getLast? = some cl) :
    ∃ s : Sys2, s.cs = v (gAt g l cs.length) ∧
      ∃ E sq m, owner mw.w.wires cl.handler = some E ∧ OneChainM (v (gAt g l cs.length)) sq m ∧
        OneChain (v (gAt g l cs.length)) sq ∧ (cl.stop = false → m = ofW (mw.mode (aStep mw.w (absOf s.mid) E))) := by
  obtain ⟨s, hr, tr, _⟩ := mp_run_is_reach2 R
  have := c07_one_chain_closed2 H hr hl
  rw [tr.world] at this
  exact ⟨s, tr.world, this⟩

/-- **`c08_closed2` for the multi-process run**: the in-state of the interaction event the multi-process mediator committed last is
current — every unit of it moves in the global state the commit was made on as it did in the state its candidate was computed from -/
theorem c08_closed2_mp (R : MPRun2 H needs W v g l cs) {cl : Committed XTime} (hl : cs.getLast? = some cl) :
    ∃ s : Sys2, s.csPrev = v (gAt g l (cs.length - 1)) ∧
      ∃ (hi : Inv env ⟨s.csPrev, ofW (mw.mode (absOf s.mid))⟩) (born : HandlerId → CW2.G env),
        C08.Reach8 mw.w.wires (world2 env mw) (motion2 env mw) S ⟨⟨s.mid, s.ids, ⟨_, hi⟩⟩, born⟩ ∧
        C08.Current (motion2 env mw) ⟨⟨s.mid, s.ids, ⟨_, hi⟩⟩, born⟩ ∧
        ∀ E, owner mw.w.wires cl.handler = some E → motionBound (mw.w.tagger E) = true →
          ∀ u ∈ (motion2 env mw).units (s.ids cl.handler),
            SameMotion2 env.d env.L (born cl.handler).1.cs s.csPrev u := by
  obtain ⟨s, hr, tr, _⟩ := mp_run_is_reach2 R
  have hne : cs ≠ [] := by intro h; rw [h] at hl; simp at hl
  exact ⟨s, tr.prevWorld hne, c08_closed2 H hr hl⟩

/-- **`commit_times_sorted_closed2` for the multi-process run**: the times of the commits of the MULTI-PROCESS mediator never
decrease (on the legs the single-process loop makes on its oracle values: all of them, unless it ends earlier) -/
theorem commit_times_sorted_closed2_mp (R : MPRun2 H needs W v g l cs) {i j : Nat} (hij : i < j) (hj : j < cs.length)
    {a b : MP.Commit G XTime O} (ha : l[i]? = some a) (hb : l[j]? = some b) : xcfg.lt b.time a.time = false := by
  obtain ⟨s, hr, _, hkey, _⟩ := mp_run_is_reach2 R
  obtain ⟨ci, hci, _, hti⟩ := key_at hkey (by omega : i < cs.length) ha
  obtain ⟨cj, hcj, _, htj⟩ := key_at hkey hj hb
  have hp := commit_times_sorted_closed2 H hr
  rw [List.pairwise_iff_getElem] at hp
  have hi' : i < cs.length := by omega
  have := hp i j hi' hj hij
  rw [List.getElem?_eq_getElem hi'] at hci
  rw [List.getElem?_eq_getElem hj] at hcj
  rw [Option.some.inj hci, Option.some.inj hcj, hti, htj] at this
  exact this

/-- **`no_sample_skipped2` for the multi-process run**: while a sampling candidate `ts` is pending in leg `k`, the event the
multi-process mediator commits in that leg is not later than `ts`, and when the sampling handler itself is committed, it is
committed at exactly `ts` -/
theorem no_sample_skipped2_mp (R : MPRun2 H needs W v g l cs) {k : Nat} {cm : Committed XTime} (hk : cs[k]? = some cm)
    {a : MP.Commit G XTime O} (ha : l[k]? = some a) {hs : HandlerId} {ts : XTime} (hkind : kindOfH mw.w hs = .sampling)
    (hp : pendPushed (pendOf (fun _ => none) (cs.take k)) cm hs = some ts) (hfin : xcfg.finite ts = true) :
    xcfg.lt ts a.time = false ∧ (a.handler = hs → a.time = ts) := by
  obtain ⟨s, hr, _, hkey, _⟩ := mp_run_is_reach2 R
  have hklt : k < cs.length := (List.getElem?_eq_some_iff.mp hk).1
  obtain ⟨c', hc', hh, ht⟩ := key_at hkey hklt ha
  rw [hk] at hc'
  have : cm = c' := Option.some.inj hc'
  subst this
  have := no_sample_skipped2 H hr hk hkind hp hfin
  rw [hh, ht] at this
  exact this

/-- **`c08_stale_trashed_closed2` for the multi-process run**: a handler of an interaction tagger whose event was pending at a
motion-changing commit (leg `k`) is committed by the MULTI-PROCESS mediator in a later leg `j` only after it was handed out again -/
theorem c08_stale_trashed_closed2_mp (R : MPRun2 H needs W v g l cs) {k j : Nat} {ck : Committed XTime}
    (hk : cs[k]? = some ck) {E : TaggerIdx} (hE : owner mw.w.wires ck.handler = some E)
    (hm : affects (mw.w.tagger E) .motion = true) {h : HandlerId} {T : TaggerIdx} (hT : owner mw.w.wires h = some T)
    (hb : motionBound (mw.w.tagger T) = true)
    (hp : (pendPushed (pendOf (fun _ => none) (cs.take k)) ck h).isSome) (hkj : k < j) (hj : j < cs.length)
    {a : MP.Commit G XTime O} (ha : l[j]? = some a) (hc : a.handler = h) :
    h ∈ ck.trashed ∧ ∃ (i : Nat) (ci : Committed XTime), k < i ∧ i ≤ j ∧ cs[i]? = some ci ∧ h ∈ ci.created.map Prod.fst := by
  obtain ⟨s, hr, _, hkey, _⟩ := mp_run_is_reach2 R
  obtain ⟨cj, hcj, hh, _⟩ := key_at hkey hj ha
  obtain ⟨h1, h2⟩ := c08_stale_trashed_closed2 H hr (j := j) (cj := cj) hk hE hm hT hb hp
  exact ⟨h1, h2 hkj hcj (by rw [hh, hc])⟩

end

/-! ## non-vacuity: the seven-leg run of `dipole_motion.ini` under the multi-process machine -/

namespace Example
open JF.C09Pools.Closed2.Example
open JF.SystemInvMP (replayWorld oracles_replay runLegs_of_run PostChain runSP_postChain)

def os7' : List (Oracle XTime) :=
  [mkO s0.cs cand1, mkO s1.cs cand2, mkO s2.cs cand3, mkO s3.cs cand4, mkO s4.cs cand5, mkO s5.cs cand6, mkO s6.cs cand7]
def cs7' : List (Committed XTime) := [c1, c2, c3, c4, c5, c6, c7]

theorem os7_eq : os7 = os7' := rfl
theorem cs7_eq : cs7c = cs7' := rfl

def W : World Nat Unit XTime := replayWorld os7'
/-- the view reads the composite objects of the recorded states -/
def v : Nat → List (CObj ℚ) := fun k => (([s0, s1, s2, s3, s4, s5, s6, s7][k]?).getD s0).cs

theorem L : Laws xcfg (specI xcfg) xcfg.finite (SRel xcfg) := specLaws xcfg_strictWeak
theorem static : Static (mwire cfg 10 needs) := hyp2_static hyp

def cfg3 : MP.Cfg := ⟨3, fun _ => false⟩
def cfg2 : MP.Cfg := ⟨2, fun _ => false⟩

/-- handed out per leg: [11]; [1, 0, 2, 6, 7, 10, 9]; [3, 5, 4, 8, 9]; [3, 4, 5]; [9, 3, 5, 4]; [1, 0, 2, 7, 9]; [1, 0, 2] -/
def adv3 : List (List (List Nat)) :=
  [[[11]], [[9, 10], [7, 6], [2, 0], [1]], [[9, 8], [4, 5], [3]], [[5, 4], [3]], [[4, 5], [3, 9]], [[9, 7], [2, 0], [1]],
   [[2], [0, 1]]]
def adv2 : List (List (List Nat)) :=
  [[[11]], [[9], [10, 7, 6, 2, 0, 1]], [[9, 8, 4, 5, 3]], [[5], [4], [3]], [[4, 5, 3, 9]], [[9, 7, 2, 0, 1]], [[2, 0, 1]]]

def sp : List (MP.Commit Nat XTime Unit) := spRun L static W 7 0 (fun _ => 0)

theorem mp_ok3 : mpRun L static W cfg3 adv3 0 (fun _ => 0) = .ok sp := by
  rcases mp_refines_spRun L static W cfg3 adv3 0 (fun _ => 0) with h | ⟨m, h | h⟩
  · exact h
  · have : (mpRun L static W cfg3 adv3 0 (fun _ => 0)).toOption.isSome = true := by decide +kernel
    rw [h] at this; cases this
  · have : (mpRun L static W cfg3 adv3 0 (fun _ => 0)).toOption.isSome = true := by decide +kernel
    rw [h] at this; cases this

theorem mp_ok2 : mpRun L static W cfg2 adv2 0 (fun _ => 0) = .ok sp := by
  rcases mp_refines_spRun L static W cfg2 adv2 0 (fun _ => 0) with h | ⟨m, h | h⟩
  · exact h
  · have : (mpRun L static W cfg2 adv2 0 (fun _ => 0)).toOption.isSome = true := by decide +kernel
    rw [h] at this; cases this
  · have : (mpRun L static W cfg2 adv2 0 (fun _ => 0)).toOption.isSome = true := by decide +kernel
    rw [h] at this; cases this

theorem sp_chain : PostChain W 0 sp := runSP_postChain _ _ _ _ _ _ _ _ _
theorem sp_length : sp.length = 7 := runSP_length _ _ _ _ _ _ _

/-- the oracle values of the multi-process run are the recorded ones -/
theorem sp_oracles : oracles W 0 0 sp = os7' := by
  have := oracles_replay os7' sp 0 sp_chain (by rw [sp_length]; decide)
  rw [sp_length] at this
  exact this

theorem reach7' : Reach2 env mw 10 needs os7' cs7' s7 := reach7

/-- the single-process loop on them makes the seven legs of the recorded run -/
theorem legs7 : runLegs (mwire cfg 10 needs) (specI xcfg) (MedState.init (specI xcfg) (mwire cfg 10 needs).w) (oracles W 0 0 sp) =
    (cs7', some s7.med) := by
  rw [sp_oracles]
  refine runLegs_of_run (SystemInv2.reach_medRun2 reach7') ?_
  have : cs7'.all (fun c => !c.stop) = true := by decide +kernel
  intro c hc
  simpa using List.all_eq_true.mp this c hc

/-- a leg `SysStep2` as a link of the forward chain -/
theorem link {s s' : Sys2} {o : Oracle XTime} {cm : Committed XTime} (hstep : SysStep2 env mw 10 needs s o cm s') {k : Nat}
    (hsee : s'.cs = v (k + 1)) {os : List (Oracle XTime)} {cs : List (Committed XTime)}
    (rest : RChain (T2 env mw 10 needs) (A2 env mw 10 needs v) (k + 1) s'.med (xOf s') os cs) :
    RChain (T2 env mw 10 needs) (A2 env mw 10 needs v) k s.med (xOf s) (o :: os) (cm :: cs) :=
  .cons (T := T2 env mw 10 needs) hstep.leg
    (show RStep2 env mw 10 needs _ _ _ _ _ _ from
      ⟨hstep.yields, hstep.cands, hstep.ev, hstep.ids', hstep.prev, hstep.mid', hstep.cmode'⟩)
    (show (A2 env mw 10 needs v).sees (xOf s') (k + 1) from hsee) rest

theorem chain7 : RChain (T2 env mw 10 needs) (A2 env mw 10 needs v) 0 s0.med (xOf s0) os7' cs7' :=
  link step1 rfl (link step2 rfl (link step3 rfl (link step4 rfl (link step5 rfl (link step6 rfl (link step7 rfl
    (.nil _ _ _)))))))

theorem moves7 : Moves (T2 env mw 10 needs) (A2 env mw 10 needs v) W (MedState.init (specI xcfg) (mwire cfg 10 needs).w)
    (xOf s0) 0 0 sp cs7' :=
  moves_replay (nx2_unique v) os7' chain7 sp rfl sp_chain (by rw [sp_length]; decide)

/-- **the multi-process runs (3 cores and 2 cores) of the seven-leg run are `MPRun2`s** -/
theorem mpRun3 : MPRun2 hyp needs W v 0 sp cs7' :=
  ⟨⟨cfg3, adv3, fun _ => 0, mp_ok3⟩, ⟨xOf s0, init0, rfl, moves7⟩, ⟨_, legs7⟩⟩
theorem mpRun2 : MPRun2 hyp needs W v 0 sp cs7' :=
  ⟨⟨cfg2, adv2, fun _ => 0, mp_ok2⟩, ⟨xOf s0, init0, rfl, moves7⟩, ⟨_, legs7⟩⟩

/-- what the multi-process mediator commits: the handlers and times of the single-process run -/
example : sp.map keyMP = cs7'.map keyMed := by
  obtain ⟨_, _, _, hkey, _⟩ := mp_run_is_reach2 mpRun3
  rw [show cs7'.length = 7 from rfl, ← sp_length, List.take_length] at hkey
  exact hkey.symm

/-! ### the theorems apply -/

example : ∃ s, Tracks2 v 0 sp cs7' s ∧ JInv2 env mw 10 needs cs7' s := joint_inv2_mp mpRun3

example : AllGood env.d env.L (v (gAt 0 sp 7)) ∧ Uniform env.nPer (v (gAt 0 sp 7)) ∧ ∀ c ∈ v (gAt 0 sp 7), RootConsistent env.L c :=
  c12_rootConsistent_closed2_mp mpRun2

example : ∃ s : Sys2, s.csPrev = v (gAt 0 sp 6) ∧
    ∃ hi : Inv env ⟨s.csPrev, ofW (mw.mode (absOf s.mid))⟩,
      (∀ T, (world2 env mw).live T → Fresh (world2 env mw) ⟨s.mid, s.ids, ⟨_, hi⟩⟩ T) ∧
      Act.Run mw.w (world2 env mw) (Tr2 env mw) 10 ⟨s.mid, s.ids, ⟨_, hi⟩⟩ :=
  c09_fresh_closed2_mp mpRun2 (by decide)

example : ∃ sq, OneChain (v (gAt 0 sp 7)) sq := by
  obtain ⟨_, _, _, sq, _, _, _, h, _⟩ := c07_one_chain_closed2_mp mpRun3 (cl := c7) (by simp [cs7'])
  exact ⟨sq, h⟩

theorem sp1 : (sp[1]?).isSome = true := by rw [List.getElem?_eq_getElem (by rw [sp_length]; decide)]; rfl
theorem sp2 : (sp[2]?).isSome = true := by rw [List.getElem?_eq_getElem (by rw [sp_length]; decide)]; rfl

/-- the commit times of the multi-process run: leg 2 (`coulomb_root`, 1/2) is not before leg 1 (`leaf_to_root`, 1/4) -/
example : xcfg.lt ((sp[2]?).get sp2).time ((sp[1]?).get sp1).time = false :=
  commit_times_sorted_closed2_mp mpRun3 (i := 1) (j := 2) (by decide) (by decide)
    (Option.some_get sp1).symm (Option.some_get sp2).symm

end Example

end JF.SystemInvMP2

/-! # Composite objects WITH cell systems (`JF.Sys3L`) -/

namespace JF.SystemInvMP2.Cells
open JF JF.Act JF.Heap JF.Sched JF.Med JF.CW3 JF.C14 JF.MediatorLoop JF.Sys JF.Sys3 JF.Sys3L JF.Composite JF.C12 JF.Footprints3
  JF.SystemInv3Loop JF.C20Loop JF.SysGen JF.SystemInvMP2
open JF.SystemInvMP (gAt)

section
variable {G O : Type} {env : Env ℚ} {geo : ∀ l, Geo (cwEnv env l)} {mw : ModeWiring} {S : TaggerIdx}

/-- **a multi-process run of the composed system of composite objects with cell systems** -/
abbrev MPRun3 (H : Hyp3L env mw S) (geo : ∀ l, Geo (cwEnv env l)) (needs : HandlerId → Bool) (W : World G O XTime)
    (v : G → List (CObj ℚ)) (vo : G → List Occ.State) (g : G) (l : List (MP.Commit G XTime O)) (cs : List (Committed XTime)) :
    Prop :=
  MPRun (T3 env geo mw S needs) (A3 env geo mw S needs v vo) (hyp3_static (needs := needs) H) W g l cs

variable {H : Hyp3L env mw S} {needs : HandlerId → Bool} {W : World G O XTime} {v : G → List (CObj ℚ)}
  {vo : G → List Occ.State} {g : G} {l : List (MP.Commit G XTime O)} {cs : List (Committed XTime)}

/-- the state of `JF.Sys3L` that mirrors the multi-process run after the legs `cs` -/
structure Tracks3 (v : G → List (CObj ℚ)) (vo : G → List Occ.State) (g : G) (l : List (MP.Commit G XTime O))
    (cs : List (Committed XTime)) (s : Sys3) : Prop where
  world : s.cs = v (gAt g l cs.length)
  occs : s.occs = vo (gAt g l cs.length)
  prevWorld : cs ≠ [] → s.csPrev = v (gAt g l (cs.length - 1))

/-- **`mp_run_is_reach3` — the multi-process run IS a run of `JF.Sys3L.Reach3`** with exactly the commits `cs` -/
theorem mp_run_is_reach3 (R : MPRun3 H geo needs W v vo g l cs) :
    ∃ s, Reach3 env geo mw S needs ((oracles W 0 g l).take cs.length) cs s ∧ Tracks3 v vo g l cs s ∧
      cs.map keyMed = (l.take cs.length).map keyMP ∧
      (cs.length = l.length ∨ (∃ fin, runLegs (mwire mw.w S needs) (specI xcfg)
          (MedState.init (specI xcfg) (mwire mw.w S needs).w) (oracles W 0 g l) = (cs, fin) ∧ fin = none) ∨
        ∃ cl, cs.getLast? = some cl ∧ cl.stop = true) := by
  obtain ⟨m, x, hr, h1, h2, h3, h4⟩ := mp_run_is_reach R
  exact ⟨X3.toSys x m, reach3_to hr, ⟨h1.1, h1.2, h2⟩, h3, h4⟩

/-- **the joint invariant holds for the multi-process run** -/
theorem joint_inv3_mp (R : MPRun3 H geo needs W v vo g l cs) (nt : TieFree3 mw cs) :
    ∃ s, Tracks3 v vo g l cs s ∧ JInv3 env mw S needs cs s := by
  obtain ⟨s, hr, tr, _⟩ := mp_run_is_reach3 R
  exact ⟨s, tr, joint_inv3 H hr nt⟩

/-- **`c09_fresh_closed3` for the multi-process run** -/
theorem c09_fresh_closed3_mp (R : MPRun3 H geo needs W v vo g l cs) (nt : TieFree3 mw cs) (h2 : 2 ≤ cs.length) :
    ∃ s : Sys3, s.csPrev = v (gAt g l (cs.length - 1)) ∧ s.occs = vo (gAt g l cs.length) ∧
      ∃ hi : Inv3 env mw ⟨s.csPrev, .leaf, s.occs⟩,
        (∀ T, (world3 env mw).live T → Fresh (world3 env mw) ⟨s.mid, s.ids, ⟨_, hi⟩⟩ T) ∧
        Act.Run mw.w (world3 env mw) (Tr3 env mw) S ⟨s.mid, s.ids, ⟨_, hi⟩⟩ := by
  obtain ⟨s, hr, tr, _⟩ := mp_run_is_reach3 R
  have hne : cs ≠ [] := by intro h; rw [h] at h2; simp at h2
  exact ⟨s, tr.prevWorld hne, tr.occs, c09_fresh_closed3 H hr nt h2⟩

/-- **`c12_rootConsistent_closed3` for the multi-process run**, on the global state of the multi-process run itself -/
theorem c12_rootConsistent_closed3_mp (R : MPRun3 H geo needs W v vo g l cs) (nt : TieFree3 mw cs) :
    AllGood env.base.d env.base.L (v (gAt g l cs.length)) ∧ CW2.Uniform env.base.nPer (v (gAt g l cs.length)) ∧
      (∀ c ∈ v (gAt g l cs.length), RootConsistent env.base.L c) ∧
      (AllRest (v (gAt g l cs.length)) ∨ ∃ sq, OneChainM (v (gAt g l cs.length)) sq .leaf) := by
  obtain ⟨s, hr, tr, _⟩ := mp_run_is_reach3 R
  have := c12_rootConsistent_closed3 H hr nt
  rw [tr.world] at this
  exact this

/-- **`staysInRecordedCell_closed3` for the multi-process run**: after the commit of a tagger that does not affect cell system `lab`
the active unit of the new global state is still in the cell the carried occupancy of `lab` records for it -/
theorem staysInRecordedCell_closed3_mp (R : MPRun3 H geo needs W v vo g l cs) (nt : TieFree3 mw cs) {cl : Committed XTime}
    (hl : cs.getLast? = some cl) {E : TaggerIdx} (hE : owner mw.w.wires cl.handler = some E) {lab : Nat}
    (hlab : lab < mw.w.labels.length) (haff : affects (mw.w.tagger E) (.cell lab) = false) :
    StaysInRecordedCell env.base.nPer (env.oe lab) (getOcc (vo (gAt g l cs.length)) lab) (v (gAt g l cs.length)) := by
  obtain ⟨s, hr, tr, _⟩ := mp_run_is_reach3 R
  have := staysInRecordedCell_closed3 H hr nt hl hE hlab haff
  rw [tr.world, tr.occs] at this
  exact this

/-- **`c11_consistent_closed3` for the multi-process run**: the occupancy of internal state `lab` carried by the global state after
`cs.length` commits is consistent with the global state before the last commit (the state it was updated on) -/
theorem c11_consistent_closed3_mp (R : MPRun3 H geo needs W v vo g l cs) (nt : TieFree3 mw cs) (hne : cs ≠ []) {lab : Nat}
    (hlab : lab < mw.w.labels.length) :
    ConsistentOcc (env.oe lab).relevant
      (unitsOn env.base.nPer (env.oe lab).level (CW2.flags (v (gAt g l (cs.length - 1))))) (getOcc (vo (gAt g l cs.length)) lab) := by
  obtain ⟨s, hr, tr, _⟩ := mp_run_is_reach3 R
  have := c11_consistent_closed3 H hr nt hlab
  rw [tr.prevWorld hne, tr.occs] at this
  exact this

/-- **`commit_times_sorted_closed3` for the multi-process run** -/
theorem commit_times_sorted_closed3_mp (R : MPRun3 H geo needs W v vo g l cs) (nt : TieFree3 mw cs) {i j : Nat} (hij : i < j)
    (hj : j < cs.length) {a b : MP.Commit G XTime O} (ha : l[i]? = some a) (hb : l[j]? = some b) :
    xcfg.lt b.time a.time = false := by
  obtain ⟨s, hr, _, hkey, _⟩ := mp_run_is_reach3 R
  obtain ⟨ci, hci, _, hti⟩ := key_at hkey (by omega : i < cs.length) ha
  obtain ⟨cj, hcj, _, htj⟩ := key_at hkey hj hb
  have hp := commit_times_sorted_closed3 H hr nt
  rw [List.pairwise_iff_getElem] at hp
  have hi' : i < cs.length := by omega
  have := hp i j hi' hj hij
  rw [List.getElem?_eq_getElem hi'] at hci
  rw [List.getElem?_eq_getElem hj] at hcj
  rw [Option.some.inj hci, Option.some.inj hcj, hti, htj] at this
  exact this

/-- **`no_sample_skipped3` for the multi-process run** -/
theorem no_sample_skipped3_mp (R : MPRun3 H geo needs W v vo g l cs) {k : Nat} {cm : Committed XTime} (hk : cs[k]? = some cm)
    {a : MP.Commit G XTime O} (ha : l[k]? = some a) {hs : HandlerId} {ts : XTime} (hkind : kindOfH mw.w hs = .sampling)
    (hp : pendPushed (pendOf (fun _ => none) (cs.take k)) cm hs = some ts) (hfin : xcfg.finite ts = true) :
    xcfg.lt ts a.time = false ∧ (a.handler = hs → a.time = ts) := by
  obtain ⟨s, hr, _, hkey, _⟩ := mp_run_is_reach3 R
  have hklt : k < cs.length := (List.getElem?_eq_some_iff.mp hk).1
  obtain ⟨c', hc', hh, ht⟩ := key_at hkey hklt ha
  rw [hk] at hc'
  have : cm = c' := Option.some.inj hc'
  subst this
  have := no_sample_skipped3 H hr hk hkind hp hfin
  rw [hh, ht] at this
  exact this

end

/-! ## non-vacuity: the four-leg run of `dipoles/cell_bounded.ini` of `JF.SystemInv3Loop.Example` under the multi-process machine -/

namespace Example
open JF.SystemInv3Loop.Example
open JF.SystemInvMP (replayWorld oracles_replay runLegs_of_run PostChain runSP_postChain)

def os4' : List (Oracle XTime) := [mkO s0.cs [occ0] cand1, mkO s1.cs occs1 cand2, mkO s2.cs occs2 cand3, mkO s3.cs occs3 cand4]
def cs4' : List (Committed XTime) := [c1, c2, c3, c4]

def W : World Nat Unit XTime := replayWorld os4'
def v : Nat → List (CObj ℚ) := fun k => (([s0, s1, s2, s3, s4][k]?).getD s0).cs
def vo : Nat → List Occ.State := fun k => (([s0, s1, s2, s3, s4][k]?).getD s0).occs

theorem L : Laws xcfg (specI xcfg) xcfg.finite (SRel xcfg) := specLaws xcfg_strictWeak
theorem static : Static (mwire cfg 9 needs) := hyp3_static hyp

def cfg3 : MP.Cfg := ⟨3, fun _ => false⟩

/-- handed out per leg: [9]; [0, 3, 4, 5, 6, 7, 8]; [6]; [0, 3] -/
def adv3 : List (List (List Nat)) := [[[9]], [[8, 7], [6, 5], [4, 0], [3]], [[6]], [[3], [0]]]

def sp : List (MP.Commit Nat XTime Unit) := spRun L static W 4 0 (fun _ => 0)

theorem mp_ok3 : mpRun L static W cfg3 adv3 0 (fun _ => 0) = .ok sp := by
  rcases mp_refines_spRun L static W cfg3 adv3 0 (fun _ => 0) with h | ⟨m, h | h⟩
  · exact h
  · have : (mpRun L static W cfg3 adv3 0 (fun _ => 0)).toOption.isSome = true := by decide +kernel
    rw [h] at this; cases this
  · have : (mpRun L static W cfg3 adv3 0 (fun _ => 0)).toOption.isSome = true := by decide +kernel
    rw [h] at this; cases this

theorem sp_chain : PostChain W 0 sp := runSP_postChain _ _ _ _ _ _ _ _ _
theorem sp_length : sp.length = 4 := runSP_length _ _ _ _ _ _ _

theorem sp_oracles : oracles W 0 0 sp = os4' := by
  have := oracles_replay os4' sp 0 sp_chain (by rw [sp_length]; decide)
  rw [sp_length] at this
  exact this

theorem reach4' : Reach3 env geo mw 9 needs os4' cs4' s4 := reach4

theorem legs4 : runLegs (mwire cfg 9 needs) (specI xcfg) (MedState.init (specI xcfg) (mwire cfg 9 needs).w) (oracles W 0 0 sp) =
    (cs4', some s4.med) := by
  rw [sp_oracles]
  refine runLegs_of_run (reach_medRun3 reach4') ?_
  have : cs4'.all (fun c => !c.stop) = true := by decide +kernel
  intro c hc
  simpa using List.all_eq_true.mp this c hc

theorem link {s s' : Sys3} {o : Oracle XTime} {cm : Committed XTime} (hstep : SysStep3 env geo mw 9 needs s o cm s') {k : Nat}
    (hsee : s'.cs = v (k + 1) ∧ s'.occs = vo (k + 1)) {os : List (Oracle XTime)} {cs : List (Committed XTime)}
    (rest : RChain (T3 env geo mw 9 needs) (A3 env geo mw 9 needs v vo) (k + 1) s'.med (xOf3 s') os cs) :
    RChain (T3 env geo mw 9 needs) (A3 env geo mw 9 needs v vo) k s.med (xOf3 s) (o :: os) (cm :: cs) :=
  .cons (T := T3 env geo mw 9 needs) hstep.leg
    (show RStep3 env geo mw 9 needs (eraseS s.med) _ (xOf3 s) o cm (xOf3 s') from
      ⟨hstep.occ1, hstep.yields, hstep.cands, hstep.ev, hstep.ids', hstep.prev, hstep.mid'⟩)
    (show (A3 env geo mw 9 needs v vo).sees (xOf3 s') (k + 1) from hsee) rest

theorem chain4 : RChain (T3 env geo mw 9 needs) (A3 env geo mw 9 needs v vo) 0 s0.med (xOf3 s0) os4' cs4' :=
  link step1 ⟨rfl, rfl⟩ (link step2 ⟨rfl, rfl⟩ (link step3 ⟨rfl, rfl⟩ (link step4 ⟨rfl, rfl⟩ (.nil _ _ _))))

theorem moves4 : Moves (T3 env geo mw 9 needs) (A3 env geo mw 9 needs v vo) W (MedState.init (specI xcfg) (mwire cfg 9 needs).w)
    (xOf3 s0) 0 0 sp cs4' :=
  moves_replay (nx3_unique v vo) os4' chain4 sp rfl sp_chain (by rw [sp_length]; decide)

/-- **the multi-process run (3 cores) of the four-leg run is an `MPRun3`** -/
theorem mpRun3 : MPRun3 hyp geo needs W v vo 0 sp cs4' :=
  ⟨⟨cfg3, adv3, fun _ => 0, mp_ok3⟩, ⟨xOf3 s0, init0, ⟨rfl, rfl⟩, moves4⟩, ⟨_, legs4⟩⟩

theorem tieFree4' : TieFree3 mw cs4' := tieFree4

example : ∃ s, Tracks3 v vo 0 sp cs4' s ∧ JInv3 env mw 9 needs cs4' s := joint_inv3_mp mpRun3 tieFree4'

example : ∃ s : Sys3, s.csPrev = v (gAt 0 sp 3) ∧ s.occs = vo (gAt 0 sp 4) ∧
    ∃ hi : Inv3 env mw ⟨s.csPrev, .leaf, s.occs⟩,
      (∀ T, (world3 env mw).live T → Fresh (world3 env mw) ⟨s.mid, s.ids, ⟨_, hi⟩⟩ T) ∧
      Act.Run mw.w (world3 env mw) (Tr3 env mw) 9 ⟨s.mid, s.ids, ⟨_, hi⟩⟩ :=
  c09_fresh_closed3_mp mpRun3 tieFree4' (by decide)

example : ConsistentOcc (env.oe 0).relevant (unitsOn env.base.nPer (env.oe 0).level (CW2.flags (v (gAt 0 sp 3))))
    (getOcc (vo (gAt 0 sp 4)) 0) :=
  c11_consistent_closed3_mp mpRun3 tieFree4' (by decide) (by decide)

end Example

end JF.SystemInvMP2.Cells
