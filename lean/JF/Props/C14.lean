import JF.Model.Time
import JF.Lemmas.PyArith
/-!
# C14 — Time stamps keep full resolution and order however long the run is

Exact reading (`Ops.rat`): the model of `base/time.py`, instantiated over `ℚ`, is a faithful
representation of the rational number `quotient + remainder`.
The float reading of the same definitions is what the driver runs against the real class.
-/
namespace JF.C14
open JF

/-- the rational number a time stands for -/
def val (t : Time ℚ) : ℚ := t.q + t.r

/-- integer quotient, remainder in `[0, 1)` -/
def Normalised (t : Time ℚ) : Prop := (∃ n : ℤ, t.q = n) ∧ 0 ≤ t.r ∧ t.r < 1

theorem add_eq (t : Time ℚ) (d : ℚ) :
    Time.add Ops.rat t d = ⟨t.q + ⌊t.r + d⌋, t.r + d - ⌊t.r + d⌋⟩ := by
  simp only [Time.add, rat_isInf, pydivmod1_rat]; rfl

/-- Adding is exact: no `q` enters the remainder computation. -/
theorem add_val (t : Time ℚ) (d : ℚ) : val (Time.add Ops.rat t d) = val t + d := by
  rw [add_eq]; simp only [val]; ring

theorem add_normalised (t : Time ℚ) (d : ℚ) (h : Normalised t) :
    Normalised (Time.add Ops.rat t d) := by
  rw [add_eq]
  obtain ⟨⟨n, hn⟩, _, _⟩ := h
  refine ⟨⟨n + ⌊t.r + d⌋, by simp [hn]⟩, ?_, ?_⟩
  · simp only; linarith [Int.floor_le (t.r + d)]
  · simp only; linarith [Int.lt_floor_add_one (t.r + d)]

theorem fromFloat_exact (x : ℚ) :
    val (Time.fromFloat Ops.rat x) = x ∧ Normalised (Time.fromFloat Ops.rat x) := by
  have : Time.fromFloat Ops.rat x = ⟨(⌊x⌋ : ℚ), x - ⌊x⌋⟩ := by
    simp only [Time.fromFloat, rat_isInf, pydivmod1_rat]; rfl
  rw [this]
  refine ⟨by simp [val], ⟨⌊x⌋, rfl⟩, ?_, ?_⟩
  · simp only; linarith [Int.floor_le x]
  · simp only; linarith [Int.lt_floor_add_one x]

theorem sub_exact (t u : Time ℚ) : Time.sub t u = val t - val u := by
  simp only [Time.sub, val]; ring

/-- the key order fact: lexicographic order on (integer, fraction) is the order of the sum -/
theorem lex_iff {a b : ℤ} {r s : ℚ} (hr0 : 0 ≤ r) (hr1 : r < 1) (hs0 : 0 ≤ s) (hs1 : s < 1) :
    ((a:ℚ) < b ∨ ((a:ℚ) = b ∧ r < s)) ↔ (a:ℚ) + r < b + s := by
  constructor
  · rintro (h | ⟨h, h'⟩)
    · have : a + 1 ≤ b := by exact_mod_cast h
      have : (a:ℚ) + 1 ≤ b := by exact_mod_cast this
      linarith
    · linarith
  · intro h
    rcases lt_trichotomy a b with hab | hab | hab
    · left; exact_mod_cast hab
    · right; subst hab; exact ⟨rfl, by linarith⟩
    · exfalso
      have : b + 1 ≤ a := hab
      have : (b:ℚ) + 1 ≤ a := by exact_mod_cast this
      linarith

theorem lt_iff (t u : Time ℚ) (ht : Normalised t) (hu : Normalised u) :
    Time.lt t u = true ↔ val t < val u := by
  obtain ⟨⟨a, ha⟩, hr0, hr1⟩ := ht
  obtain ⟨⟨b, hb⟩, hs0, hs1⟩ := hu
  simp only [Time.lt, val, ha, hb, Bool.or_eq_true, Bool.and_eq_true, decide_eq_true_eq, beq_iff_eq]
  exact lex_iff hr0 hr1 hs0 hs1

/-- the C heap's comparison is the same lexicographic order -/
theorem cLt_iff (t u : Time ℚ) (ht : Normalised t) (hu : Normalised u) :
    Time.cLt t u = true ↔ val t < val u := lt_iff t u ht hu

theorem eq_iff (t u : Time ℚ) (ht : Normalised t) (hu : Normalised u) :
    Time.eq t u = true ↔ val t = val u := by
  obtain ⟨⟨a, ha⟩, hr0, hr1⟩ := ht
  obtain ⟨⟨b, hb⟩, hs0, hs1⟩ := hu
  simp only [Time.eq, val, ha, hb, Bool.and_eq_true, beq_iff_eq]
  constructor
  · rintro ⟨h, h'⟩; rw [h, h']
  · intro h
    rcases lt_trichotomy a b with hab | hab | hab
    · exfalso
      have : a + 1 ≤ b := hab
      have : (a:ℚ) + 1 ≤ b := by exact_mod_cast this
      linarith
    · subst hab; exact ⟨rfl, by linarith⟩
    · exfalso
      have : b + 1 ≤ a := hab
      have : (b:ℚ) + 1 ≤ a := by exact_mod_cast this
      linarith

theorem gt_iff (t u : Time ℚ) (ht : Normalised t) (hu : Normalised u) :
    Time.gt t u = true ↔ val t > val u := by
  have h1 := lt_iff t u ht hu
  have h2 := eq_iff t u ht hu
  simp only [Time.gt, Bool.and_eq_true, Bool.not_eq_true']
  rw [← Bool.not_eq_true, ← Bool.not_eq_true, h1, h2]
  constructor
  · rintro ⟨a, b⟩; exact lt_of_le_of_ne (not_lt.mp a) (Ne.symm b)
  · intro h; exact ⟨not_lt.mpr h.le, ne_of_gt h⟩

theorem le_iff (t u : Time ℚ) (ht : Normalised t) (hu : Normalised u) :
    Time.le t u = true ↔ val t ≤ val u := by
  simp only [Time.le, Bool.or_eq_true, lt_iff t u ht hu, eq_iff t u ht hu]
  exact le_iff_lt_or_eq.symm

theorem ge_iff (t u : Time ℚ) (ht : Normalised t) (hu : Normalised u) :
    Time.ge t u = true ↔ val t ≥ val u := by
  simp only [Time.ge, Bool.not_eq_true']
  rw [← Bool.not_eq_true, lt_iff t u ht hu]; exact not_lt

/-- addition is monotone in the displacement -/
theorem add_mono (t : Time ℚ) (d d' : ℚ) (ht : Normalised t) (h : d ≤ d') :
    Time.le (Time.add Ops.rat t d) (Time.add Ops.rat t d') = true := by
  rw [le_iff _ _ (add_normalised t d ht) (add_normalised t d' ht), add_val, add_val]; linarith

/-- adding a non-negative displacement never decreases the time -/
theorem add_ge (t : Time ℚ) (d : ℚ) (ht : Normalised t) (h : 0 ≤ d) :
    Time.le t (Time.add Ops.rat t d) = true := by
  rw [le_iff _ _ ht (add_normalised t d ht), add_val]; linarith

/-- infinity is absorbing, for every scalar type and every `Ops` (so also for binary64) -/
theorem add_inf {α : Type} [Add α] [Sub α] [Mul α] [Div α] [Neg α] [LT α] [DecidableLT α] [BEq α]
    (o : Ops α) (t : Time α) (d : α) (h : o.isInf d = true) : Time.add o t d = ⟨d, d⟩ := by
  simp [Time.add, h]

/-- non-vacuity: a normalised time with a huge quotient and the largest remainder below one -/
example : Normalised ⟨(2:ℚ)^52, 1 - 1/2^53⟩ := by
  refine ⟨⟨2^52, by norm_num⟩, by norm_num, by norm_num⟩

/-! ## times are values: in-place `update` and fresh results (register reading, `JF.Time.Regs`) -/

/-- `update` gives the target register the value of the source … -/
theorem update_value {α : Type} (z : Time α) (s : Time.Regs α) (i j : Nat) (hi : i < s.length) :
    (s.update z i j).get z i = s.get z j := by
  simp [Time.Regs.update, Time.Regs.put, Time.Regs.get, List.getD, hi]

/-- … and changes no other register: no object shares state with another one -/
theorem update_frame {α : Type} (z : Time α) (s : Time.Regs α) (i j k : Nat) (hk : k ≠ i) :
    (s.update z i j).get z k = s.get z k := by
  simp [Time.Regs.update, Time.Regs.put, Time.Regs.get, List.getD, List.getElem?_set_ne (Ne.symm hk)]

/-- a result bound to register `i` (`regs[i] = regs[j] + d`, `from_float`) leaves every other register alone; in particular
the operand keeps its value -/
theorem put_frame {α : Type} (z : Time α) (s : Time.Regs α) (i k : Nat) (t : Time α) (hk : k ≠ i) :
    (s.put i t).get z k = s.get z k := by
  simp [Time.Regs.put, Time.Regs.get, List.getD, List.getElem?_set_ne (Ne.symm hk)]

/-- the comparisons of an updated register are those of the value it was updated to (exact reading): an object that got its
fields through `update` orders like a freshly constructed time -/
theorem update_cmp (z : Time ℚ) (s : Time.Regs ℚ) (i j k : Nat) (hi : i < s.length) :
    Time.lt ((s.update z i j).get z i) (s.get z k) = Time.lt (s.get z j) (s.get z k) := by
  rw [update_value z s i j hi]

example : Time.Regs.get (⟨0, 0⟩ : Time ℚ) (Time.Regs.update ⟨0, 0⟩ [⟨0, 0⟩, ⟨6, 1/8⟩] 0 1) 0 = ⟨6, 1/8⟩ := by
  rw [update_value _ _ _ _ (by decide)]; rfl

end JF.C14
