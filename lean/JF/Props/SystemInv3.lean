/-
# SystemInv3 (E22, stage 2) — the joint statement for COMPOSITE OBJECTS WITH CELLS, as far as it goes: `joint_inv3_partial`

**What is closed here.**  For the leaf-only wirings (`Sys3.LeafOnly`, decidable; all six shipped configurations of composite objects with a
cell system) E10's MODE PREMISE is discharged: the mode E13 reads off the activation flags is `leaf` for every flag vector
(`leafOnly_mode`), the event kinds the handler classes commit in that mode keep the ghost mode (`modeStep_leafOnly`), so the runs of
the activator model over the transition relation `Tr3L` — `Composite.step` of a weakly admissible event of a kind of the committing
tagger's handler class (E13's `hkind` as the DEFINITION of the step relation, as in E16), the update of every internal state, the C11
history premise — are runs over `Tr3`, and ONE application of C09's run induction (`JF.Act.run_inv`, through `fresh_concrete3`) together
with the invariant `Inv3` carried by the states gives at every commit of every run, jointly:
 1. C09's freshness for every live tagger (`c09_fresh_closed3_partial`) — no `FootprintsSound` hypothesis, no mode premise;
 2. C12's `AllGood` / `RootConsistent` for every composite object and C07's one-chain clause (`c12_rootConsistent_closed3_partial`);
 3. C11's mirror in the form "every carried occupancy records exactly the active unit on its cell level (if relevant), and a cell iff
    an identifier" (`c11_consistent_closed3_partial`);
 4. C08's clause (h) (`c08_closed3_partial`);
 5. E13: the mode of the activation flags is `leaf` (`mode_closed3`).
Instantiated by `decide` for the six shipped wirings; `Example`: the run of `Footprints3.Example` is a run over `Tr3L`.

**Frontier (why `_partial`).**  This is a statement about runs of the ACTIVATOR model (`JF.Act.Run`), not of the composed mediator
loop of E9/E16 (`JF.Med.leg` with a scheduler and candidate times): (a) the history premise `StaysInRecordedCell` is still part of the
step relation (for sampling / dumping / end-of-run commits and for cell-boundary commits of another internal state) — deriving it needs
E9's argument (pending cell-boundary candidate = time stamp + `timeToBoundary`, scheduler minimality, `Geo`) for the ROOT unit of a
composite object (level 1: the centre moves with `v / nPer`) and for the leaf unit (level 2), per internal state, with a no-tie
hypothesis per cell system; (b) C11's full `OccInv` (cell lists = true cells of all stored units) additionally needs `hmove` of
`C11.update_inv` at LIFTING commits (the previous active unit, time-sliced to the event time, is still in its recorded cell: the same
premise for interaction kinds) and a lemma that `Composite.step` does not displace units at rest; (c) commit times sorted /
`no_sample_skipped` need the scheduler.  None of (a)–(c) is claimed.
-/
import JF.Lemmas.SystemRun3
import JF.Props.Footprints3
namespace JF.SystemInv3
open JF JF.Act JF.CW3 JF.Sys3 JF.Composite JF.C12 JF.Footprints3

/-- the hypotheses: a box and the decidable side conditions of the wiring -/
structure Hyp3 (env : Env ℚ) (mw : ModeWiring) (S : TaggerIdx) : Prop where
  box : BoxOK env.base.d env.base.L
  sound : WiringSound mw.w = true
  start : mw.w.start? = some S
  supp : Supported3 mw = true
  leaf : LeafOnly mw = true

section
variable {env : Env ℚ} {mw : ModeWiring} {S : TaggerIdx}

/-- every run over `Tr3L` is a run over `Tr3`: the mode premise is derived -/
theorem run3_of_run3L (H : Hyp3 env mw S) {rs : RS (G3 env mw)} (h : Run mw.w (world3 env mw) (Tr3L env mw) S rs) :
    Run mw.w (world3 env mw) (Tr3 env mw) S rs :=
  run_mono (fun _ _ _ htr => trRaw3_of_leafOnly H.leaf htr) h

/-- **the joint statement at every commit of every run** (PARTIAL: activator-level runs, history premise inside the step relation —
see the module docstring) -/
theorem joint_inv3_partial (H : Hyp3 env mw S) {rs : RS (G3 env mw)} (h : Run mw.w (world3 env mw) (Tr3L env mw) S rs) :
    (∀ T, (world3 env mw).live T → Fresh (world3 env mw) rs T)
    ∧ AllGood env.base.d env.base.L rs.g.1.cs ∧ (∀ c ∈ rs.g.1.cs, RootConsistent env.base.L c)
    ∧ CW2.Uniform env.base.nPer rs.g.1.cs
    ∧ (AllRest rs.g.1.cs ∨ ∃ sq, OneChainM rs.g.1.cs sq rs.g.1.mode)
    ∧ ConsAll env mw.w.labels.length rs.g.1
    ∧ mw.mode (absOf rs.act) = .leaf :=
  ⟨fresh_concrete3 env H.box mw S H.sound H.start H.supp (run3_of_run3L H h), rs.g.2.1.1,
    fun c hc => good_rootConsistent (rs.g.2.1.1 c hc), rs.g.2.1.2.1, rs.g.2.1.2.2, rs.g.2.2, leafOnly_mode H.leaf _⟩

theorem c09_fresh_closed3_partial (H : Hyp3 env mw S) {rs : RS (G3 env mw)} (h : Run mw.w (world3 env mw) (Tr3L env mw) S rs) :
    ∀ T, (world3 env mw).live T → Fresh (world3 env mw) rs T := (joint_inv3_partial H h).1

theorem c12_rootConsistent_closed3_partial (H : Hyp3 env mw S) {rs : RS (G3 env mw)}
    (h : Run mw.w (world3 env mw) (Tr3L env mw) S rs) :
    (∀ c ∈ rs.g.1.cs, RootConsistent env.base.L c) ∧ (AllRest rs.g.1.cs ∨ ∃ sq, OneChainM rs.g.1.cs sq rs.g.1.mode) :=
  ⟨(joint_inv3_partial H h).2.2.1, (joint_inv3_partial H h).2.2.2.2.1⟩

/-- C11's mirror, consistency form: the occupancy of internal state `l` records the active unit on its cell level iff it is relevant,
and an active cell iff an identifier (NOT the full `C11.OccInv`: frontier (b)) -/
theorem c11_consistent_closed3_partial (H : Hyp3 env mw S) {rs : RS (G3 env mw)}
    (h : Run mw.w (world3 env mw) (Tr3L env mw) S rs) {l : Nat} (hl : l < mw.w.labels.length) :
    ConsistentOcc (env.oe l).relevant (unitsOn env.base.nPer (env.oe l).level (CW2.flags rs.g.1.cs)) (getOcc rs.g.1.occs l) :=
  (joint_inv3_partial H h).2.2.2.2.2.1 l hl

/-- C08's clause (h) along every run, without the `FootprintsSound` hypothesis and without the mode premise -/
theorem c08_closed3_partial (H : Hyp3 env mw S) {rs : RS (G3 env mw)} (h : Run mw.w (world3 env mw) (Tr3L env mw) S rs)
    {E : TaggerIdx} (hE : (getT rs.act E).running ≠ []) (hend : (mw.w.tagger E).kind ≠ .endOfRun)
    (hm : affects (mw.w.tagger E) .motion = true) {T : TaggerIdx} (hT : T < mw.w.n) (hb : motionBound (mw.w.tagger T) = true) :
    T ∈ (getW mw.w.wires E).trashes ∨ (getT rs.act T).running = [] :=
  clause_h_concrete3 env H.box mw S H.sound H.start H.supp (run3_of_run3L H h) hE hend hm hT hb

/-- E13 at this world: the mode of the activation flags is `leaf` at every leg (for ANY flags, in fact) -/
theorem mode_closed3 (H : Hyp3 env mw S) (σ : AState) : mw.mode σ = .leaf := leafOnly_mode H.leaf σ

end

/-! ## the six shipped configurations of composite objects with cells -/

open JF.Act.Gen

theorem leafOnly_shipped : LeafOnly mcfg_dipoles_cell_bounded = true ∧ LeafOnly mcfg_dipoles_cell_veto = true ∧
    LeafOnly mcfg_water_coulomb_cell_veto_lj_cell_veto = true ∧ LeafOnly mcfg_water_coulomb_cell_veto_lj_inverted = true ∧
    LeafOnly mcfg_water_coulomb_power_bounded_lj_cell_bounded = true ∧ LeafOnly mcfg_hard_disk_dipoles_hard_disk_dipoles_cells = true := by
  decide

/-- not trivially true: a configuration with mode switchers is not leaf-only -/
example : LeafOnly mcfg_dipoles_dipole_motion = false := by decide

theorem hyp3_dipoles_cell_bounded (env : Env ℚ) (hL : BoxOK env.base.d env.base.L) : Hyp3 env mcfg_dipoles_cell_bounded 9 :=
  ⟨hL, cfg_sound_dipoles_cell_bounded, by decide, supported3_dipoles_cell_bounded, by decide⟩
theorem hyp3_dipoles_cell_veto (env : Env ℚ) (hL : BoxOK env.base.d env.base.L) : Hyp3 env mcfg_dipoles_cell_veto 9 :=
  ⟨hL, cfg_sound_dipoles_cell_veto, by decide, supported3_dipoles_cell_veto, by decide⟩
theorem hyp3_water_cell_veto_lj_cell_veto (env : Env ℚ) (hL : BoxOK env.base.d env.base.L) :
    Hyp3 env mcfg_water_coulomb_cell_veto_lj_cell_veto 13 :=
  ⟨hL, cfg_sound_water_coulomb_cell_veto_lj_cell_veto, by decide, supported3_water_cell_veto_lj_cell_veto, by decide⟩
theorem hyp3_water_cell_veto_lj_inverted (env : Env ℚ) (hL : BoxOK env.base.d env.base.L) :
    Hyp3 env mcfg_water_coulomb_cell_veto_lj_inverted 10 :=
  ⟨hL, cfg_sound_water_coulomb_cell_veto_lj_inverted, by decide, supported3_water_cell_veto_lj_inverted, by decide⟩
theorem hyp3_water_power_bounded_lj_cell_bounded (env : Env ℚ) (hL : BoxOK env.base.d env.base.L) :
    Hyp3 env mcfg_water_coulomb_power_bounded_lj_cell_bounded 10 :=
  ⟨hL, cfg_sound_water_coulomb_power_bounded_lj_cell_bounded, by decide, supported3_water_power_bounded_lj_cell_bounded, by decide⟩
theorem hyp3_hard_disk_dipoles_cells (env : Env ℚ) (hL : BoxOK env.base.d env.base.L) :
    Hyp3 env mcfg_hard_disk_dipoles_hard_disk_dipoles_cells 6 :=
  ⟨hL, cfg_sound_hard_disk_dipoles_hard_disk_dipoles_cells, by decide, supported3_hard_disk_dipoles_cells, by decide⟩

/-! ## non-vacuity: the five-commit run of `Footprints3.Example` (`dipoles/cell_bounded.ini`, two dipoles) is a run over `Tr3L` -/

namespace Example
open JF.Footprints3.Example

theorem trL_next (E : TaggerIdx) (hE : E < mw.w.n) (g : G3 env mw) (hg : g.1.mode = .leaf) (e : Composite.Ev ℚ)
    (hm : modeStep g.1.mode e = some .leaf) (ha : AdmW env.base.d env.base.L g.1.cs e) (ho)
    (hk : CW2.evKind e ∈ kindsOf (mw.hmode E) .leaf) (hs : CW2.evKind e ≠ .start)
    (htr : Tr3 env mw E g (next g e .leaf hm ha ho)) : Tr3L env mw E g (next g e .leaf hm ha ho) :=
  ⟨hE, hg, rfl, ⟨e, hk, hs, ha, rfl⟩, htr.2.1, htr.2.2⟩

theorem runL5 : Run cfg W (Tr3L env mw) 9 rs5 := by
  have r1 : Run cfg W (Tr3L env mw) 9 rs1 :=
    .start (fun _ => none) g0 g1 s0 out0 rs1
      (Option.some_get (x := first cfg.wires (initAct cfg.wires) 9 (fun T => W.yieldOf T g0)) (by decide +kernel)).symm commit1
  have r2 : Run cfg W (Tr3L env mw) 9 rs2 :=
    .step rs1 rs2 6 g2 r1 (by decide +kernel) (by decide)
      (JF.CW.commit_g commit1 ▸ trL_next 6 (by decide) g1 rfl e2 rfl trivial _ (by decide) (by decide) tr_sampling) commit2
  have r3 : Run cfg W (Tr3L env mw) 9 rs3 :=
    .step rs2 rs3 3 g3 r2 (by decide +kernel) (by decide)
      (JF.CW.commit_g commit2 ▸ trL_next 3 (by decide) g2 rfl e3 rfl adm3 _ (by decide) (by decide) tr_cell_boundary) commit3
  have r4 : Run cfg W (Tr3L env mw) 9 rs4 :=
    .step rs3 rs4 4 g4 r3 (by decide +kernel) (by decide)
      (JF.CW.commit_g commit3 ▸ trL_next 4 (by decide) g3 rfl e4 rfl adm4 _ (by decide) (by decide) tr_harmonic) commit4
  exact .step rs4 rs5 7 g5 r4 (by decide +kernel) (by decide)
    (JF.CW.commit_g commit4 ▸ trL_next 7 (by decide) g4 rfl e5 rfl adm5 _ (by decide) (by decide) tr_end_of_chain) commit5

/-- the joint statement applies to this run -/
example := joint_inv3_partial (hyp3_dipoles_cell_bounded env box) runL5

/-- … and is about a state with a moving chain and a recorded active unit: dipole 1 active in cell (0, 0) -/
example : (getOcc rs5.g.1.occs 0).activeId = some 1 ∧ unitsOn 2 oe.level (CW2.flags rs5.g.1.cs) = [1] := by decide +kernel

end Example

end JF.SystemInv3
