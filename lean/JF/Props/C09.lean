/-
C09 — Pending candidate events equal what a fresh start from the current state creates.

Model: `JF/Model/Activator.lean` (TagActivator bookkeeping, yields are inputs), `JF/Model/Wiring.lean`
(configuration data + the decidable side condition `WiringSound`).  Lemmas: `JF/Lemmas/Activator*.lean`.

(a) bookkeeping, unconditional: for EVERY sequence of activator operations and EVERY yields
    * `no_handler_lost_or_duplicated` — `running ++ notRunning` is a permutation of the tagger's pool,
    * `update_returns_only_not_running` — returned handlers are distinct, were not running, came from not-running lists,
    * `trash_returns_exactly_running` (+ `trash_returns_in_order`) — the trash list,
    * `update_error_iff` — the error outcome (TagActivatorError) occurs iff a create demands more handlers than the
      not-running list holds (for duplicate-free create lists, which `WiringSound` demands).
(b) freshness, conditional on `StepOK` of every step: `fresh_after_every_commit` (induction over ALL runs), corollaries
    `pending_count_eq`, `no_factor_missing_or_duplicated`, `demand_never_exceeds_pool`.
(c) `WiringSound` is decided per shipped .ini in the GENERATED module `JF/Gen/WiringsSound.lean`
    (`cfg_sound_<name> : WiringSound cfg_<name> = true := by decide +kernel`); here: it rejects realistic mutations.
(d) link `WiringSound ∧ FootprintsSound ⇒ StepOK at every step`: see `JF.C09.fresh_of_wiringSound` at the end of this file.
-/
import JF.Model.Wiring
import JF.Lemmas.ActivatorFresh
import JF.Lemmas.ActivatorWiring
namespace JF.C09
open JF.Act

/-! ## (a) bookkeeping for all operation sequences -/

/-- the operations the mediator performs on the activator -/
inductive Op where
  | first (S : TaggerIdx) (yields : TaggerIdx → List IdTuple)
  | update (E : TaggerIdx) (yields : TaggerIdx → List IdTuple)
  | trash (E : TaggerIdx)

/-- `none` = the operation raised `TagActivatorError` -/
def runOp (w : Wires) (s : Act) : Op → Option Act
  | .first S ys => (first w s S ys).map Prod.fst
  | .update E ys => (update w s E ys).map Prod.fst
  | .trash E => some (trash w s E).1

def runOps (w : Wires) : Act → List Op → Option Act
  | s, [] => some s
  | s, op :: ops => match runOp w s op with
    | none => none
    | some s' => runOps w s' ops

theorem poolInv_runOps {w : Wires} {s s' : Act} (ops : List Op) (h : PoolInv w s) (e : runOps w s ops = some s') :
    PoolInv w s' := by
  induction ops generalizing s with
  | nil => simp only [runOps, Option.some.injEq] at e; exact e ▸ h
  | cons op ops ih =>
    unfold runOps at e
    cases h1 : runOp w s op with
    | none => rw [h1] at e; simp at e
    | some s1 =>
      rw [h1] at e
      refine ih ?_ e
      cases op with
      | first S ys =>
        simp only [runOp, Option.map_eq_some_iff] at h1
        obtain ⟨r, hr, rfl⟩ := h1
        exact poolInv_first h hr
      | update E ys =>
        simp only [runOp, Option.map_eq_some_iff] at h1
        obtain ⟨r, hr, rfl⟩ := h1
        exact poolInv_update h hr
      | trash E =>
        simp only [runOp, Option.some.injEq] at h1
        exact h1 ▸ poolInv_trash E h

/-- **no handler is ever lost or duplicated**: after any sequence of operations with any yields, for every tagger the
running and not-running lists together are a permutation of the tagger's handler pool -/
theorem no_handler_lost_or_duplicated (w : Wires) (ops : List Op) (s : Act) (e : runOps w (initAct w) ops = some s)
    (T : TaggerIdx) : ((getT s T).running ++ (getT s T).notRunning).Perm (getW w T).pool :=
  (poolInv_runOps ops (poolInv_init w) e).2 T

/-- **`update` returns a handler only if it was not running**: the returned handlers are pairwise distinct, each sat in the
not-running list of a tagger of the create list, and none of them was in any running list -/
theorem update_returns_only_not_running {w : Wires} (wf : WFw w) (pok : PoolsOK w) {s s' : Act} (pinv : PoolInv w s)
    {E : TaggerIdx} {yields : TaggerIdx → List IdTuple} {out : List (HandlerId × IdTuple)}
    (e : update w s E yields = some (s', out)) :
    (out.map Prod.fst).Nodup ∧
    ∀ h ∈ out.map Prod.fst, (∃ T ∈ (getW w E).creates, h ∈ (getT s T).notRunning) ∧ ∀ U, h ∉ (getT s U).running := by
  have hs1a : PoolInv w (applyActivation w s E) := poolInv_applyActivation E pinv
  have hr : ∀ U ∈ (getW w E).creates, U < (applyActivation w s E).length := by
    intro U hU; rw [hs1a.1]; exact (wf E).2 U hU
  obtain ⟨knd, ksub⟩ := createLoop_keys pok hs1a (wf E).1 hr e
  refine ⟨knd, fun h hh => ?_⟩
  obtain ⟨T, hT, hx⟩ := ksub h hh
  rw [applyActivation_notRunning] at hx
  refine ⟨⟨T, hT, hx⟩, fun U hU => ?_⟩
  by_cases hUT : U = T
  · subst hUT
    exact (List.nodup_append.mp (pinv.nodup pok U)).2.2 h hU h hx rfl
  · exact pok.2 U T hUT h (pinv.mem_pool_of_running hU) (pinv.mem_pool_of_notRunning hx)

/-- **`trash` returns exactly the running handlers of the trashed taggers**, which afterwards run nothing -/
theorem trash_returns_exactly_running (w : Wires) (s : Act) (E : TaggerIdx) :
    (∀ h, h ∈ (trash w s E).2 ↔ ∃ T ∈ (getW w E).trashes, h ∈ (getT s T).running) ∧
    (∀ T ∈ (getW w E).trashes, (getT (trash w s E).1 T).running = []) ∧
    (∀ T, T ∉ (getW w E).trashes → getT (trash w s E).1 T = getT s T) := by
  refine ⟨fun h => trashLoop_out_mem _ _ h, fun T hT => ?_, fun T hT => trashLoop_frame _ _ hT⟩
  by_cases hl : T < s.length
  · rw [trash, trashLoop_mem _ _ hT hl]; rfl
  · rw [getT_of_le _ _ (by rw [trash, trashLoop_length]; exact Nat.le_of_not_lt hl)]; rfl

/-- for a duplicate-free trash list the returned list is the concatenation of the running lists in list order -/
theorem trash_returns_in_order (w : Wires) (s : Act) (E : TaggerIdx) (nd : (getW w E).trashes.Nodup) :
    (trash w s E).2 = (getW w E).trashes.flatMap fun T => (getT s T).running :=
  trashLoop_out _ _ nd

/-- **the error outcome occurs iff a create demands more handlers than the not-running list holds** -/
theorem update_error_iff {w : Wires} (wf : WFw w) {s : Act} (hl : s.length = w.length) (E : TaggerIdx)
    (yields : TaggerIdx → List IdTuple) :
    update w s E yields = none ↔
      ∃ T ∈ (getW w E).creates,
        (getT s T).notRunning.length <
          (if actAfter w E T (getT s T).activated then yields T else []).length := by
  have hr : ∀ U ∈ (getW w E).creates, U < (applyActivation w s E).length := by
    intro U hU; rw [applyActivation_length, hl]; exact (wf E).2 U hU
  unfold update
  rw [createLoop_none (wf E).1 hr]
  constructor
  · rintro ⟨T, hT, h⟩
    have hTl : T < s.length := by rw [hl]; exact (wf E).2 T hT
    rw [applyActivation_notRunning, getT_applyActivation _ _ _ _ hTl] at h
    exact ⟨T, hT, h⟩
  · rintro ⟨T, hT, h⟩
    have hTl : T < s.length := by rw [hl]; exact (wf E).2 T hT
    refine ⟨T, hT, ?_⟩
    rw [applyActivation_notRunning, getT_applyActivation _ _ _ _ hTl]
    exact h

/-! ## (b) the freshness invariant over all runs -/

section fresh
variable {G : Type}

/-- all states a run can reach whose every commit satisfies the step hypotheses: the first call returns the start-of-run
handler, the start-of-run event is committed (`StartOK`), then any number of commits (`StepOK`) -/
inductive Reach (w : Wires) (W : World G) (S : TaggerIdx) : RS G → Prop where
  | start (ids0 : HandlerId → IdTuple) (g0 g1 : G) (s0 : Act) (out : List (HandlerId × IdTuple)) (rs1 : RS G)
      (hfirst : first w (initAct w) S (fun T => W.yieldOf T g0) = some (s0, out))
      (ok : StartOK w W ⟨s0, assign ids0 out, g0⟩ S g1)
      (hcommit : commit w W ⟨s0, assign ids0 out, g0⟩ S g1 = some rs1) : Reach w W S rs1
  | step (rs rs' : RS G) (E : TaggerIdx) (g' : G) (prev : Reach w W S rs)
      (ok : StepOK w W rs E g') (hcommit : commit w W rs E g' = some rs') : Reach w W S rs'

/-- **C09**: after every committed event, for every tagger the property speaks about, the multiset of (views of the) in-state
identifier tuples of the pending events equals what the tagger generates from scratch for the current state -/
theorem fresh_after_every_commit {w : Wires} {W : World G} {S : TaggerIdx} (wf : WFw w) (pok : PoolsOK w)
    (hS : ∀ T, W.live T → T ≠ S) {rs : RS G} (h : Reach w W S rs) :
    (∀ T, W.live T → Fresh W rs T) ∧ PoolInv w rs.act := by
  induction h with
  | start ids0 g0 g1 s0 out rs1 hfirst ok hcommit =>
    have p0 : PoolInv w s0 := poolInv_first (poolInv_init w) hfirst
    refine ⟨fresh_start wf pok p0 ?_ ok hcommit, commit_poolInv p0 hcommit⟩
    intro T hl
    have hne : T ∉ [S] := by simp [hS T hl]
    show (getT s0 T).running = []
    rw [createLoop_frame hfirst hne, applyActivation_running, getT_initAct]
    split <;> rfl
  | step rs rs' E g' _ ok hcommit ih =>
    exact ⟨fresh_step wf pok ih.2 ih.1 ok hcommit, commit_poolInv ih.2 hcommit⟩

/-- count form (sampling, end of chain, end of run, dumping, mode switch): as many pending events as the tagger would generate -/
theorem pending_count_eq {W : World G} {rs : RS G} {T : TaggerIdx} (h : Fresh W rs T) :
    (getT rs.act T).running.length = (yieldEff (getT rs.act T) (W.yieldOf T rs.g)).length := by
  have := h.length_eq
  simpa using this

/-- for an interaction-type tagger (`view = id`): a factor is pending exactly as often as the tagger generates it from scratch —
none missing, none duplicated -/
theorem no_factor_missing_or_duplicated {W : World G} {rs : RS G} {T : TaggerIdx} (hv : ∀ x, W.view T x = x)
    (h : Fresh W rs T) (f : IdTuple) :
    ((getT rs.act T).running.map rs.ids).count f = (yieldEff (getT rs.act T) (W.yieldOf T rs.g)).count f := by
  unfold Fresh at h
  rw [show W.view T = id from funext hv] at h
  simpa using h.count_eq f

/-- a deactivated tagger has no pending event -/
theorem deactivated_nothing_pending {W : World G} {rs : RS G} {T : TaggerIdx} (h : Fresh W rs T)
    (hd : (getT rs.act T).activated = false) : (getT rs.act T).running = [] := by
  have := pending_count_eq h
  simp [yieldEff, hd] at this
  exact this

/-- the number of event handlers demanded never exceeds what the tagger owns: in a reachable state the pending handlers of
a tagger are distinct members of its pool, so a fresh tagger's yield is no longer than the pool -/
theorem demand_never_exceeds_pool {w : Wires} {W : World G} {rs : RS G} (pinv : PoolInv w rs.act)
    {T : TaggerIdx} (h : Fresh W rs T) :
    (yieldEff (getT rs.act T) (W.yieldOf T rs.g)).length ≤ (getW w T).pool.length := by
  rw [← pending_count_eq h, ← (pinv.2 T).length_eq]
  simp

end fresh

/-! ### the hypotheses are satisfiable: a two-tagger wiring (one factor tagger, the start-of-run tagger) and a run of it -/

namespace Example
/-- tagger 0: interaction (creates/trashes itself, pool {0,1}); tagger 1: start of run (creates 0, trashes itself, pool {2}) -/
def w : Wires := [⟨[0], [0], [], [], [0, 1]⟩, ⟨[0], [1], [], [], [2]⟩]
/-- global state = the active particle `g`; the factor tagger yields the two factors `(g, g+1)`, `(g, g+2)` -/
def W : World Nat :=
  { yieldOf := fun T g => if T = 0 then [some [[g], [g + 1]], some [[g], [g + 2]]] else [none]
    view := fun _ x => x
    live := fun T => T = 0 }

theorem wf : WFw w := by
  intro E
  match E with
  | 0 => exact ⟨by decide, by decide⟩
  | 1 => exact ⟨by decide, by decide⟩
  | n + 2 => exact ⟨by simp [getW, w, TWire.empty], by simp [getW, w, TWire.empty]⟩

theorem pok : PoolsOK w := by
  constructor
  · intro i
    match i with
    | 0 => decide
    | 1 => decide
    | n + 2 => simp [getW, w, TWire.empty]
  · intro i j hij h
    match i, j with
    | 0, 0 => exact absurd rfl hij
    | 1, 1 => exact absurd rfl hij
    | 0, 1 => intro h1 h2; simp [getW, w] at h1 h2; subst h2; simp at h1
    | 1, 0 => intro h1 h2; simp [getW, w] at h1 h2; subst h1; simp at h2
    | n + 2, _ => simp [getW, w, TWire.empty]
    | 0, n + 2 => simp [getW, w, TWire.empty]
    | 1, n + 2 => simp [getW, w, TWire.empty]

def s0 : Act := ((first w (initAct w) 1 (fun T => W.yieldOf T 5)).get (by decide)).1
def out0 : List (HandlerId × IdTuple) := ((first w (initAct w) 1 (fun T => W.yieldOf T 5)).get (by decide)).2
def rs0 : RS Nat := ⟨s0, assign (fun _ => none) out0, 5⟩
def rs1 : RS Nat := (commit w W rs0 1 5).get (by decide)
def rs2 : RS Nat := (commit w W rs1 0 7).get (by decide)

/-- a run: start, commit of the start-of-run event, then a lifting from particle 5 to particle 7 — every hypothesis holds -/
example : Reach w W 1 rs2 := by
  refine .step rs1 rs2 0 7 (.start (fun _ => none) 5 5 s0 out0 rs1 (Option.some_get (x := first w (initAct w) 1 (fun T => W.yieldOf T 5)) (by decide)).symm ?_ (by simp [rs1, rs0])) ?_ (by simp [rs2])
  · intro T hl; left; rw [show T = 0 from hl]; decide
  · refine ⟨?_, ?_, ?_⟩ <;> intro T hl <;> rw [show T = 0 from hl] <;> intro h1 h2
    · exact absurd (by decide) h2
    · exact absurd (by decide) h2
    · exact absurd (by decide) h1

/-- and the conclusion is not vacuous there: the two pending handlers carry the two factors of particle 7 -/
example : (getT rs2.act 0).running.map rs2.ids = [some [[7], [8]], some [[7], [9]]] := by decide
end Example

/-! ## (c) `WiringSound` rejects realistic mutations of a shipped configuration

`coulomb_atoms/cell_veto.ini` written out by hand (the generated copy is `JF.Act.Gen.cfg_coulomb_atoms_cell_veto`), and three
mutations of it. -/

namespace Mutations
def tg (tag : String) (cls : TaggerClass) (kind : HandlerKind) (cr tr : List Nat) (label : Option Nat) : TaggerW :=
  ⟨tag, cls, "", kind, cr, tr, [], [], 1, label⟩

/-- taggers: 0 cell veto, 1 nearby, 2 cell boundary, 3 surplus, 4 sampling, 5 end of chain, 6 end of run, 7 start of run;
parameters: the create list of the cell-boundary tagger, the trash list of the end-of-chain tagger, the create list of sampling -/
def cellVeto (cbCreate eocTrash sampCreate : List Nat) : Wiring :=
  { name := "cell_veto", labels := ["single_active_cell_occupancy"],
    taggers := [
      tg "coulomb_cell_veto" .cellVeto .cellVeto [1, 0, 2, 3] [1, 0, 2, 3] (some 0),
      tg "coulomb_nearby" .excludedCells .interaction [1, 0, 2, 3] [1, 0, 2, 3] (some 0),
      tg "cell_boundary" .cellBoundary .cellBoundary cbCreate [1, 0, 2, 3] (some 0),
      tg "coulomb_surplus" .surplusCells .interaction [1, 0, 2, 3] [1, 0, 2, 3] (some 0),
      tg "sampling" .noInState .sampling sampCreate [4] none,
      tg "end_of_chain" .activeGlobalState .endOfChain [5, 1, 0, 2, 3] eocTrash none,
      tg "end_of_run" .noInState .endOfRun [6] [5, 1, 0, 2, 4, 3, 6] none,
      tg "start_of_run" .noInState .startOfRun [5, 1, 0, 2, 4, 3, 6] [7] none ] }

/-- as shipped -/
example : WiringSound (cellVeto [1, 0, 2, 3] [5, 1, 0, 2, 3] [4]) = true := by decide +kernel
/-- `coulomb_surplus` dropped from the create list of `[CellBoundary]` -/
example : WiringSound (cellVeto [1, 0, 2] [5, 1, 0, 2, 3] [4]) = false := by decide +kernel
/-- `coulomb_nearby` dropped from the trash list of `[EndOfChain]` -/
example : WiringSound (cellVeto [1, 0, 2, 3] [5, 0, 2, 3] [4]) = false := by decide +kernel
/-- `[Sampling]` re-creates the wrong tagger (`end_of_chain` instead of `sampling`) -/
example : WiringSound (cellVeto [1, 0, 2, 3] [5, 1, 0, 2, 3] [5]) = false := by decide +kernel
end Mutations

/-! ## (d) the link: `WiringSound` + sound footprints ⇒ every step of every run is `StepOK` ⇒ C09 -/

/-- **C09 for every configuration with `WiringSound cfg = true`** (in particular every shipped one: `cfg_sound_<name>`), for
every run of it in any world whose transitions respect the footprint tables -/
theorem fresh_of_wiringSound {G : Type} (c : Wiring) (W : World G) (Tr : TaggerIdx → G → G → Prop) (S : TaggerIdx)
    (sound : WiringSound c = true) (hS : c.start? = some S) (fps : FootprintsSound c W Tr) (hlive : LiveIs c W)
    {rs : RS G} (h : Run c W Tr S rs) : ∀ T, W.live T → Fresh W rs T :=
  (run_fresh c W Tr S sound hS fps hlive h).1

/-! ### non-vacuity of the link: a three-tagger configuration, a world whose transitions respect the footprints, a run -/

namespace LinkExample
/-- 0: a factor tagger, 1: sampling, 2: start of run -/
def tiny : Wiring :=
  { name := "tiny", labels := [],
    taggers := [
      ⟨"coulomb", .factorTypeMap, "", .interaction, [0], [0], [], [], 2, none⟩,
      ⟨"sampling", .noInState, "", .sampling, [1], [1], [], [], 1, none⟩,
      ⟨"start_of_run", .noInState, "", .startOfRun, [0, 1], [2], [], [], 1, none⟩ ] }

example : WiringSound tiny = true := by decide +kernel

/-- global state = the active particle; the factor tagger yields the factor `(g, g+1)`; identifier view for the factor tagger,
count view for the others -/
def W : World Nat :=
  { yieldOf := fun T g => if T = 0 then [some [[g], [g + 1]]] else [none]
    view := fun T x => if T = 0 then x else none
    live := fun T => T < tiny.n ∧ (tiny.tagger T).kind ≠ .startOfRun }

/-- a sampling event leaves the active particle unchanged; any other event may change it -/
def Tr : TaggerIdx → Nat → Nat → Prop := fun E g g' => E = 1 → g' = g

theorem liveIs : LiveIs tiny W := fun _ => Iff.rfl

theorem fps : FootprintsSound tiny W Tr := by
  constructor
  intro E T g g' htr hd
  by_cases hT : T = 0
  · subst hT
    match E with
    | 0 => exact absurd hd (by decide)
    | 1 => rw [htr rfl]
    | 2 => exact absurd hd (by decide)
    | n + 3 =>
      have : tiny.tagger (n + 3) = ⟨"", .unknown, "", .unknown, [], [], [], [], 0, none⟩ := by
        simp [Wiring.tagger, tiny]
      rw [this] at hd
      exact absurd hd (by decide)
  · simp [W, hT]

def s0 : Act := ((first tiny.wires (initAct tiny.wires) 2 (fun T => W.yieldOf T 5)).get (by decide)).1
def out0 : List (HandlerId × IdTuple) := ((first tiny.wires (initAct tiny.wires) 2 (fun T => W.yieldOf T 5)).get (by decide)).2
def rs1 : RS Nat := (commit tiny.wires W ⟨s0, assign (fun _ => none) out0, 5⟩ 2 5).get (by decide)
def rs2 : RS Nat := (commit tiny.wires W rs1 1 5).get (by decide)     -- a sampling event
def rs3 : RS Nat := (commit tiny.wires W rs2 0 8).get (by decide)     -- a lifting 5 → 8

theorem run3 : Run tiny W Tr 2 rs3 := by
  refine .step rs2 rs3 0 8 (.step rs1 rs2 1 5 (.start (fun _ => none) 5 5 s0 out0 rs1
    (Option.some_get (x := first tiny.wires (initAct tiny.wires) 2 (fun T => W.yieldOf T 5)) (by decide)).symm (by simp [rs1]))
    (by decide) (by decide) (fun _ => rfl) (by simp [rs2])) (by decide) (by decide) (fun h => absurd h (by decide)) (by simp [rs3])

/-- the theorem applies, and its conclusion is about a non-empty pending list -/
example : ∀ T, W.live T → Fresh W rs3 T :=
  fresh_of_wiringSound tiny W Tr 2 (by decide +kernel) (by decide) fps liveIs run3
example : (getT rs3.act 0).running.map rs3.ids = [some [[8], [9]]] := by decide
end LinkExample

end JF.C09
