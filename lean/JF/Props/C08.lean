/-
C08 — A committed event was computed from the trajectory that is still current.

The activator model (`JF/Model/Activator.lean`) extended by, per pending handler, the global state `born h` at which its
candidate event time was computed, over an abstract world with
  * `units ids`   — the units of the in-state extracted for the identifier tuple `ids` (whole branches),
  * `same g₁ g₂ u` — unit `u` has in `g₂` the velocity it has in `g₁` and lies on the same straight-line trajectory
                     (same position for a unit at rest); reflexive and transitive,
  * `moves E`     — "an event of tagger `E` may change the motion of a unit" (footprint table `affects · .motion`),
  * `bound T`     — `T` is an interaction (factor) or cell-veto tagger.
Hypotheses of one commit (`StepOK8`): a commit of a non-moving tagger changes no unit's motion (footprint hypothesis); a
commit of a moving tagger trashes every bound tagger that has a pending handler (clause (h) of `WiringSound`, DESIGN §5).

Theorems: `current_step` (induction step), `in_state_current_at_every_commit` (all runs): whenever an event of an
interaction / cell-veto handler is committed, every unit of the in-state it was computed from is still on the trajectory it
had then; `stale_handlers_are_trashed`: no pending bound handler survives a motion-changing commit — it is in the trash list.
The link from `WiringSound cfg = true` to clause (h) at every step of every run is `JF.C08.clause_h_of_wiringSound`.
-/
import JF.Lemmas.ActivatorFresh
import JF.Lemmas.ActivatorWiring
namespace JF.C08
open JF.Act

variable {G U : Type}

structure Motion (G U : Type) where
  units : IdTuple → List U
  same : G → G → U → Prop
  same_refl : ∀ g u, same g g u
  same_trans : ∀ g₁ g₂ g₃ u, same g₁ g₂ u → same g₂ g₃ u → same g₁ g₃ u
  moves : TaggerIdx → Prop
  bound : TaggerIdx → Prop

/-- run state + the global state each pending handler's candidate was computed from -/
structure MS (G : Type) where
  rs : RS G
  born : HandlerId → G

/-- C08's invariant: every unit of the stored in-state of every pending interaction / cell-veto handler still has the
velocity and straight-line trajectory it had when the candidate was computed -/
def Current (M : Motion G U) (ms : MS G) : Prop :=
  ∀ T, M.bound T → ∀ h ∈ (getT ms.rs.act T).running, ∀ u ∈ M.units (ms.rs.ids h), M.same (ms.born h) ms.rs.g u

/-- one leg: commit (global state becomes `g'`), trash, create; the created handlers compute their candidates on `g'` -/
def commit8 (w : Wires) (W : World G) (ms : MS G) (E : TaggerIdx) (g' : G) : Option (MS G) :=
  match update w (trash w ms.rs.act E).1 E (fun T => W.yieldOf T g') with
  | none => none
  | some r => some ⟨⟨r.1, assign ms.rs.ids r.2, g'⟩, fun h => if h ∈ r.2.map Prod.fst then g' else ms.born h⟩

theorem commit8_rs {w : Wires} {W : World G} {ms ms' : MS G} {E : TaggerIdx} {g' : G}
    (e : commit8 w W ms E g' = some ms') : commit w W ms.rs E g' = some ms'.rs := by
  unfold commit8 at e; unfold commit
  cases h : update w (trash w ms.rs.act E).1 E (fun T => W.yieldOf T g') with
  | none => rw [h] at e; simp at e
  | some r => rw [h] at e; simp only [Option.some.injEq] at e; rw [← e]

structure StepOK8 (w : Wires) (M : Motion G U) (ms : MS G) (E : TaggerIdx) (g' : G) : Prop where
  /-- footprint hypothesis: an event of a tagger that is not declared motion-changing leaves every unit on its trajectory -/
  quiet : ¬ M.moves E → ∀ u, M.same ms.rs.g g' u
  /-- clause (h): a motion-changing event trashes every bound tagger that has something pending -/
  h : M.moves E → ∀ T, M.bound T → T ∈ (getW w E).trashes ∨ (getT ms.rs.act T).running = []

/-- **no stale candidate survives**: when a motion-changing event is committed, every pending handler of every interaction /
cell-veto tagger is in the trash list the activator returns -/
theorem stale_handlers_are_trashed {w : Wires} {M : Motion G U} {ms : MS G} {E : TaggerIdx} {g' : G}
    (ok : StepOK8 w M ms E g') (hm : M.moves E) {T : TaggerIdx} (hb : M.bound T) {h : HandlerId}
    (hh : h ∈ (getT ms.rs.act T).running) : h ∈ (trash w ms.rs.act E).2 := by
  rcases ok.h hm T hb with ht | he
  · exact (trashLoop_out_mem _ _ h).mpr ⟨T, ht, hh⟩
  · rw [he] at hh; simp at hh

/-- **induction step of C08** -/
theorem current_step {w : Wires} {W : World G} {M : Motion G U} {ms ms' : MS G} {E : TaggerIdx} {g' : G}
    (wf : WFw w) (pinv : PoolInv w ms.rs.act) (cur : Current M ms) (ok : StepOK8 w M ms E g')
    (e : commit8 w W ms E g' = some ms') : Current M ms' := by
  unfold commit8 at e
  cases hu : update w (trash w ms.rs.act E).1 E (fun T => W.yieldOf T g') with
  | none => rw [hu] at e; simp at e
  | some r =>
  rw [hu] at e; simp only [Option.some.injEq] at e; subst e
  obtain ⟨s2, created⟩ := r
  have hs1 : PoolInv w (trash w ms.rs.act E).1 := poolInv_trash E pinv
  have hs1a : PoolInv w (applyActivation w (trash w ms.rs.act E).1 E) := poolInv_applyActivation E hs1
  unfold update at hu
  have hr : ∀ V ∈ (getW w E).creates, V < (applyActivation w (trash w ms.rs.act E).1 E).length := by
    intro V hV; rw [hs1a.1]; exact (wf E).2 V hV
  obtain ⟨hout, hpop⟩ := createLoop_some (wf E).1 hr hu
  intro T hb h hh u hu'
  simp only [] at hh hu' ⊢
  by_cases hk : h ∈ created.map Prod.fst
  · simp only [hk, if_true]; exact M.same_refl g' u
  · simp only [hk, if_false]
    rw [assign_not_mem hk] at hu'
    -- `h` was pending before and its tagger was not trashed
    have hold : h ∈ (getT ms.rs.act T).running ∧ T ∉ (getW w E).trashes := by
      have hrun1a : h ∈ (getT (applyActivation w (trash w ms.rs.act E).1 E) T).running := by
        by_cases hc : T ∈ (getW w E).creates
        · obtain ⟨_, p2, _, _⟩ := popMany_some (hpop T hc)
          rw [p2] at hh
          rcases List.mem_append.mp hh with h1 | h2
          · exact h1
          · exfalso; apply hk; rw [hout, List.map_flatMap]
            exact List.mem_flatMap.mpr ⟨T, hc, h2⟩
        · rw [createLoop_frame hu hc] at hh; exact hh
      rw [applyActivation_running] at hrun1a
      by_cases ht : T ∈ (getW w E).trashes
      · exfalso
        by_cases hl : T < ms.rs.act.length
        · rw [trash, trashLoop_mem _ _ ht hl] at hrun1a; simp [trashed] at hrun1a
        · rw [getT_of_le _ _ (by rw [trash, trashLoop_length]; exact Nat.le_of_not_lt hl)] at hrun1a
          simp [TState.empty] at hrun1a
      · rw [trash, trashLoop_frame _ _ ht] at hrun1a; exact ⟨hrun1a, ht⟩
    have hquiet : ¬ M.moves E := by
      intro hm
      rcases ok.h hm T hb with h1 | h2
      · exact hold.2 h1
      · rw [h2] at hold; simp at hold
    exact M.same_trans _ _ _ u (cur T hb h hold.1 u hu') (ok.quiet hquiet u)

/-- all states of runs whose every commit satisfies `StepOK8` (start as in C09: first call, commit of the start-of-run
event, then arbitrary commits) -/
inductive Reach8 (w : Wires) (W : World G) (M : Motion G U) (S : TaggerIdx) : MS G → Prop where
  | start (ids0 : HandlerId → IdTuple) (g0 : G) (s0 : Act) (out : List (HandlerId × IdTuple))
      (hfirst : first w (initAct w) S (fun T => W.yieldOf T g0) = some (s0, out)) :
      Reach8 w W M S ⟨⟨s0, assign ids0 out, g0⟩, fun _ => g0⟩
  | step (ms ms' : MS G) (E : TaggerIdx) (g' : G) (prev : Reach8 w W M S ms)
      (ok : StepOK8 w M ms E g') (hcommit : commit8 w W ms E g' = some ms') : Reach8 w W M S ms'

theorem current_of_reach {w : Wires} {W : World G} {M : Motion G U} {S : TaggerIdx} (wf : WFw w) {ms : MS G}
    (h : Reach8 w W M S ms) : Current M ms ∧ PoolInv w ms.rs.act := by
  induction h with
  | start ids0 g0 s0 out hfirst =>
    exact ⟨fun T _ h _ u _ => M.same_refl g0 u, poolInv_first (poolInv_init w) hfirst⟩
  | step ms ms' E g' _ ok hcommit ih =>
    exact ⟨current_step wf ih.2 ih.1 ok hcommit, commit_poolInv ih.2 (commit8_rs hcommit)⟩

/-- **C08**: in every reachable state, whenever an event of an interaction (factor) or cell-veto handler `h` (pending for
tagger `E`) is committed next, every unit of the in-state its candidate time was computed from still has the same velocity
and lies on the same straight-line trajectory as when the candidate was computed -/
theorem in_state_current_at_every_commit {w : Wires} {W : World G} {M : Motion G U} {S : TaggerIdx} (wf : WFw w)
    {ms : MS G} (hreach : Reach8 w W M S ms) {E : TaggerIdx} (hb : M.bound E) {h : HandlerId}
    (hpending : h ∈ (getT ms.rs.act E).running) :
    ∀ u ∈ M.units (ms.rs.ids h), M.same (ms.born h) ms.rs.g u :=
  (current_of_reach wf hreach).1 E hb h hpending

/-! ### the hypotheses are satisfiable (the two-tagger wiring of `JF.C09.Example`) -/

namespace Example
def w : Wires := [⟨[0], [0], [], [], [0, 1]⟩, ⟨[0], [1], [], [], [2]⟩]
def W : World Nat :=
  { yieldOf := fun T g => if T = 0 then [some [[g], [g + 1]]] else [none], view := fun _ x => x, live := fun T => T = 0 }
/-- units = particle numbers; the global state is the active particle; a unit keeps its motion iff the active particle is the same -/
def M : Motion Nat Nat :=
  { units := fun ids => (ids.getD []).flatten
    same := fun g₁ g₂ _ => g₁ = g₂
    same_refl := fun _ _ => rfl
    same_trans := fun _ _ _ _ h₁ h₂ => h₁.trans h₂
    moves := fun _ => True
    bound := fun T => T = 0 }

def ms0 : MS Nat :=
  ⟨⟨((first w (initAct w) 1 (fun T => W.yieldOf T 5)).get (by decide)).1,
    assign (fun _ => none) ((first w (initAct w) 1 (fun T => W.yieldOf T 5)).get (by decide)).2, 5⟩, fun _ => 5⟩
def ms1 : MS Nat := (commit8 w W ms0 1 5).get (by decide)
def ms2 : MS Nat := (commit8 w W ms1 0 7).get (by decide)

example : Reach8 w W M 1 ms2 := by
  refine .step ms1 ms2 0 7 (.step ms0 ms1 1 5 (.start (fun _ => none) 5 _ _
    (Option.some_get (x := first w (initAct w) 1 (fun T => W.yieldOf T 5)) (by decide)).symm) ?_ (by simp [ms1])) ?_ (by simp [ms2])
  · refine ⟨fun h => absurd trivial h, fun _ T hb => ?_⟩
    right; rw [show T = 0 from hb]; decide
  · refine ⟨fun h => absurd trivial h, fun _ T hb => ?_⟩
    left; rw [show T = 0 from hb]; decide
end Example

/-! ### link to the configuration: clause (h) of `WiringSound` -/

/-- for a configuration with `WiringSound cfg = true`, in every state of every run (`JF.Act.Run`), clause (h) holds for the
next commit with `moves E := affects (cfg.tagger E) .motion` and `bound T := T < n ∧ motionBound (cfg.tagger T)` -/
theorem clause_h_of_wiringSound {G : Type} (c : Wiring) (W : World G) (Tr : TaggerIdx → G → G → Prop) (S : TaggerIdx)
    (sound : WiringSound c = true) (hS : c.start? = some S) (fps : FootprintsSound c W Tr) (hlive : LiveIs c W)
    {rs : RS G} (hrun : Run c W Tr S rs) {E : TaggerIdx} (hE : (getT rs.act E).running ≠ [])
    (hend : (c.tagger E).kind ≠ .endOfRun) (hm : affects (c.tagger E) .motion = true)
    {T : TaggerIdx} (hT : T < c.n) (hb : motionBound (c.tagger T) = true) :
    T ∈ (getW c.wires E).trashes ∨ (getT rs.act T).running = [] :=
  run_clause_h c W Tr S sound hS fps hlive hrun hE hend hm hT hb

end JF.C08
