import JF.Model.Store
import Mathlib.Tactic.Common
/-!
# C13 — In-states are isolated copies; only commits change the global state
-/
namespace JF.C13
open JF JF.Store

variable {α : Type}

/-- `insert_into_global_state` does not touch any object: the heap is not even an argument. -/
theorem extractGlobal_heap_irrelevant (g : Global α) (h h' : Heap α) :
    extractGlobal g h = extractGlobal g h' := by
  unfold extractGlobal
  generalize g.roots = rs
  generalize 0 = n
  induction rs generalizing n with
  | nil => rfl
  | cons R Rs ih =>
    simp only [aliasBranches, ih]
    congr 1
    simp only [aliasBranch, mkCNode]
    congr 1
    generalize R.children = cs
    generalize 0 = i
    induction cs generalizing i with
    | nil => rfl
    | cons c cs ih2 => simp only [mkChildren, mkCNode, Bool.false_eq_true, if_false]; rw [ih2]

end JF.C13
