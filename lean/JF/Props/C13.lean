import JF.Model.Store
import JF.Lemmas.StoreActive
import JF.Lemmas.PyArith
/-!
# C13 — In-states are isolated copies; only commits change the global state

Model: `JF/Model/Store.lean` (reference-level model of `TreeStateHandler`, `TreePhysicalState`,
`TreeLiftingState` with an explicit heap, plus a client session `Sess`/`Op`/`step`).
All theorems hold for every scalar type `α` (so for the exact reading `ℚ` and for binary64 alike):
the property is about identities and copies of objects, never about arithmetic.

Vocabulary (defined in `JF/Lemmas/Store*.lean`):
* `unitAt g id`    — the unit stored in the global state under identifier `id` (its references);
* `readAt g h id`  — its *value*: position, velocity, time stamp read through heap `h`, charge, weight;
* `readGlobal g h` — the values of everything `extract_global_state` shows;
* `readBranch h b` — the values read through a branch held by a client;
* `Inv s`          — the isolation invariant of a session; `Reach s` — `s` is reachable from an
                     initial state by *any* sequence of client operations.
-/
set_option linter.unusedSimpArgs false
namespace JF.C13
open JF JF.Store

variable {α : Type}

/-- `s` is the state of a client session after some history: any tree (1 or 2 levels, any number
of roots / children, any setting), any sequence of extract / mutate / insert / extract-active /
extract-global operations. -/
def Reach (s : Sess α) : Prop :=
  ∃ (_ : Div α) (o : Ops α) (levels perRoot : Nat)
    (roots : List (Option Nat × List α × List (Option Nat × List α))) (ops : List (Op α)),
    s = run (Sess.init o levels perRoot roots) ops

/-- The isolation invariant holds after every history. -/
theorem reach_inv {s : Sess α} (hr : Reach s) : Inv s := by
  obtain ⟨_, o, levels, perRoot, roots, ops, rfl⟩ := hr
  exact inv_run (inv_init o levels perRoot roots) ops

theorem reach_step {s : Sess α} (hr : Reach s) (op : Op α) : Reach (step s op).1 := by
  obtain ⟨d, o, levels, perRoot, roots, ops, rfl⟩ := hr
  refine ⟨d, o, levels, perRoot, roots, ops ++ [op], ?_⟩
  generalize Sess.init o levels perRoot roots = s0
  induction ops generalizing s0 with
  | nil => rfl
  | cons a ops ih => exact ih _

/-! ## `extract_shape`, `extract_fresh` -/

/-- **extract_shape.**  A branch handed out for `id` consists of the units with the identifiers
`branchIds g id` (see `mem_branchIds`: the ancestors of `id`, `id`, all descendants of `id`), in
preorder, and every unit carries the *current values* of the global state (position, velocity, time
stamp, charge, weight). -/
theorem extract_shape {s : Sess α} (hr : Reach s) {id : Ident} {h' : Heap α} {b : Branch α}
    (he : extract s.g s.h id = .ok (h', b)) :
    b.units.map (·.id) = branchIds s.g id ∧
    ∀ u ∈ b.units, some (readUnit h' u) = readAt s.g s.h u.id :=
  let sp := extract_spec (reach_inv hr).gok he
  ⟨sp.2.2.1, sp.2.2.2⟩

/-- extraction succeeds exactly for the identifiers that exist in the tree (every other identifier
raises `IndexError`, and nothing observable has changed then) -/
theorem extract_ok_iff (g : Global α) (h : Heap α) (id : Ident) :
    (∃ x, extract g h id = .ok x) ↔ (unitAt g id).isSome = true := by
  match id with
  | [] => simp [extract, unitAt, physGet]
  | [r] =>
    simp only [extract, unitAt, physGet]
    cases hR : g.roots[r]? <;> simp
  | [r, c] =>
    simp only [extract, unitAt, physGet]
    cases hR : g.roots[r]? with
    | none => simp
    | some R => cases hL : R.children[c]? <;> simp [hL]
  | r :: _ :: _ :: _ =>
    simp only [extract, unitAt, physGet]
    cases hR : g.roots[r]? <;> simp

/-- the branch of a root: the root and all its children -/
theorem branchIds_root (g : Global α) {r : Nat} {R : PRoot α} (hR : g.roots[r]? = some R) :
    branchIds g [r] = [r] :: (List.range R.children.length).map (fun i => [r, i]) := by
  simp [branchIds, hR]

/-- the branch of a leaf: its parent and the leaf -/
theorem branchIds_leaf (g : Global α) (r c : Nat) : branchIds g [r, c] = [[r], [r, c]] := rfl

/-- **extract_fresh.**  Extraction only allocates: the old heap is a prefix of the new one, and
every position / velocity / time-stamp object of the branch is a *new* object (`≥ next` before the
call), all of them pairwise different.  Hence none of them is reachable from the global state or
from any branch handed out earlier. -/
theorem extract_fresh {s : Sess α} (hr : Reach s) {id : Ident} {h' : Heap α} {b : Branch α}
    (he : extract s.g s.h id = .ok (h', b)) :
    Ext s.h h' ∧ b.refs.Nodup ∧ (∀ r ∈ b.refs, s.h.next ≤ r ∧ r < h'.next) ∧
    (∀ r ∈ b.refs, r ∉ s.g.refs) ∧ (∀ L ∈ s.live, ∀ r ∈ b.refs, r ∉ L.b.refs) := by
  have I := reach_inv hr
  obtain ⟨e, f, _, _⟩ := extract_spec I.gok he
  refine ⟨e, f.1, f.2, ?_, ?_⟩
  · intro r hr hg
    exact Nat.lt_irrefl _ (Nat.lt_of_lt_of_le (I.gok r hg) (f.2 r hr).1)
  · intro L hL r hr hl
    exact Nat.lt_irrefl _ (Nat.lt_of_lt_of_le (I.bok L hL r hl) (f.2 r hr).1)

/-! ## `noninterference` -/

theorem readGlobal_congr {g : Global α} {h h' : Heap α} (hf : ∀ r ∈ g.refs, h'.get? r = h.get? r) :
    readGlobal g h' = readGlobal g h := by
  have irr : ∀ (Rs : List (PRoot α)) (n : Nat), aliasBranches g.lift h' Rs n = aliasBranches g.lift h Rs n := by
    intro Rs
    induction Rs with
    | nil => intro n; rfl
    | cons R Rs ih =>
      intro n
      simp only [aliasBranches, ih]
      congr 1
      simp only [aliasBranch, mkCNode_false]
      congr 1
      generalize R.children = cs
      generalize 0 = i
      induction cs generalizing i with
      | nil => rfl
      | cons c cs ih2 => simp only [mkChildren, mkCNode_false]; rw [ih2]
  simp only [readGlobal, extractGlobal, irr]
  apply List.map_congr_left
  intro b hb
  exact readBranch_congr (fun r hr => hf r (extractGlobal_refs g h b hb r hr))

/-- **noninterference.**  After any history, changing a position, a velocity or a time stamp
(in place or by re-binding the field) through a branch that was extracted and not yet inserted
changes neither the global state (its fields, its identifier-indexed values `readAt`, the snapshot
`readGlobal`) nor any other live branch (the branch object and every value read through it). -/
theorem noninterference {s : Sess α} (hr : Reach s) (op : Op α) {b : Nat} {L : Live α}
    (ht : op.target = some b) (hL : s.live[b]? = some L) (hiso : L.iso = true) :
    (step s op).1.g = s.g ∧
    (∀ id, readAt (step s op).1.g (step s op).1.h id = readAt s.g s.h id) ∧
    readGlobal (step s op).1.g (step s op).1.h = readGlobal s.g s.h ∧
    ∀ (j : Nat) (L' : Live α), j ≠ b → s.live[j]? = some L' →
      (step s op).1.live[j]? = some L' ∧ readBranch (step s op).1.h L'.b = readBranch s.h L'.b := by
  have I := reach_inv hr
  obtain ⟨hg, hlive, hheap, _⟩ := step_mutation_frame s op ht
  have hglob : ∀ r ∈ s.g.refs, (step s op).1.h.get? r = s.h.get? r := fun r hrg =>
    hheap L hL r (I.gok r hrg) (fun hin => (I.iso L (List.mem_of_getElem? hL) hiso).2 r hin hrg)
  refine ⟨hg, ?_, ?_, ?_⟩
  · intro id; rw [hg]; exact readAt_congr hglob id
  · rw [hg]; exact readGlobal_congr hglob
  · intro j L' hj hL'
    refine ⟨by rw [hlive j hj]; exact hL', ?_⟩
    apply readBranch_congr
    intro r hr'
    exact hheap L hL r (I.bok L' (List.mem_of_getElem? hL') r hr')
      (fun hin => I.sep b j L L' (Ne.symm hj) hL hL' hiso r hin hr')

/-! ## only commits change the global state -/

/-- extract / extract-active / extract-global change neither the global state nor any branch
handed out before. -/
theorem readonly_ops_unchanged {s : Sess α} (hr : Reach s) (op : Op α) (ht : op.target = none)
    (hi : op.isInsert = false) :
    (step s op).1.g = s.g ∧
    (∀ id, readAt (step s op).1.g (step s op).1.h id = readAt s.g s.h id) ∧
    readGlobal (step s op).1.g (step s op).1.h = readGlobal s.g s.h ∧
    ∀ (j : Nat) (L' : Live α), s.live[j]? = some L' →
      (step s op).1.live[j]? = some L' ∧ readBranch (step s op).1.h L'.b = readBranch s.h L'.b := by
  have I := reach_inv hr
  obtain ⟨hg, e, hlive⟩ := step_readonly_frame I op ht hi
  refine ⟨hg, ?_, ?_, ?_⟩
  · intro id; rw [hg]; exact readAt_ext I.gok e id
  · rw [hg]; exact readGlobal_congr (fun r hrg => e.2 r (I.gok r hrg))
  · intro j L' hL'
    exact ⟨hlive j L' hL', readBranch_congr (fun r hr' => e.2 r (I.bok L' (List.mem_of_getElem? hL') r hr'))⟩

/-- the discipline of the event handlers: no commit, and mutations only through branches that were
extracted and not yet inserted -/
def BetweenCommits (s : Sess α) : List (Op α) → Prop
  | [] => True
  | op :: ops =>
    op.isInsert = false ∧
    (∀ b, op.target = some b → ∃ L, s.live[b]? = some L ∧ L.iso = true) ∧
    BetweenCommits (step s op).1 ops

/-- **between_commits_unchanged.**  After any history, any further sequence of operations that
contains no `insert` and mutates only not-yet-inserted branches leaves the global state as it is. -/
theorem between_commits_unchanged {s : Sess α} (hr : Reach s) (ops : List (Op α)) (hd : BetweenCommits s ops) :
    (run s ops).g = s.g ∧ (∀ id, readAt (run s ops).g (run s ops).h id = readAt s.g s.h id) ∧
    readGlobal (run s ops).g (run s ops).h = readGlobal s.g s.h := by
  induction ops generalizing s with
  | nil => exact ⟨rfl, fun _ => rfl, rfl⟩
  | cons op ops ih =>
    obtain ⟨hi, hm, hrest⟩ := hd
    obtain ⟨g1, a1, r1⟩ := ih (reach_step hr op) hrest
    have one : (step s op).1.g = s.g ∧ (∀ id, readAt (step s op).1.g (step s op).1.h id = readAt s.g s.h id) ∧
        readGlobal (step s op).1.g (step s op).1.h = readGlobal s.g s.h := by
      cases ht : op.target with
      | none =>
        obtain ⟨x, y, z, _⟩ := readonly_ops_unchanged hr op ht hi
        exact ⟨x, y, z⟩
      | some b =>
        obtain ⟨L, hL, hiso⟩ := hm b ht
        obtain ⟨x, y, z, _⟩ := noninterference hr op ht hL hiso
        exact ⟨x, y, z⟩
    exact ⟨g1.trans one.1, fun id => (a1 id).trans (one.2.1 id), r1.trans one.2.2⟩

/-! ## `insert_read` -/

/-- **insert_read.**  A successful `insert_into_global_state` of the branches `bs` touches no
object (the heap is the same, so everything read through any branch is the same); afterwards the
global state reads, under the identifier of every committed unit `u` (the last one, should an
identifier occur twice), exactly the committed position, velocity and time stamp (charge and weight
are those of the node), and every identifier that does not occur in `bs` reads as before. -/
theorem insert_read {s : Sess α} {sel : List (Nat × Nat)} {bs : List (Branch α)}
    (hsel : selBranches s.live sel = some bs) (hok : (step s (.insert sel)).2 = none) :
    (step s (.insert sel)).1.h = s.h ∧
    (∀ id, (∀ u ∈ bs.flatMap Branch.units, u.id ≠ id) →
      readAt (step s (.insert sel)).1.g (step s (.insert sel)).1.h id = readAt s.g s.h id) ∧
    (∀ pre u post, bs.flatMap Branch.units = pre ++ u :: post → (∀ w ∈ post, w.id ≠ u.id) →
      ∃ o, unitAt s.g u.id = some o ∧
        readAt (step s (.insert sel)).1.g (step s (.insert sel)).1.h u.id = some (readUnit s.h (u.over o))) := by
  simp only [step, hsel] at hok ⊢
  have hins : insertUnits s.g (bs.flatMap Branch.units) = ((Store.insert s.g bs).1, none) := by
    simp only [Store.insert] at hok ⊢
    rw [← hok]
  refine ⟨trivial, ?_, ?_⟩
  · intro id hn
    simp only [readAt, unitAt_insertUnits_other hins hn]
  · intro pre u post hsplit hn
    rw [hsplit] at hins
    obtain ⟨o, ho, hnew⟩ := unitAt_insertUnits_last hins hn
    exact ⟨o, ho, by simp only [readAt, hnew, Option.map_some]⟩

/-- what is read back is literally the committed unit: same position, velocity and time-stamp
objects, hence the same values -/
theorem over_reads (h : Heap α) (u o : CUnit α) :
    (readUnit h (u.over o)).pos = (readUnit h u).pos ∧ (readUnit h (u.over o)).vel = (readUnit h u).vel ∧
    (readUnit h (u.over o)).ts = (readUnit h u).ts ∧ (readUnit h (u.over o)).id = u.id :=
  ⟨rfl, rfl, rfl, rfl⟩

/-! ## `active_spec` -/

/-- **active_spec (two levels).**  After any history of a two-level system the identifiers handed
to `extract_active_global_state` are exactly: for every lifted composite object `[r]`, the object
itself if all its `perRoot` point masses are lifted, otherwise its lifted point masses.  ("lifted" =
has a velocity in the global lifting state.) -/
theorem active_spec [Div α] (o : Ops α) (perRoot : Nat)
    (roots : List (Option Nat × List α × List (Option Nat × List α))) (ops : List (Op α)) (id : Ident) :
    let l := (run (Sess.init o 2 perRoot roots) ops).g.lift
    id ∈ l.independent ↔ ∃ r, l.isLifted [r] ∧
      ((id = [r] ∧ ∀ i, i < l.perRoot → l.isLifted [r, i]) ∨
       ((¬ ∀ i, i < l.perRoot → l.isLifted [r, i]) ∧ ∃ i, i < l.perRoot ∧ id = [r, i] ∧ l.isLifted [r, i])) :=
  mem_independent (liftwf_run (liftwf_init o perRoot roots) ops) id

/-- **active_spec (one level).**  With one node level every lifted unit is independent. -/
theorem active_spec_one_level (l : Lifting) (h1 : l.levels = 1) (id : Ident) :
    id ∈ l.independent ↔ l.isLifted id := mem_independent_one h1 id

/-- `extract_active_global_state` hands out one branch per independent identifier (in that order),
each with the shape and the current values `extract_shape` describes, all objects new and pairwise
different. -/
theorem extractActive_branches {s : Sess α} (hr : Reach s) {h' : Heap α} {bs : List (Branch α)}
    (he : extractActive s.g s.h = .ok (h', bs)) :
    Ext s.h h' ∧ (bs.flatMap Branch.refs).Nodup ∧ (∀ r ∈ bs.flatMap Branch.refs, s.h.next ≤ r) ∧
    bs.length = s.g.lift.independent.length ∧
    ∀ (k : Nat) (id : Ident) (b : Branch α), s.g.lift.independent[k]? = some id → bs[k]? = some b →
      b.units.map (·.id) = branchIds s.g id ∧ ∀ u ∈ b.units, some (readUnit h' u) = readAt s.g s.h u.id := by
  obtain ⟨e, f, len, sp⟩ := extractMany_spec _ (reach_inv hr).gok he
  exact ⟨e, f.1, fun r hr => (f.2 r hr).1, len, sp⟩

/-! ## Non-vacuity: a concrete two-dipole session (exact reading, `α = ℚ`) meets the hypotheses -/

section examples

/-- two dipoles in one dimension -/
def exInit : Sess ℚ :=
  Sess.init Ops.rat 2 2 [(none, [5], [(some 0, [0]), (some 1, [1])]), (none, [6], [(some 2, [2]), (some 3, [3])])]

/-- extract leaf (0,1); give it and its root a velocity and a time stamp; commit; extract root 0
again -/
def exOps : List (Op ℚ) :=
  [.extract [0, 1], .newVel 0 1 (some [1]), .newTs 0 1 (some (0, 4)), .newVel 0 0 (some [8]),
   .newTs 0 0 (some (0, 4)), .insert [(0, 0)], .extract [0]]

def exS : Sess ℚ := run exInit exOps

theorem exReach : Reach exS := ⟨inferInstance, Ops.rat, 2, 2, _, exOps, rfl⟩

/-- `extract_shape` / `extract_fresh`: a reachable state and a successful extraction of a whole
composite object (root + 2 children) whose root is lifted -/
example : ∃ (s : Sess ℚ) (id : Ident) (x : Heap ℚ × Branch ℚ), Reach s ∧ extract s.g s.h id = .ok x ∧
    x.2.children.length = 2 ∧ x.2.root.vel.isSome = true :=
  ⟨exS, [0], _, exReach, rfl, by decide, by decide⟩

/-- `noninterference`: live branch 1 of `exS` (extracted after the commit, never inserted) is
isolated, and all six kinds of mutation target it -/
example : ∃ L, exS.live[1]? = some L ∧ L.iso = true ∧
    (Op.setPos 1 2 0 (7 : ℚ)).target = some 1 ∧ (Op.tsUpdate 1 0 (3 : ℚ) 0).target = some 1 ∧
    (step exS (.setPos 1 2 0 7)).2 = none ∧ (step exS (.tsUpdate 1 0 3 0)).2 = none ∧
    (step exS (.setVel 1 2 0 9)).2 = none :=
  ⟨_, rfl, by decide, rfl, rfl, by decide, by decide, by decide⟩

/-- the mutation really happens (so "nothing else changes" is not vacuous): the value read through
the mutated branch differs afterwards -/
example : ((step exS (.setPos 1 2 0 7)).1.live[1]?.map fun L => (readBranch (step exS (.setPos 1 2 0 7)).1.h L.b).map
      fun v => match v.pos with | some (.vec l) => l | _ => []) = some [[5], [0], [7]] ∧
    (exS.live[1]?.map fun L => (readBranch exS.h L.b).map
      fun v => match v.pos with | some (.vec l) => l | _ => []) = some [[5], [0], [1]] := by decide

/-- `between_commits_unchanged`: a sequence of extractions and mutations of not-yet-inserted
branches satisfies the discipline -/
example : BetweenCommits exS [.extract [1, 0], .setPos 1 2 0 7, .newVel 1 1 none, .tsUpdate 1 0 3 0,
    .newPos 2 0 [4], .global, .active] := by
  simp only [BetweenCommits, Op.isInsert, Op.target, true_and, and_true, Option.some.injEq, forall_eq',
    reduceCtorEq, false_implies, implies_true]
  decide

/-- `insert_read`: the commit in `exOps` (branch 0 after the five mutations) is a successful
insert of a two-unit branch -/
example : ∃ bs, selBranches (run exInit (exOps.take 5)).live [(0, 0)] = some bs ∧
    (step (run exInit (exOps.take 5)) (.insert [(0, 0)])).2 = none ∧ (bs.flatMap Branch.units).length = 2 :=
  ⟨_, rfl, by decide, by decide⟩

/-- `active_spec`: in `exS` the independent identifier is the leaf `(0,1)` (root 0 is lifted, only
one of its two point masses is) -/
example : exS.g.lift.independent = [[0, 1]] := by decide

/-- … and after also lifting leaf `(0,0)` it is the composite object `(0,)` -/
example : (run exS [.extract [0, 0], .newVel 2 1 (some [1]), .newTs 2 1 (some (0, 4)), .insert [(2, 1)]]).g.lift.independent
    = [[0]] := by decide

/-- `extractActive_branches`: the active extraction of `exS` succeeds with one branch -/
example : ∃ x, extractActive exS.g exS.h = .ok x ∧ x.2.length = 1 := ⟨_, rfl, by decide⟩

end examples

end JF.C13
