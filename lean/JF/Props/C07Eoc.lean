import JF.Model.EndOfChain
import JF.Lemmas.Kinematics
import JF.Props.C14
import Mathlib.Tactic.LinearCombination
/-!
# C07 (continued) — the end-of-chain handlers keep the speed and fire at the chain time

`JF.Props.C07` proves the chain invariant under the admissibility hypothesis that an end-of-chain event installs a
velocity of the same squared norm. This file discharges that hypothesis for the two shipped end-of-chain handlers
(`newVelocityPeriodic`: exactly, for every scalar reading over ℚ; `newVelocitySequential`: in exact arithmetic whenever
`cos² + sin² = 1`), and shows that the candidate time of an end-of-chain event is the last end-of-chain time plus the
chain time (exact reading). In binary64 the rotation preserves the speed only up to rounding; the run-level oracle of
`./check C07` measures the drift (tolerance 1e-10 relative).
-/
namespace JF.C07
open JF JF.EndOfChain JF.C14

/-- squared norm of a list vector -/
def nsq (v : List ℚ) : ℚ := (v.map (fun x => x * x)).sum

theorem nsq_unitAt (dim k : Nat) (x : ℚ) (hk : k < dim) : nsq (unitAt Ops.rat dim k x) = x * x := by
  unfold nsq unitAt
  simp only [List.map_map, rat_ofInt, Int.cast_zero]
  induction dim generalizing k with
  | zero => omega
  | succ n ih =>
    rw [List.range_succ, List.map_append, List.sum_append]
    by_cases hkn : k = n
    · subst hkn
      have : ((List.range k).map ((fun x => x * x) ∘ fun i => if (i == k) = true then x else (0:ℚ))).sum = 0 := by
        apply List.sum_eq_zero
        intro y hy
        obtain ⟨i, hi, rfl⟩ := List.mem_map.mp hy
        have : i ≠ k := by have := List.mem_range.mp hi; omega
        simp [this]
      rw [this]; simp
    · have hlt : k < n := by omega
      rw [ih k hlt]
      have hne : n ≠ k := by omega
      simp [hne]

theorem nonZeroIdx_single (v : List ℚ) (off d : Nat) (h : nonZeroIdx Ops.rat v off = [d]) :
    off ≤ d ∧ d - off < v.length ∧ nsq v = (v.getD (d - off) 0) * (v.getD (d - off) 0) ∧
      (v.getD (d - off) 0) ≠ 0 := by
  induction v generalizing off with
  | nil => simp [nonZeroIdx] at h
  | cons c cs ih =>
    unfold nonZeroIdx at h
    by_cases hc : c = 0
    · subst hc
      simp only [rat_ofInt, Int.cast_zero, bne_self_eq_false, Bool.false_eq_true, if_false] at h
      obtain ⟨h1, h2, h3, h4⟩ := ih (off + 1) h
      have e : d - off = (d - (off + 1)) + 1 := by omega
      refine ⟨by omega, by simp; omega, ?_, ?_⟩
      · rw [e]; simp only [nsq, List.map_cons, List.sum_cons, List.getD_cons_succ]; simpa [nsq] using h3
      · rw [e]; simpa using h4
    · have hb : (c != Ops.rat.ofInt 0) = true := by simpa using hc
      rw [if_pos hb] at h
      have hd : off = d := by injection h
      have hrest : nonZeroIdx Ops.rat cs (off + 1) = [] := by injection h
      subst hd
      have allz : ∀ (l : List ℚ) (o : Nat), nonZeroIdx Ops.rat l o = [] → nsq l = 0 := by
        intro l
        induction l with
        | nil => intro _ _; simp [nsq]
        | cons a t iht =>
          intro o ho
          unfold nonZeroIdx at ho
          by_cases ha : a = 0
          · subst ha
            simp only [rat_ofInt, Int.cast_zero, bne_self_eq_false, Bool.false_eq_true, if_false] at ho
            simpa [nsq] using iht (o + 1) ho
          · have : (a != Ops.rat.ofInt 0) = true := by simpa using ha
            rw [if_pos this] at ho; simp at ho
      refine ⟨le_refl _, by simp, ?_, by simpa using hc⟩
      simp only [Nat.sub_self, List.getD_cons_zero]
      simp only [nsq, List.map_cons, List.sum_cons]
      have := allz cs (off + 1) hrest
      simp only [nsq] at this
      rw [this]; ring

/-- **Periodic direction**: the new velocity has the squared norm of the old one, has the dimension of the box, and has a
single non-zero component (so the next end of chain is admissible again). -/
theorem periodic_keeps_speed (dim : Nat) (hd : 0 < dim) (v w : List ℚ)
    (h : newVelocityPeriodic Ops.rat dim v = .ok w) : nsq w = nsq v ∧ w.length = dim := by
  unfold newVelocityPeriodic at h
  split at h
  · next d hnz =>
    injection h with h
    subst h
    obtain ⟨_, _, h3, _⟩ := nonZeroIdx_single v 0 d hnz
    refine ⟨?_, by simp [unitAt]⟩
    rw [nsq_unitAt dim _ _ (Nat.mod_lt _ hd), h3]; simp
  · cases h

/-- **Sequential direction**: a rotation keeps the squared norm (exact arithmetic, `cos² + sin² = 1`). -/
theorem sequential_keeps_speed (c s : ℚ) (hcs : c * c + s * s = 1) (v w : List ℚ)
    (h : newVelocitySequential c s v = .ok w) : nsq w = nsq v ∧ w.length = 2 := by
  unfold newVelocitySequential at h
  match v, h with
  | [v0, v1], h =>
    injection h with h
    subst h
    refine ⟨?_, rfl⟩
    simp only [nsq, List.map_cons, List.map_nil, List.sum_cons, List.sum_nil]
    linear_combination (v0 * v0 + v1 * v1) * hcs

/-- **Chain time**: the candidate time of the end-of-chain event is the time of the last end-of-chain event plus the
chain time, whatever happened in between (exact reading), and it is normalised. -/
theorem eventTime_val (last cur t : Time ℚ) (chain : ℚ) (hc : Normalised cur)
    (h : eventTime Ops.rat last cur chain = .ok t) : val t = val last + chain ∧ Normalised t := by
  unfold eventTime newChainTime at h
  split at h
  · next d hd =>
    injection h with h
    subst h
    simp only at hd
    split at hd
    · cases hd
    · injection hd with hd
      subst hd
      refine ⟨?_, add_normalised _ _ hc⟩
      rw [add_val, sub_exact]; ring
  · cases h

/-- non-vacuity -/
example : newVelocityPeriodic Ops.rat 3 [0, 0, 5] = .ok [5, 0, 0] := by decide +kernel
example : newVelocitySequential (3/5 : ℚ) (4/5) [1, 0] = .ok [3/5, 4/5] := by decide +kernel
example : ((3:ℚ)/5) * (3/5) + (4/5) * (4/5) = 1 := by norm_num
example : (eventTime Ops.rat ⟨2, 1/4⟩ ⟨2, 3/4⟩ (3/4)).toOption.map (fun t => (t.q, t.r)) = some (3, 0) := by decide +kernel

end JF.C07
