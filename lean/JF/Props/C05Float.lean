import JF.Lemmas.LiftingRndErr
import JF.Lemmas.LiftingRndB64
import JF.Lemmas.RoundedBinary
import JF.Props.C05
/-!
# C05, rounding-abstract reading — what the lifting schemes guarantee FOR FLOATS

`JF/Props/C05.lean` proves C05 in the exact reading and says "what the theorems do NOT cover: rounding".  This file covers
it: the SAME model (`JF.Model.Lifting`, the model of `jellyfysh/lifting/{lifting,inside_first_lifting,
outside_first_lifting,ratio_lifting}.py`) is read over `R fm` — rationals whose every `+ - *` rounds with `fm.rnd` — for an
ARBITRARY `fm : FloatModel` (`JF/Num/Rounded.lean`; IEEE-754 binary64 round-to-nearest-even is the proved instance
`FloatModel.binary64`).  Every float operation of the Python code rounds where the code performs it:
`self._random_position += lifting_rate`, `random.uniform(0.0, r) = 0.0 + (r - 0.0) * random()`, `summed_lifting_rate +=
lifting_rate`, `sum(neg) - self._random_position`, `uniform(0.0, sum(neg))` (spelled out in `toQ_posIn`,
`toQ_posOf_outside`, `toQ_posOf_ratio`, `toQ_acc_succ`).  Comparisons and unary minus are exact.

**What models `sum()`.**  CPython's builtin `sum` on floats is a compensated (Neumaier) sum; the model has its recurrence
(`Lifting.neumaier`, `Lifting.pySum`), and over `R fm` every operation of that recurrence rounds.  Parts 1, 2 and the
monotonicity of part 3 are theorems about the model WITH that rounded recurrence — they need nothing about its value,
so they hold for any value `sum()` could return.  The error bounds of part 3b take the error of that value as an
explicit parameter: `δ` with the hypothesis `|toQ (sumNeg …) − S| ≤ δ` (`S` the exact sum); nothing is claimed about how
small `δ` is (the `FloatModel` hypotheses do not contain the exactness of `Fast2Sum` that makes the compensation work).
The inside-first scheme does not call `sum()`, its bound has no `δ`.

Vocabulary: a table `tbl : List (R fm × ι)` of (derivative, identifier) in insertion order, active index `a`, draws
`u` (`random()` inside `insert`) and `u2` (ratio's own draw); `negs tbl` the negative list the rounded loop builds;
`selIdx fm sch tbl a u u2` the index into it that the rounded walk reads; `posOf` the rounded position; `acc` the
loop's rounded running sums.  `Active tbl a`: entry `a` exists and is `> 0`; `HasNeg tbl`: some entry is `≤ 0`.

1. **Safety** — `choose_safe`: for EVERY `fm`, table, scheme and EVERY pair of draws (any rationals, so in particular the
   closed ranges), the move returns the identifier of a table entry with a NON-POSITIVE derivative; never an error.
   `choose_index_error_iff`: `IndexError` iff no entry is `≤ 0`; `choose_assertion`, `choose_notRecorded`.
2. **Strict negativity, characterised** — `zero_rate_selected_iff`: the selected unit has derivative zero IFF
   (a) `condA`: the rounded position is `≤ 0` and the negative list starts with a zero-rate entry, or
   (b) `condB`: the last rounded running sum is below the rounded position (fall-through) and the last entry has rate
   zero.  Both are decidable tests (`Bool`), defined for any scalar type; `zero_rate_selected_iff'` and, per scheme with the
   rounded position written out, `inside_/outside_/ratio_zero_rate_selected_iff`.  `choose_negative_of_not_cond`,
   `choose_zero_of_cond`, `choose_negative_of_no_zero`; `posIn_le_zero_iff`: for the inside scheme (a) needs the
   active unit to be the first positive one AND the product `q·u` to round to zero (draw `0` or underflow).
3. **Monotone selection** — `inside_selIdx_mono`, `outside_selIdx_anti`, `ratio_selIdx_mono`/`_anti`; the draws
   selecting a unit form an interval: `inside_sel_interval`, `outside_sel_interval`, `ratio_sel_interval` (all
   unconditional).  **Flow error bound** — `flow_error_position` (any table), `flow_error_draw` + `flow_error_inner`
   (tables whose exact rates sum to zero): the rounded selection interval contains `(lo + ε, hi − ε)` and is contained
   in `[lo − ε, hi + ε]`, `lo`/`hi` the exact end points of `C05.sel_interval`, `ε = errFlow / scale`;
   `errFlow_inside_le`: `errFlow ≤ (4L + 8)·eps·T + 2·tau` for the inside scheme (`L` entries, `T` = sum of |rates|,
   `tau` = one subnormal rounding) — it grows with the table only.
4. **binary64** — `choose_safe_binary64`, `zero_rate_selected_iff_binary64`, `flow_error_inside_binary64`; the six known
   findings are each condition (a) or (b): `binary64_*_is_a`, `binary64_*_is_b` (kernel evaluation of the same `condA`,
   `condB` in native binary64) and `outside_fall_through_R_binary64` (one of them evaluated inside `R binary64`, on a
   representable table that sums to zero exactly).

Nothing is `_partial`.  Not covered: NaN/±∞ (no such values in `R fm`), signed zeros (`-0.0 == 0.0` in both worlds).
-/
namespace JF.C05F
open JF JF.Lifting JF.R

variable {fm : FloatModel} {ι : Type}

/-- hypotheses on the table: the active entry exists and its derivative is positive (`insert`'s `assert`) -/
structure Active (tbl : List (R fm × ι)) (a : Nat) : Prop where
  lt : a < tbl.length
  pos : 0 < toQ (tbl[a]).1

theorem Active.ofInt {tbl : List (R fm × ι)} {a : Nat} (A : Active tbl a) :
    (Ops.rounded fm).ofInt 0 < (tbl[a]'A.lt).1 := by
  have := A.pos
  simpa using this

/-- the list of (negated rate, identifier) the rounded insertion loop leaves -/
abbrev negs (tbl : List (R fm × ι)) : List (R fm × ι) := negL (Ops.rounded fm) tbl

/-- the table has an entry whose derivative is not positive -/
def HasNeg (tbl : List (R fm × ι)) : Prop := ∃ e ∈ tbl, toQ e.1 ≤ 0

theorem negs_ne_nil {tbl : List (R fm × ι)} (h : HasNeg tbl) : negs tbl ≠ [] := by
  obtain ⟨e, he, h0⟩ := h
  intro hn
  have := (negL_eq_nil_iff (Ops.rounded fm) tbl).mp hn e he
  have : (0 : ℚ) < toQ e.1 := by simpa using this
  linarith

/-- the index (into the negative list) that the rounded walk reads -/
def selIdx (fm : FloatModel) (sch : Scheme) (tbl : List (R fm × ι)) (a : Nat) (u u2 : R fm) : Nat :=
  sel (Ops.rounded fm) (posOf (Ops.rounded fm) sch tbl a u u2) (negs tbl)

theorem selIdx_lt {tbl : List (R fm × ι)} (hn : HasNeg tbl) (sch : Scheme) (a : Nat) (u u2 : R fm) :
    selIdx fm sch tbl a u u2 < (negs tbl).length := sel_lt _ _ (negs_ne_nil hn)

/-! ### 1. Safety -/

/-- the rounded move is the rounded walk on the rounded position -/
theorem chooseIdx_eq_selIdx {tbl : List (R fm × ι)} {a : Nat} (A : Active tbl a) (hn : HasNeg tbl) (sch : Scheme)
    (u u2 : R fm) :
    chooseIdx (Ops.rounded fm) sch tbl a u u2 = .ok (selIdx fm sch tbl a u u2) := by
  rw [chooseIdx_g _ sch tbl a u u2 A.lt A.ofInt, selectIdx_eq_sel _ _ (negs_ne_nil hn)]
  rfl

theorem choose_eq_selIdx {tbl : List (R fm × ι)} {a : Nat} (A : Active tbl a) (hn : HasNeg tbl) (sch : Scheme)
    (u u2 : R fm) :
    choose (Ops.rounded fm) sch tbl a u u2 = .ok ((negs tbl)[selIdx fm sch tbl a u u2]'(selIdx_lt hn sch a u u2)).2 := by
  rw [choose_g _ sch tbl a u u2 A.lt A.ofInt, select_eq _ _ (negs_ne_nil hn)]
  rfl

/-- an entry of the negative list is a table entry with a non-positive derivative, negated -/
theorem negs_entry {tbl : List (R fm × ι)} {k : Nat} (hk : k < (negs tbl).length) :
    ∃ r, (r, ((negs tbl)[k]).2) ∈ tbl ∧ toQ r ≤ 0 ∧ toQ ((negs tbl)[k]).1 = -toQ r := by
  obtain ⟨r, h1, h2, h3⟩ := mem_negL (Ops.rounded fm) (List.getElem_mem hk)
  have : ¬ (0 : ℚ) < toQ r := by simpa using h2
  exact ⟨r, h1, not_lt.mp this, by rw [h3, toQ_neg]⟩

/-- **Safety.**  For EVERY rounding model, table, scheme and EVERY pair of draws (no range restriction at all, so in
particular for the closed ranges `[0, 1]` that `random.random`/`random.uniform` can return): if the active entry is
positive and the table has at least one non-positive entry, the move returns (no error outcome) the identifier of
an entry of the table whose derivative is NON-POSITIVE. -/
theorem choose_safe {tbl : List (R fm × ι)} {a : Nat} (A : Active tbl a) (hn : HasNeg tbl) (sch : Scheme)
    (u u2 : R fm) :
    ∃ r i, (r, i) ∈ tbl ∧ toQ r ≤ 0 ∧ choose (Ops.rounded fm) sch tbl a u u2 = .ok i := by
  obtain ⟨r, h1, h2, _⟩ := negs_entry (selIdx_lt hn sch a u u2)
  exact ⟨r, _, h1, h2, choose_eq_selIdx A hn sch u u2⟩

/-- the only way to an `IndexError` (`self._associated_identifiers[-1]` on an empty list): a positive active entry in
a table ALL of whose derivatives are positive -/
theorem choose_index_error_iff {tbl : List (R fm × ι)} {a : Nat} (A : Active tbl a) (sch : Scheme) (u u2 : R fm) :
    choose (Ops.rounded fm) sch tbl a u u2 = .error .index ↔ ¬ HasNeg tbl := by
  constructor
  · intro h hn
    rw [choose_eq_selIdx A hn] at h
    cases h
  · intro hn
    have : negs tbl = [] := by
      rw [negL_eq_nil_iff]
      intro e he
      have : ¬ toQ e.1 ≤ 0 := fun h => hn ⟨e, he, h⟩
      simpa using not_le.mp this
    rw [choose_g _ sch tbl a u u2 A.lt A.ofInt]
    unfold select
    rw [show negL (Ops.rounded fm) tbl = [] from this, selectIdx_nil]

/-- the other error outcomes, for completeness: an active entry that is not positive trips the `assert` … -/
theorem choose_assertion {tbl : List (R fm × ι)} {a : Nat} (ha : a < tbl.length) (hq : toQ (tbl[a]).1 ≤ 0)
    (sch : Scheme) (u u2 : R fm) : choose (Ops.rounded fm) sch tbl a u u2 = .error .assertion := by
  unfold choose fill
  rw [fillFrom_assertion_g (Ops.rounded fm) a u tbl 0 a (empty _) ha (by omega) rfl
    (by simpa using not_lt.mpr hq)]

/-- … and an active index beyond the table leaves `_active_recorded` false: `LiftingSchemeError` -/
theorem choose_notRecorded {tbl : List (R fm × ι)} {a : Nat} (ha : tbl.length ≤ a) (sch : Scheme) (u u2 : R fm) :
    choose (Ops.rounded fm) sch tbl a u u2 = .error .notRecorded := by
  obtain ⟨s', h1, h2⟩ := fillFrom_unrecorded_g (Ops.rounded fm) a u tbl 0 (empty _) (by omega) rfl
  unfold choose fill
  rw [h1]
  cases sch <;> simp [getInside, getOutside, getRatio, h2]

/-! ### 2. Strict negativity, characterised -/

/-- condition (a) in `ℚ`: the rounded position is `≤ 0` and the negative list starts with a zero-rate entry -/
theorem condA_iff (sch : Scheme) (tbl : List (R fm × ι)) (a : Nat) (u u2 : R fm) :
    condA (Ops.rounded fm) sch tbl a u u2 = true ↔
      toQ (posOf (Ops.rounded fm) sch tbl a u u2) ≤ 0 ∧ ∃ h : 0 < (negs tbl).length, toQ ((negs tbl)[0]).1 = 0 := by
  exact condAOn_iff _ _

/-- condition (b) in `ℚ`: the last rounded running sum of the loop is below the rounded position and the last entry
of the negative list has rate zero -/
theorem condB_iff (sch : Scheme) (tbl : List (R fm × ι)) (a : Nat) (u u2 : R fm) :
    condB (Ops.rounded fm) sch tbl a u u2 = true ↔
      toQ (acc (negs tbl) ((Ops.rounded fm).ofInt 0) (negs tbl).length) <
          toQ (posOf (Ops.rounded fm) sch tbl a u u2) ∧
        ∃ h : 0 < (negs tbl).length, toQ ((negs tbl)[(negs tbl).length - 1]).1 = 0 := by
  exact condBOn_iff _ _

/-- **The six known findings are all there is.**  For every rounding model, table, scheme and draws: the unit the
rounded walk selects has derivative ZERO if and only if
(a) the rounded position is `≤ 0` and the negative list starts with a zero-rate entry, or
(b) the loop falls through (its last rounded running sum is below the rounded position) and the last entry of the
    negative list has rate zero. -/
theorem zero_rate_selected_iff {tbl : List (R fm × ι)} {a : Nat} (hn : HasNeg tbl) (sch : Scheme)
    (u u2 : R fm) :
    toQ ((negs tbl)[selIdx fm sch tbl a u u2]'(selIdx_lt hn sch a u u2)).1 = 0 ↔
      condA (Ops.rounded fm) sch tbl a u u2 = true ∨ condB (Ops.rounded fm) sch tbl a u u2 = true := by
  have hlen : 0 < (negs tbl).length := List.length_pos_iff.mpr (negs_ne_nil hn)
  rw [condA_iff, condB_iff]
  have := sel_zero_rate_iff (negs_ne_nil hn) (negL_nonneg tbl) (posOf (Ops.rounded fm) sch tbl a u u2)
  simp only [hlen, exists_true_left]
  exact this

/-- **Strict negativity** outside the two conditions: the move returns the identifier of a table entry whose
derivative is `< 0`. -/
theorem choose_negative_of_not_cond {tbl : List (R fm × ι)} {a : Nat} (A : Active tbl a) (hn : HasNeg tbl)
    (sch : Scheme) (u u2 : R fm) (hA : condA (Ops.rounded fm) sch tbl a u u2 = false)
    (hB : condB (Ops.rounded fm) sch tbl a u u2 = false) :
    ∃ r i, (r, i) ∈ tbl ∧ toQ r < 0 ∧ choose (Ops.rounded fm) sch tbl a u u2 = .ok i := by
  obtain ⟨r, h1, h2, h3⟩ := negs_entry (selIdx_lt hn sch a u u2)
  refine ⟨r, _, h1, ?_, choose_eq_selIdx A hn sch u u2⟩
  rcases lt_or_eq_of_le h2 with h | h
  · exact h
  · exfalso
    have hz : toQ ((negs tbl)[selIdx fm sch tbl a u u2]'(selIdx_lt hn sch a u u2)).1 = 0 := by rw [h3, h]; simp
    rcases (zero_rate_selected_iff hn sch u u2).mp hz with h' | h'
    · rw [hA] at h'; cases h'
    · rw [hB] at h'; cases h'

/-- conversely, under (a) or (b) the move does return the identifier of a zero-derivative entry -/
theorem choose_zero_of_cond {tbl : List (R fm × ι)} {a : Nat} (A : Active tbl a) (hn : HasNeg tbl)
    (sch : Scheme) (u u2 : R fm)
    (h : condA (Ops.rounded fm) sch tbl a u u2 = true ∨ condB (Ops.rounded fm) sch tbl a u u2 = true) :
    ∃ r i, (r, i) ∈ tbl ∧ toQ r = 0 ∧ choose (Ops.rounded fm) sch tbl a u u2 = .ok i := by
  obtain ⟨r, h1, _, h3⟩ := negs_entry (selIdx_lt hn sch a u u2)
  have hz := (zero_rate_selected_iff (a := a) hn sch u u2).mpr h
  exact ⟨r, _, h1, by rw [h3] at hz; linarith, choose_eq_selIdx A hn sch u u2⟩

/-- a table without zero entries: always strictly negative, whatever the draws and the rounding -/
theorem choose_negative_of_no_zero {tbl : List (R fm × ι)} {a : Nat} (A : Active tbl a) (hn : HasNeg tbl)
    (hz : ∀ e ∈ tbl, toQ e.1 ≠ 0) (sch : Scheme) (u u2 : R fm) :
    ∃ r i, (r, i) ∈ tbl ∧ toQ r < 0 ∧ choose (Ops.rounded fm) sch tbl a u u2 = .ok i := by
  obtain ⟨r, i, h1, h2, h3⟩ := choose_safe A hn sch u u2
  exact ⟨r, i, h1, lt_of_le_of_ne h2 (hz _ h1), h3⟩

/-! #### the rounded positions, spelled out: `fm.rnd` after every `+ - *` of the Python code -/

/-- `_random_position` when `get_active_identifier` runs:
`fl(P̃ + fl(0.0 + fl(fl(q − 0.0) · u)))`, `P̃` the left-to-right rounded sum of the positive rates before `a`
(`self._random_position += lifting_rate`, then `+= random.uniform(0.0, lifting_rate)`, `uniform(a, b) = a + (b-a)*random()`) -/
theorem toQ_posIn {tbl : List (R fm × ι)} {a : Nat} (ha : a < tbl.length) (u : R fm) :
    toQ (posIn (Ops.rounded fm) tbl a u) =
      fm.rnd (toQ (posAcc (Ops.rounded fm) (tbl.take a) ((Ops.rounded fm).ofInt 0)) +
        fm.rnd (0 + fm.rnd (fm.rnd (toQ (tbl[a]).1 - 0) * toQ u))) :=
  toQ_posIn' ha u

theorem toQ_posOf_inside (tbl : List (R fm × ι)) (a : Nat) (u u2 : R fm) :
    toQ (posOf (Ops.rounded fm) .inside tbl a u u2) = toQ (posIn (Ops.rounded fm) tbl a u) := rfl

/-- outside first: `fl(sum(neg) − _random_position)` -/
theorem toQ_posOf_outside (tbl : List (R fm × ι)) (a : Nat) (u u2 : R fm) :
    toQ (posOf (Ops.rounded fm) .outside tbl a u u2) =
      fm.rnd (toQ (sumNeg (Ops.rounded fm) tbl) - toQ (posIn (Ops.rounded fm) tbl a u)) := rfl

/-- ratio: `random.uniform(0.0, sum(neg)) = fl(0.0 + fl(fl(sum(neg) − 0.0) · u2))` -/
theorem toQ_posOf_ratio (tbl : List (R fm × ι)) (a : Nat) (u u2 : R fm) :
    toQ (posOf (Ops.rounded fm) .ratio tbl a u u2) =
      fm.rnd (0 + fm.rnd (fm.rnd (toQ (sumNeg (Ops.rounded fm) tbl) - 0) * toQ u2)) := by
  simp [posOf, pyUniform]

/-- the loop's running sum: `summed_lifting_rate += lifting_rate` rounds once per entry -/
theorem toQ_acc_succ (l : List (R fm × ι)) (c : R fm) {k : Nat} (hk : k < l.length) :
    toQ (acc l c (k + 1)) = fm.rnd (toQ (acc l c k) + toQ (l[k]).1) := by
  rw [acc_succ l c hk, toQ_add]

/-- the same, with both conditions written as comparisons of rationals (`p̃` the rounded position, `Ã_last` the
loop's last rounded running sum, `n_0`/`n_last` the first/last rate of the negative list) -/
theorem zero_rate_selected_iff' {tbl : List (R fm × ι)} {a : Nat} (hn : HasNeg tbl) (sch : Scheme) (u u2 : R fm) :
    toQ ((negs tbl)[selIdx fm sch tbl a u u2]'(selIdx_lt hn sch a u u2)).1 = 0 ↔
      (toQ (posOf (Ops.rounded fm) sch tbl a u u2) ≤ 0 ∧
        toQ ((negs tbl)[0]'(List.length_pos_iff.mpr (negs_ne_nil hn))).1 = 0) ∨
      (toQ (acc (negs tbl) ((Ops.rounded fm).ofInt 0) (negs tbl).length) < toQ (posOf (Ops.rounded fm) sch tbl a u u2) ∧
        toQ ((negs tbl)[(negs tbl).length - 1]'(by
          have := List.length_pos_iff.mpr (negs_ne_nil hn); omega)).1 = 0) :=
  sel_zero_rate_iff (negs_ne_nil hn) (negL_nonneg tbl) (posOf (Ops.rounded fm) sch tbl a u u2)

/-- **inside first**: a zero-derivative unit is selected iff
`fl(P̃ + fl(0.0 + fl(fl(q − 0.0)·u))) ≤ 0` and `n_0 = 0`, or that position exceeds `Ã_last` and `n_last = 0` -/
theorem inside_zero_rate_selected_iff {tbl : List (R fm × ι)} {a : Nat} (A : Active tbl a) (hn : HasNeg tbl)
    (u u2 : R fm) :
    toQ ((negs tbl)[selIdx fm .inside tbl a u u2]'(selIdx_lt hn .inside a u u2)).1 = 0 ↔
      (fm.rnd (toQ (posAcc (Ops.rounded fm) (tbl.take a) ((Ops.rounded fm).ofInt 0)) +
          fm.rnd (0 + fm.rnd (fm.rnd (toQ (tbl[a]'A.lt).1 - 0) * toQ u))) ≤ 0 ∧
        toQ ((negs tbl)[0]'(List.length_pos_iff.mpr (negs_ne_nil hn))).1 = 0) ∨
      (toQ (acc (negs tbl) ((Ops.rounded fm).ofInt 0) (negs tbl).length) <
          fm.rnd (toQ (posAcc (Ops.rounded fm) (tbl.take a) ((Ops.rounded fm).ofInt 0)) +
            fm.rnd (0 + fm.rnd (fm.rnd (toQ (tbl[a]'A.lt).1 - 0) * toQ u))) ∧
        toQ ((negs tbl)[(negs tbl).length - 1]'(by
          have := List.length_pos_iff.mpr (negs_ne_nil hn); omega)).1 = 0) := by
  rw [zero_rate_selected_iff' hn, toQ_posOf_inside, toQ_posIn A.lt]

/-- **outside first**: … iff `fl(sum(neg) − _random_position) ≤ 0` and `n_0 = 0`, or it exceeds `Ã_last` and
`n_last = 0` -/
theorem outside_zero_rate_selected_iff {tbl : List (R fm × ι)} {a : Nat} (hn : HasNeg tbl) (u u2 : R fm) :
    toQ ((negs tbl)[selIdx fm .outside tbl a u u2]'(selIdx_lt hn .outside a u u2)).1 = 0 ↔
      (fm.rnd (toQ (sumNeg (Ops.rounded fm) tbl) - toQ (posIn (Ops.rounded fm) tbl a u)) ≤ 0 ∧
        toQ ((negs tbl)[0]'(List.length_pos_iff.mpr (negs_ne_nil hn))).1 = 0) ∨
      (toQ (acc (negs tbl) ((Ops.rounded fm).ofInt 0) (negs tbl).length) <
          fm.rnd (toQ (sumNeg (Ops.rounded fm) tbl) - toQ (posIn (Ops.rounded fm) tbl a u)) ∧
        toQ ((negs tbl)[(negs tbl).length - 1]'(by
          have := List.length_pos_iff.mpr (negs_ne_nil hn); omega)).1 = 0) := by
  rw [zero_rate_selected_iff' hn, toQ_posOf_outside]

/-- **ratio**: … iff `fl(0.0 + fl(fl(sum(neg) − 0.0)·u2)) ≤ 0` and `n_0 = 0`, or it exceeds `Ã_last` and `n_last = 0` -/
theorem ratio_zero_rate_selected_iff {tbl : List (R fm × ι)} {a : Nat} (hn : HasNeg tbl) (u u2 : R fm) :
    toQ ((negs tbl)[selIdx fm .ratio tbl a u u2]'(selIdx_lt hn .ratio a u u2)).1 = 0 ↔
      (fm.rnd (0 + fm.rnd (fm.rnd (toQ (sumNeg (Ops.rounded fm) tbl) - 0) * toQ u2)) ≤ 0 ∧
        toQ ((negs tbl)[0]'(List.length_pos_iff.mpr (negs_ne_nil hn))).1 = 0) ∨
      (toQ (acc (negs tbl) ((Ops.rounded fm).ofInt 0) (negs tbl).length) <
          fm.rnd (0 + fm.rnd (fm.rnd (toQ (sumNeg (Ops.rounded fm) tbl) - 0) * toQ u2)) ∧
        toQ ((negs tbl)[(negs tbl).length - 1]'(by
          have := List.length_pos_iff.mpr (negs_ne_nil hn); omega)).1 = 0) := by
  rw [zero_rate_selected_iff' hn, toQ_posOf_ratio]

/-- inside first, when can (a) happen: the rounded position is `≤ 0` iff no positive rate was accumulated before the
active unit AND the product `lifting_rate * random()` rounds to zero (draw `0.0`, or underflow) -/
theorem posIn_le_zero_iff {tbl : List (R fm × ι)} {a : Nat} (A : Active tbl a) {u : R fm} (hu : 0 ≤ toQ u) :
    toQ (posIn (Ops.rounded fm) tbl a u) ≤ 0 ↔
      toQ (posAcc (Ops.rounded fm) (tbl.take a) ((Ops.rounded fm).ofInt 0)) = 0 ∧
        fm.rnd (0 + fm.rnd (fm.rnd (toQ (tbl[a]'A.lt).1 - 0) * toQ u)) = 0 := by
  rw [toQ_posIn A.lt]
  obtain ⟨hPF, hP0⟩ := posAcc_mem_ge (tbl.take a) ((Ops.rounded fm).ofInt 0) zero_memR
  simp only [rounded_ofInt, Int.cast_zero] at hP0
  have hm0 : 0 ≤ fm.rnd (0 + fm.rnd (fm.rnd (toQ (tbl[a]'A.lt).1 - 0) * toQ u)) := by
    apply fm.rnd_nonneg
    rw [zero_add]
    apply fm.rnd_nonneg
    exact mul_nonneg (fm.rnd_nonneg (by linarith [A.pos])) hu
  constructor
  · intro h
    have h1 := fm.le_rnd_of_le hPF (show toQ (posAcc (Ops.rounded fm) (tbl.take a) ((Ops.rounded fm).ofInt 0)) ≤
      toQ (posAcc (Ops.rounded fm) (tbl.take a) ((Ops.rounded fm).ofInt 0)) +
        fm.rnd (0 + fm.rnd (fm.rnd (toQ (tbl[a]'A.lt).1 - 0) * toQ u)) by linarith)
    have h2 := fm.le_rnd_of_le (fm.rnd_mem _) (show fm.rnd (0 + fm.rnd (fm.rnd (toQ (tbl[a]'A.lt).1 - 0) * toQ u)) ≤
      toQ (posAcc (Ops.rounded fm) (tbl.take a) ((Ops.rounded fm).ofInt 0)) +
        fm.rnd (0 + fm.rnd (fm.rnd (toQ (tbl[a]'A.lt).1 - 0) * toQ u)) by linarith)
    constructor <;> linarith
  · rintro ⟨h1, h2⟩
    rw [h1, h2]; simp

/-! ### 3. Monotone selection: the set of draws selecting a unit is still an interval -/

/-- `_random_position` is a non-decreasing function of the draw `u` (rounding is monotone) -/
theorem posIn_mono {tbl : List (R fm × ι)} {a : Nat} (A : Active tbl a) {u u' : R fm} (h : toQ u ≤ toQ u') :
    toQ (posIn (Ops.rounded fm) tbl a u) ≤ toQ (posIn (Ops.rounded fm) tbl a u') := by
  rw [toQ_posIn A.lt, toQ_posIn A.lt]
  have hq : 0 ≤ fm.rnd (toQ (tbl[a]'A.lt).1 - 0) := fm.rnd_nonneg (by linarith [A.pos])
  apply fm.rnd_mono
  refine add_le_add (le_refl _) ?_
  apply fm.rnd_mono
  refine add_le_add (le_refl _) ?_
  apply fm.rnd_mono
  exact mul_le_mul_of_nonneg_left h hq

/-- **inside first**: the selected index is a non-decreasing step function of the draw `u` -/
theorem inside_selIdx_mono {tbl : List (R fm × ι)} {a : Nat} (A : Active tbl a) {u u' : R fm}
    (h : toQ u ≤ toQ u') (u2 u2' : R fm) :
    selIdx fm .inside tbl a u u2 ≤ selIdx fm .inside tbl a u' u2' :=
  sel_mono (posIn_mono A h) _

/-- **outside first**: the selected index is a non-increasing step function of the draw `u` -/
theorem outside_selIdx_anti {tbl : List (R fm × ι)} {a : Nat} (A : Active tbl a) {u u' : R fm}
    (h : toQ u ≤ toQ u') (u2 u2' : R fm) :
    selIdx fm .outside tbl a u' u2' ≤ selIdx fm .outside tbl a u u2 := by
  apply sel_mono
  rw [toQ_posOf_outside, toQ_posOf_outside]
  apply fm.rnd_mono
  linarith [posIn_mono A h]

/-- **ratio**: the selected index is a non-decreasing step function of the scheme's own draw `u2`, provided the
value `sum(self._negative_lifting_rates)` is not negative … -/
theorem ratio_selIdx_mono {tbl : List (R fm × ι)} (a : Nat) (hS : 0 ≤ toQ (sumNeg (Ops.rounded fm) tbl))
    (u u' : R fm) {u2 u2' : R fm} (h : toQ u2 ≤ toQ u2') :
    selIdx fm .ratio tbl a u u2 ≤ selIdx fm .ratio tbl a u' u2' := by
  apply sel_mono
  rw [toQ_posOf_ratio, toQ_posOf_ratio]
  have hq : 0 ≤ fm.rnd (toQ (sumNeg (Ops.rounded fm) tbl) - 0) := fm.rnd_nonneg (by linarith)
  apply fm.rnd_mono
  refine add_le_add (le_refl _) ?_
  apply fm.rnd_mono
  exact mul_le_mul_of_nonneg_left h hq

/-- … and a non-increasing one if that value is not positive (CPython's compensated `sum` of non-negative floats is
never negative in binary64; the `FloatModel` hypotheses alone do not exclude it for astronomically long tables, so
both directions are stated) -/
theorem ratio_selIdx_anti {tbl : List (R fm × ι)} (a : Nat) (hS : toQ (sumNeg (Ops.rounded fm) tbl) ≤ 0)
    (u u' : R fm) {u2 u2' : R fm} (h : toQ u2 ≤ toQ u2') :
    selIdx fm .ratio tbl a u' u2' ≤ selIdx fm .ratio tbl a u u2 := by
  apply sel_mono
  rw [toQ_posOf_ratio, toQ_posOf_ratio]
  have hq : fm.rnd (toQ (sumNeg (Ops.rounded fm) tbl) - 0) ≤ 0 := fm.rnd_nonpos (by linarith)
  apply fm.rnd_mono
  refine add_le_add (le_refl _) ?_
  apply fm.rnd_mono
  exact mul_le_mul_of_nonpos_left h hq

/-- **The draws selecting a unit form an interval** (order-convex set), for every rounding model, in all three
schemes: between two draws that select unit `k`, every draw selects `k`.  (`u` for inside/outside, `u2` for ratio.) -/
theorem inside_sel_interval {tbl : List (R fm × ι)} {a : Nat} (A : Active tbl a) {u v w : R fm} (u2 : R fm)
    (h1 : toQ u ≤ toQ v) (h2 : toQ v ≤ toQ w) {k : Nat}
    (hu : selIdx fm .inside tbl a u u2 = k) (hw : selIdx fm .inside tbl a w u2 = k) :
    selIdx fm .inside tbl a v u2 = k := by
  have := inside_selIdx_mono A h1 u2 u2
  have := inside_selIdx_mono A h2 u2 u2
  omega

theorem outside_sel_interval {tbl : List (R fm × ι)} {a : Nat} (A : Active tbl a) {u v w : R fm} (u2 : R fm)
    (h1 : toQ u ≤ toQ v) (h2 : toQ v ≤ toQ w) {k : Nat}
    (hu : selIdx fm .outside tbl a u u2 = k) (hw : selIdx fm .outside tbl a w u2 = k) :
    selIdx fm .outside tbl a v u2 = k := by
  have := outside_selIdx_anti A h1 u2 u2
  have := outside_selIdx_anti A h2 u2 u2
  omega

theorem ratio_sel_interval (tbl : List (R fm × ι)) (a : Nat) (u : R fm) {u2 v2 w2 : R fm}
    (h1 : toQ u2 ≤ toQ v2) (h2 : toQ v2 ≤ toQ w2) {k : Nat}
    (hu : selIdx fm .ratio tbl a u u2 = k) (hw : selIdx fm .ratio tbl a u w2 = k) :
    selIdx fm .ratio tbl a u v2 = k := by
  rcases le_total 0 (toQ (sumNeg (Ops.rounded fm) tbl)) with hS | hS
  · have := ratio_selIdx_mono a hS u u h1
    have := ratio_selIdx_mono a hS u u h2
    omega
  · have := ratio_selIdx_anti a hS u u h1
    have := ratio_selIdx_anti a hS u u h2
    omega

/-! ### 3b. Flow error bound: the rounded selection intervals against the exact ones of `C05.sel_interval` -/

/-- `T`: the exact sum of the magnitudes of all rates of the table -/
def sumAbs (tbl : List (R fm × ι)) : ℚ := posSum (tblQ tbl) + C05.S (tblQ tbl)

/-- error of the rounded `_random_position`: `L + 2` roundings of numbers below `T` and one possibly subnormal
product -/
def errIn (fm : FloatModel) (L : ℕ) (T : ℚ) : ℚ := gam fm (L + 2) * T + (1 + fm.eps) * tau fm

/-- error of the rounded position handed to the loop; `δ` bounds the error of the value of `sum(neg)`
(not read by the inside-first scheme) -/
def errPos (fm : FloatModel) (sch : Scheme) (L : ℕ) (T δ : ℚ) : ℚ :=
  match sch with
  | .inside => errIn fm L T
  | .outside => fm.eps * T + (1 + fm.eps) * (δ + errIn fm L T)
  | .ratio => fm.eps * (T + δ) + tau fm + δ

/-- total error in position (= flow) units: thresholds of the loop + position -/
def errFlow (fm : FloatModel) (sch : Scheme) (L : ℕ) (T δ : ℚ) : ℚ := gam fm L * T + errPos fm sch L T δ

theorem rate_tblQ {tbl : List (R fm × ι)} {a : ℕ} (ha : a < tbl.length) :
    C05.rate (tblQ tbl) a = toQ (tbl[a]).1 := by
  simp [C05.rate, tblQ, List.getD_eq_getElem?_getD, ha]

theorem sumAbs_nonneg (tbl : List (R fm × ι)) : 0 ≤ sumAbs tbl :=
  add_nonneg (posSum_nonneg _) (total_nonneg (negOf_nonneg _))

/-- the rounded position against the exact one (`C05.specPos`), per scheme -/
theorem posOf_err {tbl : List (R fm × ι)} {a : ℕ} (A : Active tbl a) (hF : InF fm tbl) (ht : fm.tiny ≤ fm.huge)
    (sch : Scheme) (u u2 : R fm) (hu : 0 ≤ toQ u ∧ toQ u ≤ 1) (hu2 : 0 ≤ toQ u2 ∧ toQ u2 ≤ 1) {δ : ℚ}
    (hδ : sch ≠ .inside → |toQ (sumNeg (Ops.rounded fm) tbl) - C05.S (tblQ tbl)| ≤ δ) (hδ0 : 0 ≤ δ)
    (hH : (1 + fm.eps) ^ (tbl.length + 2) * sumAbs tbl + (1 + fm.eps) * tau fm + δ ≤ fm.huge) :
    |toQ (posOf (Ops.rounded fm) sch tbl a u u2) - C05.specPos sch (tblQ tbl) a (toQ u) (toQ u2)|
      ≤ errPos fm sch tbl.length (sumAbs tbl) δ := by
  have hT0 := sumAbs_nonneg tbl
  have hS0 : 0 ≤ C05.S (tblQ tbl) := total_nonneg (negOf_nonneg _)
  have hps0 : 0 ≤ posSum (tblQ tbl) := posSum_nonneg _
  have htau := tau_nonneg fm
  have he0 := fm.eps_nonneg
  have hpw : (1 + fm.eps) ^ (a + 2) * sumAbs tbl ≤ (1 + fm.eps) ^ (tbl.length + 2) * sumAbs tbl :=
    pow_add_le fm (by have := A.lt; omega) hT0
  have hgm : gam fm (a + 2) * sumAbs tbl ≤ gam fm (tbl.length + 2) * sumAbs tbl :=
    mul_le_mul_of_nonneg_right (gam_mono fm (by have := A.lt; omega)) hT0
  have h1T : sumAbs tbl ≤ (1 + fm.eps) ^ (tbl.length + 2) * sumAbs tbl := by
    have := one_le_pow₀ (one_le_ope fm) (n := tbl.length + 2)
    nlinarith
  cases sch with
  | inside =>
    have := (posIn_err fm ht A.lt A.pos hF u hu.1 hu.2 (T := sumAbs tbl) (by unfold sumAbs; linarith)
      (by linarith)).1
    simp only [C05.specPos, C05.P, rate_tblQ A.lt, errPos, errIn]
    refine le_trans this ?_
    linarith
  | outside =>
    have := posOut_err fm ht A.lt A.pos hF u u2 hu.1 hu.2 (T := sumAbs tbl) (δ := δ) (le_refl _)
      (hδ (by simp)) (by linarith)
    simp only [C05.specPos, C05.P, rate_tblQ A.lt, errPos, errIn]
    refine le_trans this ?_
    have : (1 + fm.eps) * (δ + (gam fm (a + 2) * sumAbs tbl + (1 + fm.eps) * tau fm)) ≤
        (1 + fm.eps) * (δ + (gam fm (tbl.length + 2) * sumAbs tbl + (1 + fm.eps) * tau fm)) :=
      mul_le_mul_of_nonneg_left (by linarith) (by linarith)
    linarith
  | ratio =>
    have := posRatio_err fm ht tbl a u u2 hu2.1 hu2.2 (T := sumAbs tbl) (δ := δ)
      (by unfold sumAbs C05.S; linarith) (hδ (by simp)) (by
        have : 0 ≤ (1 + fm.eps) * tau fm := mul_nonneg (by linarith) htau
        linarith)
    simpa only [C05.specPos, errPos, C05.S] using this

/-- **Flow error bound, position form** (no hypothesis on the sum of the table).  Whatever unit `k` the rounded walk
selects, the EXACT position `C05.specPos` of the same draws lies within `errFlow` of the exact window
`(N_k, N_{k+1}]` of `C05.chooseIdx_iff` — below it only if `k = 0`, above it only if `k` is the last unit (the one
the fall-through reads).  `errFlow` is `(gam L + gam (L+2))·T + (1+eps)·tau` for the inside scheme
(`≤ (4L+8)·eps·T + 2·tau` for `(L+2)·eps ≤ 1`): it depends on the table only. -/
theorem flow_error_position {tbl : List (R fm × ι)} {a : ℕ} (A : Active tbl a) (hn : HasNeg tbl) (hF : InF fm tbl)
    (ht : fm.tiny ≤ fm.huge) (sch : Scheme) (u u2 : R fm) (hu : 0 ≤ toQ u ∧ toQ u ≤ 1)
    (hu2 : 0 ≤ toQ u2 ∧ toQ u2 ≤ 1) {δ : ℚ}
    (hδ : sch ≠ .inside → |toQ (sumNeg (Ops.rounded fm) tbl) - C05.S (tblQ tbl)| ≤ δ) (hδ0 : 0 ≤ δ)
    (hH : (1 + fm.eps) ^ (tbl.length + 2) * sumAbs tbl + (1 + fm.eps) * tau fm + δ ≤ fm.huge) :
    (selIdx fm sch tbl a u u2 = 0 ∨
        C05.N (tblQ tbl) (selIdx fm sch tbl a u u2) - errFlow fm sch tbl.length (sumAbs tbl) δ
          < C05.specPos sch (tblQ tbl) a (toQ u) (toQ u2)) ∧
      (selIdx fm sch tbl a u u2 = (negs tbl).length - 1 ∨
        C05.specPos sch (tblQ tbl) a (toQ u) (toQ u2)
          ≤ C05.N (tblQ tbl) (selIdx fm sch tbl a u u2 + 1) + errFlow fm sch tbl.length (sumAbs tbl) δ) := by
  have hT0 := sumAbs_nonneg tbl
  have hps0 : 0 ≤ posSum (tblQ tbl) := posSum_nonneg _
  have htau := tau_nonneg fm
  have he0 := fm.eps_nonneg
  have hpos := abs_le.mp (posOf_err A hF ht sch u u2 hu hu2 hδ hδ0 hH)
  have hlen : (negs tbl).length ≤ tbl.length := negL_length_le tbl
  have hk := selIdx_lt hn sch a u u2
  have hsw := sel_sandwich fm (negL_nonneg tbl) (negL_inF hF) (posOf (Ops.rounded fm) sch tbl a u u2)
    (T := sumAbs tbl) (by rw [negL_toQ]; unfold sumAbs C05.S; linarith) (by
      have h1 := pow_add_le fm (show (negs tbl).length ≤ tbl.length + 2 by omega) hT0
      have : 0 ≤ (1 + fm.eps) * tau fm := mul_nonneg (by linarith) htau
      linarith)
  rw [negL_toQ] at hsw
  have hg1 : gam fm (selIdx fm sch tbl a u u2) * sumAbs tbl ≤ gam fm tbl.length * sumAbs tbl :=
    mul_le_mul_of_nonneg_right (gam_mono fm (by omega)) hT0
  have hg2 : gam fm (selIdx fm sch tbl a u u2 + 1) * sumAbs tbl ≤ gam fm tbl.length * sumAbs tbl :=
    mul_le_mul_of_nonneg_right (gam_mono fm (by omega)) hT0
  unfold errFlow C05.N
  constructor
  · rcases hsw.1 with h | h
    · exact Or.inl h
    · right
      have h' : cumB (negOf (tblQ tbl)) (selIdx fm sch tbl a u u2) - gam fm (selIdx fm sch tbl a u u2) * sumAbs tbl
          < toQ (posOf (Ops.rounded fm) sch tbl a u u2) := h
      linarith
  · rcases hsw.2 with h | h
    · exact Or.inl h
    · right
      have h' : toQ (posOf (Ops.rounded fm) sch tbl a u u2) ≤
          cumB (negOf (tblQ tbl)) (selIdx fm sch tbl a u u2 + 1) +
            gam fm (selIdx fm sch tbl a u u2 + 1) * sumAbs tbl := h
      linarith

/-- the draw the scheme's choice depends on, and the factor that converts a draw into a position -/
def drawOf (sch : Scheme) (u u2 : ℚ) : ℚ := match sch with | .ratio => u2 | _ => u
def scaleOf (sch : Scheme) (Q : List (ℚ × ι)) (a : ℕ) : ℚ := match sch with | .ratio => C05.S Q | _ => C05.rate Q a

private theorem valid_facts {Q : List (ℚ × ι)} {a : ℕ} (V : C05.Valid Q a) :
    0 < C05.rate Q a ∧ 0 ≤ C05.P Q a ∧ C05.P Q a + C05.rate Q a ≤ C05.S Q ∧ C05.N Q 0 = 0 ∧
      C05.N Q (negOf Q).length = C05.S Q := by
  have hS : C05.S Q = posSum Q := by
    have := total_eq_posSum_sub Q
    have := V.sum_zero
    unfold C05.S; linarith
  have ha := V.lt
  have hr : C05.rate Q a = (Q[a]).1 := by simp [C05.rate, List.getD_eq_getElem?_getD, ha]
  refine ⟨V.pos, posSum_nonneg _, ?_, by simp [C05.N], by simp [C05.N, C05.S, cumB_length]⟩
  rw [hS, hr]
  exact posSum_take_add_le Q ha (by rw [← hr]; exact V.pos)

/-- **Flow error bound, draw form.**  For a table whose exact rates sum to zero (`C05.Valid`), every rounding model,
scheme, and draws in the CLOSED unit interval: if the rounded walk selects unit `k`, the draw lies within
`errFlow / scale` of the EXACT interval `[lo, hi]` of `C05.sel_interval` (`scale` = the active rate `q_a` for
inside/outside, `S` for ratio, i.e. the error is `errFlow` in units of probability FLOW `q_a·du`).
So both end points of the rounded selection interval (an interval by `…_sel_interval`) are within `errFlow / scale` of
the exact ones (see `flow_error_inner` for the other inclusion). -/
theorem flow_error_draw {tbl : List (R fm × ι)} {a : ℕ} (A : Active tbl a) (hn : HasNeg tbl) (hF : InF fm tbl)
    (ht : fm.tiny ≤ fm.huge) (V : C05.Valid (tblQ tbl) a) (sch : Scheme) (u u2 : R fm)
    (hu : 0 ≤ toQ u ∧ toQ u ≤ 1) (hu2 : 0 ≤ toQ u2 ∧ toQ u2 ≤ 1) {δ : ℚ}
    (hδ : sch ≠ .inside → |toQ (sumNeg (Ops.rounded fm) tbl) - C05.S (tblQ tbl)| ≤ δ) (hδ0 : 0 ≤ δ)
    (hH : (1 + fm.eps) ^ (tbl.length + 2) * sumAbs tbl + (1 + fm.eps) * tau fm + δ ≤ fm.huge) :
    C05.lo sch (tblQ tbl) a (selIdx fm sch tbl a u u2)
        - errFlow fm sch tbl.length (sumAbs tbl) δ / scaleOf sch (tblQ tbl) a ≤ drawOf sch (toQ u) (toQ u2) ∧
      drawOf sch (toQ u) (toQ u2) ≤ C05.hi sch (tblQ tbl) a (selIdx fm sch tbl a u u2)
        + errFlow fm sch tbl.length (sumAbs tbl) δ / scaleOf sch (tblQ tbl) a := by
  obtain ⟨hlo, hhi⟩ := flow_error_position A hn hF ht sch u u2 hu hu2 hδ hδ0 hH
  obtain ⟨hq, hP0, hPq, hN0, hNl⟩ := valid_facts V
  have hk := selIdx_lt hn sch a u u2
  have hlenQ : (negOf (tblQ tbl)).length = (negs tbl).length := by rw [← negL_toQ, tblQ_length]
  have hlast : selIdx fm sch tbl a u u2 = (negs tbl).length - 1 →
      C05.N (tblQ tbl) (selIdx fm sch tbl a u u2 + 1) = C05.S (tblQ tbl) := by
    intro h
    rw [← hNl, hlenQ]; congr 1; omega
  have hE0 : 0 ≤ errFlow fm sch tbl.length (sumAbs tbl) δ := by
    have hT0 := sumAbs_nonneg tbl
    have htau := tau_nonneg fm
    have he0 := fm.eps_nonneg
    have h1 : 0 ≤ gam fm tbl.length * sumAbs tbl := mul_nonneg (gam_nonneg fm _) hT0
    have h2 : 0 ≤ errIn fm tbl.length (sumAbs tbl) :=
      add_nonneg (mul_nonneg (gam_nonneg fm _) hT0) (mul_nonneg (by linarith) htau)
    unfold errFlow errPos
    cases sch <;> simp only
    · linarith
    · have : 0 ≤ (1 + fm.eps) * (δ + errIn fm tbl.length (sumAbs tbl)) := mul_nonneg (by linarith) (by linarith)
      have : 0 ≤ fm.eps * sumAbs tbl := mul_nonneg he0 hT0
      linarith
    · have : 0 ≤ fm.eps * (sumAbs tbl + δ) := mul_nonneg he0 (by linarith)
      linarith
  set k := selIdx fm sch tbl a u u2 with hkdef
  set E := errFlow fm sch tbl.length (sumAbs tbl) δ with hEdef
  set q := C05.rate (tblQ tbl) a with hqdef
  set P := C05.P (tblQ tbl) a with hPdef
  set S := C05.S (tblQ tbl) with hSdef
  have hNk0 : 0 ≤ C05.N (tblQ tbl) k := cumB_nonneg (negOf_nonneg _) k
  have hNkS : C05.N (tblQ tbl) (k + 1) ≤ S := cumB_le_total (negOf_nonneg _) (k + 1)
  have hqu0 : 0 ≤ q * toQ u := mul_nonneg hq.le hu.1
  have hqu1 : q * toQ u ≤ q := by nlinarith [hu.2]
  cases sch with
  | inside =>
    simp only [C05.specPos] at hlo hhi
    simp only [C05.lo, C05.hi, C05.window, drawOf, scaleOf]
    rw [← sub_div, ← add_div, div_le_iff₀ hq, le_div_iff₀ hq]
    constructor
    · rcases hlo with h | h
      · rw [h, hN0, max_eq_left hP0]; linarith
      · rcases le_total P (C05.N (tblQ tbl) k) with hm | hm
        · rw [max_eq_right hm]; linarith
        · rw [max_eq_left hm]; linarith
    · rcases hhi with h | h
      · rw [hlast h, min_eq_left hPq]; linarith
      · rcases le_total (P + q) (C05.N (tblQ tbl) (k + 1)) with hm | hm
        · rw [min_eq_left hm]; linarith
        · rw [min_eq_right hm]; linarith
  | outside =>
    simp only [C05.specPos] at hlo hhi
    simp only [C05.lo, C05.hi, C05.window, drawOf, scaleOf]
    rw [← sub_div, ← add_div, div_le_iff₀ hq, le_div_iff₀ hq]
    constructor
    · rcases hhi with h | h
      · rw [hlast h, sub_self, max_eq_left hP0]; linarith
      · rcases le_total P (S - C05.N (tblQ tbl) (k + 1)) with hm | hm
        · rw [max_eq_right hm]; linarith
        · rw [max_eq_left hm]; linarith
    · rcases hlo with h | h
      · rw [h, hN0, sub_zero, min_eq_left hPq]; linarith
      · rcases le_total (P + q) (S - C05.N (tblQ tbl) k) with hm | hm
        · rw [min_eq_left hm]; linarith
        · rw [min_eq_right hm]; linarith
  | ratio =>
    have hS : 0 < S := by linarith
    have hSu0 : 0 ≤ S * toQ u2 := mul_nonneg hS.le hu2.1
    have hSu1 : S * toQ u2 ≤ S := by nlinarith [hu2.2]
    simp only [C05.specPos] at hlo hhi
    simp only [C05.lo, C05.hi, drawOf, scaleOf]
    rw [← sub_div, ← add_div, div_le_iff₀ hS, le_div_iff₀ hS]
    constructor
    · rcases hlo with h | h
      · rw [h, hN0]; linarith
      · linarith
    · rcases hhi with h | h
      · rw [hlast h]; linarith
      · linarith

/-- the exact selection intervals of consecutive units do not overlap (inside, ratio: increasing in `k`;
outside: decreasing) -/
private theorem hi_le_lo (sch : Scheme) (Q : List (ℚ × ι)) (a : ℕ) {j k : ℕ} (h : j < k) (hq : 0 < C05.rate Q a) :
    match sch with
    | .outside => C05.hi .outside Q a k ≤ C05.lo .outside Q a j
    | s => C05.hi s Q a j ≤ C05.lo s Q a k := by
  have hN : C05.N Q (j + 1) ≤ C05.N Q k := cumB_mono (negOf_nonneg Q) h
  have hS : 0 ≤ C05.S Q := total_nonneg (negOf_nonneg Q)
  cases sch with
  | inside =>
    simp only [C05.hi, C05.lo, C05.window]
    apply div_le_div_of_nonneg_right _ hq.le
    have := min_le_right (C05.P Q a + C05.rate Q a) (C05.N Q (j + 1))
    have := le_max_right (C05.P Q a) (C05.N Q k)
    linarith
  | outside =>
    simp only [C05.hi, C05.lo, C05.window]
    apply div_le_div_of_nonneg_right _ hq.le
    have := min_le_right (C05.P Q a + C05.rate Q a) (C05.S Q - C05.N Q k)
    have := le_max_right (C05.P Q a) (C05.S Q - C05.N Q (j + 1))
    linarith
  | ratio =>
    simp only [C05.hi, C05.lo]
    exact div_le_div_of_nonneg_right hN hS

/-- **Flow error bound, the other inclusion.**  Every draw of the closed unit interval that lies more than
`errFlow / scale` inside the exact interval `(lo, hi)` of unit `k` makes the rounded walk select `k`.  Together with
`flow_error_draw`: the rounded selection interval contains `(lo + ε, hi − ε)` and is contained in `[lo − ε, hi + ε]`,
`ε = errFlow / scale` — its end points are within `ε` of the exact ones. -/
theorem flow_error_inner {tbl : List (R fm × ι)} {a : ℕ} (A : Active tbl a) (hn : HasNeg tbl) (hF : InF fm tbl)
    (ht : fm.tiny ≤ fm.huge) (V : C05.Valid (tblQ tbl) a) (sch : Scheme) (u u2 : R fm)
    (hu : 0 ≤ toQ u ∧ toQ u ≤ 1) (hu2 : 0 ≤ toQ u2 ∧ toQ u2 ≤ 1) {δ : ℚ}
    (hδ : sch ≠ .inside → |toQ (sumNeg (Ops.rounded fm) tbl) - C05.S (tblQ tbl)| ≤ δ) (hδ0 : 0 ≤ δ)
    (hH : (1 + fm.eps) ^ (tbl.length + 2) * sumAbs tbl + (1 + fm.eps) * tau fm + δ ≤ fm.huge) {k : ℕ}
    (h1 : C05.lo sch (tblQ tbl) a k + errFlow fm sch tbl.length (sumAbs tbl) δ / scaleOf sch (tblQ tbl) a
      < drawOf sch (toQ u) (toQ u2))
    (h2 : drawOf sch (toQ u) (toQ u2)
      < C05.hi sch (tblQ tbl) a k - errFlow fm sch tbl.length (sumAbs tbl) δ / scaleOf sch (tblQ tbl) a) :
    selIdx fm sch tbl a u u2 = k := by
  obtain ⟨g1, g2⟩ := flow_error_draw A hn hF ht V sch u u2 hu hu2 hδ hδ0 hH
  rcases lt_trichotomy (selIdx fm sch tbl a u u2) k with h | h | h
  · exfalso
    have := hi_le_lo sch (tblQ tbl) a h V.pos
    cases sch <;> simp only at this <;> linarith
  · exact h
  · exfalso
    have := hi_le_lo sch (tblQ tbl) a h V.pos
    cases sch <;> simp only at this <;> linarith

/-- the error in the promised form `c · L · eps · (sum of |rates|)`: for `(L + 2)·eps ≤ 1`
(binary64: tables of up to `9·10^15` entries) the inside-first error is at most `(4L + 8)·eps·T + 2·tau` -/
theorem errFlow_inside_le (fm : FloatModel) (L : ℕ) {T : ℚ} (hT : 0 ≤ T) (δ : ℚ)
    (hL : ((L + 2 : ℕ) : ℚ) * fm.eps ≤ 1) :
    errFlow fm .inside L T δ ≤ (4 * L + 8) * fm.eps * T + 2 * tau fm := by
  have h2 := gam_le_linear fm (L + 2) hL
  have h1 : gam fm L ≤ gam fm (L + 2) := gam_mono fm (by omega)
  have htau := tau_nonneg fm
  have he := fm.eps_le_half
  have e1 : gam fm L * T ≤ 2 * ((L + 2 : ℕ) : ℚ) * fm.eps * T := mul_le_mul_of_nonneg_right (by linarith) hT
  have e2 : gam fm (L + 2) * T ≤ 2 * ((L + 2 : ℕ) : ℚ) * fm.eps * T := mul_le_mul_of_nonneg_right h2 hT
  have e3 : (1 + fm.eps) * tau fm ≤ 2 * tau fm := mul_le_mul_of_nonneg_right (by linarith) htau
  unfold errFlow errPos errIn
  simp only
  push_cast at e1 e2
  nlinarith [mul_nonneg fm.eps_nonneg hT]

/-- the range hypothesis of the flow error theorems from two plain ones: a table of at most `1/eps − 2` entries whose
magnitudes sum to less than a third of `huge` -/
theorem range_of_small (fm : FloatModel) (L : ℕ) {T δ : ℚ} (hT : 0 ≤ T) (hL : ((L + 2 : ℕ) : ℚ) * fm.eps ≤ 1)
    (h : 3 * T + 2 * tau fm + δ ≤ fm.huge) :
    (1 + fm.eps) ^ (L + 2) * T + (1 + fm.eps) * tau fm + δ ≤ fm.huge := by
  have h1 := gam_le_linear fm (L + 2) hL
  have h2 : (1 + fm.eps) ^ (L + 2) ≤ 3 := by rw [← one_add_gam]; linarith
  have h3 : (1 + fm.eps) ^ (L + 2) * T ≤ 3 * T := mul_le_mul_of_nonneg_right h2 hT
  have h4 : (1 + fm.eps) * tau fm ≤ 2 * tau fm :=
    mul_le_mul_of_nonneg_right (by linarith [fm.eps_le_half]) (tau_nonneg fm)
  linarith

/-! ### 4. IEEE-754 binary64 (round to nearest even), and the six known findings -/

abbrev b64 : FloatModel := FloatModel.binary64

theorem binary64_huge : b64.huge = 2 ^ 1023 := rfl

theorem binary64_tiny_le_huge : b64.tiny ≤ b64.huge := by
  rw [binary64_tiny, binary64_huge]
  have h1 : (2 : ℚ) ^ (-1022 : ℤ) ≤ 2 ^ (0 : ℤ) := zpow_le_zpow_right₀ (by norm_num) (by norm_num)
  have h2 : (1 : ℚ) ≤ 2 ^ 1023 := one_le_pow₀ (by norm_num)
  rw [zpow_zero] at h1
  exact le_trans h1 h2

theorem binary64_tau : tau b64 = (1 + 1 / 2 ^ 53) * 2 ^ (-1022 : ℤ) := by
  unfold tau
  rw [binary64_eps, binary64_tiny, max_eq_left (by positivity)]

theorem binary64_tau_le : tau b64 ≤ 2 := by
  rw [binary64_tau]
  have h1 : (2 : ℚ) ^ (-1022 : ℤ) ≤ 2 ^ (0 : ℤ) := zpow_le_zpow_right₀ (by norm_num) (by norm_num)
  rw [zpow_zero] at h1
  nlinarith

/-- Safety and the characterisation hold in particular for binary64 (they hold for every `FloatModel`). -/
theorem choose_safe_binary64 {tbl : List (R b64 × ι)} {a : Nat} (A : Active tbl a) (hn : HasNeg tbl) (sch : Scheme)
    (u u2 : R b64) :
    ∃ r i, (r, i) ∈ tbl ∧ toQ r ≤ 0 ∧ choose (Ops.rounded b64) sch tbl a u u2 = .ok i :=
  choose_safe A hn sch u u2

theorem zero_rate_selected_iff_binary64 {tbl : List (R b64 × ι)} {a : Nat} (hn : HasNeg tbl) (sch : Scheme)
    (u u2 : R b64) :
    toQ ((negs tbl)[selIdx b64 sch tbl a u u2]'(selIdx_lt hn sch a u u2)).1 = 0 ↔
      condA (Ops.rounded b64) sch tbl a u u2 = true ∨ condB (Ops.rounded b64) sch tbl a u u2 = true :=
  zero_rate_selected_iff hn sch u u2

/-- **binary64, inside first**: for a table of doubles with `L ≤ 2^53 − 2` entries whose exact values sum to zero and
whose magnitudes sum to `T` (`3T + 4 ≤ 2^1023`), whenever the rounded walk selects unit `k` the draw `u ∈ [0, 1]` is
within `((4L + 8)·2^-53·T + 2·tau) / q_a` of the exact interval `[lo, hi]`, `tau = (1 + 2^-53)·2^-1022`. -/
theorem flow_error_inside_binary64 {tbl : List (R b64 × ι)} {a : ℕ} (A : Active tbl a) (hn : HasNeg tbl)
    (hF : InF b64 tbl) (V : C05.Valid (tblQ tbl) a) (u u2 : R b64) (hu : 0 ≤ toQ u ∧ toQ u ≤ 1)
    (hL : tbl.length + 2 ≤ 2 ^ 53) (hT : 3 * sumAbs tbl + 4 ≤ 2 ^ 1023) :
    C05.lo .inside (tblQ tbl) a (selIdx b64 .inside tbl a u u2)
        - ((4 * tbl.length + 8) / 2 ^ 53 * sumAbs tbl + 2 * tau b64) / C05.rate (tblQ tbl) a ≤ toQ u ∧
      toQ u ≤ C05.hi .inside (tblQ tbl) a (selIdx b64 .inside tbl a u u2)
        + ((4 * tbl.length + 8) / 2 ^ 53 * sumAbs tbl + 2 * tau b64) / C05.rate (tblQ tbl) a := by
  have hT0 := sumAbs_nonneg tbl
  have hLq : ((tbl.length + 2 : ℕ) : ℚ) * b64.eps ≤ 1 := by
    rw [binary64_eps]
    have : ((tbl.length + 2 : ℕ) : ℚ) ≤ 2 ^ 53 := by exact_mod_cast hL
    rw [mul_one_div, div_le_one (by positivity)]
    exact this
  rw [← binary64_huge] at hT
  have hH := range_of_small b64 tbl.length (δ := 0) hT0 hLq (by linarith [binary64_tau_le])
  have h := flow_error_draw A hn hF binary64_tiny_le_huge V .inside u u hu hu (δ := 0) (by simp) (le_refl _) hH
  have hE := errFlow_inside_le b64 tbl.length hT0 0 hLq
  rw [binary64_eps] at hE
  have hq : 0 < C05.rate (tblQ tbl) a := V.pos
  have hdiv : errFlow b64 .inside tbl.length (sumAbs tbl) 0 / C05.rate (tblQ tbl) a ≤
      ((4 * tbl.length + 8) / 2 ^ 53 * sumAbs tbl + 2 * tau b64) / C05.rate (tblQ tbl) a := by
    apply div_le_div_of_nonneg_right _ hq.le
    calc errFlow b64 .inside tbl.length (sumAbs tbl) 0
        ≤ (4 * tbl.length + 8) * (1 / 2 ^ 53) * sumAbs tbl + 2 * tau b64 := hE
      _ = (4 * tbl.length + 8) / 2 ^ 53 * sumAbs tbl + 2 * tau b64 := by ring
  simp only [drawOf, scaleOf] at h
  have h1 : selIdx b64 .inside tbl a u u2 = selIdx b64 .inside tbl a u u := rfl
  rw [h1]
  constructor <;> linarith [h.1, h.2]

/-! #### the six known findings (`known_findings/C05.json`, `C05.binary64_*`): each is condition (a) or (b)

`condA`/`condB` are definitions over an arbitrary scalar type; `zero_rate_selected_iff` is about their reading over
`R fm`; here the SAME definitions are evaluated by the kernel in native binary64 (`Ops.float`, the reading the driver
runs against the real classes) on the witnesses of the six findings.  (That native binary64 is the `FloatModel`
`binary64` is, as everywhere in this project, not a theorem of Lean — `Float` is opaque — but the content of the
differential test of C14; `outside_fall_through_R_binary64` below evaluates one witness in `R binary64` itself.) -/

open C05 in
/-- `inside:position<=0:zero-derivative-first-entry-selected` is condition (a) -/
theorem binary64_inside_zero_draw_is_a :
    (condA Ops.float .inside [(fb 4607182418800017408, 10), (fb 0, 11), (fb 13830554455654793216, 12)]
        0 (fb 0) (fb 4602678819172646912) &&
      !condB Ops.float .inside [(fb 4607182418800017408, 10), (fb 0, 11), (fb 13830554455654793216, 12)]
        0 (fb 0) (fb 4602678819172646912)) = true := by
  decide +kernel

open C05 in
/-- `ratio:position<=0:zero-derivative-first-entry-selected` is condition (a) -/
theorem binary64_ratio_zero_draw_is_a :
    (condA Ops.float .ratio [(fb 4607182418800017408, 10), (fb 0, 11), (fb 13830554455654793216, 12)]
        0 (fb 4599075939470750515) (fb 0) &&
      !condB Ops.float .ratio [(fb 4607182418800017408, 10), (fb 0, 11), (fb 13830554455654793216, 12)]
        0 (fb 4599075939470750515) (fb 0)) = true := by
  decide +kernel

open C05 in
/-- `outside:position<=0:zero-derivative-first-entry-selected` (draw absorbed by rounding) is condition (a) -/
theorem binary64_outside_absorbed_draw_is_a :
    (condA Ops.float .outside
        [(fb 4607182418800017408, 10), (fb 4336966441157787648, 11), (fb 0, 12), (fb 13830554455654793216, 13),
         (fb 13560338478012563456, 14)]
        1 (fb 4602678819172646912) (fb 4602678819172646912) &&
      !condB Ops.float .outside
        [(fb 4607182418800017408, 10), (fb 4336966441157787648, 11), (fb 0, 12), (fb 13830554455654793216, 13),
         (fb 13560338478012563456, 14)]
        1 (fb 4602678819172646912) (fb 4602678819172646912)) = true := by
  decide +kernel

open C05 in
/-- `inside:fall-through:zero-derivative-last-entry-selected` is condition (b) -/
theorem binary64_inside_fall_through_is_b :
    (condB Ops.float .inside
        [(fb 4607182418800017408, 10), (fb 4370743438363066368, 11), (fb 13830554455654793216, 12),
         (fb 13589611875590471680, 13), (fb 13589611875590471680, 14), (fb 0, 15)]
        1 (fb 4606281698874543309) (fb 4602678819172646912) &&
      !condA Ops.float .inside
        [(fb 4607182418800017408, 10), (fb 4370743438363066368, 11), (fb 13830554455654793216, 12),
         (fb 13589611875590471680, 13), (fb 13589611875590471680, 14), (fb 0, 15)]
        1 (fb 4606281698874543309) (fb 4602678819172646912)) = true := by
  decide +kernel

open C05 in
/-- `outside:fall-through:zero-derivative-last-entry-selected` is condition (b) -/
theorem binary64_outside_fall_through_is_b :
    (condB Ops.float .outside
        [(fb 4607182418800017408, 10), (fb 4370743438363066368, 11), (fb 13830554455654793216, 12),
         (fb 13589611875590471680, 13), (fb 13589611875590471680, 14), (fb 0, 15)]
        0 (fb 0) (fb 4602678819172646912) &&
      !condA Ops.float .outside
        [(fb 4607182418800017408, 10), (fb 4370743438363066368, 11), (fb 13830554455654793216, 12),
         (fb 13589611875590471680, 13), (fb 13589611875590471680, 14), (fb 0, 15)]
        0 (fb 0) (fb 4602678819172646912)) = true := by
  decide +kernel

open C05 in
/-- `ratio:fall-through:zero-derivative-last-entry-selected` is condition (b) -/
theorem binary64_ratio_fall_through_is_b :
    (condB Ops.float .ratio
        [(fb 4607182418800017408, 10), (fb 4366239838735695872, 11), (fb 4366239838735695872, 12),
         (fb 4366239838735695872, 13), (fb 4366239838735695872, 14), (fb 13830554455654793216, 15),
         (fb 13589611875590471680, 16), (fb 13589611875590471680, 17), (fb 13589611875590471680, 18),
         (fb 13589611875590471680, 19), (fb 0, 20)]
        0 (fb 4602678819172646912) (fb 4607182418800017407) &&
      !condA Ops.float .ratio
        [(fb 4607182418800017408, 10), (fb 4366239838735695872, 11), (fb 4366239838735695872, 12),
         (fb 4366239838735695872, 13), (fb 4366239838735695872, 14), (fb 13830554455654793216, 15),
         (fb 13589611875590471680, 16), (fb 13589611875590471680, 17), (fb 13589611875590471680, 18),
         (fb 13589611875590471680, 19), (fb 0, 20)]
        0 (fb 4602678819172646912) (fb 4607182418800017407)) = true := by
  decide +kernel

/-! #### one finding inside `R binary64`: the outside-first fall-through on a representable, exactly balanced table -/

/-- the witness of `outside:fall-through:zero-derivative-last-entry-selected`, as exact rationals:
`[1, 3·2^-54, −1, −3·2^-55, −3·2^-55, 0]` (`x55 = 3·2^-55`) -/
def tb5 : List (R b64 × Nat) :=
  [(ofQ 1, 10), (ofQ (x55 + x55), 11), (ofQ (-1), 12), (ofQ (-x55), 13), (ofQ (-x55), 14), (ofQ 0, 15)]

theorem tb5_negs : negs tb5 = [(-ofQ (-1), 12), (-ofQ (-x55), 13), (-ofQ (-x55), 14), (-ofQ 0, 15)] := by
  have := x55_pos
  have h2 : 0 < x55 + x55 := by linarith
  have h3 : ¬ (0 < -x55) := by linarith
  simp [negs, tb5, negL, h2, h3]

/-- the loop's naive running sum absorbs both sub-ulp entries: `1` -/
theorem tb5_lastAcc : toQ (acc (negs tb5) ((Ops.rounded b64).ofInt 0) (negs tb5).length) = 1 := by
  have h1 : b64.rnd 1 = 1 := b64.rnd_id _ b64.one_mem
  simp [tb5_negs, h1, rnd_one_add_x55]

/-- the compensated `sum()` keeps them and rounds up: `1 + 2^-52` -/
theorem tb5_sumNeg : toQ (sumNeg (Ops.rounded b64) tb5) = 1 + e52 := by
  have h1 : b64.rnd 1 = 1 := b64.rnd_id _ b64.one_mem
  have hx := x55_pos
  have hx' : ¬ x55 < 0 := by linarith
  have hx1 : x55 ≤ 1 := by norm_num [x55]
  have hxx : ¬ (x55 + x55 = 0) := by linarith
  have hm := b64.rnd_id _ x55_mem
  have hmm := b64.rnd_id _ x55x_mem
  have e : negL (Ops.rounded b64) tb5 = [(-ofQ (-1), 12), (-ofQ (-x55), 13), (-ofQ (-x55), 14), (-ofQ 0, 15)] :=
    tb5_negs
  norm_num [sumNeg, e, pySum, neumaier, absC, h1, rnd_one_add_x55, rnd_one_add_x55x, hx', hx1, hxx, hm, hmm,
    apply_ite toQ]

theorem tb5_active : Active tb5 0 := ⟨by simp [tb5], by simp [tb5]⟩
theorem tb5_hasNeg : HasNeg tb5 := ⟨(ofQ 0, 15), by simp [tb5], by simp⟩
theorem tb5_inF : InF b64 tb5 := by
  intro e he
  simp only [tb5, List.mem_cons, List.not_mem_nil, or_false] at he
  rcases he with rfl | rfl | rfl | rfl | rfl | rfl
  · simpa using b64.one_mem
  · simpa using x55x_mem
  · simpa using b64.neg_mem b64.one_mem
  · simpa using b64.neg_mem x55_mem
  · simpa using b64.neg_mem x55_mem
  · simpa using b64.zero_mem
/-- the table sums to zero EXACTLY -/
theorem tb5_valid : C05.Valid (tblQ tb5) 0 :=
  ⟨by simp [tblQ, tb5, total]; ring, by norm_num [tblQ, tb5, C05.rate]⟩

theorem tb5_posIn : toQ (posIn (Ops.rounded b64) tb5 0 (ofQ 0)) = 0 := by
  rw [toQ_posIn tb5_active.lt]
  simp [tb5, posAcc]

/-- in `R binary64` itself (the proved `FloatModel`, not native `Float`): the witness of the outside-first
fall-through finding satisfies condition (b) and not (a) — on a table of doubles that sums to zero exactly
(`tb5_inF`, `tb5_valid`), draw `u = 0.0` -/
theorem outside_fall_through_R_binary64 :
    condB (Ops.rounded b64) .outside tb5 0 (ofQ 0) (ofQ 0) = true ∧
      condA (Ops.rounded b64) .outside tb5 0 (ofQ 0) (ofQ 0) = false := by
  have hp : toQ (posOf (Ops.rounded b64) .outside tb5 0 (ofQ 0) (ofQ 0)) = 1 + e52 := by
    rw [toQ_posOf_outside, tb5_sumNeg, tb5_posIn, sub_zero, b64.rnd_id _ one_add_e52_mem]
  constructor
  · rw [condB_iff, hp, tb5_lastAcc]
    refine ⟨by norm_num [e52], ?_⟩
    simp [tb5_negs]
  · rw [Bool.eq_false_iff, Ne, condA_iff, hp]
    norm_num [e52]

/-- … so the move returns the identifier `15` of the zero-derivative entry, in `R binary64` -/
theorem outside_fall_through_R_binary64_selected :
    ∃ r i, (r, i) ∈ tb5 ∧ toQ r = 0 ∧ choose (Ops.rounded b64) .outside tb5 0 (ofQ 0) (ofQ 0) = .ok i :=
  choose_zero_of_cond tb5_active tb5_hasNeg .outside _ _ (Or.inr outside_fall_through_R_binary64.1)

/-! ### non-vacuity of the hypotheses -/

section nonvacuity

/-- derivatives `[1, 0, −1]`, identifiers `10, 11, 12` (the table of the first two findings), in EVERY rounding model -/
def tb3 (fm : FloatModel) : List (R fm × Nat) := [(ofQ 1, 10), (ofQ 0, 11), (ofQ (-1), 12)]

/-- `Active`, `HasNeg` (hypotheses of parts 1–3) -/
theorem tb3_active : Active (tb3 fm) 0 := ⟨by simp [tb3], by simp [tb3]⟩
theorem tb3_hasNeg : HasNeg (tb3 fm) := ⟨(ofQ 0, 11), by simp [tb3], by simp⟩

theorem tb3_negs : negs (tb3 fm) = [(-ofQ 0, 11), (-ofQ (-1), 12)] := by
  simp [negs, tb3, negL]

theorem tb3_posIn (u : R fm) : toQ (posIn (Ops.rounded fm) (tb3 fm) 0 u) = fm.rnd (toQ u) := by
  rw [toQ_posIn tb3_active.lt]
  have h1 : fm.rnd 1 = 1 := fm.rnd_id _ fm.one_mem
  simp [tb3, posAcc, h1, fm.rnd_id _ (fm.rnd_mem _)]

theorem tb3_sumNeg : toQ (sumNeg (Ops.rounded fm) (tb3 fm)) = 1 := by
  have h1 : fm.rnd 1 = 1 := fm.rnd_id _ fm.one_mem
  have e : negL (Ops.rounded fm) (tb3 fm) = [(-ofQ 0, 11), (-ofQ (-1), 12)] := tb3_negs
  norm_num [sumNeg, e, pySum, neumaier, absC, h1, apply_ite toQ]

theorem tb3_lastAcc : toQ (acc (negs (tb3 fm)) ((Ops.rounded fm).ofInt 0) (negs (tb3 fm)).length) = 1 := by
  have h1 : fm.rnd 1 = 1 := fm.rnd_id _ fm.one_mem
  simp [tb3_negs, h1]

/-- condition (a) is met in every rounding model: the first finding (inside, `u = 0`) … -/
example : condA (Ops.rounded fm) .inside (tb3 fm) 0 (ofQ 0) (ofQ 0) = true := by
  rw [condA_iff, toQ_posOf_inside, tb3_posIn]
  simp [tb3_negs]

/-- … and the second (ratio, `u2 = 0`) -/
example (u : R fm) : condA (Ops.rounded fm) .ratio (tb3 fm) 0 u (ofQ 0) = true := by
  rw [condA_iff, toQ_posOf_ratio]
  simp [tb3_negs]

/-- condition (b) is met in binary64: `outside_fall_through_R_binary64`.  Neither is met at the draw `u = 1`
(hypotheses of `choose_negative_of_not_cond`) -/
example : condA (Ops.rounded fm) .inside (tb3 fm) 0 (ofQ 1) (ofQ 0) = false ∧
    condB (Ops.rounded fm) .inside (tb3 fm) 0 (ofQ 1) (ofQ 0) = false := by
  have h1 : fm.rnd 1 = 1 := fm.rnd_id _ fm.one_mem
  constructor
  · rw [Bool.eq_false_iff, Ne, condA_iff, toQ_posOf_inside, tb3_posIn]
    simp [h1]
  · rw [Bool.eq_false_iff, Ne, condB_iff, toQ_posOf_inside, tb3_posIn, tb3_lastAcc]
    simp [h1]

/-- `choose_index_error_iff`: a positive active entry in a table without non-positive entries -/
example : Active ([(ofQ 1, 10), (ofQ 2, 11)] : List (R fm × Nat)) 0 ∧
    ¬ HasNeg ([(ofQ 1, 10), (ofQ 2, 11)] : List (R fm × Nat)) := by
  refine ⟨⟨by simp, by simp⟩, ?_⟩
  rintro ⟨e, he, h⟩
  simp only [List.mem_cons, List.not_mem_nil, or_false] at he
  rcases he with rfl | rfl <;> simp at h <;> linarith

/-- `choose_assertion`: entry 1 of `tb3` is not positive; `choose_notRecorded`: index 3 is beyond the table -/
example : (1 : Nat) < (tb3 fm).length ∧ toQ ((tb3 fm)[1]'(by simp [tb3])).1 ≤ 0 ∧ (tb3 fm).length ≤ 3 := by
  simp [tb3]

/-- `ratio_selIdx_mono`: the value of the rounded compensated sum is not negative -/
example : 0 ≤ toQ (sumNeg (Ops.rounded fm) (tb3 fm)) := by rw [tb3_sumNeg]; norm_num

/-- `InF`: the rates of `tb3` are representable in every rounding model -/
theorem tb3_inF : InF fm (tb3 fm) := by
  intro e he
  simp only [tb3, List.mem_cons, List.not_mem_nil, or_false] at he
  rcases he with rfl | rfl | rfl
  · simpa using fm.one_mem
  · simpa using fm.zero_mem
  · simpa using fm.neg_mem fm.one_mem

/-- `C05.Valid`: the exact rates sum to zero, the active one is positive -/
theorem tb3_valid : C05.Valid (tblQ (tb3 fm)) 0 :=
  ⟨by norm_num [tblQ, tb3, total], by norm_num [tblQ, tb3, C05.rate]⟩

theorem tb3_S : C05.S (tblQ (tb3 fm)) = 1 := by norm_num [C05.S, tblQ, tb3, negOf, total]
theorem tb3_sumAbs : sumAbs (tb3 fm) = 2 := by
  unfold sumAbs; rw [tb3_S]; norm_num [tblQ, tb3, posSum]

/-- the range hypothesis of the flow error theorems, in binary64 -/
theorem tb3_range : (1 + b64.eps) ^ ((tb3 b64).length + 2) * sumAbs (tb3 b64) + (1 + b64.eps) * tau b64 + 0
    ≤ b64.huge := by
  apply range_of_small b64 _ (by rw [tb3_sumAbs]; norm_num)
  · rw [binary64_eps]; norm_num [tb3]
  · rw [tb3_sumAbs]
    have := binary64_tau_le
    have h4 : (2:ℚ) ^ 4 ≤ b64.huge := by
      rw [binary64_huge]; exact pow_le_pow_right₀ (by norm_num) (by norm_num)
    norm_num at h4
    linarith

/-- all hypotheses of `flow_error_draw` (and of `flow_error_position`, `flow_error_inner`, which share them) hold for
`tb3` in binary64, all three schemes, `δ = 0` (the rounded `sum()` of `[0, 1]` is exact) -/
example (sch : Scheme) (u u2 : R b64) (hu : 0 ≤ toQ u ∧ toQ u ≤ 1) (hu2 : 0 ≤ toQ u2 ∧ toQ u2 ≤ 1) :
    C05.lo sch (tblQ (tb3 b64)) 0 (selIdx b64 sch (tb3 b64) 0 u u2)
        - errFlow b64 sch (tb3 b64).length (sumAbs (tb3 b64)) 0 / scaleOf sch (tblQ (tb3 b64)) 0
          ≤ drawOf sch (toQ u) (toQ u2) ∧
      drawOf sch (toQ u) (toQ u2) ≤ C05.hi sch (tblQ (tb3 b64)) 0 (selIdx b64 sch (tb3 b64) 0 u u2)
        + errFlow b64 sch (tb3 b64).length (sumAbs (tb3 b64)) 0 / scaleOf sch (tblQ (tb3 b64)) 0 :=
  flow_error_draw tb3_active tb3_hasNeg tb3_inF binary64_tiny_le_huge tb3_valid sch u u2 hu hu2
    (fun _ => by rw [tb3_sumNeg, tb3_S]; simp) (le_refl _) tb3_range

/-- `flow_error_inside_binary64`: `tb3` has 3 ≤ 2^53 − 2 entries and `3·2 + 4 ≤ 2^1023` -/
example : (tb3 b64).length + 2 ≤ 2 ^ 53 ∧ 3 * sumAbs (tb3 b64) + 4 ≤ 2 ^ 1023 := by
  refine ⟨by norm_num [tb3], ?_⟩
  rw [tb3_sumAbs]
  have h4 : (2:ℚ) ^ 4 ≤ 2 ^ 1023 := pow_le_pow_right₀ (by norm_num) (by norm_num)
  exact le_trans (by norm_num) h4

/-- the same hypotheses hold for the genuinely rounding witness `tb5` (the sub-ulp entries are absorbed):
its range hypothesis with `δ = 2^-52` … -/
example : |toQ (sumNeg (Ops.rounded b64) tb5) - C05.S (tblQ tb5)| ≤ e52 := by
  have hx' : ¬ x55 < 0 := not_lt.mpr x55_pos.le
  have hS : C05.S (tblQ tb5) = 1 + (x55 + x55) := by
    norm_num [C05.S, tblQ, tb5, negOf, total, x55_pos, hx']
  rw [tb5_sumNeg, hS, abs_le]
  constructor <;> norm_num [e52, x55]

end nonvacuity

end JF.C05F
