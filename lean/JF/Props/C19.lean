/-!
# C19 — A dumped run resumes to exactly the run that was never interrupted

The mediator (with everything it owns: state handler, activator, event handlers, random stream) is a deterministic client of
the scheduler: it only ever pushes, trashes and asks for the succeeding event, and what it does next is a function of what
it was told so far. Pickling copies every ordinary attribute; the one component that is *rebuilt* rather than copied is the
C heap inside the heap scheduler (`HeapScheduler.__getstate__/__setstate__`). So "resume = uninterrupted" reduces to:
a deterministic client cannot tell two observationally equal schedulers apart. That reduction is proved here, for every
client and every scheduler implementation; observational equality of the rebuilt heap is C06's pickle theorem.
-/
namespace JF.C19

/-- what a client can ask of a scheduler -/
inductive Op (T H : Type) where
  | push (t : T) (h : H)
  | trash (h : H)
  | get

/-- what it gets back (`none` from `get` = `SchedulerError`) -/
inductive Out (H : Type) where
  | unit
  | got (h : Option H)
deriving DecidableEq

/-- a scheduler implementation: a state space with one transition function -/
structure Sched (S T H : Type) where
  apply : S → Op T H → Out H × S

variable {S S' T H R : Type}

/-- the outputs of a fixed operation sequence -/
def outputs (I : Sched S T H) : S → List (Op T H) → List (Out H)
  | _, [] => []
  | s, op :: ops => (I.apply s op).1 :: outputs I (I.apply s op).2 ops

/-- observational equality of two scheduler states (possibly of two different implementations):
every operation sequence produces the same outputs -/
def ObsEq (I : Sched S T H) (J : Sched S' T H) (a : S) (b : S') : Prop :=
  ∀ ops, outputs I a ops = outputs J b ops

theorem ObsEq.step {I : Sched S T H} {J : Sched S' T H} {a : S} {b : S'} (h : ObsEq I J a b) (op : Op T H) :
    (I.apply a op).1 = (J.apply b op).1 ∧ ObsEq I J (I.apply a op).2 (J.apply b op).2 := by
  constructor
  · have := h [op]; simpa [outputs] using this
  · intro ops
    have := h (op :: ops)
    simp only [outputs, List.cons.injEq] at this
    exact this.2

/-- a deterministic client: its own state `R` (global state, activator, handlers, random stream …), the next scheduler
operation it issues, and how it digests the answer -/
structure Client (R T H : Type) where
  next : R → Op T H
  feed : R → Out H → R

/-- the client running against a scheduler for `n` operations: the answers it sees and its final state -/
def runClient (I : Sched S T H) (c : Client R T H) : Nat → R → S → List (Out H) × R
  | 0, r, _ => ([], r)
  | n + 1, r, s =>
    let res := I.apply s (c.next r)
    let rest := runClient I c n (c.feed r res.1) res.2
    (res.1 :: rest.1, rest.2)

/-- **Resume = uninterrupted.** Started from the same client state on two observationally equal scheduler states, a
deterministic client sees the same answers for ever and ends in the same state — for every client, every number of
steps and every pair of scheduler implementations. -/
theorem resume_same (I : Sched S T H) (J : Sched S' T H) (c : Client R T H) (n : Nat) (r : R) (a : S) (b : S')
    (h : ObsEq I J a b) : runClient I c n r a = runClient J c n r b := by
  induction n generalizing r a b with
  | zero => rfl
  | succ n ih =>
    obtain ⟨h1, h2⟩ := h.step (c.next r)
    simp only [runClient]
    rw [h1, ih (c.feed r (J.apply b (c.next r)).1) _ _ h2]

/-- in particular the identity on scheduler states is a valid "pickle", and observational equality is an equivalence -/
theorem ObsEq.refl (I : Sched S T H) (a : S) : ObsEq I I a a := fun _ => rfl
theorem ObsEq.symm {I : Sched S T H} {J : Sched S' T H} {a : S} {b : S'} (h : ObsEq I J a b) : ObsEq J I b a :=
  fun ops => (h ops).symm

/-- non-vacuity: two different implementations of a one-slot scheduler (state `Option H` vs. a list holding at most one
handler) are observationally equal from their empty states, hence indistinguishable by any client -/
def slotA : Sched (Option Nat) Nat Nat where
  apply s
    | .push _ h => (.unit, some h)
    | .trash _ => (.unit, none)
    | .get => (.got s, s)
def slotB : Sched (List Nat) Nat Nat where
  apply s
    | .push _ h => (.unit, [h])
    | .trash _ => (.unit, [])
    | .get => (.got s.head?, s)

theorem slots_obsEq : ∀ (a : Option Nat) (b : List Nat), b.head? = a → b.length ≤ 1 → ObsEq slotA slotB a b := by
  intro a b hab hl ops
  induction ops generalizing a b with
  | nil => rfl
  | cons op ops ih =>
    cases op with
    | push t h =>
      have := ih (some h) [h] rfl (by simp)
      simp only [outputs]; exact congrArg (Out.unit :: ·) this
    | trash h =>
      have := ih none [] rfl (by simp)
      simp only [outputs]; exact congrArg (Out.unit :: ·) this
    | get =>
      have := ih a b hab hl
      simp only [outputs]
      show Out.got a :: outputs slotA a ops = Out.got b.head? :: outputs slotB b ops
      rw [this, hab]

example (c : Client Nat Nat Nat) (n r : Nat) : runClient slotA c n r none = runClient slotB c n r [] :=
  resume_same slotA slotB c n r none [] (slots_obsEq none [] rfl (by simp))

end JF.C19
