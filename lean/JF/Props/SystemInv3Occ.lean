import JF.Lemmas.SystemInv3OccRun
import JF.Props.SystemInv3Loop
import JF.Props.C10C11
/-!
# SystemInv3Occ (E46) — C11's FULL occupancy invariant for composite objects with cell systems along the mediator loop

E41 (`JF/Props/SystemInv3Loop.lean`) proved the joint invariant `Big3` along `Reach3` but not item (d): C11's full `OccInv`.  This
module closes it.

* (i) `JF.Sys3Occ.composite_step_rest_fixed` (`JF/Lemmas/SystemInv3OccPos.lean`): `Composite.step` of an admissible event of ANY of the
  nine kinds does not displace a unit (root unit or point mass) that is at rest before the step; `step_unit`: the position of every
  unit after the step is its position time-sliced zero or more times at the event time.
* (ii) `JF.Sys3Occ.TieFreeAll3` (`JF/Lemmas/SystemInv3OccRun.lean`): no commit of any tagger other than the cell-boundary tagger of cell
  system `l` itself is at exactly the time of a pending cell-boundary candidate of `l` (implies E41's `TieFree3`: `tieFree3_of_all`).
  `old_active_stays3`: `stays` ALSO AT LIFTING COMMITS.
* (iii) `c11_occinv_closed3`: for every run `Reach3From s0 os cs s` (= `Reach3` with its initial state named: `reach3_from`,
  `Reach3From.reach`) under `Hyp3L`, `TieFreeAll3 cs` and `OccInit3 s0` (the occupancies of the initial state satisfy `OccInv` for the
  initial positions — e.g. freshly initialised: `occInit3_example`), for EVERY cell system `l`, at every leg: C11's `OccInv` for the
  state the leg worked on — `c11_recorded_exactly_once_closed3`, `c11_not_recorded_closed3`, `c11_active_recorded_closed3`,
  `c11_cap_respected_closed3`, `c11_occinv_every_leg3`.
* (iv) `cell_partition_total_closed3`: C10's partition for a root-level cell system (`cell_level = 1`) at every leg; instances for
  `dipoles/cell_bounded.ini` and `dipoles/cell_veto.ini`.

Remaining hypotheses, by name: `Hyp3L` (decidable, by `decide` for the six shipped wirings), `Geo` per cell system, `TieFreeAll3`,
`OccInit3`, what `SysStep3` assumes (`CandsOK3`, `Commits3`), and for (iv) `CellOfTotal3` (`position_to_cell` returns a cell of the
grid for every position; C12's `Good` has no in-box clause, so `InBox` cannot be derived as E9 did).
-/
namespace JF.SystemInv3Occ
open JF JF.Act JF.Heap JF.Sched JF.Med JF.CW3 JF.C14 JF.MediatorLoop JF.Sys JF.Sys3 JF.Sys3L JF.Composite JF.C12 JF.Footprints3
  JF.Sys3Occ JF.Sys2 JF.SystemInv3Loop

section
variable {env : Env ℚ} {geo : ∀ l, Geo (cwEnv env l)} {mw : ModeWiring} {S : TaggerIdx} {needs : HandlerId → Bool}

/-- the occupancies of the initial state satisfy C11's `OccInv` for the initial positions (`SingleActiveCellOccupancy.initialize`:
`JF.C11.init_inv`) -/
def OccInit3 (env : Env ℚ) (mw : ModeWiring) (s0 : Sys3) : Prop :=
  ∀ l, l < mw.w.labels.length → C11.OccInv (relG env l s0.cs) (cellG env l s0.cs s0.cs) (getOcc s0.occs l)

/-- what the induction carries in addition to E41's `Big3` -/
structure OccJ (env : Env ℚ) (mw : ModeWiring) (s0 : Sys3) (cs : List (Committed XTime)) (s : Sys3) : Prop where
  suPrev : SameUnits s0.cs s.csPrev
  su : SameUnits s0.cs s.cs
  /-- C11's full invariant for every cell system, for the state the last leg worked on -/
  occ : ∀ l, l < mw.w.labels.length → C11.OccInv (relG env l s0.cs) (cellG env l s0.cs s.csPrev) (getOcc s.occs l)
  /-- `stays` for EVERY commit that is not the cell-boundary event of `l` -/
  stays : ∀ cl E, cs.getLast? = some cl → owner mw.w.wires cl.handler = some E → ∀ l, l < mw.w.labels.length →
    isCBT mw.w l E = false → ∀ a, activeOn env l s.csPrev = [a] → (env.oe l).relevant a = true →
      (env.oe l).cellOf (posOn env.base.nPer (env.oe l).level s.cs a) =
        (env.oe l).cellOf (posOn env.base.nPer (env.oe l).level s.csPrev a)

theorem ident_false_of_isCBT {l : Nat} {E : TaggerIdx} (h : isCBT mw.w l E = true) : affects (mw.w.tagger E) .ident = false := by
  have := (isCBT_kind h).1
  unfold affects; rw [this]

/-- **ONE induction over the legs**: C11's full `OccInv` for every cell system, and `stays` at every commit -/
theorem occ_joint3 (H : Hyp3L env mw S) {s0 : Sys3} {os : List (Oracle XTime)} {cs : List (Committed XTime)} {s : Sys3}
    (hr : Reach3From env geo mw S needs s0 os cs s) (nta : TieFreeAll3 mw cs) (h0 : OccInit3 env mw s0) :
    OccJ env mw s0 cs s := by
  induction hr with
  | init hi =>
    refine ⟨by rw [hi.prev]; exact SameUnits.refl _, SameUnits.refl _, fun l hl => by rw [hi.prev]; exact h0 l hl, ?_⟩
    intro cl E hl; simp at hl
  | @step os cs s s' o cm prev hgo hstep ih =>
    obtain ⟨nta0, ntl⟩ := tieFreeAll3_snoc nta
    have ih0 := ih nta0
    have nt0 := tieFree3_of_all nta0
    obtain ⟨t', E', ht', hE', hcom⟩ := hstep.ev
    obtain ⟨e', hk', hte, ⟨ha', _⟩, hcs'⟩ := hcom
    have hsu' : SameUnits s0.cs s'.cs := by
      intro id
      rw [hcs', step_unit_isSome env.base.L s.cs e' ha' id]; exact ih0.su id
    rcases joint_inv3 H prev.reach nt0 with ⟨rfl, hi⟩ | ⟨cs1, cl, E, tl, rfl, big⟩
    · -- the first leg: no update of the internal states, nothing moved
      refine ⟨by rw [hstep.prev]; exact ih0.su, hsu', ?_, ?_⟩
      · intro l hl
        have hst : s.med.act.started = false := by rw [hi.med]; rfl
        have hocc := hstep.occ1
        rw [hst] at hocc
        simp only [Bool.false_eq_true, if_false] at hocc
        rw [hstep.prev, hocc, ← hi.prev]
        exact ih0.occ l hl
      · intro cl' E'' _ _ l _ _ a ha _
        exfalso
        rw [hstep.prev] at ha
        rcases activeOn_char (env := env) (CW2.inv_rest hi.good hi.unif hi.rest .leaf) l with ⟨h0', _⟩ | ⟨a1, x, _, hx, hxm, _⟩
        · rw [ha] at h0'; cases h0'
        · match hid : identL env l a1, hx with
          | [], hx => simp [unitAt] at hx
          | [k], hx =>
            simp only [unitAt] at hx
            cases hc : s.cs[k]? with
            | none => rw [hc] at hx; simp at hx
            | some c =>
              rw [hc] at hx; simp only [Option.map_some, Option.some.injEq] at hx
              subst hx
              have g := hi.good c (List.mem_of_getElem? hc)
              exact hxm ((absent_iff g.wf.2.2 g.vel g.sh g.rnz).mpr (hi.rest c (List.mem_of_getElem? hc)))
          | [k, b], hx =>
            simp only [unitAt] at hx
            cases hc : s.cs[k]? with
            | none => rw [hc] at hx; simp at hx
            | some c =>
              rw [hc] at hx; simp only [Option.bind_some] at hx
              exact hxm (hi.rest c (List.mem_of_getElem? hc) x (List.mem_of_getElem? hx))
          | _ :: _ :: _ :: _, hx => simp [unitAt] at hx
    · have hgo' : cl.stop = false := hgo cl (by simp)
      have ntl3 : TieFreeLeg3 mw (pendOf (fun _ => none) (cs1 ++ [cl]).dropLast) cl := by
        rw [List.dropLast_concat]; exact (tieFree3_snoc nt0).2
      refine ⟨by rw [hstep.prev]; exact ih0.su, hsu', ?_, ?_⟩
      · intro l hl
        rw [hstep.prev]
        have hocc := occs_step big hstep l hl
        obtain ⟨hi3, _⟩ := big.phase
        obtain ⟨e, hk, hte0, ⟨hadm, _⟩, hcs⟩ := big.commit
        refine occ_step3 (ih0.occ l hl) hi3.1 (hi3.2 l hl) big.invNext ih0.suPrev ih0.su ?_ ?_ hocc
        · intro id u hu hv
          rw [hcs]; exact composite_step_rest_fixed env.base.L s.csPrev e hadm hu hv
        · intro a ha hrel hne
          by_cases hcb : isCBT mw.w l E = true
          · exfalso
            apply hne
            obtain ⟨S0, hS0⟩ := quiet_commit H.supp (ident_false_of_isCBT hcb) big.commit
            unfold activeOn
            rw [hS0, flags_sliceAt]; exact ha
          · exact ih0.stays cl E (by simp) big.owner l hl (by simpa using hcb) a ha hrel
      · intro cl' E'' hl' hE'' l hl hncb a ha hrel
        have : cl' = cm := by simpa using hl'.symm
        subst this
        rw [hstep.prev] at ha ⊢
        exact old_active_stays3 H big hgo' ntl3 hstep hl (ntl E'' l hE'' hl hncb) a ha hrel

/-- the cell function C11's invariant speaks about: the cell of the position of the unit on the cell level -/
def cellL (env : Env ℚ) (l : Nat) (cs : List (CObj ℚ)) (u : Nat) : Nat :=
  (env.oe l).cellOf (posOn env.base.nPer (env.oe l).level cs u)

/-- **(iii) `c11_occinv_closed3` — C11's full invariant for every cell system at every leg of every run, its history premise derived.**
For the state the leg works on (`s.csPrev`; the occupancy `getOcc s.occs l` just updated on it): `JF.C11.OccInv` — every relevant
non-active unit on the cell level of `l` (composite objects for `cell_level = 1`, point masses for `cell_level = 2`) is recorded exactly
once, in the occupant or surplus list of the cell that contains its position, nothing else is recorded, the active unit is in no list
but recorded as the active unit of the cell containing its position, no cell exceeds the occupant limit — and no `update` ever raised. -/
theorem c11_occinv_closed3 (H : Hyp3L env mw S) {s0 : Sys3} {os : List (Oracle XTime)} {cs : List (Committed XTime)} {s : Sys3}
    (hr : Reach3From env geo mw S needs s0 os cs s) (nta : TieFreeAll3 mw cs) (h0 : OccInit3 env mw s0) {l : Nat}
    (hl : l < mw.w.labels.length) : C11.OccInv (relG env l s0.cs) (cellL env l s.csPrev) (getOcc s.occs l) := by
  refine JF.Sys.occInv_congr ((occ_joint3 H hr nta h0).occ l hl) ?_
  intro u hu
  unfold cellG cellL; rw [if_pos hu]

/-- the set of units does not change along a run -/
theorem same_units_closed3 (H : Hyp3L env mw S) {s0 : Sys3} {os : List (Oracle XTime)} {cs : List (Committed XTime)} {s : Sys3}
    (hr : Reach3From env geo mw S needs s0 os cs s) (nta : TieFreeAll3 mw cs) (h0 : OccInit3 env mw s0) :
    SameUnits s0.cs s.csPrev ∧ SameUnits s0.cs s.cs :=
  ⟨(occ_joint3 H hr nta h0).suPrev, (occ_joint3 H hr nta h0).su⟩

/-- **`stays` at EVERY commit** (liftings and ends of chain included) that is not the cell-boundary event of `l` -/
theorem old_active_stays_closed3 (H : Hyp3L env mw S) {s0 : Sys3} {os : List (Oracle XTime)} {cs : List (Committed XTime)}
    {s : Sys3} (hr : Reach3From env geo mw S needs s0 os cs s) (nta : TieFreeAll3 mw cs) (h0 : OccInit3 env mw s0)
    {cl : Committed XTime} {E : TaggerIdx} (hcl : cs.getLast? = some cl) (hE : owner mw.w.wires cl.handler = some E) {l : Nat}
    (hl : l < mw.w.labels.length) (hncb : isCBT mw.w l E = false) {a : Nat} (ha : activeOn env l s.csPrev = [a])
    (hrel : (env.oe l).relevant a = true) : cellL env l s.cs a = cellL env l s.csPrev a :=
  (occ_joint3 H hr nta h0).stays cl E hcl hE l hl hncb a ha hrel

/-- every relevant non-active unit is recorded exactly once, and that under the cell containing its position -/
theorem c11_recorded_exactly_once_closed3 (H : Hyp3L env mw S) {s0 : Sys3} {os : List (Oracle XTime)}
    {cs : List (Committed XTime)} {s : Sys3} (hr : Reach3From env geo mw S needs s0 os cs s) (nta : TieFreeAll3 mw cs)
    (h0 : OccInit3 env mw s0) {l : Nat} (hl : l < mw.w.labels.length) {u : Nat} (hu : relG env l s0.cs u = true)
    (ha : (getOcc s.occs l).activeId ≠ some u) :
    (Occ.getItem (getOcc s.occs l) (cellL env l s.csPrev u)).count u + (Occ.yieldSurplus (getOcc s.occs l)).count u = 1 ∧
    ∀ c, c ≠ cellL env l s.csPrev u → u ∉ Occ.getItem (getOcc s.occs l) c :=
  C11.recorded_exactly_once (c11_occinv_closed3 H hr nta h0 hl) hu ha

/-- the active unit and the irrelevant units are in no list -/
theorem c11_not_recorded_closed3 (H : Hyp3L env mw S) {s0 : Sys3} {os : List (Oracle XTime)}
    {cs : List (Committed XTime)} {s : Sys3} (hr : Reach3From env geo mw S needs s0 os cs s) (nta : TieFreeAll3 mw cs)
    (h0 : OccInit3 env mw s0) {l : Nat} (hl : l < mw.w.labels.length) {u : Nat}
    (hn : relG env l s0.cs u = false ∨ (getOcc s.occs l).activeId = some u) :
    (∀ c, u ∉ Occ.getItem (getOcc s.occs l) c) ∧ u ∉ Occ.yieldSurplus (getOcc s.occs l) :=
  C11.not_recorded (c11_occinv_closed3 H hr nta h0 hl) hn

/-- the active unit is recorded as active in the cell containing its position, it IS the active unit on the cell level, and relevant -/
theorem c11_active_recorded_closed3 (H : Hyp3L env mw S) {s0 : Sys3} {os : List (Oracle XTime)}
    {cs : List (Committed XTime)} {s : Sys3} (hr : Reach3From env geo mw S needs s0 os cs s) (nta : TieFreeAll3 mw cs)
    (h0 : OccInit3 env mw s0) {l : Nat} (hl : l < mw.w.labels.length) {a : Nat} (ha : (getOcc s.occs l).activeId = some a) :
    Occ.yieldActiveCells (getOcc s.occs l) = [(some (cellL env l s.csPrev a), some a)] ∧ relG env l s0.cs a = true ∧
    activeOn env l s.csPrev = [a] := by
  obtain ⟨h1, h2⟩ := C11.active_recorded (c11_occinv_closed3 H hr nta h0 hl) ha
  refine ⟨h1, h2, ?_⟩
  have hc := (c11_consistent_closed3 H hr.reach (tieFree3_of_all nta) hl).1
  rw [ha] at hc
  exact (expected_some hc.symm).1

/-- no cell lists more occupants than `maximum_number_occupants` -/
theorem c11_cap_respected_closed3 (H : Hyp3L env mw S) {s0 : Sys3} {os : List (Oracle XTime)}
    {cs : List (Committed XTime)} {s : Sys3} (hr : Reach3From env geo mw S needs s0 os cs s) (nta : TieFreeAll3 mw cs)
    (h0 : OccInit3 env mw s0) {l : Nat} (hl : l < mw.w.labels.length) (hc : 0 < (getOcc s.occs l).cap) (c : Nat) :
    ((Occ.getItem (getOcc s.occs l) c).length : Int) ≤ (getOcc s.occs l).cap :=
  C11.cap_respected (c11_occinv_closed3 H hr nta h0 hl) hc c

theorem tieFreeAll3_take' {cs : List (Committed XTime)} (h : TieFreeAll3 mw cs) (k : Nat) : TieFreeAll3 mw (cs.take k) :=
  tieFreeAll3_take h k

/-- every leg of a run is a step from a reachable state -/
theorem reach_leg3From {s0 : Sys3} {os : List (Oracle XTime)} {cs : List (Committed XTime)} {s : Sys3}
    (hr : Reach3From env geo mw S needs s0 os cs s) {k : Nat} {cm : Committed XTime} (hk : cs[k]? = some cm) :
    ∃ s1 os1, Reach3From env geo mw S needs s0 os1 (cs.take (k + 1)) s1 := by
  induction hr with
  | init h => simp at hk
  | @step os cs s s' o cm' prev hgo hstep ih =>
    by_cases hlt : k < cs.length
    · rw [List.getElem?_append_left hlt] at hk
      obtain ⟨s1, os1, h1⟩ := ih hk
      refine ⟨s1, os1, ?_⟩
      rw [List.take_append_of_le_length (by omega)]; exact h1
    · have hke : k = cs.length := by
        have := (List.getElem?_eq_some_iff.mp hk).1
        simp at this; omega
      subst hke
      refine ⟨s', os ++ [o], ?_⟩
      rw [List.take_of_length_le (by simp)]
      exact .step prev hgo hstep

/-- **at EVERY leg `k`** (not only the last): the occupancies the leg worked with satisfy `OccInv` for the state it worked on -/
theorem c11_occinv_every_leg3 (H : Hyp3L env mw S) {s0 : Sys3} {os : List (Oracle XTime)} {cs : List (Committed XTime)} {s : Sys3}
    (hr : Reach3From env geo mw S needs s0 os cs s) (nta : TieFreeAll3 mw cs) (h0 : OccInit3 env mw s0) {k : Nat}
    {cm : Committed XTime} (hk : cs[k]? = some cm) {l : Nat} (hl : l < mw.w.labels.length) :
    ∃ s1 os1, Reach3From env geo mw S needs s0 os1 (cs.take (k + 1)) s1 ∧
      C11.OccInv (relG env l s0.cs) (cellL env l s1.csPrev) (getOcc s1.occs l) := by
  obtain ⟨s1, os1, h1⟩ := reach_leg3From hr hk
  exact ⟨s1, os1, h1, c11_occinv_closed3 H h1 (tieFreeAll3_take nta _) h0 hl⟩

end

/-! ## (iv) C10's partition for a root-level cell system -/

section
open JF.CellTaggers JF.C10C11
variable {env : Env ℚ} {geo : ∀ l, Geo (cwEnv env l)} {mw : ModeWiring} {S : TaggerIdx} {needs : HandlerId → Bool}

/-- `position_to_cell` returns a cell of the grid of cell system `l`, for every position -/
def CellOfTotal3 (env : Env ℚ) (l : Nat) : Prop := ∀ p, (env.oe l).cellOf p < numCells (env.oe l).grid

/-- the relevant composite objects (root-level units), as numbers -/
def relRoots (env : Env ℚ) (l : Nat) (n : Nat) : List Nat := (List.range n).filter (env.oe l).relevant

theorem mem_relRoots (hlev : (env.oe l).level = 1) (cs0 : List (CObj ℚ)) (u : Nat) :
    u ∈ relRoots env l cs0.length ↔ relG env l cs0 u = true := by
  unfold relRoots relG identL identOf
  simp only [hlev, beq_self_eq_true, if_true, unitAt, List.mem_filter, List.mem_range, Bool.and_eq_true]
  constructor
  · rintro ⟨h1, h2⟩
    exact ⟨by rw [List.getElem?_eq_getElem h1]; rfl, h2⟩
  · rintro ⟨h1, h2⟩
    refine ⟨?_, h2⟩
    by_contra hge
    rw [List.getElem?_eq_none (by omega)] at h1
    simp at h1

/-- for a root-level cell system the occupancy as the cell taggers read it (`CW3.tocc`) is C10C11's conversion -/
theorem tocc_root (hlev : (env.oe l).level = 1) (occ : Occ.State) :
    tocc env.base.nPer (env.oe l) occ = toTaggerOcc (env.oe l).grid occ := by
  unfold tocc toTaggerOcc identOf
  simp only [hlev, beq_self_eq_true, if_true]
  rfl

/-- **(iv) `cell_partition_total_closed3` — C10's cell half for a root-level cell system (`cell_level = 1`) at every leg of every
run.**  Either the occupancy records no active unit and no cell-based in-state exists, or the recorded unit `a` is THE active composite
object, it is relevant, the recorded cell is the cell of its (root unit's) position, and both variants (cell-veto / cell-bounding +
excluded + surplus) list the other relevant composite objects, each exactly once. -/
theorem cell_partition_total_closed3 (H : Hyp3L env mw S) {s0 : Sys3} {os : List (Oracle XTime)} {cs : List (Committed XTime)}
    {s : Sys3} (hr : Reach3From env geo mw S needs s0 os cs s) (nta : TieFreeAll3 mw cs) (h0 : OccInit3 env mw s0) {l : Nat}
    (hl : l < mw.w.labels.length) (hlev : (env.oe l).level = 1) (hG : CellOfTotal3 env l) :
    let t := tocc env.base.nPer (env.oe l) (getOcc s.occs l)
    let g := (env.oe l).grid
    match (getOcc s.occs l).activeId with
    | none => cellVetoTagger t = [] ∧ cellBoundingTagger g t = [] ∧ excludedCellsTagger g t = [] ∧
        surplusCellsTagger t = [] ∧ vetoTargets g t = []
    | some a =>
        activeOn env l s.csPrev = [a] ∧ (env.oe l).relevant a = true ∧
        t.active = some (CW.cellAt g (cellL env l s.csPrev a), wrap a) ∧
        (targetsVeto g t ++ targetsExcluded g t ++ targetsSurplus t).Perm (idents ((relRoots env l s0.cs.length).erase a)) ∧
        (targetsBounding g t ++ targetsExcluded g t ++ targetsSurplus t).Perm (idents ((relRoots env l s0.cs.length).erase a)) := by
  intro t g
  have ht : t = toTaggerOcc g (getOcc s.occs l) := tocc_root hlev _
  cases ha : (getOcc s.occs l).activeId with
  | none =>
    simp only
    rw [ht]; exact C10C11.no_active_no_instates g ha
  | some a =>
    simp only
    have hocc := c11_occinv_closed3 H hr nta h0 hl
    have hnd : (relRoots env l s0.cs.length).Nodup := List.Nodup.filter _ List.nodup_range
    have inv := occInv_of_c11 hocc g (relRoots env l s0.cs.length) hnd (mem_relRoots hlev s0.cs) (fun u _ => hG _) ha
    obtain ⟨_, hrelG, hact⟩ := c11_active_recorded_closed3 H hr nta h0 hl ha
    have hrel : (env.oe l).relevant a = true := by
      unfold relG at hrelG; simp only [Bool.and_eq_true] at hrelG; exact hrelG.2
    rw [ht]
    refine ⟨hact, hrel, inv.active, ?_, ?_⟩
    · rw [idents, map_erase_wrap]; exact C10.cell_partition_veto _ _ _ _ _ inv
    · rw [idents, map_erase_wrap]; exact C10.cell_partition_bounding _ _ _ _ _ inv

end

/-! ## the six shipped configurations of composite objects with cells (E41's `hyp3L_*`, by `decide`) -/

section
open JF.Act.Gen JF.CellTaggers JF.C10C11
variable {geo : ∀ env : Env ℚ, ∀ l, Geo (cwEnv env l)} {needs : HandlerId → Bool} {s0 s : Sys3} {os : List (Oracle XTime)}
  {cs : List (Committed XTime)}

/-- **`dipoles/cell_bounded.ini`**: C11's full invariant for its cell system (composite objects, `cell_level = 1`) at every leg -/
theorem c11_occinv_dipoles_cell_bounded (env : Env ℚ) (hL : BoxOK env.base.d env.base.L)
    (hr : Reach3From env (geo env) mcfg_dipoles_cell_bounded 9 needs s0 os cs s) (nta : TieFreeAll3 mcfg_dipoles_cell_bounded cs)
    (h0 : OccInit3 env mcfg_dipoles_cell_bounded s0) :
    C11.OccInv (relG env 0 s0.cs) (cellL env 0 s.csPrev) (getOcc s.occs 0) :=
  c11_occinv_closed3 (hyp3L_dipoles_cell_bounded env hL) hr nta h0 (by decide)

/-- **`dipoles/cell_veto.ini`** -/
theorem c11_occinv_dipoles_cell_veto (env : Env ℚ) (hL : BoxOK env.base.d env.base.L)
    (hr : Reach3From env (geo env) mcfg_dipoles_cell_veto 9 needs s0 os cs s) (nta : TieFreeAll3 mcfg_dipoles_cell_veto cs)
    (h0 : OccInit3 env mcfg_dipoles_cell_veto s0) :
    C11.OccInv (relG env 0 s0.cs) (cellL env 0 s.csPrev) (getOcc s.occs 0) :=
  c11_occinv_closed3 (hyp3L_dipoles_cell_veto env hL) hr nta h0 (by decide)

/-- **`water/coulomb_cell_veto_lj_cell_veto.ini`**: BOTH cell systems (`l = 0`: oxygens, level 2; `l = 1`: molecules, level 1) -/
theorem c11_occinv_water_cell_veto_lj_cell_veto (env : Env ℚ) (hL : BoxOK env.base.d env.base.L)
    (hr : Reach3From env (geo env) mcfg_water_coulomb_cell_veto_lj_cell_veto 13 needs s0 os cs s)
    (nta : TieFreeAll3 mcfg_water_coulomb_cell_veto_lj_cell_veto cs)
    (h0 : OccInit3 env mcfg_water_coulomb_cell_veto_lj_cell_veto s0) {l : Nat} (hl : l < 2) :
    C11.OccInv (relG env l s0.cs) (cellL env l s.csPrev) (getOcc s.occs l) :=
  c11_occinv_closed3 (hyp3L_water_cell_veto_lj_cell_veto env hL) hr nta h0 hl

/-- **`water/coulomb_cell_veto_lj_inverted.ini`** -/
theorem c11_occinv_water_cell_veto_lj_inverted (env : Env ℚ) (hL : BoxOK env.base.d env.base.L)
    (hr : Reach3From env (geo env) mcfg_water_coulomb_cell_veto_lj_inverted 10 needs s0 os cs s)
    (nta : TieFreeAll3 mcfg_water_coulomb_cell_veto_lj_inverted cs) (h0 : OccInit3 env mcfg_water_coulomb_cell_veto_lj_inverted s0) :
    C11.OccInv (relG env 0 s0.cs) (cellL env 0 s.csPrev) (getOcc s.occs 0) :=
  c11_occinv_closed3 (hyp3L_water_cell_veto_lj_inverted env hL) hr nta h0 (by decide)

/-- **`water/coulomb_power_bounded_lj_cell_bounded.ini`** (oxygens, `cell_level = 2`, charge filter) -/
theorem c11_occinv_water_power_bounded_lj_cell_bounded (env : Env ℚ) (hL : BoxOK env.base.d env.base.L)
    (hr : Reach3From env (geo env) mcfg_water_coulomb_power_bounded_lj_cell_bounded 10 needs s0 os cs s)
    (nta : TieFreeAll3 mcfg_water_coulomb_power_bounded_lj_cell_bounded cs)
    (h0 : OccInit3 env mcfg_water_coulomb_power_bounded_lj_cell_bounded s0) :
    C11.OccInv (relG env 0 s0.cs) (cellL env 0 s.csPrev) (getOcc s.occs 0) :=
  c11_occinv_closed3 (hyp3L_water_power_bounded_lj_cell_bounded env hL) hr nta h0 (by decide)

/-- **`hard_disk_dipoles/hard_disk_dipoles_cells.ini`** (point masses, `cell_level = 2`) -/
theorem c11_occinv_hard_disk_dipoles_cells (env : Env ℚ) (hL : BoxOK env.base.d env.base.L)
    (hr : Reach3From env (geo env) mcfg_hard_disk_dipoles_hard_disk_dipoles_cells 6 needs s0 os cs s)
    (nta : TieFreeAll3 mcfg_hard_disk_dipoles_hard_disk_dipoles_cells cs)
    (h0 : OccInit3 env mcfg_hard_disk_dipoles_hard_disk_dipoles_cells s0) :
    C11.OccInv (relG env 0 s0.cs) (cellL env 0 s.csPrev) (getOcc s.occs 0) :=
  c11_occinv_closed3 (hyp3L_hard_disk_dipoles_cells env hL) hr nta h0 (by decide)

/-- **(iv) for `dipoles/cell_bounded.ini`**: the root-level cell system — C10's partition at every leg of every run -/
theorem cell_partition_total_dipoles_cell_bounded (env : Env ℚ) (hL : BoxOK env.base.d env.base.L)
    (hr : Reach3From env (geo env) mcfg_dipoles_cell_bounded 9 needs s0 os cs s) (nta : TieFreeAll3 mcfg_dipoles_cell_bounded cs)
    (h0 : OccInit3 env mcfg_dipoles_cell_bounded s0) (hlev : (env.oe 0).level = 1) (hG : CellOfTotal3 env 0) :
    let t := tocc env.base.nPer (env.oe 0) (getOcc s.occs 0)
    let g := (env.oe 0).grid
    match (getOcc s.occs 0).activeId with
    | none => cellVetoTagger t = [] ∧ cellBoundingTagger g t = [] ∧ excludedCellsTagger g t = [] ∧
        surplusCellsTagger t = [] ∧ vetoTargets g t = []
    | some a =>
        activeOn env 0 s.csPrev = [a] ∧ (env.oe 0).relevant a = true ∧
        t.active = some (CW.cellAt g (cellL env 0 s.csPrev a), wrap a) ∧
        (targetsVeto g t ++ targetsExcluded g t ++ targetsSurplus t).Perm (idents ((relRoots env 0 s0.cs.length).erase a)) ∧
        (targetsBounding g t ++ targetsExcluded g t ++ targetsSurplus t).Perm (idents ((relRoots env 0 s0.cs.length).erase a)) :=
  cell_partition_total_closed3 (hyp3L_dipoles_cell_bounded env hL) hr nta h0 (by decide) hlev hG

/-- **(iv) for `dipoles/cell_veto.ini`** -/
theorem cell_partition_total_dipoles_cell_veto (env : Env ℚ) (hL : BoxOK env.base.d env.base.L)
    (hr : Reach3From env (geo env) mcfg_dipoles_cell_veto 9 needs s0 os cs s) (nta : TieFreeAll3 mcfg_dipoles_cell_veto cs)
    (h0 : OccInit3 env mcfg_dipoles_cell_veto s0) (hlev : (env.oe 0).level = 1) (hG : CellOfTotal3 env 0) :
    let t := tocc env.base.nPer (env.oe 0) (getOcc s.occs 0)
    let g := (env.oe 0).grid
    match (getOcc s.occs 0).activeId with
    | none => cellVetoTagger t = [] ∧ cellBoundingTagger g t = [] ∧ excludedCellsTagger g t = [] ∧
        surplusCellsTagger t = [] ∧ vetoTargets g t = []
    | some a =>
        activeOn env 0 s.csPrev = [a] ∧ (env.oe 0).relevant a = true ∧
        t.active = some (CW.cellAt g (cellL env 0 s.csPrev a), wrap a) ∧
        (targetsVeto g t ++ targetsExcluded g t ++ targetsSurplus t).Perm (idents ((relRoots env 0 s0.cs.length).erase a)) ∧
        (targetsBounding g t ++ targetsExcluded g t ++ targetsSurplus t).Perm (idents ((relRoots env 0 s0.cs.length).erase a)) :=
  cell_partition_total_closed3 (hyp3L_dipoles_cell_veto env hL) hr nta h0 (by decide) hlev hG

end

/-! ## non-vacuity: E41's four-leg run of `dipoles/cell_bounded.ini` (`JF.SystemInv3Loop.Example`)

start of run at 0 — sampling at 1/8 — the cell-boundary event of dipole 0 at 1/2 — the `harmonic` lifting (0, 0) → (0, 1) at 5/8.
Every hypothesis of the theorems of this module holds for it: `Hyp3L` (`hyp`), `Reach3From` (`reach4F`), `TieFreeAll3`
(`tieFreeAll4`: the lifting at 5/8 and the sampling at 1/8 are not at the time of the pending cell-boundary candidates 1 resp. 1/2),
`OccInit3` (`occInit3_example`: the occupancy is `initialize`d on the two dipoles), `CellOfTotal3` (`cellOfTotal`). -/

namespace Example
open JF.SystemInv3Loop.Example JF.C11 JF.CellTaggers JF.C10C11

theorem reach4F : Reach3From env geo mw 9 needs s0 os4 cs4c s4 :=
  .step (.step (.step (.step (.init init0) (by simp) step1) (by intro cl h; simp at h; subst h; decide +kernel) step2)
    (by intro cl h; simp at h; subst h; decide +kernel) step3) (by intro cl h; simp at h; subst h; decide +kernel) step4

/-- **`OccInit3` holds**: `SingleActiveCellOccupancy.initialize` on the two dipoles (centres in cells (2, 2) = 10 and (0, 0) = 0) -/
theorem occInit3_example : OccInit3 env mw s0 := by
  intro l hl
  have : l = 0 := Nat.lt_one_iff.mp hl
  subst this
  have h := C11.init_inv 1 [⟨0, true, 10⟩, ⟨1, true, 0⟩] (by decide)
  have hrel : C11.relOf [⟨0, true, 10⟩, ⟨1, true, 0⟩] = relG env 0 s0.cs := by
    funext u
    rcases u with _ | _ | n
    · decide +kernel
    · decide +kernel
    · simp [C11.relOf, relG, identL, identOf, unitAt, env, oe, Env.oe, s0, Sys3.init]
  rw [hrel] at h
  refine JF.Sys.occInv_congr h ?_
  intro u hu
  rcases u with _ | _ | n
  · decide +kernel
  · decide +kernel
  · simp [relG, identL, identOf, unitAt, env, oe, Env.oe, s0, Sys3.init] at hu

/-- **`TieFreeAll3` holds for the run**: start of run, sampling (1/8) and the lifting (5/8) are not at the time of a pending
cell-boundary candidate (1/2 resp. 1); the third commit IS the cell-boundary event of the cell system -/
theorem tieFreeAll4 : TieFreeAll3 mw cs4c := by
  intro k cm hk E l hE hl hncb hb hcb
  have := cb_handler hcb
  subst this
  have hl0 : l = 0 := Nat.lt_one_iff.mp hl
  subst hl0
  have hk4 : k < 4 := (List.getElem?_eq_some_iff.mp hk).1
  interval_cases k
  all_goals
    simp only [cs4c, List.nil_append, List.cons_append, List.getElem?_cons_zero, List.getElem?_cons_succ,
      Option.some.injEq] at hk
    subst hk
  · decide +kernel
  · decide +kernel
  · exfalso
    have h3 : owner cfg.wires c3.handler = some 3 := by decide +kernel
    have hE' : owner cfg.wires c3.handler = some E := hE
    rw [h3] at hE'
    cases hE'
    exact absurd hncb (by decide)
  · decide +kernel

theorem cellOfTotal : CellOfTotal3 env 0 := by
  intro p
  have h : ∀ x, (g4.idx x).toNat ≤ 3 := by
    intro x
    have : g4.idx x ≤ 3 := by
      unfold Grid.idx
      exact le_trans (min_le_right _ _) (by norm_num [g4])
    omega
  have hn : numCells (env.oe 0).grid = 16 := by decide
  rw [hn]
  show (g4.idx (p.getD 0 0)).toNat + 4 * (g4.idx (p.getD 1 0)).toNat < 16
  have h1 := h (p.getD 0 0)
  have h2 := h (p.getD 1 0)
  omega

/-- C11's full invariant in the middle of the fourth leg (after the cell-boundary event: dipole 0 is active in cell (3, 2) = 11,
dipole 1 is the occupant of cell 0) … -/
example : C11.OccInv (relG env 0 s0.cs) (cellL env 0 s4.csPrev) (getOcc s4.occs 0) :=
  c11_occinv_closed3 hyp reach4F tieFreeAll4 occInit3_example (l := 0) (by decide)
example : (getOcc s4.occs 0).activeId = some 0 ∧ (getOcc s4.occs 0).activeCell = some 11 ∧
    Occ.getItem (getOcc s4.occs 0) 0 = [1] ∧ cellL env 0 s4.csPrev 0 = 11 ∧ cellL env 0 s4.csPrev 1 = 0 := by decide +kernel

/-- … dipole 1 (relevant, not active) is recorded exactly once, under the cell of its position -/
example : (Occ.getItem (getOcc s4.occs 0) (cellL env 0 s4.csPrev 1)).count 1 + (Occ.yieldSurplus (getOcc s4.occs 0)).count 1 = 1 ∧
    ∀ c, c ≠ cellL env 0 s4.csPrev 1 → 1 ∉ Occ.getItem (getOcc s4.occs 0) c :=
  c11_recorded_exactly_once_closed3 hyp reach4F tieFreeAll4 occInit3_example (l := 0) (by decide) (u := 1) (by decide +kernel)
    (by decide +kernel)

/-- `stays` at the LIFTING commit of leg 4 (`harmonic`, tagger 4): the centre of dipole 0 — the old and new active composite
object — time-sliced to 5/8, is in the cell it was in -/
example : cellL env 0 s4.cs 0 = cellL env 0 s4.csPrev 0 :=
  old_active_stays_closed3 hyp reach4F tieFreeAll4 occInit3_example (cl := c4) (E := 4) (by simp [cs4c]) (by decide +kernel)
    (l := 0) (by decide) (by decide) (a := 0) (by decide +kernel) rfl

/-- **(iv) C10's partition in the middle of the fourth leg**: dipole 0 is the active composite object in cell (3, 2); the cell-bounding,
excluded and surplus targets together are dipole 1, once -/
example :
    let t := tocc env.base.nPer (env.oe 0) (getOcc s4.occs 0)
    let g := (env.oe 0).grid
    match (getOcc s4.occs 0).activeId with
    | none => cellVetoTagger t = [] ∧ cellBoundingTagger g t = [] ∧ excludedCellsTagger g t = [] ∧
        surplusCellsTagger t = [] ∧ vetoTargets g t = []
    | some a =>
        activeOn env 0 s4.csPrev = [a] ∧ (env.oe 0).relevant a = true ∧
        t.active = some (CW.cellAt g (cellL env 0 s4.csPrev a), wrap a) ∧
        (targetsVeto g t ++ targetsExcluded g t ++ targetsSurplus t).Perm (idents ((relRoots env 0 s0.cs.length).erase a)) ∧
        (targetsBounding g t ++ targetsExcluded g t ++ targetsSurplus t).Perm (idents ((relRoots env 0 s0.cs.length).erase a)) :=
  cell_partition_total_closed3 hyp reach4F tieFreeAll4 occInit3_example (l := 0) (by decide) rfl cellOfTotal
example : idents ((relRoots env 0 s0.cs.length).erase 0) = [[1]] := by decide +kernel

end Example

end JF.SystemInv3Occ
