import JF.Model.Sampling
import JF.Props.C14
import Mathlib.Algebra.Order.Archimedean.Basic
import Mathlib.Tactic.NormNum
/-!
# C17 — Samples and end of run occur at nominal times on a fully time-sliced state
Exact reading (`Ops.rat`) of the sampling clock, the sample count, and the sampled out-state.
The float reading of `clock` is compared bit for bit with the real handler on every run of `./check C17`;
its rounding (one rounding of the remainder per step, C14) is measured by the oracle.
-/
namespace JF.C17
open JF JF.Sampling JF.C14

/-- nominal time of the `k`-th clock tick -/
def nominal (delta : ℚ) (zeroFirst : Bool) (k : ℕ) : ℚ :=
  if zeroFirst then ((k : ℚ) - 1) * delta else (k : ℚ) * delta

theorem clockInit_val (delta : ℚ) (zf : Bool) :
    val (clockInit Ops.rat delta zf) = nominal delta zf 0 ∧ Normalised (clockInit Ops.rat delta zf) := by
  cases zf
  · simp only [clockInit, nominal, Bool.not_false, if_true, rat_ofInt]
    refine ⟨by simp [val], ⟨0, by simp⟩, by simp, by simp⟩
  · have := fromFloat_exact (-delta)
    have e : clockInit Ops.rat delta true = Time.fromFloat Ops.rat (-delta) := by simp [clockInit]
    rw [e]
    refine ⟨?_, this.2⟩
    rw [this.1]; simp [nominal]

/-- **The `k`-th sample time is exactly `k` times the interval** (from 0 or from one interval), and normalised. -/
theorem clock_val (delta : ℚ) (zf : Bool) (k : ℕ) :
    val (clock Ops.rat delta zf k) = nominal delta zf k ∧ Normalised (clock Ops.rat delta zf k) := by
  induction k with
  | zero => exact clockInit_val delta zf
  | succ k ih =>
    simp only [clock]
    refine ⟨?_, add_normalised _ _ ih.2⟩
    rw [add_val, ih.1]
    cases zf <;> simp [nominal] <;> ring

theorem endTime_val (tEnd : ℚ) : val (endTime Ops.rat tEnd) = tEnd ∧ Normalised (endTime Ops.rat tEnd) :=
  fromFloat_exact tEnd

/-- the comparison the scheduler makes between the sampling and the end-of-run candidate is the comparison of the
nominal time with the end time -/
theorem clock_lt_end (delta tEnd : ℚ) (zf : Bool) (k : ℕ) :
    Time.lt (clock Ops.rat delta zf k) (endTime Ops.rat tEnd) = true ↔ nominal delta zf k < tEnd := by
  rw [lt_iff _ _ (clock_val delta zf k).2 (endTime_val tEnd).2, (clock_val delta zf k).1, (endTime_val tEnd).1]

/-- **Number of samples.** If the loop stops with `n` samples before running out of fuel, then exactly the ticks
`k0+1 … k0+n` lie strictly before the end time and tick `k0+n+1` does not. -/
theorem samples_spec (delta tEnd : ℚ) (zf : Bool) (fuel k0 n : ℕ)
    (h : samplesBeforeEnd Ops.rat delta tEnd zf fuel k0 = n) (hn : n < fuel) :
    (∀ j, j < n → nominal delta zf (k0 + j + 1) < tEnd) ∧ ¬ (nominal delta zf (k0 + n + 1) < tEnd) := by
  induction fuel generalizing k0 n with
  | zero => omega
  | succ fuel ih =>
    simp only [samplesBeforeEnd] at h
    by_cases hc : Time.lt (clock Ops.rat delta zf (k0 + 1)) (endTime Ops.rat tEnd) = true
    · rw [if_pos hc] at h
      have hlt := (clock_lt_end delta tEnd zf (k0 + 1)).mp hc
      obtain ⟨m, rfl⟩ : ∃ m, n = 1 + m := ⟨samplesBeforeEnd Ops.rat delta tEnd zf fuel (k0 + 1), h.symm⟩
      have h' : samplesBeforeEnd Ops.rat delta tEnd zf fuel (k0 + 1) = m := by omega
      obtain ⟨a, b⟩ := ih (k0 + 1) m h' (by omega)
      refine ⟨?_, ?_⟩
      · intro j hj
        cases j with
        | zero => simpa using hlt
        | succ j =>
          have := a j (by omega)
          have e : k0 + (j + 1) + 1 = k0 + 1 + j + 1 := by omega
          rw [e]; exact this
      · have e : k0 + (1 + m) + 1 = k0 + 1 + m + 1 := by omega
        rw [e]; exact b
    · rw [if_neg hc] at h
      subst h
      refine ⟨by intro j hj; omega, ?_⟩
      intro hlt
      exact hc ((clock_lt_end delta tEnd zf (k0 + 1)).mpr (by simpa using hlt))

/-- with a positive interval the loop does stop: there is enough fuel -/
theorem samples_terminate (delta tEnd : ℚ) (zf : Bool) (hd : 0 < delta) :
    ∃ fuel, samplesBeforeEnd Ops.rat delta tEnd zf fuel 0 < fuel := by
  -- any tick index beyond tEnd/delta + 1 is not before the end
  obtain ⟨N, hN⟩ := exists_nat_gt (tEnd / delta + 1)
  have key : ∀ fuel k0, k0 + fuel ≥ N + 1 → samplesBeforeEnd Ops.rat delta tEnd zf (fuel + 1) k0 < fuel + 1 := by
    intro fuel
    induction fuel with
    | zero =>
      intro k0 hk
      simp only [samplesBeforeEnd]
      have : ¬ (nominal delta zf (k0 + 1) < tEnd) := by
        have hk' : (N : ℚ) + 1 ≤ (k0 : ℚ) := by exact_mod_cast hk
        have : tEnd / delta < (k0 : ℚ) - 1 + 0 := by linarith
        have h2 : tEnd < ((k0 : ℚ) - 1) * delta := by
          have := (div_lt_iff₀ hd).mp (by linarith : tEnd / delta < (k0 : ℚ) - 1)
          linarith
        cases zf <;> simp only [nominal] <;> push_cast <;> nlinarith
      rw [if_neg (by rw [clock_lt_end]; exact this)]; omega
    | succ fuel ih =>
      intro k0 hk
      rw [samplesBeforeEnd]
      split
      · have := ih (k0 + 1) (by omega); omega
      · omega
  exact ⟨N + 2, by have := key (N + 1) 0 (by omega); simpa using this⟩

/-- **The written state is fully time-sliced**: every unit of the sampled out-state that moves (velocity and time stamp
present) carries exactly the sample time. -/
theorem sample_sliced (L : List ℚ) (t : Time ℚ) (us : List (PUnit ℚ)) (u : PUnit ℚ)
    (hu : u ∈ sampleOutState Ops.rat L t us) (hv : u.vel.isSome) (hts : u.ts.isSome) : u.ts = some t := by
  simp only [sampleOutState, List.mem_map] at hu
  obtain ⟨w, _, rfl⟩ := hu
  unfold Kin.timeSlice at hv hts ⊢
  cases hwv : w.vel with
  | none => simp [hwv] at hv
  | some v =>
    cases hwt : w.ts with
    | none => simp [hwv, hwt] at hts
    | some ts => simp

/-- non-vacuity: interval 1/2, end time 2, first sample at one interval: ticks 1/2, 1, 3/2 are before the end -/
example : samplesBeforeEnd Ops.rat (1/2) 2 false 10 0 = 3 := by decide +kernel
example : nominal (1/2) false 3 < 2 ∧ ¬ nominal (1/2) false 4 < 2 := by norm_num [nominal]

end JF.C17
