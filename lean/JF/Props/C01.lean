import JF.Props.C05
/-!
# C01 — Sampled configurations follow the Boltzmann distribution of the configured model

What a kernel-checked proof can carry here is the **algebraic core of global balance** of the lifted, factorised
event-chain process, assembled from the kernels proved elsewhere:

* events of factor `M` fire for the active unit `a` at rate `β · max 0 (q_{M,a})` (C02: the candidate distance inverts the
  accumulated uphill energy at an exponentially distributed budget; C03: `q` is the directional derivative of the factor
  energy; C04: thinning with a dominating bound realises exactly this rate);
* at an event the lifting scheme hands the motion to unit `k` with the probability `prob` whose flow identity is C05's
  `flow_balance` (cell-veto proposals: C18 `selection_probability`).

`global_balance_identity` below: for every unit `i`, summed over all factors, the probability flow into the lifted state
"`i` moves" minus the flow out of it equals `−β Σ_M q_{M,i} = −β (v · ∇_i U)`, which is exactly the transport term that the
straight-line motion of `i` contributes — the stationarity condition of `exp(−βU) ⊗ uniform(lifting variables)`.

**Not formalised (and not claimed):** that this identity implies stationarity of the Boltzmann measure for the
piecewise-deterministic process, irreducibility, and convergence of histograms. The statistical clause of the property is
probed by the run-level oracle of `harness/props/c01.py` as a search for a failing history only.
-/
namespace JF.C01
open JF JF.Lifting JF.C05

variable {K : Type} [Field K] [LinearOrder K] [IsStrictOrderedRing K] {ι : Type}

/-- event rate of factor table `tbl` for the active unit `a` at inverse temperature `β` -/
def evRate (β : K) (tbl : List (K × ι)) (a : Nat) : K := β * max 0 (rate tbl a)

/-- probability flow into the `k`-th unit of the negative list: over all active units, event rate times selection
probability of the lifting scheme -/
def inflow (β : K) (sch : Scheme) (tbl : List (K × ι)) (k : Nat) : K :=
  ∑ a ∈ Finset.range tbl.length, evRate β tbl a * prob sch tbl a k

/-- **Per-factor balance, receiving side**: the flow into a unit of non-positive derivative `−n_k` equals `β n_k`. -/
theorem inflow_eq (β : K) (sch : Scheme) (tbl : List (K × ι)) (hz : total tbl = 0) {k : Nat}
    (hk : k < (negOf tbl).length) : inflow β sch tbl k = β * nrate tbl k := by
  rw [← flow_balance sch tbl hz hk, inflow, Finset.mul_sum]
  apply Finset.sum_congr rfl
  intro a _
  unfold evRate
  split
  · next h => rw [max_eq_right h.le]; ring
  · next h => rw [max_eq_left (not_lt.mp h)]; ring

/-- how the unit under consideration appears in one factor: with positive derivative at table index `a`
(it can only lose the motion there), or as the `k`-th entry of the negative list (it can only receive it) -/
inductive Role where
  | pos (a : Nat)
  | neg (k : Nat)

structure Factor (K ι : Type) where
  tbl : List (K × ι)
  role : Role

/-- the derivative `q_{M,i}` of the factor energy for the unit under consideration -/
def Factor.deriv (f : Factor K ι) : K :=
  match f.role with
  | .pos a => rate f.tbl a
  | .neg k => - nrate f.tbl k

def Factor.WF (f : Factor K ι) : Prop :=
  total f.tbl = 0 ∧
  match f.role with
  | .pos a => 0 < rate f.tbl a
  | .neg k => k < (negOf f.tbl).length

/-- net probability flow into the lifted state "this unit moves" contributed by one factor:
a unit of positive derivative is never selected (C05 `choose_negative_of_nodup`), so it only loses flow at its own event
rate; a unit of non-positive derivative fires no event (`max 0 q = 0`) and receives `inflow` -/
def Factor.netInflow (β : K) (sch : Scheme) (f : Factor K ι) : K :=
  match f.role with
  | .pos a => - evRate β f.tbl a
  | .neg k => inflow β sch f.tbl k - β * max 0 (- nrate f.tbl k)

theorem negOf_nonneg : ∀ (l : List (K × ι)), ∀ e ∈ negOf l, (0:K) ≤ e.1
  | [], e, he => by simp [negOf] at he
  | (r, i) :: t, e, he => by
    unfold negOf at he
    split at he
    · exact negOf_nonneg t e he
    · next h =>
      rcases List.mem_cons.mp he with rfl | he'
      · show (0:K) ≤ -r
        linarith [not_lt.mp h]
      · exact negOf_nonneg t e he'

theorem nrate_nonneg (tbl : List (K × ι)) (k : Nat) : 0 ≤ nrate tbl k := by
  unfold nrate
  rw [List.getD_eq_getElem?_getD]
  cases h : ((negOf tbl).map Prod.fst)[k]? with
  | none => simp
  | some x =>
    simp only [Option.getD_some]
    have hx : x ∈ (negOf tbl).map Prod.fst := List.mem_of_getElem? h
    obtain ⟨e, he, rfl⟩ := List.mem_map.mp hx
    exact negOf_nonneg tbl e he

/-- **Per-factor balance**: net inflow = `−β q_{M,i}`, whichever sign the derivative has. -/
theorem factor_balance (β : K) (sch : Scheme) (f : Factor K ι) (hf : f.WF) :
    f.netInflow β sch = - β * f.deriv := by
  obtain ⟨hz, hr⟩ := hf
  unfold Factor.netInflow Factor.deriv
  cases hrole : f.role with
  | pos a =>
    rw [hrole] at hr
    simp only [evRate]
    rw [max_eq_right (le_of_lt hr)]; ring
  | neg k =>
    rw [hrole] at hr
    simp only []
    rw [inflow_eq β sch f.tbl hz hr, max_eq_left (by linarith [nrate_nonneg f.tbl k])]; ring

/-- **Global balance identity.** Summed over all factors the unit takes part in (any number, any mix of lifting
schemes is covered by applying this per scheme; here one scheme), the net probability flow into the lifted state equals
minus `β` times the total derivative `Σ_M q_{M,i}` — the transport term of the straight-line motion. -/
theorem global_balance_identity (β : K) (sch : Scheme) (fs : List (Factor K ι)) (h : ∀ f ∈ fs, f.WF) :
    (fs.map (Factor.netInflow β sch)).sum = - β * (fs.map Factor.deriv).sum := by
  induction fs with
  | nil => simp
  | cons f t ih =>
    simp only [List.map_cons, List.sum_cons]
    rw [factor_balance β sch f (h f (List.mem_cons_self ..)), ih (fun g hg => h g (List.mem_cons_of_mem _ hg))]
    ring

omit [IsStrictOrderedRing K] in
/-- thinning (C04) does not change the realised rate: proposing at a dominating rate `b > 0` and confirming with
probability `max 0 q / b` realises `max 0 q` -/
theorem thinned_rate (q b : K) (hb : 0 < b) : b * (max 0 q / b) = max 0 q := by
  field_simp

/-- non-vacuity: a three-unit factor (derivatives 2, −1/2, −3/2) seen from the second negative unit, and a pair factor
(1, −1) seen from its positive unit -/
example : (⟨[((2:ℚ), 0), (-1/2, 1), (-3/2, 2)], .neg 1⟩ : Factor ℚ ℕ).WF := by
  refine ⟨by norm_num [total], ?_⟩
  show 1 < (negOf [((2:ℚ), 0), (-1/2, 1), (-3/2, 2)]).length
  norm_num [negOf]
example : (⟨[((1:ℚ), 0), (-1, 1)], .pos 0⟩ : Factor ℚ ℕ).WF := by
  refine ⟨by norm_num [total], ?_⟩
  show (0:ℚ) < rate [((1:ℚ), 0), (-1, 1)] 0
  norm_num [rate]

end JF.C01
