import JF.Model.Occupancy
import JF.Lemmas.Occupancy
import JF.Lemmas.OccupancyInv
import JF.Lemmas.PyArith
import Mathlib.Tactic.FieldSimp
import Mathlib.Tactic.Positivity
/-!
# C11 — The cell-occupancy bookkeeping always mirrors the true particle positions

Model: `JF.Model.Occupancy` (`SingleActiveCellOccupancy.initialize / update / __getitem__ /
yield_surplus / yield_active_cells`, the one-direction core of `CellBoundaryEventHandler`).

The world the occupancy has to mirror is given by
* `rel : UId → Bool`   — `u` is a unit on the cell level of the global state that passes the charge filter,
* `cellOf : UId → Cell` — the cell that contains the *current* position of `u`.

`OccInv rel cellOf s` is the property statement; `init_inv` / `update_inv` / `reach_inv` show that it
holds at every leg of every history whose legs satisfy the two premises the mediator provides
(non-active units do not move; when the identity of the active unit changes, the previous active
unit is still inside its recorded cell), and that under it no error branch of `update` is taken.
The premises themselves are what `boundary_*` (exact arithmetic) and the run-level oracle address.

Scope — what is *not* proved here.  `reach_inv` is conditional on the premise `hmove` of every step.
That the mediator's legs satisfy it ("no event is committed after the crossing time while the
cell-boundary candidate is live", i.e. the scheduler returns the minimum and the cell-boundary
tagger's candidate is fresh) belongs to the system model (C09 / C19) and is not formalised in this
module; `boundary_pos` / `stays_in_cell_pos` / `boundary_neg_partial` / `stays_in_cell_neg` (the negative direction closed by the
adjacency of the recorded extents: no representable scalar between the neighbour's `cell_max` and the cell's lower edge) give the kinematic half in exact
arithmetic (the candidate time is the crossing time; before it the unit is in its cell; the event
puts it into the neighbour), for a velocity with a single non-zero component.  The tie case (another
event at exactly the crossing time that changes the active unit) and binary64 rounding of the time
slice are outside these theorems; the run-level oracle checks the premise on every leg of real runs.
-/
namespace JF.C11
open JF JF.Occ

/-!
The definitions live in `JF/Lemmas/OccupancyInv.lean`; for reference:

* `surAt s c`       the surplus list stored under cell `c` (`[]` without such a key);
* `recCount s u c`  = `count u (occupants c) + count u (surAt s c)`;
* `WF s`            unique surplus keys, no empty surplus list, `0 < cap → |occupants c| ≤ cap`;
* `OccInv rel cellOf s` (**the property**):  `WF s`;  either no active unit is recorded
  (`activeId = activeCell = none`) or `activeId = some a`, `activeCell = some (cellOf a)`, `rel a`;
  and for all `u c`:  `recCount s u c = 1` if `rel u`, `u` is not the active unit and `c = cellOf u`,
  and `= 0` otherwise.
-/

/-! ### `initialize` and `update` -/

/-- **`initialize` establishes the property** for every duplicate-free list of units, every cap. -/
theorem init_inv (cap : Int) (units : List UnitIn) (hnd : (units.map (·.id)).Nodup) :
    OccInv (relOf units) (cellOfUnits units) (Occ.init cap units) := by
  obtain ⟨hw, hr⟩ := empty_inv cap
  have := foldl_inv units (State.empty cap) (fun _ => none) hw hr rfl rfl hnd (fun _ _ => rfl)
  obtain ⟨h1, h2, h3, _, h5⟩ := this
  refine ⟨h1, Or.inl ⟨h2, h3⟩, ?_⟩
  intro u c
  have := h5 u c
  simp only [Occ.init] at this h2 ⊢
  rw [this]
  simp [h2]

/-- **`update` preserves the property** for every new active unit (relevant or not, taken from the
occupants or from the surplus, in the same or another cell, identity changed or not), and never
raises.  Premises (what the mediator guarantees between two calls): every unit other than a
*continuing* active unit is still in the cell it was in (`hmove`; for the previous active unit of a
lifting this is "it has not left its recorded cell"), and the caller passes the true relevance and
the true cell of the new active unit. -/
theorem update_inv {rel : UId → Bool} {cellOf cellOf' : UId → Cell} {s : State} (new : UnitIn)
    (h : OccInv rel cellOf s)
    (hrel : new.relevant = rel new.id) (hcell : new.cell = cellOf' new.id)
    (hmove : ∀ u, ¬(u = new.id ∧ s.activeId = some u) → cellOf' u = cellOf u) :
    ∃ s', update s new = .ok s' ∧ OccInv rel cellOf' s' := by
  unfold update
  by_cases hid : s.activeId = some new.id
  · have : (some new.id != s.activeId) = false := by simp [hid]
    simp only [this, Bool.false_eq_true, if_false]
    refine ⟨_, rfl, wf_of_fields h.wf rfl rfl rfl, ?_, ?_⟩
    · rcases h.active with ⟨ha, _⟩ | ⟨a, ha, _, hra⟩
      · rw [ha] at hid; cases hid
      · rw [ha] at hid; cases hid
        exact Or.inr ⟨new.id, ha, by simp [hcell], hra⟩
    · intro u c
      have := h.count u c
      simp only [recCount, surAt] at this ⊢
      rw [this]
      by_cases hu : u = new.id
      · subst hu; simp [hid]
      · simp only [hmove u (fun hh => hu hh.1)]
  · have : (some new.id != s.activeId) = true := by
      simp only [bne_iff_ne, ne_eq]; exact fun hh => hid hh.symm
    simp only [this, if_true]
    have hall : ∀ u, cellOf' u = cellOf u := fun u => hmove u (fun hh => hid (hh.1 ▸ hh.2))
    have hfun : cellOf' = cellOf := funext hall
    subst hfun
    obtain ⟨s1, he, hw1, hr1⟩ := reinsertOld_spec h
    rw [he]
    exact activate_inv new hw1 hr1 hrel hcell

/-! ### every leg of every history -/

/-- The legs of a run as the occupancy sees them: `initialize` on a duplicate-free list of units, then
any number of `update` calls.  Between two calls the world may change (`cellOf ↦ cellOf'`) subject to
the two premises of `update_inv`: only a *continuing* active unit changes its cell. -/
inductive Reach (rel : UId → Bool) : State → (UId → Cell) → Prop
  | init (cap : Int) (units : List UnitIn) (hnd : (units.map (·.id)).Nodup) (hrel : rel = relOf units) :
      Reach rel (Occ.init cap units) (cellOfUnits units)
  | step {s : State} {cellOf : UId → Cell} (new : UnitIn) (cellOf' : UId → Cell) (s' : State) :
      Reach rel s cellOf → new.relevant = rel new.id → new.cell = cellOf' new.id →
      (∀ u, ¬(u = new.id ∧ s.activeId = some u) → cellOf' u = cellOf u) →
      update s new = .ok s' → Reach rel s' cellOf'

/-- **Main theorem**: the property holds at every leg of every such history (any grid, any cap, any
charge filter, any sequence of new active units). -/
theorem reach_inv {rel : UId → Bool} {s : State} {cellOf : UId → Cell} (h : Reach rel s cellOf) :
    OccInv rel cellOf s := by
  induction h with
  | init cap units hnd hrel => subst hrel; exact init_inv cap units hnd
  | step new cellOf' s' _ hrel hcell hmove hupd ih =>
    obtain ⟨s'', he, hinv⟩ := update_inv new ih hrel hcell hmove
    rw [he] at hupd; cases hupd; exact hinv

/-- … and the next `update` never ends in one of the error branches. -/
theorem reach_update_ok {rel : UId → Bool} {s : State} {cellOf cellOf' : UId → Cell} (h : Reach rel s cellOf)
    (new : UnitIn) (hrel : new.relevant = rel new.id) (hcell : new.cell = cellOf' new.id)
    (hmove : ∀ u, ¬(u = new.id ∧ s.activeId = some u) → cellOf' u = cellOf u) :
    ∃ s', update s new = .ok s' :=
  let ⟨s', he, _⟩ := update_inv new (reach_inv h) hrel hcell hmove
  ⟨s', he⟩

/-! ### what the invariant says about the public answers -/

section api
variable {rel : UId → Bool} {cellOf : UId → Cell} {s : State}

/-- whoever is listed under a cell (occupant or surplus) is a relevant non-active unit whose position
is in that cell -/
theorem recorded_sound (h : OccInv rel cellOf s) {u : UId} {c : Cell} (hp : 0 < recCount s u c) :
    rel u = true ∧ s.activeId ≠ some u ∧ c = cellOf u := by
  have hcnt := h.count u c
  dsimp only at hcnt
  by_cases hc : rel u = true ∧ s.activeId ≠ some u
  · simp only [if_pos hc, Option.some.injEq] at hcnt
    by_cases hcc : cellOf u = c
    · exact ⟨hc.1, hc.2, hcc.symm⟩
    · simp only [if_neg hcc] at hcnt; omega
  · simp only [if_neg hc] at hcnt
    simp at hcnt; omega

theorem getItem_sound (h : OccInv rel cellOf s) {u : UId} {c : Cell} (hm : u ∈ getItem s c) :
    rel u = true ∧ s.activeId ≠ some u ∧ c = cellOf u := by
  apply recorded_sound h
  have : 0 < (s.occupants c).count u := List.count_pos_iff.mpr hm
  simp only [recCount]; omega

theorem surplus_sound (h : OccInv rel cellOf s) {k : Cell} {l : List UId} (hm : (k, l) ∈ s.surplus)
    {u : UId} (hu : u ∈ l) : rel u = true ∧ s.activeId ≠ some u ∧ k = cellOf u := by
  apply recorded_sound h
  have hg := Dict.get?_of_mem _ h.wf.keys_nodup hm
  have : 0 < l.count u := List.count_pos_iff.mpr hu
  simp only [recCount, surAt, hg, Option.getD_some]; omega

theorem count_yieldSurplus (h : OccInv rel cellOf s) (u : UId) :
    (yieldSurplus s).count u = (surAt s (cellOf u)).count u := by
  apply Dict.count_values _ h.wf.keys_nodup
  intro k l hm hk
  by_contra hne
  have hu : u ∈ l := List.count_pos_iff.mp (Nat.pos_of_ne_zero hne)
  exact hk (surplus_sound h hm hu).2.2

/-- every relevant non-active unit is recorded exactly once, and that under the cell containing its
position -/
theorem recorded_exactly_once (h : OccInv rel cellOf s) {u : UId} (hr : rel u = true)
    (ha : s.activeId ≠ some u) :
    (getItem s (cellOf u)).count u + (yieldSurplus s).count u = 1 ∧
    ∀ c, c ≠ cellOf u → u ∉ getItem s c := by
  constructor
  · rw [count_yieldSurplus h]
    have := h.count u (cellOf u)
    simpa [recCount, hr, ha, getItem] using this
  · intro c hc hm
    exact hc (getItem_sound h hm).2.2

/-- the active unit and irrelevant units are in no list -/
theorem not_recorded (h : OccInv rel cellOf s) {u : UId} (hn : rel u = false ∨ s.activeId = some u) :
    (∀ c, u ∉ getItem s c) ∧ u ∉ yieldSurplus s := by
  have key : ∀ c, recCount s u c = 0 := by
    intro c
    rw [h.count u c]
    rcases hn with hn | hn <;> simp [hn]
  constructor
  · intro c hm
    have : 0 < (s.occupants c).count u := List.count_pos_iff.mpr hm
    have := key c
    simp only [recCount] at this; omega
  · intro hm
    have h1 : 0 < (yieldSurplus s).count u := List.count_pos_iff.mpr hm
    rw [count_yieldSurplus h] at h1
    have := key (cellOf u)
    simp only [recCount] at this; omega

/-- the active unit is reported with the cell containing its position -/
theorem active_recorded (h : OccInv rel cellOf s) {a : UId} (ha : s.activeId = some a) :
    yieldActiveCells s = [(some (cellOf a), some a)] ∧ rel a = true := by
  rcases h.active with ⟨hn, _⟩ | ⟨a', ha', hc, hr⟩
  · rw [hn] at ha; cases ha
  · rw [ha'] at ha; cases ha
    simp [yieldActiveCells, hc, ha', hr]

/-- without a relevant active unit nothing is reported -/
theorem no_active (h : OccInv rel cellOf s) (ha : s.activeId = none) : yieldActiveCells s = [] := by
  rcases h.active with ⟨_, hc⟩ | ⟨a', ha', _, _⟩
  · simp [yieldActiveCells, hc]
  · rw [ha'] at ha; cases ha

/-- no cell lists more occupants than the limit -/
theorem cap_respected (h : OccInv rel cellOf s) (hc : 0 < s.cap) (c : Cell) :
    ((getItem s c).length : Int) ≤ s.cap := h.wf.cap hc c

end api

/-! ### non-vacuity: a concrete history through all kinds of `update` -/

/-- four units, unit 3 irrelevant, cap 1: units 0 and 1 share cell 1 (so 1 goes to the surplus) -/
def exUnits : List UnitIn := [⟨0, true, 1⟩, ⟨1, true, 1⟩, ⟨2, true, 0⟩, ⟨3, false, 2⟩]

example : OccInv (relOf exUnits) (cellOfUnits exUnits) (Occ.init 1 exUnits) :=
  init_inv 1 exUnits (by decide)

example : yieldSurplus (Occ.init 1 exUnits) = [1] ∧ getItem (Occ.init 1 exUnits) 1 = [0] := by decide

/-- the state after an `update` that does not raise -/
def upd! (s : State) (n : UnitIn) : State :=
  match update s n with
  | .ok s' => s'
  | .error _ => s

def ex0 : State := Occ.init 1 exUnits
/-- activate the surplus unit 1 (cell 1) -/
def ex1 : State := upd! ex0 ⟨1, true, 1⟩
/-- it crosses into cell 2 (same identifier) -/
def ex2 : State := upd! ex1 ⟨1, true, 2⟩
/-- lifting to unit 0 (an occupant of cell 1); unit 1 is re-inserted under its recorded cell 2 -/
def ex3 : State := upd! ex2 ⟨0, true, 1⟩
/-- lifting to the irrelevant unit 3 -/
def ex4 : State := upd! ex3 ⟨3, false, 2⟩

/-- a history through all kinds of `update` satisfies the premises of `Reach.step` -/
example : ∃ cellOf, Reach (relOf exUnits) ex4 cellOf ∧ ex4.activeId = none ∧ getItem ex4 2 = [1] ∧
    getItem ex4 1 = [0] ∧ ex2.activeCell = some 2 ∧ yieldSurplus ex1 = [] := by
  let c0 := cellOfUnits exUnits
  let c1 : UId → Cell := fun u => if u = 1 then 2 else c0 u
  have r0 : Reach (relOf exUnits) ex0 c0 := .init 1 exUnits (by decide) rfl
  have r1 : Reach (relOf exUnits) ex1 c0 :=
    .step (s := ex0) ⟨1, true, 1⟩ c0 ex1 r0 (by decide) (by decide) (fun _ _ => rfl) (by rfl)
  have r2 : Reach (relOf exUnits) ex2 c1 :=
    .step (s := ex1) ⟨1, true, 2⟩ c1 ex2 r1 (by decide) (by decide)
      (by intro u hu; simp only [c1]; split
          · rename_i h; subst h; exact absurd ⟨rfl, by decide⟩ hu
          · rfl) (by rfl)
  have r3 : Reach (relOf exUnits) ex3 c1 :=
    .step (s := ex2) ⟨0, true, 1⟩ c1 ex3 r2 (by decide) (by decide) (fun _ _ => rfl) (by rfl)
  have r4 : Reach (relOf exUnits) ex4 c1 :=
    .step (s := ex3) ⟨3, false, 2⟩ c1 ex4 r3 (by decide) (by decide) (fun _ _ => rfl) (by rfl)
  exact ⟨_, r4, by decide, by decide, by decide, by decide, by decide⟩

/-- `update_inv` applied to a concrete leg: the cell crossing `ex1 → ex2` of the active unit 1 -/
example : ∃ s', update ex1 ⟨1, true, 2⟩ = .ok s' ∧
    OccInv (relOf exUnits) (fun u => if u = 1 then 2 else cellOfUnits exUnits u) s' := by
  have r0 : Reach (relOf exUnits) ex0 (cellOfUnits exUnits) := .init 1 exUnits (by decide) rfl
  have r1 : Reach (relOf exUnits) ex1 (cellOfUnits exUnits) :=
    .step (s := ex0) ⟨1, true, 1⟩ _ ex1 r0 (by decide) (by decide) (fun _ _ => rfl) (by rfl)
  refine update_inv ⟨1, true, 2⟩ (reach_inv r1) (by decide) (by decide) ?_
  intro u hu
  split
  · rename_i h; subst h; exact absurd ⟨rfl, by decide⟩ hu
  · rfl

/-- The premise of `update_inv` is necessary: if the previous active unit has left its recorded cell
without a cell-boundary event (here unit 1, recorded in cell 2, really in cell 0) when the active
unit changes, `update` files it under the old cell and the property fails. -/
example : ¬ OccInv (relOf exUnits) (fun u => if u = 1 then 0 else cellOfUnits exUnits u) ex3 := by
  intro h
  have := h.count 1 0
  revert this
  decide

/-- the charge filter in the exact reading: a unit is relevant iff no charge is named or its charge is
non-zero -/
theorem isRelevant_rat (given : Bool) (q : ℚ) :
    isRelevant Ops.rat given q = true ↔ (given = true → q ≠ 0) := by
  cases given <;> simp [isRelevant]

/-! ### the cell-boundary event in exact arithmetic (one direction of motion)

These two theorems address the premise of `update_inv` / `Reach.step` ("the active unit is in its
recorded cell until a cell-boundary event, and then in the neighbour"): the candidate time computed by
`CellBoundaryEventHandler.send_event_time` is the exact crossing time, and `send_out_state` puts
the unit on a point that `position_to_cell` maps to the neighbour. -/


/-- **Cell-boundary event, positive direction, exact arithmetic.**  A unit at `x` inside cell `i`
moving with `v > 0`: the scheduled time is positive, strictly before it the unit is still in cell
`i`, the stored boundary is the neighbour's `cell_min`, which `position_to_cell` maps to the
neighbour `(i+1) mod n` (through the periodic boundary too), and overwriting the coordinate by the
boundary agrees with the time-sliced coordinate modulo the box length.
(`hpos` excludes the one-cell direction with the unit exactly on `0`, where the time is `0`.) -/
theorem boundary_pos (g : Grid) (i : ℕ) (hi : i < g.n) (x v bMax : ℚ)
    (hx0 : g.cmin i ≤ x) (hx1 : x < g.cmin (i + 1)) (hv : 0 < v) (hpos : i + 1 = g.n → 0 < x) :
    let r := timeToBoundary Ops.rat g.L x v (g.cmin ((i + 1) % g.n)) bMax
    0 < r.1 ∧ (∀ τ, 0 ≤ τ → τ < r.1 → g.cmin i ≤ x + v * τ ∧ x + v * τ < g.cmin (i + 1)) ∧
    r.2 = g.cmin ((i + 1) % g.n) ∧ g.idx r.2 = ((i + 1) % g.n : ℕ) ∧
    (x + v * r.1 = r.2 ∨ x + v * r.1 = r.2 + g.L) := by
  have hs := g.hside
  have hidx : g.idx (g.cmin ((i + 1) % g.n)) = ((i + 1) % g.n : ℕ) :=
    g.idx_eq (Nat.mod_lt _ g.hn) le_rfl (by simp only [Grid.cmin]; push_cast; linarith)
  have key : ∀ sep : ℚ, 0 < sep → x + sep = g.cmin (i + 1) →
      0 < sep / v ∧ (∀ τ, 0 ≤ τ → τ < sep / v → g.cmin i ≤ x + v * τ ∧ x + v * τ < g.cmin (i + 1)) ∧
      x + v * (sep / v) = x + sep := by
    intro sep hsep he
    refine ⟨div_pos hsep hv, ?_, by field_simp⟩
    intro τ h0 h1
    constructor
    · nlinarith
    · rw [lt_div_iff₀ hv] at h1; rw [← he]; linarith
  simp only [timeToBoundary, rat_ofInt, Int.cast_zero, hv, if_true]
  rcases Nat.lt_or_ge (i + 1) g.n with hlt | hge
  · rw [Nat.mod_eq_of_lt hlt] at hidx ⊢
    have hsep : 0 < g.cmin (i + 1) - x := by linarith
    have hnot : ¬ g.cmin (i + 1) - x < 0 := by linarith
    simp only [hnot, if_false]
    obtain ⟨k1, k2, k3⟩ := key _ hsep (by ring)
    exact ⟨k1, k2, trivial, hidx, Or.inl (by rw [k3]; ring)⟩
  · have hin : i + 1 = g.n := by omega
    have hmod : (i + 1) % g.n = 0 := by rw [hin]; exact Nat.mod_self _
    rw [hmod] at hidx ⊢
    have hx := hpos hin
    have hc0 : g.cmin 0 = 0 := by simp [Grid.cmin]
    have hL : g.cmin (i + 1) = g.L := by simp only [Grid.cmin, Grid.L, hin]
    simp only [hc0, zero_sub, Left.neg_neg_iff, hx, if_true]
    have hsep : 0 < -x + g.L := by rw [← hL]; linarith
    obtain ⟨k1, k2, k3⟩ := key _ hsep (by rw [hL]; ring)
    exact ⟨k1, k2, trivial, by simpa [hc0] using hidx, Or.inr (by rw [k3]; ring)⟩

/-- Consequence for a leg of the run: any event committed strictly before the scheduled cell-boundary
time finds the time-sliced coordinate `correct_position_entry(x + v τ)` (`_time_slice_unit`; `JF.pywrap`, which is
`(x + v τ) % L` in this exact reading) still in the recorded cell `i`. -/
theorem stays_in_cell_pos (g : Grid) (i : ℕ) (hi : i < g.n) (x v bMax : ℚ)
    (hx0 : g.cmin i ≤ x) (hx1 : x < g.cmin (i + 1)) (hv : 0 < v) (hpos : i + 1 = g.n → 0 < x)
    (τ : ℚ) (h0 : 0 ≤ τ)
    (h1 : τ < (timeToBoundary Ops.rat g.L x v (g.cmin ((i + 1) % g.n)) bMax).1) :
    g.idx (pywrap Ops.rat (x + v * τ) g.L) = i := by
  obtain ⟨_, hb, _⟩ := boundary_pos g i hi x v bMax hx0 hx1 hv hpos
  obtain ⟨b0, b1⟩ := hb τ h0 h1
  have hs := g.hside
  have hL : 0 < g.L := by
    have : (0 : ℚ) < g.n := by exact_mod_cast g.hn
    simp only [Grid.L]; positivity
  have hle : g.cmin (i + 1) ≤ g.L := by
    simp only [Grid.cmin, Grid.L]
    have : ((i + 1 : ℕ) : ℚ) ≤ g.n := by exact_mod_cast hi
    nlinarith
  have hnn : 0 ≤ x + v * τ := le_trans (by simp only [Grid.cmin]; positivity) b0
  have hid : pywrap Ops.rat (x + v * τ) g.L = x + v * τ := by
    rw [pywrap_rat_pos _ _ hL]
    have : ⌊(x + v * τ) / g.L⌋ = 0 := by
      rw [Int.floor_eq_iff]
      refine ⟨by simpa using div_nonneg hnn hL.le, ?_⟩
      rw [div_lt_iff₀ hL]; simp; linarith
    rw [this]; simp
  rw [hid]
  exact g.idx_eq hi b0 b1

/-- **Cell-boundary event, negative direction, exact arithmetic.**  The handler aims at the lower
neighbour's `cell_max`, for which only the constructor's post-condition is used
(`position_to_cell(cell_max) = that cell`, hypotheses `hc0 hc1`).  The scheduled time is positive, the
stored boundary is that `cell_max`, `position_to_cell` maps it to the neighbour `(i-1) mod n`
(through the periodic boundary too), the overwritten coordinate agrees with the time-sliced one
modulo the box length, and the unit is in cell `i` at least until it reaches the lower edge of its
cell, which happens strictly before the event.
`_partial`: between the lower edge of cell `i` and the neighbour's `cell_max` the exact reading has a
sliver in which the unit is already outside cell `i` before the event fires; in binary64 the two
numbers are adjacent floats (`CuboidCells.__init__` nudges them), so no representable position lies
in between — that closing step is not formalised here (the run-level oracle checks it on every leg). -/
theorem boundary_neg_partial (g : Grid) (i : ℕ) (hi : i < g.n) (hn2 : 2 ≤ g.n) (x v bMin cmaxPrev : ℚ)
    (hx0 : g.cmin i ≤ x) (hx1 : x < g.cmin (i + 1)) (hv : v < 0)
    (hc0 : g.cmin ((i + g.n - 1) % g.n) ≤ cmaxPrev) (hc1 : cmaxPrev < g.cmin ((i + g.n - 1) % g.n + 1)) :
    let r := timeToBoundary Ops.rat g.L x v bMin cmaxPrev
    0 < r.1 ∧ r.2 = cmaxPrev ∧ g.idx r.2 = ((i + g.n - 1) % g.n : ℕ) ∧
    (x + v * r.1 = r.2 ∨ x + v * r.1 = r.2 - g.L) ∧
    (∀ τ, 0 ≤ τ → τ ≤ (x - g.cmin i) / (-v) → g.idx (x + v * τ) = i) ∧
    (x - g.cmin i) / (-v) < r.1 := by
  have hs := g.hside
  have hv' : 0 < -v := by linarith
  have hnv : ¬ (0 : ℚ) < v := by linarith
  have hidx : g.idx cmaxPrev = ((i + g.n - 1) % g.n : ℕ) := g.idx_eq (Nat.mod_lt _ g.hn) hc0 hc1
  have hstay : ∀ τ, 0 ≤ τ → τ ≤ (x - g.cmin i) / (-v) → g.idx (x + v * τ) = i := by
    intro τ h0 h1
    rw [le_div_iff₀ hv'] at h1
    apply g.idx_eq hi
    · nlinarith
    · nlinarith
  have key : ∀ sep : ℚ, x - g.cmin i < sep → 0 < sep / (-v) ∧ x + v * (sep / (-v)) = x - sep ∧
      (x - g.cmin i) / (-v) < sep / (-v) := by
    intro sep hsep
    have : 0 < sep := by linarith
    refine ⟨div_pos this hv', ?_, div_lt_div_of_pos_right hsep hv'⟩
    have hne : v ≠ 0 := by linarith
    field_simp
    ring
  simp only [timeToBoundary, rat_ofInt, Int.cast_zero, hnv, if_false]
  rcases Nat.eq_zero_or_pos i with h0 | hp
  · subst h0
    have hj : (0 + g.n - 1) % g.n = g.n - 1 := by
      rw [Nat.zero_add]; exact Nat.mod_eq_of_lt (by omega)
    rw [hj] at hc0 hc1
    have hjn : g.n - 1 + 1 = g.n := by omega
    rw [hjn] at hc1
    simp only [Grid.cmin] at hc0 hc1 hx0 hx1 ⊢
    have hn1 : ((g.n - 1 : ℕ) : ℚ) = (g.n : ℚ) - 1 := by
      rw [Nat.cast_sub (by omega)]; simp
    have h2 : (2 : ℚ) ≤ g.n := by exact_mod_cast hn2
    rw [hn1] at hc0
    push_cast at hx1 hx0
    have hneg : x - cmaxPrev < 0 := by nlinarith
    simp only [hneg, if_true]
    have hL : g.L = g.n * g.side := rfl
    obtain ⟨k1, k2, k3⟩ := key (x - cmaxPrev + g.L) (by simp only [Grid.cmin]; push_cast; rw [hL]; linarith)
    refine ⟨k1, trivial, hidx, Or.inr (by rw [k2]; ring), hstay, ?_⟩
    simpa [Grid.cmin] using k3
  · have hj : (i + g.n - 1) % g.n = i - 1 := by
      have : i + g.n - 1 = (i - 1) + g.n := by omega
      rw [this, Nat.add_mod_right]; exact Nat.mod_eq_of_lt (by omega)
    rw [hj] at hc0 hc1
    have hji : i - 1 + 1 = i := by omega
    rw [hji] at hc1
    have hnot : ¬ x - cmaxPrev < 0 := by linarith
    simp only [hnot, if_false]
    obtain ⟨k1, k2, k3⟩ := key (x - cmaxPrev) (by linarith)
    exact ⟨k1, trivial, hidx, Or.inl (by rw [k2]; ring), hstay, k3⟩

/-! non-vacuity of the two boundary theorems: three cells of side 1/3, unit in the last / first cell -/

def exGrid : Grid := ⟨3, 1 / 3, by decide, by norm_num⟩

example : let r := timeToBoundary Ops.rat exGrid.L (5 / 6) 2 (exGrid.cmin ((2 + 1) % 3)) 0
    r = (1 / 12, 0) ∧ exGrid.idx r.2 = 0 := by
  have := boundary_pos exGrid 2 (by decide) (5 / 6) 2 0 (by norm_num [Grid.cmin, exGrid])
    (by norm_num [Grid.cmin, exGrid]) (by norm_num) (by intro _; norm_num)
  refine ⟨?_, this.2.2.2.1⟩
  norm_num [timeToBoundary, Grid.cmin, Grid.L, exGrid]

example : exGrid.idx (pywrap Ops.rat (5 / 6 + 2 * (1 / 24)) exGrid.L) = 2 :=
  stays_in_cell_pos exGrid 2 (by decide) (5 / 6) 2 0 (by norm_num [Grid.cmin, exGrid])
    (by norm_num [Grid.cmin, exGrid]) (by norm_num) (by intro _; norm_num) (1 / 24) (by norm_num)
    (by norm_num [timeToBoundary, Grid.cmin, Grid.L, exGrid])

example : let r := timeToBoundary Ops.rat exGrid.L (1 / 6) (-2) 0 (99 / 100)
    0 < r.1 ∧ r.2 = 99 / 100 ∧ exGrid.idx r.2 = 2 :=
  let h := boundary_neg_partial exGrid 0 (by decide) (by decide) (1 / 6) (-2) 0 (99 / 100)
    (by norm_num [Grid.cmin, exGrid]) (by norm_num [Grid.cmin, exGrid]) (by norm_num)
    (by norm_num [Grid.cmin, exGrid]) (by norm_num [Grid.cmin, exGrid])
  ⟨h.1, h.2.1, h.2.2.1⟩


/-- **Cell-boundary event, negative direction, closed by the adjacency of the recorded extents.**
`F` is the set of representable scalars (any set). `CuboidCells.__init__` nudges `cell_max` of the lower neighbour to the
scalar directly below `cell_min` of cell `i` (C16 part D, `cells_abut`: `next_up(cell_max) = cell_min`), i.e. **no representable
scalar lies strictly between them** — hypothesis `hgap` (for `i = 0` the neighbour is the last cell and the statement is
`last_cell_reaches_top`: no representable scalar in `(cell_max, L)`). Then the sliver that made `boundary_neg_partial` partial is
empty: every *representable* time-sliced coordinate `correct_position_entry(x + v τ)` observed strictly before the scheduled
cell-boundary time is still in the recorded cell `i`. -/
theorem stays_in_cell_neg (g : Grid) (i : ℕ) (hi : i < g.n) (hn2 : 2 ≤ g.n) (x v bMin cmaxPrev : ℚ)
    (hx0 : g.cmin i ≤ x) (hx1 : x < g.cmin (i + 1)) (hv : v < 0)
    (hc0 : g.cmin ((i + g.n - 1) % g.n) ≤ cmaxPrev) (hc1 : cmaxPrev < g.cmin ((i + g.n - 1) % g.n + 1))
    (F : ℚ → Prop) (hgap : ∀ y, F y → cmaxPrev < y → g.cmin ((i + g.n - 1) % g.n + 1) ≤ y)
    (τ : ℚ) (h0 : 0 ≤ τ) (h1 : τ < (timeToBoundary Ops.rat g.L x v bMin cmaxPrev).1)
    (hF : F (pywrap Ops.rat (x + v * τ) g.L)) :
    g.idx (pywrap Ops.rat (x + v * τ) g.L) = i := by
  obtain ⟨hpos, hr2, _, hland, hstay, _⟩ := boundary_neg_partial g i hi hn2 x v bMin cmaxPrev hx0 hx1 hv hc0 hc1
  set r := timeToBoundary Ops.rat g.L x v bMin cmaxPrev with hr
  have hs := g.hside
  have hn0 : (0 : ℚ) < g.n := by exact_mod_cast g.hn
  have hL : 0 < g.L := by simp only [Grid.L]; positivity
  have hxL : x < g.L := by
    have : ((i + 1 : ℕ) : ℚ) ≤ g.n := by exact_mod_cast hi
    simp only [Grid.cmin, Grid.L] at hx1 ⊢; nlinarith
  have hx00 : 0 ≤ x := le_trans (by simp only [Grid.cmin]; positivity) hx0
  -- the straight-line coordinate is strictly above where it lands at the event time
  have habove : x + v * r.1 < x + v * τ := by nlinarith
  have hlt : x + v * τ ≤ x := by nlinarith
  rcases Nat.eq_zero_or_pos i with hi0 | hip
  · -- cell 0: the neighbour is the last cell, the line crosses 0 and wraps
    subst hi0
    have hj : (0 + g.n - 1) % g.n = g.n - 1 := by rw [Nat.zero_add]; exact Nat.mod_eq_of_lt (by omega)
    have hjn : g.n - 1 + 1 = g.n := by omega
    rw [hj, hjn] at hgap hc1
    rw [hj] at hc0
    have hcp : 0 ≤ cmaxPrev := le_trans (by simp only [Grid.cmin]; positivity) hc0
    rw [hr2] at hland
    have hcL : g.cmin g.n = g.L := by simp [Grid.cmin, Grid.L]
    rw [hcL] at hgap hc1
    have hc00 : g.cmin 0 = 0 := by simp [Grid.cmin]
    by_cases hneg : x + v * τ < 0
    · -- wrapped coordinate y = x + vτ + L ∈ (cmaxPrev, L): excluded by the gap
      exfalso
      have hw : pywrap Ops.rat (x + v * τ) g.L = x + v * τ + g.L := by
        rw [pywrap_rat_pos _ _ hL]
        have : ⌊(x + v * τ) / g.L⌋ = -1 := by
          rw [Int.floor_eq_iff]
          constructor
          · rw [le_div_iff₀ hL]; push_cast
            rcases hland with h | h <;> linarith
          · rw [div_lt_iff₀ hL]; push_cast; nlinarith
        rw [this]; push_cast; ring
      rw [hw] at hF
      have hgt : cmaxPrev < x + v * τ + g.L := by
        rcases hland with h | h <;> linarith
      have := hgap _ hF hgt
      linarith
    · have hneg := not_lt.mp hneg
      have hid : pywrap Ops.rat (x + v * τ) g.L = x + v * τ := by
        rw [pywrap_rat_pos _ _ hL]
        have : ⌊(x + v * τ) / g.L⌋ = 0 := by
          rw [Int.floor_eq_iff]
          refine ⟨by simpa using div_nonneg hneg hL.le, ?_⟩
          rw [div_lt_iff₀ hL]; simp; linarith
        rw [this]; simp
      rw [hid]
      exact g.idx_eq hi (by rw [hc00]; exact hneg) (lt_of_le_of_lt hlt hx1)
  · have hj : (i + g.n - 1) % g.n = i - 1 := by
      have : i + g.n - 1 = (i - 1) + g.n := by omega
      rw [this, Nat.add_mod_right]; exact Nat.mod_eq_of_lt (by omega)
    have hji : i - 1 + 1 = i := by omega
    rw [hj] at hc0; rw [hj, hji] at hc1 hgap
    have hcp : 0 ≤ cmaxPrev := le_trans (by simp only [Grid.cmin]; positivity) hc0
    -- no wrap here: the landing point is cmaxPrev ≥ 0 itself
    have hland' : x + v * r.1 = cmaxPrev := by
      rcases hland with h | h
      · rw [hr2] at h; exact h
      · exfalso
        -- landing at cmaxPrev - L would need the wrapped branch, impossible since x - cmaxPrev ≥ 0
        have hnv : ¬ (0 : ℚ) < v := by linarith
        have hnot : ¬ x - cmaxPrev < 0 := by linarith
        have hr1 : r.1 = (x - cmaxPrev) / (-v) := by
          simp only [hr, timeToBoundary, rat_ofInt, Int.cast_zero, hnv, if_false, hnot]
        rw [hr2] at h
        have hne : v ≠ 0 := by linarith
        rw [hr1] at h
        have : x + v * ((x - cmaxPrev) / -v) = cmaxPrev := by field_simp; ring
        linarith
    have hnn : 0 ≤ x + v * τ := by linarith
    have hid : pywrap Ops.rat (x + v * τ) g.L = x + v * τ := by
      rw [pywrap_rat_pos _ _ hL]
      have : ⌊(x + v * τ) / g.L⌋ = 0 := by
        rw [Int.floor_eq_iff]
        refine ⟨by simpa using div_nonneg hnn hL.le, ?_⟩
        rw [div_lt_iff₀ hL]; simp; linarith
      rw [this]; simp
    rw [hid] at hF ⊢
    have hge := hgap _ hF (by linarith)
    exact g.idx_eq hi hge (lt_of_le_of_lt hlt hx1)


/-- non-vacuity of `stays_in_cell_neg`: three cells of side 1/3, unit in cell 0 moving down, scalars = hundredths; the last cell's
`cell_max` is 99/100 and no hundredth lies in (99/100, 1) -/
example : exGrid.idx (pywrap Ops.rat (1 / 10 + (-2) * (1 / 50)) exGrid.L) = 0 :=
  stays_in_cell_neg exGrid 0 (by decide) (by decide) (1 / 10) (-2) 0 (99 / 100)
    (by norm_num [Grid.cmin, exGrid]) (by norm_num [Grid.cmin, exGrid]) (by norm_num)
    (by norm_num [Grid.cmin, exGrid]) (by norm_num [Grid.cmin, exGrid])
    (fun y => ∃ k : ℤ, y = k / 100)
    (by
      rintro y ⟨k, rfl⟩ h
      have h' : (99 : ℚ) < k := by linarith
      have : (100 : ℤ) ≤ k := by exact_mod_cast (by exact_mod_cast h' : (99 : ℤ) < k)
      have : (100 : ℚ) ≤ k := by exact_mod_cast this
      norm_num [Grid.cmin, exGrid]; linarith)
    (1 / 50) (by norm_num) (by norm_num [timeToBoundary, Grid.L, exGrid])
    ⟨6, by norm_num [pywrap_rat_pos, Grid.L, exGrid]⟩

end JF.C11
