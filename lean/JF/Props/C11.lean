import JF.Model.Occupancy
import Mathlib.Data.List.Basic
/-!
# C11 — The cell-occupancy bookkeeping always mirrors the true particle positions
-/
namespace JF.C11
open JF JF.Occ

/-- a fresh object records nothing -/
theorem empty_getItem (cap : Int) (c : Cell) : getItem (State.empty cap) c = [] := rfl

end JF.C11
