import JF.Lemmas.C01Generator
import JF.Lemmas.C01GeneratorCircle
import JF.Lemmas.C01GeneratorTorus
/-!
# C01 — from the balance identity to stationarity of `exp(−βU) ⊗ uniform` in the generator sense

`JF/Props/C01.lean` proves `global_balance_identity` (per unit, summed over the factors: probability inflow into the lifted
state minus outflow `= −β Σ_M q_{M,i}`) and says that the step to stationarity is not formalised. This file formalises the
*infinitesimal* part of that step.

**Setting.** Abstract configuration space `X`; lifting variable `k : Fin n` (the active unit, one direction of motion);
test functions `f : X → Fin n → ℝ`; factors `M : F` (a finite type) with energies `UM M`, `U = Σ_M UM M`; a `Calculus X n`
(below): derivations `D k` ("`∂/∂x_k` along the direction of motion"), additive and homogeneous on a submodule `S` of
differentiable functions, and an integral `I`, additive and homogeneous on a submodule `V` of integrable functions
(Mathlib's integrals and derivatives are total functions that are linear only on such domains, so the domains are part of
the structure; `Calculus.ofLinear` is the special case `S = V = ⊤` of honest linear maps, as in the task statement).

**Generator** of the lifted, factorised event-chain process (`gen`):
`(L f)(x, k) = (D k f(·,k))(x) + Σ_M β · max 0 (q M x k) · Σ_j P_M x k j · (f x j − f x k)`,
`q M x k` the derivative of the energy of factor `M` when unit `k` moves (C03), `P_M x k j = liftP (sch M) (q M x) k j` the
probability that the lifting scheme of factor `M` (any of the three of C05, a different one per factor if wanted) hands the
motion from `k` to `j`.

**Connection to the modelled schemes** (`JF/Lemmas/C01Generator.lean` and below): the table at `x` is
`tableOf (q M x) = [(q M x 0, 0), …]`; for a unit `j` of non-positive derivative `liftP` is `C05.prob` at the index
`negIdxOf` of `j` in C05's negative list (`liftP_eq_prob`, `negOf_tableOf_getElem`: that entry carries identifier `j`);
`choose_returns_unit_iff`: the model of `get_active_identifier` returns `j` iff it selects that index;
`liftP_is_selection_probability`: `liftP` is the Lebesgue measure of the set of uniform draws for which it does; a unit of
positive derivative is never returned (`choose_never_returns_positive`) and has `liftP = 0`.

**Theorems.**
* `boltzmann_stationary_generator`: (H1) `U = Σ_M UM M`, `q M x k = (D k (UM M)) x`; (H2) `Σ_k q M x k = 0` for every factor
  and configuration (C05's `total tbl = 0`); (H3) integration by parts
  `I (e^{−βU} · D k g) = β · I (e^{−βU} · g · D k U)` for `g ∈ S`; then for every `f` in the domain
  (`f(·,k) ∈ S`, the three integrands in `V`): `Σ_k I (fun x => exp (−β U x) * (L f) x k) = 0`.
  Proof: linearity of `I`, (H3), and pointwise `jump_balance` which is C01's `factor_balance` / `global_balance_identity`
  (C05's `flow_balance`) plus `prob_row_sum` (the lifting probabilities of an active unit sum to one — new here).
  No Leibniz rule is needed for this; `ibp_of_leibniz` shows that (H3) itself follows from the Leibniz rule, the chain rule
  for the weight and `I (D k h) = 0` (no boundary on a torus).
* `boltzmann_stationary_generator_linear`: the same for honest linear maps `D k`, `I` on all functions (no domain
  hypotheses).
* `genThinned_eq`, `boltzmann_stationary_generator_thinned`: proposing at a bounding rate `b > 0` and confirming with
  probability `β max 0 q / b` (C04; `C01.thinned_rate`) gives the same generator, hence the same theorem;
  `confirm_prob_mem`: under domination `β max 0 q ≤ b` that ratio is a probability.
* **(H3) discharged in two concrete instances.** (a) `Circle`: two point masses on a circle of length `L`, reduced to the
  separation coordinate `s = x₂ − x₁ ∈ ℝ/L` (the centre of mass decouples for a translation-invariant pair energy: when unit
  0 moves `ds/dt = −1`, when unit 1 moves `ds/dt = +1`, so `D k g = sgn k · g'`, `sgn = (−1, +1)`); test functions `C¹` and
  `L`-periodic; `I` = `∫_0^L` (`intervalIntegral`); integration by parts with vanishing boundary term from periodicity
  (`periodic_boltzmann_ibp`). `circle_pair_stationary`: every `C¹` periodic pair energy, every scheme;
  `cosine_pair_stationary`: `U(s) = 1 − cos(2π s / L)`. `gen_circle_pair`: there the generator is the familiar
  `sgn k · ∂_s f(s,k) + β max 0 (sgn k · U'(s)) (f(s, other) − f(s, k))`.
  (b) `Torus`: the two-variable version, no reduction: `X = ℝ × ℝ` (both positions), `D k = ∂/∂x_k`, test functions `C¹`
  and `L`-periodic in each position, `I = ∫_0^L ∫_0^L` (iterated `intervalIntegral`); integration by parts in `x₂` on the
  inner integral, in `x₁` after swapping the order of integration (Fubini for continuous functions on the box).
  `torus_pair_stationary`: every `C¹` periodic translation-invariant pair energy (`∂₁U + ∂₂U = 0`, which is (H2));
  `torus_separation_energy_stationary`: `U = u(x₂ − x₁)`; `torus_cosine_stationary`: `1 − cos(2π (x₂ − x₁)/L)`;
  `gen_torus_pair`: the generator in closed form.

**What this does NOT give** (nothing of it is claimed): that the generator `L` with this domain generates a semigroup, that
the piecewise-deterministic process of the implementation is the process of that semigroup, the global-in-time statement
`∫ P_t f dμ = ∫ f dμ` (it needs a core for the generator — a domain question), irreducibility / ergodicity, convergence of
histograms, anything about floating point or about several directions of motion and their resampling. `I` and `D` are
abstract except in the `Circle` and `Torus` instances (two units, one pair factor).
-/
namespace JF.C01Generator
open JF JF.Lifting JF.C05 JF.C01 Real

/-! ### abstract calculus: derivations and an integral, each linear on its domain -/

/-- derivations `D k` (one per unit) and an integral `I` on functions `X → ℝ`, each with the submodule on which it is
linear -/
structure Calculus (X : Type) (n : Nat) where
  /-- differentiable functions -/
  S : Submodule ℝ (X → ℝ)
  D : Fin n → (X → ℝ) → (X → ℝ)
  D_add : ∀ k {f g}, f ∈ S → g ∈ S → D k (f + g) = D k f + D k g
  D_smul : ∀ k (c : ℝ) {f}, f ∈ S → D k (c • f) = c • D k f
  /-- integrable functions -/
  V : Submodule ℝ (X → ℝ)
  I : (X → ℝ) → ℝ
  I_add : ∀ {f g}, f ∈ V → g ∈ V → I (f + g) = I f + I g
  I_smul : ∀ (c : ℝ) {f}, f ∈ V → I (c • f) = c * I f

namespace Calculus
variable {X : Type} {n : Nat} (C : Calculus X n)

theorem I_zero : C.I 0 = 0 := by
  have := C.I_smul 0 C.V.zero_mem
  simpa using this

theorem D_zero (k : Fin n) : C.D k 0 = 0 := by
  have := C.D_smul k 0 C.S.zero_mem
  simpa using this

theorem I_sum {κ : Type} (s : Finset κ) (g : κ → X → ℝ) (hg : ∀ k ∈ s, g k ∈ C.V) :
    C.I (∑ k ∈ s, g k) = ∑ k ∈ s, C.I (g k) := by
  classical
  induction s using Finset.induction_on with
  | empty => simpa using C.I_zero
  | insert a s ha ih =>
    rw [Finset.sum_insert ha, Finset.sum_insert ha,
      C.I_add (hg a (Finset.mem_insert_self a s))
        (C.V.sum_mem fun k hk => hg k (Finset.mem_insert_of_mem hk)),
      ih fun k hk => hg k (Finset.mem_insert_of_mem hk)]

theorem D_sum {κ : Type} (k : Fin n) (s : Finset κ) (g : κ → X → ℝ) (hg : ∀ a ∈ s, g a ∈ C.S) :
    C.D k (∑ a ∈ s, g a) = ∑ a ∈ s, C.D k (g a) := by
  classical
  induction s using Finset.induction_on with
  | empty => simpa using C.D_zero k
  | insert a s ha ih =>
    rw [Finset.sum_insert ha, Finset.sum_insert ha,
      C.D_add k (hg a (Finset.mem_insert_self a s))
        (C.S.sum_mem fun b hb => hg b (Finset.mem_insert_of_mem hb)),
      ih fun b hb => hg b (Finset.mem_insert_of_mem hb)]

/-- honest linear maps on all functions are a `Calculus` with `S = V = ⊤` -/
def ofLinear (D : Fin n → (X → ℝ) →ₗ[ℝ] (X → ℝ)) (I : (X → ℝ) →ₗ[ℝ] ℝ) : Calculus X n where
  S := ⊤
  D k := D k
  D_add k _ _ _ _ := map_add (D k) _ _
  D_smul k c _ _ := map_smul (D k) c _
  V := ⊤
  I := I
  I_add _ _ := map_add I _ _
  I_smul c _ _ := by rw [map_smul, smul_eq_mul]

end Calculus

/-! ### the generator -/

variable {X F : Type} [Fintype F] {n : Nat}

/-- jump part of the generator: factor `M` fires for the active unit `k` at rate `β max 0 (q M x k)` (C02–C04) and its
lifting scheme hands the motion to `j` with probability `liftP (sch M) (q M x) k j` (C05) -/
noncomputable def jumpPart (β : ℝ) (sch : F → Scheme) (q : F → X → Fin n → ℝ) (f : X → Fin n → ℝ) (x : X) (k : Fin n) : ℝ :=
  ∑ M, β * max 0 (q M x k) * ∑ j, liftP (sch M) (q M x) k j * (f x j - f x k)

/-- **generator of the lifted, factorised event-chain process** (one direction of motion): transport of the active unit
plus the jump part -/
noncomputable def gen (D : Fin n → (X → ℝ) → (X → ℝ)) (β : ℝ) (sch : F → Scheme) (q : F → X → Fin n → ℝ)
    (f : X → Fin n → ℝ) (x : X) (k : Fin n) : ℝ :=
  D k (fun y => f y k) x + jumpPart β sch q f x k

/-- the same with thinning (C04): events of factor `M` are proposed at the bounding rate `b M x k` and confirmed with
probability `β max 0 (q M x k) / b M x k` -/
noncomputable def genThinned (D : Fin n → (X → ℝ) → (X → ℝ)) (β : ℝ) (sch : F → Scheme) (q b : F → X → Fin n → ℝ)
    (f : X → Fin n → ℝ) (x : X) (k : Fin n) : ℝ :=
  D k (fun y => f y k) x +
    ∑ M, b M x k * (β * max 0 (q M x k) / b M x k) * ∑ j, liftP (sch M) (q M x) k j * (f x j - f x k)

/-- **Thinning does not change the generator** (`C01.thinned_rate`). -/
theorem genThinned_eq (D : Fin n → (X → ℝ) → (X → ℝ)) (β : ℝ) (sch : F → Scheme) (q b : F → X → Fin n → ℝ)
    (hb : ∀ M x k, 0 < b M x k) : genThinned D β sch q b = gen D β sch q := by
  funext f x k
  unfold genThinned gen jumpPart
  congr 1
  apply Finset.sum_congr rfl
  intro M _
  have h := thinned_rate (q M x k) (b M x k) (hb M x k)
  have e : b M x k * (β * max 0 (q M x k) / b M x k) = β * (b M x k * (max 0 (q M x k) / b M x k)) := by ring
  rw [e, h]

/-- under domination (C04's `Dominates`) the confirmation ratio is a probability -/
theorem confirm_prob_mem (β q b : ℝ) (hβ : 0 ≤ β) (hb : 0 < b) (hdom : β * max 0 q ≤ b) :
    0 ≤ β * max 0 q / b ∧ β * max 0 q / b ≤ 1 :=
  ⟨div_nonneg (mul_nonneg hβ (le_max_left _ _)) hb.le, (div_le_one hb).mpr hdom⟩

/-! ### stationarity -/

/-- **Infinitesimal stationarity of `exp(−βU) ⊗ uniform(lifting variable)`.**
(H1) `hUS hU hq`, (H2) `hz`, (H3) `hibp`; `hfS hV1 hV2 hV3` say that `f` is in the domain (differentiable slices,
integrable integrands). -/
theorem boltzmann_stationary_generator (C : Calculus X n) (β : ℝ) (sch : F → Scheme)
    (UM : F → X → ℝ) (U : X → ℝ) (q : F → X → Fin n → ℝ)
    (hUS : ∀ M, UM M ∈ C.S) (hU : U = ∑ M, UM M) (hq : ∀ M x k, q M x k = C.D k (UM M) x)
    (hz : ∀ M x, ∑ k, q M x k = 0)
    (hibp : ∀ k g, g ∈ C.S →
      C.I (fun x => exp (-β * U x) * C.D k g x) = β * C.I (fun x => exp (-β * U x) * g x * C.D k U x))
    (f : X → Fin n → ℝ) (hfS : ∀ k, (fun x => f x k) ∈ C.S)
    (hV1 : ∀ k, (fun x => exp (-β * U x) * C.D k (fun y => f y k) x) ∈ C.V)
    (hV2 : ∀ k, (fun x => exp (-β * U x) * f x k * C.D k U x) ∈ C.V)
    (hV3 : ∀ k, (fun x => exp (-β * U x) * jumpPart β sch q f x k) ∈ C.V) :
    ∑ k, C.I (fun x => exp (-β * U x) * gen C.D β sch q f x k) = 0 := by
  have hDU : ∀ k x, C.D k U x = ∑ M, q M x k := by
    intro k x
    rw [hU, C.D_sum k Finset.univ UM (fun M _ => hUS M), Finset.sum_apply]
    exact Finset.sum_congr rfl (fun M _ => (hq M x k).symm)
  have hsplit : ∀ k, (fun x => exp (-β * U x) * gen C.D β sch q f x k) =
      (fun x => exp (-β * U x) * C.D k (fun y => f y k) x) + (fun x => exp (-β * U x) * jumpPart β sch q f x k) := by
    intro k; funext x; simp only [gen, Pi.add_apply]; ring
  have h1 : ∀ k, C.I (fun x => exp (-β * U x) * gen C.D β sch q f x k) =
      C.I (β • (fun x => exp (-β * U x) * f x k * C.D k U x) + (fun x => exp (-β * U x) * jumpPart β sch q f x k)) := by
    intro k
    rw [hsplit k, C.I_add (hV1 k) (hV3 k), hibp k _ (hfS k), C.I_add (C.V.smul_mem β (hV2 k)) (hV3 k),
      C.I_smul β (hV2 k)]
  rw [Finset.sum_congr rfl (fun k _ => h1 k),
    ← C.I_sum Finset.univ _ (fun k _ => C.V.add_mem (C.V.smul_mem β (hV2 k)) (hV3 k))]
  have hzero : (∑ k, (β • (fun x => exp (-β * U x) * f x k * C.D k U x) +
      fun x => exp (-β * U x) * jumpPart β sch q f x k)) = 0 := by
    funext x
    simp only [Finset.sum_apply, Pi.add_apply, Pi.smul_apply, smul_eq_mul, Pi.zero_apply]
    have hj : ∑ k, jumpPart β sch q f x k = -β * ∑ k, f x k * ∑ M, q M x k :=
      jump_balance β sch (fun M => q M x) (fun M => hz M x) (f x)
    have e : ∀ k, β * (exp (-β * U x) * f x k * C.D k U x) + exp (-β * U x) * jumpPart β sch q f x k =
        exp (-β * U x) * β * (f x k * ∑ M, q M x k) + exp (-β * U x) * jumpPart β sch q f x k := by
      intro k; rw [hDU]; ring
    rw [Finset.sum_congr rfl (fun k _ => e k), Finset.sum_add_distrib, ← Finset.mul_sum, ← Finset.mul_sum, hj]
    ring
  rw [hzero, C.I_zero]

/-- the same for the thinned process -/
theorem boltzmann_stationary_generator_thinned (C : Calculus X n) (β : ℝ) (sch : F → Scheme)
    (UM : F → X → ℝ) (U : X → ℝ) (q b : F → X → Fin n → ℝ) (hb : ∀ M x k, 0 < b M x k)
    (hUS : ∀ M, UM M ∈ C.S) (hU : U = ∑ M, UM M) (hq : ∀ M x k, q M x k = C.D k (UM M) x)
    (hz : ∀ M x, ∑ k, q M x k = 0)
    (hibp : ∀ k g, g ∈ C.S →
      C.I (fun x => exp (-β * U x) * C.D k g x) = β * C.I (fun x => exp (-β * U x) * g x * C.D k U x))
    (f : X → Fin n → ℝ) (hfS : ∀ k, (fun x => f x k) ∈ C.S)
    (hV1 : ∀ k, (fun x => exp (-β * U x) * C.D k (fun y => f y k) x) ∈ C.V)
    (hV2 : ∀ k, (fun x => exp (-β * U x) * f x k * C.D k U x) ∈ C.V)
    (hV3 : ∀ k, (fun x => exp (-β * U x) * jumpPart β sch q f x k) ∈ C.V) :
    ∑ k, C.I (fun x => exp (-β * U x) * genThinned C.D β sch q b f x k) = 0 := by
  rw [genThinned_eq C.D β sch q b hb]
  exact boltzmann_stationary_generator C β sch UM U q hUS hU hq hz hibp f hfS hV1 hV2 hV3

/-- **The statement for honest linear maps** (`D k` linear on all functions, `I` a linear functional): no domain
hypotheses are left. -/
theorem boltzmann_stationary_generator_linear (D : Fin n → (X → ℝ) →ₗ[ℝ] (X → ℝ)) (I : (X → ℝ) →ₗ[ℝ] ℝ)
    (β : ℝ) (sch : F → Scheme) (UM : F → X → ℝ) (U : X → ℝ) (q : F → X → Fin n → ℝ)
    (hU : U = ∑ M, UM M) (hq : ∀ M x k, q M x k = D k (UM M) x)
    (hz : ∀ M x, ∑ k, q M x k = 0)
    (hibp : ∀ k g, I (fun x => exp (-β * U x) * D k g x) = β * I (fun x => exp (-β * U x) * g x * D k U x))
    (f : X → Fin n → ℝ) :
    ∑ k, I (fun x => exp (-β * U x) * gen (fun k => D k) β sch q f x k) = 0 :=
  boltzmann_stationary_generator (Calculus.ofLinear D I) β sch UM U q (fun _ => Submodule.mem_top) hU hq hz
    (fun k g _ => hibp k g) f (fun _ => Submodule.mem_top) (fun _ => Submodule.mem_top)
    (fun _ => Submodule.mem_top) (fun _ => Submodule.mem_top)

/-- **Where (H3) comes from**: the Leibniz rule for the product with the weight, the chain rule
`D k e^{−βU} = −β e^{−βU} D k U`, and `I (D k h) = 0` (periodic box: no boundary term) give integration by parts. -/
theorem ibp_of_leibniz (C : Calculus X n) (β : ℝ) (U : X → ℝ) (k : Fin n) (g : X → ℝ)
    (hleib : C.D k (fun x => exp (-β * U x) * g x) =
      fun x => exp (-β * U x) * C.D k g x + g x * C.D k (fun y => exp (-β * U y)) x)
    (hchain : C.D k (fun y => exp (-β * U y)) = fun x => -β * (exp (-β * U x) * C.D k U x))
    (hper : C.I (C.D k (fun x => exp (-β * U x) * g x)) = 0)
    (h1 : (fun x => exp (-β * U x) * C.D k g x) ∈ C.V)
    (h2 : (fun x => exp (-β * U x) * g x * C.D k U x) ∈ C.V) :
    C.I (fun x => exp (-β * U x) * C.D k g x) = β * C.I (fun x => exp (-β * U x) * g x * C.D k U x) := by
  have e : C.D k (fun x => exp (-β * U x) * g x) =
      (fun x => exp (-β * U x) * C.D k g x) + (-β) • (fun x => exp (-β * U x) * g x * C.D k U x) := by
    rw [hleib, hchain]; funext x; simp only [Pi.add_apply, Pi.smul_apply, smul_eq_mul]; ring
  rw [e, C.I_add h1 (C.V.smul_mem _ h2), C.I_smul _ h2] at hper
  linarith

/-! ### connection of `liftP` to the modelled schemes of C05 -/

section connection
variable (o : Ops ℝ) (h0 : o.ofInt 0 = 0)
include h0

/-- the model of `get_active_identifier` (after the insertion loop over the table at this configuration) returns unit `j`
iff the scheme selects `j`'s index of the negative list -/
theorem choose_returns_unit_iff (sch : Scheme) (q : Fin n → ℝ) (hz : ∑ k, q k = 0) {k j : Fin n} (hk : 0 < q k)
    (hj : ¬ 0 < q j) {u u2 : ℝ} (hd : DrawOK sch u u2) :
    choose o sch (tableOf q) k u u2 = .ok j ↔ chooseIdx o sch (tableOf q) k u u2 = .ok (negIdxOf q j) := by
  obtain ⟨hlt, he⟩ := negOf_tableOf_getElem q hj
  have := choose_ok_iff o h0 (valid_tableOf q hz hk) sch hd (tableOf_ids_nodup q) hlt
  rwa [he] at this

/-- a unit of positive derivative is never returned -/
theorem choose_never_returns_positive (sch : Scheme) (q : Fin n → ℝ) (hz : ∑ k, q k = 0) {k j : Fin n} (hk : 0 < q k)
    (hj : 0 < q j) {u u2 : ℝ} (hd : DrawOK sch u u2) : choose o sch (tableOf q) k u u2 ≠ .ok j := by
  intro h
  have := choose_negative_of_nodup o h0 (valid_tableOf q hz hk) sch hd (tableOf_ids_nodup q) h (q j)
    (by rw [← tableOf_getElem q j]; exact List.getElem_mem _)
  linarith

/-- **`liftP` is the probability that the modelled scheme hands the motion from `k` to `j`**: the Lebesgue measure of the
set of uniform draws for which it selects `j` -/
theorem liftP_is_selection_probability (sch : Scheme) (q : Fin n → ℝ) (hz : ∑ k, q k = 0) {k j : Fin n} (hk : 0 < q k)
    (hj : ¬ 0 < q j) (w : ℝ) :
    MeasureTheory.volume (selSet o sch (tableOf q) k (negIdxOf q j) w) = ENNReal.ofReal (liftP sch q k j) := by
  rw [liftP_eq_prob sch q k hj]
  exact selection_measure o h0 (valid_tableOf q hz hk) sch w (negOf_tableOf_getElem q hj).1

/-- non-vacuity of the section's parameters: an `Ops ℝ` whose literal zero is `0` (C05 gives the same witness) -/
noncomputable example : {o : Ops ℝ // o.ofInt 0 = 0} :=
  ⟨⟨fun n => n, fun x => x, fun x _ => x, fun _ => 0, fun _ => false, fun _ => 0, fun x => x⟩, by simp⟩

end connection

/-! ### one pair factor -/

/-- the jump part for one pair factor (two units): whatever the scheme, the active unit hands the motion to the other
one, at rate `β max 0 (q k)` -/
theorem jumpPart_pair_factor {X : Type} (β : ℝ) (sch : Scheme) (q : Unit → X → Fin 2 → ℝ)
    (hz : ∀ M x, ∑ k, q M x k = 0) (f : X → Fin 2 → ℝ) (x : X) (k : Fin 2) :
    jumpPart β (fun _ : Unit => sch) q f x k = β * max 0 (q () x k) * (f x k.rev - f x k) := by
  unfold jumpPart
  rw [Finset.univ_unique, Finset.sum_singleton, mul_assoc,
    pair_jump sch (q default x) (hz default x) (f x) k, mul_assoc]

/-! ### concrete instance: two point masses on a circle, separation coordinate -/

namespace Circle
open intervalIntegral

/-- `ds/dt` of the separation `s = x₂ − x₁` when unit `k` moves with velocity `+1` -/
def sgn : Fin 2 → ℝ := ![-1, 1]

/-- `C¹` `L`-periodic functions of the separation, `D k g = sgn k · g'`, `I = ∫_0^L` on continuous functions -/
noncomputable def circleCalculus (L : ℝ) : Calculus ℝ 2 where
  S := { carrier := {g | Smooth L g}
         add_mem' := fun hf hg => Smooth.add hf hg
         zero_mem' := Smooth.zero L
         smul_mem' := fun c _ hg => Smooth.smul c hg }
  D k g := fun s => sgn k * deriv g s
  D_add k f g hf hg := by
    funext s
    have := congrFun (Smooth.deriv_add hf hg) s
    simp only [Pi.add_apply] at this ⊢
    rw [this]; ring
  D_smul k c f hf := by
    funext s
    have := congrFun (Smooth.deriv_smul c hf) s
    simp only [Pi.smul_apply, smul_eq_mul] at this ⊢
    rw [this]; ring
  V := { carrier := {h | Continuous h}
         add_mem' := fun hf hg => Continuous.add hf hg
         zero_mem' := continuous_const
         smul_mem' := fun c _ hg => Continuous.const_smul hg c }
  I h := ∫ s in (0:ℝ)..L, h s
  I_add {f g} hf hg := by
    simp only [Pi.add_apply]
    exact integral_add (Continuous.intervalIntegrable hf _ _) (Continuous.intervalIntegrable hg _ _)
  I_smul c f _ := by
    simp only [Pi.smul_apply, smul_eq_mul]
    exact integral_const_mul c _

/-- derivative of the pair energy `U(s)` when unit `k` moves -/
noncomputable def pairQ (U : ℝ → ℝ) : Unit → ℝ → Fin 2 → ℝ := fun _ s k => sgn k * deriv U s

theorem pairQ_sum_zero (U : ℝ → ℝ) (M : Unit) (s : ℝ) : ∑ k, pairQ U M s k = 0 := by
  simp [pairQ, sgn, Fin.sum_univ_two]

/-- the jump part for the pair: the active unit hands the motion to the other one -/
theorem jumpPart_pair (β : ℝ) (sch : Scheme) (U : ℝ → ℝ) (f : ℝ → Fin 2 → ℝ) (s : ℝ) (k : Fin 2) :
    jumpPart β (fun _ : Unit => sch) (pairQ U) f s k = β * max 0 (sgn k * deriv U s) * (f s k.rev - f s k) :=
  jumpPart_pair_factor β sch (pairQ U) (pairQ_sum_zero U) f s k

/-- **the generator of the pair on the circle in closed form** -/
theorem gen_circle_pair (L β : ℝ) (sch : Scheme) (U : ℝ → ℝ) (f : ℝ → Fin 2 → ℝ) (s : ℝ) (k : Fin 2) :
    gen (circleCalculus L).D β (fun _ : Unit => sch) (pairQ U) f s k =
      sgn k * deriv (fun y => f y k) s + β * max 0 (sgn k * deriv U s) * (f s k.rev - f s k) := by
  unfold gen
  rw [jumpPart_pair]
  rfl

/-- (H3) on the circle -/
theorem circle_ibp (L β : ℝ) {U : ℝ → ℝ} (hU : Smooth L U) (k : Fin 2) {g : ℝ → ℝ} (hg : Smooth L g) :
    (circleCalculus L).I (fun s => exp (-β * U s) * (circleCalculus L).D k g s) =
      β * (circleCalculus L).I (fun s => exp (-β * U s) * g s * (circleCalculus L).D k U s) := by
  show ∫ s in (0:ℝ)..L, exp (-β * U s) * (sgn k * deriv g s) =
    β * ∫ s in (0:ℝ)..L, exp (-β * U s) * g s * (sgn k * deriv U s)
  have h := periodic_boltzmann_ibp L β hU hg
  have e1 : ∫ s in (0:ℝ)..L, exp (-β * U s) * (sgn k * deriv g s) =
      sgn k * ∫ s in (0:ℝ)..L, exp (-β * U s) * deriv g s := by
    rw [← integral_const_mul]; apply integral_congr; intro s _; ring
  have e2 : ∫ s in (0:ℝ)..L, exp (-β * U s) * g s * (sgn k * deriv U s) =
      sgn k * ∫ s in (0:ℝ)..L, exp (-β * U s) * g s * deriv U s := by
    rw [← integral_const_mul]; apply integral_congr; intro s _; ring
  rw [e1, e2, h]; ring

/-- **Stationarity for two point masses on a circle** (separation coordinate): every `C¹` `L`-periodic pair energy `U`,
every inverse temperature, each of the three lifting schemes, every pair of `C¹` `L`-periodic test functions:
`Σ_k ∫_0^L e^{−βU(s)} (L f)(s, k) ds = 0`. All hypotheses of `boltzmann_stationary_generator` are discharged. -/
theorem circle_pair_stationary (L β : ℝ) (sch : Scheme) {U : ℝ → ℝ} (hU : Smooth L U)
    (f : ℝ → Fin 2 → ℝ) (hf : ∀ k, Smooth L (fun s => f s k)) :
    ∑ k, ∫ s in (0:ℝ)..L,
      exp (-β * U s) * gen (circleCalculus L).D β (fun _ : Unit => sch) (pairQ U) f s k = 0 := by
  have hcU := hU.continuous
  have hcU' := hU.continuous_deriv
  refine boltzmann_stationary_generator (circleCalculus L) β (fun _ : Unit => sch) (fun _ => U) U (pairQ U)
    (fun _ => hU) (by simp) (fun _ _ _ => rfl) (pairQ_sum_zero U)
    (fun k g hg => circle_ibp L β hU k hg) f hf ?_ ?_ ?_
  · intro k
    show Continuous fun s => exp (-β * U s) * (sgn k * deriv (fun y => f y k) s)
    have := (hf k).continuous_deriv
    fun_prop
  · intro k
    show Continuous fun s => exp (-β * U s) * f s k * (sgn k * deriv U s)
    have := (hf k).continuous
    fun_prop
  · intro k
    show Continuous fun s => exp (-β * U s) * jumpPart β (fun _ : Unit => sch) (pairQ U) f s k
    simp only [jumpPart_pair]
    have h1 := (hf k).continuous
    have h2 := (hf k.rev).continuous
    have h3 : Continuous fun s => max 0 (sgn k * deriv U s) := continuous_const.max (by fun_prop)
    fun_prop

/-- the thinned process on the circle: bounding rate `β max 0 q + 1` (positive and dominating for `β ≥ 0`); non-vacuity
of `genThinned_eq` / `boltzmann_stationary_generator_thinned` -/
theorem circle_pair_stationary_thinned (L β : ℝ) (hβ : 0 ≤ β) (sch : Scheme) {U : ℝ → ℝ} (hU : Smooth L U)
    (f : ℝ → Fin 2 → ℝ) (hf : ∀ k, Smooth L (fun s => f s k)) :
    ∑ k, ∫ s in (0:ℝ)..L,
      exp (-β * U s) * genThinned (circleCalculus L).D β (fun _ : Unit => sch) (pairQ U)
        (fun M s k => β * max 0 (pairQ U M s k) + 1) f s k = 0 := by
  rw [genThinned_eq _ _ _ _ _ (fun M s k => by
    have : 0 ≤ β * max 0 (pairQ U M s k) := mul_nonneg hβ (le_max_left _ _)
    linarith)]
  exact circle_pair_stationary L β sch hU f hf

/-- non-vacuity of `ibp_of_leibniz`: on the circle its hypotheses hold (product rule, chain rule for the weight, the
integral of a derivative of a periodic function over a period vanishes), so (H3) there is also a consequence of the
Leibniz rule -/
theorem circle_ibp_via_leibniz (L β : ℝ) {U : ℝ → ℝ} (hU : Smooth L U) (k : Fin 2) {g : ℝ → ℝ} (hg : Smooth L g) :
    (circleCalculus L).I (fun s => exp (-β * U s) * (circleCalculus L).D k g s) =
      β * (circleCalculus L).I (fun s => exp (-β * U s) * g s * (circleCalculus L).D k U s) := by
  have hcU := hU.continuous
  have hcU' := hU.continuous_deriv
  have hcg := hg.continuous
  have hcg' := hg.continuous_deriv
  have hw : ∀ s, HasDerivAt (fun s => exp (-β * U s)) (exp (-β * U s) * (-β * deriv U s)) s :=
    hasDerivAt_weight β hU.differentiable
  have hwg : ∀ s, HasDerivAt (fun s => exp (-β * U s) * g s)
      (exp (-β * U s) * (-β * deriv U s) * g s + exp (-β * U s) * deriv g s) s :=
    fun s => (hw s).mul (hg.differentiable s).hasDerivAt
  have hchain : (circleCalculus L).D k (fun y => exp (-β * U y)) =
      fun s => -β * (exp (-β * U s) * (circleCalculus L).D k U s) := by
    funext s
    show sgn k * deriv (fun y => exp (-β * U y)) s = -β * (exp (-β * U s) * (sgn k * deriv U s))
    rw [(hw s).deriv]; ring
  refine ibp_of_leibniz (circleCalculus L) β U k g ?_ hchain ?_ ?_ ?_
  · funext s
    show sgn k * deriv (fun x => exp (-β * U x) * g x) s =
      exp (-β * U s) * (sgn k * deriv g s) + g s * (sgn k * deriv (fun y => exp (-β * U y)) s)
    rw [(hwg s).deriv, (hw s).deriv]; ring
  · show ∫ s in (0:ℝ)..L, sgn k * deriv (fun x => exp (-β * U x) * g x) s = 0
    have hd : deriv (fun x => exp (-β * U x) * g x) =
        fun s => exp (-β * U s) * (-β * deriv U s) * g s + exp (-β * U s) * deriv g s :=
      funext fun s => (hwg s).deriv
    rw [integral_const_mul, integral_deriv_eq_sub (fun s _ => (hwg s).differentiableAt)
      (by rw [hd]; exact Continuous.intervalIntegrable (by fun_prop) _ _)]
    have hUL : U L = U 0 := by simpa using hU.2 0
    have hgL : g L = g 0 := by simpa using hg.2 0
    simp only [hUL, hgL, sub_self, mul_zero]
  · show Continuous fun s => exp (-β * U s) * (sgn k * deriv g s)
    fun_prop
  · show Continuous fun s => exp (-β * U s) * g s * (sgn k * deriv U s)
    fun_prop

/-- **the cosine pair energy** `U(s) = 1 − cos(2π s / L)`: derivative `sgn k · (2π/L) sin(2π s/L)` -/
theorem cosine_pair_stationary (L β : ℝ) (hL : L ≠ 0) (sch : Scheme)
    (f : ℝ → Fin 2 → ℝ) (hf : ∀ k, Smooth L (fun s => f s k)) :
    ∑ k, ∫ s in (0:ℝ)..L, exp (-β * (1 - cos (2 * π * s / L))) *
      gen (circleCalculus L).D β (fun _ : Unit => sch)
        (fun _ s k => sgn k * (2 * π / L * sin (2 * π * s / L))) f s k = 0 := by
  have hq : (fun (_ : Unit) (s : ℝ) (k : Fin 2) => sgn k * (2 * π / L * sin (2 * π * s / L))) = pairQ (cosU L) := by
    funext _ s k; rw [pairQ, deriv_cosU]
  rw [hq]
  exact circle_pair_stationary L β sch (cosU_smooth hL) f hf

/-- non-vacuity: `C¹` `L`-periodic test functions that are not constant, one per value of the lifting variable -/
theorem trig_test_smooth {L : ℝ} (hL : L ≠ 0) :
    ∀ k : Fin 2, Smooth L (fun s => (![fun s => sin (2 * π * s / L), fun s => cos (2 * π * s / L)] : Fin 2 → ℝ → ℝ) k s) := by
  have hper : ∀ s : ℝ, 2 * π * (s + L) / L = 2 * π * s / L + 2 * π := by intro s; field_simp
  intro k
  have h01 : k = 0 ∨ k = 1 := by fin_cases k <;> simp
  rcases h01 with rfl | rfl
  · refine ⟨by simp only [Matrix.cons_val_zero]; fun_prop, fun s => ?_⟩
    simp only [Matrix.cons_val_zero]
    rw [hper, sin_add_two_pi]
  · refine ⟨by simp only [Matrix.cons_val_one, Matrix.cons_val_zero]; fun_prop, fun s => ?_⟩
    simp only [Matrix.cons_val_one, Matrix.cons_val_zero]
    rw [hper, cos_add_two_pi]

/-- non-vacuity of `cosine_pair_stationary` (and through it of `boltzmann_stationary_generator`): circle of length 2,
`β = 3`, the inside-first scheme, test functions `sin(π s)`, `cos(π s)`; the event rates are not identically zero -/
example : ∑ k, ∫ s in (0:ℝ)..2, exp (-3 * (1 - cos (2 * π * s / 2))) *
      gen (circleCalculus 2).D 3 (fun _ : Unit => Scheme.inside)
        (fun _ s k => sgn k * (2 * π / 2 * sin (2 * π * s / 2)))
        (fun s k => (![fun s => sin (2 * π * s / 2), fun s => cos (2 * π * s / 2)] : Fin 2 → ℝ → ℝ) k s) s k = 0 :=
  cosine_pair_stationary 2 3 two_ne_zero .inside _ (trig_test_smooth two_ne_zero)

example : (3:ℝ) * max 0 (sgn 1 * (2 * π / 2 * sin (2 * π * (1/2) / 2))) = 3 * π := by
  have : 2 * π * (1/2) / 2 = π / 2 := by ring
  rw [this, sin_pi_div_two]
  simp only [sgn, Matrix.cons_val_one, Matrix.cons_val_zero]
  rw [max_eq_right (by positivity)]
  ring

end Circle

/-! ### concrete instance: two point masses on a circle, both positions (two-variable version) -/

namespace Torus
open intervalIntegral Circle

/-- the partial derivative in the position of unit `k` -/
noncomputable def dk (k : Fin 2) (G : ℝ × ℝ → ℝ) : ℝ × ℝ → ℝ := if k = 0 then d1 G else d2 G

@[simp] theorem dk_zero (G : ℝ × ℝ → ℝ) : dk 0 G = d1 G := by simp [dk]
@[simp] theorem dk_one (G : ℝ × ℝ → ℝ) : dk 1 G = d2 G := by simp [dk]

theorem continuous_dk {L : ℝ} {G : ℝ × ℝ → ℝ} (hG : Smooth2 L G) (k : Fin 2) : Continuous (dk k G) := by
  unfold dk; split
  · exact hG.continuous_d1
  · exact hG.continuous_d2

/-- functions of both positions, `C¹` and `L`-periodic in each; `D k = ∂/∂x_k`; `I = ∫_0^L ∫_0^L` on continuous
functions -/
noncomputable def torusCalculus (L : ℝ) : Calculus (ℝ × ℝ) 2 where
  S := { carrier := {G | Smooth2 L G}
         add_mem' := fun hf hg => Smooth2.add hf hg
         zero_mem' := Smooth2.zero L
         smul_mem' := fun c _ hg => Smooth2.smul c hg }
  D := dk
  D_add k f g hf hg := by
    unfold dk; split
    · exact d1_add hf hg
    · exact d2_add hf hg
  D_smul k c f hf := by
    unfold dk; split
    · exact d1_smul c hf
    · exact d2_smul c hf
  V := { carrier := {h | Continuous h}
         add_mem' := fun hf hg => Continuous.add hf hg
         zero_mem' := continuous_const
         smul_mem' := fun c _ hg => Continuous.const_smul hg c }
  I := I2 L
  I_add hf hg := I2_add L hf hg
  I_smul c f _ := I2_smul L c f

/-- (H3) on the torus, either variable -/
theorem torus_ibp (L β : ℝ) {U : ℝ × ℝ → ℝ} (hU : Smooth2 L U) (k : Fin 2) {g : ℝ × ℝ → ℝ} (hg : Smooth2 L g) :
    (torusCalculus L).I (fun p => exp (-β * U p) * (torusCalculus L).D k g p) =
      β * (torusCalculus L).I (fun p => exp (-β * U p) * g p * (torusCalculus L).D k U p) := by
  show I2 L (fun p => exp (-β * U p) * dk k g p) = β * I2 L (fun p => exp (-β * U p) * g p * dk k U p)
  unfold dk; split
  · exact torus_ibp_d1 L β hU hg
  · exact torus_ibp_d2 L β hU hg

/-- **Stationarity for two point masses on a circle, both positions as variables**: `X = ℝ × ℝ`, `D k = ∂/∂x_k`,
`I = ∫_0^L ∫_0^L`; every pair energy `U` that is `C¹`, `L`-periodic in each position and translation invariant
(`∂₁U + ∂₂U = 0`: hypothesis (H2)); every `β`; each lifting scheme; test functions `C¹` and periodic in each position.
All hypotheses of `boltzmann_stationary_generator` are discharged. -/
theorem torus_pair_stationary (L β : ℝ) (sch : Scheme) {U : ℝ × ℝ → ℝ} (hU : Smooth2 L U)
    (hti : ∀ p, d1 U p + d2 U p = 0)
    (f : ℝ × ℝ → Fin 2 → ℝ) (hf : ∀ k, Smooth2 L (fun p => f p k)) :
    ∑ k, ∫ a in (0:ℝ)..L, ∫ b in (0:ℝ)..L,
      exp (-β * U (a, b)) *
        gen (torusCalculus L).D β (fun _ : Unit => sch) (fun _ p k => dk k U p) f (a, b) k = 0 := by
  have hcU := hU.continuous
  have hz : ∀ (M : Unit) (p : ℝ × ℝ), ∑ k, (fun (_ : Unit) p k => dk k U p) M p k = 0 := by
    intro _ p; simp only [Fin.sum_univ_two, dk_zero, dk_one]; exact hti p
  refine boltzmann_stationary_generator (torusCalculus L) β (fun _ : Unit => sch) (fun _ => U) U
    (fun _ p k => dk k U p) (fun _ => hU) (by simp) (fun _ _ _ => rfl) hz
    (fun k g hg => torus_ibp L β hU k hg) f hf ?_ ?_ ?_
  · intro k
    show Continuous fun p => exp (-β * U p) * dk k (fun y => f y k) p
    have := continuous_dk (hf k) k
    fun_prop
  · intro k
    show Continuous fun p => exp (-β * U p) * f p k * dk k U p
    have := (hf k).continuous
    have := continuous_dk hU k
    fun_prop
  · intro k
    show Continuous fun p => exp (-β * U p) * jumpPart β (fun _ : Unit => sch) (fun _ p k => dk k U p) f p k
    simp only [jumpPart_pair_factor β sch _ hz]
    have h1 := (hf k).continuous
    have h2 := (hf k.rev).continuous
    have h3 : Continuous fun p => max 0 (dk k U p) := continuous_const.max (continuous_dk hU k)
    fun_prop

/-- derivative of a pair energy `u(x₂ − x₁)` in the position of unit `k` -/
theorem dk_pairEnergy (u : ℝ → ℝ) (k : Fin 2) (p : ℝ × ℝ) : dk k (pairEnergy u) p = sgn k * deriv u (p.2 - p.1) := by
  have h01 : k = 0 ∨ k = 1 := by fin_cases k <;> simp
  rcases h01 with rfl | rfl
  · rw [dk_zero, d1_pairEnergy]; simp [sgn]
  · rw [dk_one, d2_pairEnergy]; simp [sgn]

/-- **the generator for a pair energy `u(x₂ − x₁)` in closed form** -/
theorem gen_torus_pair (L β : ℝ) (sch : Scheme) (u : ℝ → ℝ) (f : ℝ × ℝ → Fin 2 → ℝ) (p : ℝ × ℝ) (k : Fin 2) :
    gen (torusCalculus L).D β (fun _ : Unit => sch) (fun _ p k => dk k (pairEnergy u) p) f p k =
      dk k (fun y => f y k) p + β * max 0 (sgn k * deriv u (p.2 - p.1)) * (f p k.rev - f p k) := by
  unfold gen
  rw [jumpPart_pair_factor β sch _ (fun _ p => by
    simp only [Fin.sum_univ_two, dk_zero, dk_one, d1_pairEnergy, d2_pairEnergy]; ring), dk_pairEnergy]
  rfl

/-- every `C¹` `L`-periodic function `u` of the separation gives a pair energy `u(x₂ − x₁)` to which
`torus_pair_stationary` applies -/
theorem torus_separation_energy_stationary (L β : ℝ) (sch : Scheme) {u : ℝ → ℝ} (hu : Smooth L u)
    (f : ℝ × ℝ → Fin 2 → ℝ) (hf : ∀ k, Smooth2 L (fun p => f p k)) :
    ∑ k, ∫ a in (0:ℝ)..L, ∫ b in (0:ℝ)..L,
      exp (-β * u (b - a)) *
        gen (torusCalculus L).D β (fun _ : Unit => sch) (fun _ p k => dk k (pairEnergy u) p) f (a, b) k = 0 :=
  torus_pair_stationary L β sch (pairEnergy_smooth hu)
    (fun p => by rw [d1_pairEnergy, d2_pairEnergy]; ring) f hf

/-- **the cosine pair energy** `U(x₁, x₂) = 1 − cos(2π (x₂ − x₁) / L)` -/
theorem torus_cosine_stationary (L β : ℝ) (hL : L ≠ 0) (sch : Scheme)
    (f : ℝ × ℝ → Fin 2 → ℝ) (hf : ∀ k, Smooth2 L (fun p => f p k)) :
    ∑ k, ∫ a in (0:ℝ)..L, ∫ b in (0:ℝ)..L,
      exp (-β * (1 - cos (2 * π * (b - a) / L))) *
        gen (torusCalculus L).D β (fun _ : Unit => sch) (fun _ p k => dk k (pairEnergy (cosU L)) p) f (a, b) k = 0 :=
  torus_separation_energy_stationary L β sch (cosU_smooth hL) f hf

/-- non-vacuity: test functions on the torus, `C¹`, periodic in each position, not constant, depending on both -/
theorem trig_test_smooth2 {L : ℝ} (hL : L ≠ 0) :
    ∀ k : Fin 2, Smooth2 L (fun p : ℝ × ℝ =>
      (![fun p => sin (2 * π * p.1 / L) * cos (2 * π * p.2 / L), fun p => cos (2 * π * p.1 / L) + sin (2 * π * p.2 / L)]
        : Fin 2 → ℝ × ℝ → ℝ) k p) := by
  have hper : ∀ s : ℝ, 2 * π * (s + L) / L = 2 * π * s / L + 2 * π := by intro s; field_simp
  intro k
  have h01 : k = 0 ∨ k = 1 := by fin_cases k <;> simp
  rcases h01 with rfl | rfl
  · refine ⟨by simp only [Matrix.cons_val_zero]; fun_prop, fun a b => ?_, fun a b => ?_⟩ <;>
      simp only [Matrix.cons_val_zero] <;> rw [hper] <;> simp [sin_add_two_pi, cos_add_two_pi]
  · refine ⟨by simp only [Matrix.cons_val_one, Matrix.cons_val_zero]; fun_prop, fun a b => ?_, fun a b => ?_⟩ <;>
      simp only [Matrix.cons_val_one, Matrix.cons_val_zero] <;> rw [hper] <;> simp [sin_add_two_pi, cos_add_two_pi]

/-- non-vacuity of `torus_cosine_stationary` (and through it of `torus_pair_stationary`,
`boltzmann_stationary_generator`) -/
example : ∑ k, ∫ a in (0:ℝ)..2, ∫ b in (0:ℝ)..2,
      exp (-3 * (1 - cos (2 * π * (b - a) / 2))) *
        gen (torusCalculus 2).D 3 (fun _ : Unit => Scheme.outside) (fun _ p k => dk k (pairEnergy (cosU 2)) p)
          (fun p k => (![fun p => sin (2 * π * p.1 / 2) * cos (2 * π * p.2 / 2),
            fun p => cos (2 * π * p.1 / 2) + sin (2 * π * p.2 / 2)] : Fin 2 → ℝ × ℝ → ℝ) k p) (a, b) k = 0 :=
  torus_cosine_stationary 2 3 two_ne_zero .outside _ (trig_test_smooth2 two_ne_zero)

end Torus

/-! ### non-vacuity of the linear statement: a degenerate but non-trivial instance -/

/-- one configuration, two units, `D k g = ±g`, `I` = evaluation, `β = 1`, `U = 1`: (H1)–(H3) hold with event rates
`q = (1, −1)` that are not zero. (A toy: it only shows that the hypotheses of `boltzmann_stationary_generator_linear` are
jointly satisfiable with non-zero rates; the meaningful instances are `Circle` and `Torus`.) -/
example (f : Unit → Fin 2 → ℝ) :
    ∑ k, (LinearMap.proj () : (Unit → ℝ) →ₗ[ℝ] ℝ) (fun x => exp (-1 * (fun _ => (1:ℝ)) x) *
      gen (fun k => ((Circle.sgn k • LinearMap.id : (Unit → ℝ) →ₗ[ℝ] (Unit → ℝ)) : (Unit → ℝ) → (Unit → ℝ)))
        1 (fun _ : Unit => Scheme.ratio) (fun _ _ k => Circle.sgn k) f x k) = 0 :=
  boltzmann_stationary_generator_linear (fun k => Circle.sgn k • LinearMap.id) (LinearMap.proj ()) 1
    (fun _ : Unit => Scheme.ratio) (fun _ _ => 1) (fun _ => 1) (fun _ _ k => Circle.sgn k)
    (by funext x; simp) (fun _ _ k => by simp)
    (fun _ _ => by simp [Circle.sgn, Fin.sum_univ_two])
    (fun k g => by simp; ring) f

end JF.C01Generator
