import JF.Lemmas.Lifting
import Mathlib.MeasureTheory.Measure.Lebesgue.Basic
/-!
# C05 — Lifting schemes route probability flow so that every unit's outflow is matched

Exact reading of `JF.Model.Lifting` (the model of `jellyfysh/lifting/*.py`) over an arbitrary linearly
ordered field `K`, for any `Ops K` whose literal `0` is the field's zero (`Ops.rat` is one, see the
corollaries over `ℚ` at the end).  The binary64 reading of the same definitions is what the driver
`jf_lift` runs against the real classes, bit for bit.

Vocabulary (from `JF/Lemmas/Lifting.lean`).  A table `tbl : List (K × ι)` lists `(derivative, identifier)`
in insertion order; unit number `a` (an index into `tbl`) is the active one.
`negOf tbl` is the list of the non-positive entries, negated, in insertion order (what the code keeps in
`_negative_lifting_rates`/`_associated_identifiers`); "unit `k`" below is an index into `negOf tbl`,
`n_k = (negOf tbl)[k].1 = |derivative of unit k|`, `N k = cumB (negOf tbl) k = n_0 + … + n_{k-1}`,
`S = total (negOf tbl)`, `P a = posSum (tbl.take a)` the positive derivatives inserted before `a`,
`q a = rate tbl a`.

Results, all for tables of ANY size and insertion order whose derivatives sum to zero:

* `chooseIdx_iff` (and `inside_iff`, `outside_iff`, `ratio_iff`): the scheme selects unit `k` iff the
  position it computes lies in `(N k, N (k+1)]`;
* `choose_negative`, `choose_negative_of_nodup`: the selected unit has a strictly negative derivative and no
  error outcome occurs — under `0 < u` (inside, ratio) resp. `u < 1` (outside), hypotheses which the proof
  forces: `inside_zero_draw_selects_zero_rate`, `ratio_zero_draw_selects_zero_rate`,
  `outside_unit_draw_selects_zero_rate` show the code selecting a zero-derivative unit at the excluded
  end point;
* `sel_interval`: for a fixed active unit, the set of admissible draws selecting `k` is an interval `(lo, hi]`
  (`[lo, hi)` for outside) inside the unit interval; `prob = max 0 (hi - lo)` is its length;
  `selection_measure` (real reading): the Lebesgue measure of that set — the probability of selecting `k` —
  is `prob` (the excluded end point of the draw is a null set);
* `flow_balance` (any ordered field) and `flow_balance_measure` (ℝ, probabilities as Lebesgue measures):
  `∑_{a : q a > 0} q a * prob sch tbl a k = n_k` for each of the three schemes: global balance of the
  lifted flow;
* `choose_deterministic`, `reset_forgets`, `ratio_independent`: the choice is a function of the table and the
  draws; `choose_assertion`, `get_notRecorded`: the error outcomes;
* `binary64_*`: the six known findings (`known_findings/C05.json`) as kernel-evaluated theorems about the
  binary64 reading of the model.

Nothing is left `_partial`.  What the theorems do NOT cover: rounding.  In binary64 the table does not sum to
zero exactly, the partial sums round, and the fall-through branch can fire (`binary64_*_fall_through`); the
float behaviour is tied to the real code by the bit-exact correspondence run and bounded by the flow oracle of
`harness/props/c05.py`, not by a theorem.
-/
namespace JF.C05
open JF JF.Lifting

set_option linter.unusedSectionVars false
variable {K : Type} [Field K] [LinearOrder K] [IsStrictOrderedRing K] {ι : Type}

/-- derivative of unit `a` of the table (`0` beyond its end) -/
def rate (tbl : List (K × ι)) (a : Nat) : K := (tbl.map Prod.fst).getD a 0

private theorem rate_eq (tbl : List (K × ι)) {a : Nat} (ha : a < tbl.length) : rate tbl a = (tbl[a]).1 := by
  simp [rate, List.getD_eq_getElem?_getD, ha]

private theorem lt_of_rate_pos {tbl : List (K × ι)} {a : Nat} (h : 0 < rate tbl a) : a < tbl.length := by
  by_contra hn
  simp [rate, List.getD_eq_getElem?_getD, not_lt.mp hn] at h

/-- the positive derivatives inserted before unit `a` -/
def P (tbl : List (K × ι)) (a : Nat) : K := posSum (tbl.take a)
/-- `N tbl k = n_0 + … + n_{k-1}` -/
def N (tbl : List (K × ι)) (k : Nat) : K := cumB (negOf tbl) k
/-- the sum of the magnitudes of the non-positive derivatives -/
def S (tbl : List (K × ι)) : K := total (negOf tbl)
/-- `|derivative|` of unit `k` of the negative list (`0` beyond its end) -/
def nrate (tbl : List (K × ι)) (k : Nat) : K := ((negOf tbl).map Prod.fst).getD k 0

private theorem nrate_eq (tbl : List (K × ι)) {k : Nat} (hk : k < (negOf tbl).length) :
    nrate tbl k = ((negOf tbl)[k]).1 := by
  simp [nrate, List.getD_eq_getElem?_getD, hk]

private theorem N_succ (tbl : List (K × ι)) {k : Nat} (hk : k < (negOf tbl).length) :
    N tbl (k + 1) = N tbl k + nrate tbl k := by
  rw [nrate_eq tbl hk]; exact cumB_succ _ hk

/-- hypotheses of the property: the table sums to zero, the active unit has a positive derivative -/
structure Valid (tbl : List (K × ι)) (a : Nat) : Prop where
  sum_zero : total tbl = 0
  pos : 0 < rate tbl a

theorem Valid.lt {tbl : List (K × ι)} {a : Nat} (V : Valid tbl a) : a < tbl.length := lt_of_rate_pos V.pos

private theorem S_eq_posSum {tbl : List (K × ι)} (hz : total tbl = 0) : S tbl = posSum tbl := by
  have := total_eq_posSum_sub tbl
  unfold S; linarith

private theorem P_nonneg (tbl : List (K × ι)) (a : Nat) : 0 ≤ P tbl a := posSum_nonneg _

private theorem P_add_rate_le_S {tbl : List (K × ι)} {a : Nat} (V : Valid tbl a) : P tbl a + rate tbl a ≤ S tbl := by
  rw [S_eq_posSum V.sum_zero, rate_eq tbl V.lt]
  exact posSum_take_add_le tbl V.lt (by rw [← rate_eq tbl V.lt]; exact V.pos)

/-- admissible draws: CPython's `random()` lies in `[0, 1)`; the inside and ratio schemes need the draw to
be non-zero, the outside scheme needs it to be below one (the theorems below are false without, see
`inside_zero_draw_selects_zero_rate` etc.) -/
def DrawOK : Scheme → K → K → Prop
  | .inside, u, _ => 0 < u ∧ u ≤ 1
  | .outside, u, _ => 0 ≤ u ∧ u < 1
  | .ratio, _, u2 => 0 < u2 ∧ u2 ≤ 1

/-- the position each scheme hands to the common loop, in the exact reading -/
def specPos (sch : Scheme) (tbl : List (K × ι)) (a : Nat) (u u2 : K) : K :=
  match sch with
  | .inside => P tbl a + rate tbl a * u
  | .outside => S tbl - (P tbl a + rate tbl a * u)
  | .ratio => S tbl * u2

section ops
variable (o : Ops K) (h0 : o.ofInt 0 = 0)
include h0

/-! ### what the code computes -/

/-- `choose` is `chooseIdx` followed by the lookup of the identifier -/
theorem choose_eq {tbl : List (K × ι)} {a : Nat} (V : Valid tbl a) (sch : Scheme) (u u2 : K) :
    choose o sch tbl a u u2 = (chooseIdx o sch tbl a u u2).bind (lookup (negOf tbl)) := by
  have hf := fill_eq o h0 tbl a u V.lt (by rw [← rate_eq tbl V.lt]; exact V.pos)
  unfold choose chooseIdx
  rw [hf]
  cases sch <;> simp [getInside, getOutside, getRatio, select, position, Except.bind] <;>
    split <;> simp_all

/-- the position computed by the code is `specPos` -/
theorem chooseIdx_eq {tbl : List (K × ι)} {a : Nat} (V : Valid tbl a) (sch : Scheme) (u u2 : K) :
    chooseIdx o sch tbl a u u2 = selectIdx o (specPos sch tbl a u u2) (negOf tbl) := by
  have hf := fill_eq o h0 tbl a u V.lt (by rw [← rate_eq tbl V.lt]; exact V.pos)
  unfold chooseIdx
  rw [hf]
  cases sch <;>
    simp [position, specPos, pySum_exact o h0, pyUniform_zero o h0, P, S, total, rate_eq tbl V.lt]

/-- the common loop, for a position inside the stack of negative rates -/
theorem selectIdx_iff (l : List (K × ι)) (hl : NonNeg l) (p : K) (hp0 : 0 < p) (hp1 : p ≤ total l) (k : Nat) :
    selectIdx o p l = .ok k ↔ k < l.length ∧ cumB l k < p ∧ p ≤ cumB l (k + 1) := by
  unfold selectIdx
  rw [h0]
  cases hw : walkIdx p l 0 with
  | none =>
    exfalso
    have := (walkIdx_eq_none_iff p l hl 0 hp0).mp hw
    linarith
  | some k' =>
    have h1 := (walkIdx_eq_some_iff p l hl 0 hp0 k').mp hw
    simp only [zero_add] at h1
    simp only [Except.ok.injEq]
    constructor
    · intro h; subst h; exact h1
    · intro h
      have := (walkIdx_eq_some_iff p l hl 0 hp0 k).mpr (by simpa using h)
      rw [hw] at this
      exact Option.some.inj this

omit h0 in
/-- the position is inside the stack `(0, S]` for every admissible draw -/
private theorem specPos_mem {tbl : List (K × ι)} {a : Nat} (V : Valid tbl a) (sch : Scheme) {u u2 : K}
    (hd : DrawOK sch u u2) : 0 < specPos sch tbl a u u2 ∧ specPos sch tbl a u u2 ≤ S tbl := by
  have hq := V.pos
  have hP := P_nonneg tbl a
  have hS := P_add_rate_le_S V
  cases sch <;> simp only [DrawOK] at hd <;> obtain ⟨hu0, hu1⟩ := hd <;> simp only [specPos]
  · have : 0 < rate tbl a * u := mul_pos hq hu0
    have : rate tbl a * u ≤ rate tbl a := by nlinarith
    constructor <;> linarith
  · have : 0 ≤ rate tbl a * u := mul_nonneg hq.le hu0
    have : rate tbl a * u < rate tbl a := by nlinarith
    constructor <;> linarith
  · have hSpos : 0 < S tbl := by linarith
    constructor
    · exact mul_pos hSpos hu0
    · nlinarith

/-- **Pointwise characterisation.**  For every table that sums to zero, every positive active unit and every
admissible draw, each scheme selects unit `k` iff the position it computes lies in `(N k, N (k+1)]`. -/
theorem chooseIdx_iff {tbl : List (K × ι)} {a : Nat} (V : Valid tbl a) (sch : Scheme) {u u2 : K}
    (hd : DrawOK sch u u2) (k : Nat) :
    chooseIdx o sch tbl a u u2 = .ok k ↔
      k < (negOf tbl).length ∧ N tbl k < specPos sch tbl a u u2 ∧ specPos sch tbl a u u2 ≤ N tbl (k + 1) := by
  obtain ⟨hp0, hp1⟩ := specPos_mem V sch hd
  rw [chooseIdx_eq o h0 V]
  exact selectIdx_iff o h0 _ (negOf_nonneg tbl) _ hp0 hp1 k

/-- inside first: unit `k` iff `N k < P a + q a * u ≤ N (k+1)` -/
theorem inside_iff {tbl : List (K × ι)} {a : Nat} (V : Valid tbl a) {u : K} (hu0 : 0 < u) (hu1 : u ≤ 1)
    (u2 : K) (k : Nat) :
    chooseIdx o .inside tbl a u u2 = .ok k ↔
      k < (negOf tbl).length ∧ N tbl k < P tbl a + rate tbl a * u ∧ P tbl a + rate tbl a * u ≤ N tbl (k + 1) :=
  chooseIdx_iff o h0 V .inside (u2 := u2) ⟨hu0, hu1⟩ k

/-- outside first: unit `k` iff `N k < S - (P a + q a * u) ≤ N (k+1)` -/
theorem outside_iff {tbl : List (K × ι)} {a : Nat} (V : Valid tbl a) {u : K} (hu0 : 0 ≤ u) (hu1 : u < 1)
    (u2 : K) (k : Nat) :
    chooseIdx o .outside tbl a u u2 = .ok k ↔
      k < (negOf tbl).length ∧ N tbl k < S tbl - (P tbl a + rate tbl a * u) ∧
        S tbl - (P tbl a + rate tbl a * u) ≤ N tbl (k + 1) :=
  chooseIdx_iff o h0 V .outside (u2 := u2) ⟨hu0, hu1⟩ k

/-- ratio: unit `k` iff `N k < S * u2 ≤ N (k+1)`; neither the active unit nor its draw enter -/
theorem ratio_iff {tbl : List (K × ι)} {a : Nat} (V : Valid tbl a) (u : K) {u2 : K} (hu0 : 0 < u2) (hu1 : u2 ≤ 1)
    (k : Nat) :
    chooseIdx o .ratio tbl a u u2 = .ok k ↔
      k < (negOf tbl).length ∧ N tbl k < S tbl * u2 ∧ S tbl * u2 ≤ N tbl (k + 1) :=
  chooseIdx_iff o h0 V .ratio (u := u) ⟨hu0, hu1⟩ k

/-- some unit is always selected: no error outcome, no fall-through -/
theorem chooseIdx_total {tbl : List (K × ι)} {a : Nat} (V : Valid tbl a) (sch : Scheme) {u u2 : K}
    (hd : DrawOK sch u u2) : ∃ k, chooseIdx o sch tbl a u u2 = .ok k := by
  obtain ⟨hp0, hp1⟩ := specPos_mem V sch hd
  rw [chooseIdx_eq o h0 V]
  unfold selectIdx
  rw [h0]
  cases hw : walkIdx (specPos sch tbl a u u2) (negOf tbl) 0 with
  | some k => exact ⟨k, rfl⟩
  | none =>
    exfalso
    have := (walkIdx_eq_none_iff _ _ (negOf_nonneg tbl) 0 hp0).mp hw
    unfold S at hp1
    linarith

/-- **The selected unit has a strictly negative derivative** (index form) -/
theorem chooseIdx_negative {tbl : List (K × ι)} {a : Nat} (V : Valid tbl a) (sch : Scheme) {u u2 : K}
    (hd : DrawOK sch u u2) {k : Nat} (h : chooseIdx o sch tbl a u u2 = .ok k) :
    k < (negOf tbl).length ∧ 0 < nrate tbl k := by
  obtain ⟨hk, h1, h2⟩ := (chooseIdx_iff o h0 V sch hd k).mp h
  refine ⟨hk, ?_⟩
  rw [N_succ tbl hk] at h2
  linarith

/-- **The selected unit has a strictly negative derivative** (identifier form): the move never fails, and the
identifier it returns is the identifier of a table entry whose derivative is `< 0`. -/
theorem choose_negative {tbl : List (K × ι)} {a : Nat} (V : Valid tbl a) (sch : Scheme) {u u2 : K}
    (hd : DrawOK sch u u2) :
    ∃ r i, (r, i) ∈ tbl ∧ r < 0 ∧ choose o sch tbl a u u2 = .ok i := by
  obtain ⟨k, hk⟩ := chooseIdx_total o h0 V sch hd
  obtain ⟨hlt, hpos⟩ := chooseIdx_negative o h0 V sch hd hk
  rw [nrate_eq tbl hlt] at hpos
  refine ⟨-((negOf tbl)[k]).1, ((negOf tbl)[k]).2, ?_, by linarith, ?_⟩
  · have hm : (((negOf tbl)[k]).1, ((negOf tbl)[k]).2) ∈ negOf tbl := List.getElem_mem hlt
    exact (mem_negOf.mp hm).1
  · rw [choose_eq o h0 V, hk]
    simp [Except.bind, lookup, hlt]

/-- with pairwise distinct identifiers: whatever entry of the table carries the returned identifier, its
derivative is negative -/
theorem choose_negative_of_nodup {tbl : List (K × ι)} {a : Nat} (V : Valid tbl a) (sch : Scheme) {u u2 : K}
    (hd : DrawOK sch u u2) (hnd : (tbl.map Prod.snd).Nodup) {i : ι}
    (h : choose o sch tbl a u u2 = .ok i) : ∀ r, (r, i) ∈ tbl → r < 0 := by
  obtain ⟨r', i', hm, hr, hc⟩ := choose_negative o h0 V sch hd
  rw [h] at hc
  cases hc
  intro r hmem
  have : r = r' := by
    have hinj := List.inj_on_of_nodup_map hnd hmem hm rfl
    exact (Prod.mk.inj hinj).1
  rw [this]; exact hr

omit h0 in
/-- the identifiers kept in the negative list are a sublist of the table's identifiers -/
private theorem negOf_ids_sublist (tbl : List (K × ι)) :
    ((negOf tbl).map Prod.snd).Sublist (tbl.map Prod.snd) := by
  induction tbl with
  | nil => simp [negOf]
  | cons x t ih =>
    obtain ⟨r, i⟩ := x
    unfold negOf
    split
    · exact List.Sublist.cons _ ih
    · simpa using ih

/-- with pairwise distinct identifiers, "the move returns the identifier of unit `k`" and "the move selects
unit `k`" are the same event, so every statement below about `chooseIdx` (intervals, probabilities, balance)
is a statement about the identifier that `get_active_identifier` returns -/
theorem choose_ok_iff {tbl : List (K × ι)} {a : Nat} (V : Valid tbl a) (sch : Scheme) {u u2 : K}
    (hd : DrawOK sch u u2) (hnd : (tbl.map Prod.snd).Nodup) {k : Nat} (hk : k < (negOf tbl).length) :
    choose o sch tbl a u u2 = .ok ((negOf tbl)[k]).2 ↔ chooseIdx o sch tbl a u u2 = .ok k := by
  obtain ⟨k', hk'⟩ := chooseIdx_total o h0 V sch hd
  have hlt := (chooseIdx_negative o h0 V sch hd hk').1
  have hnd' : ((negOf tbl).map Prod.snd).Nodup := hnd.sublist (negOf_ids_sublist tbl)
  rw [choose_eq o h0 V, hk']
  simp only [Except.bind, lookup, List.getElem?_eq_getElem hlt, Except.ok.injEq]
  constructor
  · intro h
    have e1 : k' < ((negOf tbl).map Prod.snd).length := by simpa using hlt
    have e2 : k < ((negOf tbl).map Prod.snd).length := by simpa using hk
    have h1 : ((negOf tbl).map Prod.snd)[k'] = ((negOf tbl).map Prod.snd)[k] := by simpa using h
    exact (hnd'.getElem_inj_iff.mp h1).symm ▸ rfl
  · intro h; subst h; rfl

end ops

/-! ### the excluded end points: the code does select a zero-derivative unit there -/

section boundary
variable (o : Ops K) (h0 : o.ofInt 0 = 0)
include h0

/-- **Inside first, draw `u = 0`** with the active unit first among the positive ones: if the first
non-positive entry of the table has derivative zero, that unit is selected (`0.0 <= 0.0` in the loop).
So `0 < u` in `choose_negative` cannot be dropped. -/
theorem inside_zero_draw_selects_zero_rate {tbl : List (K × ι)} {a : Nat} (V : Valid tbl a)
    (hfirst : P tbl a = 0) {i : ι} {rest : List (K × ι)} (hneg : negOf tbl = (0, i) :: rest) (u2 : K) :
    choose o .inside tbl a 0 u2 = .ok i := by
  rw [choose_eq o h0 V, chooseIdx_eq o h0 V]
  simp only [specPos, hfirst, mul_zero, add_zero, hneg]
  unfold selectIdx
  rw [walkIdx_first _ _ _ _ (by simp [h0])]
  simp [Except.bind, lookup]

/-- **Ratio, own draw `u2 = 0`**: a zero-derivative unit heading the negative list is selected. -/
theorem ratio_zero_draw_selects_zero_rate {tbl : List (K × ι)} {a : Nat} (V : Valid tbl a)
    {i : ι} {rest : List (K × ι)} (hneg : negOf tbl = (0, i) :: rest) (u : K) :
    choose o .ratio tbl a u 0 = .ok i := by
  rw [choose_eq o h0 V, chooseIdx_eq o h0 V]
  simp only [specPos, mul_zero, hneg]
  unfold selectIdx
  rw [walkIdx_first _ _ _ _ (by simp [h0])]
  simp [Except.bind, lookup]

/-- **Outside first, draw `u = 1`** (the closed end of `uniform`, reached in binary64 by rounding) with the
active unit last among the positive ones: a zero-derivative unit heading the negative list is selected. -/
theorem outside_unit_draw_selects_zero_rate {tbl : List (K × ι)} {a : Nat} (V : Valid tbl a)
    (hlast : P tbl a + rate tbl a = S tbl) {i : ι} {rest : List (K × ι)} (hneg : negOf tbl = (0, i) :: rest)
    (u2 : K) :
    choose o .outside tbl a 1 u2 = .ok i := by
  rw [choose_eq o h0 V, chooseIdx_eq o h0 V]
  simp only [specPos, mul_one, hlast, sub_self, hneg]
  unfold selectIdx
  rw [walkIdx_first _ _ _ _ (by simp [h0])]
  simp [Except.bind, lookup]

end boundary

/-! ### the selection sets are intervals; their lengths -/

/-- the window `[c, d]` of positions `P a + q a * u` for which unit `k` is selected
(inside: `[N k, N (k+1)]`; outside: its reflection) -/
def window (sch : Scheme) (tbl : List (K × ι)) (k : Nat) : K × K :=
  match sch with
  | .inside => (N tbl k, N tbl (k + 1))
  | .outside => (S tbl - N tbl (k + 1), S tbl - N tbl k)
  | .ratio => (N tbl k, N tbl (k + 1))

/-- lower end of the interval of draws selecting `k` (draw = `u` for inside/outside, `u2` for ratio) -/
def lo (sch : Scheme) (tbl : List (K × ι)) (a k : Nat) : K :=
  match sch with
  | .ratio => N tbl k / S tbl
  | _ => (max (P tbl a) (window sch tbl k).1 - P tbl a) / rate tbl a

/-- upper end of the interval of draws selecting `k` -/
def hi (sch : Scheme) (tbl : List (K × ι)) (a k : Nat) : K :=
  match sch with
  | .ratio => N tbl (k + 1) / S tbl
  | _ => (min (P tbl a + rate tbl a) (window sch tbl k).2 - P tbl a) / rate tbl a

/-- the probability that the scheme selects unit `k` when `a` is active: the length of the interval of
draws (Lebesgue measure of the selection set, `sel_interval`) -/
def prob (sch : Scheme) (tbl : List (K × ι)) (a k : Nat) : K := max 0 (hi sch tbl a k - lo sch tbl a k)

/-- which draw the scheme's choice depends on, and how the interval is closed -/
def inInterval (sch : Scheme) (l h u u2 : K) : Prop :=
  match sch with
  | .inside => l < u ∧ u ≤ h
  | .outside => l ≤ u ∧ u < h
  | .ratio => l < u2 ∧ u2 ≤ h

private theorem N_le_S (tbl : List (K × ι)) (k : Nat) : N tbl k ≤ S tbl := cumB_le_total (negOf_nonneg tbl) k
private theorem N_nonneg (tbl : List (K × ι)) (k : Nat) : 0 ≤ N tbl k := cumB_nonneg (negOf_nonneg tbl) k
private theorem N_mono (tbl : List (K × ι)) {j k : Nat} (h : j ≤ k) : N tbl j ≤ N tbl k :=
  cumB_mono (negOf_nonneg tbl) h

section ops2
variable (o : Ops K) (h0 : o.ofInt 0 = 0)
include h0

/-- **The set of draws selecting `k` is an interval inside the unit interval**: `(lo, hi]` for inside and
ratio, `[lo, hi)` for outside, with `0 ≤ lo`, `hi ≤ 1`.  Hence the probability of selecting `k` is
`prob = max 0 (hi - lo)`. -/
theorem sel_interval {tbl : List (K × ι)} {a : Nat} (V : Valid tbl a) (sch : Scheme) {u u2 : K}
    (hd : DrawOK sch u u2) {k : Nat} (hk : k < (negOf tbl).length) :
    (chooseIdx o sch tbl a u u2 = .ok k ↔ inInterval sch (lo sch tbl a k) (hi sch tbl a k) u u2) ∧
      0 ≤ lo sch tbl a k ∧ hi sch tbl a k ≤ 1 := by
  have hq := V.pos
  have hPS := P_add_rate_le_S V
  have hP := P_nonneg tbl a
  rw [chooseIdx_iff o h0 V sch hd k]
  cases sch <;> simp only [DrawOK] at hd <;> obtain ⟨hu0, hu1⟩ := hd <;>
    simp only [specPos, lo, hi, window, inInterval]
  · -- inside
    refine ⟨?_, div_nonneg (by linarith [le_max_left (P tbl a) (N tbl k)]) hq.le, ?_⟩
    · rw [div_lt_iff₀ hq, le_div_iff₀ hq]
      have e1 : ∀ c : K, max (P tbl a) c - P tbl a < u * rate tbl a ↔
          (P tbl a < u * rate tbl a + P tbl a ∧ c < u * rate tbl a + P tbl a) := by
        intro c; rw [sub_lt_iff_lt_add, max_lt_iff]
      have e2 : ∀ d : K, u * rate tbl a ≤ min (P tbl a + rate tbl a) d - P tbl a ↔
          (u * rate tbl a + P tbl a ≤ P tbl a + rate tbl a ∧ u * rate tbl a + P tbl a ≤ d) := by
        intro d; rw [le_sub_iff_add_le, le_min_iff]
      rw [e1, e2]
      have : 0 < rate tbl a * u := mul_pos hq hu0
      have : rate tbl a * u ≤ rate tbl a := by nlinarith
      constructor
      · rintro ⟨_, h1, h2⟩; refine ⟨⟨by linarith, by linarith⟩, by linarith, by linarith⟩
      · rintro ⟨⟨_, h1⟩, _, h2⟩; exact ⟨hk, by linarith, by linarith⟩
    · rw [div_le_one hq]; linarith [min_le_left (P tbl a + rate tbl a) (N tbl (k + 1))]
  · -- outside
    refine ⟨?_, div_nonneg (by linarith [le_max_left (P tbl a) (S tbl - N tbl (k + 1))]) hq.le, ?_⟩
    · rw [div_le_iff₀ hq, lt_div_iff₀ hq]
      have e1 : ∀ c : K, max (P tbl a) c - P tbl a ≤ u * rate tbl a ↔
          (P tbl a ≤ u * rate tbl a + P tbl a ∧ c ≤ u * rate tbl a + P tbl a) := by
        intro c; rw [sub_le_iff_le_add, max_le_iff]
      have e2 : ∀ d : K, u * rate tbl a < min (P tbl a + rate tbl a) d - P tbl a ↔
          (u * rate tbl a + P tbl a < P tbl a + rate tbl a ∧ u * rate tbl a + P tbl a < d) := by
        intro d; rw [lt_sub_iff_add_lt, lt_min_iff]
      rw [e1, e2]
      have : 0 ≤ rate tbl a * u := mul_nonneg hq.le hu0
      have : rate tbl a * u < rate tbl a := by nlinarith
      constructor
      · rintro ⟨_, h1, h2⟩; refine ⟨⟨by linarith, by linarith⟩, by linarith, by linarith⟩
      · rintro ⟨⟨_, h1⟩, _, h2⟩; exact ⟨hk, by linarith, by linarith⟩
    · rw [div_le_one hq]; linarith [min_le_left (P tbl a + rate tbl a) (S tbl - N tbl k)]
  · -- ratio
    have hS : 0 < S tbl := by linarith
    refine ⟨?_, div_nonneg (N_nonneg tbl k) hS.le, ?_⟩
    · rw [div_lt_iff₀ hS, le_div_iff₀ hS]
      constructor
      · rintro ⟨_, h1, h2⟩; exact ⟨by linarith, by linarith⟩
      · rintro ⟨h1, h2⟩; exact ⟨hk, by linarith, by linarith⟩
    · rw [div_le_one hS]; exact N_le_S tbl (k + 1)

end ops2

/-! ### global balance -/

/-- `rate a * prob` is the overlap of the active unit's interval `[P a, P a + q a]` with the window of `k` -/
private theorem rate_mul_prob_inside {tbl : List (K × ι)} {a : Nat} (hq : 0 < rate tbl a) (k : Nat) :
    rate tbl a * prob .inside tbl a k = overlap (P tbl a) (rate tbl a) (N tbl k) (N tbl (k + 1)) := by
  simp only [prob, lo, hi, window, overlap]
  rw [← sub_div, mul_max_of_nonneg _ _ hq.le, mul_zero, mul_div_cancel₀ _ hq.ne']
  congr 1; ring

private theorem rate_mul_prob_outside {tbl : List (K × ι)} {a : Nat} (hq : 0 < rate tbl a) (k : Nat) :
    rate tbl a * prob .outside tbl a k =
      overlap (P tbl a) (rate tbl a) (S tbl - N tbl (k + 1)) (S tbl - N tbl k) := by
  simp only [prob, lo, hi, window, overlap]
  rw [← sub_div, mul_max_of_nonneg _ _ hq.le, mul_zero, mul_div_cancel₀ _ hq.ne']
  congr 1; ring

/-- sum over the positive units of the table -/
private theorem sum_overlap (tbl : List (K × ι)) (c d : K) (h0c : 0 ≤ c) (hcd : c ≤ d) (hd : d ≤ posSum tbl) :
    ∑ a ∈ Finset.range tbl.length,
      (if 0 < rate tbl a then overlap (P tbl a) (rate tbl a) c d else 0) = d - c := by
  have h1 := sumPosRec_eq_sum (fun p q => overlap p q c d) tbl 0
  have h2 := overlap_sum tbl 0 c d hcd
  rw [overlap_full _ _ _ h0c hcd hd] at h2
  rw [← h2, h1]
  apply Finset.sum_congr rfl
  intro a _
  simp [rate, P]

private theorem sum_rate_mul (tbl : List (K × ι)) (c : K) :
    ∑ a ∈ Finset.range tbl.length, (if 0 < rate tbl a then rate tbl a * c else 0) = posSum tbl * c := by
  have h1 := sumPosRec_eq_sum (fun _ q => q * c) tbl 0
  have h2 : ∀ (t : List (K × ι)) (p : K), sumPosRec (fun _ q => q * c) t p = posSum t * c := by
    intro t
    induction t with
    | nil => intro p; simp [sumPosRec, posSum]
    | cons x t ih =>
      intro p
      obtain ⟨r, i⟩ := x
      unfold sumPosRec posSum
      split
      · rw [ih]; ring
      · exact ih p
  rw [← h2 tbl 0, h1]
  apply Finset.sum_congr rfl
  intro a _
  simp [rate]

/-- **Global balance of the lifted flow.**  For every table (any size, any insertion order, zeros allowed)
whose derivatives sum to zero, every scheme and every unit `k` of the negative list: summed over the active
units `a` weighted by their positive derivative `q a`, the probability of selecting `k` equals `n_k`, the
magnitude of `k`'s derivative. -/
theorem flow_balance (sch : Scheme) (tbl : List (K × ι)) (hz : total tbl = 0) {k : Nat}
    (hk : k < (negOf tbl).length) :
    ∑ a ∈ Finset.range tbl.length, (if 0 < rate tbl a then rate tbl a * prob sch tbl a k else 0) =
      nrate tbl k := by
  have hS := S_eq_posSum hz
  have hN : N tbl (k + 1) - N tbl k = nrate tbl k := by rw [N_succ tbl hk]; ring
  have hmono : N tbl k ≤ N tbl (k + 1) := N_mono tbl (Nat.le_succ k)
  cases sch
  · -- inside
    rw [← hN, ← sum_overlap tbl (N tbl k) (N tbl (k + 1)) (N_nonneg tbl k) hmono (hS ▸ N_le_S tbl (k + 1))]
    apply Finset.sum_congr rfl
    intro a _
    split
    · next h => exact rate_mul_prob_inside h k
    · rfl
  · -- outside
    have := sum_overlap tbl (S tbl - N tbl (k + 1)) (S tbl - N tbl k)
      (by linarith [N_le_S tbl (k + 1)]) (by linarith) (by linarith [N_nonneg tbl k])
    rw [show nrate tbl k = S tbl - N tbl k - (S tbl - N tbl (k + 1)) by rw [← hN]; ring, ← this]
    apply Finset.sum_congr rfl
    intro a _
    split
    · next h => exact rate_mul_prob_outside h k
    · rfl
  · -- ratio
    have hprob : ∀ a, prob .ratio tbl a k = nrate tbl k / S tbl := by
      intro a
      have hSn : 0 ≤ S tbl := by rw [hS]; exact posSum_nonneg tbl
      simp only [prob, lo, hi]
      rw [← sub_div, hN, max_eq_right]
      apply div_nonneg _ hSn
      rw [← hN]; linarith
    simp only [hprob]
    rw [sum_rate_mul, ← hS]
    by_cases hS0 : S tbl = 0
    · have h1 := N_le_S tbl (k + 1)
      have h2 := N_nonneg tbl k
      rw [hS0]; simp; linarith
    · field_simp

/-! ### the probabilities as Lebesgue measures (real reading) -/

section measure
open MeasureTheory

/-- the set of admissible draws (of the draw the scheme's choice depends on: `u` for inside/outside, `u2` for
ratio; the other one is the parameter `w`) for which unit `k` is selected when `a` is active -/
def selSet (o : Ops ℝ) (sch : Scheme) (tbl : List (ℝ × ι)) (a k : Nat) (w : ℝ) : Set ℝ :=
  match sch with
  | .ratio => {u2 | DrawOK .ratio w u2 ∧ chooseIdx o .ratio tbl a w u2 = .ok k}
  | s => {u | DrawOK s u w ∧ chooseIdx o s tbl a u w = .ok k}

private theorem prob_nonneg (sch : Scheme) (tbl : List (K × ι)) (a k : Nat) : 0 ≤ prob sch tbl a k := le_max_left _ _

/-- **The probability of selecting `k` is `prob`**: the Lebesgue measure of the set of uniform draws for which
the scheme selects unit `k` (with `a` active) is `prob sch tbl a k`. -/
theorem selection_measure (o : Ops ℝ) (h0 : o.ofInt 0 = 0) {tbl : List (ℝ × ι)} {a : Nat} (V : Valid tbl a)
    (sch : Scheme) (w : ℝ) {k : Nat} (hk : k < (negOf tbl).length) :
    volume (selSet o sch tbl a k w) = ENNReal.ofReal (prob sch tbl a k) := by
  have hmax : ∀ x : ℝ, ENNReal.ofReal (max 0 x) = ENNReal.ofReal x := by
    intro x
    rcases le_total 0 x with h | h
    · rw [max_eq_right h]
    · rw [max_eq_left h, ENNReal.ofReal_of_nonpos h, ENNReal.ofReal_zero]
  cases sch
  · have : selSet o .inside tbl a k w = Set.Ioc (lo .inside tbl a k) (hi .inside tbl a k) := by
      ext u
      simp only [selSet, Set.mem_ofPred_eq, Set.mem_Ioc]
      constructor
      · rintro ⟨hd, hc⟩
        exact ((sel_interval o h0 V .inside hd hk).1.mp hc)
      · rintro ⟨h1, h2⟩
        have hd : DrawOK .inside u w := by
          obtain ⟨_, hl, hh⟩ := sel_interval o h0 V .inside (u := 1) (u2 := w) ⟨one_pos, le_rfl⟩ hk
          exact ⟨lt_of_le_of_lt hl h1, le_trans h2 hh⟩
        exact ⟨hd, (sel_interval o h0 V .inside hd hk).1.mpr ⟨h1, h2⟩⟩
    rw [this, Real.volume_Ioc, prob, hmax]
  · have : selSet o .outside tbl a k w = Set.Ico (lo .outside tbl a k) (hi .outside tbl a k) := by
      ext u
      simp only [selSet, Set.mem_ofPred_eq, Set.mem_Ico]
      constructor
      · rintro ⟨hd, hc⟩
        exact ((sel_interval o h0 V .outside hd hk).1.mp hc)
      · rintro ⟨h1, h2⟩
        have hd : DrawOK .outside u w := by
          obtain ⟨_, hl, hh⟩ := sel_interval o h0 V .outside (u := 0) (u2 := w) ⟨le_rfl, one_pos⟩ hk
          exact ⟨le_trans hl h1, lt_of_lt_of_le h2 hh⟩
        exact ⟨hd, (sel_interval o h0 V .outside hd hk).1.mpr ⟨h1, h2⟩⟩
    rw [this, Real.volume_Ico, prob, hmax]
  · have : selSet o .ratio tbl a k w = Set.Ioc (lo .ratio tbl a k) (hi .ratio tbl a k) := by
      ext u
      simp only [selSet, Set.mem_ofPred_eq, Set.mem_Ioc]
      constructor
      · rintro ⟨hd, hc⟩
        exact ((sel_interval o h0 V .ratio hd hk).1.mp hc)
      · rintro ⟨h1, h2⟩
        have hd : DrawOK .ratio w u := by
          obtain ⟨_, hl, hh⟩ := sel_interval o h0 V .ratio (u := w) (u2 := 1) ⟨one_pos, le_rfl⟩ hk
          exact ⟨lt_of_le_of_lt hl h1, le_trans h2 hh⟩
        exact ⟨hd, (sel_interval o h0 V .ratio hd hk).1.mpr ⟨h1, h2⟩⟩
    rw [this, Real.volume_Ioc, prob, hmax]

/-- **Global balance, measure form**: summed over the active units weighted by their positive derivative, the
probability (Lebesgue measure of the set of uniform draws) of selecting unit `k` equals `|derivative of k|`. -/
theorem flow_balance_measure (o : Ops ℝ) (h0 : o.ofInt 0 = 0) (sch : Scheme) (tbl : List (ℝ × ι))
    (hz : total tbl = 0) (w : ℝ) {k : Nat} (hk : k < (negOf tbl).length) :
    ∑ a ∈ Finset.range tbl.length,
      (if 0 < rate tbl a then rate tbl a * (volume (selSet o sch tbl a k w)).toReal else 0) = nrate tbl k := by
  rw [← flow_balance sch tbl hz hk]
  apply Finset.sum_congr rfl
  intro a _
  split
  · next h =>
    rw [selection_measure o h0 ⟨hz, h⟩ sch w hk, ENNReal.toReal_ofReal (prob_nonneg sch tbl a k)]
  · rfl

/-- non-vacuity: an `Ops ℝ` with literal zero `0` exists (only `ofInt 0` is read by the exact lifting model) -/
noncomputable example : {o : Ops ℝ // o.ofInt 0 = 0} :=
  ⟨⟨fun n => n, fun x => x, fun x _ => x, fun _ => 0, fun _ => false, fun _ => 0, fun x => x⟩, by simp⟩

end measure

/-! ### determinism -/

/-- a reset forgets everything: the state after `reset` does not depend on the history, so a move
(`reset`, insertion loop, `get_active_identifier`) depends on nothing but the table and the draws -/
theorem reset_forgets {α ι : Type} (o : Ops α) (s s' : Lifting α ι) :
    Lifting.reset o s = Lifting.reset o s' := rfl

/-- the choice is a function of the table, the active unit and the draws (for every scalar type, so also
in binary64): stated for the record, it holds by construction of a pure function -/
theorem choose_deterministic {α ι : Type} [Add α] [Sub α] [Mul α] [Neg α] [LT α] [DecidableLT α] [LE α]
    [DecidableLE α] [BEq α] (o : Ops α) (sch : Scheme) (tbl tbl' : List (α × ι)) (a a' : Nat) (u u' u2 u2' : α)
    (h1 : tbl = tbl') (h2 : a = a') (h3 : u = u') (h4 : u2 = u2') :
    choose o sch tbl a u u2 = choose o sch tbl' a' u' u2' := by subst h1 h2 h3 h4; rfl

/-- the ratio scheme's choice does not depend on which unit is active nor on that unit's draw -/
theorem ratio_independent (o : Ops K) (h0 : o.ofInt 0 = 0) {tbl : List (K × ι)} {a a' : Nat} (V : Valid tbl a)
    (V' : Valid tbl a') (u u' u2 : K) :
    choose o .ratio tbl a u u2 = choose o .ratio tbl a' u' u2 := by
  rw [choose_eq o h0 V, choose_eq o h0 V', chooseIdx_eq o h0 V, chooseIdx_eq o h0 V']
  rfl

/-! ### error outcomes -/

/-- an active unit whose derivative is not positive trips the `assert` of `Lifting.insert` -/
theorem choose_assertion (o : Ops K) (h0 : o.ofInt 0 = 0) (sch : Scheme) (tbl : List (K × ι)) {a : Nat}
    (ha : a < tbl.length) (hq : ¬ 0 < (tbl[a]).1) (u u2 : K) :
    choose o sch tbl a u u2 = .error .assertion := by
  unfold choose fill
  rw [fill_assertion o h0 a u tbl 0 a (empty o) ha (by omega) rfl hq]

/-- without an active unit every scheme raises `LiftingSchemeError` (for every scalar type) -/
theorem get_notRecorded {α ι : Type} [Add α] [Sub α] [Mul α] [Neg α] [LT α] [DecidableLT α] [LE α]
    [DecidableLE α] [BEq α] (o : Ops α) (s : Lifting α ι) (h : s.recorded = false) (u2 : α) :
    getInside o s = .error .notRecorded ∧ (getOutside o s).2 = .error .notRecorded ∧
      (getOutside o s).1 = s ∧ getRatio o s u2 = .error .notRecorded := by
  simp [getInside, getOutside, getRatio, h]

/-! ### the binary64 reading: the known findings as theorems about the float model

The same definitions, instantiated with native binary64 (`Ops.float`, what the driver runs and the
correspondence compares bit for bit with the real classes), evaluated by the kernel on the witnesses of
`known_findings/C05.json`.  The first three are the float faces of the boundary theorems above; the last three
(fall-through to a zero-derivative last entry) have no exact counterpart — `chooseIdx_total` shows that in
exact arithmetic the loop never falls through; in binary64 the naive running sum of the loop, the position and
(outside, ratio) CPython's compensated `sum()` round differently. -/

/-- bit pattern -> binary64 -/
def fb (b : UInt64) : Float := Float.ofBits b

/-- the move returned identifier `i` -/
def okIs (r : Except LiftErr Nat) (i : Nat) : Bool := match r with | .ok j => j == i | _ => false

/-- known finding `inside:position<=0:zero-derivative-first-entry-selected`:
derivatives [1.0, 0.0, -1.0] (identifiers 10, 11, …), active unit number 0, `u = 0.0`,
`u2 = 0.5`: the unit with identifier 11, whose derivative is `0.0`, is selected -/
theorem binary64_inside_zero_draw :
    okIs (choose Ops.float .inside
     [(fb 4607182418800017408, 10),
      (fb 0, 11),
      (fb 13830554455654793216, 12)]
      0 (fb 0) (fb 4602678819172646912)) 11 = true := by
  decide +kernel

/-- known finding `ratio:position<=0:zero-derivative-first-entry-selected`:
derivatives [1.0, 0.0, -1.0] (identifiers 10, 11, …), active unit number 0, `u = 0.3`,
`u2 = 0.0`: the unit with identifier 11, whose derivative is `0.0`, is selected -/
theorem binary64_ratio_zero_draw :
    okIs (choose Ops.float .ratio
     [(fb 4607182418800017408, 10),
      (fb 0, 11),
      (fb 13830554455654793216, 12)]
      0 (fb 4599075939470750515) (fb 0)) 11 = true := by
  decide +kernel

/-- known finding `outside:position<=0:zero-derivative-first-entry-selected`:
derivatives [1.0, 8.673617379884035e-19, 0.0, -1.0, -8.673617379884035e-19] (identifiers 10, 11, …), active unit number 1, `u = 0.5`,
`u2 = 0.5`: the unit with identifier 12, whose derivative is `0.0`, is selected -/
theorem binary64_outside_absorbed_draw :
    okIs (choose Ops.float .outside
     [(fb 4607182418800017408, 10),
      (fb 4336966441157787648, 11),
      (fb 0, 12),
      (fb 13830554455654793216, 13),
      (fb 13560338478012563456, 14)]
      1 (fb 4602678819172646912) (fb 4602678819172646912)) 12 = true := by
  decide +kernel

/-- known finding `inside:fall-through:zero-derivative-last-entry-selected`:
derivatives [1.0, 1.6653345369377348e-16, -1.0, -8.326672684688674e-17, -8.326672684688674e-17, 0.0] (identifiers 10, 11, …), active unit number 1, `u = 0.9`,
`u2 = 0.5`: the unit with identifier 15, whose derivative is `0.0`, is selected -/
theorem binary64_inside_fall_through :
    okIs (choose Ops.float .inside
     [(fb 4607182418800017408, 10),
      (fb 4370743438363066368, 11),
      (fb 13830554455654793216, 12),
      (fb 13589611875590471680, 13),
      (fb 13589611875590471680, 14),
      (fb 0, 15)]
      1 (fb 4606281698874543309) (fb 4602678819172646912)) 15 = true := by
  decide +kernel

/-- known finding `outside:fall-through:zero-derivative-last-entry-selected`:
derivatives [1.0, 1.6653345369377348e-16, -1.0, -8.326672684688674e-17, -8.326672684688674e-17, 0.0] (identifiers 10, 11, …), active unit number 0, `u = 0.0`,
`u2 = 0.5`: the unit with identifier 15, whose derivative is `0.0`, is selected -/
theorem binary64_outside_fall_through :
    okIs (choose Ops.float .outside
     [(fb 4607182418800017408, 10),
      (fb 4370743438363066368, 11),
      (fb 13830554455654793216, 12),
      (fb 13589611875590471680, 13),
      (fb 13589611875590471680, 14),
      (fb 0, 15)]
      0 (fb 0) (fb 4602678819172646912)) 15 = true := by
  decide +kernel

/-- known finding `ratio:fall-through:zero-derivative-last-entry-selected`:
derivatives [1.0, 8.326672684688674e-17, 8.326672684688674e-17, 8.326672684688674e-17, 8.326672684688674e-17, -1.0, -8.326672684688674e-17, -8.326672684688674e-17, -8.326672684688674e-17, -8.326672684688674e-17, 0.0] (identifiers 10, 11, …), active unit number 0, `u = 0.5`,
`u2 = 0.9999999999999999`: the unit with identifier 20, whose derivative is `0.0`, is selected -/
theorem binary64_ratio_fall_through :
    okIs (choose Ops.float .ratio
     [(fb 4607182418800017408, 10),
      (fb 4366239838735695872, 11),
      (fb 4366239838735695872, 12),
      (fb 4366239838735695872, 13),
      (fb 4366239838735695872, 14),
      (fb 13830554455654793216, 15),
      (fb 13589611875590471680, 16),
      (fb 13589611875590471680, 17),
      (fb 13589611875590471680, 18),
      (fb 13589611875590471680, 19),
      (fb 0, 20)]
      0 (fb 4602678819172646912) (fb 4607182418800017407)) 20 = true := by
  decide +kernel

/-! ### the exact reading over `ℚ` (`Ops.rat`) and non-vacuity -/

private theorem rat_zero : Ops.rat.ofInt 0 = 0 := by simp [Ops.rat]

/-- `flow_balance`, `choose_negative` for the rational reading of the model -/
theorem flow_balance_rat (sch : Scheme) (tbl : List (ℚ × ι)) (hz : total tbl = 0) {k : Nat}
    (hk : k < (negOf tbl).length) :
    ∑ a ∈ Finset.range tbl.length, (if 0 < rate tbl a then rate tbl a * prob sch tbl a k else 0) =
      nrate tbl k := flow_balance sch tbl hz hk

theorem choose_negative_rat {tbl : List (ℚ × ι)} {a : Nat} (V : Valid tbl a) (sch : Scheme) {u u2 : ℚ}
    (hd : DrawOK sch u u2) :
    ∃ r i, (r, i) ∈ tbl ∧ r < 0 ∧ choose Ops.rat sch tbl a u u2 = .ok i :=
  choose_negative Ops.rat rat_zero V sch hd

/-- a 2+3 table with a zero entry, a duplicated magnitude and units of both signs interleaved -/
def exTbl : List (ℚ × Nat) := [(0, 7), (3/4, 1), (-1/2, 4), (1/4, 2), (-1/2, 9), (0, 3)]

/-- non-vacuity of `Valid`: both positive units of `exTbl` are admissible active units -/
example : Valid exTbl 1 ∧ Valid exTbl 3 := by
  refine ⟨⟨by norm_num [exTbl, total], by norm_num [exTbl, rate]⟩,
    ⟨by norm_num [exTbl, total], by norm_num [exTbl, rate]⟩⟩

/-- non-vacuity of `DrawOK` -/
example : DrawOK .inside (1/2 : ℚ) 0 ∧ DrawOK .outside (0 : ℚ) 0 ∧ DrawOK .ratio (0 : ℚ) 1 := by
  norm_num [DrawOK]

/-- non-vacuity of the hypotheses of the three boundary theorems: `exTbl` with unit 1 active has no positive
unit before it and a zero-derivative unit (identifier 7) heading its negative list -/
example : P exTbl 1 = 0 ∧ negOf exTbl = (0, 7) :: [(1/2, 4), (1/2, 9), (0, 3)] ∧
    P exTbl 3 + rate exTbl 3 = S exTbl := by
  refine ⟨by norm_num [exTbl, P, posSum], by norm_num [exTbl, negOf], ?_⟩
  norm_num [exTbl, P, posSum, rate, S, negOf, total]

end JF.C05
