import Mathlib.Tactic.Linarith
import JF.Model.Lifting
/-!
# C05 — Lifting schemes route probability flow so that every unit's outflow is matched
(placeholder: first easy theorem; the real theorems follow)
-/
namespace JF.C05
open JF JF.Lifting

/-- a reset forgets everything: the state after `reset` does not depend on the history -/
theorem reset_forgets {α ι : Type} (o : Ops α) (s s' : Lifting α ι) :
    Lifting.reset o s = Lifting.reset o s' := rfl

end JF.C05
